"""Generic driver for the L-trace + L-api harnesses: run a harness several times in parallel, read its ORACLE verdict,
replay the recorded atomic transitions through the Lean model (dvdriver <mode> files...)."""
import os, re, subprocess
from common import sh


def run_traces(ctx, harness, runs, mode, explained_re, layer, sig, extra=(), timeout=300, keep=False):
    if os.environ.get("VERIF_FAILFAST") and (ctx.violations or ctx.proof_broken):
        return      # regression runs over seeded changes only ask "caught or not": do not sit out the time-outs of the remaining workloads
    h = ctx.harness(harness, extra=list(extra))
    drv = ctx.driver() if mode else None
    procs, paths, items = [], [], 0
    for i, args in enumerate(runs):
        path = os.path.join(ctx.outdir, "%s-%d.txt" % (harness, i))
        f = open(path, "w")
        cmd = [h] + [str(a) for a in args]
        procs.append((subprocess.Popen(cmd, stdout=f, stderr=subprocess.DEVNULL), f, path, cmd))
    for p, f, path, cmd in procs:
        try:
            rc = p.wait(timeout=timeout)
        except subprocess.TimeoutExpired:
            p.kill(); rc = -9
        f.close()
        head = [l.strip() for l in open(path) if l.startswith(("ORACLE", "STUCK"))][:1]
        if rc == -9:
            ctx.violation("%s workload hung: %s" % (sig, " ".join(cmd[1:])), {"cmd": cmd}, signature=sig + ":hang")
        elif head and ("VIOL" in head[0] or head[0].startswith("STUCK")):
            ctx.violation("%s oracle: %s" % (sig, head[0][:300]), {"cmd": cmd, "trace": path}, signature=sig + ":" + re.sub(r"seed=\d+ ", "", head[0][12:])[:60])
        elif head:
            m = re.search(r"items=(\d+)", head[0]); items += int(m.group(1)) if m else 0
        else:
            ctx.violation("%s harness died without a verdict (rc=%s): %s" % (sig, rc, " ".join(cmd[1:])), {"cmd": cmd}, signature=sig + ":crash")
        paths.append(path)
    ex = 0
    if drv:
        r = sh([drv, mode] + paths)
        m = re.search(explained_re, r.stdout); ex = int(m.group(1)) if m else 0
        ctx.cov["layers"].setdefault(layer, {})["replay"] = r.stdout.strip().splitlines()[0][:400] if r.stdout.strip() else ""
        if r.returncode != 0:
            bad = [l for l in r.stdout.splitlines() if ": E " in l][:3]
            for b in bad:
                ctx.broken("L-trace (%s): transition of the real library not explained by the model: %s" % (sig, b.split(": E ", 1)[1][:200]))
            if not bad:
                ctx.broken("L-trace (%s) replay failed" % sig, r.stdout[-300:])
    ctx.count(layer, items + ex, ex if mode else items, samples=[{"cmd": harness + " " + " ".join(str(a) for a in runs[0])}], oracle_items=items, transitions_explained=ex)
    if not keep and not ctx.violations and not ctx.proof_broken:
        for p in paths:
            try: os.remove(p)
            except OSError: pass
    return items, ex
