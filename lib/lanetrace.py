"""Shared driver for the lane workloads (harness/tr_lane.c): run the multi-threaded workload on the hooked library,
check the oracle verdict, replay the recorded dq_state transitions through the Lean models (dvdriver lane)."""
import os, re, subprocess
from common import sh


def forced(ctx, harness, sig_ok_prefix, viol_signature, what):
    """Run a forced-schedule reproducer (prints ORACLE lines, exit 1 on violation) and report."""
    h = ctx.harness(harness)
    try:
        p = subprocess.run([h], stdout=subprocess.PIPE, stderr=subprocess.DEVNULL, text=True, timeout=120)
        out = p.stdout.strip().splitlines()
    except subprocess.TimeoutExpired:
        out = ["ORACLE VIOL %s: the forced schedule hung" % what]
    viol = [l for l in out if l.startswith("ORACLE VIOL")]
    ctx.cov["layers"].setdefault("forced schedules", {})[harness] = out[:3]
    if viol:
        ctx.violation(viol[0][12:400], {"cmd": [h], "stdout": out[:4]}, signature=viol_signature)
    return not viol


def run_lane(ctx, configs, layer="L-trace lane", what="lane", order_property=False):
    """configs: list of (threads, ops, serial_only[, chain[, width]]) - chain=1 makes the serial queue target the concurrent one, chain=2 also makes the concurrent queue target a second concurrent queue; width>0 runs the narrow-queue workload (width<0: the same width with barrier items and the barrier-exclusion oracle, no item waiting for another) (concurrent queue limited to that width, flooded, first item waiting for the last). Returns number of transitions explained.
    order_property: the calling property is about submission order (C02 / C04): synchronous fast-path overtakes classified
    by the harness as instances of finding F15 are reported (as that finding); the other properties ignore them."""
    h = ctx.harness("tr_lane")
    drv = ctx.driver()
    procs = []
    for i, cfgi in enumerate(configs):
        thr, ops, serial = cfgi[:3]; chain = cfgi[3] if len(cfgi) > 3 else 0; width = cfgi[4] if len(cfgi) > 4 else 0
        seed = ctx.seed * 1000 + i
        path = os.path.join(ctx.outdir, "%s-trace-%d.txt" % (what, i))
        f = open(path, "w")
        cmdl = [h, str(seed), str(thr), str(ops), str(serial), str(chain), str(width)]
        procs.append((subprocess.Popen(cmdl, stdout=f, stderr=subprocess.DEVNULL), f, path, cmdl))
    paths, items, events, overtakes = [], 0, 0, 0
    for p, f, path, cmd in procs:
        try:
            rc = p.wait(timeout=300)
        except subprocess.TimeoutExpired:
            p.kill(); rc = -9
        f.close()
        head = []
        with open(path) as fh:
            for line in fh:
                if line.startswith("E "):
                    break
                head.append(line.strip())
        stuck = [l for l in head if l.startswith("STUCK")]
        viol = [l for l in head if l.startswith("ORACLE VIOL")]
        ok = [l for l in head if l.startswith("ORACLE ok")]
        if stuck or rc == -9:
            ctx.violation("lane workload made no progress for 20 s: %s" % (stuck[0] if stuck else "harness timed out"),
                          {"cmd": cmd, "trace": path, "note": "accepted work items never ran or synchronous submissions never returned"}, signature="lane:stuck")
        elif viol:
            ctx.violation("lane oracle: " + viol[0][:300], {"cmd": cmd, "trace": path}, signature="lane:" + viol[0][12:60])
        elif ok:
            m = re.search(r"items=(\d+) events=(\d+)", ok[0])
            items += int(m.group(1)); events += int(m.group(2))
            mo = re.search(r"sync_fastpath_overtakes=(\d+)", ok[0])
            overtakes += int(mo.group(1)) if mo else 0
        elif rc < 0 or rc > 3:
            ctx.violation("lane workload died without a verdict (exit status %s): the library trapped or crashed" % rc, {"cmd": cmd, "trace": path}, signature="lane:crash")
        else:
            ctx.broken("lane harness produced no verdict", " ".join(cmd))
        paths.append(path)
    ctx.cov["layers"].setdefault(layer, {})["sync_fastpath_overtakes_F15"] = overtakes
    if overtakes and order_property:
        ctx.violation("%d synchronous fast-path submission(s) ran before an asynchronous item whose submission had already returned (each began while a first pusher had exchanged the tail but not yet woken the queue)" % overtakes,
                      {"cmd": "tr_lane ...", "count": overtakes}, signature="lane:order:sync-fastpath-overtakes:storm")
    explained = 0
    if drv and paths:
        r = sh([drv, "lane"] + paths)
        last = [l for l in r.stdout.splitlines() if l.startswith("transitions")]
        ctx.cov["layers"].setdefault(layer, {})["replay"] = last[0] if last else r.stdout[-300:]
        m = re.search(r"explained-by-LaneW.step (\d+)", r.stdout)
        explained = int(m.group(1)) if m else 0
        m2 = re.search(r"explained-by-SuspendP.step (\d+)", r.stdout)
        explained += int(m2.group(1)) if m2 else 0
        if r.returncode != 0:
            bad = [l for l in r.stdout.splitlines() if ": E " in l][:3]
            # a transition of the real library that no step of the model explains: the correspondence no longer checks
            for b in bad:
                ctx.broken("L-trace: dq_state transition not explained by the lane model: " + b.split(": E ", 1)[1][:200])
            if not bad:
                ctx.broken("L-trace replay failed", r.stdout[-400:])
    ctx.count(layer, items + explained, explained, samples=[{"cmd": "tr_lane %d %d %d %d" % (ctx.seed * 1000, configs[0][0], configs[0][1], configs[0][2])}],
              items_checked_by_oracle=items, atomic_events=events, transitions_explained=explained)
    if not ctx.violations and not ctx.proof_broken:
        for p in paths:
            try: os.remove(p)
            except OSError: pass
    return explained
