"""Generators G1-G4: read /repo's current working tree (through the compiler / the hooked build) and
rewrite lean/DispatchVerif/Generated/*.lean. The Lean models and property theorems import these files,
so they are re-checked against what the code says now."""
import os, re, subprocess
from common import VERIF, REPO, LEAN, SCRATCH, build, compile_flags, sh, write_if_changed, BuildError, Lock, VARIANTS

GEN = os.path.join(VERIF, "gen")
GENERATED = os.path.join(LEAN, "DispatchVerif", "Generated")


def _compile_with_lib_flags(src, out, bdir, link_lib=False):
    flags = compile_flags(bdir)
    cmd = [f for f in flags if f not in ("-Werror",)] + ["-Wno-everything", "-I" + os.path.join(REPO, "src"), src, "-o", out]
    if link_lib:
        cmd += ["-L" + bdir, "-ldispatch", "-lBlocksRuntime", "-Wl,-rpath," + bdir]
    r = sh(cmd)
    if r.returncode != 0:
        raise BuildError("generator compile failed: %s\n%s" % (src, r.stdout[-3000:]))
    return out


def _lean_str(s):
    return '"' + s.replace("\\", "\\\\").replace('"', '\\"') + '"'


def run_generators():
    """Returns dict name -> changed?; raises BuildError if /repo does not build."""
    bdir = build("hooked")
    bindir = os.path.join(SCRATCH, "bin", "gen")
    os.makedirs(bindir, exist_ok=True)
    changed = {}
    with Lock("gen"):
        # G1 constants
        exe = _compile_with_lib_flags(os.path.join(GEN, "consts.c"), os.path.join(bindir, "consts"), bdir)
        changed["Consts"] = write_if_changed(os.path.join(GENERATED, "Consts.lean"), subprocess.check_output([exe], text=True))
        # G2 tables
        exe = _compile_with_lib_flags(os.path.join(GEN, "tables.c"), os.path.join(bindir, "tables"), bdir, link_lib=True)
        changed["Tables"] = write_if_changed(os.path.join(GENERATED, "Tables.lean"), subprocess.check_output([exe], text=True))
        # G3 atomic sites (from the hooked library itself)
        exe = os.path.join(bindir, "sites")
        r = sh([VARIANTS["hooked"][0], "-O1", os.path.join(GEN, "sites.c"), "-o", exe, "-L" + bdir, "-ldispatch", "-lBlocksRuntime", "-Wl,-rpath," + bdir])
        if r.returncode != 0:
            raise BuildError("sites generator: " + r.stdout[-2000:])
        rows = set()
        for l in subprocess.check_output([exe], text=True).splitlines():
            f, fn, op, order, line, expr = l.split("\t")
            rows.add((f, fn, op, order, expr))
        body = ["/-! generated from the hooked build of /repo by gen/sites.c on every check run — do not edit.",
                "    One entry per distinct (file, function, primitive, memory order, location expression) among the",
                "    os_atomic_* expansions compiled into the library. -/", "namespace Gen",
                "structure Site where", "  file : String", "  func : String", "  op : String", "  order : String", "  expr : String",
                "  loc : String    -- the field the location expression names (last `->field` / `.field`, else last identifier)",
                "deriving DecidableEq, Repr", "", "def sites : List Site := ["]
        def _loc(expr):
            m = re.findall(r"(?:->|\.)\s*([A-Za-z_]\w*)", expr)
            if m:
                return m[-1]
            m = re.findall(r"[A-Za-z_]\w*", expr)
            return m[-1] if m else ""
        body += ["  ⟨%s, %s, %s, %s, %s, %s⟩," % tuple(_lean_str(x) for x in row + (_loc(row[4]),)) for row in sorted(rows)]
        body[-1] = body[-1].rstrip(",")
        body += ["]", "end Gen", ""]
        changed["Sites"] = write_if_changed(os.path.join(GENERATED, "Sites.lean"), "\n".join(body))
        # G4 decision maps (global queue lookup), evaluated by running the real functions
        exe = _compile_with_lib_flags(os.path.join(GEN, "globalq.c"), os.path.join(bindir, "globalq"), bdir, link_lib=True)
        changed["GlobalQ"] = write_if_changed(os.path.join(GENERATED, "GlobalQ.lean"), subprocess.check_output([exe], text=True))
    return changed
