"""Shared machinery of the /verif checks: scratch builds of /repo, the Lean build and proof audit,
differential runs, verdicts, known findings and evidence files."""
import fcntl, hashlib, json, os, re, shutil, subprocess, sys, time, glob

VERIF = os.path.dirname(os.path.dirname(os.path.abspath(__file__)))
REPO = os.environ.get("DVERIF_REPO", "/repo")
SCRATCH = os.environ.get("DVERIF_SCRATCH", "/var/tmp/dverif")
LEAN = os.path.join(VERIF, "lean")
OUT = os.path.join(VERIF, "out")
GUARD = "DISPATCH_VERIF"
ALLOWED_AXIOMS = {"propext", "Classical.choice", "Quot.sound"}
FORBIDDEN = re.compile(r"\bsorry\b|\badmit\b|^\s*axiom\s|\bnative_decide\b|\bbv_decide\b|implemented_by|\bunsafe\s|maxHeartbeats\s+0\b", re.M)

TRUSTED_BASE = [
    "Lean 4.33.0 kernel (thorough tier: re-checked by leanchecker); axioms limited to propext, Classical.choice, Quot.sound; no sorry/admit/native_decide/bv_decide/user axioms",
    "generators gen/* (constants, tables, atomic-site table, decision maps) compiled with the library's own flags by clang-16",
    "correspondence machinery: hooks guarded by DISPATCH_VERIF, harness/*, the line protocol and the diff; it is differential testing and covers only the inputs/traces generated (counts in this file)",
    "interleaving (sequentially consistent) models at the granularity of libdispatch's atomic operations; kernel primitives (futex, sem, epoll, timerfd, read/write), clocks, malloc and the blocks runtime are assumptions",
    "Linux/x86-64 configuration of this build only (internal workqueue, epoll, futex, no kevent workloops)",
]


def log(*a):
    print(*a, file=sys.stderr, flush=True)


def sh(cmd, **kw):
    kw.setdefault("stdout", subprocess.PIPE)
    kw.setdefault("stderr", subprocess.STDOUT)
    kw.setdefault("text", True)
    return subprocess.run(cmd, **kw)


class Lock:
    def __init__(self, name):
        os.makedirs(SCRATCH, exist_ok=True)
        self.path = os.path.join(SCRATCH, name + ".lock")

    def __enter__(self):
        self.f = open(self.path, "w")
        fcntl.flock(self.f, fcntl.LOCK_EX)
        return self

    def __exit__(self, *a):
        fcntl.flock(self.f, fcntl.LOCK_UN)
        self.f.close()


# ---------------------------------------------------------------------------------------------
# scratch builds of /repo's working tree

TREE_PARTS = ["src", "dispatch", "private", "os", "cmake", "config", "CMakeLists.txt"]


def tree_hash():
    h = hashlib.sha256()
    for part in TREE_PARTS:
        p = os.path.join(REPO, part)
        if os.path.isfile(p):
            files = [p]
        else:
            files = []
            for root, dirs, fs in os.walk(p):
                dirs.sort()
                for f in sorted(fs):
                    files.append(os.path.join(root, f))
        for f in files:
            try:
                data = open(f, "rb").read()
            except OSError:
                continue
            h.update(os.path.relpath(f, REPO).encode() + b"\0" + hashlib.sha256(data).digest())
    return h.hexdigest()[:16]


VARIANTS = {
    # name: (cc, cxx, extra c flags, extra link flags)
    "hooked": ("clang-16", "clang++-16", "-DDISPATCH_VERIF=1", ""),
    "asan": ("clang-14", "clang++-14", "-DDISPATCH_VERIF=1 -fsanitize=address -fno-omit-frame-pointer", "-fsanitize=address"),
}


class BuildError(Exception):
    pass


def build(variant="hooked"):
    """Build /repo's current working tree (hooks on) into SCRATCH/<variant>; incremental; returns the build dir."""
    cc, cxx, cflags, ldflags = VARIANTS[variant]
    th = tree_hash()
    d = os.path.join(SCRATCH, variant)
    with Lock("build-" + variant):
        stamp = os.path.join(d, ".dverif-tree")
        if os.path.exists(stamp) and open(stamp).read() == th and os.path.exists(os.path.join(d, "libdispatch.so")):
            return d
        t0 = time.time()
        if not os.path.exists(os.path.join(d, "build.ninja")):
            shutil.rmtree(d, ignore_errors=True)
            os.makedirs(d, exist_ok=True)
            r = sh(["cmake", "-G", "Ninja", "-S", REPO, "-B", d, "-DCMAKE_BUILD_TYPE=RelWithDebInfo",
                    "-DCMAKE_C_COMPILER=" + cc, "-DCMAKE_CXX_COMPILER=" + cxx,
                    "-DCMAKE_C_FLAGS=-Wno-error " + cflags, "-DCMAKE_CXX_FLAGS=" + cflags,
                    "-DCMAKE_SHARED_LINKER_FLAGS=" + ldflags, "-DBUILD_TESTING=OFF"])
            if r.returncode != 0:
                raise BuildError("cmake configure failed:\n" + r.stdout[-3000:])
        r = sh(["cmake", "--build", d])
        if r.returncode != 0:
            # a stale configuration (e.g. CMakeLists changed) gets one clean retry
            shutil.rmtree(d, ignore_errors=True)
            os.makedirs(d, exist_ok=True)
            r0 = sh(["cmake", "-G", "Ninja", "-S", REPO, "-B", d, "-DCMAKE_BUILD_TYPE=RelWithDebInfo",
                     "-DCMAKE_C_COMPILER=" + cc, "-DCMAKE_CXX_COMPILER=" + cxx,
                     "-DCMAKE_C_FLAGS=-Wno-error " + cflags, "-DCMAKE_CXX_FLAGS=" + cflags,
                     "-DCMAKE_SHARED_LINKER_FLAGS=" + ldflags, "-DBUILD_TESTING=OFF"])
            r = sh(["cmake", "--build", d])
            if r.returncode != 0:
                raise BuildError("build of /repo (%s) failed:\n%s" % (variant, r.stdout[-4000:]))
        open(stamp, "w").write(th)
        log("[build] %s rebuilt from /repo working tree %s in %.1fs" % (variant, th, time.time() - t0))
        return d


def compile_flags(bdir):
    """The compile command line the library's own build uses for a C file of src/ (minus -o/-c/-MD), for generators."""
    r = sh(["ninja", "-C", bdir, "-t", "commands", "src/CMakeFiles/dispatch.dir/time.c.o"])
    line = [l for l in r.stdout.splitlines() if "time.c" in l][-1]
    toks = line.split()
    out, skip = [], 0
    for i, t in enumerate(toks):
        if skip:
            skip -= 1
            continue
        if t in ("-o", "-MT", "-MF"):
            skip = 1
            continue
        if t in ("-c", "-MD") or t.endswith("time.c"):
            continue
        out.append(t)
    return out  # first element is the compiler


def cc_harness(src, out, bdir, variant="hooked", extra=()):
    """Compile a harness against the scratch build of the library."""
    cc = VARIANTS[variant][0]
    san = ["-fsanitize=address", "-fno-omit-frame-pointer"] if variant == "asan" else []
    srcs = src if isinstance(src, (list, tuple)) else [src]
    newest = max(os.path.getmtime(s) for s in srcs)
    lib = os.path.join(bdir, "libdispatch.so")
    if os.path.exists(out) and os.path.getmtime(out) > newest and os.path.getmtime(out) > os.path.getmtime(lib):
        return out
    os.makedirs(os.path.dirname(out), exist_ok=True)
    cmd = [cc, "-O1", "-g", "-fblocks", "-D_GNU_SOURCE", "-Wno-everything", "-I" + REPO, "-I" + os.path.join(REPO, "private"),
           "-I" + os.path.join(VERIF, "harness")] + san + list(srcs) + ["-o", out,
           "-L" + bdir, "-ldispatch", "-lBlocksRuntime", "-lpthread", "-ldl", "-Wl,-rpath," + bdir] + list(extra)
    r = sh(cmd)
    if r.returncode != 0:
        raise BuildError("harness compile failed: %s\n%s" % (" ".join(cmd), r.stdout[-3000:]))
    return out


# ---------------------------------------------------------------------------------------------
# Lean

def write_if_changed(path, text):
    os.makedirs(os.path.dirname(path), exist_ok=True)
    if os.path.exists(path) and open(path).read() == text:
        return False
    open(path, "w").write(text)
    return True


def lake_build(targets):
    with Lock("lake"):
        t0 = time.time()
        r = sh(["lake", "build"] + list(targets), cwd=LEAN)
        return r.returncode == 0, r.stdout, time.time() - t0


def strip_lean_comments(s):
    out, i, depth, n = [], 0, 0, len(s)
    while i < n:
        if s.startswith("/-", i):
            depth += 1
            i += 2
        elif depth and s.startswith("-/", i):
            depth -= 1
            i += 2
        elif depth:
            i += 1
        elif s.startswith("--", i):
            j = s.find("\n", i)
            i = n if j < 0 else j
        else:
            out.append(s[i])
            i += 1
    return "".join(out)


def forbidden_tokens():
    hits = []
    for f in glob.glob(os.path.join(LEAN, "DispatchVerif", "**", "*.lean"), recursive=True) + \
            glob.glob(os.path.join(LEAN, "Driver", "**", "*.lean"), recursive=True):
        txt = strip_lean_comments(open(f).read())
        for m in FORBIDDEN.finditer(txt):
            hits.append("%s: %s" % (os.path.relpath(f, LEAN), m.group(0).strip()))
    return hits


def audit(module, theorems, extra_modules=()):
    """#print axioms for every registered theorem of a Props module. Returns {theorem: (ok, detail)}."""
    os.makedirs(os.path.join(LEAN, ".audit"), exist_ok=True)
    f = os.path.join(LEAN, ".audit", module.replace(".", "_") + ".lean")
    body = "import %s\n" % module + "".join("import %s\n" % m for m in extra_modules) + "".join("#print axioms %s\n" % t for t in theorems)
    open(f, "w").write(body)
    r = sh(["lake", "env", "lean", f], cwd=LEAN)
    res = {}
    txt = r.stdout
    for t in theorems:
        m = re.search(r"'%s' depends on axioms: \[([^\]]*)\]" % re.escape(t), txt, re.S)
        if m:
            ax = {a.strip() for a in m.group(1).replace("\n", " ").split(",") if a.strip()}
            bad = ax - ALLOWED_AXIOMS
            res[t] = (not bad, "axioms: " + ", ".join(sorted(ax)))
        elif re.search(r"'%s' does not depend on any axioms" % re.escape(t), txt):
            res[t] = (True, "no axioms")
        else:
            res[t] = (False, "not found / error")
    if r.returncode != 0:
        for l in txt.splitlines():
            if "error" in l:
                log("[audit] " + l)
    return res, txt


def leanchecker(module):
    r = sh(["lake", "env", "leanchecker", module], cwd=LEAN)
    return r.returncode == 0, r.stdout[-2000:]


# ---------------------------------------------------------------------------------------------
# PRNG (one splitmix64 stream per run)

class Rng:
    def __init__(self, seed):
        self.s = seed & 0xFFFFFFFFFFFFFFFF

    def u64(self):
        self.s = (self.s + 0x9E3779B97F4A7C15) & 0xFFFFFFFFFFFFFFFF
        z = self.s
        z = ((z ^ (z >> 30)) * 0xBF58476D1CE4E5B9) & 0xFFFFFFFFFFFFFFFF
        z = ((z ^ (z >> 27)) * 0x94D049BB133111EB) & 0xFFFFFFFFFFFFFFFF
        return z ^ (z >> 31)

    def below(self, n):
        return self.u64() % n if n > 0 else 0

    def choice(self, l):
        return l[self.below(len(l))]

    def chance(self, num, den):
        return self.below(den) < num

    def fork(self, tag):
        return Rng(self.u64() ^ int.from_bytes(hashlib.sha256(tag.encode()).digest()[:8], "big"))


# ---------------------------------------------------------------------------------------------
# a check run

class Ctx:
    def __init__(self, pid, tier, seed):
        self.pid, self.tier, self.seed = pid, tier, seed
        self.thorough = tier == "thorough"
        self.rng = Rng(seed * 1000003 + int(pid[1:]))
        self.t0 = time.time()
        self.obligations = []      # (name, ok, detail)
        self.violations = []       # dicts
        self.known = []            # dicts
        self.cov = {"evaluations": 0, "distinct_nontrivial": 0, "rule": "", "samples": [], "layers": {}}
        self.assumptions = []
        self.proof_broken = []     # names of theorems / correspondences that no longer check
        self.outdir = os.path.join(OUT, pid)
        os.makedirs(self.outdir, exist_ok=True)
        self._known_file = load_known_findings()

    # ---- builds
    def build(self, variant="hooked"):
        return build(variant)

    def harness(self, name, variant="hooked", extra_src=(), extra=()):
        b = self.build(variant)
        src = [os.path.join(VERIF, "harness", name + ".c")] + [os.path.join(VERIF, "harness", s) for s in extra_src]
        return cc_harness(src, os.path.join(SCRATCH, "bin", variant, name), b, variant, extra)

    def driver(self):
        ok, out, dt = lake_build(["dvdriver"])
        if not ok:
            self.broken("lean-driver-build", out[-3000:])
            return None
        return os.path.join(LEAN, ".lake", "build", "bin", "dvdriver")

    # ---- proof obligations
    def proof(self, module, theorems, extra_modules=()):
        """Build the Props module (against the freshly generated constants/tables) and audit every theorem."""
        ok, out, dt = lake_build([module] + list(extra_modules))
        self.cov["layers"]["lean_build_s"] = round(dt, 1)
        if not ok:
            errs = [l for l in out.splitlines() if "error" in l][:20]
            log("[proof] lake build %s FAILED\n%s" % (module, "\n".join(errs)))
        res, txt = audit(module, theorems, extra_modules)
        hits = forbidden_tokens()
        for t in theorems:
            good, detail = res.get(t, (False, "not checked"))
            if hits:
                good, detail = False, detail + "; forbidden tokens in library: " + "; ".join(hits[:5])
            if not ok and not good:
                detail += "; module does not build"
            self.obligations.append((t, good, detail))
            if not good:
                self.proof_broken.append("theorem " + t + " (" + detail + ")")
        if self.thorough and ok:
            okc, outc = leanchecker(module)
            self.obligations.append(("leanchecker " + module, okc, "independent re-check of the compiled module"))
            if not okc:
                self.proof_broken.append("leanchecker " + module + ": " + outc[-500:])
        return ok and all(g for _, g, _ in self.obligations)

    def broken(self, name, detail=""):
        self.proof_broken.append(name + (": " + detail if detail else ""))

    # ---- coverage accounting
    def count(self, layer, evaluations, distinct_nontrivial, samples=(), **extra):
        self.cov["evaluations"] += int(evaluations)
        self.cov["distinct_nontrivial"] += int(distinct_nontrivial)
        for s in list(samples)[:4]:
            if len(self.cov["samples"]) < 12:
                self.cov["samples"].append({"layer": layer, "case": s})
        d = self.cov["layers"].setdefault(layer, {})
        d["evaluations"] = d.get("evaluations", 0) + int(evaluations)
        d["distinct_nontrivial"] = d.get("distinct_nontrivial", 0) + int(distinct_nontrivial)
        d.update(extra)

    # ---- verdicts
    def violation(self, what, replay_obj, signature=None, found_input=True):
        """Record a violation; if it matches a known finding it is reported as such instead."""
        sig = signature or what
        for k in self._known_file.get("known", []):
            if k["property"] == self.pid and re.search(k["match"], sig):
                if not any(x["id"] == k["id"] for x in self.known):
                    self.known.append({"id": k["id"], "what": k["what"], "sig": sig})
                return False
        n = len(self.violations)
        path = os.path.join(self.outdir, "replay-%s-%d-%d.json" % (self.tier, self.seed, n))
        json.dump({"property": self.pid, "what": what, "signature": sig, "found_failing_input": found_input,
                   "replay": replay_obj, "seed": self.seed, "tier": self.tier}, open(path, "w"), indent=1, default=str)
        self.violations.append({"what": what, "replay": path, "found_input": found_input})
        return True

    # ---- differential comparison of two line streams
    def diff_streams(self, layer, lines, real, model, nontrivial=None, ignore=None):
        """lines: inputs; real/model: outputs (lists of str). Returns list of (input, real, model) that differ."""
        diffs = []
        if len(real) != len(lines) or len(model) != len(lines):
            diffs.append(("<stream length>", "real=%d" % len(real), "model=%d inputs=%d" % (len(model), len(lines))))
        seen = set()
        for i, l in enumerate(lines):
            r = real[i] if i < len(real) else "<missing>"
            m = model[i] if i < len(model) else "<missing>"
            if ignore and ignore(l, r, m):
                continue
            if r != m:
                diffs.append((l, r, m))
            if nontrivial is None or nontrivial(l, r):
                seen.add(l)
        self.count(layer, len(lines), len(seen), samples=[{"in": lines[i], "out": real[i]} for i in range(0, min(len(lines), len(real)), max(1, len(lines) // 3))][:3])
        return diffs

    def finish(self, level_text=""):
        # a proof obligation or a correspondence that no longer checks, with no failing input found
        if self.proof_broken and not any(v["found_input"] for v in self.violations):
            path = os.path.join(self.outdir, "replay-%s-%d-unproved.json" % (self.tier, self.seed))
            json.dump({"property": self.pid, "no_longer_checks": self.proof_broken, "found_failing_input": False,
                       "note": "a proof obligation or the model/implementation correspondence no longer checks on this tree; "
                               "the search for a concrete failing input found none"}, open(path, "w"), indent=1)
            self.violations.append({"what": "; ".join(self.proof_broken)[:300], "replay": path, "found_input": False})
        obl = len(self.obligations)
        dis = sum(1 for _, g, _ in self.obligations if g)
        cov = dict(self.cov)
        cov.update({
            "obligations": obl, "discharged": dis,
            "obligation_list": [{"theorem": n, "ok": g, "detail": d} for n, g, d in self.obligations],
            "checker_cmd": "cd /verif/lean && lake build DispatchVerif.Props.%s && lake env lean .audit/DispatchVerif_Props_%s.lean  (#print axioms per theorem)%s" % (self.pid, self.pid, "; lake env leanchecker DispatchVerif.Props.%s" % self.pid if self.thorough else ""),
            "trusted_base": TRUSTED_BASE,
            "known_findings_reported": self.known,
            "no_longer_checks": self.proof_broken,
        })
        if cov["distinct_nontrivial"] < 2 and cov["evaluations"] >= 2:
            pass
        ev = {"property_id": self.pid, "tier": self.tier, "seed": self.seed, "level": "proof", "coverage": cov,
              "assumptions": self.assumptions, "wall_s": round(time.time() - self.t0, 2), "violations": len(self.violations)}
        os.makedirs(os.path.join(VERIF, "evidence"), exist_ok=True)
        json.dump(ev, open(os.path.join(VERIF, "evidence", self.pid + ".json"), "w"), indent=1, default=str)
        for k in self.known:
            print("KNOWN-FINDING: property=%s %s" % (self.pid, k["what"]))
        for v in self.violations:
            print("VIOLATION property=%s replay=%s%s" % (self.pid, v["replay"], "" if v["found_input"] else " no-failing-input-found"))
        print("%s %s tier=%s seed=%d obligations=%d/%d evaluations=%d wall=%.0fs" % (
            self.pid, "FAIL" if self.violations else "ok", self.tier, self.seed, dis, obl, cov["evaluations"], time.time() - self.t0))
        return 1 if self.violations else 0


def load_known_findings():
    p = os.path.join(VERIF, "known_findings.json")
    if os.path.exists(p):
        return json.load(open(p))
    return {"known": [], "fixed": []}


def run_lines(exe, lines, env=None, timeout=600, cwd=None):
    """Feed lines to a line-protocol executable; returns output lines."""
    e = dict(os.environ)
    if env:
        e.update(env)
    p = subprocess.run([exe] if isinstance(exe, str) else exe, input="\n".join(lines) + "\n", stdout=subprocess.PIPE,
                       stderr=subprocess.PIPE, text=True, env=e, timeout=timeout, cwd=cwd)
    return p.stdout.splitlines(), p.returncode, p.stderr
