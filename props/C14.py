"""C14 — dispatch I/O delivers every byte once, in order; each operation completes once."""
import subprocess
from common import run_lines

META = {
    "text": "Lean theorems over a model of a stream read operation of io.c (buffer sizing, read() outcome, deliver_data flags, stream-handler result switch, dispose) "
            "state for every legal sequence of kernel outcomes: delivered data concatenated = bytes consumed, at most the requested length, no delivery above the high-water mark, "
            "non-final deliveries at least the low-water mark, done exactly once and last, never a zero-length read. The check feeds the outcome sequences the kernel really "
            "produced on pipes (short reads, EAGAIN, EOF, staged arrival) to the model and compares the requested length of every read() and every handler call. "
            "Submission order, barrier, close -> ECANCELED, cleanup exactly once after all handlers, handler non-re-entrance and write conservation under short writes are "
            "observed by an oracle on the real library.",
    "note": "Partial: the write path, the channel orchestration (queues, groups, barriers) and disk/random-access scheduling are not modelled; those clauses are covered by "
            "the L-api oracle only (sampling). Trusted: Lean kernel, read()/write() interposition, the harness.",
    "technique": "Lean 4 proof (invariant over all outcome sequences, case analysis by simp/omega) + replay of real read() outcome sequences + L-api oracle with short-write injection",
}

THEOREMS = ["C14.read_conservation", "C14.read_at_most_length", "C14.step_spec", "C14.read_len_pos"]


def gen_lines(r, n):
    out = []
    for _ in range(n):
        total = r.choice([0, 1, 2, 5, 12, 100, 1000, 5000, 70000, r.below(3000)])
        length = r.choice([-1, -1, total, max(0, total - 1), total + 5, r.below(total + 2), 0 if r.chance(1, 20) else 1 + r.below(200)])
        low = r.choice([-1, -1, 0, 1, 2, 7, 64, 1000, r.below(300)])
        high = r.choice([-1, -1, 1, 2, 5, 64, 1000, 4096, 1 + r.below(500)])
        if (0 <= high <= 8 or any(False for _ in ())) and total > 3000:
            total = r.below(3000)
            length = min(length, total + 5)
        if r.chance(1, 2) or total == 0:
            stages = [total]
        else:
            stages, left = [], total
            while left > 0 and len(stages) < 20:
                m = min(left, 1 + r.below(max(1, total // 2))); stages.append(m); left -= m
            if left: stages.append(left)
        caps = [r.choice([1, 2, 3, 7, 64, 1000, 10 ** 9, 1 + r.below(100)]) for _ in range(r.below(12))]
        if total > 3000:
            caps = [c for c in caps if c >= 64]
        out.append("I %d %d %d %d %s | %s" % (length, low, high, total, ",".join(map(str, stages)), " ".join(map(str, caps))))
    return out


def run(ctx):
    ctx.proof("DispatchVerif.Props.C14", THEOREMS)
    ctx.assumptions += ["read() returns between 1 and the requested number of bytes, 0 at end of file, or fails (kernel contract)",
                        "write path and channel orchestration: observed, not proved", "the DOP_DELIVER interval timer is not modelled (no interval set by the harness)"]
    drv = ctx.driver()
    h = ctx.harness("io", extra=["-ldl"])
    lines = gen_lines(ctx.rng.fork("io"), 6000 if ctx.thorough else 700)
    real, rc, err = run_lines(h, lines, timeout=400)
    stuck = [o for o in real if o.startswith("STUCK")]
    if stuck or len(real) < len(lines):
        i = len(real) - 1 if stuck else len(real)
        ctx.violation("a dispatch_io_read never delivered done: `%s` -> %s" % (lines[min(i, len(lines) - 1)], (stuck or ["(harness stopped)"])[0][:200]),
                      {"line": lines[min(i, len(lines) - 1)]}, signature="io:stuck")
        lines = lines[:len(real)]
    ctx.cov["rule"] = ("L-fn: dispatch_io_read on pipes with random length / water marks, bytes arriving in stages from a writer thread, read() capped per call; the (requested length, "
                       "result) sequence of every read() and every handler call (done, size, error, bytes) compared with IoP.handle driven by the real outcomes. Oracle: multi-operation "
                       "channels with barriers, close, cleanup, writes under short-write injection. distinct_nontrivial = distinct scenarios that performed at least one read()")
    if drv is not None:
        dl = []
        for l, o in zip(lines, real):
            f = l.split("|")[0].split()
            rets = [x.split(":")[1] for x in o.split(" ")[0][6:].split(",") if x]
            dl.append("IO %s %s %s %s" % (f[1], f[2], f[3], " ".join(rets)))
        model, _, _ = run_lines(drv, dl)
        reads = sum(len(o.split(" ")[0].split(",")) for o in real)
        eagain = sum(o.split(" ")[0].count(":-11") for o in real)
        diffs = ctx.diff_streams("L-fn io read", lines, real, model, nontrivial=lambda l, rr: not rr.startswith("reads= "))
        ctx.cov["layers"]["L-fn io read"].update({"read_calls": reads, "eagain_outcomes": eagain})
        for l, rr, m in diffs[:3]:
            ctx.broken("L-fn correspondence io.c vs IoP (scenario `%s`: real `%s`, model `%s`)" % (l[:120], rr[:200], m[:200]))
    ho = ctx.harness("c14_io", extra=["-ldl"])
    runs = 8 if ctx.thorough else 3
    procs = [subprocess.Popen([ho, str(ctx.seed * 100 + s), "60" if ctx.thorough else "30"], stdout=subprocess.PIPE, text=True) for s in range(runs)]
    for s, p in enumerate(procs):
        out, _ = p.communicate(timeout=600)
        if p.returncode != 0:
            ctx.violation("dispatch I/O oracle: " + out.strip()[:300], {"cmd": [ho, str(ctx.seed * 100 + s), "30"], "stdout": out}, signature="io:" + out.strip()[:50])
        else:
            ctx.cov["layers"].setdefault("oracle io", {})["run%d" % s] = out.strip()
    ctx.count("oracle io", runs * 30, runs * 30, samples=[{"cmd": "c14_io %d 30" % (ctx.seed * 100)}])


def replay(ctx, obj):
    r = obj["replay"]
    if "cmd" in r:
        p = subprocess.run(r["cmd"], stdout=subprocess.PIPE, text=True)
        print(p.stdout[-500:]); return p.returncode
    return 0
