"""C14 — dispatch I/O delivers every byte once, in order; each operation completes once."""
import subprocess, re
from common import run_lines
from tracecheck import run_traces
from lanetrace import forced

META = {
    "text": "Lean theorems over a model of a stream read operation of io.c (buffer sizing, read() outcome, deliver_data flags, stream-handler result switch, dispose) "
            "state for every legal sequence of kernel outcomes: delivered data concatenated = bytes consumed, at most the requested length, no delivery above the high-water mark, "
            "non-final deliveries at least the low-water mark, done exactly once and last, never a zero-length read; and over a model of a stream write (buffer selection over the regions of the data object, short writes, low-water filter, trimming): the bytes handed to the kernel are in order and each once a prefix of the submitted data, every data object passed to the handler is exactly the unwritten remainder, done once and last, never a zero-length write. The check feeds the outcome sequences the kernel really "
            "produced on pipes (short reads, EAGAIN, EOF, staged arrival) to the model and compares the requested length of every read() and every handler call. "
            "Submission order, barrier, close -> ECANCELED, cleanup exactly once after all handlers, handler non-re-entrance and write conservation under short writes are "
            "observed by an oracle on the real library.",
    "note": "Partial: the channel orchestration (queues, groups, barriers, close) and disk / random-access scheduling are not modelled; those clauses are covered by "
            "the L-api oracle only (sampling). The write path is modelled (IoW) and tied by its own differential run. Trusted: Lean kernel, read()/write() interposition, the harness.",
    "technique": "Lean 4 proof (invariant over all outcome sequences, case analysis by simp/omega) + replay of real read() outcome sequences + L-api oracle with short-write injection",
}

THEOREMS = ["C14.read_conservation", "C14.read_at_most_length", "C14.step_spec", "C14.read_len_pos", "C14.write_conservation", "C14.write_len_pos", "C14.write_cut_short_conservation", "C14.F42_as_found", "C14.barrier_runs_between", "C14.barrier_replay_sound", "C14.cleanup_after_all_handlers", "C14.cleanup_is_final", "C14.cleanup_replay_complete", "C14.cleanup_replay_quiet", "C14.cleanup_reachable", "C14.no_hold_on_torn_entry", "C14.F37_as_found", "C14.F37_fixed", "C14.stream_source_consistent", "C14.stream_no_stranded_operation", "C14.stream_idle_source_suspended", "C14.F32_as_found", "C14.F33_as_found", "C14.F35_as_found"]


def gen_lines(r, n):
    out = []
    for _ in range(n):
        total = r.choice([0, 1, 2, 5, 12, 100, 1000, 5000, 70000, r.below(3000)])
        length = r.choice([-1, -1, total, max(0, total - 1), total + 5, r.below(total + 2), 0 if r.chance(1, 20) else 1 + r.below(200)])
        low = r.choice([-1, -1, 0, 1, 2, 7, 64, 1000, r.below(300)])
        high = r.choice([-1, -1, 1, 2, 5, 64, 1000, 4096, 1 + r.below(500)])
        if (0 <= high <= 8 or any(False for _ in ())) and total > 3000:
            total = r.below(3000)
            length = min(length, total + 5)
        if r.chance(1, 2) or total == 0:
            stages = [total]
        else:
            stages, left = [], total
            while left > 0 and len(stages) < 20:
                m = min(left, 1 + r.below(max(1, total // 2))); stages.append(m); left -= m
            if left: stages.append(left)
        caps = [r.choice([1, 2, 3, 7, 64, 1000, 10 ** 9, 1 + r.below(100)]) for _ in range(r.below(12))]
        if total > 3000:
            caps = [c for c in caps if c >= 64]
        pages = ""
        if r.chance(1, 4):
            # a small chunk size (DISPATCH_IOCNTL_CHUNK_PAGES) brings the "low water above the chunk size" regime - data parked in
            # op->data across reads, buffer sized high - parked - within reach of small transfers
            pg = r.choice([1, 1, 2]); chunk = pg * 4096; pages = " %d" % pg
            total = r.choice([chunk * 3 + r.below(chunk), chunk * 5, 2 * chunk + 1, r.below(6 * chunk)])
            low = r.choice([chunk + 1 + r.below(chunk), chunk * 3 // 2, 2 * chunk, chunk * 3 // 2 + 64, -1])
            high = r.choice([low if low > 0 else chunk, (low if low > 0 else chunk) + r.below(chunk), chunk * 3 // 2, -1, 3 * chunk])
            length = r.choice([-1, -1, total, total + 5, r.below(total + 2)])
            stages = [total] if r.chance(1, 2) else [total // 3, total // 3, total - 2 * (total // 3)]
            stages = [x for x in stages if x > 0] or [total]
            caps = [c for c in caps if c >= 512]
        out.append("I %d %d %d %d %s%s | %s" % (length, low, high, total, ",".join(map(str, stages)), pages, " ".join(map(str, caps))))
    return out


def io_oracle(line, out):
    """The property's own statement evaluated on what the real handler saw (independent of the model): returns a message or None."""
    f = line.split("|")[0].split()
    length, low, high, total = int(f[1]), int(f[2]), int(f[3]), int(f[4])
    chunk = int(f[6]) * 4096 if len(f) > 6 else 1048576
    lo, hi = chunk, 2 ** 64 - 1
    if high >= 0:
        lo = min(lo, high); hi = 1 if high == 0 else high
    if low >= 0:
        if hi < low: hi = 1 if low == 0 else low
        lo = low
    m = out.split(" calls=", 1)
    if len(m) < 2 or not m[1]:
        return None
    calls = [c.split(":") for c in m[1].split("|")]
    got = b""
    for i, c in enumerate(calls):
        done, size, err = int(c[0]), int(c[1]), int(c[2])
        data = bytes.fromhex(c[3]) if c[3] != "-" else b""
        if len(data) != size:
            return None          # log truncated
        if done and i != len(calls) - 1:
            return "handler called again after done"
        if size > hi:
            return "a handler invocation received %d bytes, more than the high-water mark %d" % (size, hi)
        # (at end of file / on error the residue is delivered below the mark, followed only by the final done call)
        if not done and err == 0 and size < lo and i < len(calls) - 2 and (length < 0 or len(got) + size < length):
            return "a non-final handler invocation received %d bytes, fewer than the low-water mark %d" % (size, lo)
        got += data
    if not int(calls[-1][0]):
        return "the handler never saw done"
    want = bytes(i % 251 for i in range(len(got)))
    if got != want:
        return "delivered bytes are not the bytes of the descriptor in order (first difference at offset %d)" % next(i for i in range(len(got)) if got[i] != want[i])
    if length >= 0 and len(got) > length:
        return "delivered %d bytes, more than the requested %d" % (len(got), length)
    if int(calls[-1][2]) == 0 and len(got) != (min(total, length) if length >= 0 else total):
        return "delivered %d bytes of %d available (requested %d) without reporting an error" % (len(got), total, length)
    return None


def run(ctx):
    ctx.proof("DispatchVerif.Props.C14", THEOREMS)
    ctx.assumptions += ["read() returns between 1 and the requested number of bytes, 0 at end of file, or fails (kernel contract)",
                        "channel orchestration other than the barrier and cleanup clauses (submission order of stream operations): observed, not proved", "the DOP_DELIVER interval timer is not modelled in Lean; it is exercised at L-api only (c14_io sets a 1-5 ms interval, strict or not, on every third channel; c14_ebadf on every second file channel)"]
    drv = ctx.driver()
    h = ctx.harness("io", extra=["-ldl"])
    lines = gen_lines(ctx.rng.fork("io"), 6000 if ctx.thorough else 700)
    real, rc, err = run_lines(h, lines, timeout=400)
    stuck = [o for o in real if o.startswith("STUCK")]
    if stuck or len(real) < len(lines):
        i = len(real) - 1 if stuck else len(real)
        ctx.violation("a dispatch_io_read never delivered done: `%s` -> %s" % (lines[min(i, len(lines) - 1)], (stuck or ["(harness stopped)"])[0][:200]),
                      {"line": lines[min(i, len(lines) - 1)]}, signature="io:stuck")
        lines = lines[:len(real)]
    ctx.cov["rule"] = ("L-fn: dispatch_io_read on pipes with random length / water marks, bytes arriving in stages from a writer thread, read() capped per call; the (requested length, "
                       "result) sequence of every read() and every handler call (done, size, error, bytes) compared with IoP.handle driven by the real outcomes. Oracle: multi-operation "
                       "channels with barriers, close, cleanup, writes under short-write injection. distinct_nontrivial = distinct scenarios that performed at least one read()")
    judged = 0
    for l, o in zip(lines, real):
        msg = io_oracle(l, o)
        judged += 1
        if msg:
            ctx.violation("dispatch_io_read: %s (scenario `%s`)" % (msg, l.strip()[:160]), {"line": l, "real": o[:2000]}, signature="io:read:" + re.sub(r"\d+", "N", msg)[:60])
            break
    ctx.count("oracle io read", judged, judged, samples=[])
    if drv is not None:
        dl = []
        for l, o in zip(lines, real):
            f = l.split("|")[0].split()
            rets = [x.split(":")[1] for x in o.split(" ")[0][6:].split(",") if x]
            if len(f) > 6:
                dl.append("IOC %d %s %s %s %s" % (int(f[6]) * 4096, f[1], f[2], f[3], " ".join(rets)))
            else:
                dl.append("IO %s %s %s %s" % (f[1], f[2], f[3], " ".join(rets)))
        model, _, _ = run_lines(drv, dl)
        reads = sum(len(o.split(" ")[0].split(",")) for o in real)
        eagain = sum(o.split(" ")[0].count(":-11") for o in real)
        diffs = ctx.diff_streams("L-fn io read", lines, real, model, nontrivial=lambda l, rr: not rr.startswith("reads= "))
        ctx.cov["layers"]["L-fn io read"].update({"read_calls": reads, "eagain_outcomes": eagain})
        for l, rr, m in diffs[:3]:
            ctx.broken("L-fn correspondence io.c vs IoP (scenario `%s`: real `%s`, model `%s`)" % (l[:120], rr[:200], m[:200]))
    # write path: L-fn differential of a stream write (buffer selection over regions, short writes, water marks) against IoW
    hw = ctx.harness("iow", extra=["-ldl"])
    rw = ctx.rng.fork("iow")
    wlines = []
    for _ in range(3000 if ctx.thorough else 400):
        pages = rw.choice([256, 256, 1, 1, 2])
        nreg = 1 + rw.below(8)
        regs = [rw.choice([1, 6, 37, 300, 4096, 4097, 5000, 9000, 1 + rw.below(12000)]) for _ in range(nreg)]
        while sum(regs) > 200000:
            regs.pop()
        low = rw.choice([-1, -1, 8, 100, 5000, rw.below(9000)])
        high = rw.choice([-1, -1, 10, 64, 1000, 4096, 1 + rw.below(9000)])
        caps = [rw.choice([1, 3, 50, 1000, 4095, 10 ** 9, 1 + rw.below(6000)]) for _ in range(rw.below(10))]
        if (0 <= high <= 64) and sum(regs) > 4000:       # keep the number of write() calls moderate
            regs = [r % 700 + 1 for r in regs]
        wlines.append("W %d %d %d %s | %s" % (low, high, pages, ",".join(map(str, regs)), " ".join(map(str, caps))))
    wreal, _, _ = run_lines(hw, wlines, timeout=400)
    if len(wreal) < len(wlines) or any(o.startswith("STUCK") for o in wreal):
        i = min(len(wreal), len(wlines) - 1)
        ctx.violation("a dispatch_io_write never delivered done: `%s`" % wlines[i], {"line": wlines[i]}, signature="io:write:stuck")
        wlines = wlines[:len(wreal)]
    for l, o in zip(wlines, wreal):
        if " fd=BAD" in o:
            ctx.violation("dispatch_io_write: the bytes that arrived at the descriptor are not the submitted bytes in order (first difference at offset %s; scenario `%s`)"
                          % (o.split("fd=BAD:")[1], l.strip()[:160]), {"line": l, "real": o[:1500]}, signature="io:write:bytes")
            break
        f = l.split("|")[0].split(); total = sum(int(x) for x in f[4].split(","))
        calls = o.split(" calls=")[1].split(" fd=")[0].split("|")
        last = calls[-1].split(":")
        arrived = int(o.split(" fd=")[1])
        reported = 0 if last[1] == "-1" else int(last[1])
        if last[0] == "1" and arrived + reported != total:
            ctx.violation("dispatch_io_write: bytes at the descriptor (%d) + reported unwritten (%d) != submitted (%d) (scenario `%s`)" % (arrived, reported, total, l.strip()[:160]),
                          {"line": l, "real": o[:1500]}, signature="io:write:conservation")
            break
    if drv is not None and wlines:
        dl = []
        for l, o in zip(wlines, wreal):
            f = l.split("|")[0].split()
            rets = [x.split(":")[1] for x in o.split(" ")[0][7:].split(",") if x]
            dl.append("IOW %d %s %s %s %s" % (int(f[3]) * 4096, f[1], f[2], f[4], " ".join(rets)))
        wmodel, _, _ = run_lines(drv, dl)
        wcmp = [o.split(" fd=")[0] for o in wreal]
        diffs = ctx.diff_streams("L-fn io write", wlines, wcmp, wmodel, nontrivial=lambda l, rr: rr.count(",") > 0)
        for l, rr, m in diffs[:3]:
            ctx.broken("L-fn correspondence io.c (write) vs IoW (scenario `%s`: real `%s`, model `%s`)" % (l[:120], rr[:200], m[:200]))
    ho = ctx.harness("c14_io", extra=["-ldl"])
    runs = 8 if ctx.thorough else 3
    procs = [subprocess.Popen([ho, str(ctx.seed * 100 + s), "60" if ctx.thorough else "30"], stdout=subprocess.PIPE, text=True) for s in range(runs)]
    for s, p in enumerate(procs):
        out, _ = p.communicate(timeout=600)
        if p.returncode != 0:
            ctx.violation("dispatch I/O oracle: " + out.strip()[:300], {"cmd": [ho, str(ctx.seed * 100 + s), "30"], "stdout": out}, signature="io:" + out.strip()[:50])
        else:
            ctx.cov["layers"].setdefault("oracle io", {})["run%d" % s] = out.strip()
    ctx.count("oracle io", runs * 30, runs * 30, samples=[{"cmd": "c14_io %d 30" % (ctx.seed * 100)}])
    # barrier orchestration: the recorded history of a channel (submissions, barrier-group enter / leave, barrier-queue suspend /
    # resume, barrier blocks) replayed through IoCh.exec; the barrier clause evaluated on the same runs
    run_traces(ctx, "tr_iobar", [[ctx.seed * 10 + i, 1500 if ctx.thorough else 300] for i in range(3 if ctx.thorough else 2)], "iobar",
               r"explained-by-IoCh.exec (\d+)", "L-trace io barrier", "iobar", timeout=200)
    # peer hang-up under the stream sources of a channel: the sources of a hung-up descriptor (F27)
    run_traces(ctx, "c16_hangup", [[ctx.seed * 10 + 7, 1000 if ctx.thorough else 150]], None, None, "L-api hang-up", "hangup", timeout=600)
    # the stream of a descriptor shared by two channels under stop: forced histories (the handler requested twice - F32; a failed operation with other channels' operations queued behind it - F33) and a storm with data in small pieces
    run_traces(ctx, "c14_rearm", [[ctx.seed * 10 + i, 6000 if ctx.thorough else 700] for i in range(8 if ctx.thorough else 4)], "streamsrc", r"explained-by-StreamP.srcReplay (\d+)", "L-trace stream source", "rearm", timeout=600)
    # the convenience calls with nothing to transfer, freed memory poisoned (F37: a hold taken on a freed descriptor entry)
    run_traces(ctx, "c14_conv0", [[ctx.seed * 10 + i, 4000 if ctx.thorough else 1500] for i in range(4 if ctx.thorough else 2)], None, None, "L-api convenience zero-length", "conv0", timeout=400)
    # every placement of close / stop relative to an operation in flight (stop after a close that has taken effect included)
    run_traces(ctx, "c14_stopclose", [[ctx.seed * 10 + i, 150 if ctx.thorough else 50] for i in range(3 if ctx.thorough else 2)], None, None, "L-api close/stop placement", "stopclose", timeout=400)
    # fault sequence "an operation fails with EBADF": conservation for the other operations of the descriptor, other files untouched (F42)
    run_traces(ctx, "c14_ebadf", [[ctx.seed * 10 + i, 24 if ctx.thorough else 8] for i in range(3 if ctx.thorough else 2)], None, None, "L-api EBADF fault sequence", "ebadf", timeout=600)
    # known finding F31: a zero-length operation overtakes an earlier operation of its direction that is still waiting
    forced(ctx, "f31_zero_length_order", "F31", "io:order:zero-length-overtakes:forced-F31", "F31")
    # known finding F51: on a channel with a strict interval the handler of a later read can see done before the handler of an earlier one
    forced(ctx, "f51_interval_order", "F51", "io:order:interval-swaps-done:forced-F51", "F51")
    # known finding F52: a stop queued behind a pending dispatch_io_barrier never cancels the read the barrier waits for
    forced(ctx, "f52_stop_behind_barrier", "F52", "io:stop:behind-pending-barrier:forced-F52", "F52")
    # cleanup orchestration: the recorded history of the descriptor entry's close queue (suspensions / resumptions, handler calls,
    # cleanup handlers) replayed through IoHold.astep; the cleanup clause evaluated on the same runs
    run_traces(ctx, "tr_iohold", [[ctx.seed * 10 + i, 150 if ctx.thorough else 30] for i in range(4 if ctx.thorough else 2)], "iohold",
               r"explained-by-IoHold.astep (\d+)", "L-trace io cleanup", "iohold", timeout=300)

    # thorough: the stream / hold / close-stop workloads once more under AddressSanitizer (F37 and F38 were uses of freed memory)
    if ctx.thorough:
        n = 0
        for name, args in (("c14_conv0", [ctx.seed * 10 + 9, 1500]), ("c14_stopclose", [ctx.seed * 10 + 9, 60]), ("c14_ebadf", [ctx.seed * 10 + 9, 8]),
                           ("c14_rearm", [ctx.seed * 10 + 9, 1500]), ("tr_iohold", [ctx.seed * 10 + 9, 60]), ("c16_hangup", [ctx.seed * 10 + 9, 300])):
            try:
                ha = ctx.harness(name, variant="asan", extra=["-ldl"])
            except Exception as e:
                ctx.cov["layers"].setdefault("asan", {})[name] = "skipped: " + str(e)[:160]; continue
            cmd = [ha] + [str(a) for a in args]
            try:
                p = subprocess.run(cmd, stdout=subprocess.PIPE, stderr=subprocess.PIPE, text=True, errors="replace", timeout=900,
                                   env={"ASAN_OPTIONS": "detect_leaks=0:exitcode=99", "PATH": "/usr/bin:/bin", "MALLOC_PERTURB_": "165"})
                head = ([l for l in p.stdout.splitlines() if l.startswith("ORACLE")] or [""])[0]
                rc, err = p.returncode, p.stderr
            except subprocess.TimeoutExpired:
                head, rc, err = "ORACLE VIOL the workload hung under AddressSanitizer", 1, ""
            n += 1
            if rc != 0 or "VIOL" in head:
                what = (head if "VIOL" in head else "") or ([l for l in err.splitlines() if "ERROR" in l][:1] or ["exit %d" % rc])[0]
                ctx.violation("dispatch I/O under AddressSanitizer (%s): %s" % (name, what[:300]), {"cmd": cmd, "stderr": err[-2500:]}, signature="io:asan:" + name + ":" + what[:40])
            else:
                ctx.cov["layers"].setdefault("asan", {})[name] = head[:160]
        ctx.count("oracle io asan", n, n, samples=[{"cmd": "c14_conv0(asan) %d 1500" % (ctx.seed * 10 + 9)}])


def replay(ctx, obj):
    r = obj["replay"]
    if "cmd" in r:
        p = subprocess.run(r["cmd"], stdout=subprocess.PIPE, text=True)
        print(p.stdout[-500:]); return p.returncode
    return 0
