"""C03 — a serial target queue (or workloop) serialises every queue targeting it."""
import os, re, subprocess
from common import sh
from tracecheck import run_traces

META = {
    "text": "Lean theorems over hierarchies of serial lanes of any depth and fan-in (each member an instance of the single-lane model): the projection of a reachable "
            "hierarchy state onto any member is a reachable single-lane state (so exclusion / FIFO / no-strand hold per member), a thread running a drained item of a lane runs "
            "a drained item of every lane down the target chain, hence at most one item of the whole hierarchy runs at a time. Tie: on random hierarchies of the real library "
            "(serial and concurrent inner queues, retargeting while inactive, async / sync / barrier from several threads) every dq_state transition of every member is replayed "
            "through the single-lane model, and overlap / per-serial-member order are checked on the same runs.",
    "note": "Partial: concurrent inner lanes and dispatch_sync recursion through inner lanes are covered by the replay and the oracle, not by the theorem; workloops with kevent are "
            "not compiled on this platform.",
    "technique": "Lean 4 proof (projection onto the single-lane proof + stack invariant) + replay of real atomic traces of every member + overlap oracle",
}

THEOREMS = ["C03.member_is_a_lane", "C03.nested_hold", "C03.hier_exclusion"]


def run(ctx):
    ctx.proof("DispatchVerif.Props.C03", THEOREMS)
    ctx.assumptions += ["interleaving model; target queues are not changed after activation (the library crashes on that)"]
    h = ctx.harness("c03_hier", extra=["-ldl"])
    drv = ctx.driver()
    # (threads, ops, bottom): bottom 0 = serial queue, 1 = workloop
    runs = [(4, 300, 0), (6, 300, 0), (8, 200, 0), (3, 400, 0), (4, 300, 1), (6, 200, 1), (8, 400, 1), (8, 400, 1), (8, 400, 1), (10, 300, 1)] if not ctx.thorough else [(4, 3000, 0), (6, 2000, 0), (8, 1500, 0), (12, 1000, 0), (3, 3000, 0), (5, 2000, 0), (7, 1500, 0), (2, 3000, 0), (4, 2000, 1), (8, 1500, 1), (12, 1000, 1), (8, 1500, 1), (8, 1500, 1)]
    procs, paths, items = [], [], 0
    for i, (thr, ops, bottom) in enumerate(runs):
        path = os.path.join(ctx.outdir, "hier-%d.txt" % i)
        f = open(path, "w")
        cmd = [h, str(ctx.seed * 100 + i), str(thr), str(ops), str(bottom)]
        procs.append((subprocess.Popen(cmd, stdout=f, stderr=subprocess.DEVNULL), f, path, cmd))
    for p, f, path, cmd in procs:
        try:
            rc = p.wait(timeout=300)
        except subprocess.TimeoutExpired:
            p.kill(); rc = -9
        f.close()
        head = [l.strip() for l in open(path) if not l.startswith(("E ", "Q "))][:3]
        if any(l.startswith("ORACLE VIOL") for l in head):
            ctx.violation("hierarchy oracle: " + head[0][:300], {"cmd": cmd}, signature="hier:" + head[0][12:60])
        elif any(l.startswith("STUCK") for l in head) or rc == -9:
            ctx.violation("hierarchy workload made no progress: %s" % head[:1], {"cmd": cmd}, signature="hier:stuck")
        elif rc != 0 or not any(l.startswith("ORACLE ok") for l in head):
            ctx.violation("hierarchy workload died without a verdict (exit status %s): the library trapped or crashed" % rc, {"cmd": cmd}, signature="hier:crash")
        else:
            m = re.search(r"items=(\d+)", " ".join(head)); items += int(m.group(1)) if m else 0
        paths.append(path)
    # hierarchies whose bottom is the thread-bound main queue (drained run-loop style) or a serial queue, entered through dispatch_apply on a
    # concurrent queue above it: the iterations are items of the hierarchy too (one at a time, in index order)
    run_traces(ctx, "tr_apply", [[ctx.seed * 100 + 70 + i, 60 if ctx.thorough else 15] for i in range(3 if ctx.thorough else 2)], None, None, "L-api apply through hierarchies", "apply", timeout=400)
    explained = 0
    if drv:
        r = sh([drv, "lane"] + paths)
        m = re.search(r"explained-by-LaneW.step (\d+)", r.stdout); explained = int(m.group(1)) if m else 0
        ctx.cov["layers"].setdefault("L-trace hierarchy", {})["replay"] = ([l for l in r.stdout.splitlines() if l.startswith("transitions")] or [""])[0]
        if r.returncode != 0:
            for b in [l for l in r.stdout.splitlines() if ": E " in l][:3]:
                ctx.broken("L-trace: transition of a hierarchy member not explained by the single-lane model: " + b.split(": E ", 1)[1][:200])
    ctx.count("L-trace hierarchy", items + explained, explained, samples=[{"cmd": "c03_hier %d 4 300" % (ctx.seed * 100)}], items_checked_by_oracle=items)
    if not ctx.violations and not ctx.proof_broken:
        for p in paths:
            os.remove(p)
    ctx.cov["rule"] = ("random hierarchies (3-12 queues, serial bottom, serial/concurrent members, a third retargeted while inactive), 2-12 client threads issuing async / sync / "
                       "barrier_async at every level; global in-flight counter must never exceed one; per (serial queue, thread) sequence numbers must increase; all dq_state "
                       "transitions of all members replayed. distinct_nontrivial = transitions explained by the model")


def replay(ctx, obj):
    r = obj["replay"]
    if "cmd" in r:
        p = subprocess.run(r["cmd"], stdout=subprocess.PIPE, text=True)
        print("\n".join(l for l in p.stdout.splitlines() if not l.startswith("E "))[:800]); return 1 if "VIOL" in p.stdout or "STUCK" in p.stdout else 0
    return 0
