"""C05 — synchronous submission returns after completion; dispatch orders memory."""
from tracecheck import run_traces
from props.C03 import replay

META = {
    "text": "Lean theorems: (1) the thread event a contended synchronous caller parks on (EventP: inc/dec/load on dte_value around a futex wait that may return at any time): the wait "
            "returns only after the signaller's increment, hence after the item's execution or the transfer of the queue; the word stays legal; a signalled waiter is never parked for "
            "good. (2) happens-before over traces of annotated atomic accesses (C11 synchronises-with with release sequences): on a location modified only by read-modify-writes, what "
            "precedes a release write happens before what follows a later acquire read (hand-off edge). (3) the hypotheses of (2) for the edges the property lists - queue lock / unlock "
            "and MPSC push, thread event, group leave / wait / notify, semaphore signal / wait, once - are decided on the site table regenerated from the compiled library on every run "
            "(function, primitive, memory order, location of every os_atomic_* expansion), together with 'no atomic store to dq_state, dte_value, dg_state, dsema_value, dgo_once, "
            "dq_items_tail'. Tie: every dte_value transition of the real library under contended sync / barrier_sync / async_and_wait with randomly delayed futex wake-ups and "
            "delayed entry into futex wait (stale wake-ups at re-used event addresses do occur and are counted) is replayed through EventP's step functions, a thread may leave the "
            "wait only from the model's `done`. Oracle: check-summed plain payloads into items, plain results back after the call returns, a plain counter chained through the serial "
            "queue's items, plain slots through group wait / notify, semaphore and once.",
    "note": "Partial: the visibility half cannot fail on x86-64 (TSO) even with a weakened order - such a change breaks the decided site-table theorems and is reported with "
            "no-failing-input-found; dispatch_once's reader side is the platform's inline fast path (plain load), only its release side is in the table; the group-notify edge through "
            "the last leaver relies on the release sequence on dg_state plus the push of the notify block. 'Return after completion' for the uncontended paths is program order on "
            "the calling thread (C02 exclusion).",
    "technique": "Lean 4 proof (invariant of the event protocol; happens-before lemma by induction over the trace; decide over the generated site table) + replay of real atomic traces "
                 "under injected futex delays + payload oracle",
}

THEOREMS = ["C05.wait_returns_after_signal", "C05.event_sane", "C05.sync_runs_item_exclusively", "C05.handoff_edge", "C05.queue_release_sites", "C05.queue_acquire_sites",
            "C05.event_sites", "C05.group_sema_once_sites", "C05.once_return_sites", "C05.handoff_locations_rmw_only"]


def run(ctx):
    ctx.proof("DispatchVerif.Props.C05", THEOREMS)
    ctx.assumptions += ["atomic steps are sequentially consistent in EventP (the orders are treated separately by the site-table theorems)",
                        "one waiter and one signaller per thread event (the event lives in the waiter's sync context; the drainer that dequeues it signals it)",
                        "x86-64: dispatch_once's inline fast path reads the predicate with a plain load (TSO)"]
    n = 6000 if ctx.thorough else 1500
    runs = [[ctx.seed * 10 + i, thr, n, 60 if ctx.thorough else 25] for i, thr in enumerate([6, 3, 10, 16] if ctx.thorough else [6, 3, 10])]
    run_traces(ctx, "c05_hb", runs, "event", r"explained-by-EventP (\d+)", "L-trace thread event", "sync", extra=["-ldl"], timeout=900)
    # the synchronous hand-off through hierarchies (async_and_wait run by the drainer of a lower level, sync through several levels): an item
    # handed off this way runs under every lock of its chain - no two items of a serial level overlap, every call returns after its item
    run_traces(ctx, "c03_hier", [[ctx.seed * 100 + 60 + i, 6, 2000 if ctx.thorough else 300, 0] for i in range(4 if ctx.thorough else 2)], None, None, "L-api hand-off through hierarchies", "hier", extra=["-ldl"], timeout=400)
    # an active queue moved under a serial queue (and back) while synchronous submitters hand it to each other: a call returns only after its
    # item has run, with its result visible (c02_retarget's return / visibility oracle; the hand-off consults the queue's role in the hierarchy)
    run_traces(ctx, "c02_retarget", [[ctx.seed * 100 + 70 + i, 6, 4000 if ctx.thorough else 2000, i % 2] for i in range(3 if ctx.thorough else 2)], None, None, "L-api retargeted queue hand-off", "retarget", timeout=200)
    # "after dispatch_group_wait or a group notify block observes it": the leave implied by dispatch_group_async goes to the group the item was
    # submitted with, also when the item itself first submits into another group (tr_group nest)
    run_traces(ctx, "tr_group", [["nest", ctx.seed, 300 if ctx.thorough else 60]], None, None, "L-api nested group submissions", "group-nest", timeout=200)
    ctx.cov["rule"] = ("c05_hb: N threads x ops of sync / barrier_sync / async_and_wait / barrier_async_and_wait / async on one serial and one concurrent queue with payload checks, then "
                       "group / semaphore / once rounds; items = work items judged; transitions = dte_value transitions explained by EventP")
