"""C13 — dispatch_data objects behave as immutable byte strings."""
import os, re, subprocess
from common import run_lines, sh

META = {
    "text": "Lean theorems over a model of the representation of data.c (leaves, composites of range records, the special cases of create_concat / "
            "create_subrange / apply / copy_region) state, for every well-formed object and all offsets/lengths: concat = append, subrange = clamped slice (internal "
            "crash sites unreachable), size = length, apply tiles the string in order, copy_region contains the location, well-formedness is preserved "
            "(hence nothing outside the represented bytes is read). The model is compared with the real library on random operation trees on size, region "
            "tiling, bytes and copy_region results; destructor exactly-once / not-before-derived-objects is observed by an oracle, also on the sanitizer build.",
    "note": "Partial: reference counting / destructor timing is checked by the L-api oracle and ASan only (no theorem). Trusted: Lean kernel, harness; "
            "the transcription is validated by differential testing, not generated.",
    "technique": "Lean 4 proof (list take/drop/append lemmas, omega) + differential run on operation trees + destructor oracle under ASan",
}

THEOREMS = ["C13.concat_is_append", "C13.subrange_is_clamped_slice", "C13.size_is_length", "C13.apply_tiles_in_order", "C13.apply_early_stop",
            "C13.copy_region_contains", "C13.wf_closed", "C13.destructor_once_and_not_early", "C13.all_released_all_destroyed"]


def gen_lines(r, n):
    out = []
    for _ in range(n):
        toks, depth, hint = [], 0, 0
        for _ in range(1 + r.below(16)):
            k = r.below(10)
            if depth == 0 or k < 3:
                m = r.choice([0, 1, 1, 2, 3, 4, 5, 8, 12]); toks.append("L%d" % m); depth += 1; hint += m
            elif k < 6 and depth >= 2:
                toks.append("C"); depth -= 1
            elif k < 8:
                o = r.choice([0, 0, 1, 2, hint // 2, max(hint - 1, 0), hint, hint + 1, r.below(hint + 2)])
                l = r.choice([0, 1, 2, hint, hint + 3, max(hint - o, 0), r.below(hint + 2), 2 ** 63, 2 ** 64 - 1])
                toks.append("S%d,%d" % (o, l))
            elif k == 8 and depth < 8:
                toks.append("D"); depth += 1
            else:
                toks.append("R%d" % r.below(hint + 2))
        while depth >= 2 and r.chance(7, 10):
            toks.append("C"); depth -= 1
        out.append("X " + " ".join(toks))
    return out


def py_oracle(line, out):
    """the property's statement (byte-string semantics) evaluated on what the real library printed; None = holds"""
    toks = line.split()[1:]
    st, nleaf, rs = [], 1, []
    for tk in toks:
        if tk[0] == "L":
            k = int(tk[1:])
            if len(st) < 64: st.append(bytes((nleaf * 31 + i * 7 + 1) % 256 for i in range(k)))
            nleaf += 1
        elif tk == "C" and len(st) >= 2:
            b = st.pop(); a = st.pop(); st.append(a + b)
        elif tk == "D" and st and len(st) < 64:
            st.append(st[-1])
        elif tk[0] == "S" and st:
            o, l = map(int, tk[1:].split(","))
            st[-1] = st[-1][o:o + l] if o < len(st[-1]) else b""
        elif tk[0] == "R" and st:
            rs.append(int(tk[1:]))
    if not st:
        return None if out.strip() == "empty-stack" else "expected empty-stack"
    want = st[-1]
    f = out.split()
    robs = [x for x in f if x.startswith("R")]
    try:
        size = int([x for x in f if x.startswith("size=")][0][5:])
        regs = [x for x in f if x.startswith("regions=")][0][8:]
        byts = [x for x in f if x.startswith("bytes=")][0][6:]
    except Exception:
        return "unparseable output"
    if size != len(want): return "size %d, expected %d" % (size, len(want))
    if (byts if byts != "-" else "") != want.hex(): return "bytes differ from the denoted byte string"
    pos = 0
    for r in [x for x in regs.split(",") if x]:
        o, n = map(int, r.split(":"))
        if o != pos or n <= 0: return "regions do not tile the string in order (%s)" % regs[:60]
        pos += n
    if pos != size: return "regions do not cover the string"
    return None   # copy_region results are compared with the model only (they depend on the representation)


def run(ctx):
    ctx.proof("DispatchVerif.Props.C13", THEOREMS)
    ctx.assumptions += ["malloc succeeds", "offsets and lengths are size_t values (the model uses unbounded naturals; the harness feeds values up to 2^64-1)",
                        "destructor timing is observed, not proved"]
    drv = ctx.driver()
    h = ctx.harness("lfn")
    lines = gen_lines(ctx.rng.fork("data"), 60000 if ctx.thorough else 8000)
    real, rc, err = run_lines(h, lines)
    bad = []
    for l, o in zip(lines, real):
        why = py_oracle(l, o)
        if why: bad.append((l, o, why))
    if len(real) < len(lines):
        bad.append((lines[len(real)], "(harness died)", "the library crashed or aborted on this program"))
    for l, o, why in bad[:3]:
        ctx.violation("dispatch_data: %s for program `%s` -> %s" % (why, l[:200], o[:160]), {"line": l, "real": o, "why": why}, signature="data:" + why.split()[0])
    ctx.cov["layers"]["byte-string oracle"] = {"evaluations": len(real), "failures": len(bad)}
    ctx.cov["rule"] = ("L-fn: random dispatch_data programs (leaves of 0-12 bytes, concat, dup, subrange with in-range / boundary / out-of-range / huge "
                       "offsets and lengths, copy_region) on a stack; real vs model on size, region tiling, bytes, copy_region results. Oracle: random "
                       "retain/release histories with destructor counting. distinct_nontrivial = distinct programs with at least one concat or subrange")
    if drv is not None:
        model, _, _ = run_lines(drv, lines)
        diffs = ctx.diff_streams("L-fn data", lines, real, model, nontrivial=lambda l, rr: " C" in l or " S" in l)
        for l, rr, m in diffs[:3]:
            ctx.broken("L-fn correspondence data.c vs DataP (program `%s`: real `%s`, model `%s`)" % (l[:160], rr[:120], m[:120]))
    # destructor oracle on both builds
    for variant in ("hooked", "asan"):
        try:
            hb = ctx.harness("c13_rc", variant=variant)
        except Exception as e:
            ctx.cov["layers"]["oracle destructors " + variant] = {"skipped": str(e)[:200]}
            continue
        rounds = 400 if ctx.thorough else 60
        runs = 0
        for s in range(4 if ctx.thorough else 2):
            seed = ctx.seed * 100 + s
            p = subprocess.run([hb, str(seed), str(rounds)], stdout=subprocess.PIPE, stderr=subprocess.PIPE, text=True, timeout=600,
                               env={"ASAN_OPTIONS": "detect_leaks=0:exitcode=99", "PATH": "/usr/bin:/bin"})
            runs += 1
            if p.returncode != 0:
                what = p.stdout.strip() or [l for l in p.stderr.splitlines() if "ERROR" in l][:1]
                ctx.violation("dispatch_data lifetime (%s build): %s" % (variant, what), {"cmd": [hb, str(seed), str(rounds)], "stdout": p.stdout, "stderr": p.stderr[-1500:]},
                              signature="rc:" + str(what)[:40])
        ctx.count("oracle destructors " + variant, runs * rounds, runs * rounds, samples=[{"cmd": "c13_rc %d %d" % (ctx.seed * 100, rounds)}])


    # reference counting: the operations of the harness replayed through DataRc.step, the destructors the library ran compared with the model's
    try:
        hb = ctx.harness("c13_rc")
        paths = []
        for s in range(3 if ctx.thorough else 2):
            path = os.path.join(ctx.outdir, "rc-%d.txt" % s)
            with open(path, "w") as f:
                rcode = subprocess.run([hb, str(ctx.seed * 100 + 50 + s), str(300 if ctx.thorough else 60), "2"], stdout=f, stderr=subprocess.DEVNULL, timeout=600).returncode
            if rcode != 0:
                ctx.violation("dispatch_data lifetime (logged run): " + open(path).readline().strip()[:200], {"cmd": [hb, str(ctx.seed * 100 + 50 + s), "60", "2"]}, signature="rc:logged")
            paths.append(path)
        if drv:
            r = sh([drv, "datarc"] + paths)
            m = re.search(r"explained-by-DataRc.step (\d+)", r.stdout); ex = int(m.group(1)) if m else 0
            ctx.cov["layers"].setdefault("L-trace data reference counts", {})["replay"] = r.stdout.strip().splitlines()[0][:300] if r.stdout.strip() else ""
            ctx.count("L-trace data reference counts", ex, ex, samples=[{"cmd": "c13_rc %d 60 2 | dvdriver datarc" % (ctx.seed * 100 + 50)}])
            if r.returncode != 0:
                for b in r.stdout.splitlines()[1:4]:
                    # a destructor that ran early / twice / never is the property's own failure; the log line is the replay
                    ctx.violation("dispatch_data reference counting: " + b[:300], {"cmd": [hb, str(ctx.seed * 100 + 50), "60", "2"], "detail": b}, signature="rc:replay:" + re.sub(r"\d+", "N", b.split(": ", 1)[-1])[:50])
        if not ctx.violations:
            for p_ in paths:
                try: os.remove(p_)
                except OSError: pass
    except Exception as e:
        ctx.cov["layers"]["L-trace data reference counts"] = {"skipped": str(e)[:200]}


def replay(ctx, obj):
    r = obj["replay"]
    if "cmd" in r:
        p = subprocess.run(r["cmd"], stdout=subprocess.PIPE, text=True)
        print(p.stdout); return p.returncode
    return 0
