"""C07 — groups complete exactly when their count returns to zero."""
import os, re, subprocess
from common import sh
from tracecheck import run_traces
from props.C03 import replay

META = {
    "text": "Lean theorems over the dispatch_group model (decoded dg_state word, notify list, futex on the generation; any number of threads, any history across generations): "
            "at quiescence with count 0 nothing is left behind and both flag bits are clear (reusable), every notification is submitted at most once and exactly once by then, a wait "
            "that returns 0 saw its generation pass, no sleeper is stranded; 'not before the work entered earlier has left' is proved for single-use groups and DISPROVED in general "
            "(F9, a reachable-state witness as a theorem; reproduced on the real library by a forced schedule on every run and reported as KNOWN-FINDING). Tie: every dg_state / dg_bits "
            "transition under multi-threaded storms is replayed through GroupP.step; wait-0 soundness, full timeouts, exactly-once and nothing-left-behind are evaluated on the same "
            "runs; early notifications are classified by whether another wake was in flight during the registration (the F9 family) - any other early notification is a violation.",
    "note": "Known finding F9 (known_findings.json). Generation counter modelled unbounded (a 2^32 wrap while a waiter is descheduled is an assumption). Interleaving model; futex = atomic "
            "compare-and-sleep, wake-all wakes every sleeper.",
    "technique": "Lean 4 proof (token / armed-leaver / sleeper invariants over ghost thread lists; F9 by executing the witness schedule) + replay of real atomic traces + history oracle",
}

THEOREMS = ["C07.no_stranded_notify", "C07.notify_at_most_once", "C07.notify_exactly_once", "C07.wait_zero_sound", "C07.no_stranded_waiter",
            "C07.notify_not_early_partial", "C07.F9_notify_not_early_is_false", "C07.consts"]


def run(ctx):
    ctx.proof("DispatchVerif.Props.C07", THEOREMS)
    ctx.assumptions += ["futex wait is an atomic compare-and-sleep; wake-all wakes every sleeper", "the 32-bit generation does not wrap while a waiter is descheduled",
                        "known finding F9: 'notify not early' holds only for notifications whose registration does not overlap another wake of the group"]
    h = ctx.harness("tr_group")
    drv = ctx.driver()
    runs = [["storm", str(ctx.seed * 100 + i), str(thr), str(ops), str(ga)] for i, (thr, ops, ga) in enumerate(
        [(4, 400, 0), (8, 300, 0), (6, 300, 1), (12, 200, 1)] if not ctx.thorough else
        [(4, 4000, 0), (8, 3000, 0), (12, 2000, 0), (16, 1500, 0), (6, 3000, 1), (12, 2000, 1), (3, 4000, 0), (2, 4000, 1)])]
    runs.append(["quiet", str(ctx.seed), "2000" if ctx.thorough else "300"])
    runs.append(["reenter", str(ctx.seed), "1500" if ctx.thorough else "150"])
    runs.append(["mixed", str(ctx.seed), "600" if ctx.thorough else "80"])
    runs.append(["wn", str(ctx.seed), "3000" if ctx.thorough else "400"])
    runs.append(["nest", str(ctx.seed), "400" if ctx.thorough else "60"])
    runs.append(["push", str(ctx.seed), "60" if ctx.thorough else "10"])
    runs.append(["f9"])
    procs, paths, items, overlap = [], [], 0, 0
    for i, args in enumerate(runs):
        path = os.path.join(ctx.outdir, "group-%d.txt" % i)
        f = open(path, "w")
        procs.append((subprocess.Popen([h] + args, stdout=f, stderr=subprocess.DEVNULL), f, path, [h] + args))
    for p, f, path, cmd in procs:
        try:
            rc = p.wait(timeout=300)
        except subprocess.TimeoutExpired:
            p.kill(); rc = -9
        f.close()
        head = [l.strip() for l in open(path) if l.startswith("ORACLE")][:1]
        if rc == -9:
            ctx.violation("group workload hung (a waiter or the harness never returned): " + " ".join(cmd[1:]), {"cmd": cmd}, signature="group:hang")
        elif head and "VIOL" in head[0]:
            if cmd[1] == "f9":
                ctx.violation(head[0][12:], {"cmd": cmd, "theorem": "C07.F9_notify_not_early_is_false"}, signature="group:notify-early:forced-F9")
            else:
                ctx.violation("group oracle: " + head[0][:300], {"cmd": cmd, "trace": path}, signature="group:" + head[0][12:70])
        elif head:
            m = re.search(r"items=(\d+)", head[0]); items += int(m.group(1)) if m else 0
            m = re.search(r"early_with_overlapping_wake=(\d+)", head[0]); overlap += int(m.group(1)) if m else 0
        else:
            ctx.violation("group harness died without a verdict (exit status %s): the library trapped or crashed: %s" % (rc, " ".join(cmd[1:])), {"cmd": cmd}, signature="group:crash")
        paths.append(path)
    if overlap:
        ctx.violation("%d notification(s) started before work entered before their registration had left, each registered while another wake of the group was in flight" % overlap,
                      {"cmd": "tr_group storm ..."}, signature="group:notify-early:overlapping-wake")
    if drv:
        r = sh([drv, "group"] + paths)
        m = re.search(r"explained-by-GroupP.step (\d+)", r.stdout); ex = int(m.group(1)) if m else 0
        ctx.cov["layers"].setdefault("L-trace group", {})["replay"] = r.stdout.strip().splitlines()[0][:400] if r.stdout.strip() else ""
        ctx.count("L-trace group", items + ex, ex, samples=[{"cmd": "tr_group " + " ".join(runs[0])}], notifications_and_rounds=items, f9_family_events=overlap)
        if r.returncode != 0:
            for b in [l for l in r.stdout.splitlines() if ": E " in l][:3]:
                ctx.broken("L-trace: dg_state transition not explained by GroupP.step: " + b.split(": E ", 1)[1][:200])
    if not [v for v in ctx.violations] and not ctx.proof_broken:
        for p in paths: os.remove(p)
    # "returns non-zero only after the full timeout has elapsed": timed waits on the three clocks while signals interrupt the waiter
    run_traces(ctx, "c12_waits", [[ctx.seed * 10 + 7]], None, None, "L-api timed waits under signals", "waits", timeout=120)
    ctx.cov["rule"] = ("c12_waits: timed dispatch_group_wait until past times and 40 ms ahead on the three clocks, signals at the waiter; tr_group storms (random enter/leave incl. nested, notify, timed and polling waits, with and without dispatch_group_async, 2-16 threads, perturbed at the group's "
                       "atomic sites), the quiet-registration scenario over hundreds of generations, and the forced F9 schedule. distinct_nontrivial = dg_state transitions explained by the model")
