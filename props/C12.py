"""C12 — dispatch_time arithmetic is monotone, clock-preserving and saturating."""
from common import run_lines

META = {
    "text": "Lean theorems over a transcription of dispatch_time / dispatch_walltime / _dispatch_timeout state the property for all 2^64 bases, "
            "all int64 deltas and all timespecs (time_shift, shifted_same_clock, shifted_monotone, forever_absorbing, walltime_*, timeout_past_is_zero); "
            "the transcription is tied to src/time.c on every run by constants generated from the headers and by an exact 64-bit differential run "
            "against the library rebuilt from the working tree with the clocks interposed; the property's statement is also evaluated directly on "
            "every real result, which is what produces the failing input when something breaks.",
    "note": "Trusted: Lean kernel; the transcription is validated, not generated (L-fn differential, ~70k inputs quick / ~700k thorough); clock readings "
            "assumed in the representable range; mach unit = ns. A timespec beyond +292 years is treated as FOREVER before delta is added (partial, stated).",
    "technique": "Lean 4 proof (omega over 64-bit wrap-around arithmetic) + generated constants + differential run vs the real library",
}

M = 2 ** 64
MAXV = 2 ** 62 - 1
FOREVER = M - 1
WALLNOW = M - 2
B63 = 2 ** 63

THEOREMS = ["C12.F36_far_future_not_exact", "C12.time_shift", "C12.base_range", "C12.shifted_same_clock", "C12.shifted_monotone", "C12.shifted_exact",
            "C12.forever_absorbing", "C12.walltime_shift", "C12.walltime_far_past", "C12.walltime_far_future_partial",
            "C12.walltime_now_shift", "C12.walltime_on_wall_clock", "C12.timeout_past_is_zero", "C12.wait_deadline_past_does_not_block", "C12.F17_as_found", "C12.F8_fixed", "C12.F1_fixed",
            "Tie.time_consts"]

SPECIALS = [0, 1, 2, 3, MAXV - 1, MAXV, MAXV + 1, 2 ** 62, B63 - 1, B63, B63 + 1, B63 + MAXV, B63 + 2 ** 62 - 1, B63 + 2 ** 62, B63 + 2 ** 62 + 1,
            M - MAXV - 1, M - MAXV, M - MAXV + 1, M - 4, M - 3, M - 2, M - 1]
DELTAS = [0, 1, -1, 2, -2, 3, -3, 2 ** 62 - 2, 2 ** 62 - 1, 2 ** 62, -(2 ** 62), 2 ** 63 - 1, -(2 ** 63), -(2 ** 63) + 1, 10 ** 9, -(10 ** 9)]


def gen_lines(rng, n):
    def rdelta():
        k = rng.below(5)
        if k == 0: return rng.below(M) - 2 ** 63
        if k == 1: return rng.choice(DELTAS)
        if k == 2: return rng.below(2000) - 1000
        if k == 3: return rng.choice([1, -1]) * min(2 ** 63 - 1, 2 ** (1 + rng.below(62)) + rng.below(5) - 2)
        return rng.below(2 ** 63) - 2 ** 62

    def rclock(lo):
        k = rng.below(6)
        if k == 0: return lo
        if k == 1: return MAXV - rng.below(3)
        if k == 2: return lo + rng.below(1000)
        if k == 3: return 1700000000 * 10 ** 9 + rng.below(10 ** 12)
        return lo + rng.below(MAXV - lo)

    def rbase():
        k = rng.below(7)
        if k == 0: return 1 + rng.below(MAXV)
        if k == 1: return B63 + 1 + rng.below(MAXV)
        if k == 2: return M - (3 + rng.below(MAXV - 2))
        if k == 3: return rng.choice(SPECIALS)
        if k == 4: return rng.below(M)
        if k == 5: return M - (3 + rng.below(200))
        return 1 + rng.below(1000)
    out = []
    for b in SPECIALS:
        for d in DELTAS:
            out.append("T %d %d %d %d %d" % (b, d, rclock(1), rclock(1), rclock(2)))
    for _ in range(n):
        b, d = rbase(), rdelta()
        nu, nm, nw = rclock(1), rclock(1), rclock(2)
        if rng.chance(1, 8):   # target the saturation boundaries of the decoded value
            v = b if b <= MAXV else (b - B63 if b < B63 + 2 ** 62 else M - b)
            if b in (0,): v = nu
            if b == B63: v = nm
            if b == WALLNOW: v = nw
            d = rng.choice([MAXV - v, MAXV - v - 1, 1 - v, 2 - v, -v, 3 - v, -v - 1]) if v < 2 ** 63 else d
            d = max(-2 ** 63, min(2 ** 63 - 1, d))
        out.append("T %d %d %d %d %d" % (b, d, nu, nm, nw))
    for _ in range(n // 3):
        k = rng.below(6)
        if k == 0: sec, ns = rng.below(2 ** 34) - 2 ** 33, rng.below(10 ** 9)
        elif k == 1: sec, ns = rng.below(5), rng.below(3)
        elif k == 2: sec, ns = (2 ** 62) // 10 ** 9 + rng.below(3) - 1, rng.below(10 ** 9)
        elif k == 3: sec, ns = (2 ** 63) // 10 ** 9 + rng.below(5) - 2, rng.below(10 ** 9)
        elif k == 4: sec, ns = rng.below(M) - 2 ** 63, rng.below(M) - 2 ** 63
        else: sec, ns = -(2 ** 63) // 10 ** 9 + rng.below(5) - 2, rng.below(10 ** 9)
        d = rdelta()
        if rng.chance(1, 4) and abs(sec) < 2 ** 40 and abs(ns) < 2 ** 62:
            b = sec * 10 ** 9 + ns
            d = max(-2 ** 63, min(2 ** 63 - 1, rng.choice([MAXV - b, MAXV - b - 1, 1 - b, 2 - b, 3 - b, -b])))
        out.append("WT %d %d %d" % (sec, ns, d))
    # a timespec beyond the int64 nanosecond range with a delta that brings the sum back into range (F36)
    out.append("WT 10000000000 0 -9223372036854775808")
    out.append("WT 9223372037 0 -5000000000000000000")
    for _ in range(n // 6):
        out.append("WN %d %d" % (rclock(2), rdelta()))
    for _ in range(n // 6):
        out.append("TO %d %d %d %d" % (rbase(), rclock(1), rclock(1), rclock(2)))
    # time passes between two readings of a clock: deadlines within a few steps of the reading, on every clock
    for _ in range(n // 6):
        nu, nm, nw = rclock(1), rclock(1), rclock(2)
        step = rng.choice([1, 7, 40, 1000, 10 ** 6])
        off = rng.below(6 * step) - 2 * step
        k = rng.below(3)
        if k == 0: t = max(1, min(MAXV, nu + off))
        elif k == 1: t = B63 + max(0, min(MAXV, nm + off))
        else: t = M - max(3, min(MAXV, nw + off))
        out.append("TOS %d %d %d %d %d" % (t, nu, nm, nw, step))
    # the absolute deadline a POSIX-semaphore wait is given: times around the clock reading, on every clock
    for _ in range(n // 6):
        nu, nm, nw = rclock(1), rclock(1), rclock(2)
        k = rng.below(8)
        off = rng.choice([-10 ** 12, -10 ** 9, -1, 0, 1, 10 ** 6, 10 ** 9, 10 ** 12]) + rng.below(1000) - 500
        if k < 2: t = max(1, min(MAXV, nu + off))
        elif k < 5: t = B63 + max(0, min(MAXV, nm + off))
        elif k < 7: t = M - max(3, min(MAXV, nw + off))
        else: t = rbase()
        out.append("TE %d %d %d %d" % (t, nu, nm, nw))
    return out


# ---- the property's own statement, evaluated on what the real library returned (the failing-input search)
def decode(t, nw):
    if t >= B63:
        if (t >> 62) & 1:
            v = nw if t == WALLNOW else (M - t) % M
            return "wall", (None if v > MAXV else v)
        v = t - B63
        return "mono", (None if v > MAXV else v)
    return "up", (None if t > MAXV else t)


def oracle_T(line, out):
    """returns None if the real result satisfies C12's statement for this input, else a description"""
    f = line.split()
    r = int(out)
    if f[0] == "T":
        t, d, nu, nm, nw = map(int, f[1:])
        if t == FOREVER:
            return None if r == FOREVER else "FOREVER not absorbing"
        c, v = decode(t, nw)
        if v is None:
            return None if r == FOREVER else "out-of-range base not FOREVER"
        if c == "up" and v == 0: v = nu
        if c == "mono" and v == 0: v = nm
        lo = 2 if c == "wall" else 1
        s = v + d
        if s >= MAXV:
            return None if r == FOREVER else "sum beyond the representable future but result %d" % r
        if r == FOREVER:
            return "FOREVER although the sum %d is not beyond the representable future" % s
        rc, rv = decode(r, nw)
        if rc != c:
            return "result on clock %s, base on clock %s" % (rc, c)
        want = max(lo, s)
        if c == "wall" and want == 2:
            return None if r == WALLNOW else "elapsed wall time expected"
        return None if rv == want else "value %s, expected %d" % (rv, want)
    if f[0] == "TE":
        # "waiting until a time that is already past does not block": the absolute deadline handed to sem_timedwait must not be
        # after the present wall-clock reading when the time is not after the reading of its own clock; for a future time the
        # wait must last what is left on that clock
        t, nu, nm, nw = map(int, f[1:])
        if t == FOREVER:
            return None if r == FOREVER else "FOREVER is not waited for forever"
        c, v = decode(t, nw)
        if v is None or not (1 <= nu <= MAXV and 1 <= nm <= MAXV and 2 <= nw <= MAXV):
            return None
        now = {"up": nu, "mono": nm, "wall": nw}[c]
        if c != "wall" and v == 0: v = now
        if v <= now:
            return None if r <= nw else "a %s-clock time that is already past becomes a wait of %d ns (deadline %d, wall clock now %d)" % (c, r - nw, r, nw)
        return None if r == nw + (v - now) else "a wait until a %s-clock time %d ns ahead is given %d ns" % (c, v - now, r - nw)
    if f[0] == "TOS":
        # "waiting until a time that is already past does not block", with time passing while the time-out is computed: the
        # relative time-out never exceeds what was left on the time's own clock when the call began
        t, nu, nm, nw, step = map(int, f[1:])
        c, v = decode(t, nw)
        if t == FOREVER or v is None or not (1 <= nu <= MAXV and 1 <= nm <= MAXV and 2 <= nw <= MAXV):
            return None
        now = {"up": nu, "mono": nm, "wall": nw}[c]
        if c != "wall" and v == 0: v = now
        left = max(0, v - now)
        return None if r <= left else "the time-out for a %s-clock time %d ns ahead is %d ns (the clock moved on by %d ns between two readings)" % (c, left, r, step)
    if f[0] == "WT":
        sec, ns, d = map(int, f[1:])
        b = sec * 10 ** 9 + ns
        s = b + d
        why = _wall_expect(s, r)
        if why and (not (-2 ** 63 <= sec * 10 ** 9 < 2 ** 63) or not (-2 ** 63 <= b < 2 ** 63)):
            # the timespec alone is beyond the int64 nanosecond range: the library saturates it before it looks at delta (finding F36).
            # Only THAT answer - FOREVER for a far-future timespec, "elapsed" for a far-past one - is the known finding; any other wrong
            # answer on such an input is a different failure
            if r == (FOREVER if sec >= 0 else WALLNOW):
                return "far-timespec: " + why
            return "wrong-on-far-timespec: " + why
        return why
    if f[0] == "WN":
        nw, d = map(int, f[1:])
        return _wall_expect(nw + d, r)
    return None


def _wall_expect(s, r):
    if s >= MAXV:
        return None if r == FOREVER else "sum beyond the representable future but result %d" % r
    if r == FOREVER:
        return "FOREVER although the sum %d is representable or past" % s
    if s <= 2:
        return None if r == WALLNOW else "elapsed wall time expected, got %d" % r
    c, v = decode(r, 5)
    if c != "wall":
        return "result %d decodes to clock %s, not the wall clock" % (r, c)
    return None if v == s else "wall value %s, expected %d" % (v, s)


from tracecheck import run_traces


def run(ctx):
    ctx.proof("DispatchVerif.Props.C12", THEOREMS, extra_modules=["DispatchVerif.Tie.Consts"])
    ctx.assumptions += ["clock readings lie in the representable range: 1 <= uptime, monotonic <= 2^62-1, 2 <= wall <= 2^62-1 (C12.Clocks)",
                        "known finding F36: a timespec more than 292 years from the epoch is saturated before delta is added (walltime_far_future_partial, F36_far_future_not_exact)",
                        "mach time unit = nanosecond (x86-64 Linux)"]
    drv = ctx.driver()
    h = ctx.harness("lfn")
    n = 400000 if ctx.thorough else 40000
    lines = gen_lines(ctx.rng.fork("time"), n)
    real, rc, err = run_lines(h, lines)
    ctx.cov["rule"] = ("L-fn: generated dispatch_time / dispatch_walltime / _dispatch_timeout calls (boundary lattice of every base "
                       "encoding class x delta, then seeded random, 1/8 aimed at the saturation points), clocks interposed; real library and Lean "
                       "model compared as exact 64-bit words; the property's statement is evaluated independently on every real result. "
                       "distinct_nontrivial = distinct input lines whose base is not FOREVER")
    if drv is None:
        return
    model, _, _ = run_lines(drv, lines)
    diffs = ctx.diff_streams("L-fn time", lines, real, model, nontrivial=lambda l, r: not l.startswith("T %d " % FOREVER))
    # property oracle on the real outputs (independent of the model)
    bad = []
    for l, r in zip(lines, real):
        try:
            why = oracle_T(l, r)
        except Exception as e:
            why = "unparseable result %r (%s)" % (r, e)
        if why:
            bad.append((l, r, why))
    ctx.cov["layers"]["oracle"] = {"evaluations": len(lines), "failures": len(bad)}
    for l, r, why in bad[:5]:
        ctx.violation("dispatch_time arithmetic: %s on input `%s` -> %s" % (why, l, r), {"line": l, "real": r, "why": why, "harness": "harness/lfn.c"},
                      signature="time:" + l.split()[0] + ":" + why.split()[0])
    # a difference on an input the oracle has already judged is that violation seen a second time; any other difference is a broken
    # correspondence in its own right (the instances of the known finding F36 are always among `bad`: they must not hide it)
    judged = {l for l, _, _ in bad}
    unexplained = [d for d in diffs if d[0] not in judged]
    for l, r, m in unexplained[:3]:
        ctx.broken("L-fn correspondence time.c vs TimeP (input `%s`: real %s, model %s)" % (l, r, m))
    if diffs:
        ctx.cov["layers"]["L-fn time"]["model_diffs"] = len(diffs)

    # the waits themselves, on every clock (past deadlines return at once; a deadline 40 ms ahead is honoured)
    run_traces(ctx, "c12_waits", [[ctx.seed * 10 + i] for i in range(2 if ctx.thorough else 1)], None, None, "L-api waits", "waits", timeout=120)


def replay(ctx, obj):
    if "cmd" in obj["replay"]:
        import subprocess
        p = subprocess.run(obj["replay"]["cmd"], stdout=subprocess.PIPE, text=True)
        print(p.stdout[:600]); return 1 if "VIOL" in p.stdout else 0
    h = ctx.harness("lfn")
    line = obj["replay"]["line"]
    real, _, _ = run_lines(h, [line])
    why = oracle_T(line, real[0])
    print("replay `%s` -> %s : %s" % (line, real[0], why or "property holds"))
    return 1 if why else 0
