"""C06 — inactive and suspended queues run nothing; resume restarts them."""
import os, re, subprocess
from common import sh
from lanetrace import run_lane, forced
from props.C03 import replay

META = {
    "text": "Lean theorems, any number of threads: the suspend count (6-bit inline field + side counter with both slow-path transfers and their retry exits) equals suspends minus "
            "resumes at any nesting depth, and the bits the drainer tests are set iff suspends outnumber resumes (N suspends need exactly N resumes); for a queue created inactive the "
            "drainer's test is true exactly until the activation protocol has completed and then exactly while client suspends outnumber client resumes. Tie: every suspend / resume / "
            "activate transition of dq_state performed by the real library, including the give-back of a property setter's temporary suspension (nests of depth 1..200 from outside, from an item, from a barrier item, on inactive queues; concurrent "
            "suspend/resume storms) is replayed through SuspendP.step / ActP.step with the side count tracked across the slow paths; the statement (nothing starts before the last "
            "resume / activate, everything pending and every blocked sync caller runs afterwards, at most one committed item after an external suspend) is evaluated on the same runs.",
    "note": "The link 'drainer runs nothing while the bits are set' is the lane model's guard (C01/C02 models treat a suspended lane as not runnable) and is observed by the oracle; "
            "the theorems are about when the bits are set. Interleaving model.",
    "technique": "Lean 4 proof (inductive invariant with a ghost transfer flag; omega) + replay of real atomic traces with side-count tracking + nesting-depth oracle",
}

THEOREMS = ["C06.suspend_count_exact", "C06.suspended_iff", "C06.inactive_blocked_iff", "C06.activation_count_exact", "C06.drainer_leaves_runnable_queue_enqueued", "C06.drainer_leaves_dirty", "C06.F23_as_found", "C06.F23_fixed", "C06.F43_as_found", "C06.inactive_configure_keeps_count", "C06.consts"]


def run(ctx):
    ctx.proof("DispatchVerif.Props.C06", THEOREMS)
    ctx.assumptions += ["the client never over-resumes (the library crashes deliberately on that)", "interleaving model of the atomic operations"]
    h = ctx.harness("c06_suspend")
    drv = ctx.driver()
    paths, sc = [], 0
    for i in range(3 if ctx.thorough else 1):
        path = os.path.join(ctx.outdir, "susp-%d.txt" % i)
        cmd = [h, str(ctx.seed * 10 + i)]
        with open(path, "w") as f:
            try:
                rc = subprocess.run(cmd, stdout=f, stderr=subprocess.DEVNULL, timeout=300).returncode
            except subprocess.TimeoutExpired:
                rc = -9
        head = [l.strip() for l in open(path) if l.startswith(("ORACLE", "STUCK"))][:2]
        if rc == -9:
            ctx.violation("suspend/resume scenario hung", {"cmd": cmd}, signature="c06:hang")
        elif any("VIOL" in l for l in head):
            ctx.violation("suspend/resume oracle: " + head[0][:300], {"cmd": cmd}, signature="c06:" + head[0][12:70])
        elif not any(l.startswith("ORACLE ok") for l in head):
            ctx.violation("suspend/resume harness died without a verdict (exit status %s): the library trapped or crashed (its own over-resume / corrupt-state check)" % rc, {"cmd": cmd}, signature="c06:crash")
        else:
            m = re.search(r"items=(\d+)", " ".join(head)); sc += int(m.group(1)) if m else 0
        paths.append(path)
    if drv:
        r = sh([drv, "lane"] + paths)
        m = re.search(r"explained-by-SuspendP.step (\d+)", r.stdout); ex = int(m.group(1)) if m else 0
        ctx.cov["layers"].setdefault("L-trace suspend", {})["replay"] = ([l for l in r.stdout.splitlines() if l.startswith("transitions")] or [""])[0]
        ctx.count("L-trace suspend", sc + ex, ex, samples=[{"cmd": "c06_suspend %d" % (ctx.seed * 10)}], scenarios=sc)
        if r.returncode != 0:
            for b in [l for l in r.stdout.splitlines() if ": E " in l][:3]:
                ctx.broken("L-trace: suspend/resume transition not explained by SuspendP / ActP: " + b.split(": E ", 1)[1][:220])
    if not ctx.violations and not ctx.proof_broken:
        for p in paths: os.remove(p)
    # storms concurrent with submissions and drains
    run_lane(ctx, [(6, 300, 0), (10, 200, 0)] if not ctx.thorough else [(6, 3000, 0), (10, 2000, 0), (16, 1000, 0)], layer="L-trace lane (suspend storms)", what="c06")
    # regression for F14 (repaired): a queue suspended while its drainer holds a pending-barrier reservation must run again after the resume
    forced(ctx, "f14_pending_barrier", "F14", "lane:stranded:pending-barrier-reserved-twice", "F14")
    # inactive objects suspended around the capacity of the inline counter and then configured (F43); blocked synchronous callers under signals
    from tracecheck import run_traces
    run_traces(ctx, "c06_inactive", [[ctx.seed * 10 + i] for i in range(3 if ctx.thorough else 1)], None, None, "L-api inactive objects / signals at blocked callers", "inactive", timeout=300)
    ctx.cov["rule"] = ("c06_suspend: depths {1,2,31..33,63..65,95..97,127..129,200} x {external, from own item, from barrier item, inactive+activate}, plus the one-committed-item "
                       "scenario; property setters (set_target_queue / set_width on active queues) held before they give their temporary suspension back while another thread nests "
                       "{1,31,32,62,63,64,95,96,127,130} suspensions and resumes down to inline count 0 or a random number; tr_lane: suspend/resume pairs and 70/130-deep nests from client threads concurrent with async/sync traffic. distinct_nontrivial = suspend/resume/activate "
                       "transitions explained by the models")
