"""C09 — dispatch_once runs its initialiser exactly once, before anyone returns."""
from tracecheck import run_traces
from props.C03 import replay

META = {
    "text": "Lean theorems over the once-gate model (fast path, tryenter compare-exchange, callout, broadcast = exchange to DONE + wake-all iff waiters, wait loop with the waiters "
            "bit and a futex wait on the expected value), any number of racing callers, any interleaving: the initialiser starts at most once and only one thread is ever in it; "
            "no caller is at its return point unless the initialiser has ended; a sleeping caller can always step or the owner has not finished its wake-up; from DONE a new call "
            "returns at once. Tie: every transition of the real predicate word under races of 2-24 callers (perturbed at the predicate's atomic sites) is replayed through OnceP.step; "
            "execution count, completion-before-return, release of all callers and the fast path are evaluated on the same runs.",
    "note": "futex wait = atomic compare-and-sleep; wake-all wakes every sleeper (assumptions). Interleaving model; the release/acquire pairing of the DONE exchange is C05's concern.",
    "technique": "Lean 4 proof (thread-modular invariant over the gate word) + replay of real atomic traces + racing-callers oracle",
}

THEOREMS = ["C09.init_at_most_once", "C09.init_exclusive", "C09.no_return_before_done", "C09.sleeper_not_stuck", "C09.later_calls_fast", "C09.consts"]


def run(ctx):
    ctx.proof("DispatchVerif.Props.C09", THEOREMS)
    ctx.assumptions += ["futex wait is an atomic compare-and-sleep; wake-all wakes every sleeper"]
    runs = [[ctx.seed * 10 + i, 3000 if ctx.thorough else 300] for i in range(4 if ctx.thorough else 2)]
    run_traces(ctx, "tr_once", runs, "once", r"explained-by-OnceP.step (\d+)", "L-trace once", "once")
    ctx.cov["rule"] = ("tr_once: per round a fresh predicate and 2-24 threads released together by a barrier, initialiser of random duration; distinct_nontrivial = predicate "
                       "transitions (tryenter, set-waiters, DONE exchange) explained by the model; items = racing calls checked by the oracle")
