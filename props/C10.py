"""C10 — dispatch_apply invokes every index exactly once and then returns."""
from tracecheck import run_traces
from props.C03 import replay

META = {
    "text": "Lean theorems over the shared-counter core of dispatch_apply (fetch-and-increment of da_index by the caller and any number of helpers, work while the fetched index is "
            "below n, subtraction of the finished count from da_todo, completion event), for all n, all helper counts, all interleavings: no index is invoked twice, none outside "
            "0..n-1, when the caller has returned all n invocations have ended and every index was invoked exactly once, and (n > 0) whenever the caller waits and every other thread is outside _dispatch_apply_invoke2 the completion event has been signalled (caller_released: no helper count or late helper strands the caller; quiescent_returned: a state in which no entered thread can step is one in which the caller has returned). Tie: every atomic transition of _dispatch_apply_invoke2 in "
            "the real library is replayed through ApplyP.step; per-index counters, return-after-all, index order / no overlap on serial targets, no overlap with barriers of a "
            "concurrent target and nested applies are evaluated on the same runs for n in {0,1,2,cpus-1,cpus,cpus+1,100,1000,20000} and six kinds of target queue.",
    "note": "Partial: the serial path is a theorem over a hand transcription of its loop (ApplySerial, statements looked up in apply.c on every run, order checked by the 2^32 + 3 run); the thread-count selection and the width reservation on the target (C04's runningA transitions) are "
            "covered by the oracle and by C04, not by a C10 theorem. Interleaving model.",
    "technique": "Lean 4 proof (inductive invariant over ghost claim / invoked lists) + replay of real atomic traces + per-index oracle",
}

THEOREMS = ["C10.invoked_once_in_range", "C10.returns_after_all", "C10.caller_released", "C10.caller_released_witness", "C10.quiescent_returned", "C10.signal_once", "C10.serial_in_order", "C10.serial_narrow_index_repeats", "C10.participants_bounds", "C10.nested_participants_share"]


def run(ctx):
    ctx.proof("DispatchVerif.Props.C10", THEOREMS)
    ctx.assumptions += ["the thread-event signal/wait pair delivers the completion to the caller (C05 edge)"]
    runs = [[ctx.seed * 10 + i, 200 if ctx.thorough else 25] for i in range(4 if ctx.thorough else 2)]
    run_traces(ctx, "tr_apply", runs, "apply", r"explained-by-ApplyP.step (\d+)", "L-trace apply", "apply", timeout=120)
    # more iterations than a 32-bit index can count, in order on a serial queue (about 2^32 invocations, some 9 s)
    run_traces(ctx, "tr_apply", [[ctx.seed, 0, 1]], None, None, "L-api 2^32 + 3 iterations in order", "big", timeout=400)
    # ApplySerial.serialLoop transcribes the loop of _dispatch_apply_serial with an index word as wide as the count; the statements are looked up on every run
    import os, re
    from common import REPO
    src = open(os.path.join(REPO, "src/apply.c")).read()
    m = re.search(r"\n_dispatch_apply_serial\(.*?\n}\n", src, re.S)
    body = re.sub(r"\s+", " ", re.sub(r"//[^\n]*", "", m.group(0))) if m else ""
    want = ["size_t const iter = da->da_iterations;", "size_t idx = 0;", "do {", "_dispatch_client_callout2(dc->dc_ctxt, idx, (void*)dc->dc_func);", "} while (++idx < iter);"]
    pos = [body.find(w) for w in want]
    if not (all(p >= 0 for p in pos) and pos == sorted(pos) and body.count("idx") == 3):
        ctx.broken("transcription of _dispatch_apply_serial (ApplySerial.serialLoop, theorem C10.serial_in_order: `size_t idx = 0; do { callout(idx) } while (++idx < iter);`)",
                   "the loop is no longer there in that form; the 2^32 + 3 run above is the search for a failing input")
    ctx.count("source shape serial loop", 1, 1)
    # ApplyP's initial state (index 0, todo n) and ApplyCfg.thrCnt / nestedNext transcribe the set-up of dispatch_apply_f; same look-up
    m = re.search(r"\ndispatch_apply_f\(.*?\n}\n", src, re.S)
    body = re.sub(r"\s+", " ", re.sub(r"//[^\n]*", "", m.group(0))) if m else ""
    want = ["if (unlikely(iterations == 0)) { return; }",
            "if (likely(!nested)) { nested = iterations; } else { thr_cnt = nested < (size_t)thr_cnt ? thr_cnt / (int32_t)nested : 1; "
            "nested = nested < DISPATCH_APPLY_MAX && iterations < DISPATCH_APPLY_MAX ? nested * iterations : DISPATCH_APPLY_MAX; }",
            "if (iterations < (size_t)thr_cnt) { thr_cnt = (int32_t)iterations; }",
            "da->da_index = 0; da->da_todo = iterations; da->da_iterations = iterations; da->da_nested = nested; da->da_thr_cnt = thr_cnt;"]
    pos = [body.find(w) for w in want]
    if not (all(p >= 0 for p in pos) and pos == sorted(pos)):
        ctx.broken("transcription of dispatch_apply_f's set-up (ApplyP initial state index 0 / todo n; ApplyCfg.thrCnt, nestedNext: theorems C10.participants_bounds, "
                   "C10.nested_participants_share, and the initial state every ApplyP theorem starts from)",
                   "statement(s) no longer there in that form: " + "; ".join(w[:50] for w, p in zip(want, pos) if p < 0) + "; the tr_apply runs above are the search for a failing input")
    ctx.count("source shape apply set-up", 1, 1)
    ctx.cov["rule"] = ("tr_apply: three client threads issue applies with n from the boundary set onto AUTO / global / serial / concurrent / concurrent->serial / "
                       "concurrent->concurrent targets, nested up to depth 2, barriers racing on the concurrent queue; distinct_nontrivial = da_index / da_todo transitions explained")
