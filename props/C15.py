"""C15 — sources coalesce without loss and never re-enter their handler."""
from tracecheck import run_traces
from props.C03 import replay

META = {
    "text": "Lean theorems: for every history of merges and latches the latched values are the folds of consecutive blocks of the merge history under the source type's combine operation "
            "and the pending word is the fold of the open block; hence DATA_ADD conserves the sum (mod 2^64), DATA_OR the union, DATA_REPLACE delivers only merged values and the last "
            "merge is what the next latch delivers; a latched 0 is never delivered; with any number of concurrent mergers and invokers the same holds for DATA_ADD at quiescence; the "
            "handler runs under the source's serial-lane drain lock (serial exclusion). Tie: every ds_pending_data transition of the real library (add / or / store by merge_data, "
            "exchange by the latch) is replayed through SourceFold.step; conservation after merging stops, never-zero, non-re-entrance and delivery of merges made while the source is "
            "suspended or its handler runs are evaluated on 3 source types x 3 target queues with 4 merging threads.",
    "note": "The 'merges while suspended / while the handler runs are delivered afterwards' clause is the lane model's no-stranded-work theorem (C01) with the source's pending word as "
            "work; it is observed here by the oracle. Interleaving model.",
    "technique": "Lean 4 proof (fold over blocks; omega / Nat.or lemmas) + replay of real atomic traces + conservation oracle",
}

THEOREMS = ["C15.add_conservation", "C15.or_conservation", "C15.replace_semantics", "C15.never_zero", "C15.add_conservation_concurrent", "C15.handler_serial"]


def run(ctx):
    ctx.proof("DispatchVerif.Props.C15", THEOREMS)
    ctx.assumptions += ["the source's own lane is a serial lane (C01/C02 models)"]
    runs = [[ctx.seed * 10 + i, 40000 if ctx.thorough else 6000] for i in range(3 if ctx.thorough else 1)]
    run_traces(ctx, "tr_source", runs, "source", r"explained-by-SourceFold.step (\d+)", "L-trace source", "source", timeout=600)
    # suspension clause: the source suspended from its own registration / event handler, a merge right after - nothing before the resume
    run_traces(ctx, "c15_regsusp", [[ctx.seed]], None, None, "L-api suspended source", "regsusp", timeout=200)
    # DATA_ADD at its wrap-around: merged values that cancel modulo 2^64 (never a zero reported, sums agree)
    run_traces(ctx, "c15_wrap", [[ctx.seed * 10 + i, 3000 if ctx.thorough else 800] for i in range(2)], None, None, "L-api cancelling merges", "wrap", timeout=200)
    ctx.cov["rule"] = ("tr_source: DATA_ADD / DATA_OR / DATA_REPLACE x global / concurrent / serial target, 4 merging threads, handler that yields and sometimes suspends and resumes its own "
                       "source, one external suspend/resume; distinct_nontrivial = ds_pending_data transitions explained; items = handler invocations checked")
