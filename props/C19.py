"""C19 — dispatch block objects: cancel, wait and notify follow the execution."""
import os, re
from common import sh, run_lines
from tracecheck import run_traces
from props.C03 import replay

META = {
    "text": "Lean theorems over a model of a block object (flag word with DBF_CANCELED / DBF_WAITING / DBF_WAITED, dbpd_performed, the private group; any number of threads invoking, "
            "cancelling, testing, waiting, registering notifications): the private group is left exactly once, by the first completion; after a cancel call has returned the flag stays "
            "set and no invocation that begins afterwards runs the body, a body is skipped only on a cancelled block, and the skipped execution completes like a normal one; "
            "dispatch_block_wait returns 0 and notifications are submitted only after an execution has completed, each notification at most once and all of them once the first "
            "completion has left the group. The group side (wait-0 and notify not early on a single-use group) are the C07 theorems. Tie: every transition of the real flag and "
            "performed words and every leave of the private group is replayed through BlockP.step (right primitive, right function, leave only by the thread whose increment returned "
            "1), the private group's dg_state transitions through GroupP.step. Oracle: random scenarios (8 flag combinations x 6 submission APIs x 4 cancel points x 4 wait modes, "
            "0-4 notifications registered before / during / after, optional gate item that makes the skipped execution of a cancelled block observable) judged on stamps.",
    "note": "Partial: 'wait returns non-zero only after the full timeout' is the C12/C07 timeout arithmetic observed by the oracle; QoS / voucher effects of the flags are not "
            "modelled (no observable effect on Linux). The plain (non-atomic) read of the flag word at the start of an invocation is modelled as one atomic read. Interleaving model.",
    "technique": "Lean 4 proof (thread-modular invariant with ghost thread lists) + replay of real atomic traces through the model's step + history oracle",
}

THEOREMS = ["C19.leave_exactly_once", "C19.cancel_semantics", "C19.wait_notify_follow_execution", "C19.group_notify_not_early", "C19.first_completion_only_any_count", "C19.F40_as_found"]


def run(ctx):
    ctx.proof("DispatchVerif.Props.C19", THEOREMS)
    ctx.assumptions += ["the private group behaves as the C07 model (wait returns 0 / notifications are submitted only when its count is zero)",
                        "at most one thread waits on a block object (the library traps otherwise: modelled as the absorbing pc `trapped`)"]
    n = 1500 if ctx.thorough else 250
    runs = [[ctx.seed * 10 + i, n] for i in range(8 if ctx.thorough else 3)]
    run_traces(ctx, "tr_block", runs, "block", r"explained-by-BlockP.step (\d+)", "L-trace block", "block", timeout=1200, keep=True)
    drv = ctx.driver()
    paths = [os.path.join(ctx.outdir, "tr_block-%d.txt" % i) for i in range(len(runs))]
    if drv and not ctx.violations:
        r = sh([drv, "group"] + paths)
        m = re.search(r"explained-by-GroupP.step (\d+)", r.stdout); ex = int(m.group(1)) if m else 0
        ctx.count("L-trace private group", ex, ex, samples=[], transitions_explained=ex)
        if r.returncode != 0:
            for b in [l for l in r.stdout.splitlines() if ": E " in l][:3]:
                ctx.broken("L-trace (private group): dg_state transition not explained by GroupP.step: " + b.split(": E ", 1)[1][:200])
    if not ctx.violations and not ctx.proof_broken:
        for p in paths:
            try: os.remove(p)
            except OSError: pass
    # the execution counter word: one block object executed a few times, the word optionally set (through the hook) to a value in
    # [2, 2^31) - what that many executions would have left there had every one been counted - and executed again; the word and the
    # leaves of the private group compared with BlockCnt.run (L-fn)
    if drv:
        h = ctx.harness("lfn")
        r = ctx.rng.fork("c19cnt")
        lines = ["BPW %d - %d" % (a, b) for a in range(4) for b in range(4)]
        for _ in range(60 if ctx.thorough else 24):
            lines.append("BPW %d %d %d" % (r.below(4), r.choice([2, 3, 1000, 65535, 2 ** 31 - 3, 2 ** 31 - 2, 2 ** 31 - 1, 2 + r.below(2 ** 31 - 2)]), r.below(5)))
        real, _, _ = run_lines(h, lines, timeout=300)
        model, _, _ = run_lines(drv, lines)
        diffs = ctx.diff_streams("L-fn block execution counter", lines, real, model)
        if diffs:
            # failing input: the history the differences add up to - one completion (the group is left), then the word as 2^32 - 2
            # further counted completions leave it, then three more executions
            probe, _, _ = run_lines(h, ["BPW 1 4294967294 3"], timeout=60)
            if probe[:1] == ["crash"]:
                ctx.violation("a block object executed 2^32 + 1 times leaves its private group a second time (trap: unbalanced dispatch_group_leave): every completion increments the 32-bit "
                              "counter (e.g. `%s`: real `%s`, counter stops at 2 in the model), and with the counter at 2^32 - 2 after the first completion three more executions trap" % (diffs[0][0], diffs[0][1]),
                              {"line": "BPW 1 4294967294 3", "expected": "crash is the violation; harness/c19_wrap runs the 2^32 + 2 executions without the hook", "real": probe[0]}, signature="block:counter-wrap")
    if ctx.thorough:
        run_traces(ctx, "c19_wrap", [[2]], None, None, "L-api 2^32 + 2 executions of one block object", "wrap", timeout=900)
    # dispatch_block_wait (zero timeout, finite timeout) racing with the submission of the block object itself, through every submission API
    wr = [[ctx.seed * 10 + i, 120 if ctx.thorough else 20] for i in range(4 if ctx.thorough else 2)]
    run_traces(ctx, "c19_waitrace", wr, None, None, "L-api wait racing with submission", "waitrace", timeout=400)
    # "returns non-zero only after the full timeout": timed waits on the three clocks while signals interrupt the waiting thread
    run_traces(ctx, "c12_waits", [[ctx.seed * 10 + 3]], None, None, "L-api timed waits under signals", "waits", timeout=120)
    ctx.cov["rule"] = ("c12_waits: timed dispatch_block_wait (also group / semaphore) on a block that does not run, signals at the waiter; c19_waitrace: a waiter polls dispatch_block_wait from before the submission on; tr_block: one block object per scenario; items = scenarios judged by the oracle; transitions = flag / performed / leave transitions explained by BlockP.step plus "
                       "dg_state transitions of the private groups explained by GroupP.step")
