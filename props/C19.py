"""C19 — dispatch block objects: cancel, wait and notify follow the execution."""
import os, re
from common import sh
from tracecheck import run_traces
from props.C03 import replay

META = {
    "text": "Lean theorems over a model of a block object (flag word with DBF_CANCELED / DBF_WAITING / DBF_WAITED, dbpd_performed, the private group; any number of threads invoking, "
            "cancelling, testing, waiting, registering notifications): the private group is left exactly once, by the first completion; after a cancel call has returned the flag stays "
            "set and no invocation that begins afterwards runs the body, a body is skipped only on a cancelled block, and the skipped execution completes like a normal one; "
            "dispatch_block_wait returns 0 and notifications are submitted only after an execution has completed, each notification at most once and all of them once the first "
            "completion has left the group. The group side (wait-0 and notify not early on a single-use group) are the C07 theorems. Tie: every transition of the real flag and "
            "performed words and every leave of the private group is replayed through BlockP.step (right primitive, right function, leave only by the thread whose increment returned "
            "1), the private group's dg_state transitions through GroupP.step. Oracle: random scenarios (8 flag combinations x 6 submission APIs x 4 cancel points x 4 wait modes, "
            "0-4 notifications registered before / during / after, optional gate item that makes the skipped execution of a cancelled block observable) judged on stamps.",
    "note": "Partial: 'wait returns non-zero only after the full timeout' is the C12/C07 timeout arithmetic observed by the oracle; QoS / voucher effects of the flags are not "
            "modelled (no observable effect on Linux). The plain (non-atomic) read of the flag word at the start of an invocation is modelled as one atomic read. Interleaving model.",
    "technique": "Lean 4 proof (thread-modular invariant with ghost thread lists) + replay of real atomic traces through the model's step + history oracle",
}

THEOREMS = ["C19.leave_exactly_once", "C19.cancel_semantics", "C19.wait_notify_follow_execution", "C19.group_notify_not_early"]


def run(ctx):
    ctx.proof("DispatchVerif.Props.C19", THEOREMS)
    ctx.assumptions += ["the private group behaves as the C07 model (wait returns 0 / notifications are submitted only when its count is zero)",
                        "at most one thread waits on a block object (the library traps otherwise: modelled as the absorbing pc `trapped`)"]
    n = 1500 if ctx.thorough else 250
    runs = [[ctx.seed * 10 + i, n] for i in range(8 if ctx.thorough else 3)]
    run_traces(ctx, "tr_block", runs, "block", r"explained-by-BlockP.step (\d+)", "L-trace block", "block", timeout=1200, keep=True)
    drv = ctx.driver()
    paths = [os.path.join(ctx.outdir, "tr_block-%d.txt" % i) for i in range(len(runs))]
    if drv and not ctx.violations:
        r = sh([drv, "group"] + paths)
        m = re.search(r"explained-by-GroupP.step (\d+)", r.stdout); ex = int(m.group(1)) if m else 0
        ctx.count("L-trace private group", ex, ex, samples=[], transitions_explained=ex)
        if r.returncode != 0:
            for b in [l for l in r.stdout.splitlines() if ": E " in l][:3]:
                ctx.broken("L-trace (private group): dg_state transition not explained by GroupP.step: " + b.split(": E ", 1)[1][:200])
    if not ctx.violations and not ctx.proof_broken:
        for p in paths:
            try: os.remove(p)
            except OSError: pass
    # dispatch_block_wait (zero timeout, finite timeout) racing with the submission of the block object itself, through every submission API
    wr = [[ctx.seed * 10 + i, 120 if ctx.thorough else 20] for i in range(4 if ctx.thorough else 2)]
    run_traces(ctx, "c19_waitrace", wr, None, None, "L-api wait racing with submission", "waitrace", timeout=400)
    # "returns non-zero only after the full timeout": timed waits on the three clocks while signals interrupt the waiting thread
    run_traces(ctx, "c12_waits", [[ctx.seed * 10 + 3]], None, None, "L-api timed waits under signals", "waits", timeout=120)
    ctx.cov["rule"] = ("c12_waits: timed dispatch_block_wait (also group / semaphore) on a block that does not run, signals at the waiter; c19_waitrace: a waiter polls dispatch_block_wait from before the submission on; tr_block: one block object per scenario; items = scenarios judged by the oracle; transitions = flag / performed / leave transitions explained by BlockP.step plus "
                       "dg_state transitions of the private groups explained by GroupP.step")
