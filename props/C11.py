"""C11 — timers and dispatch_after never fire early and always fire."""
import os, subprocess
from common import run_lines, sh, LEAN

META = {
    "text": "Lean theorems about the timer heap exactly as written in event.c (hole-based resift; insert / remove / update restore heap order for any key, the "
            "root is a minimum, contents change only by the inserted / removed / re-keyed timer — for every heap shape, by induction) and about "
            "_dispatch_timer_unote_compute_missed (count = interval boundaries passed, next target strictly after now on the same phase, count never exceeds the "
            "boundaries). Every operation of the real heap, driven through a guarded shim, is replayed through the proved functions and compared slot for slot; "
            "compute_missed is compared on generated inputs; an oracle observes never-early / fires / exactly-once on the real library on all three clocks.",
    "note": "Partial: the run loop (_dispatch_timers_run / program), kernel timerfd/epoll delivery and manager-thread scheduling are assumptions; 'always fires' and "
            "'never early' end to end are observed by the oracle (sampling) and follow from heap-minimum + compute_missed only under those assumptions.",
    "technique": "Lean 4 proof (induction over the sift loops, omega) + slot-for-slot replay of the real heap + differential run + timing oracle with one-sided comparisons",
}

THEOREMS = ["C11.timer_armed_whatever_leeway", "C11.timer_config_bounds", "C11.interval_source_first_fire", "C11.interval_closest_rounding_fires_early", "C11.heap_order_restored", "C11.heap_ops_preserve_order", "C11.minimum_is_reported", "C11.heap_contents_preserved",
            "C11.interleaving_is_two_heaps", "C11.reprogram_when_root_changes", "C11.missed_count_is_boundaries", "C11.count_never_exceeds_boundaries", "C11.latched_firing_count_bounded", "C11.oneshot_never_refires"]


def run(ctx):
    ctx.proof("DispatchVerif.Props.C11", THEOREMS)
    ctx.assumptions += ["the kernel timer (timerfd/epoll) fires no earlier than programmed and eventually; the manager thread runs",
                        "clock readings below 2^62 ns; interval below 2^62 ns", "the run loop _dispatch_timers_run is not modelled (reads the heap minimum, calls compute_missed)"]
    drv = ctx.driver()
    # 1. heap: real transcript replayed through HeapP.insert/remove/update
    hh = ctx.harness("heap")
    total_ops = 0
    for i, (n, cap) in enumerate([(3000, 60), (3000, 900), (1500, 8)] if not ctx.thorough else [(20000, 60), (20000, 900), (20000, 3000), (5000, 8), (5000, 2)]):
        seed = ctx.seed * 10 + i
        path = os.path.join(ctx.outdir, "heap-%d.txt" % i)
        with open(path, "w") as f:
            subprocess.run([hh, str(seed), str(n), str(cap)], stdout=f, check=True, timeout=600)
        if drv:
            r = sh([drv, "heap", path])
            last = r.stdout.strip().splitlines()[-1] if r.stdout.strip() else ""
            ctx.cov["layers"].setdefault("heap replay", {})["run%d" % i] = last
            if r.returncode != 0:
                first = [l for l in r.stdout.splitlines() if l.startswith(("MISMATCH", "NOT-A-HEAP"))][:1]
                if first and first[0].startswith("NOT-A-HEAP"):
                    ctx.violation("timer heap order broken on the real library: %s" % first[0][:300], {"cmd": [hh, str(seed), str(n), str(cap)], "detail": first}, signature="heap:order")
                else:
                    ctx.broken("heap correspondence event.c vs HeapP (%s)" % (first[0][:300] if first else last))
            total_ops += n
        if not ctx.violations and os.path.getsize(path) > 2_000_000:
            os.remove(path)
    ctx.count("heap replay", total_ops, total_ops, samples=[{"cmd": "heap %d 3000 60 | dvdriver heap" % (ctx.seed * 10)}])
    # 2. compute_missed L-fn
    h = ctx.harness("lfn")
    r = ctx.rng.fork("cm")
    lines = []
    for _ in range(40000 if ctx.thorough else 6000):
        k = r.below(5)
        now = r.choice([r.below(2 ** 62), r.below(10 ** 12), 2 ** 62 - 1 - r.below(1000)])
        target = now - min(now, r.choice([0, 1, r.below(10 ** 9), r.below(2 ** 40)]))
        interval = r.choice([1, 2, 1000, 1 + r.below(10 ** 9), 1 + r.below(2 ** 40), 2 ** 63 - 1, 2 ** 64 - 1, 2 ** 63 - 2])
        prev = r.choice([0, 1, r.below(1000), 2 ** 63 - 1 - r.below(3), 2 ** 62])
        deadline = target + r.choice([0, r.below(10 ** 8)])
        if k == 0 and target < 2 ** 62:  # not due (callers never do this; the code's arithmetic wraps): keep a few
            target = now + r.below(1000)
        lines.append("CM %d %d %d %d %d" % (target, deadline, interval, now, prev))
    # _dispatch_source_timer_data: what the handler is told for a latched firing; the target may already have been advanced to a
    # boundary that is still ahead (the timer fired while suspended and was resumed before the next boundary)
    for _ in range(20000 if ctx.thorough else 3000):
        now = r.choice([r.below(2 ** 62), 10 ** 9 + r.below(10 ** 12)])
        interval = r.choice([1, 1000, 1 + r.below(10 ** 9), 1 + r.below(2 ** 40), 2 ** 63 - 1, 2 ** 64 - 1])
        k = r.below(4)
        if k == 0: target = now + 1 + r.below(min(interval, 10 ** 12))           # still ahead
        elif k == 1: target = now                                                 # exactly due
        elif k == 2: target = now - min(now, r.below(10 ** 10))                   # overdue
        else: target = r.choice([2 ** 63 - 1, 2 ** 64 - 1, 2 ** 63])             # parked one-shot
        prev = r.choice([1, 3, 2 * r.below(1000) + 1, 2 * r.below(1000)])         # latched count << 1 | DISARMED marker
        lines.append("TD %d %d %d %d %d" % (target, min(2 ** 64 - 1, target + r.below(10 ** 6)), interval, now, prev))
    # _dispatch_timer_config_create: what set_timer makes of (start, interval, leeway) on each clock, the clocks interposed
    ntc = 0
    for _ in range(12000 if ctx.thorough else 2500):
        nu, nm, nw = 1 + r.below(10 ** 12), 1 + r.below(10 ** 12), 10 ** 18 + r.below(10 ** 17)
        ck = r.below(3)
        base = [nu, nm, nw][ck]
        val = r.choice([0, base + r.below(10 ** 10), base - min(base - 1, r.below(10 ** 9)), 1 + r.below(2 ** 62 - 2), 2 ** 62 - 1 - r.below(3), 2 ** 62 - 1])
        if ck == 0: start = val                                  # uptime: the value itself (0 = now)
        elif ck == 1: start = 2 ** 63 + val                      # monotonic: bit 63
        else: start = (2 ** 64 - val) % 2 ** 64 if val else 2 ** 64 - 2     # wall: the negated value; ~1 = wall now
        if r.chance(1, 12): start = 2 ** 64 - 1                  # FOREVER
        if ck == 2 and start < 2 ** 63 + 2 ** 62: start = 2 ** 64 - 2
        interval = r.choice([0, 1, 2, 1000, 1 + r.below(10 ** 9), 1 + r.below(2 ** 40), 2 ** 63 - 1, 2 ** 63, 2 ** 64 - 1, 2 ** 63 - 2])
        leeway = r.choice([0, 1, r.below(10 ** 9), interval // 2 if interval < 2 ** 63 else 7, interval // 2 + 1 if interval < 2 ** 63 else 9, 2 ** 63 - 1, 2 ** 63, 2 ** 64 - 1, 2 ** 62])
        lines.append("TC %d %d %d %d %d %d %d" % (start, interval, leeway, r.below(3), nu, nm, nw)); ntc += 1
    real, _, _ = run_lines(h, lines)
    if drv:
        model, _, _ = run_lines(drv, lines)
        diffs = ctx.diff_streams("L-fn compute_missed", lines, real, model)
        # the property on the real results: never more firings than latched + interval boundaries passed
        for l, rr in zip(lines, real):
            f = l.split()
            if f[0] != "TD": continue
            t, iv, nw, pv = int(f[1]), int(f[3]), int(f[4]), int(f[5])
            b = ((nw - t) // iv + 1) if (t <= nw and t < 2 ** 63 - 1) else 0
            if int(rr.split()[0]) > pv // 2 + b:
                ctx.violation("timer data: %s firings reported, %d latched and %d interval boundaries passed, on input `%s`" % (rr.split()[0], pv // 2, b, l), {"line": l, "real": rr, "harness": "harness/lfn.c"}, signature="timers:data-exceeds-boundaries")
                break
        for l, rr, m in diffs[:3]:
            ctx.broken("L-fn correspondence %s (input `%s`: real %s, model %s)" % ({"CM": "compute_missed", "TD": "_dispatch_source_timer_data", "TC": "_dispatch_timer_config_create"}.get(l.split()[0], "timer arithmetic"), l, rr, m))
    # 3. timing oracle on the real library
    ho = ctx.harness("c11_timers")
    runs = 6 if ctx.thorough else 2
    procs = [subprocess.Popen([ho, str(ctx.seed * 100 + s), "400" if ctx.thorough else "250", "120" if ctx.thorough else "60"], stdout=subprocess.PIPE, text=True) for s in range(runs)]
    for s, p in enumerate(procs):
        out, _ = p.communicate(timeout=300)
        if p.returncode != 0:
            ctx.violation("timer oracle: " + out.strip()[:300], {"cmd": [ho, str(ctx.seed * 100 + s), "250", "60"], "stdout": out}, signature="timers:" + out.strip()[:40])
        else:
            ctx.cov["layers"].setdefault("oracle timers", {})["run%d" % s] = out.strip()
    ctx.count("oracle timers", runs * 310, runs * 310, samples=[{"cmd": "c11_timers %d 250 60" % (ctx.seed * 100)}])
    # the count clause under overrun: microsecond timers whose handler lags, the manager held inside _dispatch_timers_run now and then
    from tracecheck import run_traces
    run_traces(ctx, "c11_fast", [[ctx.seed * 10 + i, 4000 if ctx.thorough else 1200] for i in range(3 if ctx.thorough else 2)], None, None, "L-api overrun counts", "fast", timeout=300)
    # interval sources: their configuration is computed by a function of its own (first fire = next multiple of the interval)
    run_traces(ctx, "c11_interval", [[ctx.seed * 10 + i, 6 if ctx.thorough else 2] for i in range(3 if ctx.thorough else 2)], None, None, "L-api interval sources", "interval", timeout=300)
    # TimerCfg.intervalStart transcribes two statements of _dispatch_interval_config_create; they are looked up in the source on every run
    import re as _re
    from common import REPO as _REPO
    _src = open(os.path.join(_REPO, "src/source.c")).read()
    _m = _re.search(r"\n_dispatch_interval_config_create\(.*?\n}\n", _src, _re.S)
    _body = _re.sub(r"\s+", " ", _re.sub(r"//[^\n]*", "", _m.group(0))) if _m else ""
    _a, _b = _body.find("start = _dispatch_uptime() + interval;"), _body.find("start -= (start % interval);")
    if not (0 <= _a < _b and "start" not in _body[_a + 38:_b]):
        ctx.broken("transcription of _dispatch_interval_config_create (TimerCfg.intervalStart: `start = _dispatch_uptime() + interval; start -= (start % interval);`)",
                   "the two statements are no longer there in that form; the oracle above searches for a failing input")
    ctx.count("source shape interval config", 1, 1)
    ctx.cov["rule"] = ("heap: seeded random insert/remove/update histories on the real heap (live populations of 2 to 3000 timers, segment grow/shrink), every slot compared after "
                       "every operation with the proved functions; compute_missed: generated (target, interval, now, prev) incl. clamp and one-shot cases; oracle: populations of "
                       "dispatch_after blocks and timer sources on the three clocks with cancel / set_timer / suspend churn. distinct_nontrivial counts operations / inputs / timers")


def replay(ctx, obj):
    r = obj["replay"]
    if "cmd" in r:
        p = subprocess.run(r["cmd"], stdout=subprocess.PIPE, text=True)
        print(p.stdout[-500:]); return p.returncode
    return 0
