"""C16 — cancelling a source stops its handler and runs the cancel handler once."""
from tracecheck import run_traces
from props.C03 import replay

META = {
    "text": "Lean theorems. Protocol model (CancelP: any number of threads merging, cancelling and invoking; registration handler, latch-after-flag-read, early returns for "
            "redirect / deferred unregistration, unregistration, cancel callout): in every reachable state the cancel handler has run at most once, only for a cancelled and "
            "unregistered source, after the last event handler invocation returned, and the count of event handler starts is frozen from then on; after DSF_CANCELED is set the "
            "event handler starts at most once more and only if an invocation had already latched (never after a cancel from the handler itself or while no invocation is in "
            "flight). Decision model (SrcP: _dispatch_source_wakeup and _dispatch_source_invoke2 as functions of a 13-bit view, all 8192 views checked by the kernel): wakeup "
            "and invoke agree, a cancelled view never calls the event handler, the cancel callout runs only cancelled + deleted + on the target queue, and from every cancelled "
            "view the wakeup/invoke loop converges within 4 invocations to the one final state. Tie: the tracepoints around the two real functions report the view, queue, "
            "decision and handler calls; deterministic life cycles (data-add and timer sources x handler combinations) must equal SrcP.wake / SrcP.inv exactly, every invocation "
            "of the concurrent scenarios must be a path of CancelP.step. Oracle: 5 source types x 6 cancel points (before activate, registration handler, event handler, "
            "target-queue item, another thread, twice + cancel_and_wait) judged on handler stamps.",
    "note": "Partial: the kernel side (epoll registration removed before DSF_DELETED) is observed by the oracle closing and reusing descriptors, not modelled; the source's lane "
            "exclusion is the C02 theorem, taken here as the owner field. Interleaving model (sequentially consistent atomic steps).",
    "technique": "Lean 4 proof (thread-modular invariant for the protocol; decide +kernel over all views for the decision functions) + replay of real decision views + L-api oracle",
}

THEOREMS = ["C16.cancel_handler_once_and_last", "C16.at_most_one_committed", "C16.wakeup_invoke_progress", "C16.wakeup_none_means_idle",
            "C16.no_handler_when_canceled", "C16.cancel_callout_guard", "C16.cancel_converges", "C16.unregister_on_kevent_queue"]


def run(ctx):
    ctx.proof("DispatchVerif.Props.C16", THEOREMS)
    ctx.assumptions += ["invocations of one source exclude each other (C02 lane exclusion)", "kernel: epoll_ctl(DEL) stops delivery for the descriptor"]
    runs = [[ctx.seed * 10 + i, 6 if ctx.thorough else 2] for i in range(6 if ctx.thorough else 3)]
    run_traces(ctx, "c16_cancel", runs, "srcview", r"protocol (\d+)", "L-trace source views", "cancel", timeout=900)
    # peer hang-up on a descriptor with several read / write sources on different queues, then cancellation (F27)
    run_traces(ctx, "c16_hangup", [[ctx.seed * 10 + i, 1500 if ctx.thorough else 250] for i in range(3 if ctx.thorough else 2)], None, None, "L-api hang-up", "hangup", timeout=600)
    ctx.cov["rule"] = ("c16_cancel: deterministic life cycles (16 data-add + 16 timer variants) then random scenarios kind x cancel point with event delivery racing; "
                       "items = scenarios judged by the oracle; transitions = invocations of _dispatch_source_invoke2 replayed through CancelP.step (and SrcP.inv / SrcP.wake for the "
                       "deterministic ones)")
