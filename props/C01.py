"""C01 — every submitted work item runs exactly once and none is stranded."""
import os, re, subprocess
from common import sh, run_lines
from lanetrace import run_lane, forced
from tracecheck import run_traces
from props.C02 import replay

META = {
    "text": "Lean theorems over the lane protocol at the granularity of the atomic operations (any number of threads, any client program, every interleaving): on a serial lane, "
            "a quiescent state (all threads at rest, no signal / lock transfer pending, no wakeup token in the root) has an empty item list and an unlocked idle word - nothing "
            "submitted is left behind (no lost wakeup: the DIRTY re-check on unlock, MAKE_DIRTY on push, the lock transfer); pushed items start exactly once in push order; on any "
            "width the width word is exact; every member of a target-queue hierarchy is such a lane (projection); the pool's dgq_pending is exact so a thread request is never "
            "refused for good. Tie: every dq_state transition of real multi-threaded workloads and every dgq_pending / dgq_thread_pool_size transition of the pool scenario is "
            "replayed through the models' step functions; per-item run counts, returned sync calls and a no-progress watchdog are evaluated on the same runs, including the scenario "
            "where every pool thread is blocked on a later item of the same global queue.",
    "note": "Partial: liveness is proved as 'no stranded work at quiescence' for the serial lane; weak fairness, the any-width version of the no-strand invariant, the monitor's /proc "
            "sampling and pthread_create succeeding are assumptions / observed by the oracle. Interleaving (SC) model of the atomics.",
    "technique": "Lean 4 proof (thread-modular inductive invariants with ghost responsibility sets) + replay of real atomic traces through the models' step functions + liveness oracle with watchdog",
}

THEOREMS = ["C01.no_stranded_work_serial", "C01.quiescent_unlocked", "C01.pushed_items_start_once_in_order", "C01.width_accounting",
            "C01.hierarchy_projects", "C01.pool_pending_accounted", "C01.pool_no_phantom_pending",
            "C01.unlock_refused_when_dirty", "C01.unlock_not_done_leaves_dirty", "C01.try_lock_only_when_free", "C01.barrier_sync_only_from_idle", "C01.width_refused_when_dirty_or_pending"]


def run(ctx):
    ctx.proof("DispatchVerif.Props.C01", THEOREMS)
    ctx.assumptions += ["weak fairness of enabled threads; the root queue eventually services its tokens", "sequentially consistent interleaving model of the atomic operations",
                        "pthread_create succeeds; the workqueue monitor classifies blocked threads correctly (observed by the pool scenario)"]
    cfg = [(2, 600, 1), (4, 400, 0), (8, 300, 0), (12, 200, 0), (6, 300, 0, 1), (10, 200, 0, 1), (6, 300, 0, 2), (4, 500, 0, 0, 2), (4, 500, 0, 0, 5)] if not ctx.thorough else [(2, 5000, 1), (2, 5000, 0), (4, 3000, 0), (8, 2500, 0), (12, 2000, 0), (16, 1500, 0), (3, 3000, 1), (6, 3000, 0, 1), (12, 1500, 0, 1), (8, 2000, 0, 2), (4, 5000, 0, 0, 2), (4, 5000, 0, 0, 3), (4, 5000, 0, 0, 16)]
    run_lane(ctx, cfg, what="c01")
    # queues chained through target queues, deeper than two levels: random hierarchies over a serial bottom and over a workloop, all six submission forms
    # (nothing stranded, every synchronous call returns)
    run_traces(ctx, "c03_hier", [[ctx.seed * 100 + 40 + i, 6, 2000 if ctx.thorough else 300, i % 2] for i in range(6 if ctx.thorough else 3)], None, None, "L-api hierarchies", "hier", extra=["-ldl"], timeout=400)
    # the dq_state word functions against their word-level models (DqW), on generated words
    drv = ctx.driver()
    hl = ctx.harness("lfn")
    rq = ctx.rng.fork("dq")
    INTERVAL, FULLBIT, INBAR, PEND, DIRTY, ENQ, ENQM = 1 << 41, 1 << 53, 1 << 54, 1 << 40, 1 << 39, 1 << 31, 1 << 38
    qlines = []
    for _ in range(60000 if ctx.thorough else 8000):
        W = rq.choice([1, 1, 2, 3, 16, 4094])
        used = rq.choice([0, 0, 1, W - 1, W, rq.below(W + 1)])
        st = (4096 - W + used) * INTERVAL
        if rq.chance(1, 4): st |= INBAR
        if rq.chance(1, 4): st |= PEND
        if rq.chance(1, 3): st |= DIRTY
        if rq.chance(1, 2): st |= ENQ
        if rq.chance(1, 12): st |= ENQM
        st |= rq.choice([0, 0, 1, 2, 3]) << 36                       # role
        st |= rq.choice([0, 0, 1, 4, 6]) << 32                       # max QoS
        if rq.chance(1, 8): st |= 1 << 35                            # received override
        if rq.chance(1, 3): st |= rq.choice([4, 1000, (1 << 30) - 4])   # owner
        if rq.chance(1, 6): st |= rq.choice([1, 2, 63]) << 58        # suspend count
        if rq.chance(1, 20): st |= 1 << 57
        if rq.chance(1, 20): st |= 3 << 55                           # inactive + needs activation
        op = rq.choice([1, 2, 4, 5, 6, 8, 8])
        a, a2 = 0, 0
        if op == 1: st |= ENQ                                        # the caller was dequeued from the root queue: ENQUEUED is set
        if op == 2: a = rq.choice([4, 1000])
        if op == 5: a = rq.below(2)
        if op == 8:
            a = rq.choice([0, INTERVAL, W * INTERVAL, INBAR + W * INTERVAL, used * INTERVAL]); a2 = rq.below(2)
        if rq.chance(1, 10) and op == 2:
            st = (4096 - W) * INTERVAL | (st & (3 << 36))            # the idle word: the fast path succeeds
        qlines.append("DQ %d %d %d %d %d" % (op, st, W, a, a2))
    qreal, _, _ = run_lines(hl, qlines)
    dist = {}
    for l, o in zip(qlines, qreal):
        k = "op%s:%s" % (l.split()[1], "taken" if o.split()[0] != "0" else "refused")
        dist[k] = dist.get(k, 0) + 1
    ctx.cov["layers"].setdefault("L-fn dq_state word functions", {})["outcomes"] = dist
    if drv:
        qmodel, _, _ = run_lines(drv, qlines)
        qd = ctx.diff_streams("L-fn dq_state word functions", qlines, qreal, qmodel)
        for l, rr, m in qd[:3]:
            ctx.broken("L-fn correspondence inline_internal.h word functions vs DqW (input `%s`: real %s, model %s)" % (l, rr, m))
    # regression for F14 (repaired): pending-barrier reservation + refused unlock + suspension must not strand the queue
    forced(ctx, "f14_pending_barrier", "F14", "lane:stranded:pending-barrier-reserved-twice", "F14")
    # the thread pool: bookkeeping trace + the blocked-pool scenario of the property statement
    h = ctx.harness("c01_pool")
    drv = ctx.driver()
    # thread names: the pool monitor classifies workers by reading /proc/<tid>/stat, whose second field is the (free-form) thread name
    names = ["", "x R"] + (["my pool S", "a) R (b", "R R R"] if ctx.thorough else [])
    runs = len(names)
    for i in range(runs):
        path = os.path.join(ctx.outdir, "pool-%d.txt" % i)
        cmd = [h, str(ctx.seed * 10 + i), names[i]]
        with open(path, "w") as f:
            try:
                rc = subprocess.run(cmd, stdout=f, stderr=subprocess.DEVNULL, timeout=200).returncode
            except subprocess.TimeoutExpired:
                rc = -9
        head = [l.strip() for l in open(path) if not l.startswith("E ")][:3]
        if rc == -9 or any("VIOL" in l for l in head):
            what = ([l for l in head if "VIOL" in l] or ["pool scenario timed out"])[0]
            ctx.violation("thread pool: " + what[:300], {"cmd": cmd, "trace": path}, signature="pool:" + what[12:70])
        elif rc != 0 or not any(l.startswith("ORACLE ok") for l in head):
            ctx.violation("thread pool harness died without a verdict (exit status %s): the library trapped or crashed" % rc, {"cmd": cmd}, signature="pool:crash")
        if drv:
            r = sh([drv, "root", path])
            ctx.cov["layers"].setdefault("L-trace pool", {})["replay%d" % i] = r.stdout.strip().splitlines()[0] if r.stdout.strip() else ""
            m = re.search(r"explained-by-RootP.step (\d+)", r.stdout)
            ctx.count("L-trace pool", int(m.group(1)) if m else 0, int(m.group(1)) if m else 0, samples=[{"cmd": "c01_pool %d" % (ctx.seed * 10)}])
            if r.returncode != 0:
                for b in [l for l in r.stdout.splitlines() if ": E " in l][:3]:
                    ctx.broken("L-trace: pool bookkeeping transition not explained by RootP.step: " + b.split(": E ", 1)[1][:160])
    # the main queue served by an event-driven run loop (tokens consumed by nested run-loop iterations inside items): no item stranded
    run_traces(ctx, "c01_mainq_wake", [[ctx.seed * 10 + i, 400 if ctx.thorough else 120] for i in range(3 if ctx.thorough else 2)], None, None, "L-api event-driven main queue", "mainq-wake", timeout=300)
    ctx.cov["rule"] = ("tr_lane workloads (ping-pong with 2 threads on the serial queue: the DIRTY re-check workload; mixed async / sync / barrier / apply / suspend on both queues, "
                       "2-16 threads, perturbed at the atomic sites): every item must run exactly once, every sync call must return, no 20 s stall; every dq_state transition must be "
                       "a model step. Pool scenario: saturating burst, then ncpu+4 items blocked on a later item of the same global queue, then quiescence check of dgq_pending. "
                       "distinct_nontrivial = transitions explained by the models")
