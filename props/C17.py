"""C17 — objects live while referenced or busy and are finalised exactly once."""
import subprocess
from tracecheck import run_traces
from props.C03 import replay

META = {
    "text": "Lean theorems over a model of the two-level reference count (external os_obj_xref_cnt, internal os_obj_ref_cnt, both biased by -1; any number of threads retaining / "
            "releasing through references they hold, enqueues that take +2 consumed by the end of the drain, +1 references held by other objects, the external dispose, the dispose "
            "path): in every reachable state both counts are exact; while the application holds a reference, or work is queued or running, or another object targets it, the "
            "object is neither freed nor in its dispose path; the dispose path runs at most once and exactly once by the time the object is freed. Tie: every transition of "
            "the two count words of tracked queues in the real library is replayed through RefP.step from a state with the word's old value (resurrection, over-release and a wrong "
            "weight have no step), the thread that takes the external count to -1 is the one that drops the internal reference standing for it, nothing touches the words "
            "after the internal count reached -1. Oracle: queue hierarchies (depth 1-3, inner levels released early, running / pending / suspended / delayed items, timers, groups, "
            "racing retain/release pairs) with finalizers, contexts replaced before the last release and queue-specific destructors; sources released while armed; data objects with "
            "destructors under concatenation and sub-ranging - exactly once, not early, on the target queue, with the current context, nothing leaked - on the hooked build, and the "
            "same program under AddressSanitizer for memory safety.",
    "note": "Partial: which internal references each subsystem takes (push +2, suspend +2, group +1, armed timer +2, ...) is observed through the trace replay and the oracle, not "
            "derived from the source; dq_sref_cnt (storage references) and the Objective-C / Swift bridged variants are not modelled; memory safety is ASan on sampled schedules.",
    "technique": "Lean 4 proof (thread-modular counting invariant with ghost holder lists) + replay of real reference-count transitions + lifetime oracle + ASan run",
}

THEOREMS = ["C17.no_free_while_in_use", "C17.alive_while_referenced", "C17.finalized_once", "C17.counts_exact"]


def run(ctx):
    ctx.proof("DispatchVerif.Props.C17", THEOREMS)
    ctx.assumptions += ["clients only use references they hold", "atomic read-modify-writes on the count words (interleaving model)", "ASan: sampled schedules only"]
    rounds = 400 if ctx.thorough else 80
    runs = [[ctx.seed * 10 + i, rounds, thr] for i, thr in enumerate([3, 6, 2, 8] if ctx.thorough else [3, 6])]
    run_traces(ctx, "c17_life", runs, "ref", r"explained-by-RefP.step (\d+)", "L-trace reference counts", "lifetime", timeout=1200)
    # the references a submitted block object holds on its queue (taken out by a racing dispatch_block_wait): the queue is finalised once, not early, not never
    run_traces(ctx, "c19_waitrace", [[ctx.seed * 10 + 5 + i, 120 if ctx.thorough else 20] for i in range(2 if ctx.thorough else 1)], None, None, "L-api queue references held by block objects", "waitrace", timeout=400)
    # the same program under AddressSanitizer
    try:
        ha = ctx.harness("c17_life", variant="asan")
    except Exception as e:
        ctx.cov["layers"]["asan"] = {"skipped": str(e)[:200]}
        ha = None
    if ha:
        n = 0
        for s in range(3 if ctx.thorough else 1):
            seed = ctx.seed * 100 + s
            p = subprocess.run([ha, str(seed), str(rounds // 2), "3"], stdout=subprocess.PIPE, stderr=subprocess.PIPE, text=True, timeout=1200,
                               env={"ASAN_OPTIONS": "detect_leaks=0:exitcode=99", "PATH": "/usr/bin:/bin"})
            n += rounds // 2 * 3
            head = p.stdout.splitlines()[0] if p.stdout else ""
            if p.returncode != 0:
                what = (head if "VIOL" in head else "") or ([l for l in p.stderr.splitlines() if "ERROR" in l][:1] or ["exit %d" % p.returncode])[0]
                ctx.violation("object lifetime under AddressSanitizer: %s" % what[:300], {"cmd": [ha, str(seed), str(rounds // 2), "3"], "stderr": p.stderr[-2500:]},
                              signature="lifetime:asan:" + what[:40])
        ctx.count("oracle lifetime asan", n, n, samples=[{"cmd": "c17_life(asan) %d %d 3" % (ctx.seed * 100, rounds // 2)}])
    ctx.cov["rule"] = ("c17_life: rounds x threads of hierarchy / source / data life cycles; items = life-cycle rounds judged; transitions = count-word transitions explained by RefP.step")
