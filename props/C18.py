"""C18 — queue identity, queue-specific data and attributes are reported faithfully."""
import re
from common import run_lines

META = {
    "text": "Lean theorems: the attribute-table index is a bijection on [0, COUNT) with COUNT and the radices generated from the headers, every constructor "
            "changes exactly its field, all six constructor pairs commute, a created queue reports the (clamped) fields; dispatch_get_global_queue is proved "
            "against the map obtained by evaluating the real function on every identifier in -2^15..2^15 and both flags (documented -> documented class, "
            "equal classes -> same queue, different supported classes -> different queues, everything else NULL); get_specific returns the nearest value of "
            "the target chain and assert_queue accepts exactly the chains. The models are compared with the library on every table slot x every constructor, "
            "on queue creation for every slot, and on random hierarchies x key placements x submission paths (assert through child processes).",
    "note": "Trusted: Lean kernel, generators (G1 constants, G4 evaluated map), harness. The chain walk of dispatch_get_specific / the frame walk of "
            "dispatch_assert_queue are modelled as functions of the queue graph; their tie to the code is the differential run (sampling).",
    "technique": "Lean 4 proof (mixed-radix arithmetic by omega, decide over the generated decision map) + exhaustive differential run over the attribute table + sampled hierarchies",
}

THEOREMS = ["C18.attr_index_bijection", "C18.constructors_fieldwise", "C18.constructors_commute", "C18.created_reports_fields",
            "C18.created_class_supported", "C18.global_queue_map_is_model", "C18.global_queue_undefined_is_null", "C18.global_queue_classes",
            "C18.get_specific_nearest", "C18.assert_queue_exact", "C18.F41_apply_context_depends_on_thread", "Tie.attr_consts"]

DOC_IDS = [2, 0, -2, -32768, -128, 0x21, 0x19, 0x15, 0x11, 0x09, 0x05]


def gen_hier(r):
    nq = 2 + r.below(8)
    parents = [-1 if i < 2 else (r.below(i) if not r.chance(1, 6) else -1) for i in range(nq)]
    conc = [r.below(2) for _ in range(nq)]
    if r.chance(1, 3): parents[0] = -2      # member 0 is a global (root) queue: keys may sit on it, other members target it
    vals = []
    for q in range(nq):
        for k in range(4):
            if r.chance(1, 3):
                vals.append("%d:%d:%d" % (q, k, 4096 + q * 16 + k))
    return nq, parents, conc, ";".join(vals) or "-"


def chain(parents, q):
    out = []
    while q >= 0:
        out.append(q); q = parents[q]
    return out


def run(ctx):
    ctx.proof("DispatchVerif.Props.C18", THEOREMS, extra_modules=["DispatchVerif.Tie.Consts"])
    ctx.assumptions += ["platform without pthread workqueue QoS: maintenance / user-interactive are folded into background / user-initiated",
                        "the property text says 6048 attribute combinations; this build has DISPATCH_QUEUE_ATTR_COUNT = 4032 (generated)"]
    drv = ctx.driver()
    h = ctx.harness("lfn")
    r = ctx.rng.fork("c18")
    lines = []
    COUNT = 4032
    # every table slot x every constructor (exhaustive), queue creation for every slot
    for idx in range(COUNT):
        lines.append("AI %d" % idx); lines.append("AO %d 0" % idx); lines.append("AO %d 1" % idx)
        for f in range(3): lines.append("AF %d %d" % (idx, f))
        for q in range(7): lines.append("AQ %d %d %d" % (idx, q, r.below(16)))
        lines.append("QC %d" % idx)
    nattr = len(lines)
    # global queues: all documented identifiers, a band around them, flags
    for fl in (0, 2, 1, 4, 3, 2 ** 31):
        for i in DOC_IDS: lines.append("GQ %d %d" % (i, fl))
    for i in range(-140, 140): lines.append("GQ %d %d" % (i, r.choice([0, 2])))
    for _ in range(400): lines.append("GQ %d %d" % (r.below(2 ** 17) - 2 ** 16, r.choice([0, 2, 2, 0, 1])))
    for i in (2 ** 31, -2 ** 31, 2 ** 62, -2 ** 62, 32767, -32767): lines.append("GQ %d 0" % i)
    # identifiers that equal a documented one only in their low 32 bits (a qos_class_t is an unsigned int; the argument is a long)
    for i in DOC_IDS:
        for k in (1, 2, -1, 2 ** 31 - 1, -(2 ** 31)):
            v = i + k * 2 ** 32
            if -2 ** 63 <= v < 2 ** 63: lines.append("GQ %d %d" % (v, r.choice([0, 0, 2])))
    # hierarchies
    nh = 4000 if ctx.thorough else 500
    nsa = 0
    for _ in range(nh):
        nq, par, conc, vals = gen_hier(r)
        ps, cs = ",".join(map(str, par)), ",".join(map(str, conc))
        for _ in range(6):
            q, k, path = r.below(nq), r.below(4), r.below(9)
            ctxq = ""
            if r.chance(1, 4) or (path == 8 and r.chance(1, 2)):
                c = r.below(nq)
                if not set(chain(par, c)) & set(chain(par, q)):
                    ctxq = " %d" % c
            lines.append("SQ %s %s %s %d %d %d%s" % (ps, cs, vals, q, k, path, ctxq))
        for _ in range(2):
            q, a, neg, path = r.below(nq), r.below(nq), r.below(2), 1 + r.below(2)
            ctxq = ""
            if r.chance(1, 3):
                c = r.below(nq)
                if not set(chain(par, c)) & set(chain(par, q)):
                    ctxq = " %d" % c
            lines.append("SA %s %s %d %d %d %d%s" % (ps, cs, q, a, neg, path, ctxq)); nsa += 1
    real, rc, err = run_lines(h, lines, timeout=1200)
    # hierarchies whose bottom is a thread-bound queue (the main queue drained run-loop style): items run by the bound thread
    import subprocess
    hb = ctx.harness("c18_bound")
    nb = 0
    for sd in range(3 if ctx.thorough else 2):
        try:
            p = subprocess.run([hb, str(ctx.seed * 10 + sd), "2000" if ctx.thorough else "400"], stdout=subprocess.PIPE, stderr=subprocess.DEVNULL, text=True, timeout=300)
            out, rc = p.stdout.strip(), p.returncode
        except subprocess.TimeoutExpired:
            out, rc = "ORACLE VIOL the workload over a run-loop drained main queue hung", 1
        m = re.search(r"items=(\d+)", out); nb += int(m.group(1)) if m else 0
        if rc != 0:
            ctx.violation("queue identity over a thread-bound bottom queue: " + (out[:300] or "exit %d" % rc), {"cmd": [hb, str(ctx.seed * 10 + sd), "400"]}, signature="specific:bound:" + out[12:60])
    ctx.count("oracle bound main queue", nb, nb, samples=[{"cmd": "c18_bound %d 400" % (ctx.seed * 10)}])
    ctx.cov["rule"] = ("L-fn: every slot of the attribute table x every constructor and queue creation (exhaustive: %d lines), dispatch_get_global_queue on the documented "
                       "identifiers x defined and undefined flags plus bands of undefined identifiers, then random hierarchies (2-9 queues, serial/concurrent, "
                       "random key placement) probed through async/sync/barrier/async_and_wait/apply/group paths, nested synchronous submission included; "
                       "assert_queue{,_not} outcomes through forked children. distinct_nontrivial = distinct lines" % nattr)
    ctx.cov["exhaustive_attr_table"] = True
    if drv is None:
        return
    model, _, _ = run_lines(drv, lines)
    timeouts = sum(1 for x in real if x == "timeout")
    diffs = ctx.diff_streams("L-fn attr/globalq/specific", lines, real, model, ignore=lambda l, rr, m: rr == "timeout")
    ctx.cov["layers"]["L-fn attr/globalq/specific"].update({"assert_children": nsa, "child_timeouts": timeouts})
    # the same observations from a position-dependent executable (-fno-pie -no-pie): there DISPATCH_QUEUE_CONCURRENT is a COPY-relocated
    # duplicate of the table's first entry in the executable's own .bss, which the library has to recognise by its contents
    import os
    from common import cc_harness, SCRATCH, VERIF
    hn = cc_harness([os.path.join(VERIF, "harness", "lfn.c")], os.path.join(SCRATCH, "bin", "hooked", "lfn_nopie"), ctx.build("hooked"), "hooked",
                    ["-DLFN_NOPIE", "-fno-pie", "-no-pie"])
    nl = ["AI 0", "AO 0 0", "AO 0 1"] + ["AF 0 %d" % f for f in range(3)] + ["AQ 0 %d %d" % (q, rr_) for q in range(7) for rr_ in range(16)] + ["QC 0"]
    # compositions on top of it, in both orders
    nreal, _, _ = run_lines(hn, ["NP"] + nl, timeout=120)
    nmodel, _, _ = run_lines(drv, nl)
    copied = nreal[:1] == ["1"]
    ctx.cov["layers"]["L-fn attr/globalq/specific"]["non_pie_copy_relocated"] = copied
    nd = ctx.diff_streams("L-fn attr from a position-dependent executable", nl, nreal[1:], nmodel)
    for l, rr, m in nd[:2]:
        ctx.violation("attribute built on DISPATCH_QUEUE_CONCURRENT in a position-dependent executable (the constant is a copy of the table entry outside the table): real library answered `%s`, the property requires `%s` for `%s`" % (rr, m, l),
                      {"line": l, "real": rr, "expected": m, "nopie": True}, signature="c18:nopie:" + l.split()[0])
    # the first queue-specific values of a fresh queue stored at the same moment by several threads: none is lost
    from tracecheck import run_traces
    run_traces(ctx, "c18_firstset", [[ctx.seed * 10 + i, 12000 if ctx.thorough else 3000] for i in range(2)], None, None, "L-api first values stored at once", "firstset", timeout=200)
    # known finding F41: dispatch_assert_queue inside dispatch_apply answers by the thread that runs the iteration
    from lanetrace import forced
    forced(ctx, "f41_apply_assert", "F41", "c18:assert:apply-iteration-thread:forced-F41", "F41")
    for l, rr, m in diffs[:4]:
        kind = l.split()[0]
        # the model is the property's statement for these observations: a difference is a failing input
        ctx.violation("%s: real library answered `%s`, the property requires `%s` for `%s`" % (
            {"GQ": "dispatch_get_global_queue", "SQ": "dispatch_get_specific", "SA": "dispatch_assert_queue", "QC": "queue created from attribute"}.get(kind, "attribute constructor"),
            rr, m, l[:200]), {"line": l, "real": rr, "expected": m}, signature="c18:" + kind)


def replay(ctx, obj):
    h = ctx.harness("lfn")
    if obj["replay"].get("nopie"):
        import os
        from common import cc_harness, SCRATCH, VERIF
        h = cc_harness([os.path.join(VERIF, "harness", "lfn.c")], os.path.join(SCRATCH, "bin", "hooked", "lfn_nopie"), ctx.build("hooked"), "hooked", ["-DLFN_NOPIE", "-fno-pie", "-no-pie"])
    out, _, _ = run_lines(h, [obj["replay"]["line"]])
    print("replay `%s` -> %s (expected %s)" % (obj["replay"]["line"], out[0], obj["replay"].get("expected")))
    return 0 if out[0] == obj["replay"].get("expected") else 1
