"""C08 — semaphores conserve permits: no spurious success, no lost signal."""
import os, re, subprocess
from tracecheck import run_traces
from common import sh
from props.C03 import replay

META = {
    "text": "Lean theorems over the semaphore model (value word, kernel semaphore, signal = increment then post iff negative, wait = decrement then sleep / poll, timeout = undo "
            "loop or drain), any number of threads, any history: successful waits never exceed v + signals started; at quiescence exactly v + signals - successes permits remain "
            "and no wake-up is left over; a thread blocked in the untimed wait with no post pending implies the value is negative. Tie: every dsema_value transition of the real "
            "library under signal / forever / timed / polling storms is replayed through SemaP.step (incl. the compare-exchange that undoes a timed-out decrement); the statement is "
            "evaluated online on the same runs, then the remaining permits are drained and counted, then blocked untimed waiters are released by exactly as many signals.",
    "note": "Assumes POSIX semaphore semantics for the kernel object (counting; sem_timedwait fails with ETIMEDOUT only after the deadline). 'Non-zero only after the full timeout' is "
            "observed with a one-sided clock comparison. Interleaving model.",
    "technique": "Lean 4 proof (balance invariant over ghost lists of slow waiters / posters; omega) + replay of real atomic traces + online permit-count oracle",
}

THEOREMS = ["C08.no_spurious_success", "C08.conservation", "C08.forever_waiter_released", "C08.signal_counter_exact", "C08.F49_as_found"]


def deadline_lines(rng, n):
    """TES lines: the absolute deadline a timed wait hands to the kernel, computed while time passes between clock readings"""
    B63, M, MAXV = 2 ** 63, 2 ** 64, 2 ** 62 - 1
    out = []
    for _ in range(n):
        nu, nm, nw = 10 ** 12 + rng.below(10 ** 15), 10 ** 12 + rng.below(10 ** 15), 17 * 10 ** 17 + rng.below(10 ** 15)
        step = rng.choice([1, 50, 1000, 10 ** 6, 10 ** 8])
        ahead = rng.choice([1, 1000, 10 ** 6, 3 * 10 ** 8, 10 ** 10]) + rng.below(1000) + 3 * step
        if rng.below(2): out.append(("TES %d %d %d %d %d" % (nu + ahead, nu, nm, nw, step), nw, ahead, step))
        else: out.append(("TES %d %d %d %d %d" % (B63 + nm + ahead, nu, nm, nw, step), nw, ahead, step))
    return out


def run(ctx):
    ctx.proof("DispatchVerif.Props.C08", THEOREMS)
    ctx.assumptions += ["the kernel semaphore is a counting semaphore; a timed kernel wait fails only after its deadline",
                        "(since F34 a preemption between the two clock readings of the deadline computation can only make a timed wait longer) the wall clock is not stepped forward during a timed wait: the POSIX back end hands sem_timedwait an absolute CLOCK_REALTIME deadline, also for uptime / monotonic timeouts (a step would end the wait early; outside the property's quantifier over call histories)"]
    h = ctx.harness("tr_sema")
    drv = ctx.driver()
    cfg = [(6, 400, 2), (8, 300, 0), (4, 600, 1), (12, 200, 0)] if not ctx.thorough else [(6, 4000, 2), (8, 3000, 0), (4, 6000, 1), (12, 2000, 0), (16, 1500, 3), (2, 6000, 0), (3, 5000, 1)]
    procs, paths, items = [], [], 0
    for i, (thr, ops, v) in enumerate(cfg):
        path = os.path.join(ctx.outdir, "sema-%d.txt" % i)
        f = open(path, "w")
        cmd = [h, str(ctx.seed * 100 + i), str(thr), str(ops), str(v)]
        procs.append((subprocess.Popen(cmd, stdout=f, stderr=subprocess.DEVNULL), f, path, cmd))
    for p, f, path, cmd in procs:
        try:
            rc = p.wait(timeout=300)
        except subprocess.TimeoutExpired:
            p.kill(); rc = -9
        f.close()
        head = [l.strip() for l in open(path) if l.startswith("ORACLE")][:1]
        if rc == -9:
            ctx.violation("semaphore workload hung (a waiter was never released)", {"cmd": cmd}, signature="sema:hang")
        elif head and "VIOL" in head[0]:
            ctx.violation("semaphore oracle: " + head[0][:300], {"cmd": cmd, "trace": path}, signature="sema:" + head[0][12:70])
        elif head:
            m = re.search(r"items=(\d+)", head[0]); items += int(m.group(1)) if m else 0
        else:
            ctx.violation("semaphore harness crashed (rc=%s)" % rc, {"cmd": cmd}, signature="sema:crash")
        paths.append(path)
    if drv:
        r = sh([drv, "sema"] + paths)
        m = re.search(r"explained-by-SemaP.step (\d+)", r.stdout); ex = int(m.group(1)) if m else 0
        ctx.cov["layers"].setdefault("L-trace sema", {})["replay"] = r.stdout.strip().splitlines()[0][:300] if r.stdout.strip() else ""
        ctx.count("L-trace sema", items + ex, ex, samples=[{"cmd": "tr_sema %d 6 400 2" % (ctx.seed * 100)}], signals=items)
        if r.returncode != 0:
            for b in [l for l in r.stdout.splitlines() if ": E " in l][:3]:
                ctx.broken("L-trace: dsema_value transition not explained by SemaP.step: " + b.split(": E ", 1)[1][:200])
    if not ctx.violations and not ctx.proof_broken:
        for p in paths: os.remove(p)
    # "a wait returns non-zero only after its full timeout": the absolute deadline handed to the kernel semaphore is never earlier than the
    # wall-clock reading plus what was left on the time's own clock - also when time passes between the readings of the two clocks
    from common import run_lines
    hl = ctx.harness("lfn")
    dl = deadline_lines(ctx.rng.fork("deadline"), 6000 if ctx.thorough else 600)
    real, rc, err = run_lines(hl, [d[0] for d in dl])
    early = [(d, r) for d, r in zip(dl, real) if r.isdigit() and int(r) < d[1] + d[2]]
    late = [(d, r) for d, r in zip(dl, real) if r.isdigit() and int(r) > d[1] + d[2] + 4 * d[3]]
    ctx.count("L-fn deadline", len(dl), len(dl), samples=[{"line": dl[0][0]}])
    for d, r in early[:3]:
        ctx.violation("the deadline of a timed wait %d ns ahead is %d ns early when %d ns pass between the readings of the two clocks: `%s` -> %s" % (d[2], d[1] + d[2] - int(r), d[3], d[0], r),
                      {"line": d[0], "real": r, "harness": "harness/lfn.c"}, signature="sema:deadline-early")
    for d, r in late[:3]:
        ctx.broken("L-fn: deadline later than the wall reading + time left + 4 steps: `%s` -> %s" % (d[0], r))
    # the permit counter at LONG_MAX: one signal too many is refused inside the call, never wrapped (F49)
    run_traces(ctx, "c08_limit", [[]], None, None, "L-api permit counter limit", "limit", timeout=120)
    ctx.cov["rule"] = ("TES lines: deadlines under passing time; tr_sema: half the threads signal, half wait (polling / timed up to 300 us / both), 2-16 threads, initial values 0-3, perturbed at the semaphore's atomic sites; "
                       "online check of successes <= v + signals started and of timeouts; final drain count; blocked untimed waiters released by equally many signals. "
                       "distinct_nontrivial = dsema_value transitions explained by the model")
