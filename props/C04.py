"""C04 — barriers on concurrent queues exclude and order like a writer lock."""
from lanetrace import run_lane, forced
from props.C02 import replay

META = {
    "text": "Lean theorems over the any-width lane model (any W >= 1, any number of threads): a thread inside a barrier item excludes every other thread inside any item "
            "(barrier_exclusion, also while width is reserved for a nested dispatch_apply), the barrier lock is never duplicated by lock transfer, and the width word equals "
            "exactly the units held + redirected items + the pending-barrier reservation in every reachable state; items leave the list in the order they entered it for every width "
            "(fifo_every_width over executions with push / pop history), a thread owns the lane in barrier mode only while no earlier-popped reader is unfinished, and nothing starts while a barrier item runs. Every dq_state transition of a concurrent queue under "
            "mixed reader / barrier / sync / apply workloads is replayed through LaneW.step; exclusion and the two ordering clauses are evaluated on the stamps of the same runs.",
    "note": "The ordering theorems are about the order in which items reach the queue's list (the tail exchange inside the submitting call); the call/return formulation is checked by the oracle (sampling), and is false for a dispatch_barrier_sync on the fast path (known finding F15, shared with C02). Interleaving model; "
            "QoS / override bits are masked out of the comparison.",
    "technique": "Lean 4 proof (Owicki-Gries invariant with ghost unit holders) + replay of real atomic traces through the model's step function + stamp oracle",
}

THEOREMS = ["C04.barrier_exclusion", "C04.barrier_owner_unique", "C04.width_accounting", "C04.nonbarrier_running_accounted",
            "C04.fifo_every_width", "C04.barrier_after_earlier_readers", "C04.nothing_starts_during_barrier", "C04.reader_count_below_barrier", "C04.F44_reader_count_carries"]


def run(ctx):
    ctx.proof("DispatchVerif.Props.C04", THEOREMS)
    ctx.assumptions += ["sequentially consistent interleaving model of the atomic operations", "priority / override bits of dq_state are not modelled",
                        "known finding F15: a dispatch_barrier_sync on the fast path can start before an asynchronous item whose submission had returned",
                        "known finding F44: the theorems count readers in a natural number; they describe dq_state while fewer than 8190 dispatch_sync readers are inside one queue at once (C04.reader_count_below_barrier)"]
    cfg = [(4, 400, 0), (8, 300, 0), (12, 200, 0), (4, 800, 0, 0, -2), (4, 800, 0, 0, -3)] if not ctx.thorough else [(4, 3000, 0), (8, 2500, 0), (12, 2000, 0), (16, 1500, 0), (3, 4000, 0), (4, 8000, 0, 0, -2), (4, 8000, 0, 0, -3), (4, 8000, 0, 0, -5)]
    run_lane(ctx, cfg, what="c04", order_property=True)
    forced(ctx, "f15_sync_overtake", "F15", "lane:order:sync-fastpath-overtakes:forced-F15", "F15")
    # known finding F44: more simultaneous dispatch_sync readers than the reader count in dq_state can hold (8190 on the widest queue)
    forced(ctx, "f44_reader_overflow", "F44", "lane:barrier:reader-count-carries:forced-F44", "F44")
    # beyond the property's own histories: the (private, legacy) width setter on a busy queue - the drainer that ran it gives the queue
    # back with the width it has now (widths >= 2 and the automatic constants)
    from tracecheck import run_traces
    run_traces(ctx, "c04_width", [[ctx.seed * 10 + i, 5000 if ctx.thorough else 1500] for i in range(3 if ctx.thorough else 2)], None, None, "L-api width changes on a busy queue", "width", timeout=300)
    ctx.cov["rule"] = ("tr_lane workloads on a serial and a concurrent queue: barrier / non-barrier async and sync items, async_and_wait, group_async, dispatch_apply on the queue, "
                       "suspend/resume; stamps checked for barrier overlap and both ordering clauses; every dq_state transition must be a step of LaneW. "
                       "distinct_nontrivial = transitions explained by the model")
