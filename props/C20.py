"""C20 — data transforms round-trip and never read outside their input."""
import base64, os, subprocess
from common import run_lines

META = {
    "text": "Lean theorems over transcriptions of the Base64 / Base32 / Base32Hex encoder and decoder loops (round trip for every byte string; "
            "the decoder's result does not depend on how the text is cut into regions; its writes fit the allocation), of the UTF-8 -> UTF-16 loop "
            "(well-formed text converts; every cut into regions gives the single-region result; no read outside the object for arbitrary bytes) and of "
            "the UTF-16 -> UTF-8 loop (single-region round trip with the UTF-8 -> UTF-16 model). Tables and table sizes are generated from "
            "transform.c on every run; the models' executable definitions are compared byte for byte with dispatch_data_create_with_transform on "
            "fragmented inputs; the round-trip statement is evaluated on the real results; a sanitizer build replays the corpus.",
    "note": "Partial: the encoders' look-back across regions and 'malformed input is rejected or invertible' are covered by the differential run and the oracle only (no "
            "theorem); the UTF-8 -> UTF-16 source-shaped loop is tied to its position-shaped twin by the differential run, the UTF-16 -> UTF-8 one by a theorem (it computes "
            "the same result and never reads outside). Trusted: Lean kernel, generators, harness; ASan for memory safety of the real code.",
    "technique": "Lean 4 proof (induction over groups / regions, omega, decide over generated tables) + differential run vs the real library + ASan replay",
}

THEOREMS = ["C20.b64_roundtrip", "C20.b32_roundtrip", "C20.b32hex_roundtrip",
            "C20.b64_fragmentation_independent", "C20.b32_fragmentation_independent", "C20.b32hex_fragmentation_independent",
            "C20.decoder_writes_in_bounds", "C20.utf8_to_utf16_fragmentation_independent", "C20.utf8_to_utf16_never_reads_outside", "C20.utf8_to_utf16_source_loop_agrees", "C20.utf8_to_utf16_source_loop_never_reads_outside", "C20.utf8_to_utf16_source_loop_fragmentation_independent", "C20.utf16_to_utf8_fragmentation_independent", "C20.utf16_to_utf8_source_loop_agrees", "C20.utf16_to_utf8_never_reads_outside", "C20.utf16_to_utf8_source_loop_fragmentation_independent",
            "C20.utf8_utf16_roundtrip_single_region", "C20.utf8_utf16_roundtrip_any_fragmentation", "C20.utf8_to_utf16_output_wellformed", "C20.utf8_to_utf16_output_accepted", "C20.utf16_to_utf8_output_wellformed", "C20.utf16_to_utf8_output_accepted", "C20.surrogates_rejected", "C20.defects_fixed", "C20.F19_double_strip", "C20.F19_fixed",
            "Tie.b64_tables", "Tie.b32_tables", "Tie.b32hex_tables"]

EDGE = [0, 1, 0x41, 0x7f, 0x80, 0x7ff, 0x800, 0xd7ff, 0xe000, 0xfeff, 0xfffe, 0xffff, 0x10000, 0x1f600, 0x10ffff]


def u8(c):
    if c < 0x80: return bytes([c])
    if c < 0x800: return bytes([0xc0 | c >> 6, 0x80 | c & 63])
    if c < 0x10000: return bytes([0xe0 | c >> 12, 0x80 | (c >> 6) & 63, 0x80 | c & 63])
    return bytes([0xf0 | (c >> 18) & 7, 0x80 | (c >> 12) & 63, 0x80 | (c >> 6) & 63, 0x80 | c & 63])


def units(c):
    if c < 0x10000: return [c]
    c -= 0x10000
    return [0xd800 + (c >> 10), 0xdc00 + (c & 0x3ff)]


def scalar(r):
    k = r.below(6)
    if k == 0: return r.choice(EDGE)
    if k == 1: return r.below(0x80)
    if k == 2: return 0x80 + r.below(0x780)
    if k == 3:
        c = 0x800 + r.below(0xf800)
        return c if not (0xd800 <= c < 0xe000) else 0x4e2d
    if k == 4: return 0x10000 + r.below(0x100000)
    return 0x20 + r.below(0x5f)


def split(r, b):
    if len(b) < 2: return [b]
    k = r.below(4)
    if k == 0: return [b]
    if k == 3:
        cuts = list(range(1, len(b)))
    else:
        cuts = sorted(set(1 + r.below(len(b) - 1) for _ in range(r.choice([1, 1, 2, 3, 5, len(b)]))))
    parts, last = [], 0
    for c in cuts:
        parts.append(b[last:c]); last = c
    parts.append(b[last:])
    return parts


def hexparts(parts):
    return "|".join(p.hex() for p in parts if p) or "-"


def gen_lines(r, n):
    out = []
    stats = {"wf_utf8": 0, "malformed_utf8": 0, "utf16": 0, "base_enc": 0, "base_dec": 0, "regions": 0, "invalid_pair": 0}
    # --- base encoders / decoders
    for fmt, enc, alphabet in (("b64", base64.b64encode, b"ABCDEFGHIJKLMNOPQRSTUVWXYZabcdefghijklmnopqrstuvwxyz0123456789+/"),
                               ("b32", base64.b32encode, b"ABCDEFGHIJKLMNOPQRSTUVWXYZ234567"),
                               ("b32hex", base64.b32hexencode, b"0123456789ABCDEFGHIJKLMNOPQRSTUV")):
        for _ in range(n // 10):
            k = r.choice([1, 1, 2, 3, 4, 5, 6, 7, 8, 9, 10, 15, 16, 17, 30, 31, 32, 40])
            b = bytes(r.below(256) for _ in range(k))
            p = split(r, b); stats["regions"] += len(p); stats["base_enc"] += 1
            out.append("X2 none %s %s" % (fmt, hexparts(p)))
        for _ in range(n // 10):
            t = bytearray(enc(bytes(r.below(256) for _ in range(r.below(24)))))
            k = r.below(7)
            if k == 1 and t:
                for _ in range(1 + r.below(3)): t.insert(r.below(len(t) + 1), r.choice(b" \t\n"))
            elif k == 2 and t: t[r.below(len(t))] = r.choice(b"!#$%-_.~\x00\x7f\x80\xff{")
            elif k == 3 and t: t[r.below(len(t))] = ord("=")
            elif k == 4: t = t[:r.below(len(t) + 1)]
            elif k == 5: t = bytearray(r.choice(alphabet + b"= \n") for _ in range(1 + r.below(12)))
            elif k == 6: t = t + t          # concatenated encodings: padding in the middle
            if not t: t = bytearray(b"=")
            p = split(r, bytes(t)); stats["regions"] += len(p); stats["base_dec"] += 1
            fo = r.choice(["none", "none", "none", "b64", "b32", "b32hex"])
            out.append("X2 %s %s %s" % (fmt, fo, hexparts(p)))
    # --- UTF-8 -> UTF-16
    for _ in range(n * 3 // 10):
        malformed = r.chance(3, 10)
        b = bytearray(b"".join(u8(scalar(r)) for _ in range(1 + r.below(8))))
        if malformed:
            stats["malformed_utf8"] += 1
            k = r.below(7)
            if k == 0: b = bytearray(r.below(256) for _ in range(1 + r.below(7)))
            elif k == 1: b = b[:1 + r.below(len(b))]
            elif k == 2: b += u8(0xd800 + r.below(0x800))
            elif k == 3: b[r.below(len(b))] = r.choice([0x80, 0xbf, 0xc0, 0xc1, 0xf5, 0xf8, 0xfc, 0xff])
            elif k == 4: b += bytes([0xc0, 0x80 | r.below(64)])
            elif k == 5: b += bytes([0xf4 + r.below(4), 0x90 + r.below(0x30), 0x80, 0x80])
            else: b.insert(r.below(len(b) + 1), 0x80 + r.below(0x80))
        else:
            stats["wf_utf8"] += 1
        p = split(r, bytes(b)); stats["regions"] += len(p)
        out.append("X2 utf8 %s %s" % (r.choice(["utf16le", "utf16le", "utf16be"]), hexparts(p)))
    # --- UTF-16 -> UTF-8 / UTF-16
    for _ in range(n * 3 // 10):
        be = r.chance(3, 10)
        us = []
        if r.chance(1, 5): us.append(r.choice([0xfeff, 0xfeff, 0xfffe]))
        for _ in range(1 + r.below(7)): us += units(scalar(r))
        if r.chance(1, 4):
            k = r.below(4)
            if k == 0: us.insert(r.below(len(us) + 1), 0xd800 + r.below(0x800))
            elif k == 1: us = us[:1 + r.below(len(us))]
            elif k == 2: us = [r.below(0x10000) for _ in range(1 + r.below(5))]
            else: us.append(0xd800 + r.below(0x400))
        b = b"".join(u.to_bytes(2, "big" if be else "little") for u in us)
        if r.chance(1, 10): b = b[:-1]
        if not b: b = b"a"
        p = split(r, b); stats["regions"] += len(p); stats["utf16"] += 1
        fo = r.choice(["utf8", "utf8", "utf8", "utf16le", "utf16be"])
        out.append("X2 %s %s %s" % ("utf16be" if be else "utf16le", fo, hexparts(p)))
    # --- unsupported pairs
    for _ in range(20):
        stats["invalid_pair"] += 1
        out.append("X2 %s %s 4142" % (r.choice(["none", "b64"]), r.choice(["utf8", "utf16le"])))
    return out, stats


def oracle_lines(r, n):
    """round trips the property states, as pairs of lines evaluated on the real library only"""
    cases = []
    for _ in range(n):
        k = r.below(3)
        if k == 0:
            fmt = r.choice(["b64", "b32", "b32hex"])
            b = bytes(r.below(256) for _ in range(1 + r.below(40)))
            cases.append(("base", fmt, b, split(r, b)))
        else:
            cs = [scalar(r) for _ in range(1 + r.below(8))]
            if r.chance(1, 6): cs = [0xfeff] * (1 + r.below(2)) + cs      # a leading byte-order mark, possibly followed by a U+FEFF character
            b = b"".join(u8(c) for c in cs)
            cases.append(("utf", r.choice(["utf16le", "utf16be"]), b, split(r, b)))
    return cases


def run(ctx):
    ctx.proof("DispatchVerif.Props.C20", THEOREMS, extra_modules=["DispatchVerif.Tie.Tables"])
    ctx.assumptions += ["dispatch_data_apply presents the regions of the object in order (C13)", "malloc succeeds",
                        "memory safety of the real loops is observed on the sanitizer build for the generated inputs; the theorems state it for the models"]
    drv = ctx.driver()
    h = ctx.harness("lfn")
    n = 300000 if ctx.thorough else 30000
    lines, stats = gen_lines(ctx.rng.fork("tf"), n)
    corpus = [l.strip() for l in open(os.path.join(os.path.dirname(__file__), "..", "corpus", "C20.txt")) if l.strip() and not l.startswith("#")]
    lines = corpus + lines
    real, rc, err = run_lines(h, lines)
    ctx.cov["rule"] = ("L-fn: generated transforms through dispatch_data_create_with_transform on fragmented objects (valid / whitespace / invalid / "
                       "misplaced padding / truncated base texts; well-formed and malformed UTF-8 and UTF-16 cut at random positions down to one byte per "
                       "region), real bytes vs model bytes; then round trips evaluated on the real library; then the corpus under ASan. "
                       "distinct_nontrivial = distinct inputs with a non-empty object")
    ctx.cov["layers"]["generator"] = stats
    if drv is not None:
        model, _, _ = run_lines(drv, lines)
        diffs = ctx.diff_streams("L-fn transform", lines, real, model, nontrivial=lambda l, r: not l.endswith(" -"))
        oob = [l for l, m in zip(lines, model) if m == "OOB"]
        ctx.cov["layers"]["L-fn transform"]["model_oob_outcomes"] = len(oob)
        for l, rr, m in diffs[:3]:
            ctx.broken("L-fn correspondence transform.c vs model (input `%s`: real %s, model %s)" % (l[:200], rr[:80], m[:80]))
        for l in oob[:2]:
            ctx.violation("the model of the transform reads outside its input on `%s`" % l[:200], {"line": l}, signature="oob:" + l.split()[1])
    # ---- "for arbitrary input a transform either fails or returns data the inverse transform accepts", on the real library: every
    # non-NULL result of a UTF transform in the generated stream (well-formed and malformed inputs) is fed to the inverse transform
    UTF = ("utf8", "utf16le", "utf16be")
    inv, src = [], []
    for l, o in zip(lines, real):
        f = l.split()
        if len(f) >= 4 and f[0] == "X2" and f[1] in UTF and f[2] in UTF and f[1] != f[2] and o not in ("NULL", "-") and not o.startswith("size") and o:
            inv.append("X2 %s %s %s" % (f[2], f[1], o)); src.append(l)
    inv, src = inv[:(40000 if ctx.thorough else 6000)], src[:(40000 if ctx.thorough else 6000)]
    oi, _, _ = run_lines(h, inv)
    rej = [(a, b) for a, b, o in zip(src, inv, oi) if o == "NULL"]
    ctx.count("oracle inverse accepts", len(inv), len(set(inv)), samples=[{"in": src[0], "inverse": inv[0]}] if inv else [], failures=len(rej))
    for a, b in rej[:3]:
        ctx.violation("a transform returned data its inverse rejects: `%s` gave the input of `%s`, which returns NULL" % (a[:160], b[:160]), {"lines": [a, b]}, signature="inverse-rejects:" + a.split()[1] + ">" + a.split()[2])
    # ---- the property's own statement on the real library: round trips, independent of fragmentation
    cases = oracle_lines(ctx.rng.fork("oracle"), 20000 if ctx.thorough else 3000)
    l1 = []
    for kind, fmt, b, parts in cases:
        l1.append("X2 %s %s %s" % ("none" if kind == "base" else "utf8", fmt, hexparts(parts)))
    o1, _, _ = run_lines(h, l1)
    l2, idx = [], []
    rr = ctx.rng.fork("oracle2")
    for i, ((kind, fmt, b, parts), o) in enumerate(zip(cases, o1)):
        if o in ("NULL", "-") or o.startswith("size"):
            ctx.violation("transform of valid input failed: `%s` -> %s" % (l1[i][:200], o), {"line": l1[i], "real": o}, signature="rt-null:" + fmt)
            continue
        eb = bytes.fromhex(o)
        l2.append("X2 %s %s %s" % (fmt, "none" if kind == "base" else "utf8", hexparts(split(rr, eb))))
        idx.append(i)
    o2, _, _ = run_lines(h, l2)
    bad = 0
    for j, i in enumerate(idx):
        kind, fmt, b, parts = cases[i]
        # "returns the original text (apart from a leading byte-order mark)": one leading U+FEFF may go, nothing else
        want = (b[3:] if kind == "utf" and b[:3] == b"\xef\xbb\xbf" else b).hex()
        got = "" if o2[j] == "-" else o2[j]          # an empty result is printed as "-"
        if got != want and not (kind == "utf" and got == b.hex()):
            bad += 1
            if bad <= 3:
                ctx.violation("round trip through %s lost the input: `%s` then `%s` -> %s" % (fmt, l1[i][:160], l2[j][:160], o2[j][:80]),
                              {"lines": [l1[i], l2[j]], "real": [o1[i], o2[j]], "expected": want}, signature="rt:" + fmt)
    ctx.count("oracle round trip", len(cases), len(set(l1)), samples=[{"in": l1[0], "encoded": o1[0]}], failures=bad)
    # ---- sanitizer build: the corpus and a slice of the generated inputs must run clean
    try:
        ha = ctx.harness("lfn", variant="asan")
        slice_ = corpus + lines[len(corpus):len(corpus) + (20000 if ctx.thorough else 4000)] + l1[:500] + l2[:500]
        env = {"ASAN_OPTIONS": "detect_leaks=0:abort_on_error=0:exitcode=99"}
        ra, rca, erra = run_lines(ha, slice_, env=env)
        ctx.count("ASan replay", len(slice_), len(set(slice_)), clean=(rca == 0))
        if rca != 0:
            first = slice_[len(ra)] if len(ra) < len(slice_) else "?"
            ctx.violation("sanitizer report while transforming `%s`: %s" % (first[:200], [l for l in erra.splitlines() if "ERROR" in l][:1]),
                          {"line": first, "asan": erra[-1500:]}, signature="asan:" + (first.split()[1] if " " in first else "?"))
    except Exception as e:  # the sanitizer build is best effort; say so
        ctx.cov["layers"]["ASan replay"] = {"skipped": str(e)[:300]}


def replay(ctx, obj):
    h = ctx.harness("lfn")
    r = obj["replay"]
    lines = r.get("lines") or [r["line"]]
    out, _, _ = run_lines(h, lines)
    print("replay:", list(zip(lines, out)))
    return 0
