"""C02 — serial queues run one item at a time, in submission order."""
from lanetrace import run_lane, forced
from tracecheck import run_traces

META = {
    "text": "Lean theorems over the serial-lane protocol model (any number of threads, any client program, every interleaving of the model's atomic steps): at most one thread "
            "is inside an item (serial_exclusion); pushed items start in push order, none skipped, none twice (serial_fifo: pushed = started ++ in-hand ++ queued), and the "
            "fast-path sync can only be taken when nothing pushed is pending (serial_fifo_unowned). Tie: every dq_state transition the real library performs on a serial "
            "queue under multi-threaded workloads (async / sync / barrier / async_and_wait / group / apply / suspend-resume, 4-12 threads, perturbed at the atomic sites) is "
            "replayed through LaneW.step, LaneR.step and LaneF.step; the statement itself (no overlap; submission order from call/return stamps) is evaluated on the same runs.",
    "note": "Interleaving (sequentially consistent) model at the granularity of libdispatch's atomics; the call/return formulation follows from the push-order theorem because the "
            "tail exchange happens inside the submitting call. Trusted: Lean kernel, the atomic hook, the trace replayer; the tie is by recorded executions (sampling).",
    "technique": "Lean 4 proof (thread-modular inductive invariant with ghost history) + replay of real atomic traces through the model's step function + stamp oracle",
}

THEOREMS = ["C02.serial_exclusion", "C02.serial_fifo", "C02.serial_fifo_unowned", "C02.F15_sync_fast_path_overtakes", "C02.wlh_walk_never_faults", "C02.F39_as_found"]


def run(ctx):
    ctx.proof("DispatchVerif.Props.C02", THEOREMS)
    ctx.assumptions += ["sequentially consistent interleaving model of the atomic operations (x86-TSO RMWs are SC)", "the MPSC list operations between two atomics are modelled as one step of the owner",
                        "known finding F15: submission order is not kept between an asynchronous item and a later synchronous submission that takes the fast path while a first pusher has not yet woken the queue"]
    cfg = [(4, 400, 1), (8, 300, 1), (12, 150, 1), (6, 300, 0)] if not ctx.thorough else [(4, 3000, 1), (8, 2000, 1), (12, 1500, 1), (16, 1000, 1), (6, 2000, 0), (2, 4000, 1)]
    run_lane(ctx, cfg, what="c02", order_property=True)
    forced(ctx, "f15_sync_overtake", "F15", "lane:order:sync-fastpath-overtakes:forced-F15", "F15")
    # "including the main queue": the main queue drained run-loop style, with nested run loops inside items
    mq = [[ctx.seed * 100 + i, 2 + i, 1500 if ctx.thorough else 250] for i in range(4 if ctx.thorough else 2)]
    run_traces(ctx, "c02_mainq", mq, None, None, "L-api main queue", "mainq", timeout=200)
    # serial queues that are (or just were) the target of a queue whose target is changed while synchronous items run through it
    rt = [[ctx.seed * 100 + i, 6, 6000 if ctx.thorough else 2500] for i in range(4 if ctx.thorough else 2)]
    # ... and with the global queue as a third target (F39: a waiter that read the old role and the new target walked past the root queue)
    rt += [[ctx.seed * 100 + 50 + i, 6, 4000 if ctx.thorough else 2000, 1] for i in range(3 if ctx.thorough else 1)]
    # ... and with targets that the retargeted queue alone owns: the old target goes away with the change (F50)
    rt += [[ctx.seed * 100 + 80 + i, 1 + i % 2, 6000 if ctx.thorough else 3000, 2] for i in range(4 if ctx.thorough else 2)]
    run_traces(ctx, "c02_retarget", rt, None, None, "L-api retargeted serial queue", "retarget", timeout=200)
    # a serial queue suspended and resumed by its own running item while other work arrives: the resume does not hand the queue on
    run_traces(ctx, "c02_selfresume", [[ctx.seed * 10 + i, 120 if ctx.thorough else 40] for i in range(2)], None, None, "L-api self suspend / resume", "selfresume", timeout=60)
    ctx.cov["rule"] = ("tr_lane workloads restricted to the serial queue (plus one mixed run): every item's start/end stamps and every submission's call/return stamps are checked for "
                       "overlap and order; every recorded dq_state transition must be a step of the serial models; c02_mainq: the main queue drained through the run-loop callback with nested callback calls inside items (no overlap, asynchronous items in submission order, exactly once); c02_retarget: two serial queues serve in turn as the target of a third, whose target is changed while sync / async_and_wait / async items run through it and directly on the two (no overlap on either, every call returns, nothing hangs). distinct_nontrivial = transitions explained by the model")


def replay(ctx, obj):
    import subprocess
    r = obj["replay"]
    if "cmd" in r:
        p = subprocess.run(r["cmd"], stdout=subprocess.PIPE, text=True)
        print("\n".join(l for l in p.stdout.splitlines() if not l.startswith("E "))[:800]); return 1 if "VIOL" in p.stdout or "STUCK" in p.stdout else 0
    return 0
