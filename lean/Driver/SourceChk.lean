import DispatchVerif.Core.SourceFold
/-! `dvdriver source <trace>…`: transitions of `ds_pending_data` (harness/tr_source.c) against `SourceFold.step` with the
    combine operation of the source type: a merge is `f pending v` for some `v`, a latch exchanges the word with 0. -/
namespace SourceChk
open SourceFold

def main (paths : List String) : IO UInt32 := do
  let mut total := 0; let mut ok := 0; let mut bad : List String := []
  for path in paths do
    for line in (← IO.FS.readFile path).splitOn "\n" do
      match line.splitOn " " with
      | ["E", _, _, mode, op, old, new, func] =>
        let opn := op.toNat!; let o := old.toNat!; let n := new.toNat!; let m := mode.toNat!
        if opn = 4 ∨ opn = 0 then continue
        total := total + 1
        let good :=
          if func == "_dispatch_source_latch_and_call" then opn = 2 && (step fAdd { pending := o } .latch).pending == n
          else if m = 0 then opn = 5 && (step fAdd { pending := o } (.merge ((n + M64 - o) % M64))).pending == n
          else if m = 1 then opn = 8 && (step fOr { pending := o } (.merge n)).pending == n
          else opn = 1 && (step fRep { pending := o } (.merge n)).pending == n
        if good then ok := ok + 1 else bad := s!"{path}: {line}" :: bad
      | _ => pure ()
  IO.println s!"ds_pending_data transitions {total}  explained-by-SourceFold.step {ok}  UNEXPLAINED {bad.length}"
  for b in bad.reverse.take 8 do IO.println b
  return if bad.isEmpty then 0 else 1

end SourceChk
