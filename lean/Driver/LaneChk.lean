import DispatchVerif.Core.LaneW
import DispatchVerif.Core.SuspendP
import DispatchVerif.Core.ActP
import DispatchVerif.Core.LaneRResp
import DispatchVerif.Core.LaneFFifoMain
import DispatchVerif.Core.FinishW
/-! L-trace prototype with the Lean model itself: every recorded dq_state transition of the real
    library (hooked build, real multi-threaded workloads) must be the dq-effect of the LaneW `step`
    function at one of the pcs that the C function name corresponds to. -/
namespace LaneChk
open LaneW

def hexVal (s : String) : Nat := s.toList.foldl (fun acc c =>
  acc * 16 + (if '0' ≤ c ∧ c ≤ '9' then c.toNat - 48 else if 'a' ≤ c ∧ c ≤ 'f' then c.toNat - 87 else 0)) 0

def bit (x : Nat) (i : Nat) : Bool := (x >>> i) % 2 = 1

/-- decode the 64-bit word into the fields LaneW tracks; `none` if the queue is suspended/inactive -/
def decodeDq (x W : Nat) : Option Dq :=
  if x >>> 55 ≠ 0 then none else
  let f := (x >>> 41) % 8192
  let o := x % 1073741824
  some { u := (f : Int) - (4096 - W), B := bit x 54, pb := bit x 40, D := bit x 39, E := bit x 31,
         O := if o = 0 then none else some o }

def mkSh (d : Dq) (items : List Item) (sigs : List Tid) : Sh := { dq := d, items := items, sigN := sigs }

def it (bar : Bool) (w : Option Tid) : Item := { id := 1, barrier := bar, waiter := w, linked := true }

/-- item-list shapes that enable the different branches of a step -/
def shapes (t : Tid) : List (List Item) :=
  [[], [it false none], [it false (some 99)], [it true none], [it true (some 99)],
   [it false none, it false none], [it false none, it true none], [it false (some 99), it false none],
   [it true (some 99), it false none], [it true (some t), it false none], [it true (some t)]]

/-- the pcs a C function name may correspond to (W-dependent owned-width candidates included) -/
def pcsFor (func : String) (op : Nat) (W : Nat) (o n : Dq) : List Pc :=
  let ks : List Nat := ([0,1,2,3,4,5,6,7,8] ++
      [ (o.u - n.u).toNat, (o.u - n.u + (W:Int) - 1).toNat, (o.u - n.u + W).toNat, (o.u - n.u + 1).toNat,
        (o.u + W - n.u).toNat ]).filter (· ≤ W)
  match func with
  | "_dispatch_queue_drain_try_lock" => [.dTryLock]
  | "_dispatch_lane_non_barrier_complete" => [.nbc false .done]
  | "_dispatch_queue_try_upgrade_full_width" => ks.map .dUpgrade
  | "_dispatch_lane_drain_non_barriers" =>
    if op = 7 then [.dnb0 false .done]
    else ks.flatMap fun k => [.dnbFin k (some true) false .done, .dnbFin k (some false) false .done, .dnbFin k none false .done,
                              .dnbWidth k false .done]
  | "_dispatch_lane_drain" => if op = 9 then [.dDropBarrier] else [.dWidth]
  | "_dispatch_lane_push_waiter" => [.sSlowRmw 1 true, .sSlowRmw 1 false]
  | "_dispatch_queue_try_acquire_barrier_sync_and_suspend" => [.sTryB 1]
  | "_dispatch_lane_barrier_sync_invoke_and_complete" => [.sFastUnlock]
  | "_dispatch_queue_try_reserve_sync_width" => [.sTryR2 1]
  | "_dispatch_queue_try_acquire_async" => [.aTryAsync 1]
  | "_dispatch_queue_reserve_sync_width" => [.dWidth]
  | "_dispatch_queue_wakeup" => [.pLinked 1 true, .pLinked 1 false]
  | "_dispatch_lane_class_barrier_complete" => [.bc2 true false .done, .bc2 false false .done]
  | "_dispatch_lane_drain_barrier_waiter" => [.dbwRmw 99 true .done, .dbwRmw 99 false .done]
  | "_dispatch_queue_try_reserve_apply_width" => [.running 1 .nbcClient, .running 1 .nbcWorker]
  | "_dispatch_queue_relinquish_width" => ks.flatMap fun k => [.runningA 1 .nbcClient k, .runningA 1 .nbcWorker k]
  | "_dispatch_queue_drain_try_unlock" => ks.flatMap fun k => [.dUnlock (.units k) true, .dUnlock (.units k) false, .dUnlock .bar true, .dUnlock .bar false]
  | _ => []

def dqEq (a b : Dq) (ignoreO : Bool) : Bool :=
  a.u == b.u && a.B == b.B && a.pb == b.pb && a.D == b.D && a.E == b.E && (ignoreO || a.O == b.O)

/-- is (o → n) the dq-effect of a model step of thread t at one of the candidate pcs? -/
def explained (func : String) (op W : Nat) (t : Tid) (o n : Dq) : Bool :=
  let pcs := pcsFor func op W o n
  -- the lock-transfer target in the trace is a real tid; the model instance uses 99
  let ignoreO := func == "_dispatch_lane_drain_barrier_waiter"
  pcs.any fun pc => (shapes t).any fun items =>
    let ops : List Op := if func == "_dispatch_queue_try_reserve_apply_width" then [.apply (n.u - o.u).toNat] else [.worker]
    ops.any fun op =>
    (step W (mkSh o items [t]) t pc op).any fun r => dqEq r.1.dq n ignoreO && (ignoreO → n.O.isSome)

/-- suspend/resume transitions against SuspendP.step: compare the inline count and the side bit. The side count
    itself (`dq_side_suspend_cnt`, a plain field written under the side lock) is not in the trace; the slow-path
    read-modify-writes are serialised by that lock, so the replayer tracks it: +32 at every successful
    `_dispatch_lane_suspend_slow` transition, −32 at every successful `_dispatch_lane_resume_slow` one. -/
def suspExplained (func : String) (x y : Nat) (side : Nat) : Bool :=
  let c := x >>> 58; let sb := bit x 57
  let c' := y >>> 58; let sb' := bit y 57
  let pcs : List (SuspendP.Pc × SuspendP.Op) := match func with
    | "_dispatch_lane_suspend" => [(.idle, .suspend)]
    | "_dispatch_lane_suspend_slow" => [(.sRmw, .suspend)]
    | "_dispatch_lane_resume" => [(.idle, .resume)]
    | "_dispatch_lane_resume_slow" => [(.rRmw, .resume)]
    -- a property setter gives its own temporary suspension back: a resume (with the inline count at 0 it has to go through the
    -- side count like any resume; a bare subtraction there wraps the inline field - F23)
    | "_dispatch_barrier_trysync_or_async_f_complete" => [(.idle, .resume)]
    | _ => []
  pcs.any fun (pc, op) =>
    (SuspendP.step { c := c, sbit := sb, side := side, lock := some 1, logical := c + side } 1 pc op).any fun r =>
      r.1.c == c' && r.1.sbit == sb'

/-- transitions of `_dispatch_lane_resume` that touch INACTIVE (bit 56) / NEEDS_ACTIVATION (bit 55), against `ActP.step`:
    compare the inline count, INACTIVE and NEEDS_ACTIVATION; the side-count bit may be set (a queue suspended more than 63 times
    while still inactive) but such a transition never changes it -/
def actExplained (func : String) (x y : Nat) : Bool :=
  let c := x >>> 58; let ina := bit x 56; let na := bit x 55
  let c' := y >>> 58; let ina' := bit y 56; let na' := bit y 55
  if func != "_dispatch_lane_resume" || bit x 57 != bit y 57 then false else
  [ActP.Op.activate, ActP.Op.resume].any fun op => [c, c + 1, c - 1, 1].any fun lg =>
    (ActP.step { n := c, inactive := ina, na := na, logical := lg } 1 .idle op).any fun r =>
      r.1.n == c' && r.1.inactive == ina' && r.1.na == na'

/-! the serial models the C01 / C02 theorems are about (`LaneR`: exclusion + no stranded work; `LaneF`: FIFO) must
    explain every transition of a serial queue as well -/
def toR (d : Dq) : LaneR.Dq := { B := d.B, F := d.u ≥ 1, D := d.D, E := d.E, O := d.O }
def rEq (a b : LaneR.Dq) (ignoreO : Bool) : Bool :=
  a.B == b.B && a.F == b.F && a.D == b.D && a.E == b.E && (ignoreO || a.O == b.O)
def toF (d : Dq) : LaneF.Dq := { B := d.B, F := d.u ≥ 1, D := d.D, E := d.E, O := d.O }
def fEq (a b : LaneF.Dq) (ignoreO : Bool) : Bool :=
  a.B == b.B && a.F == b.F && a.D == b.D && a.E == b.E && (ignoreO || a.O == b.O)

def explainedSerial (func : String) (op : Nat) (t : Tid) (o n : Dq) : Bool :=
  let ignoreO := func == "_dispatch_lane_drain_barrier_waiter"
  let rItems : List (List LaneR.Item) := [[], [⟨1, none, true⟩], [⟨1, some 99, true⟩], [⟨1, some t, true⟩]]
  let fItems : List (List LaneF.Item) := [[], [⟨1, none, true⟩], [⟨1, some 99, true⟩], [⟨1, some t, true⟩]]
  let rp : List (LaneR.Pc × LaneR.Op) := match func with
    | "_dispatch_queue_drain_try_lock" => [(.dTryLock, .worker)]
    | "_dispatch_queue_wakeup" => [(.pLinked 1 true, .worker), (.pLinked 1 false, .override)]
    | "_dispatch_queue_try_acquire_barrier_sync_and_suspend" => [(.sTry 1, .worker)]
    | "_dispatch_lane_barrier_sync_invoke_and_complete" => [(.sFastUnlock, .worker)]
    | "_dispatch_lane_push_waiter" => [(.sSlowRmw 1, .worker)]
    | "_dispatch_lane_class_barrier_complete" => [(.bc2 true false .done, .worker), (.bc2 false false .done, .worker)]
    | "_dispatch_lane_drain_barrier_waiter" => [(.dbwRmw 99 true .done, .worker), (.dbwRmw 99 false .done, .worker)]
    | "_dispatch_queue_drain_try_unlock" => [(.dUnlock, .worker)]
    | _ => []
  let fp : List (LaneF.Pc × LaneF.Op) := match func with
    | "_dispatch_queue_drain_try_lock" => [(.dTryLock, .worker)]
    | "_dispatch_queue_wakeup" => [(.pLinked 1 true, .worker), (.pLinked 1 false, .override)]
    | "_dispatch_queue_try_acquire_barrier_sync_and_suspend" => [(.sTry 1, .worker)]
    | "_dispatch_lane_barrier_sync_invoke_and_complete" => [(.sFastUnlock, .worker)]
    | "_dispatch_lane_push_waiter" => [(.sSlowRmw 1, .worker)]
    | "_dispatch_lane_class_barrier_complete" => [(.bc2 true false .done, .worker), (.bc2 false false .done, .worker)]
    | "_dispatch_lane_drain_barrier_waiter" => [(.dbwRmw 99 true .done, .worker), (.dbwRmw 99 false .done, .worker)]
    | "_dispatch_queue_drain_try_unlock" => [(.dUnlock, .worker)]
    | _ => []
  let xorDirty := op = 9 && o.D && !n.D && dqEq { o with D := false } n false
  xorDirty ||
  ((rp.any fun (pc, op) => rItems.any fun items =>
      (LaneR.step { dq := toR o, items := items } t pc op).any fun r => rEq r.1.dq (toR n) ignoreO) &&
   (fp.any fun (pc, op) => fItems.any fun items =>
      (LaneF.step { dq := toF o, items := items } t pc op).any fun r => fEq r.1.dq (toF n) ignoreO))

structure Stats where
  serialOk : Nat := 0
  total : Nat := 0
  ok : Nat := 0
  skippedSusp : Nat := 0
  unmodelled : Nat := 0
  suspOk : Nat := 0
  finishOk : Nat := 0
  gapWakeup : Nat := 0     -- wakeup that sets ENQUEUED without DIRTY (override wakeup): not a LaneW transition
  bad : List String := []

def unmodelledFuncs : List String :=
  ["_dispatch_lane_suspend", "_dispatch_lane_resume", "_dispatch_lane_suspend_slow", "_dispatch_lane_resume_slow",
   "_dispatch_queue_invoke_finish", "_dispatch_barrier_trysync_or_async_f_complete"]

def main (args : List String) : IO UInt32 := do
  let mut st : Stats := {}
  let mut widths : List (Nat × Nat) := []
  let mut stateoff := "56"
  let mut sides : List (Nat × Nat) := []
  for path in args do
    let lines := (← IO.FS.readFile path).splitOn "\n"
    widths := []
    sides := []
    for line in lines do
      match line.splitOn " " with
      | ["Q", q, "width", w, "stateoff", so] => widths := (q.toNat!, w.toNat!) :: widths; stateoff := so
      | ["E", _, tid, q, off, op, old, new, func, _] =>
        if off ≠ stateoff then continue
        let opn := op.toNat!
        if opn = 4 then continue            -- failed compare-exchange: no transition
        st := { st with total := st.total + 1 }
        if unmodelledFuncs.contains func then
          if func == "_dispatch_queue_invoke_finish" then
            -- the word-level model of the rmw loop body, for the owned amount the fields lost
            if opn = 3 then
              if FinishW.explained (hexVal old) (hexVal new) then st := { st with finishOk := st.finishOk + 1 }
              else st := { st with bad := (s!"{path}: {line} (not FinishW.invokeFinishW of the old word for any owned amount)") :: st.bad }
            else st := { st with unmodelled := st.unmodelled + 1 }
          else
            let qn := q.toNat!
            let side := (sides.lookup qn).getD 0
            let touchesAct := bit (hexVal old) 55 || bit (hexVal old) 56 || bit (hexVal new) 55 || bit (hexVal new) 56
            if touchesAct && ((hexVal old) >>> 55) % 4 != ((hexVal new) >>> 55) % 4 then
              if actExplained func (hexVal old) (hexVal new) then st := { st with suspOk := st.suspOk + 1 }
              else st := { st with bad := (s!"{path}: {line} (activation transition)") :: st.bad }
            else if suspExplained func (hexVal old) (hexVal new) side then
              st := { st with suspOk := st.suspOk + 1 }
              if func == "_dispatch_lane_suspend_slow" then sides := (qn, side + 32) :: sides.filter (·.1 ≠ qn)
              if func == "_dispatch_lane_resume_slow" then sides := (qn, side - 32) :: sides.filter (·.1 ≠ qn)
            else st := { st with bad := (s!"{path}: {line} (tracked side count {side})") :: st.bad }
          continue
        let W := (widths.lookup q.toNat!).getD 1
        match decodeDq (hexVal old) W, decodeDq (hexVal new) W with
        | some o, some n =>
          -- xor DIRTY inside the unlock / complete loops: D cleared, nothing else
          let xorDirty := opn = 9 && func != "_dispatch_lane_drain" && o.D && !n.D && dqEq { o with D := false } n false
          let enq := !o.E && o.O.isNone
          let tt := tid.toNat! % 1073741824
          if (xorDirty || explained func opn W tt o n) && (W != 1 || explainedSerial func opn tt o n) then
            st := { st with ok := st.ok + 1, serialOk := st.serialOk + (if W == 1 then 1 else 0) }
          else if func == "_dispatch_queue_wakeup" && !o.D && dqEq { o with E := o.E || enq } n false then
            st := { st with gapWakeup := st.gapWakeup + 1 }
          else st := { st with bad := (s!"{path}: {line}") :: st.bad }
        | _, _ => st := { st with skippedSusp := st.skippedSusp + 1 }
      | _ => pure ()
  IO.println s!"transitions {st.total}  explained-by-LaneW.step {st.ok}  (serial, also by LaneR.step and LaneF.step: {st.serialOk})  suspended/inactive {st.skippedSusp}  suspend/resume explained-by-SuspendP.step {st.suspOk}  invoke_finish explained-by-FinishW {st.finishOk}  other {st.unmodelled}  override-wakeup (model gap) {st.gapWakeup}  UNEXPLAINED {st.bad.length}"
  for b in st.bad.reverse.take 12 do IO.println b
  return if st.bad.isEmpty then 0 else 1

end LaneChk
