import DispatchVerif.Core.IoCh
/-! `dvdriver iobar <trace>…`: the recorded history of one dispatch I/O channel (harness/tr_iobar.c: submissions, operations
    entering / leaving the barrier group, suspensions / resumptions of the barrier queue, barrier blocks running) must be a
    path of `IoCh.exec`; in particular a barrier block may run only in a state that satisfies the hypothesis of
    `IoCh.barrier_between`. -/
namespace IoChChk
open IoCh

def evOf (kind : Nat) (id : Nat) : Option Ev :=
  match kind with
  | 0 => some (.sub (.op id)) | 1 => some (.sub (.bar id)) | 2 => some .enter | 3 => some .leave
  | 4 => some .suspend | 5 => some (.ran id) | 6 => some .resume | _ => none

def name (kind : Nat) : String :=
  match kind with
  | 0 => "submit operation" | 1 => "submit barrier" | 2 => "operation enters the barrier group" | 3 => "operation leaves the barrier group"
  | 4 => "barrier queue suspended" | 5 => "barrier block runs" | 6 => "barrier queue resumed" | _ => "?"

def main (paths : List String) : IO UInt32 := do
  let mut total := 0; let mut bad : List String := []; let mut fires := 0
  for path in paths do
    let mut st : St := {}
    let mut dead := false
    for line in (← IO.FS.readFile path).splitOn "\n" do
      match line.splitOn " " with
      | ["S", _] => st := {}; dead := false
      | ["E", kind, id] =>
        if dead then continue
        total := total + 1
        match evOf kind.toNat! id.toNat! with
        | some e =>
          match exec st e with
          | some st' => st := st'; if kind == "5" then fires := fires + 1
          | none =>
            dead := true
            bad := s!"{path}: event {total} ({name kind.toNat!} {id}) is not a move of IoCh in this state: queue head {repr (st.bq.head?.map fun a => match a with | .op i => s!"op {i}" | .bar j => s!"barrier {j}")}, suspended {st.susp}, operations in the group {st.inflight.length}, barrier waiting {st.notif}" :: bad
        | none => pure ()
      | _ => pure ()
  IO.println s!"channel events {total}  explained-by-IoCh.exec {total - bad.length}  barrier blocks run in a state meeting barrier_between {fires}  UNEXPLAINED {bad.length}"
  for b in bad.reverse.take 6 do IO.println s!"{b.take 400}"
  return if bad.isEmpty then 0 else 1

end IoChChk
