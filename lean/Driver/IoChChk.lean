import DispatchVerif.Core.IoCh
/-! `dvdriver iobar <trace>…`: the recorded history of one dispatch I/O channel (harness/tr_iobar.c: submissions, operations
    entering / leaving the barrier group, suspensions / resumptions of the barrier queue, barrier blocks running) must be a
    path of `IoCh.exec`; in particular a barrier block may run only in a state that satisfies the hypothesis of
    `IoCh.barrier_between`. -/
namespace IoChChk
open IoCh

def evOf (kind : Nat) (id : Nat) : Option Ev :=
  match kind with
  | 0 => some (.sub (.op id)) | 1 => some (.sub (.bar id)) | 2 => some .enter | 3 => some .leave
  | 4 => some .suspend | 5 => some (.ran id) | 6 => some .resume | _ => none

def name (kind : Nat) : String :=
  match kind with
  | 0 => "submit operation" | 1 => "submit barrier" | 2 => "operation enters the barrier group" | 3 => "operation leaves the barrier group"
  | 4 => "barrier queue suspended" | 5 => "barrier block runs" | 6 => "barrier queue resumed" | _ => "?"

/-- The harness numbers a record after the operation it describes, so a record can be logged later than its operation took effect
    (never earlier). A record the replay refuses is retried after the next record of another thread, if that one is among the
    following few and nothing of its own thread lies between: a history is refused only if no such reordering is accepted either. -/
partial def replay (st : St) (evs : Array (Nat × Nat × Nat)) (i : Nat) (late fires : Nat) : Except (Nat × St) (Nat × Nat) :=
  if h : i < evs.size then
    let (k, id, tid) := evs[i]
    match evOf k id with
    | none => replay st evs (i + 1) late fires
    | some e =>
      match exec st e with
      | some st' => replay st' evs (i + 1) late (if k == 5 then fires + 1 else fires)
      | none =>
        let cand := (List.range 8).findSome? fun d =>
          let j := i + 1 + d
          if hj : j < evs.size then
            let (kj, idj, tj) := evs[j]
            if tj == tid then none
            else if ((List.range d).any fun d' => (evs[i + 1 + d']!).2.2 == tj) then none
            else match evOf kj idj with
              | none => none
              | some ej => match exec st ej with
                | none => none
                | some s1 => match exec s1 e with
                  | none => none
                  | some s2 => some (j, s2, (if kj == 5 then 1 else 0) + (if k == 5 then 1 else 0))
          else none
        match cand with
        | some (j, s2, f) => replay s2 (evs.eraseIdx! j) (i + 1) (late + 1) (fires + f)
        | none => .error (i, st)
  else .ok (late, fires)

def main (paths : List String) : IO UInt32 := do
  let mut total := 0; let mut bad : List String := []; let mut fires := 0; let mut lates := 0
  for path in paths do
    let mut secs : List (Array (Nat × Nat × Nat)) := []
    let mut buf : Array (Nat × Nat × Nat) := #[]
    for line in (← IO.FS.readFile path).splitOn "\n" do
      match line.splitOn " " with
      | ["S", _] => if buf.size > 0 then secs := buf :: secs; buf := #[]
      | ["E", kind, id] => buf := buf.push (kind.toNat!, id.toNat!, 0)
      | ["E", kind, id, tid] => buf := buf.push (kind.toNat!, id.toNat!, tid.toNat!)
      | _ => pure ()
    if buf.size > 0 then secs := buf :: secs
    for evs in secs.reverse do
      total := total + evs.size
      match replay {} evs 0 0 0 with
      | .ok (l, f) => lates := lates + l; fires := fires + f
      | .error (i, st) =>
        let (k, id, _) := evs[i]!
        bad := s!"{path}: event {i} ({name k} {id}) is not a move of IoCh in this state: queue head {repr (st.bq.head?.map fun a => match a with | .op i => s!"op {i}" | .bar j => s!"barrier {j}")}, suspended {st.susp}, operations in the group {st.inflight.length}, barrier waiting {st.notif}" :: bad
  IO.println s!"channel events {total}  explained-by-IoCh.exec {total - bad.length}  barrier blocks run in a state meeting barrier_between {fires}  late records {lates}  UNEXPLAINED {bad.length}"
  for b in bad.reverse.take 6 do IO.println s!"{b.take 400}"
  return if bad.isEmpty then 0 else 1

end IoChChk
