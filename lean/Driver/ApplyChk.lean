import DispatchVerif.Core.ApplyP
/-! `dvdriver apply <trace>…`: the atomic transitions of `_dispatch_apply_invoke2` (harness/tr_apply.c) against
    `ApplyP.step`: a fetch-and-increment of `da_index` is the step from `idle` / `ended`, a subtraction from `da_todo`
    is the step from `sub done`; the 32-bit decrement of `da_thr_cnt` is bookkeeping outside the model. -/
namespace ApplyChk
open ApplyP

def main (paths : List String) : IO UInt32 := do
  let mut total := 0; let mut ok := 0; let mut other := 0; let mut bad : List String := []
  for path in paths do
    for line in (← IO.FS.readFile path).splitOn "\n" do
      match line.splitOn " " with
      | ["E", _, tid, _, size, op, old, new] =>
        let opn := op.toNat!; let o := old.toNat!; let n := new.toNat!; let t := tid.toNat!
        if size = "4" then other := other + 1; continue
        total := total + 1
        let good :=
          if opn = 5 then      -- fetch-add on da_index
            (step 1000000 0 { index := o, todo := 0 } t .idle).any (fun r => r.1.index == n) &&
            (step 1000000 0 { index := o, todo := 0 } t (.ended 1)).any (fun r => r.1.index == n)
          else if opn = 6 then -- sub on da_todo
            o ≥ n && (step 1000000 0 { todo := o } t (.sub (o - n))).any (fun r => r.1.todo == n)
          else false
        if good then ok := ok + 1 else bad := s!"{path}: {line}" :: bad
      | _ => pure ()
  IO.println s!"apply transitions {total}  explained-by-ApplyP.step {ok}  thr_cnt decrements (not modelled) {other}  UNEXPLAINED {bad.length}"
  for b in bad.reverse.take 8 do IO.println b
  return if bad.isEmpty then 0 else 1

end ApplyChk
