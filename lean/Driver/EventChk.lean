import DispatchVerif.Core.EventP
import Driver.Util
/-! `dvdriver event <trace>…`: the transitions of thread event words (harness/c05_hb.c) against `EventP`'s step functions.
    `V tid addr func op old new` (op 5 add, 6 sub, 0 load), `R tid` = the thread that was inside a wait is seen outside it.
    Per waiting thread (program order within a thread is reliable): the decrement, then each load of the slow path, must be
    the model's `decW` / `loadW` from the state decoded from the old value, and the thread may leave the wait only from `done`. -/
namespace EventChk
open EventP

def sgn (n : Nat) : Int := if n ≥ 2147483648 then (n : Int) - 4294967296 else n
def enc (i : Int) : Nat := (i % 4294967296).toNat

def main (paths : List String) : IO UInt32 := do
  let mut total := 0; let mut ok := 0; let mut bad : List String := []
  let mut waits := 0; let mut slow := 0; let mut futexRounds := 0
  for path in paths do
    let mut pcs : List (Nat × PcW) := []
    for line in (← IO.FS.readFile path).splitOn "\n" do
      match line.splitOn " " with
      | ["V", tid, _, func, op, old, new] =>
        let tid := tid.toNat!; let o := sgn (Drv.hexNat old); let n := Drv.hexNat new
        total := total + 1
        if func == "_dispatch_thread_event_signal" then
          let st' := incS { value := o, s := .ready }
          if op == "5" && enc st'.value == n then ok := ok + 1
          else bad := s!"{path}: signal is not EventP.incS: {line}" :: bad
        else if func == "_dispatch_thread_event_wait" then
          waits := waits + 1
          let st' := decW { value := o }
          if op == "6" && enc st'.value == n && (pcs.lookup tid).isNone then
            ok := ok + 1; pcs := (tid, st'.w) :: pcs
            if st'.w == .slow then slow := slow + 1
          else bad := s!"{path}: wait is not EventP.decW (or the thread is already waiting): {line}" :: bad
        else if func == "_dispatch_thread_event_wait_slow" then
          match pcs.lookup tid with
          | some pc =>
            -- a load while the model is in `futex` means the futex wait returned (`futexRetW`)
            let pc' := if pc == .futex then (futexRetW { w := .futex }).w else pc
            if pc == .futex && o == -1 then futexRounds := futexRounds + 1
            let st' := loadW { value := o, w := pc' }
            if op == "0" && pc' == .slow && st'.w != .crash then
              ok := ok + 1; pcs := (tid, st'.w) :: pcs.filter (·.1 ≠ tid)
            else bad := s!"{path}: slow-path load is not EventP.loadW from pc {repr pc}: {line}" :: bad
          | none => bad := s!"{path}: slow-path load by a thread that is not waiting: {line}" :: bad
        else bad := s!"{path}: unknown thread-event function: {line}" :: bad
      | ["R", tid] =>
        let tid := tid.toNat!
        match pcs.lookup tid with
        | some .done => pcs := pcs.filter (·.1 ≠ tid)
        | some pc =>
          bad := s!"{path}: thread {tid} left _dispatch_thread_event_wait in model state {repr pc}: it returned without having read the value 0 (EventP allows a return only from `done`)" :: bad
          pcs := pcs.filter (·.1 ≠ tid)
        | none => pure ()
      | _ => pure ()
  IO.println s!"thread-event transitions {total}  explained-by-EventP {ok}  UNEXPLAINED {bad.length}  (waits {waits}, slow path {slow}, futex waits that returned with the value still -1: {futexRounds})"
  for b in bad.reverse.take 8 do IO.println b
  return if bad.isEmpty then 0 else 1

end EventChk
