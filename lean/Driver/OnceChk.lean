import DispatchVerif.Core.OnceP
/-! `dvdriver once <trace>…`: every recorded transition of a dispatch_once predicate (harness/tr_once.c) must be the
    effect on the gate of `OnceP.step` at the pc its C function maps to. Word: 0 = not started, ~0 = done, otherwise
    the owner's lock value in the low 30 bits and the waiters bit (0x80000000). -/
namespace OnceChk
open OnceP

def hexVal (s : String) : Nat := s.toList.foldl (fun acc c =>
  acc * 16 + (if '0' ≤ c ∧ c ≤ '9' then c.toNat - 48 else if 'a' ≤ c ∧ c ≤ 'f' then c.toNat - 87 else 0)) 0

def decode (x : Nat) : Gate :=
  if x = 0 then .zero else if x = 18446744073709551615 then .done
  else .owned (x % 1073741824) ((x / 2147483648) % 2 = 1)

def explained (func : String) (op : Nat) (t : Tid) (o n : Gate) : Bool :=
  let pcs : List Pc := match func, op with
    | "_dispatch_once_gate_tryenter", 3 => [.enter]
    | "_dispatch_once_mark_done", 2 => [.initDone]
    | "_dispatch_once_wait", 3 => [.waitLoop]
    | _, _ => []
  pcs.any fun pc => (step { gate := o } t pc).any fun r => r.1.gate == n

def main (paths : List String) : IO UInt32 := do
  let mut total := 0; let mut ok := 0; let mut bad : List String := []
  for path in paths do
    for line in (← IO.FS.readFile path).splitOn "\n" do
      match line.splitOn " " with
      | ["E", _, tid, _, op, old, new, func] =>
        let opn := op.toNat!
        if opn = 4 ∨ opn = 0 then continue
        if opn = 9 then
          -- a futex wait: the model's sleeper waits on the word it has just published - an owner's lock value with the waiters bit
          -- (OnceP.L.slpExp); sleeping on any other value (the completed gate's 0xffffffff, 0) can miss the one wake-up
          total := total + 1
          let e := hexVal old
          let owned : Bool := match decode e with | .owned _ true => true | _ => false
          if e != 0 && e != 4294967295 && owned then ok := ok + 1
          else bad := s!"{path}: a waiter went to sleep on a gate value that is not an owner's word with the waiters bit (OnceP.sleep): {line}" :: bad
          continue
        total := total + 1
        if explained func opn (tid.toNat! % 1073741824) (decode (hexVal old)) (decode (hexVal new)) then ok := ok + 1
        else bad := s!"{path}: {line}" :: bad
      | _ => pure ()
  IO.println s!"predicate transitions {total}  explained-by-OnceP.step {ok}  UNEXPLAINED {bad.length}"
  for b in bad.reverse.take 8 do IO.println b
  return if bad.isEmpty then 0 else 1

end OnceChk
