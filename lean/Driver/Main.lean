import Driver.Util
import DispatchVerif.Core.Time
/-! `dvdriver`: line-protocol driver over the Lean models — the same definitions the theorems are about.
    One operation per line in, one canonical result per line out; the C harnesses answer the same lines with
    the real library and the check diffs the two streams. -/
open Drv

def handle (line : String) : String :=
  match line.trimAscii.toString.splitOn " " with
  | ["T", inval, delta, nu, nm, nw] =>
    match inval.toNat?, delta.toInt?, nu.toNat?, nm.toNat?, nw.toNat? with
    | some i, some d, some a, some b, some c => toString (TimeP.dispatchTime' i d a b c)
    | _, _, _, _, _ => "bad-op"
  | ["WT", sec, nsec, delta] =>
    match sec.toInt?, nsec.toInt?, delta.toInt? with
    | some s, some n, some d => toString (TimeP.walltimeTs s n d)
    | _, _, _ => "bad-op"
  | ["WN", nw, delta] =>
    match nw.toNat?, delta.toInt? with
    | some n, some d => toString (TimeP.walltimeNow n d)
    | _, _ => "bad-op"
  | ["TO", w, nu, nm, nw] =>
    match w.toNat?, nu.toNat?, nm.toNat?, nw.toNat? with
    | some w, some a, some b, some c => toString (TimeP.timeout w a b c)
    | _, _, _, _ => "bad-op"
  | _ => "bad-op"

partial def loop (h : IO.FS.Stream) (out : IO.FS.Stream) : IO Unit := do
  let line ← h.getLine
  if line.isEmpty then return ()
  out.putStrLn (handle line)
  loop h out

def main : IO Unit := do loop (← IO.getStdin) (← IO.getStdout)
