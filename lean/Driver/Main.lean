import Driver.Util
import DispatchVerif.Core.Time
import DispatchVerif.Core.TimeE
import DispatchVerif.Core.Base64P
import DispatchVerif.Core.Base32P
import DispatchVerif.Core.Base32HexP
import DispatchVerif.Core.Utf8F
import DispatchVerif.Core.Utf16P
import DispatchVerif.Core.Utf16F
import DispatchVerif.Core.QueueP
import DispatchVerif.Core.DataP
import DispatchVerif.Core.TimerP
import DispatchVerif.Core.TimerD
import DispatchVerif.Core.DqW
import DispatchVerif.Core.IoP4
import DispatchVerif.Core.IoW
import Driver.HeapChk
import Driver.LaneChk
import Driver.RootChk
import Driver.GroupChk
import Driver.SemaChk
import Driver.OnceChk
import Driver.IoChChk
import Driver.IoHoldChk
import Driver.StreamChk
import Driver.DataRcChk
import Driver.ApplyChk
import Driver.SourceChk
import Driver.SrcChk
import Driver.BlockChk
import Driver.EventChk
import Driver.RefChk
import DispatchVerif.Core.BlockCnt
import DispatchVerif.Core.TimerCfg
/-! `dvdriver`: line-protocol driver over the Lean models — the same definitions the theorems are about.
    One operation per line in, one canonical result per line out; the C harnesses answer the same lines with
    the real library and the check diffs the two streams. -/
open Drv

/-! ### data transforms: `X2 <in> <out> <hex>|<hex>|…` (one region per part) -/

inductive TR where
  | bytes (rs : List (List Nat))    -- a data object, by regions
  | null
  | oob                             -- the model reads outside the object (undefined behaviour in C)

/-- the `decode` hook of the input format -/
def stage1 (fmt : String) (rs : List (List Nat)) : TR :=
  let one (o : Option (List Nat)) : TR := match o with
    | none => .null
    | some bs => .bytes (if bs.isEmpty then [] else [bs])
  if fmt = "none" ∨ fmt = "utf8" then .bytes rs
  else if fmt = "b64" then one ((B64.decRegions rs {}).map (·.out))
  else if fmt = "b32" then one ((B32.decRegions rs {}).map (·.out))
  else if fmt = "b32hex" then one ((B32H.decRegions rs {}).map (·.out))
  else if fmt = "utf16le" ∨ fmt = "utf16be" then
    -- the code-shaped model and the position-shaped one (the fragmentation theorem is about the latter) must agree
    let a := Utf16P.fromUtf16 (fmt = "utf16be") rs
    let b := Utf16F.fromUtf16F (fmt = "utf16be") rs.flatten (rs.map List.length)
    let same := match a, b with
      | .ok u _ _, .ok v _ => u == v
      | .fail _, .fail => true
      | _, _ => false
    if !same then .bytes [[77, 79, 68, 69, 76, 83]] else
    match a with
    | .ok out _ _ => .bytes (if out.isEmpty then [] else [out])
    | .fail _ => .null
    | .oob _ => .oob
  else .null

/-- the `encode` hook of the output format -/
def stage2 (fmt : String) (rs : List (List Nat)) : TR :=
  let flat := rs.flatten
  if fmt = "none" then .bytes [flat]
  else if fmt = "b64" then .bytes [B64.encode flat]
  else if fmt = "b32" then .bytes [B32.encode flat]
  else if fmt = "b32hex" then .bytes [B32H.encode flat]
  else if fmt = "utf8" then .bytes [Utf16P.withoutBom flat]
  else if fmt = "utf16le" ∨ fmt = "utf16be" then
    if rs.isEmpty then .bytes [] else
    -- two models of the same loop must agree: the code-shaped one and the position-shaped one the
    -- fragmentation theorem is about
    let a := Utf8P.toUtf16 rs
    let b := Utf8P.toUtf16F flat (rs.map List.length)
    let same := match a, b with
      | .ok u _, .ok v _ => u == v
      | .fail, .fail => true
      | .oob, .oob => true
      | _, _ => false
    if !same then .bytes [[77, 79, 68, 69, 76, 83]] else   -- "MODELS" : never equal to a real result of even length? flagged by the diff
    match a with
    | .ok us _ => .bytes [us.flatMap fun u => if fmt = "utf16be" then [u / 256, u % 256] else [u % 256, u / 256]]
    | .fail => .null
    | .oob => .oob
  else .null

/-- `IOW chunk low high regions | rets`: a stream write of a data object with the given region sizes against the write()
    results the real library saw. Output: requested length, result and first byte of every write(), then the handler calls
    (done, size of the remainder or -1 for NULL, error) — both must equal what the real library did. -/
def runIoW (chunk : Nat) (low high : Option Nat) (regs : List Nat) (rets : List Int) : String := Id.run do
  let mut lo := chunk
  let mut hi : Nat := 18446744073709551615
  if let some h := high then
    if lo > h then lo := h
    hi := if h = 0 then 1 else h
  if let some l := low then
    if hi < l then hi := if l = 0 then 1 else l
    lo := l
  -- regions with the payload byte (position % 251)
  let mut pos := 0
  let mut data : List (List IoW.Byte) := []
  for m in regs do
    if m > 0 then
      data := data ++ [(List.range m).map fun i => UInt8.ofNat ((pos + i) % 251)]
      pos := pos + m
  let mut op : IoW.Op := { length := pos, low := lo, high := hi, chunk := chunk, data := data }
  let mut writes : List String := []
  let mut calls : List IoW.Call := []
  let mut fin := false
  for r in rets do
    if fin then writes := writes ++ [s!"EXTRA:{r}"]
    else
      let len := IoW.writeLen op
      let b0 := ((IoW.writeBuf op).head?.map (·.toNat)).getD 0
      writes := writes ++ [s!"{len}:{r}:{b0}"]
      let o : IoW.Outcome := if r > 0 then .wrote r.toNat else if r = 0 then .zero else if r = -11 then .eagain else .error (-r).toNat
      let (op', c, f) := IoW.handle op o
      op := op'; calls := calls ++ c; fin := f
  let cs := calls.map fun c => s!"{if c.done then 1 else 0}:{match c.rem with | none => "-1" | some d => toString d.length}:{c.err}"
  return s!"writes={",".intercalate writes} calls={"|".intercalate cs}" ++ (if fin then "" else " UNFINISHED")

def isBase (f : String) : Bool := f = "none" || f = "b64" || f = "b32" || f = "b32hex"
def isUtf (f : String) : Bool := f = "utf8" || f = "utf16le" || f = "utf16be"

def transform (fi fo spec : String) : String :=
  let rs := ((spec.splitOn "|").map parseHexBytes).filter (fun r => !r.isEmpty)
  if !((isBase fi && isBase fo) || (isUtf fi && isUtf fo)) then "NULL"
  else if rs.isEmpty then "-"
  else match stage1 fi rs with
    | .null => "NULL"
    | .oob => "OOB"
    | .bytes t1 =>
      match stage2 fo t1 with
      | .null => "NULL"
      | .oob => "OOB"
      | .bytes t2 => toHex t2.flatten

/-! ### dispatch_data programs: a stack machine (`X L3 L5 C S2,4 R1 …`) -/
def leafBytes (j k : Nat) : List UInt8 := (List.range k).map fun i => UInt8.ofNat ((j * 31 + i * 7 + 1) % 256)

def runData (toks : List String) : String := Id.run do
  let mut st : List DataP.Data := []
  let mut nleaf := 1
  let mut out := ""
  for tk in toks do
    if tk.startsWith "L" then
      let k := (tk.drop 1).toNat!
      if st.length < 64 then
        st := (if k = 0 then DataP.empty else DataP.Data.leaf ⟨nleaf, leafBytes nleaf k⟩) :: st
      nleaf := nleaf + 1
    else if tk = "C" then
      match st with
      | b :: a :: r => st := DataP.concat a b :: r
      | _ => pure ()
    else if tk = "D" then
      match st with
      | a :: r => if st.length < 64 then st := a :: a :: r
      | _ => pure ()
    else if tk.startsWith "S" then
      match (tk.drop 1).toString.splitOn ",", st with
      | [o, l], a :: r =>
        match DataP.subrange a o.toNat! l.toNat! with
        | some d => st := d :: r
        | none => out := out ++ "CRASH "
      | _, _ => pure ()
    else if tk.startsWith "R" then
      match st with
      | a :: _ =>
        match DataP.copyRegion a (tk.drop 1).toNat! with
        | some (reg, off) => out := out ++ s!"R{off}:{reg.size} "
        | none => out := out ++ "CRASH "
      | _ => pure ()
  match st with
  | a :: _ =>
    let regs := DataP.regions a
    out := out ++ s!"size={a.size} regions=" ++ String.intercalate "," (regs.map fun r => s!"{r.1}:{r.2.length}")
      ++ " bytes=" ++ toHex (a.den.map (·.toNat))
  | [] => out := out ++ "empty-stack"
  return out

/-! ### one dispatch_io_read on a stream: `IO <length> <low> <high> <ret> <ret> …` where the `ret`s are what the
    successive read() calls returned on the real run (bytes, 0 = EOF, -11 = EAGAIN, other negative = -errno);
    the payload byte at stream position p is p % 251. Output: requested length and result of every read(), then the
    handler calls — both must equal what the real library did. -/
def runIo (length low high : Option Nat) (rets : List Int) (chunk : Nat := 1048576) : String := Id.run do
  -- channel parameters as set by dispatch_io_set_high_water then dispatch_io_set_low_water
  let mut lo := chunk       -- dispatch_io_defaults.low_water_chunks (1) * chunk_size
  let mut hi : Nat := 18446744073709551615
  if let some h := high then
    if lo > h then lo := h
    hi := if h = 0 then 1 else h
  if let some l := low then
    if hi < l then hi := if l = 0 then 1 else l
    lo := l
  let mut op : IoP.Op := { length := length, low := lo, high := hi, chunk := chunk }
  let mut pos := 0
  let mut reads : List String := []
  let mut calls : List IoP.Call := []
  let mut fin := false
  if length = some 0 then
    -- _dispatch_operation_create short-circuits a zero-length operation: one handler call, no read()
    return "reads= calls=1:0:0:-"
  for r in rets do
    if fin then
      reads := reads ++ [s!"EXTRA:{r}"]
    else
      let len := IoP.readLen op
      reads := reads ++ [s!"{len}:{r}"]
      let o : IoP.Outcome :=
        if r > 0 then .bytes ((List.range r.toNat).map fun i => UInt8.ofNat ((pos + i) % 251))
        else if r = 0 then .eof
        else if r = -11 then .eagain
        else .error (-r).toNat
      if r > 0 then pos := pos + r.toNat
      let (op', c, f) := IoP.handle op o
      op := op'; calls := calls ++ c; fin := f
  if !fin then reads := reads ++ ["UNFINISHED"]
  return "reads=" ++ String.intercalate "," reads ++ " calls=" ++
    String.intercalate "|" (calls.map fun c => s!"{if c.done then 1 else 0}:{c.data.length}:{c.err}:{toHex (c.data.map (·.toNat))}")

def parseParents (s : String) : List (Option Nat) :=
  (s.splitOn ",").map fun t => if t.startsWith "-" then none else t.toNat?

def parseVals (s : String) : Nat → Nat → Nat :=
  let es := (s.splitOn ";").filterMap fun t => match t.splitOn ":" with
    | [a, b, v] => some (a.toNat!, b.toNat!, v.toNat!)
    | _ => none
  fun q k => ((es.find? fun e => e.1 = q ∧ e.2.1 = k).map (·.2.2)).getD 0

def handle (line : String) : String :=
  match line.trimAscii.toString.splitOn " " with
  | ["T", inval, delta, nu, nm, nw] =>
    match inval.toNat?, delta.toInt?, nu.toNat?, nm.toNat?, nw.toNat? with
    | some i, some d, some a, some b, some c => toString (TimeP.dispatchTime' i d a b c)
    | _, _, _, _, _ => "bad-op"
  | ["WT", sec, nsec, delta] =>
    match sec.toInt?, nsec.toInt?, delta.toInt? with
    | some s, some n, some d => toString (TimeP.walltimeTs s n d)
    | _, _, _ => "bad-op"
  | ["WN", nw, delta] =>
    match nw.toNat?, delta.toInt? with
    | some n, some d => toString (TimeP.walltimeNow n d)
    | _, _ => "bad-op"
  | ["TO", w, nu, nm, nw] =>
    match w.toNat?, nu.toNat?, nm.toNat?, nw.toNat? with
    | some w, some a, some b, some c => toString (TimeP.timeout w a b c)
    | _, _, _, _ => "bad-op"
  | ["TOS", w, nu, nm, nw, _] =>     -- the clocks move on between readings: the time-out is taken from one reading, the first
    match w.toNat?, nu.toNat?, nm.toNat?, nw.toNat? with
    | some w, some a, some b, some c => toString (TimeP.timeout w a b c)
    | _, _, _, _ => "bad-op"
  | ["TE", w, nu, nm, nw] =>
    match w.toNat?, nu.toNat?, nm.toNat?, nw.toNat? with
    | some w, some a, some b, some c => toString (TimeP.sinceEpoch w a b c)
    | _, _, _, _ => "bad-op"
  | ["TC", st, iv, lw, fc, nu, nm, nw] =>      -- _dispatch_timer_config_create
    match st.toNat?, iv.toNat?, lw.toNat?, nu.toNat?, nm.toNat?, nw.toNat? with
    | some st, some iv, some lw, some nu, some nm, some nw =>
      TimerCfg.answer st iv lw (if fc = "0" then .up else if fc = "1" then .mono else .wall) nu nm nw
    | _, _, _, _, _, _ => "bad-op"
  | ["BPW", pre, set, post] =>      -- a block object executed `pre` times, the counter word optionally set, `post` more executions
    match pre.toNat?, post.toNat? with
    | some a, some c => BlockCnt.answer a (if set = "-" then none else set.toNat?) c
    | _, _ => "bad-op"
  | ["X2", fi, fo, spec] => transform fi fo spec
  | "X" :: toks => runData toks
  | "IO" :: len :: low :: high :: rets => runIo (optNat len) (optNat low) (optNat high) (rets.map (·.toInt!))
  | "IOW" :: chunk :: low :: high :: regs :: rets =>
    runIoW chunk.toNat! (optNat low) (optNat high) ((regs.splitOn ",").map String.toNat!) (rets.map (·.toInt!))
  | "IOC" :: chunk :: len :: low :: high :: rets => runIo (optNat len) (optNat low) (optNat high) (rets.map (·.toInt!)) chunk.toNat!
  | ["CM", t, d, i, n, p] =>
    let o := TimerP.computeMissed t.toNat! d.toNat! i.toNat! n.toNat! p.toNat!
    s!"{o.data} {o.target} {o.deadline}"
  | ["DQ", op, st, w, a, a2] =>
    let st := st.toNat!; let w := w.toNat!; let a := a.toNat!; let a2 := a2.toNat!
    let b2n (b : Bool) : Nat := if b then 1 else 0
    match op with
    | "1" => let r := DqW.drainTryLock st w 1; s!"{r.1} {r.2}"
    | "2" => let r := DqW.tryAcquireBarrierSync st w a; s!"{b2n r.1} {r.2}"
    | "4" => s!"0 {DqW.reserveSyncWidth st}"
    | "5" => let r := DqW.tryReserveSyncWidth st (a != 0); s!"{b2n r.1} {r.2}"
    | "6" => let r := DqW.tryAcquireAsync st; s!"{b2n r.1} {r.2}"
    | "8" => let r := DqW.drainTryUnlock st a (a2 != 0); s!"{b2n r.1} {r.2}"
    | _ => "bad-op"
  | ["TD", t, d, i, n, p] =>
    let o := TimerP.timerData t.toNat! d.toNat! i.toNat! n.toNat! p.toNat!
    s!"{o.data} {o.target} {o.deadline}"
  | ["AQ", idx, q, r] => toString (AttrP.withQos idx.toNat! q.toNat! r.toNat!)
  | ["AI", idx] => toString (AttrP.withInactive idx.toNat!)
  | ["AO", idx, b] => toString (AttrP.withOvercommit idx.toNat! (b = "1"))
  | ["AF", idx, f] => toString (AttrP.withAutorelease idx.toNat! f.toNat!)
  | ["QC", idx] =>
    let r := QueueP.created idx.toNat!
    s!"{r.qosClass} {r.relpri} {if r.concurrent then 1 else 0} {if r.inactive then 1 else 0}"
  | ["GQ", id, fl] =>
    match id.toInt?, fl.toNat? with
    | some i, some f =>
      if f ≠ 0 ∧ f ≠ 2 then "NULL" else (QueueP.globalQueue i (f = 2)).getD "NULL"
    | _, _ => "bad-op"
  | "SQ" :: parents :: _conc :: vals :: q :: k :: path :: _ =>
    -- path 8: the item is submitted (dispatch_apply, one iteration) to a global queue: its chain is that root queue alone
    if path = "8" then "0" else
    toString (QueueP.getSpecific (parseParents parents) (parseVals vals) q.toNat! k.toNat!)
  | "SA" :: parents :: _conc :: q :: a :: neg :: path :: rest =>
    let ctx : Option Nat := match rest with | [c] => c.toNat? | _ => none
    -- only the synchronous paths (1 sync, 2 barrier_sync, 3 async_and_wait) carry the submitter's frames
    let ctx' := if path = "1" ∨ path = "2" ∨ path = "3" then ctx else none
    let acc := QueueP.assertAccepts (parseParents parents) q.toNat! ctx' a.toNat!
    if (neg = "1") = acc then "crash" else "ok"
  | _ => "bad-op"

partial def loop (h : IO.FS.Stream) (out : IO.FS.Stream) : IO Unit := do
  let line ← h.getLine
  if line.isEmpty then return ()
  out.putStrLn (handle line)
  loop h out

def main (args : List String) : IO UInt32 := do
  match args with
  | ["heap", path] => HeapChk.main path
  | "lane" :: paths => LaneChk.main paths
  | "root" :: paths => RootChk.main paths
  | "group" :: paths => GroupChk.main paths
  | "sema" :: paths => SemaChk.main paths
  | "once" :: paths => OnceChk.main paths
  | "iobar" :: paths => IoChChk.main paths
  | "iohold" :: paths => IoHoldChk.main paths
  | "streamsrc" :: paths => StreamChk.main paths
  | "datarc" :: paths => DataRcChk.main paths
  | "apply" :: paths => ApplyChk.main paths
  | "source" :: paths => SourceChk.main paths
  | "srcview" :: paths => SrcChk.main paths
  | "block" :: paths => BlockChk.main paths
  | "event" :: paths => EventChk.main paths
  | "ref" :: paths => RefChk.main paths
  | _ => loop (← IO.getStdin) (← IO.getStdout); return 0
