import DispatchVerif.Core.HeapOps
/-! `dvdriver heap <transcript>`: replay a transcript of the real timer heap (operation with the victim's physical
    heap entries, then the key in every physical slot) through `HeapP.insert / remove / update` — the functions
    the C11 heap theorems are about — applied to the two logical heaps (physical index = 2·k + heap_id), and
    compare every slot after every operation. -/
namespace HeapChk
open HeapP

structure H2 where
  n : Nat := 0                 -- timers (= logical size of each heap)
  a0 : Array Nat := #[]        -- keys of heap 0 (targets), logical order
  a1 : Array Nat := #[]        -- keys of heap 1 (deadlines)

def toFn (a : Array Nat) : Arr := fun j => a.getD j 0
def ofFn (f : Arr) (n : Nat) : Array Nat := (Array.range n).map f

/-- `dth_needs_program` after the operation according to the model (either logical heap stored into its root slot) -/
def insW (h : H2) (t d : Nat) : Bool := insertW (toFn h.a0) h.n t || insertW (toFn h.a1) h.n d
def remW (h : H2) (k0 k1 : Nat) : Bool := removeW (toFn h.a0) h.n k0 || removeW (toFn h.a1) h.n k1
def updW (h : H2) (k0 k1 t d : Nat) : Bool := updateW (toFn h.a0) k0 t || updateW (toFn h.a1) k1 d

def ins (h : H2) (t d : Nat) : H2 :=
  { n := h.n + 1, a0 := ofFn (insert (toFn h.a0) h.n t) (h.n + 1), a1 := ofFn (insert (toFn h.a1) h.n d) (h.n + 1) }

def rem (h : H2) (k0 k1 : Nat) : H2 :=
  { n := h.n - 1, a0 := ofFn (remove (toFn h.a0) h.n k0) (h.n - 1), a1 := ofFn (remove (toFn h.a1) h.n k1) (h.n - 1) }

def upd (h : H2) (k0 k1 t d : Nat) : H2 :=
  { h with a0 := ofFn (update (toFn h.a0) h.n k0 t) h.n, a1 := ofFn (update (toFn h.a1) h.n k1 d) h.n }

def physical (h : H2) : List Nat := (List.range h.n).flatMap fun k => [h.a0.getD k 0, h.a1.getD k 0]

def isHeap (a : Array Nat) (n : Nat) : Bool := (List.range n).all fun j => j = 0 || a.getD (par j) 0 ≤ a.getD j 0

def main (path : String) : IO UInt32 := do
  let mut h : H2 := {}
  let mut ops := 0
  let mut bad := 0
  let mut maxn := 0
  let mut slots := 0
  let mut flags := 0
  for line in (← IO.FS.readFile path).splitOn "\n" do
    match line.splitOn " | " with
    | [op, res] =>
      let w := op.splitOn " "
      let mut flag := false
      match w with
      | ["INS", t, d] => flag := insW h t.toNat! d.toNat!; h := ins h t.toNat! d.toNat!
      | ["REM", e0, e1] => flag := remW h (e0.toNat! / 2) (e1.toNat! / 2); h := rem h (e0.toNat! / 2) (e1.toNat! / 2)
      | ["UPD", e0, e1, t, d] =>
        flag := updW h (e0.toNat! / 2) (e1.toNat! / 2) t.toNat! d.toNat!
        h := upd h (e0.toNat! / 2) (e1.toNat! / 2) t.toNat! d.toNat!
      | _ => pure ()
      ops := ops + 1
      let all := (res.splitOn " ").map String.toNat!
      let expect := all.drop 1
      if flag then flags := flags + 1
      if (all.headD 0 == 1) != flag then
        bad := bad + 1
        if bad ≤ 5 then IO.println s!"MISMATCH after op {ops} ({op}): dth_needs_program real {all.headD 0} model {flag}" 
      let got := (2 * h.n) :: physical h
      slots := slots + 2 * h.n
      if h.n > maxn then maxn := h.n
      if got != expect then
        bad := bad + 1
        if bad ≤ 5 then IO.println s!"MISMATCH after op {ops} ({op}): real {expect} model {got}"
      -- the real minima (dth_min) are the roots: heap order of the real array, checked directly too
      let r0 := ((List.range h.n).map fun k => expect.getD (1 + 2 * k) 0).toArray
      let r1 := ((List.range h.n).map fun k => expect.getD (2 + 2 * k) 0).toArray
      if !(isHeap r0 h.n && isHeap r1 h.n) then
        bad := bad + 1
        if bad ≤ 5 then IO.println s!"NOT-A-HEAP after op {ops} ({op}): real {expect}"
    | _ => pure ()
  IO.println s!"ops {ops} slots {slots} maxlive {maxn} reprogram-requests {flags} mismatches {bad}"
  return if bad = 0 then 0 else 1

end HeapChk
