import DispatchVerif.Core.IoHold
/-! `dvdriver iohold <trace>…`: the recorded history of the close queue of a descriptor entry (harness/tr_iohold.c: successful
    suspensions / resumptions of the queue, beginning and end of the handler calls of operations scheduled before their channel
    was closed, cleanup handlers) must be accepted by `IoHold.astep` from the suspension count the queue showed when recording
    began. By `IoHold.replay_complete` every run of the model is accepted, so a rejected record is not a run of the model.
    The harness numbers a record after the operation it describes, so a record can be logged later than its operation took
    effect (never earlier). A record the replay rejects is therefore retried after the next record of another thread, if that one
    is among the following few and nothing of its own thread lies between: a history is refused only if no such reordering is
    accepted either. -/
namespace IoHoldChk
open IoHold

def evOf : Nat → Option Ev
  | 0 => some .susp | 1 => some .resume | 2 => some .hbegin | 3 => some .hend | 4 => some .clean | _ => none

def name : Nat → String
  | 0 => "close queue suspended" | 1 => "close queue resumed" | 2 => "handler call begins" | 3 => "handler call ends" | 4 => "cleanup handler" | _ => "?"

/-- replay with the late-record rule; returns the final state, the number of late records, or the index and state of the refusal -/
partial def replay (a : A) (evs : Array (Nat × Nat)) (i : Nat) (late : Nat) : Except (Nat × A) (A × Nat) :=
  if h : i < evs.size then
    let (k, tid) := evs[i]
    match evOf k with
    | none => replay a evs (i + 1) late
    | some e =>
      match astep a e with
      | some a' => replay a' evs (i + 1) late
      | none =>
        -- a later record of another thread whose operation took effect before this one
        let cand := (List.range 8).findSome? fun d =>
          let j := i + 1 + d
          if hj : j < evs.size then
            let (kj, tj) := evs[j]
            if tj == tid then none
            else if ((List.range d).any fun d' => (evs[i + 1 + d']!).2 == tj) then none
            else match evOf kj with
              | none => none
              | some ej => match astep a ej with
                | none => none
                | some a1 => match astep a1 e with
                  | none => none
                  | some a2 => some (j, a2)
          else none
        match cand with
        | some (j, a2) => replay a2 (evs.eraseIdx! j) (i + 1) (late + 1)
        | none => .error (i, a)
  else .ok (a, late)

def main (paths : List String) : IO UInt32 := do
  let mut rounds := 0; let mut total := 0; let mut bad : List String := []; let mut cleans := 0; let mut lates := 0; let mut skipped := 0
  for path in paths do
    let lines := (← IO.FS.readFile path).splitOn "\n"
    let mut init : List (Nat × Nat) := []
    let mut skip : List Nat := []
    for line in lines do
      match line.splitOn " " with
      | ["N", r, c, _] => init := (r.toNat!, c.toNat!) :: init
      | ["X", r] => skip := r.toNat! :: skip
      | _ => pure ()
    let mut cur : Option Nat := none
    let mut buf : Array (Nat × Nat) := #[]
    let mut secs : List (Nat × Array (Nat × Nat)) := []
    for line in lines do
      match line.splitOn " " with
      | ["R", r] =>
        if let some c := cur then secs := (c, buf) :: secs
        cur := some r.toNat!; buf := #[]
      | ["E", k, t] => buf := buf.push (k.toNat!, t.toNat!)
      | _ => pure ()
    if let some c := cur then secs := (c, buf) :: secs
    for (r, evs) in secs.reverse do
      if skip.contains r then skipped := skipped + 1; continue
      match init.lookup r with
      | none => continue
      | some c0 =>
        rounds := rounds + 1; total := total + evs.size
        cleans := cleans + (evs.toList.filter (·.1 == 4)).length
        match replay { count := c0 } evs 0 0 with
        | .ok (a, l) =>
          lates := lates + l
          if a.count != 0 || a.running != 0 then
            bad := s!"{path}: round {r}: at the end of the record the close queue is still suspended {a.count} times with {a.running} handler calls in progress" :: bad
        | .error (i, a) =>
          let (k, t) := evs[i]!
          bad := s!"{path}: round {r}: record {i} ({name k}, thread {t}) is not a move of IoHold.astep in this state: close queue suspended {a.count} times, handler calls in progress {a.running}, cleanup handler seen {a.cleaned}" :: bad
  IO.println s!"close-queue records {total} in {rounds} rounds  explained-by-IoHold.astep {total - bad.length}  cleanup handlers accepted with the queue unheld {cleans}  late records {lates}  rounds through the side counter (oracle only) {skipped}  UNEXPLAINED {bad.length}"
  for b in bad.reverse.take 6 do IO.println s!"{b.take 400}"
  return if bad.isEmpty then 0 else 1

end IoHoldChk
