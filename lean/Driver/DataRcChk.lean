import DispatchVerif.Core.DataRc
/-! `dvdriver datarc <log>…`: the operations harness/c13_rc.c performed on real dispatch_data objects (create, derive with the
    exact leaves of the new object's records, retain, release) are replayed through `DataRc.step`; every destructor the real
    library ran ("X o") must be one the model has already run at that point of the log (never early, never twice), and at the
    end of a round, when everything has been released, the two sets must be equal. -/
namespace DataRcChk
open DataRc

def nats (ws : List String) : List Nat := ws.filterMap String.toNat?

def main (paths : List String) : IO UInt32 := do
  let mut ops := 0; let mut xs := 0; let mut rounds := 0; let mut bad : List String := []
  for path in paths do
    let mut st : St := {}
    let mut seen : List Nat := []
    let mut dead := false
    let mut n := 0
    for line in (← IO.FS.readFile path).splitOn "\n" do
      n := n + 1
      if dead then continue
      let ws := line.splitOn " "
      let op? : Option (Option Op) := match ws with
        | ["C"] => some (some .create)
        | "D" :: rest =>
          let srcs := nats (rest.takeWhile (· != "/"))
          let recs := nats ((rest.dropWhile (· != "/")).drop 1)
          some (some (.derive srcs recs))
        | ["R", i] => some (some (.retain i.toNat!))
        | ["L", i] => some (some (.release i.toNat!))
        | ["X", _] => some none
        | ["E"] => some none
        | _ => none
      match op? with
      | none => pure ()
      | some (some op) =>
        ops := ops + 1
        match step st op with
        | some st' => st := st'
        | none => dead := true; bad := s!"{path}:{n}: `{line}` is not an operation the model accepts here (the log and the model disagree about what is held)" :: bad
      | some none =>
        match ws with
        | ["X", i] =>
          xs := xs + 1
          let l := i.toNat!
          if seen.contains l then dead := true; bad := s!"{path}:{n}: the destructor of leaf object {l} ran twice" :: bad
          else if !st.destroyed.contains l then
            dead := true; bad := s!"{path}:{n}: the destructor of leaf object {l} ran although, by the operations so far, the object or something derived from it is still held (DataRc has not destroyed it)" :: bad
          else seen := l :: seen
        | _ =>   -- end of round
          rounds := rounds + 1
          let missing := st.destroyed.filter (fun l => !seen.contains l)
          if !missing.isEmpty then bad := s!"{path}:{n}: at the end of the round the destructors of leaf objects {missing} had not run although everything had been released" :: bad
          st := {}; seen := []
  IO.println s!"data operations {ops}  explained-by-DataRc.step {ops - bad.length}  destructor runs matched {xs}  rounds {rounds}  UNEXPLAINED {bad.length}"
  for b in bad.reverse.take 6 do IO.println s!"{b.take 400}"
  return if bad.isEmpty then 0 else 1

end DataRcChk
