import DispatchVerif.Core.SemaP
/-! L-trace prototype for dispatch_semaphore: every recorded dsema_value transition must be the effect
    on `value` of `SemaP.step` at the pc the C function corresponds to. -/
namespace SemaChk
open SemaP

def hexVal (s : String) : Nat := s.toList.foldl (fun acc c =>
  acc * 16 + (if '0' ≤ c ∧ c ≤ '9' then c.toNat - 48 else if 'a' ≤ c ∧ c ≤ 'f' then c.toNat - 87 else 0)) 0

def toI64 (x : Nat) : Int := if x ≥ 9223372036854775808 then (x : Int) - 18446744073709551616 else x

def stepV (v : Int) (pc : Pc) (op : Op) : List Int := (step { v0 := 0, value := v } 1 pc op).map (·.1.value)

def explained (func : String) (opn : Nat) (o n : Int) : Bool :=
  match func, opn with
  | "dispatch_semaphore_signal", 5 => (stepV o .idle .signal).contains n
  | "dispatch_semaphore_wait", 6 => (stepV o .idle (.wait 1)).contains n
  | "_dispatch_semaphore_wait_slow", 3 => (stepV o .wUndo .signal).contains n && o < 0
  | _, _ => false

def main (args : List String) : IO UInt32 := do
  let mut total := 0; let mut ok := 0; let mut bad : List String := []
  let mut stateoff := "48"
  for path in args do
    for line in (← IO.FS.readFile path).splitOn "\n" do
      match line.splitOn " " with
      | ["OFF", "state", so] => stateoff := so
      | ["E", _, _, off, _, op, old, new, func, _] =>
        if off ≠ stateoff then continue
        let opn := op.toNat!
        if opn = 4 then continue
        total := total + 1
        if explained func opn (toI64 (hexVal old)) (toI64 (hexVal new)) then ok := ok + 1
        else bad := s!"{path}: {line}" :: bad
      | _ => pure ()
  IO.println s!"dsema_value transitions {total}  explained-by-SemaP.step {ok}  UNEXPLAINED {bad.length}"
  for b in bad.reverse.take 8 do IO.println b
  return if bad.isEmpty then 0 else 1

end SemaChk
