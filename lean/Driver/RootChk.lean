import DispatchVerif.Core.RootP
/-! `dvdriver root <trace>…`: every recorded transition of `dgq_pending` / `dgq_thread_pool_size` of a global queue
    (harness/c01_pool.c) must be the effect of `RootP.step` — the function the pool-accounting theorems are about — at
    the pc its C function maps to. -/
namespace RootChk
open RootP

def explained (field : Nat) (op : Nat) (func : String) (t : Tid) (o n : Int) : Bool :=
  let try1 (sh : Sh) (pc : Pc) (opx : Op) : Bool :=
    (step sh t pc opx).any fun r => if field = 0 then r.1.pending == n else r.1.pool == n
  if field = 0 then
    if func == "_dispatch_root_queue_poke_slow" then
      if op = 3 then   -- successful compare-exchange 0 -> remaining
        try1 { pending := o } (.pkPending n.toNat 0) .none
      else             -- the request is trimmed to what the pool allows
        let delta := (o - n).toNat
        (List.range 65).any fun can =>
          try1 { pending := o, reserved := [(t, delta + can)] } (.pkLoop (delta + can) 0 can) .none
    else if func == "_dispatch_worker_thread" then try1 { pending := o, booting := [t] } .wStart .none
    else if func == "__DISPATCH_ROOT_QUEUE_CONTENDED_WAIT__" then
      -- the back-off bracket: +1 when the contention is judged serious, -1 on the way out
      if op = 5 then try1 { pending := o } .wRun .none
      else if op = 6 then try1 { pending := o, reserved := [(t, 1)] } .wContend .none
      else false
    else false
  else
    if func == "_dispatch_root_queue_poke_slow" then try1 { pool := o } (.pkCas (o - n).toNat 0 o) .none
    else if func == "_dispatch_worker_thread" then try1 { pool := o } .wRun .none
    else false

def main (paths : List String) : IO UInt32 := do
  let mut total := 0
  let mut ok := 0
  let mut bad : List String := []
  for path in paths do
    for line in (← IO.FS.readFile path).splitOn "\n" do
      match line.splitOn " " with
      | ["E", _, tid, field, _, op, old, new, func] =>
        let opn := op.toNat!
        if opn = 4 ∨ opn = 0 then continue     -- failed compare-exchange / load: no transition
        total := total + 1
        if explained field.toNat! opn func (tid.toNat! % 1073741824) old.toInt! new.toInt! then ok := ok + 1
        else bad := s!"{path}: {line}" :: bad
      | _ => pure ()
  IO.println s!"transitions {total}  explained-by-RootP.step {ok}  UNEXPLAINED {bad.length}"
  for b in bad.reverse.take 10 do IO.println b
  return if bad.isEmpty then 0 else 1

end RootChk
