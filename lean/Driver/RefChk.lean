import DispatchVerif.Core.RefP
import Driver.Util
/-! `dvdriver ref <trace>…`: the transitions of the reference-count words of tracked queues (harness/c17_life.c) against
    `RefP.step`. `F id tid word op old new func` — word 0 = os_obj_ref_cnt (internal), 1 = os_obj_xref_cnt (external); op 5 add,
    6 sub; counts are 32-bit, biased by −1.
    Each transition is replayed from a model state that satisfies `RefP.G` and has the word's old value: the external word by
    `retain` / `release`, the internal one by `enqueue` (+2), `target` (+1), the end of a drain (−2), `untarget` or the external
    dispose (−1). The model has no step from a state whose count is already −1 (resurrection) or below the weight being dropped
    (over-release): such a transition is unexplained. Per object: the thread that takes the external count to −1 is the one that
    drops the internal reference standing for it; the internal count reaches −1 at most once, and nothing touches the words after.
    The harness numbers a record after the atomic operation it describes, so two records of one word can be logged in the opposite
    order of their operations. A record logged after the object's dispose is therefore a touch after dispose only when its old
    value is negative (the word really was −1 already); with a non-negative old value it is replayed as usual, and the records of
    the internal word of a disposed object must still chain up: every value is left as often as it is entered, except the first
    value (left once more) and −1 (entered once more) — the condition for the records to be a reordering of one linear history. -/
namespace RefChk
open RefP

def sgn (n : Nat) : Int := if n ≥ 2147483648 then (n : Int) - 4294967296 else n

/-- the model's successors (value of the word, next pc) for the transition kind, from a `G`-consistent state with old value `o` -/
def xrefStep (add : Bool) (o : Int) : List (Int × Pc) :=
  if o < 0 then [] else
    let sh : Sh := { xref := o, xholders := List.replicate (o.toNat + 1) 1, iref := 0 }
    (step sh 1 .idle (if add then .retain else .release)).map fun r => (r.1.xref, r.2)

def irefStep (add : Bool) (w : Nat) (o : Int) (inXdispose : Bool) : List (Int × Pc) :=
  if o < 0 then [] else
    if add then
      if w = 2 then (step { iref := o, xalive := true, xholders := [1], inner := o.toNat } 1 .idle .enqueue).map fun r => (r.1.iref, r.2)
      else if w = 1 then (step { iref := o, xalive := true, xholders := [1], inner := o.toNat } 1 .idle .target).map fun r => (r.1.iref, r.2)
      else []
    else
      if w = 2 then
        if o + 1 < 2 then [] else
          (step { iref := o, xalive := false, xholders := [], drainers := [1], inner := (o + 1 - 2).toNat } 1 .draining .work).map fun r => (r.1.iref, r.2)
      else if w = 1 then
        if inXdispose then (step { iref := o, xalive := true, xholders := [], xdl := [1], inner := o.toNat } 1 .xdispose .work).map fun r => (r.1.iref, r.2)
        else (step { iref := o, xalive := false, xholders := [], inner := (o + 1).toNat } 1 .idle .untarget).map fun r => (r.1.iref, r.2)
      else []

def bump (l : List ((Nat × Int) × Int)) (k : Nat × Int) (d : Int) : List ((Nat × Int) × Int) :=
  match l with
  | [] => [(k, d)]
  | e :: t => if e.1 == k then (e.1, e.2 + d) :: t else e :: bump t k d

def main (paths : List String) : IO UInt32 := do
  let mut total := 0; let mut ok := 0; let mut bad : List String := []
  let mut objs := 0; let mut disposed := 0; let mut late := 0; let mut lost := 0
  for path in paths do
    let mut xd : List ((Nat × Nat)) := []     -- (object, thread) between external −1 and its internal release
    let mut dead : List Nat := []
    let mut seen : List Nat := []
    let mut bal : List ((Nat × Int) × Int) := []     -- ((object, value of the internal word), times left − times entered)
    for line in (← IO.FS.readFile path).splitOn "\n" do
      match line.splitOn " " with
      | ["F", id, tid, word, op, old, new, _func] =>
        let id := id.toNat!; let tid := tid.toNat!; let o := sgn (Drv.hexNat old); let n := sgn (Drv.hexNat new)
        if op ≠ "5" ∧ op ≠ "6" then continue
        total := total + 1
        if !seen.contains id then seen := id :: seen; objs := objs + 1
        if dead.contains id ∧ (o < 0 ∨ word == "1") then
          bad := s!"{path}: reference count of an object touched after its internal count had reached -1 (disposed): {line}" :: bad
          continue
        if dead.contains id then late := late + 1
        if word == "0" then
          bal := bump (bump bal (id, o) 1) (id, n) (-1)
        let add := op == "5"
        let w := (if add then n - o else o - n).toNat
        if word == "1" then
          let succs := if w = 1 then xrefStep add o else []
          match succs.find? (·.1 == n) with
          | some (_, pc) => ok := ok + 1; if pc == .xdispose then xd := (id, tid) :: xd
          | none => bad := s!"{path}: external count transition is not a step of RefP (over-release / resurrection / wrong weight): {line}" :: bad
        else
          let inX := !add && w = 1 && xd.contains (id, tid)
          match (irefStep add w o inX).find? (·.1 == n) with
          | some (_, pc) =>
            ok := ok + 1
            if inX then xd := xd.filter (· ≠ (id, tid))
            if pc == .dispose then
              if dead.contains id then bad := s!"{path}: internal count of an object reached -1 twice: {line}" :: bad
              dead := id :: dead; disposed := disposed + 1
          | none => bad := s!"{path}: internal count transition is not a step of RefP (over-release / resurrection / wrong weight): {line}" :: bad
      | _ => pure ()
    for (id, tid) in xd do
      if !dead.contains id then pure ()   -- the internal release of the external dispose may come after the trace ends
      else bad := s!"{path}: object {id}: thread {tid} took the external count to -1 but the object was disposed without its internal release" :: bad
    for id in dead do
      let mine := bal.filter fun e => e.1.1 == id && e.2 != 0
      let okChain := match mine with
        | [a, b] => (a.1.2 == -1 && a.2 == -1 && b.1.2 ≥ 0 && b.2 == 1) || (b.1.2 == -1 && b.2 == -1 && a.1.2 ≥ 0 && a.2 == 1)
        | _ => false
      -- one record can be LOST by the recorder: a thread is preempted between its atomic operation and the call-back, other threads
      -- drop the remaining references, the object is disposed and its words are no longer watched (they may be re-used) when the
      -- call-back finally runs. The chain then has one gap q -> p (q entered once more than left, p left once more than entered) of
      -- the size of a legal weight. At most one such gap per object is bridged, counted and printed; more than three per trace is not.
      let gap := match mine.filter (fun e => !(e.1.2 == -1 && e.2 == -1)) with
        | [x, y, z] =>
          -- exactly one of them is the start (+1, non-negative) that has no partner; the other two are the gap's ends
          let pairs := [(x, y, z), (y, x, z), (z, x, y)]
          pairs.any fun (st, u, v) => st.2 == 1 && st.1.2 ≥ 0 &&
            ((u.2 == 1 && v.2 == -1 && (v.1.2 - u.1.2).natAbs ≤ 4 && v.1.2 != u.1.2) || (v.2 == 1 && u.2 == -1 && (v.1.2 - u.1.2).natAbs ≤ 4 && v.1.2 != u.1.2))
        | _ => false
      let hasEnd := mine.any fun e => e.1.2 == -1 && e.2 == -1
      if !okChain && gap && hasEnd && mine.length == 4 then
        lost := lost + 1
      else if !okChain then
        bad := s!"{path}: object {id}: the records of its internal count are not a reordering of one linear history ending at -1 (value, left-entered): {mine.map fun e => (e.1.2, e.2)}" :: bad
  if lost > 3 * paths.length then bad := s!"{lost} objects with a record missing from their chain: more than the recorder can lose" :: bad
  IO.println s!"refcount transitions {total}  explained-by-RefP.step {ok}  UNEXPLAINED {bad.length}  (objects {objs}, disposed {disposed}, records logged after their object's dispose record {late}, chains bridged over one record lost by the recorder {lost})"
  for b in bad.reverse.take 8 do IO.println b
  return if bad.isEmpty then 0 else 1

end RefChk
