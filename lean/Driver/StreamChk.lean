import DispatchVerif.Core.StreamP
/-! `dvdriver streamsrc <trace>…`: the recorded suspensions / resumptions of a stream's readiness source (harness/c14_rearm.c, lines
    `T <iteration> A|s|r`; `A` = recording begins) replayed through `StreamP.srcReplay`: in every run of
    `StreamP` (repaired library) the source is suspended exactly while it is not running (`StreamP.source_consistent`), so its
    transitions alternate. -/
namespace StreamChk

def main (paths : List String) : IO UInt32 := do
  let mut groups := 0; let mut total := 0; let mut bad : List String := []
  for path in paths do
    let mut cur : Option (String × List Bool) := none
    let mut all : List (String × List Bool) := []
    for line in (← IO.FS.readFile path).splitOn "\n" do
      match line.splitOn " " with
      | ["T", it, "A"] =>
        if let some g := cur then all := g :: all
        cur := some (it, [])
      | ["T", _, k] =>
        if let some (it, l) := cur then cur := some (it, (k == "r") :: l)
      | _ => pure ()
    if let some g := cur then all := g :: all
    for (it, l) in all.reverse do
      groups := groups + 1; total := total + l.length
      -- when recording begins the source exists; whether it is armed at that instant is read off the first transition
      let evs := l.reverse
      let armed0 := match evs with | [] => true | r :: _ => !r
      if !StreamP.srcReplay armed0 evs then
        bad := s!"{path}: iteration {it}: the readiness source's transitions do not alternate (r = resumed, s = suspended, from the armed state): {String.join ((l.reverse.take 40).map fun b => if b then "r" else "s")}" :: bad
  IO.println s!"source transitions {total} in {groups} recordings  explained-by-StreamP.srcReplay {total - bad.length}  UNEXPLAINED {bad.length}"
  for b in bad.reverse.take 6 do IO.println s!"{b.take 400}"
  return if bad.isEmpty then 0 else 1

end StreamChk
