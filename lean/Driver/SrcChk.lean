import DispatchVerif.Core.SrcP
import DispatchVerif.Core.CancelP
/-! `dvdriver srcview <trace>…`: the decision views reported by the tracepoints around `_dispatch_source_wakeup` and
    `_dispatch_source_invoke2` (harness/c16_cancel.c) against `SrcP.wake` / `SrcP.inv`.
    `SW det view result evt probe`, `SI det viewBefore cur probe result viewAfter evDelta ccDelta`.
    In the deterministic phase (det = 1, one driving thread, quiescent between steps) the decision must equal the model's;
    in the concurrent phase only the implications that survive a racing view are required. -/
namespace SrcChk
open SrcP

def bit (n i : Nat) : Bool := n / 2 ^ i % 2 == 1

def view (n : Nat) : View :=
  ⟨bit n 0, bit n 1, bit n 2, bit n 3, bit n 4, bit n 5, bit n 6, bit n 7, bit n 8, bit n 9, bit n 10, bit n 11, bit n 12⟩

def tgtCode : Tgt → Nat | .none => 0 | .q .T => 1 | .q .M => 2

def outCode : Out → Nat | .redirect .T => 1 | .redirect .M => 2 | .ret t => tgtCode t | .wait => 3

/-- fields of the after-view that the model tracks (the registration-handler / handler bits are compared as a pair:
    the callout clears both) -/
def sameAfter (m r : View) : Bool :=
  m.installed == r.installed && m.canceled == r.canceled && m.deleted == r.deleted && m.needsEvent == r.needsEvent &&
  m.needsConfig == r.needsConfig && m.regH == r.regH && m.needsDelete == r.needsDelete && m.pending == r.pending &&
  m.needsRearm == r.needsRearm && m.hasH == r.hasH

def invMatches (v : View) (cur : Q) (res : Nat) (va : View) (ev cc : Nat) : Bool :=
  [false, true].any fun u =>
    let r := inv v cur u
    r.evHandler == (ev > 0) && (cc == 0 || r.cancelCallout) &&
    -- after calling the event handler the real function returns the target queue instead of looping (starvation avoidance)
    (outCode r.out == res || (r.evHandler && res == 1)) && sameAfter r.v va

/-- outcomes (event handler ran, cancel handler ran, canceled after, deleted after) of one invocation according to
    `CancelP.step`, from the owner's program point `pc`; with `env` another thread may cancel or merge between any two steps -/
def outcomes (fuel : Nat) (sh : CancelP.Sh) (pc : CancelP.Pc) (env : Bool) : List (Bool × Bool × Bool × Bool) :=
  match fuel with
  | 0 => []
  | fuel + 1 =>
    let here := if pc == .iDone then [(decide (sh.evStarts > 0), decide (sh.cancelStarts > 0), sh.canceled, sh.deleted)] else []
    let own := if pc == .iDone then [] else (CancelP.step sh 0 pc .invoke).flatMap fun (s', p') => outcomes fuel s' p' env
    let other := if env then
        (if !sh.canceled then ((CancelP.step sh 1 .idle .cancel).flatMap fun (s', _) => outcomes fuel s' pc env) else []) ++
        (if sh.pending == 0 && !sh.canceled then ((CancelP.step sh 1 .idle .merge).flatMap fun (s', _) => outcomes fuel s' pc env) else [])
      else []
    here ++ own ++ other

def protoMatches (vb va : View) (cur ev cc : Nat) (env : Bool) : Bool :=
  let sh : CancelP.Sh := { canceled := vb.canceled, deleted := vb.deleted, pending := if vb.pending then 1 else 0,
                           cancelH := vb.hasH || vb.regH, owner := some 0 }
  let pc : CancelP.Pc := if vb.regH && cur == 1 then .iRegH else .iRead
  (outcomes 14 sh pc env).contains (decide (ev > 0), decide (cc > 0), va.canceled, va.deleted)

def main (paths : List String) : IO UInt32 := do
  let mut nw := 0; let mut ni := 0; let mut nwx := 0; let mut nix := 0; let mut np := 0; let mut views : List Nat := []; let mut bad : List String := []
  for path in paths do
    for line in (← IO.FS.readFile path).splitOn "\n" do
      match line.splitOn " " with
      | ["SW", det, v, res, evt, probe] =>
        nw := nw + 1
        let v := view v.toNat!; let res := res.toNat!
        if det == "1" ∧ probe == "0" ∧ !v.suspended then
          nwx := nwx + 1
          if tgtCode (wake v (evt == "1")) ≠ res then bad := s!"{path}: wakeup decision differs from SrcP.wake: {line}" :: bad
      | ["SI", det, vb, cur, probe, res, va, ev, cc] =>
        ni := ni + 1
        if !views.contains vb.toNat! then views := vb.toNat! :: views
        let vb := view vb.toNat!; let va := view va.toNat!; let ev := ev.toNat!; let cc := cc.toNat!; let cur := cur.toNat!
        if vb.canceled ∧ ev > 0 then bad := s!"{path}: event handler called by an invoke that began with the source cancelled: {line}" :: bad
        if ev > 0 ∧ cur ≠ 1 then bad := s!"{path}: event handler called off the target queue: {line}" :: bad
        if cc > 0 ∧ !(cur = 1 ∧ va.canceled ∧ va.deleted) then bad := s!"{path}: cancel handler called outside the guard of cancel_callout_guard: {line}" :: bad
        if ev > 1 ∨ cc > 1 then bad := s!"{path}: handler called twice in one invoke: {line}" :: bad
        if !vb.needsDelete ∧ !va.needsDelete then
          np := np + 1
          if !protoMatches vb va cur ev cc (det != "1") then
            bad := s!"{path}: invocation is not a path of CancelP.step: {line}" :: bad
        if det == "1" ∧ probe == "0" ∧ cur ≠ 0 then
          nix := nix + 1
          if !invMatches vb (if cur = 1 then .T else .M) res.toNat! va ev cc then
            bad := s!"{path}: invoke decision differs from SrcP.inv: {line}" :: bad
      | _ => pure ()
  IO.println s!"wakeups {nw} (exact {nwx})  invokes {ni} (exact {nix}, protocol {np}, distinct views {views.length})  UNEXPLAINED {bad.length}"
  for b in bad.reverse.take 8 do IO.println b
  return if bad.isEmpty then 0 else 1

end SrcChk
