/-! helpers of the line-protocol driver -/
namespace Drv

def hexDigit (c : Char) : Option Nat :=
  if '0' ≤ c ∧ c ≤ '9' then some (c.toNat - '0'.toNat)
  else if 'a' ≤ c ∧ c ≤ 'f' then some (c.toNat - 'a'.toNat + 10) else none

def parseHexBytes (s : String) : List Nat :=
  let rec go : List Char → List Nat
    | a :: b :: r => (match hexDigit a, hexDigit b with | some x, some y => [x * 16 + y] | _, _ => []) ++ go r
    | _ => []
  if s = "-" then [] else go s.toList

def hex2 (n : Nat) : String :=
  let d := "0123456789abcdef".toList
  String.ofList [d[n / 16 % 16]!, d[n % 16]!]

def toHex (l : List Nat) : String := if l.isEmpty then "-" else String.join (l.map hex2)

def optNat (s : String) : Option Nat := if s = "-1" then none else s.toNat?

def hexNat (s : String) : Nat := s.toList.foldl (fun a c => a * 16 + (hexDigit c).getD 0) 0

def toHex64 (n : Nat) : String :=
  let d := "0123456789abcdef".toList
  String.ofList ((List.range 16).map fun i => d[(n / 16 ^ (15 - i)) % 16]!)

end Drv
