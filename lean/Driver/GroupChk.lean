import DispatchVerif.Core.GroupP
/-! L-trace prototype for dispatch_group: every recorded dg_state / dg_bits transition of the real
    library must be the effect on `w` of `GroupP.step` at the pc the C function corresponds to. -/
namespace GroupChk
open GroupP

def hexVal (s : String) : Nat := s.toList.foldl (fun acc c =>
  acc * 16 + (if '0' ≤ c ∧ c ≤ '9' then c.toNat - 48 else if 'a' ≤ c ∧ c ≤ 'f' then c.toNat - 87 else 0)) 0

def decodeW (x : Nat) : W :=
  let low := x % 4294967296
  let field := low / 4
  { gen := x / 4294967296, count := if field = 0 then 0 else 1073741824 - field,
    N := (low / 2) % 2 = 1, Wt := low % 2 = 1 }

def wEq (a b : W) (ignoreGen : Bool) : Bool :=
  (ignoreGen || a.gen == b.gen) && a.count == b.count && a.N == b.N && a.Wt == b.Wt

def stepW (w : W) (pc : Pc) (op : Op) : List W := (step { w := w } 1 pc op).map (·.1.w)

def explained (func : String) (size opn : Nat) (o n : W) : Bool :=
  match func, size, opn with
  | "dispatch_group_enter", 4, _ => (stepW o .idle .enter).any (wEq · n true)       -- 32-bit half: gen not visible
  | "dispatch_group_leave", 8, 5 => (stepW o .idle .leave).any (wEq · n false)
  | "dispatch_group_leave", 8, 3 => (stepW o (.leave2 o) .leave).any (wEq · n false)
  | "dispatch_group_wait", 8, 3 => (stepW o .idle .wait).any (wEq · n false)
  | "_dispatch_group_notify", 8, 3 => (stepW o (.nLinked true) .notify).any (wEq · n false)
  | _, _, _ => false

def main (args : List String) : IO UInt32 := do
  let mut total := 0; let mut ok := 0; let mut bad : List String := []
  let mut kinds : List (String × Nat) := []
  let mut stateoff := "48"
  for path in args do
    for line in (← IO.FS.readFile path).splitOn "\n" do
      match line.splitOn " " with
      | ["OFF", "state", so] => stateoff := so
      | ["E", _, _, off, size, op, old, new, func, _] =>
        if off ≠ stateoff then continue
        let opn := op.toNat!
        if opn = 4 then continue
        total := total + 1
        if explained func size.toNat! opn (decodeW (hexVal old)) (decodeW (hexVal new)) then
          ok := ok + 1
          kinds := match kinds.lookup func with
            | some k => (func, k + 1) :: kinds.filter (·.1 ≠ func)
            | none => (func, 1) :: kinds
        else bad := s!"{path}: {line}" :: bad
      | _ => pure ()
  IO.println s!"dg_state transitions {total}  explained-by-GroupP.step {ok}  UNEXPLAINED {bad.length}  by function {kinds}"
  for b in bad.reverse.take 8 do IO.println b
  return if bad.isEmpty then 0 else 1

end GroupChk
