import DispatchVerif.Core.BlockP
import Driver.Util
/-! `dvdriver block <trace>…`: the transitions of a block object's `dbpd_atomic_flags` and `dbpd_performed` words and the leaves of
    its private group (harness/tr_block.c) against `BlockP.step`.
    `B id tid kind op old new func` (kind 0 flags, 1 performed), `E seq tid off size op old new func id` (private group).
    Each transition is checked on its own from the state decoded from its old value (the order of records of different threads
    is not reliable); the per-thread order is: the thread whose increment of `dbpd_performed` returned 1 — and only it — leaves
    the private group next. -/
namespace BlockChk
open BlockP

def flagsOf (n : Nat) : Sh := { canceled := n % 2 == 1, waiting := n / 2 % 2 == 1, waited := n / 4 % 2 == 1 }
def sameFlags (a b : Sh) : Bool := a.canceled == b.canceled && a.waiting == b.waiting && a.waited == b.waited

/-- is the flags transition `o → n` made by `func` with primitive `op` the effect of the model step it corresponds to -/
def flagsExplained (func : String) (op o n : Nat) : Bool :=
  let so := flagsOf o; let sn := flagsOf n
  if o / 8 ≠ n / 8 then false
  else if func == "dispatch_block_cancel" then op == 8 && (step so 1 .idle .cancel).any (fun r => sameFlags r.1 sn)
  else if func == "dispatch_block_wait" then
    (op == 8 && (step so 1 .idle .wait).any (fun r => sameFlags r.1 sn)) ||          -- or_orig DBF_WAITING
    (op == 7 && so.waiting && (step so 1 (.waitRet false) .wait).any (fun r => sameFlags r.1 sn)) ||   -- and ~DBF_WAITING
    (op == 8 && so.waiting && (step so 1 (.waitRet true) .wait).any (fun r => sameFlags r.1 sn))       -- or DBF_WAITED
  else false

def main (paths : List String) : IO UInt32 := do
  let mut total := 0; let mut ok := 0; let mut bad : List String := []
  let mut nflags := 0; let mut nperf := 0; let mut nleave := 0
  for path in paths do
    -- (block id, tid) ↦ pc of the threads that are past their increment; per block: increments seen, leaves seen
    let mut pcs : List ((Nat × Nat) × Pc) := []
    let mut incs : List (Nat × Nat) := []      -- block id ↦ number of increments
    let mut lvs : List (Nat × Nat) := []
    let mut stateoff := "48"
    for line in (← IO.FS.readFile path).splitOn "\n" do
      match line.splitOn " " with
      | ["OFF", "state", so] => stateoff := so
      | ["B", id, tid, kind, op, old, new, func] =>
        let id := id.toNat!; let tid := tid.toNat!; let op := op.toNat!; let o := Drv.hexNat old; let n := Drv.hexNat new
        if op == 0 || op == 4 then continue
        total := total + 1
        if kind == "0" then
          nflags := nflags + 1
          if flagsExplained func op o n then ok := ok + 1 else bad := s!"{path}: flags transition not a step of BlockP: {line}" :: bad
        else
          nperf := nperf + 1
          let isInvoke := func == "_dispatch_block_async_invoke2" || func == "_dispatch_block_sync_invoke" || func == "_dispatch_block_invoke_direct" || func == "_dispatch_block_first_completion"      -- the counting helper of the three (F40)
          match step { performed := o, completers := [tid] } tid .completed .invoke with
          | [(s', pc')] =>
            if isInvoke && op == 5 && s'.performed == n && (pcs.lookup (id, tid)).isNone then
              ok := ok + 1
              if pc' == .leaving then pcs := ((id, tid), pc') :: pcs
              incs := (id, (incs.lookup id).getD 0 + 1) :: incs.filter (·.1 ≠ id)
            else bad := s!"{path}: performed transition not a step of BlockP: {line}" :: bad
          | _ => bad := s!"{path}: model has no step: {line}" :: bad
      | ["E", _, tid, off, _, op, _, _, func, id] =>
        if off ≠ stateoff || func ≠ "dispatch_group_leave" || op ≠ "5" then continue
        let id := id.toNat!; let tid := tid.toNat!
        total := total + 1; nleave := nleave + 1
        match pcs.lookup (id, tid) with
        | some .leaving =>
          ok := ok + 1; pcs := pcs.filter (·.1 ≠ (id, tid)); lvs := (id, (lvs.lookup id).getD 0 + 1) :: lvs.filter (·.1 ≠ id)
        | _ => bad := s!"{path}: the private group was left by a thread whose increment of dbpd_performed did not return 1: {line}" :: bad
      | _ => pure ()
    for (k, _) in pcs do bad := s!"{path}: block {k.1}: thread {k.2} saw the increment return 1 but never left the private group" :: bad
    for (id, _) in incs do
      if (lvs.lookup id).getD 0 ≠ 1 then bad := s!"{path}: block {id}: executed, but its private group was left {(lvs.lookup id).getD 0} times" :: bad
  IO.println s!"block transitions {total}  explained-by-BlockP.step {ok}  UNEXPLAINED {bad.length}  (flags {nflags}, performed {nperf}, leaves {nleave})"
  for b in bad.reverse.take 8 do IO.println b
  return if bad.isEmpty then 0 else 1

end BlockChk
