import DispatchVerif.Generated.Tables
import DispatchVerif.Core.Base64P
import DispatchVerif.Core.Base32P
import DispatchVerif.Core.Base32HexP
/-! G2 tie: the tables (and the table sizes that guard the look-ups) the codec models are proved about are
    the ones the compiler sees in /repo/src/transform.c on this run. -/
namespace Tie

theorem b64_tables : B64.encTbl = Gen.base64_encode_table ∧ B64.decTbl = Gen.base64_decode_table ∧
    B64.decSize = Gen.base64_decode_table_size := by decide

theorem b32_tables : B32.encTbl = Gen.base32_encode_table ∧ B32.decTbl = Gen.base32_decode_table ∧
    B32.decSize = Gen.base32_decode_table_size := by decide

theorem b32hex_tables : B32H.encTbl = Gen.base32hex_encode_table ∧ B32H.decTbl = Gen.base32hex_decode_table ∧
    B32H.decSize = Gen.base32hex_decode_table_size := by decide

end Tie
