import DispatchVerif.Generated.Consts
import DispatchVerif.Core.Time
import DispatchVerif.Core.AttrP
import DispatchVerif.Core.SuspendP
import DispatchVerif.Core.IoP
/-! G1 tie: every literal the models use is the value the compiler reports for /repo's headers on this
    run (`Generated/Consts.lean` is rewritten by every check). If a header changes, these obligations stop
    checking and the models — hence the theorems — have to be revisited against the new values. -/
namespace Tie

theorem time_consts :
    TimeP.MAXV = Gen.DISPATCH_TIME_MAX_VALUE ∧ TimeP.B62 = Gen.DISPATCH_WALLTIME_MASK ∧
    TimeP.B63 = Gen.DISPATCH_UP_OR_MONOTONIC_TIME_MASK ∧ TimeP.FOREVER = Gen.DISPATCH_TIME_FOREVER ∧
    TimeP.WALLNOW = Gen.DISPATCH_WALLTIME_NOW ∧ Gen.DISPATCH_TIME_NOW = 0 ∧ Gen.NSEC_PER_SEC = 1000000000 := by decide

theorem attr_consts :
    AttrP.COUNT = Gen.DISPATCH_QUEUE_ATTR_COUNT ∧
    Gen.DISPATCH_QUEUE_ATTR_OVERCOMMIT_COUNT = 3 ∧ Gen.DISPATCH_QUEUE_ATTR_AUTORELEASE_FREQUENCY_COUNT = 3 ∧
    Gen.DISPATCH_QUEUE_ATTR_QOS_COUNT = 7 ∧ Gen.DISPATCH_QUEUE_ATTR_PRIO_COUNT = 16 ∧
    Gen.DISPATCH_QUEUE_ATTR_CONCURRENCY_COUNT = 2 ∧ Gen.DISPATCH_QUEUE_ATTR_INACTIVE_COUNT = 2 ∧
    Gen.SIZEOF_QUEUE_ATTR = 16 := by decide

theorem suspend_consts :
    SuspendP.HALF = Gen.DISPATCH_QUEUE_SUSPEND_HALF ∧
    SuspendP.MAXC * Gen.DISPATCH_QUEUE_SUSPEND_INTERVAL + Gen.DISPATCH_QUEUE_SUSPEND_INTERVAL = 2 ^ 64 ∧
    Gen.DISPATCH_QUEUE_HAS_SIDE_SUSPEND_CNT = 2 ^ 57 := by decide

/-- bit layout of dq_state used by the trace decoders and the word-level lane functions -/
theorem dq_state_layout :
    Gen.DISPATCH_QUEUE_IN_BARRIER = 2 ^ 54 ∧ Gen.DISPATCH_QUEUE_PENDING_BARRIER = 2 ^ 40 ∧
    Gen.DISPATCH_QUEUE_DIRTY = 2 ^ 39 ∧ Gen.DISPATCH_QUEUE_ENQUEUED = 2 ^ 31 ∧
    Gen.DISPATCH_QUEUE_ENQUEUED_ON_MGR = 2 ^ 38 ∧
    Gen.DISPATCH_QUEUE_WIDTH_INTERVAL = 2 ^ 41 ∧ Gen.DISPATCH_QUEUE_WIDTH_FULL = 4096 ∧
    Gen.DISPATCH_QUEUE_WIDTH_FULL_BIT = 2 ^ 53 ∧ Gen.DISPATCH_QUEUE_WIDTH_MASK = 2 ^ 54 - 2 ^ 41 ∧
    Gen.DLOCK_OWNER_MASK = 2 ^ 30 - 1 ∧ Gen.DISPATCH_QUEUE_DRAIN_OWNER_MASK = 2 ^ 30 - 1 ∧
    Gen.DISPATCH_QUEUE_INACTIVE = 2 ^ 56 ∧ Gen.DISPATCH_QUEUE_NEEDS_ACTIVATION = 2 ^ 55 ∧
    Gen.DISPATCH_QUEUE_SUSPEND_INTERVAL = 2 ^ 58 := by decide

theorem group_consts :
    Gen.DISPATCH_GROUP_VALUE_INTERVAL = 4 ∧ Gen.DISPATCH_GROUP_HAS_WAITERS = 1 ∧ Gen.DISPATCH_GROUP_HAS_NOTIFS = 2 ∧
    Gen.DISPATCH_GROUP_VALUE_MASK = 2 ^ 32 - 4 ∧ Gen.DISPATCH_GROUP_GEN_MASK = 2 ^ 64 - 2 ^ 32 := by decide

theorem misc_consts :
    Gen.DIO_MAX_CHUNK_SIZE = 1048576 ∧ Gen.DTH_ID_COUNT = 2 ∧ Gen.DTH_TARGET_ID = 0 ∧ Gen.DTH_DEADLINE_ID = 1 ∧
    Gen.DLOCK_ONCE_UNLOCKED = 0 ∧ Gen.DLOCK_ONCE_DONE = 2 ^ 64 - 1 := by decide

end Tie
