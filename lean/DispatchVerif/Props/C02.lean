import DispatchVerif.Core.LaneFFifoMain
import DispatchVerif.Core.LaneRProof
/-! # C02 — serial queues run one item at a time, in submission order

`LaneR` / `LaneF`: the serial lane for any number of threads and any mix of asynchronous and synchronous submissions
(see C01 for the models and their tie to the code). -/
namespace C02

/-- **one at a time**: at most one thread is inside a work item of the lane -/
theorem serial_exclusion {s : LaneR.St} (h : LaneR.Reachable s) (t t' : LaneR.Tid)
    (ht : LaneR.isRunning (s.pcs t) = true) (ht' : LaneR.isRunning (s.pcs t') = true) : t = t' :=
  LaneR.serial_exclusion h t t' ht ht'

/-- **submission order**: items start in the order of their push (the tail exchange that makes the submission
    visible — it happens inside the submitting call, so "the submission of A returned before the submission of B began"
    implies A is pushed before B); a synchronous submission on the slow path is an item of the same list -/
theorem serial_fifo {s : LaneF.St} (h : LaneF.Reachable s) :
    s.sh.pushed = s.sh.startedP ++ s.sh.pend ++ s.sh.items.map (·.id) :=
  LaneF.serial_fifo h

/-- when nobody owns the lane, nothing is in hand: every pushed item has started or is still queued. The fast-path
    `dispatch_sync` is only taken from the completely idle word, hence only when every pushed item has started -/
theorem serial_fifo_unowned {s : LaneF.St} (h : LaneF.Reachable s) (ho : s.sh.dq.O = none) :
    s.sh.pushed = s.sh.startedP ++ s.sh.items.map (·.id) :=
  LaneF.serial_fifo_unowned h ho

end C02
