import DispatchVerif.Core.LaneFFifoMain
import DispatchVerif.Core.LaneFF15
import DispatchVerif.Core.LaneRProof
import DispatchVerif.Core.WlhWalk
/-! # C02 — serial queues run one item at a time, in submission order

`LaneR` / `LaneF`: the serial lane for any number of threads and any mix of asynchronous and synchronous submissions
(see C01 for the models and their tie to the code). -/
namespace C02

/-- **one at a time**: at most one thread is inside a work item of the lane -/
theorem serial_exclusion {s : LaneR.St} (h : LaneR.Reachable s) (t t' : LaneR.Tid)
    (ht : LaneR.isRunning (s.pcs t) = true) (ht' : LaneR.isRunning (s.pcs t') = true) : t = t' :=
  LaneR.serial_exclusion h t t' ht ht'

/-- **submission order**: items start in the order of their push (the tail exchange that makes the submission
    visible — it happens inside the submitting call, so "the submission of A returned before the submission of B began"
    implies A is pushed before B); a synchronous submission on the slow path is an item of the same list -/
theorem serial_fifo {s : LaneF.St} (h : LaneF.Reachable s) :
    s.sh.pushed = s.sh.startedP ++ s.sh.pend ++ s.sh.items.map (·.id) :=
  LaneF.serial_fifo h

/-- when nobody owns the lane, nothing is in hand: every pushed item has started or is still queued. (The idle word does
    *not* imply that nothing is queued — see F15 below.) -/
theorem serial_fifo_unowned {s : LaneF.St} (h : LaneF.Reachable s) (ho : s.sh.dq.O = none) :
    s.sh.pushed = s.sh.startedP ++ s.sh.items.map (·.id) :=
  LaneF.serial_fifo_unowned h ho

/-- **F15** — "A before B whenever A's submission returned before B's began" is false when B is a synchronous submission on
    the fast path: a reachable state in which item 2's asynchronous submission has returned and thread 3 has not begun, from
    which thread 3's `dispatch_sync` item runs while item 2 has still not started. The schedule is the one observed on the real
    library (harness/f15_sync_overtake.c forces it): worker about to unlock, first pusher stalled before its wake-up, second
    pusher returns, unlock leaves the idle word, the fast path takes the lane. -/
theorem F15_sync_fast_path_overtakes :
    ∃ s1 s2, LaneF.Reachable s1 ∧ s1.pcs 2 = .idle ∧ s1.pcs 3 = .idle ∧ 2 ∈ s1.sh.pushed ∧
      (∃ it ∈ s1.sh.items, it.id = 2 ∧ it.linked = true) ∧
      LaneF.exec s1 LaneF.f15b = some s2 ∧ s2.pcs 3 = .sRunningFast 3 ∧ 2 ∉ s2.sh.startedP ∧ s2.sh.dq.O = some 3 :=
  LaneF.sync_fast_path_overtakes

/-! ## the waiter's hierarchy walk under `dispatch_set_target_queue` (F39) -/

/-- **a thread about to wait for a queue never dereferences a NULL target**, from whatever queue the walk is entered and whatever
    that queue's role bits said when the caller looked (they may be stale: the target of an active queue can be changed): the walk
    stops at a root queue. For every acyclic hierarchy whose root queues alone have no target. -/
theorem wlh_walk_never_faults (qs : List WlhWalk.Q) (hwf : WlhWalk.WF qs) (dq : Nat) (q : WlhWalk.Q) (hq : qs[dq]? = some q)
    (hr : q.root = false) (f : Nat) (hf : dq < f) : WlhWalk.walk true qs f dq ≠ .fault :=
  WlhWalk.walk_never_faults qs hwf dq q hq hr f hf

/-- F39 as found: the queue was an inner queue when the waiter looked and targets a global root queue when the walk reads its target -/
theorem F39_as_found :
    WlhWalk.walk false [⟨.neither, true, none⟩, ⟨.anon, false, some 0⟩] 2 1 = .fault ∧
    WlhWalk.walk true [⟨.neither, true, none⟩, ⟨.anon, false, some 0⟩] 2 1 = .anon := WlhWalk.F39_as_found

end C02
