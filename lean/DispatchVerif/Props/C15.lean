import DispatchVerif.Core.SourceFold
import DispatchVerif.Core.SourceP
import DispatchVerif.Core.LaneRProof
/-! # C15 — sources coalesce without loss and never re-enter their handler

`SourceFold`: `dispatch_source_merge_data` combines into `ds_pending_data` with one atomic operation (add / or / store by
source type) and the invoke path latches with an exchange to 0 — whatever the history of merges and latches, the latched
values are the folds of consecutive blocks of the merge history and the pending word is the fold of the open block.
`SourceP`: the same for DATA_ADD with any number of concurrent mergers and invokers between latch and handler call.
A source is a serial lane (`LaneR`, see C01/C02): its handler is invoked by the thread that holds the drain lock. -/
namespace C15
open SourceFold

/-- **DATA_ADD**: values delivered + value pending = sum of the values merged (mod 2^64), after every history -/
theorem add_conservation (ops : List Op) :
    (((run fAdd ops).vals.sum) + (run fAdd ops).pending) % M64 = (((hist (run fAdd ops)).map (· % M64)).sum) % M64 :=
  SourceFold.add_conservation ops

/-- **DATA_OR**: union delivered ∪ pending = union merged -/
theorem or_conservation (ops : List Op) :
    orAll (run fOr ops).vals ||| (run fOr ops).pending = orAll (hist (run fOr ops)) :=
  SourceFold.or_conservation ops

/-- **DATA_REPLACE**: every latched value is one that was merged (or the empty latch, which is not delivered), and the
    pending word is always the last value merged since the last latch — a final non-zero merge is the last value delivered -/
theorem replace_semantics (ops : List Op) :
    (∀ v ∈ (run fRep ops).vals, v = 0 ∨ v ∈ hist (run fRep ops)) ∧
    (run fRep ops).pending = (run fRep ops).cur.getLast?.getD 0 :=
  ⟨replace_values_were_merged ops, replace_last_wins ops⟩

/-- a handler invocation never reports zero (a latched 0 is dropped before the callout) -/
theorem never_zero (sh : Sh) : ∀ v ∈ delivered sh, v ≠ 0 := delivered_never_zero sh

/-- with any number of threads concurrently merging and invoking: once no invocation is between its latch and its
    handler call, delivered + pending ≡ merged (mod 2^64), and no delivered value is 0 -/
theorem add_conservation_concurrent {s : SourceP.St} (h : SourceP.Reachable s) (hidle : ∀ t, s.pcs t = .idle) :
    s.sh.merged % SourceP.M64 = (SourceP.dsum s.sh.delivered + s.sh.pending) % SourceP.M64 ∧ ∀ v ∈ s.sh.delivered, v ≠ 0 :=
  SourceP.add_conservation h hidle

/-- **the event handler is never running on two threads at once**: the source is a serial lane and the handler runs
    inside its drain — serial exclusion of the lane, whatever queue the source targets -/
theorem handler_serial {s : LaneR.St} (h : LaneR.Reachable s) (t t' : LaneR.Tid)
    (ht : LaneR.isRunning (s.pcs t) = true) (ht' : LaneR.isRunning (s.pcs t') = true) : t = t' :=
  LaneR.serial_exclusion h t t' ht ht'

end C15
