import DispatchVerif.Core.ApplyP
/-! # C10 — dispatch_apply invokes every index exactly once and then returns

`ApplyP` models the shared-counter core of `src/apply.c` (`_dispatch_apply_invoke2`): every participating thread (the
caller and any number of helpers) fetch-and-increments `da_index`, invokes the work function while the fetched value is
below `n`, subtracts the number of invocations it finished from `da_todo`, signals the completion event when that reaches
zero; the caller waits for the event. Any `n`, any number of helpers, any interleaving. -/
namespace C10
open ApplyP

/-- no index is invoked twice and no value outside `0 … n-1` is ever invoked -/
theorem invoked_once_in_range {n : Nat} {c : Tid} {s : St} (h : Reachable n c s) :
    s.sh.invoked.Nodup ∧ ∀ i ∈ s.sh.invoked, i < n :=
  ApplyP.invoked_once_in_range h

/-- **dispatch_apply returns only after all n invocations have finished, and by then every index of `0 … n-1` has been
    invoked exactly once** -/
theorem returns_after_all {n : Nat} {c : Tid} {s : St} (h : Reachable n c s) (t : Tid) (hr : s.pcs t = .returned) :
    s.sh.ended = n ∧ s.sh.runners = [] ∧ s.sh.invoked.Nodup ∧ s.sh.invoked.length = n ∧ ∀ i, i < n → i ∈ s.sh.invoked :=
  ApplyP.returns_after_all h t hr

end C10
