import DispatchVerif.Core.ApplyP
import DispatchVerif.Core.ApplyLive
import DispatchVerif.Core.ApplySerial
import DispatchVerif.Core.ApplyCfg
/-! # C10 — dispatch_apply invokes every index exactly once and then returns

`ApplyP` models the shared-counter core of `src/apply.c` (`_dispatch_apply_invoke2`): every participating thread (the
caller and any number of helpers) fetch-and-increments `da_index`, invokes the work function while the fetched value is
below `n`, subtracts the number of invocations it finished from `da_todo`, signals the completion event when that reaches
zero; the caller waits for the event. Any `n`, any number of helpers, any interleaving.
`ApplyLive` adds the "and then returns" half over the same machine: the caller cannot be left waiting. -/
namespace C10
open ApplyP

/-- no index is invoked twice and no value outside `0 … n-1` is ever invoked -/
theorem invoked_once_in_range {n : Nat} {c : Tid} {s : St} (h : Reachable n c s) :
    s.sh.invoked.Nodup ∧ ∀ i ∈ s.sh.invoked, i < n :=
  ApplyP.invoked_once_in_range h

/-- **dispatch_apply returns only after all n invocations have finished, and by then every index of `0 … n-1` has been
    invoked exactly once** -/
theorem returns_after_all {n : Nat} {c : Tid} {s : St} (h : Reachable n c s) (t : Tid) (hr : s.pcs t = .returned) :
    s.sh.ended = n ∧ s.sh.runners = [] ∧ s.sh.invoked.Nodup ∧ s.sh.invoked.length = n ∧ ∀ i, i < n → i ∈ s.sh.invoked :=
  ApplyP.returns_after_all h t hr

/-- **dispatch_apply returns**: for n > 0 (n = 0 returns before any of this), in every reachable state in which the caller
    waits on `da_event` and no other thread is inside `_dispatch_apply_invoke2` any more (each helper either never came or has
    left), the event has been signalled, so the wait ends. No helper count, interleaving or late helper can strand the
    caller. -/
theorem caller_released {n : Nat} {c : Tid} {s : St} (h : Reachable n c s) (hn : 0 < n)
    (hc : s.pcs c = .waitEv) (hq : ∀ t, t ≠ c → s.pcs t = .idle ∨ s.pcs t = .out) : s.sh.signalled = true :=
  ApplyP.caller_released h hn hc hq

/-- non-vacuity: a reachable state meets every hypothesis of `caller_released` (caller did the one iteration, a late
    helper has been and gone) -/
theorem caller_released_witness :
    ∃ s, Reachable 1 0 s ∧ s.pcs 0 = .waitEv ∧ (∀ t, t ≠ 0 → s.pcs t = .idle ∨ s.pcs t = .out) ∧ s.pcs 1 = .out :=
  ApplyP.caller_released_witness

/-- **No deadlock in dispatch_apply**: for n > 0, if the caller has entered `_dispatch_apply_invoke2` and no thread that
    has entered it can take a further step, the caller has returned. Helpers that never run (no thread was available) are
    exactly the threads still `idle`; the apply does not depend on them. -/
theorem quiescent_returned {n : Nat} {c : Tid} {s : St} (h : Reachable n c s) (hn : 0 < n)
    (hent : s.pcs c ≠ .idle) (hstuck : ∀ t, s.pcs t ≠ .idle → step n c s.sh t (s.pcs t) = []) :
    s.pcs c = .returned :=
  ApplyP.quiescent_returned h hn hent hstuck

/-- **the completion event is signalled by at most one thread, once**: never two threads at the signalling call and nobody
    there once the event has been signalled (the event lives in the caller's `da`; a second signal could land after the
    caller destroyed it) -/
theorem signal_once {n : Nat} {c : Tid} {s : St} (h : Reachable n c s) :
    s.sh.subs.length ≤ 1 ∧ (s.sh.signalled = true → s.sh.subs = []) :=
  ApplyP.signal_once h

/-- **the serial path** (`_dispatch_apply_serial`: `size_t idx = 0; do { f(idx) } while (++idx < iter);`) invokes
    0, 1, …, iter-1 in that order, each once, and ends after exactly iter passes - for every count the index word can
    hold -/
theorem serial_in_order {bits iter : Nat} (h0 : 0 < iter) (hi : iter < 2 ^ bits) :
    ApplySerial.serialLoop bits iter iter 0 [] = some (List.range iter) :=
  ApplySerial.serial_exact h0 hi

/-- and the hypothesis `iter < 2 ^ bits` is what makes it so: an index word narrower than the count never ends the loop -/
theorem serial_narrow_index_repeats :
    ApplySerial.serialLoop 2 5 5 0 [] = none ∧ ApplySerial.serialLoop 2 5 40 0 [] = none :=
  ApplySerial.narrow_index_repeats

/-- the number of participants `dispatch_apply_f` chooses: at least the caller, at most one per iteration, at most the
    parallelism of the machine -/
theorem participants_bounds {par nested iters : Nat} (hp : 0 < par) (hi : 0 < iters) :
    1 ≤ ApplyCfg.thrCnt par nested iters ∧ ApplyCfg.thrCnt par nested iters ≤ iters ∧ ApplyCfg.thrCnt par nested iters ≤ par :=
  ApplyCfg.thrCnt_bounds hp hi

/-- nested applies share the machine -/
theorem nested_participants_share {par nested iters : Nat} (hn : 0 < nested) :
    (nested < par → ApplyCfg.thrCnt par nested iters * nested ≤ par) ∧ (par ≤ nested → ApplyCfg.thrCnt par nested iters ≤ 1) :=
  ApplyCfg.nested_share hn

end C10
