import DispatchVerif.Core.Time
import DispatchVerif.Core.TimeE
/-! # C12 — dispatch_time arithmetic is monotone, clock-preserving and saturating

Property theorems only; the model (`TimeP.dispatchTime'`, `walltimeTs`, `walltimeNow`, `timeout`) and
the helper lemmas live in `Core/TimeA`, `Core/TimeB`, `Core/Time`. The model is tied to
`src/time.c` / `src/shims/time.h` by the generated constants (`Tie/Consts`) and by the L-fn
differential run of the check (`T`, `WT`, `WN`, `TO` lines).

All statements quantify over every 64-bit base word, every int64 delta and every timespec. -/
namespace C12
open TimeP

/-- Clock readings are ordinary: inside the representable range (146 years of uptime; a wall clock that
    reads at least 2 ns after the epoch). These are the only hypotheses on the environment. -/
structure Clocks (nu nm nw : Nat) : Prop where
  up : 1 ≤ nu ∧ nu ≤ MAXV
  mono : 1 ≤ nm ∧ nm ≤ MAXV
  wall : 2 ≤ nw ∧ nw ≤ MAXV

/-- What a 64-bit base word means: never, or a value on one of the three clocks (NOW / WALLTIME_NOW
    replaced by the clock reading). -/
def base (t nu nm nw : Nat) : T :=
  if t = FOREVER then .forever else
  match decode t nw with
  | (c, v) =>
    if v = FOREVER then .forever else
    match c with
    | .wall => .at .wall v
    | .up => .at .up (if v = 0 then nu else v)
    | .mono => .at .mono (if v = 0 then nm else v)

/-- earliest representable value of a clock (wall value 1 would encode as FOREVER) -/
def lo : Clock → Int
  | .wall => 2
  | _ => 1

/-- the specification: base shifted by exactly `d`, saturating at both ends, same clock -/
def shifted (c : Clock) (v : Nat) (d : Int) : Nat :=
  if (v : Int) + d ≥ MAXV then FOREVER else encode c (max (lo c) ((v : Int) + d)).toNat

/-- **C12, dispatch_time, full statement.** For every base word and every delta the result is FOREVER if the
    base is, and otherwise the base's value shifted by exactly `delta` on the base's clock — FOREVER when
    the sum is beyond the representable future, the earliest representable (already elapsed) time of that
    clock when it precedes the representable past. -/
theorem time_shift (t : Nat) (ht : t < W) (d : Int) (hd : I64 d) {nu nm nw : Nat} (hc : Clocks nu nm nw) :
    dispatchTime' t d nu nm nw =
      match base t nu nm nw with
      | .forever => FOREVER
      | .at c v => shifted c v d := by
  obtain ⟨⟨hu1, hu2⟩, ⟨hm1, hm2⟩, ⟨hw1, hw2⟩⟩ := hc
  rcases classify t nw ht with h | h | h | h | ⟨h1, h2⟩ | ⟨v, h1, h2, rfl⟩ | ⟨v, h1, h2, rfl⟩ | h
  · subst h; simp [forever_absorbing', base]
  · subst h
    have hb : base 0 nu nm nw = .at .up nu := by
      unfold base
      rw [decode_up 0 nw (by unfold MAXV; omega)]
      simp [FOREVER]
    rw [hb, dt'_up_now, rel_shift .up nu d hu1 hu2 hd]; rfl
  · subst h
    have hdm := decode_mono 0 nw (by unfold MAXV; omega)
    simp only [Nat.zero_add] at hdm
    have hb : base B63 nu nm nw = .at .mono nm := by
      unfold base
      rw [hdm]
      simp [FOREVER, B63]
    rw [hb, dt'_mono_now, rel_shift .mono nm d hm1 hm2 hd]; rfl
  · subst h
    have hgt : ¬ (nw > MAXV) := by omega
    have hnf : ¬ (nw = FOREVER) := by unfold FOREVER MAXV at *; omega
    have hb : base WALLNOW nu nm nw = .at .wall nw := by
      unfold base
      rw [decode_wallnow]
      have hnf' : ¬ (nw = 18446744073709551615) := by unfold FOREVER at hnf; exact hnf
      simp [hgt, hnf', FOREVER, WALLNOW]
    rw [hb, dt'_wall_now d nu nm nw hw2, wall_shift nw d hw1 hw2 hd]; rfl
  · have hnf : ¬ (t = FOREVER) := by unfold FOREVER MAXV at *; omega
    have h0 : ¬ (t = 0) := by omega
    have hb : base t nu nm nw = .at .up t := by
      unfold base
      rw [if_neg hnf, decode_up t nw h2]
      simp [hnf, h0]
    rw [hb, dt'_up t d nu nm nw h1 h2, rel_shift .up t d h1 h2 hd]; rfl
  · have hnf : ¬ (v + B63 = FOREVER) := by unfold FOREVER MAXV B63 at *; omega
    have hvf : ¬ (v = FOREVER) := by unfold FOREVER MAXV at *; omega
    have h0 : ¬ (v = 0) := by omega
    have hb : base (v + B63) nu nm nw = .at .mono v := by
      unfold base
      rw [if_neg hnf, decode_mono v nw h2]
      simp [hvf, h0]
    rw [hb, dt'_mono v d nu nm nw h1 h2, rel_shift .mono v d h1 h2 hd]; rfl
  · have hnf : ¬ (W - v = FOREVER) := by unfold FOREVER MAXV W at *; omega
    have hvf : ¬ (v = FOREVER) := by unfold FOREVER MAXV at *; omega
    have hb : base (W - v) nu nm nw = .at .wall v := by
      unfold base
      rw [if_neg hnf, decode_wall v nw h1 h2]
      simp [hvf]
    rw [hb, dt'_wall v d nu nm nw h1 h2, wall_shift v d (by omega) h2 hd]; rfl
  · have hb : base t nu nm nw = .forever := by
      unfold base
      by_cases h0 : t = FOREVER
      · simp [h0]
      · rw [if_neg h0]
        cases hdec : decode t nw with
        | mk c v => rw [hdec] at h; simp only at h; simp [h]
    rw [hb, dt'_out_of_range t d nu nm nw h]

/-- the base of every value-carrying word is in the representable range -/
theorem base_range (t : Nat) (ht : t < W) {nu nm nw : Nat} (hc : Clocks nu nm nw) (c : Clock) (v : Nat)
    (h : base t nu nm nw = .at c v) : (lo c).toNat ≤ v ∧ v ≤ MAXV := by
  obtain ⟨⟨hu1, hu2⟩, ⟨hm1, hm2⟩, ⟨hw1, hw2⟩⟩ := hc
  unfold base at h
  by_cases h0 : t = FOREVER
  · simp [h0] at h
  · rw [if_neg h0] at h
    cases hdec : decode t nw with
    | mk c' v' =>
      rw [hdec] at h
      simp only at h
      by_cases hf : v' = FOREVER
      · simp [hf] at h
      · rw [if_neg hf] at h
        -- the decoded value is ≤ MAXV whenever it is not FOREVER
        have hv' : v' ≤ MAXV ∧ (c' = .wall → 2 ≤ v') := by
          unfold decode at hdec
          split at hdec
          · split at hdec
            · have := (Prod.mk.inj hdec)
              obtain ⟨e1, e2⟩ := this
              subst e1
              constructor
              · by_cases hg : (if t = WALLNOW then nw else (W - t) % W) > MAXV
                · rw [if_pos hg] at e2; exact absurd e2.symm hf
                · rw [if_neg hg] at e2; omega
              · intro _
                by_cases hg : (if t = WALLNOW then nw else (W - t) % W) > MAXV
                · rw [if_pos hg] at e2; exact absurd e2.symm hf
                · rw [if_neg hg] at e2
                  by_cases hwn : t = WALLNOW
                  · simp [hwn] at e2; omega
                  · simp [hwn] at e2
                    unfold W B63 B62 FOREVER WALLNOW at *; omega
            · obtain ⟨e1, e2⟩ := Prod.mk.inj hdec
              subst e1
              constructor
              · by_cases hg : t - B63 > MAXV
                · rw [if_pos hg] at e2; exact absurd e2.symm hf
                · rw [if_neg hg] at e2; omega
              · intro hh; cases hh
          · obtain ⟨e1, e2⟩ := Prod.mk.inj hdec
            subst e1
            constructor
            · by_cases hg : t > MAXV
              · rw [if_pos hg] at e2; exact absurd e2.symm hf
              · rw [if_neg hg] at e2; omega
            · intro hh; cases hh
        cases c' with
        | wall =>
          simp only [T.at.injEq] at h
          obtain ⟨rfl, rfl⟩ := h
          exact ⟨by have := hv'.2 rfl; simp [lo]; omega, hv'.1⟩
        | up =>
          simp only [T.at.injEq] at h
          obtain ⟨rfl, rfl⟩ := h
          by_cases hz : v' = 0
          · simp [hz, lo]; omega
          · simp [hz, lo]; omega
        | mono =>
          simp only [T.at.injEq] at h
          obtain ⟨rfl, rfl⟩ := h
          by_cases hz : v' = 0
          · simp [hz, lo]; omega
          · simp [hz, lo]; omega

/-- **never changes clock**: a result that is not FOREVER decodes to the clock of the base -/
theorem shifted_same_clock (c : Clock) (v : Nat) (d : Int) (hv : (lo c).toNat ≤ v) (hv2 : v ≤ MAXV) (nw : Nat) :
    shifted c v d = FOREVER ∨ (decode (shifted c v d) nw).1 = c := by
  unfold shifted
  by_cases hm : (v : Int) + d ≥ MAXV
  · left; simp [hm]
  · right
    simp only [hm, if_false]
    cases c with
    | up =>
      have : 1 ≤ (max (lo .up) ((v : Int) + d)).toNat ∧ (max (lo .up) ((v : Int) + d)).toNat < MAXV := by
        simp only [lo]; unfold MAXV at *; omega
      rw [decode_encode_up _ nw this.1 this.2]
    | mono =>
      have : 1 ≤ (max (lo .mono) ((v : Int) + d)).toNat ∧ (max (lo .mono) ((v : Int) + d)).toNat < MAXV := by
        simp only [lo]; unfold MAXV at *; omega
      rw [decode_encode_mono _ nw this.1 this.2]
    | wall =>
      by_cases h2 : (v : Int) + d ≤ 2
      · have : (max (lo .wall) ((v : Int) + d)).toNat = 2 := by simp only [lo]; omega
        rw [this, ← wallnow_eq, decode_wallnow]
      · have : 3 ≤ (max (lo .wall) ((v : Int) + d)).toNat ∧ (max (lo .wall) ((v : Int) + d)).toNat < MAXV := by
          simp only [lo]; unfold MAXV at *; omega
        rw [decode_encode_wall _ nw this.1 this.2]

/-- **a larger delta never yields an earlier time** (and the pair stays on one clock) -/
theorem shifted_monotone (c : Clock) (v : Nat) (d1 d2 : Int) (hle : d1 ≤ d2) :
    shifted c v d2 = FOREVER ∨
      ∃ x1 x2, shifted c v d1 = encode c x1 ∧ shifted c v d2 = encode c x2 ∧ x1 ≤ x2 ∧ x2 < MAXV := by
  unfold shifted
  by_cases hm2 : (v : Int) + d2 ≥ MAXV
  · left; simp [hm2]
  · right
    have hm1 : ¬ ((v : Int) + d1 ≥ MAXV) := by omega
    simp only [hm1, hm2, if_false]
    refine ⟨_, _, rfl, rfl, ?_, ?_⟩
    · omega
    · cases c <;> simp only [lo] <;> (unfold MAXV at *; omega)

/-- **FOREVER is absorbing** -/
theorem forever_absorbing (d : Int) (nu nm nw : Nat) : dispatchTime' FOREVER d nu nm nw = FOREVER :=
  forever_absorbing' d nu nm nw

/-- exact in the interior: when the sum is representable the result decodes to exactly that value -/
theorem shifted_exact (c : Clock) (v : Nat) (d : Int) (nw : Nat)
    (hlo : lo c + 1 ≤ (v : Int) + d) (hhi : (v : Int) + d < MAXV) :
    decode (shifted c v d) nw = (c, ((v : Int) + d).toNat) := by
  unfold shifted
  have hm : ¬ ((v : Int) + d ≥ MAXV) := by omega
  simp only [hm, if_false]
  cases c with
  | up =>
    simp only [lo] at *
    have e : (max 1 ((v : Int) + d)).toNat = ((v : Int) + d).toNat := by omega
    rw [e, decode_encode_up _ nw (by omega) (by unfold MAXV at *; omega)]
  | mono =>
    simp only [lo] at *
    have e : (max 1 ((v : Int) + d)).toNat = ((v : Int) + d).toNat := by omega
    rw [e, decode_encode_mono _ nw (by omega) (by unfold MAXV at *; omega)]
  | wall =>
    simp only [lo] at *
    have e : (max 2 ((v : Int) + d)).toNat = ((v : Int) + d).toNat := by omega
    rw [e, decode_encode_wall _ nw (by omega) (by unfold MAXV at *; omega)]

/-! ## dispatch_walltime -/

/-- **C12, dispatch_walltime.** For every timespec whose nanosecond count fits an int64 and every delta:
    the wall-clock time `sec·10⁹ + nsec + delta`, saturating — the same `shifted` specification on the
    wall clock (for a base ≥ 0). -/
theorem walltime_shift (sec nsec d : Int) (hb : I64 (sec * 1000000000))
    (hb' : I64 (sec * 1000000000 + nsec)) (hd : I64 d) :
    walltimeTs sec nsec d =
      if sec * 1000000000 + nsec + d ≥ MAXV then FOREVER
      else encode .wall (max 2 (sec * 1000000000 + nsec + d)).toNat :=
  TimeP.walltime_shift sec nsec d hb hb' hd

/-- a timespec more than 292 years before the epoch: elapsed, for every delta (exact) -/
theorem walltime_far_past (sec nsec d : Int) (hs : sec < 0)
    (hb : ¬ I64 (sec * 1000000000) ∨ ¬ I64 (sec * 1000000000 + nsec)) :
    walltimeTs sec nsec d = WALLNOW := TimeP.walltime_far_past sec nsec d hs hb

/-- a timespec more than 292 years after the epoch is itself beyond the representable future: FOREVER,
    absorbing. (Partial with respect to "shifted by exactly delta": a delta below −2^62 ns could bring such
    a base back into range; the code saturates the base first.) -/
theorem walltime_far_future_partial (sec nsec d : Int) (hs : 0 ≤ sec)
    (hb : ¬ I64 (sec * 1000000000) ∨ ¬ I64 (sec * 1000000000 + nsec)) :
    walltimeTs sec nsec d = FOREVER := TimeP.walltime_far_future sec nsec d hs hb

/-- **F36 (known finding)**: the full statement fails for such a timespec - `dispatch_walltime({10000000000, 0}, INT64_MIN)` is
    FOREVER although the exact sum, 776627963145224192 ns after the epoch, is a representable (and elapsed) wall time -/
theorem F36_far_future_not_exact :
    walltimeTs 10000000000 0 (-9223372036854775808) = FOREVER ∧
    (10000000000 : Int) * 1000000000 + 0 + (-9223372036854775808) = 776627963145224192 ∧ (776627963145224192 : Int) < MAXV := by
  decide

/-- dispatch_walltime(NULL, delta) -/
theorem walltime_now_shift (nw : Nat) (d : Int) (hn : nw < B63) (hd : I64 d) :
    walltimeNow nw d =
      if (nw : Int) + d ≥ MAXV then FOREVER
      else encode .wall (max 2 ((nw : Int) + d)).toNat := TimeP.walltime_now_shift nw d hn hd

/-- **dispatch_walltime never changes clock** -/
theorem walltime_on_wall_clock (b d : Int) (hb : I64 b) (hd : I64 d) (nw : Nat) :
    walltimeCore b d = FOREVER ∨ (decode (walltimeCore b d) nw).1 = Clock.wall :=
  walltimeCore_wall b d hb hd nw

/-! ## waiting until a time that is already past does not block -/

/-- `_dispatch_timeout` of the saturated "elapsed" results is 0, and of any value not after the clock
    reading is 0 -/
theorem timeout_past_is_zero {nu nm nw : Nat} (hc : Clocks nu nm nw) :
    timeout (encode .up 1) nu nm nw = 0 ∧ timeout (encode .mono 1) nu nm nw = 0 ∧
    timeout (encode .wall 2) nu nm nw = 0 ∧
    (∀ v, 1 ≤ v → v ≤ MAXV → v ≤ nu → timeout v nu nm nw = 0) ∧
    (∀ v, 1 ≤ v → v ≤ MAXV → v ≤ nm → timeout (v + B63) nu nm nw = 0) ∧
    (∀ v, 3 ≤ v → v ≤ MAXV → v ≤ nw → timeout (W - v) nu nm nw = 0) := by
  obtain ⟨⟨hu1, hu2⟩, ⟨hm1, hm2⟩, ⟨hw1, hw2⟩⟩ := hc
  refine ⟨?_, ?_, ?_, ?_, ?_, ?_⟩
  · have : encode .up 1 = 1 := by unfold encode MAXV; simp
    rw [this]; exact timeout_elapsed_rel_up 1 nu nm nw (by omega) (by unfold MAXV; omega) hu1
  · have : encode .mono 1 = 1 + B63 := by unfold encode MAXV; simp
    rw [this]; exact timeout_elapsed_rel_mono 1 nu nm nw (by omega) (by unfold MAXV; omega) hm1
  · rw [← wallnow_eq]; exact timeout_wallnow nu nm nw hw2
  · intro v a b c; exact timeout_elapsed_rel_up v nu nm nw a b c
  · intro v a b c; exact timeout_elapsed_rel_mono v nu nm nw a b c
  · intro v a b c; exact timeout_elapsed_wall v nu nm nw a b c

/-- **the absolute deadline of a semaphore wait** (`_dispatch_time_nanoseconds_since_epoch`, used by the POSIX-semaphore back
    end of `dispatch_semaphore_wait`; code after the F17 repair): for a time on the uptime or the monotonic clock it is the
    present wall-clock reading plus `_dispatch_timeout` of the time (so: the present when the time is past); for a wall-clock
    time it is not after the present when the time is past, and the present plus the time-out otherwise -/
theorem wait_deadline_past_does_not_block (nu nm nw : Nat) (hw : 2 ≤ nw ∧ nw ≤ MAXV) :
    (∀ v, 1 ≤ v → v ≤ MAXV → sinceEpoch v nu nm nw = nw + timeout v nu nm nw) ∧
    (∀ v, v ≤ MAXV → sinceEpoch (v + B63) nu nm nw = nw + timeout (v + B63) nu nm nw) ∧
    (∀ v, 3 ≤ v → v ≤ MAXV →
      (timeout (W - v) nu nm nw = 0 → sinceEpoch (W - v) nu nm nw ≤ nw) ∧
      (0 < timeout (W - v) nu nm nw → sinceEpoch (W - v) nu nm nw = nw + timeout (W - v) nu nm nw)) ∧
    sinceEpoch WALLNOW nu nm nw ≤ nw ∧ sinceEpoch 0 nu nm nw = nw :=
  since_epoch_deadline nu nm nw hw

/-- F17, the function as it was found: a monotonic-clock time that is already past became a deadline more than 73 years
    ahead (every time with bit 63 set was read as a wall-clock time) -/
theorem F17_as_found (v nu nm nw : Nat) (h1 : 1 ≤ v) (h2 : v ≤ 2 ^ 61) (hpast : v ≤ nm) (hw : nw ≤ 2 ^ 61) :
    timeout (v + B63) nu nm nw = 0 ∧ nw + 2 ^ 61 < sinceEpochOld (v + B63) nu nm nw :=
  F17_monotonic_past_deadline_far_future v nu nm nw h1 h2 hpast hw

/-! ## non-vacuity and the repaired defects -/

/-- the hypotheses are satisfiable and the statement is not trivial: an interior case on each clock -/
example : Clocks 1000 2000 1700000000000000000 := ⟨by unfold MAXV; omega, by unfold MAXV; omega, by unfold MAXV; omega⟩
example : dispatchTime' 5 10 1000 2000 1700000000000000000 = 15 := by decide
example : dispatchTime' (W - 1700000000000000000) 5 1 1 1700000000000000000 = W - 1700000000000000005 := by decide

/-- F8 (fixed): wall base 3 ns, delta −2 is an elapsed wall time now, not FOREVER
    (`TimeP.wall_sum_one_is_forever` is the same point on the pre-fix arm) -/
theorem F8_fixed : coreWall' 3 (-2) = WALLNOW := wall_sum_one_fixed

/-- F1 (fixed): the two witnesses of `TimeP.walltime_changes_clock` / `walltime_wraps_to_past` now
    saturate to FOREVER -/
theorem F1_fixed : walltimeTs 4700000000 0 0 = FOREVER ∧
    walltimeNow 1790000000000000000 7433372036854775000 = FOREVER := by
  constructor <;> decide

end C12
