import DispatchVerif.Core.HierP
/-! # C03 — a serial target queue serialises every queue targeting it

`HierP`: any tree of serial lanes (`target : QId → Option QId`); each lane is an instance of the single-lane model
`LaneR`, a thread steps the protocol of its innermost lane and may take a wakeup token of a lane only while it is inside
a drain item of that lane's target. Any depth, any fan-in, any number of threads.
*Partial*: inner lanes are serial (concurrent inner lanes, `dispatch_sync` recursion through inner lanes and workloops
are observed by the oracle only). -/
namespace C03
open HierP

/-- every member lane behaves as a single lane (so C01 / C02 hold for it: in particular its own items are delivered
    in submission order) -/
theorem member_is_a_lane {target : QId → Option QId} {s : HSt} (h : HReachable target s) (q : QId) :
    LaneR.Reachable (proj s q) := proj_reachable target h q

/-- a thread running a drained item of lane `q` is at the same time running a drained item of every lane down the
    target chain, in particular of the bottom lane -/
theorem nested_hold {target : QId → Option QId} {s : HSt} (h : HReachable target s) {q b : QId} (hb : BottomOf target q b)
    (t : LaneR.Tid) (hr : isDRunning (s.pcs q t) = true) : isDRunning (s.pcs b t) = true :=
  HierP.nested_hold target (nh_reachable target h) hb t hr

/-- **at most one item of the whole hierarchy runs at any time** -/
theorem hier_exclusion {target : QId → Option QId} {s : HSt} (h : HReachable target s) (b : QId) (t t' : LaneR.Tid)
    (ht : (∃ q, BottomOf target q b ∧ isDRunning (s.pcs q t) = true) ∨ LaneR.isRunning (s.pcs b t) = true)
    (ht' : (∃ q, BottomOf target q b ∧ isDRunning (s.pcs q t') = true) ∨ LaneR.isRunning (s.pcs b t') = true) :
    t = t' := HierP.hier_exclusion target h b t t' ht ht'

end C03
