import DispatchVerif.Core.HeapOps
import DispatchVerif.Core.TimerP
import DispatchVerif.Core.TimerD
import DispatchVerif.Core.TimerCfg
/-! # C11 — timers and dispatch_after never fire early and always fire (the provable cores)

`HeapP` is the interleaved double min-heap of `src/event/event.c` on one logical heap: `resift` is the hole-based
sift-up, and only if nothing moved the sift-down, exactly as written; `insert / remove / update` are the three
operations on top of it. `TimerP.computeMissed` is `_dispatch_timer_unote_compute_missed`. The run loop, the kernel
timer and the manager thread are assumptions (see the evidence); what is proved is what the run loop relies on:
the slot it reads (`dth_min`) is the earliest target / deadline after **every** history of operations, nothing is
lost from or duplicated in the heap, the reported count is the number of interval boundaries passed and the
re-armed target is strictly in the future. -/
namespace C11
open HeapP TimerP

/-- resift restores heap order from a heap-with-a-hole for **any** new key, any heap size, any hole position -/
theorem heap_order_restored {a : Arr} {n i : Nat} (x : Nat) (hi : i < n) (he : HE a n i) : H (resift a n i x) n :=
  resift_heap x hi he

/-- every operation keeps heap order (so by induction every reachable heap is ordered, whatever its shape) -/
theorem heap_ops_preserve_order {a : Arr} {n : Nat} (h : H a n) :
    (∀ x, H (insert a n x) (n + 1)) ∧ (∀ k, k < n → H (remove a n k) (n - 1)) ∧ (∀ k x, k < n → H (update a n k x) n) :=
  ⟨fun x => insert_heap x h, fun _ hk => remove_heap h hk, fun _ x hk => update_heap x h hk⟩

/-- the root — what `dth_min[TARGET]` / `dth_min[DEADLINE]` report — is a minimum of all live keys -/
theorem minimum_is_reported {a : Arr} {n : Nat} (h : H a n) : ∀ j, j < n → a 0 ≤ a j := root_min h

/-- no timer is dropped from or duplicated in the heap: occurrence counts change only by the key that was
    inserted / re-keyed / removed -/
theorem heap_contents_preserved (a : Arr) (n k x v : Nat) (hk : k < n) :
    (cnt (insert a n x) (n + 1) v + ind (a n = v) = cnt a (n + 1) v + ind (x = v)) ∧
    (cnt (update a n k x) n v + ind (a k = v) = cnt a n v + ind (x = v)) ∧
    (k ≠ n - 1 → cnt (remove a n k) (n - 1) v + ind (a k = v) = cnt a (n - 1) v + ind (a (n - 1) = v)) :=
  ⟨insert_cnt a n x v, update_cnt a n k x v hk, fun hne => remove_cnt a n k v hk hne⟩

/-- the index arithmetic of the physical array (`parent`, `left child` with the heap id in the low bit) is that of
    two independent heaps laid out at even and odd slots -/
theorem interleaving_is_two_heaps (k hid : Nat) (hh : hid < 2) :
    (0 < k → ((2 * k + hid - 2) / 2) / 2 * 2 + hid = 2 * par k + hid ∧ (2 * k + hid) % 2 = hid) ∧
    2 * (2 * k + hid) + 2 - hid = 2 * (2 * k + 1) + hid :=
  ⟨fun hk => interleave_parent k hid hk hh, interleave_left_child k hid hh⟩

/-- a due repeating timer: the count grows by exactly the boundaries passed; the next target is the first
    boundary after `now` (never early next time), same phase; the deadline moves along -/
theorem missed_count_is_boundaries (target deadline interval now prev : Nat)
    (hi : 0 < interval) (hi2 : interval < 4611686018427387904) (ht : target ≤ now) (hn : now < 4611686018427387904)
    (hd : deadline < 9223372036854775808) (hp : prev + boundaries target interval now ≤ LONG_MAX) :
    (computeMissed target deadline interval now prev).data = prev + boundaries target interval now ∧
    (computeMissed target deadline interval now prev).target = target + boundaries target interval now * interval ∧
    now < (computeMissed target deadline interval now prev).target ∧
    (computeMissed target deadline interval now prev).target ≤ now + interval ∧
    (computeMissed target deadline interval now prev).deadline = deadline + boundaries target interval now * interval :=
  compute_missed_exact target deadline interval now prev hi hi2 ht hn hd hp

/-- … where `boundaries` really counts the interval boundaries `target + k·interval ≤ now` -/
example (target interval now : Nat) (hi : 0 < interval) (ht : target ≤ now) (k : Nat) :
    target + k * interval ≤ now ↔ k < boundaries target interval now := boundaries_spec target interval now hi ht k

/-- at any invocation the count reported so far is at most the number of interval boundaries passed -/
theorem count_never_exceeds_boundaries (target deadline interval now prev : Nat)
    (ht : target ≤ now) (hn : now < 9223372036854775808) (hp : prev ≤ LONG_MAX) :
    (computeMissed target deadline interval now prev).data ≤ prev + boundaries target interval now :=
  data_le_boundaries target deadline interval now prev ht hn hp

/-- **what the handler is told for a latched firing** (`_dispatch_source_timer_data`: the timer left the heap with a count
    latched - it fired while suspended, while its handler was busy, or it is a one-shot): never more than the latched count
    plus the interval boundaries that have passed; exactly the latched count while the (already advanced) target is ahead -/
theorem latched_firing_count_bounded (target deadline interval now prev : Nat)
    (hn : now < 9223372036854775808) (hp : prev / 2 ≤ LONG_MAX) :
    (timerData target deadline interval now prev).data ≤
      prev / 2 + (if target ≤ now then boundaries target interval now else 0) :=
  timer_data_le_boundaries target deadline interval now prev hn hp

/-- a one-shot timer is parked at "never" once it fired -/
theorem oneshot_never_refires (target deadline interval now prev : Nat) (hi : ¬ interval < INT64_MAX) :
    (computeMissed target deadline interval now prev).target = U64MAX := oneshot_parks target deadline interval now prev hi

/-- non-vacuity: a concrete 3-slot heap satisfies the hypothesis, so every operation on it yields a heap -/
example : H (fun j => [3, 5, 4].getD j 0) 3 ∧ H (insert (fun j => [3, 5, 4].getD j 0) 3 1) 4 := by
  have h : H (fun j => [3, 5, 4].getD j 0) 3 := by
    intro j hj hjn
    have : j = 1 ∨ j = 2 := by omega
    rcases this with rfl | rfl <;> decide
  exact ⟨h, insert_heap 1 h⟩

/-- **the kernel timer is reprogrammed whenever the earliest key changes**: an operation that leaves `dth_needs_program` down
    (no store into a root slot) leaves the root key — what the kernel timer was programmed for — unchanged; and re-keying the
    root itself always raises the flag -/
theorem reprogram_when_root_changes (a : Arr) (n k x : Nat) :
    (insertW a n x = false → insert a n x 0 = a 0) ∧ (removeW a n k = false → remove a n k 0 = a 0) ∧
    (updateW a k x = false → update a n k x 0 = a 0) ∧ updateW a 0 x = true :=
  ⟨insert_root a n x, remove_root a n k, update_root a n k x, update_root_flag a x⟩

/-! ## what `dispatch_source_set_timer` makes of its arguments (`TimerCfg`: `_dispatch_timer_config_create`) -/

/-- **"for all leeways": the target, and with it whether the timer is armed, does not depend on the leeway or the interval** - a
    timer with a finite start is armed whatever its leeway (the sixth-round seed tested the *deadline*, which an unbounded leeway saturates) -/
theorem timer_armed_whatever_leeway (start i l i' l' : Nat) (fc : TimeP.Clock) (u m w : Nat) :
    TimerCfg.armed (TimerCfg.config start i l fc u m w) = TimerCfg.armed (TimerCfg.config start i' l' fc u m w) ∧
    (TimerCfg.config start i l fc u m w).target = (TimerCfg.config start i' l' fc u m w).target :=
  TimerCfg.armed_whatever_leeway start i l i' l' fc u m w

/-- **the configured timer: the target is the decoded start (never earlier), the interval is in [1, INT64_MAX], the deadline is never
    before the target nor beyond INT64_MAX, and a repeating timer's deadline is at most half an interval after its target** - for
    every 64-bit start, interval and leeway -/
theorem timer_config_bounds (start interval leeway : Nat) (fc : TimeP.Clock) (u m w : Nat) (hi : interval < TimeP.W) (hl : leeway < TimeP.W) :
    (1 ≤ (TimerCfg.config start interval leeway fc u m w).interval ∧ (TimerCfg.config start interval leeway fc u m w).interval ≤ TimerCfg.I64MAX) ∧
    (start ≠ TimeP.FOREVER → (TimeP.decode start w).2 ≠ 0 → (TimerCfg.config start interval leeway fc u m w).target = (TimeP.decode start w).2) ∧
    ((TimerCfg.config start interval leeway fc u m w).target < TimerCfg.I64MAX →
      (TimerCfg.config start interval leeway fc u m w).target ≤ (TimerCfg.config start interval leeway fc u m w).deadline ∧
      (TimerCfg.config start interval leeway fc u m w).deadline ≤ TimerCfg.I64MAX ∧
      ((TimerCfg.config start interval leeway fc u m w).interval < TimerCfg.I64MAX →
        (TimerCfg.config start interval leeway fc u m w).deadline - (TimerCfg.config start interval leeway fc u m w).target ≤
          (TimerCfg.config start interval leeway fc u m w).interval / 2)) :=
  ⟨TimerCfg.interval_bounds start interval leeway fc u m w hi,
   fun hs hv => TimerCfg.target_is_start start interval leeway fc u m w hs hv,
   fun ht => TimerCfg.deadline_bounds start interval leeway fc u m w hi hl ht⟩
/-- **an interval source (`DISPATCH_SOURCE_TYPE_INTERVAL`) never fires at or before the moment it was created: its first fire is
    strictly later, at most one interval later, and on an interval boundary of the uptime clock** - for every creation time and interval -/
theorem interval_source_first_fire (now iv : Nat) (h : 0 < iv) :
    now < TimerCfg.intervalStart now iv ∧ TimerCfg.intervalStart now iv ≤ now + iv ∧ TimerCfg.intervalStart now iv % iv = 0 :=
  TimerCfg.intervalStart_spec now iv h
/-- rounding to the closest boundary (seeded10/C11) puts the first fire in the past -/
theorem interval_closest_rounding_fires_early : ∃ now iv, 0 < iv ∧ TimerCfg.closestStart now iv ≤ now := TimerCfg.closestStart_in_the_past

end C11
