import DispatchVerif.Core.OnceP
import DispatchVerif.Generated.Consts
/-! # C09 — dispatch_once runs its initialiser exactly once, before anyone returns

`OnceP` models the gate of `src/once.c` / `src/shims/lock.{h,c}`: the inline fast path (`*predicate == ~0`), the
`tryenter` compare-exchange, the callout, `broadcast` (exchange to DONE; wake-all iff the old value is not the owner's
bare lock value), and the `_dispatch_once_wait` loop (read-modify-write that sets the waiters bit, futex wait on the
expected value), for any number of racing callers and any interleaving. Every transition of the real predicate word
under races of 2–24 callers is replayed through `OnceP.step`. -/
namespace C09
open OnceP

/-- the initialiser is started at most once … -/
theorem init_at_most_once {s : St} (h : Reachable s) : s.sh.initStarted ≤ 1 := OnceP.init_at_most_once h

/-- … and at most one thread is ever inside it -/
theorem init_exclusive {s : St} (h : Reachable s) (t t' : Tid)
    (ht : s.pcs t = .init ∨ s.pcs t = .initDone) (ht' : s.pcs t' = .init ∨ s.pcs t' = .initDone) : t = t' :=
  OnceP.init_exclusive h t t' ht ht'

/-- **no call returns before the initialiser has completed** (and it has then run exactly once) — in a model where the futex wait
    may return at any time (spurious wake-ups, signals), not only when woken -/
theorem no_return_before_done {s : St} (h : Reachable s) (t : Tid) (hr : s.pcs t = .ret) :
    s.sh.initEnded = true ∧ s.sh.initStarted = 1 := OnceP.no_return_before_done h t hr

/-- **callers that arrive while it is in progress are released when it completes**: a sleeping caller is owed a return by the
    kernel (the word changed, or it has been woken), or the
    owner is still before / inside its wake-up — so once the owner is done nobody stays asleep -/
theorem sleeper_not_stuck {s : St} (h : Reachable s) (u : Tid) (e : Gate) (hu : s.pcs u = .sleep e) :
    properWake s.sh u e ∨ (∃ o, (s.pcs o = .init ∨ s.pcs o = .initDone ∨ s.pcs o = .wake)) :=
  OnceP.sleeper_not_stuck h u e hu

/-- later calls return immediately without running it again: from DONE the only step of a new caller is the return -/
theorem later_calls_fast (sh : Sh) (t : Tid) (hd : sh.gate = .done) : step sh t .idle = [(sh, .ret)] := by
  simp [step, hd]

theorem consts : Gen.DLOCK_ONCE_UNLOCKED = 0 ∧ Gen.DLOCK_ONCE_DONE = 2 ^ 64 - 1 ∧ Gen.DLOCK_OWNER_MASK = 2 ^ 30 - 1 ∧
    Gen.DLOCK_WAITERS_BIT = 2 ^ 31 := by decide

end C09
