import DispatchVerif.Core.HbP
import DispatchVerif.Core.EventP
import DispatchVerif.Core.LaneRProof
import DispatchVerif.Generated.Sites
/-! # C05 — synchronous submission returns after completion; dispatch orders memory

Three parts.
* `EventP`: the thread event a contended synchronous caller parks on. Whatever the futex does (stale wake-ups included), the
  wait returns only after the signaller's increment, hence after the item's execution (`dispatch_async_and_wait`) or the transfer
  of the queue (`dispatch_sync`, which then runs the item on the caller's own thread: return after completion is program order).
* `HbP`: happens-before over traces of annotated atomic accesses (C11 synchronises-with, release sequences continued by
  read-modify-writes). `handoff_edge`: on a location that is only modified by read-modify-writes in between, what precedes a
  release write in program order happens before what follows a later acquire read.
* the hypotheses of `handoff_edge` for the hand-off edges the property lists are facts about the source: which primitive and
  which memory order each site uses. `Gen.sites` is regenerated from the compiled library on every run (every `os_atomic_*`
  expansion with its file, function, primitive, order and location expression); the theorems below are decided on that table,
  so weakening one of these orders, or turning one of these locations into one that is also plainly stored to, breaks a proof.
On x86-64 a weakened order cannot be exhibited as a failing execution; the visibility half is observed by the oracle on the
machine's own memory model, as the property says. `dispatch_once`'s reader side is the platform's inline fast path (a plain load
on x86: `DISPATCH_ONCE_INLINE_FASTPATH`), so only its release side appears here. -/
namespace C05
open HbP

/-- **the waiter returns only after the signal** (any futex behaviour) -/
theorem wait_returns_after_signal {st : EventP.St} (h : EventP.Reachable st) (hd : st.w = .done) :
    EventP.signalled st = true ∧ st.handed = true := EventP.wait_returns_after_signal h hd

/-- the event word stays legal and a signalled waiter is never parked for good -/
theorem event_sane {st : EventP.St} (h : EventP.Reachable st) :
    ((st.value = 0 ∨ st.value = 1 ∨ st.value = -1) ∧ st.w ≠ .crash) ∧
    (EventP.signalled st = true → (st.w = .slow ∨ st.w = .futex) → st.value = 0) :=
  ⟨EventP.value_legal h, EventP.signalled_value_zero h⟩

/-- on a serial lane (C02) the thread that runs an item holds the lane: `dispatch_sync`'s fast and slow paths run the item on
    the calling thread while it is the one running thread, so the call returns after the item by program order -/
theorem sync_runs_item_exclusively {s : LaneR.St} (h : LaneR.Reachable s) (t t' : LaneR.Tid)
    (ht : LaneR.isRunning (s.pcs t) = true) (ht' : LaneR.isRunning (s.pcs t') = true) : t = t' :=
  LaneR.serial_exclusion h t t' ht ht'

/-- **hand-off edge**: event `a` precedes the release write `i` in its thread, event `b` follows the acquire read `j` in its
    thread, same location, only read-modify-writes to it in between: `a` happens before `b` -/
theorem handoff_edge (tr : Trace) (a i j b : Nat) (h r : Ev) (hai : po tr a i) (hjb : po tr j b) (hij : i < j)
    (hi : tr[i]? = some h) (hj : tr[j]? = some r) (hw : h.wr = true) (hrel : h.ord.isRel = true)
    (hr : r.rd = true) (hacq : r.ord.isAcq = true) (hloc : h.loc = r.loc)
    (hrmw : ∀ m, i < m → m < j → ∀ e, tr[m]? = some e → e.loc = h.loc → e.wr = true → e.rd = true) : hb tr a b :=
  handoff tr a i j b hai hjb (rmw_only_sync tr i j h r hij hi hj hw hrel hr hacq hloc hrmw)

/-! ## the memory orders of the hand-off sites, read off the compiled library -/

def has (file func op order expr : String) : Bool :=
  Gen.sites.any fun s => s.file == file && s.func == func && s.op == op && s.order == order && s.expr == expr

/-- no plain atomic store to the field `field` anywhere in the library (read-modify-writes only) -/
def rmwOnly (field : String) : Bool :=
  Gen.sites.all fun s => !(s.op == "store" && s.loc == field)

/-- release side of the queue hand-off: every way of giving up a serial lane / barrier, and the MPSC tail exchange of every push -/
theorem queue_release_sites :
    has "inline_internal.h" "_dispatch_queue_drain_try_unlock" "cmpxchg" "release" "_p" = true ∧
    has "queue.c" "_dispatch_lane_class_barrier_complete" "cmpxchg" "release" "_p" = true ∧
    has "queue.c" "_dispatch_lane_barrier_sync_invoke_and_complete" "cmpxchg" "release" "_p" = true ∧
    has "queue.c" "_dispatch_lane_drain_barrier_waiter" "cmpxchg" "release" "_p" = true ∧
    has "queue.c" "_dispatch_lane_drain_non_barriers" "and" "release" "(&(dq)->dq_state)" = true ∧
    has "queue.c" "_dispatch_queue_invoke_finish" "cmpxchg" "release" "_p" = true ∧
    has "queue.c" "_dispatch_lane_push_waiter" "cmpxchg" "release" "_p" = true ∧
    has "inline_internal.h" "_dispatch_queue_push_item" "xchg" "release" "&(dqu._dl)->dq_items_tail" = true ∧
    has "queue.c" "_dispatch_lane_push" "xchg" "release" "&(dq)->dq_items_tail" = true ∧
    has "inline_internal.h" "_dispatch_root_queue_push_inline" "xchg" "release" "&(dq)->dq_items_tail" = true := by
  set_option maxRecDepth 100000 in decide

/-- acquire side of the queue hand-off: every way of taking a lane, and the dependency-ordered head / next loads of the drain -/
theorem queue_acquire_sites :
    has "inline_internal.h" "_dispatch_queue_drain_try_lock" "cmpxchg" "acquire" "_p" = true ∧
    has "inline_internal.h" "_dispatch_queue_try_acquire_barrier_sync_and_suspend" "cmpxchg" "acquire" "_p" = true ∧
    has "inline_internal.h" "_dispatch_queue_try_acquire_async" "cmpxchg" "acquire" "_p" = true ∧
    has "inline_internal.h" "_dispatch_queue_try_upgrade_full_width" "cmpxchg" "acquire" "_p" = true ∧
    has "inline_internal.h" "_dispatch_queue_get_head" "load" "dependency" "__n" = true ∧
    has "inline_internal.h" "_dispatch_queue_pop_head" "load" "dependency" "&(_head)->do_next" = true := by
  set_option maxRecDepth 100000 in decide

/-- the thread event: signal is a release increment, both ways out of the wait are acquire reads -/
theorem event_sites :
    has "lock.h" "_dispatch_thread_event_signal" "add" "release" "((&dte->dte_value))" = true ∧
    has "lock.h" "_dispatch_thread_event_wait" "sub" "acquire" "((&dte->dte_value))" = true ∧
    has "lock.c" "_dispatch_thread_event_wait_slow" "load" "acquire" "&dte->dte_value" = true := by decide

/-- groups, semaphores, once -/
theorem group_sema_once_sites :
    has "semaphore.c" "dispatch_group_leave" "add" "release" "(&(dg)->dg_state)" = true ∧
    has "semaphore.c" "dispatch_group_wait" "fence" "acquire" "fence" = true ∧
    has "semaphore.c" "_dispatch_group_wait_slow" "load" "acquire" "&(dg)->dg_gen" = true ∧
    has "semaphore.c" "_dispatch_group_notify" "xchg" "release" "&(dg)->dg_notify_tail" = true ∧
    has "semaphore.c" "dispatch_semaphore_signal" "add" "release" "(&(dsema)->dsema_value)" = true ∧
    has "semaphore.c" "dispatch_semaphore_wait" "sub" "acquire" "(&(dsema)->dsema_value)" = true ∧
    has "lock.h" "_dispatch_once_mark_done" "xchg" "release" "&dgo->dgo_once" = true := by
  set_option maxRecDepth 100000 in decide

/-- "... or after dispatch_once returns": a caller that did not run the initialiser itself leaves through `_dispatch_once_wait`, whose
    DONE exit is followed by an acquire fence (F48: that exit was a relaxed load with no fence; a caller that found the gate taken
    and then found it DONE had no edge from the initialiser's release). The other way out, the fast path, is inline in the public
    header on this architecture (a plain load, sufficient under x86-64's ordering; other architectures compile the acquire load at
    the top of `dispatch_once_f` instead). -/
theorem once_return_sites :
    has "lock.c" "_dispatch_once_wait" "fence" "acquire" "fence" = true := by
  set_option maxRecDepth 100000 in decide

/-- the hand-off locations are only ever modified by read-modify-writes (no atomic store in the library names them), which is
    what keeps every release sequence on them intact (`rmw_only_sync`) -/
theorem handoff_locations_rmw_only :
    rmwOnly "dq_state" = true ∧ rmwOnly "dte_value" = true ∧ rmwOnly "dg_state" = true ∧ rmwOnly "dsema_value" = true ∧
    rmwOnly "dgo_once" = true ∧ rmwOnly "dq_items_tail" = true := by
  set_option maxRecDepth 100000 in decide

end C05
