import DispatchVerif.Core.LaneRResp
import DispatchVerif.Core.LaneFFifoMain
import DispatchVerif.Core.LaneWMain
import DispatchVerif.Core.HierP
import DispatchVerif.Core.RootP
import DispatchVerif.Core.DqW
/-! # C01 — every submitted work item runs exactly once and none is stranded

Models of the lane protocol of `src/queue.c` / `src/inline_internal.h` at the granularity of the atomic operations on
`dq_state` and the MPSC item list, for **any number of threads and any client program** (an idle thread may begin any
operation at any time): `LaneR` (serial lane: async push with the two-phase MPSC link, barrier sync fast and slow
paths, lock transfer to a waiter, drainer with the DIRTY re-check on unlock, override wakeups), `LaneF` (the same
with submission-order ghosts), `LaneW` (any width; readers, barriers, redirecting drain, apply width), `HierP`
(target-queue hierarchies of serial lanes). Every `dq_state` transition the real library performs under the check's
multi-threaded workloads is replayed through `LaneW.step` (and through `LaneR.step` / `LaneF.step` for serial queues).

Liveness is stated as safety ("no stranded work at quiescence"); that an enabled thread eventually runs (fairness)
and that the root queue services its tokens (the thread pool, see `RootP`) are the assumed part. -/
namespace C01

/-- **no lost wakeup (serial lane)**: in every reachable state in which every thread is at rest (a client between
    operations, a parked worker, a sleeping sync waiter), no signal or lock transfer is pending and the root queue
    holds no wakeup token of the lane, the lane holds no item: nothing that was submitted is left behind -/
theorem no_stranded_work_serial {s : LaneR.St} (h : LaneR.Reachable s)
    (hrest : ∀ t, LaneR.atRest (s.pcs t) = true) (hsig : s.sh.signalled = []) (hx : s.sh.xfer = none)
    (htok : s.sh.tokens = 0) : s.sh.items = [] :=
  LaneR.quiescent_empty h hrest hsig hx htok

/-- … and the lane is unlocked and idle then (so no synchronous caller is parked behind a lock nobody holds) -/
theorem quiescent_unlocked {s : LaneR.St} (h : LaneR.Reachable s)
    (hrest : ∀ t, LaneR.atRest (s.pcs t) = true) (hsig : s.sh.signalled = []) (hx : s.sh.xfer = none) :
    s.sh.dq.O = none ∧ s.sh.dq.B = false ∧ s.sh.dq.F = false :=
  LaneR.quiescent_unlocked h hrest hsig hx

/-- **exactly once, in order (serial lane)**: the sequence of pushed items is the sequence of started items, then
    at most the one in the drainer's hand, then those still queued — no pushed item is skipped or started twice -/
theorem pushed_items_start_once_in_order {s : LaneF.St} (h : LaneF.Reachable s) :
    s.sh.pushed = s.sh.startedP ++ s.sh.pend ++ s.sh.items.map (·.id) :=
  LaneF.serial_fifo h

/-- any width: the width word accounts exactly for the units held by threads, redirected items in flight and the
    pending-barrier reservation (no unit is leaked or double counted, so width never wedges the lane) -/
theorem width_accounting {W : Nat} (hW : 1 ≤ W) {s : LaneW.St} (h : LaneW.Reachable W s) :
    s.sh.dq.u = (if s.sh.dq.B then (W : Int) else 0) + s.sh.holders.length + s.sh.redirects
          + (if s.sh.dq.pb then (W : Int) - 1 else 0) :=
  LaneW.width_accounting hW h

/-- chained targets: every lane of a reachable hierarchy state is a reachable single-lane state, so all single-lane
    theorems (the ones above included) hold for every member of any hierarchy of any depth -/
theorem hierarchy_projects {target : HierP.QId → Option HierP.QId} {s : HierP.HSt}
    (h : HierP.HReachable target s) (q : HierP.QId) : LaneR.Reachable (HierP.proj s q) :=
  HierP.proj_reachable target h q

/-- **thread pool bookkeeping**: `dgq_pending` is exactly the worker threads requested and not yet running plus what the
    requests in flight have reserved, for any number of concurrently poking threads -/
theorem pool_pending_accounted {pool0 : Int} {oc : Bool} {s : RootP.St} (h : RootP.Reachable pool0 oc s) :
    s.sh.pending = s.sh.starting + s.sh.booting.length + RootP.sumRes s.sh.reserved :=
  RootP.pending_accounted h

/-- … hence a thread request is never refused for good: with no request in flight and no requested thread still
    starting, `dgq_pending = 0`, and the next poke (from a push, from `drain_one`, from an exiting worker, or the
    monitor's poke that lets the pool grow when every thread is blocked) passes the "request still pending" test -/
theorem pool_no_phantom_pending {pool0 : Int} {oc : Bool} {s : RootP.St} (h : RootP.Reachable pool0 oc s)
    (hq : ∀ t, RootP.holdsRes (s.pcs t) = none) (hs : s.sh.starting = 0) (hb : ∀ t, s.pcs t ≠ .wStart) :
    s.sh.pending = 0 :=
  RootP.no_phantom_pending h hq hs hb

/-- non-vacuity: the initial state is reachable and satisfies the quiescence hypotheses -/
example : ∃ s, LaneR.Reachable s ∧ (∀ t, LaneR.atRest (s.pcs t) = true) ∧ s.sh.tokens = 0 :=
  ⟨_, LaneR.Reachable.init, fun _ => rfl, rfl⟩

/-! ## the word-level rules behind "a drainer may only release the lock if DIRTY is clear" (`DqW`, over the generated constants;
    each function is compared with the compiled one on generated words on every run) -/

/-- a drainer cannot release the drain lock while DIRTY is set (unless the queue is suspended): the unlock is refused, only DIRTY
    is cleared, and the caller looks at the list again -/
theorem unlock_refused_when_dirty (old owned : Nat) (done : Bool) (hs : DqW.suspended old = false) (hd : DqW.dirty old = true) :
    DqW.drainTryUnlock old owned done = (false, old ^^^ Gen.DISPATCH_QUEUE_DIRTY) :=
  DqW.unlock_refused_when_dirty old owned done hs hd

/-- a drainer that leaves without being done (out of width, a barrier it cannot run yet) leaves DIRTY behind, so that whoever
    gives width back re-drives the queue -/
theorem unlock_not_done_leaves_dirty (old owned : Nat) (hs : DqW.suspended old = false) (hd : DqW.dirty old = false) :
    (DqW.drainTryUnlock old owned false).1 = true ∧ DqW.dirty (DqW.drainTryUnlock old owned false).2 = true :=
  DqW.unlock_not_done_leaves_dirty old owned hs hd

/-- the drain lock is only taken from a runnable, unlocked word -/
theorem try_lock_only_when_free (old width tid : Nat) (h : (DqW.drainTryLock old width tid).1 ≠ 0) :
    old &&& DqW.lockFailMask = 0 := DqW.try_lock_only_when_free old width tid h

/-- the synchronous barrier fast path is only taken from the idle word -/
theorem barrier_sync_only_from_idle (old width tid : Nat) (h : (DqW.tryAcquireBarrierSync old width tid).1 = true) :
    old = (DqW.initValue width ||| (old &&& Gen.DISPATCH_QUEUE_ROLE_MASK)) := DqW.barrier_sync_only_from_idle old width tid h

/-- width is never handed out past a DIRTY or PENDING_BARRIER word, nor when the lane is full -/
theorem width_refused_when_dirty_or_pending (old : Nat) :
    ((DqW.tryAcquireAsync old).1 = true → DqW.runnable old = true ∧ DqW.dirty old = false ∧ DqW.pendingBarrier old = false) ∧
    (∀ tail, (DqW.tryReserveSyncWidth old tail).1 = true →
      tail = false ∧ DqW.syncRunnable old = true ∧ DqW.dirty old = false ∧ DqW.pendingBarrier old = false) :=
  ⟨DqW.async_width_refused old, fun tail => DqW.sync_width_refused old tail⟩

end C01
