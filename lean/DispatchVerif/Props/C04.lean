import DispatchVerif.Core.LaneWMain
import DispatchVerif.Core.LaneWOrd
import DispatchVerif.Core.WidthCarry
/-! # C04 — barriers on concurrent queues exclude and order like a writer lock

`LaneW`: a lane of any width `W ≥ 1` — async push with the `try_acquire_async` fast path, reader and barrier sync fast
and slow paths, lock transfer to waiters, `barrier_complete`, `drain_non_barriers` with the pending-barrier
reservation, `non_barrier_complete(+try_lock)`, the redirecting drainer with `try_upgrade_full_width`,
`drain_try_unlock` with the DIRTY re-check, and the width reservation of `dispatch_apply` — for any number of threads.
The two ordering clauses are stated for the order in which items reach the queue's list (the tail exchange inside the
submitting call): items leave the list in the order they entered it, for every width (`fifo_every_width`); a thread owns the
lane in barrier mode only while no reader popped before is unfinished (`barrier_after_earlier_readers`); nothing else starts
while a barrier item runs (`nothing_starts_during_barrier`). Items started by a fast path never enter the list; that a
synchronous fast path can overtake a queued item is finding F15 (C02.F15_sync_fast_path_overtakes). -/
namespace C04
open LaneW

/-- **a barrier item never overlaps any other item of the queue** (including items that hold width reserved for a
    nested dispatch_apply) -/
theorem barrier_exclusion {W : Nat} (hW : 1 ≤ W) {s : St} (h : Reachable W s) (t t' : Tid)
    (hb : isRunningB (s.pcs t) = true)
    (hb' : isRunningB (s.pcs t') = true ∨ isRunningN (s.pcs t') = true) : t = t' :=
  barrier_exclusion_gen hW h t t' hb hb'

/-- lock transfer never duplicates ownership -/
theorem barrier_owner_unique {W : Nat} (hW : 1 ≤ W) {s : St} (h : Reachable W s) (t t' : Tid)
    (ht : holdsB (s.pcs t) = true) (ht' : holdsB (s.pcs t') = true) : t = t' :=
  LaneW.barrier_owner_unique hW h t t' ht ht'

/-- the width word is exact in every reachable state -/
theorem width_accounting {W : Nat} (hW : 1 ≤ W) {s : St} (h : Reachable W s) :
    s.sh.dq.u = (if s.sh.dq.B then (W : Int) else 0) + s.sh.holders.length + s.sh.redirects
          + (if s.sh.dq.pb then (W : Int) - 1 else 0) :=
  LaneW.width_accounting hW h

/-- a running non-barrier item implies the lane is not in barrier mode and is accounted in the width word -/
theorem nonbarrier_running_accounted {W : Nat} (hW : 1 ≤ W) {s : St} (h : Reachable W s) (t : Tid)
    (i : ItemId) (a : After) (hb : a.isBar = false) (ht : s.pcs t = .running i a) :
    s.sh.dq.B = false ∧ 1 ≤ s.sh.dq.u :=
  LaneW.nonbarrier_running_accounted hW h t i a hb ht

/-- **items leave the queue in the order they entered it, whatever the width**: along every execution, the ids pushed so far
    are the ids popped so far followed by the ids still queued -/
theorem fifo_every_width {W : Nat} {s : St} {A P : List ItemId} (h : ReachH W s A P) : A = P ++ ids s.sh.items :=
  pushed_eq_popped_queued h

/-- **a barrier starts only after the readers popped before it have finished**: while a thread owns the lane in barrier mode
    - from before it pops the barrier item until after the item has finished - no reader is redirected and not yet picked
    up, none is signalled and not yet running, none holds a width unit -/
theorem barrier_after_earlier_readers {W : Nat} (hW : 1 ≤ W) {s : St} (h : Reachable W s) (t : Tid)
    (hb : holdsB (s.pcs t) = true) :
    s.sh.holders = [] ∧ s.sh.redirects = 0 ∧ s.sh.sigN = [] ∧ ∀ t', unitsOf (s.pcs t') = 0 :=
  barrier_owner_alone hW h t hb

/-- **items behind a barrier do not start until it has finished**: while a barrier item runs no other thread is about to
    start, or inside, any item of the lane (and the list is popped only by the lock holder) -/
theorem nothing_starts_during_barrier {W : Nat} (hW : 1 ≤ W) {s : St} (h : Reachable W s) (t t' : Tid)
    (hb : isRunningB (s.pcs t) = true) (hi : isItemPc (s.pcs t') = true) : t = t' :=
  nothing_starts_while_barrier_runs hW h t t' hb hi

/-! ## the reader count is a bounded field (F44, known finding)

The models above count readers in a natural number (`LaneW`: width and running readers); the real count shares `dq_state` with the
IN_BARRIER bit right above it. -/

/-- as long as fewer than `2 * WIDTH_FULL` intervals are in the field the reader count stays below IN_BARRIER - the condition under
    which the natural-number models describe the word -/
theorem reader_count_below_barrier (w n : Nat) (hw : w ≤ Gen.DISPATCH_QUEUE_WIDTH_FULL)
    (hn : Gen.DISPATCH_QUEUE_WIDTH_FULL - w + n < 2 * Gen.DISPATCH_QUEUE_WIDTH_FULL) :
    WidthCarry.word w n < Gen.DISPATCH_QUEUE_IN_BARRIER := WidthCarry.readers_below_barrier w n hw hn

/-- **F44 (known finding)**: on the widest queue the 8190th simultaneous `dispatch_sync` reader (they are not limited by the width)
    turns the word into exactly the IN_BARRIER bit; every smaller count stays below it -/
theorem F44_reader_count_carries :
    WidthCarry.word 4094 8190 = Gen.DISPATCH_QUEUE_IN_BARRIER ∧ WidthCarry.word 4094 8189 < Gen.DISPATCH_QUEUE_IN_BARRIER ∧
    (∀ n, n < 8190 → WidthCarry.word 4094 n < Gen.DISPATCH_QUEUE_IN_BARRIER) := WidthCarry.F44_reader_count_carries

end C04
