import DispatchVerif.Core.LaneWMain
/-! # C04 — barriers on concurrent queues exclude and order like a writer lock

`LaneW`: a lane of any width `W ≥ 1` — async push with the `try_acquire_async` fast path, reader and barrier sync fast
and slow paths, lock transfer to waiters, `barrier_complete`, `drain_non_barriers` with the pending-barrier
reservation, `non_barrier_complete(+try_lock)`, the redirecting drainer with `try_upgrade_full_width`,
`drain_try_unlock` with the DIRTY re-check, and the width reservation of `dispatch_apply` — for any number of threads.
*Partial*: the two ordering clauses (items submitted before / after a barrier) are observed by the oracle on the real
library; the theorems are exclusion and exact width accounting. -/
namespace C04
open LaneW

/-- **a barrier item never overlaps any other item of the queue** (including items that hold width reserved for a
    nested dispatch_apply) -/
theorem barrier_exclusion {W : Nat} (hW : 1 ≤ W) {s : St} (h : Reachable W s) (t t' : Tid)
    (hb : isRunningB (s.pcs t) = true)
    (hb' : isRunningB (s.pcs t') = true ∨ isRunningN (s.pcs t') = true) : t = t' :=
  barrier_exclusion_gen hW h t t' hb hb'

/-- lock transfer never duplicates ownership -/
theorem barrier_owner_unique {W : Nat} (hW : 1 ≤ W) {s : St} (h : Reachable W s) (t t' : Tid)
    (ht : holdsB (s.pcs t) = true) (ht' : holdsB (s.pcs t') = true) : t = t' :=
  LaneW.barrier_owner_unique hW h t t' ht ht'

/-- the width word is exact in every reachable state -/
theorem width_accounting {W : Nat} (hW : 1 ≤ W) {s : St} (h : Reachable W s) :
    s.sh.dq.u = (if s.sh.dq.B then (W : Int) else 0) + s.sh.holders.length + s.sh.redirects
          + (if s.sh.dq.pb then (W : Int) - 1 else 0) :=
  LaneW.width_accounting hW h

/-- a running non-barrier item implies the lane is not in barrier mode and is accounted in the width word -/
theorem nonbarrier_running_accounted {W : Nat} (hW : 1 ≤ W) {s : St} (h : Reachable W s) (t : Tid)
    (i : ItemId) (a : After) (hb : a.isBar = false) (ht : s.pcs t = .running i a) :
    s.sh.dq.B = false ∧ 1 ≤ s.sh.dq.u :=
  LaneW.nonbarrier_running_accounted hW h t i a hb ht

end C04
