import DispatchVerif.Core.RefP
/-! # C17 — objects live while referenced or busy and are finalised exactly once

`RefP`: the two-level reference count of a dispatch object — `os_obj_xref_cnt` for the application, `os_obj_ref_cnt` internal,
both biased by −1 — with any number of threads retaining and releasing (only through references they hold), enqueuing (each
enqueue takes +2 before the item can be dequeued; the end of the drain that pops it consumes them), taking and dropping +1
internal references on behalf of other objects (a queue that targets this one, an armed registration), the external dispose
(the last application release drops the one internal reference that stands for "the application holds it") and the dispose
path. -/
namespace C17

/-- **never freed while referenced or busy**: once the object is being disposed or has been freed, no application reference,
    no queued item / wakeup, no running drain and no reference from another object exists — in every reachable state -/
theorem no_free_while_in_use {s : RefP.St} (h : RefP.Reachable s) (hd : s.sh.disposers ≠ [] ∨ s.sh.freed = true) :
    s.sh.xholders = [] ∧ s.sh.tokens = 0 ∧ s.sh.drainers = [] ∧ s.sh.inner = 0 :=
  RefP.no_free_while_in_use h hd

/-- the same from the user's side: while the application holds a reference, or work is pending or running, or another object
    targets it, the object is neither freed nor in its dispose path — using it through a held reference is safe -/
theorem alive_while_referenced {s : RefP.St} (h : RefP.Reachable s)
    (hu : s.sh.xholders ≠ [] ∨ s.sh.tokens > 0 ∨ s.sh.drainers ≠ [] ∨ s.sh.xdl ≠ [] ∨ s.sh.inner > 0) :
    s.sh.disposers = [] ∧ s.sh.freed = false :=
  RefP.alive_of (RefP.inv_reachable h).g hu

/-- **finalised exactly once**: the dispose path (which posts the finalizer to the target queue and releases the memory) runs
    at most once, and has run exactly once when the object is freed -/
theorem finalized_once {s : RefP.St} (h : RefP.Reachable s) :
    s.sh.finalized ≤ 1 ∧ (s.sh.freed = true → s.sh.disposers = [] → s.sh.finalized = 1) :=
  RefP.finalized_once h

/-- the counts are exact: the external word counts the application's references, the internal word counts 1 for "the
    application holds it", 2 per queued or running item and 1 per reference from another object -/
theorem counts_exact {s : RefP.St} (h : RefP.Reachable s) :
    s.sh.xref + 1 = s.sh.xholders.length ∧
    s.sh.iref + 1 = RefP.b2i s.sh.xalive + 2 * (s.sh.tokens + s.sh.drainers.length) + s.sh.inner :=
  ⟨(RefP.inv_reachable h).g.x, (RefP.inv_reachable h).g.i⟩

/-- non-vacuity: a run in which the application's last release races a queued item — the item's +2 keeps the object alive, the
    end of the drain disposes it, exactly once -/
example : ∃ s, RefP.Reachable s ∧ s.sh.freed = true ∧ s.sh.finalized = 1 := by
  let mk (sh : RefP.Sh) (pc : RefP.Pc) : RefP.St := ⟨sh, fun t => if t = 0 then pc else .idle⟩
  have step : ∀ (sh : RefP.Sh) (pc : RefP.Pc) (op : RefP.Op) (sh' : RefP.Sh) (pc' : RefP.Pc),
      RefP.Reachable (mk sh pc) → (sh', pc') ∈ RefP.step sh 0 pc op → RefP.Reachable (mk sh' pc') := by
    intro sh pc op sh' pc' hr hm
    have : mk sh' pc' = ⟨sh', fun t => if t = 0 then pc' else (mk sh pc).pcs t⟩ := by
      simp only [mk]; congr 1; funext t; by_cases e : t = 0 <;> simp [e]
    rw [this]
    exact .step hr (RefP.Step.mk (mk sh pc) 0 op sh' pc' (by simpa [mk] using hm))
  have h0 : RefP.Reachable (mk {} .idle) := by
    have : mk {} .idle = ⟨{}, fun _ => .idle⟩ := by simp only [mk]; congr 1; funext t; by_cases e : t = 0 <;> simp [e]
    rw [this]; exact .init
  have h1 := step _ _ .enqueue { iref := 2, tokens := 1 } .idle h0 (by simp [RefP.step])
  have h2 := step _ _ .release { iref := 2, tokens := 1, xref := -1, xholders := [], xdl := [0] } .xdispose h1 (by simp [RefP.step, RefP.rm1])
  have h3 := step _ _ .work { iref := 1, tokens := 1, xref := -1, xholders := [], xalive := false } .idle h2 (by simp [RefP.step, RefP.rm1])
  have h4 := step _ _ .work { iref := 1, tokens := 0, xref := -1, xholders := [], xalive := false, drainers := [0] } .draining h3 (by simp [RefP.step])
  have h5 := step _ _ .work { iref := -1, tokens := 0, xref := -1, xholders := [], xalive := false, disposers := [0] } .dispose h4 (by simp [RefP.step, RefP.rm1])
  have h6 := step _ _ .work { iref := -1, tokens := 0, xref := -1, xholders := [], xalive := false, freed := true, finalized := 1 } .idle h5 (by simp [RefP.step, RefP.rm1])
  exact ⟨_, h6, rfl, rfl⟩

end C17
