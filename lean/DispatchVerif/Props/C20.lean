import DispatchVerif.Core.Base64P
import DispatchVerif.Core.Base32P
import DispatchVerif.Core.Base32HexP
import DispatchVerif.Core.Utf8F
import DispatchVerif.Core.Utf16P
import DispatchVerif.Core.Utf16F
import DispatchVerif.Core.Utf16E
import DispatchVerif.Core.Utf8E
import DispatchVerif.Core.Utf8Acc
import DispatchVerif.Core.Utf16Acc
/-! # C20 — data transforms round-trip and never read outside their input

Property theorems only. Models: `B64` / `B32` / `B32H` (encoder and decoder loops of `src/transform.c` with the
carried `x`, `count`, `pad`, over the tables checked against the generated ones in `Tie/Tables`), `Utf8P`
(code-shaped UTF-8 → UTF-16 loop over regions, with the explicit out-of-bounds outcome), its position-shaped
twin `toUtf16F` (same loop over absolute positions; the driver checks the two agree on every generated input),
`Utf16P` (code-shaped UTF-16 → UTF-8 loop). All of them model the code *after* the `fix:` commits for
F3–F7, F10–F13; the correspondence run compares them byte for byte with `dispatch_data_create_with_transform`. -/
namespace C20

/-! ## Base64 / Base32 / Base32Hex: decode ∘ encode = id, for every byte string -/

theorem b64_roundtrip (bs : List Nat) (h : ∀ b ∈ bs, b < 256) : B64.decode (B64.encode bs) = some bs :=
  B64.b64_roundtrip bs h

theorem b32_roundtrip (bs : List Nat) (h : ∀ b ∈ bs, b < 256) : B32.decode (B32.encode bs) = some bs :=
  B32.b32_roundtrip bs h

theorem b32hex_roundtrip (bs : List Nat) (h : ∀ b ∈ bs, b < 256) : B32H.decode (B32H.encode bs) = some bs :=
  B32H.b32_roundtrip bs h

/-! ## … independent of how the text is fragmented into regions (cuts inside a group or the padding included) -/

theorem b64_fragmentation_independent (rs : List (List Nat)) :
    (B64.decRegions rs {}).map (·.out) = B64.decode rs.flatten := by
  rw [B64.decRegions_flatten]; rfl

theorem b32_fragmentation_independent (rs : List (List Nat)) :
    (B32.decRegions rs {}).map (·.out) = B32.decode rs.flatten := by
  rw [B32.decRegions_flatten]; rfl

theorem b32hex_fragmentation_independent (rs : List (List Nat)) :
    (B32H.decRegions rs {}).map (·.out) = B32H.decode rs.flatten := by
  rw [B32H.decRegions_flatten]; rfl

/-- the decoders' writes stay inside the buffer allocated per region (`howmany(size, 4) * 3`, resp.
    `howmany(size, 8) * 5`), whatever number of characters (< group size) is pending from earlier regions -/
theorem decoder_writes_in_bounds (size : Nat) :
    (∀ carry, carry ≤ 3 → 3 * ((carry + size) / 4) ≤ (size + 3) / 4 * 3) ∧
    (∀ carry, carry ≤ 7 → 5 * ((carry + size) / 8) ≤ (size + 7) / 8 * 5) :=
  ⟨fun c h => B64.dec_region_bound size c h, fun c h => B32.dec_region_bound size c h⟩

/-! ## UTF-8 → UTF-16 -/

/-- **every way of cutting the object into non-empty regions gives the result of the single-region object** —
    for arbitrary bytes, including cuts inside a multi-byte sequence or the byte-order mark -/
theorem utf8_to_utf16_fragmentation_independent (flat : List Nat) (lens : List Nat) (hne : lens ≠ [])
    (hp : ∀ n ∈ lens, 0 < n) (hsum : lens.sum = flat.length) :
    Utf8P.toUtf16F flat lens = Utf8P.toUtf16F flat [flat.length] :=
  Utf8P.frag_independent flat lens hne hp hsum

/-- **the loop never reads outside the object**, whatever the bytes are -/
theorem utf8_to_utf16_never_reads_outside (flat : List Nat) (e : Nat) (he : e ≤ flat.length) (f pos : Nat) (out : List Nat) :
    Utf8P.runTo flat e f pos out ≠ .oob :=
  Utf8P.runTo_no_oob flat e he f pos out

/-- the UTF-8 → UTF-16 loop as written in the source (per-region pointer, `size`, `i`, mapped look-ahead) computes what the
    position-shaped loop computes -/
theorem utf8_to_utf16_source_loop_agrees (rs : List (List Nat)) :
    Utf8P.toUtf16 rs = Utf8P.toUtf16F rs.flatten (rs.map List.length) := Utf8P.toUtf16_eq rs

/-- … so it never reads outside the mapped bytes, for arbitrary bytes and fragmentation -/
theorem utf8_to_utf16_source_loop_never_reads_outside (rs : List (List Nat)) : Utf8P.toUtf16 rs ≠ .oob :=
  Utf8P.toUtf16_never_oob rs

/-- … and its result does not depend on the fragmentation -/
theorem utf8_to_utf16_source_loop_fragmentation_independent (rs : List (List Nat)) (hne : rs ≠ []) (hp : ∀ r ∈ rs, r ≠ []) :
    Utf8P.toUtf16 rs = Utf8P.toUtf16 [rs.flatten] := Utf8P.toUtf16_fragmentation_independent rs hne hp

/-- **UTF-16 → UTF-8: every way of cutting the object into non-empty regions gives the result of the single-region object** —
    for arbitrary bytes and either byte order, including cuts inside a code unit, between the halves of a surrogate pair
    and inside the byte-order mark -/
theorem utf16_to_utf8_fragmentation_independent (be : Bool) (flat : List Nat) (lens : List Nat) (hne : lens ≠ [])
    (hp : ∀ n ∈ lens, 0 < n) (hsum : lens.sum = flat.length) :
    Utf16F.fromUtf16F be flat lens = Utf16F.fromUtf16F be flat [flat.length] :=
  Utf16F.frag_independent be flat lens hne hp hsum

/-- **the UTF-16 → UTF-8 loop as written in the source** (its own `i`, `size`, `max`, `skip`, `src`) computes what the
    position-shaped loop computes and never takes the out-of-bounds outcome, for every list of regions -/
theorem utf16_to_utf8_source_loop_agrees (be : Bool) (rs : List (List Nat)) :
    Utf16E.conv (Utf16P.fromUtf16 be rs) = some (Utf16F.fromUtf16F be rs.flatten (rs.map List.length)) :=
  Utf16E.fromUtf16_eq be rs

theorem utf16_to_utf8_never_reads_outside (be : Bool) (rs : List (List Nat)) (w : Nat) : Utf16P.fromUtf16 be rs ≠ .oob w :=
  Utf16E.fromUtf16_never_oob be rs w

/-- … hence fragmentation independence holds for the loop as written -/
theorem utf16_to_utf8_source_loop_fragmentation_independent (be : Bool) (rs : List (List Nat)) (hne : rs ≠ [])
    (hp : ∀ r ∈ rs, r ≠ []) : Utf16E.conv (Utf16P.fromUtf16 be rs) = Utf16E.conv (Utf16P.fromUtf16 be [rs.flatten]) :=
  Utf16E.fromUtf16_fragmentation_independent be rs hne hp

/-- encoded surrogates (U+D800 … U+DFFF, the F7 point included) are rejected -/
theorem surrogates_rejected (c : Nat) (h : 0xd800 ≤ c ∧ c ≤ 0xdfff) (b : Bool) : Utf8P.emit c b = none :=
  Utf8P.surrogate_rejected c h b

/-! ## UTF-8 → UTF-16 → UTF-8 -/

/-- **round trip of any well-formed text** (one region): the UTF-8 → UTF-16LE model yields BOM + UTF-16, the UTF-16LE → UTF-8
    model (as repaired: F19) followed by the `encode` hook of the UTF-8 format gives the original bytes back apart from ONE
    leading byte-order mark - a U+FEFF character that follows the mark is kept.
    Fragmentation is covered by `utf8_utf16_roundtrip_any_fragmentation` below. -/
theorem utf8_utf16_roundtrip_single_region (cs : List Nat) (hs : ∀ c ∈ cs, Utf8P.scalar c) (hne : cs ≠ []) :
    ∃ us out, Utf8P.toUtf16 [cs.flatMap Utf8P.enc] = .ok us 0 ∧
      Utf16P.fromUtf16 false [Utf16P.bytesLE us] = .ok out 0 0 ∧
      Utf16P.withoutBom out = (Utf8P.dropBom cs).flatMap Utf8P.enc :=
  Utf16P.utf8_utf16_roundtrip_single cs hs hne

/-- **round trip under any fragmentation**: however the resulting UTF-16 is cut into non-empty regions (the loop as written
    in the source), the original bytes come back, apart from one leading byte-order mark -/
theorem utf8_utf16_roundtrip_any_fragmentation (cs : List Nat) (hs : ∀ c ∈ cs, Utf8P.scalar c) (hne : cs ≠ [])
    (rs : List (List Nat)) (hrs : rs ≠ []) (hp : ∀ r ∈ rs, r ≠ []) :
    ∃ us out, Utf8P.toUtf16 [cs.flatMap Utf8P.enc] = .ok us 0 ∧
      Utf16P.withoutBom out = (Utf8P.dropBom cs).flatMap Utf8P.enc ∧
      (rs.flatten = Utf16P.bytesLE us → Utf16E.conv (Utf16P.fromUtf16 false rs) = some (.ok out 0)) := by
  obtain ⟨us, out, h1, h2, h3⟩ := Utf16P.utf8_utf16_roundtrip_single cs hs hne
  refine ⟨us, out, h1, h3, fun hf => ?_⟩
  rw [Utf16E.fromUtf16_fragmentation_independent false rs hrs hp, hf, h2]
  rfl

/-- F19 as found: the converter dropped the byte-order mark and the `encode` hook of the UTF-8 format dropped a leading mark
    again - applied to BOM, U+FEFF, 'A' the two strips leave 'A' alone -/
theorem F19_double_strip : Utf16P.withoutBom (Utf16P.withoutBom [0xef, 0xbb, 0xbf, 0xef, 0xbb, 0xbf, 0x41]) = [0x41] := by decide

/-- F19 repaired, on the same text: the mark goes, the character stays -/
theorem F19_fixed : ∃ out, Utf16P.fromUtf16 false [[0xff, 0xfe, 0xff, 0xfe, 0x41, 0x00]] = .ok out 0 0 ∧
    Utf16P.withoutBom out = [0xef, 0xbb, 0xbf, 0x41] := ⟨[0xef, 0xbb, 0xbf, 0xef, 0xbb, 0xbf, 0x41], by decide, by decide⟩

/-! ## a transform fails or returns data the inverse transform accepts — for ARBITRARY input -/

/-- whatever UTF-8 → UTF-16 returns for arbitrary bytes and any fragmentation is BOM + the UTF-16 of scalar values -/
theorem utf8_to_utf16_output_wellformed (flat : List Nat) (lens : List Nat) (hne : lens ≠ []) {us : List Nat} {s : Nat}
    (h : Utf8P.toUtf16F flat lens = .ok us s) : ∃ cs : List Nat, (∀ c ∈ cs, Utf8P.scalar c) ∧ us = 0xfeff :: cs.flatMap Utf8P.enc16 :=
  Utf8P.toUtf16F_output_wf flat lens hne h

/-- … and the inverse transform (the loop as written in the source) accepts it -/
theorem utf8_to_utf16_output_accepted (flat : List Nat) (lens : List Nat) (hne : lens ≠ []) {us : List Nat} {s : Nat}
    (h : Utf8P.toUtf16F flat lens = .ok us s) : ∃ out, Utf16P.fromUtf16 false [Utf16P.bytesLE us] = .ok out 0 0 :=
  Utf16P.utf8_to_utf16_output_accepted flat lens hne h

/-- whatever UTF-16 → UTF-8 returns for arbitrary bytes, either byte order and any fragmentation is the UTF-8 of scalar values -/
theorem utf16_to_utf8_output_wellformed (be : Bool) (flat : List Nat) (hb : ∀ x ∈ flat, x < 256) (lens : List Nat)
    {out : List Nat} {s : Nat} (h : Utf16F.fromUtf16F be flat lens = .ok out s) :
    ∃ cs : List Nat, (∀ c ∈ cs, Utf8P.scalar c) ∧ out = cs.flatMap Utf8P.enc :=
  Utf16F.fromUtf16F_output_wf be flat hb lens h

/-- … and the inverse transform accepts it -/
theorem utf16_to_utf8_output_accepted (be : Bool) (flat : List Nat) (hb : ∀ x ∈ flat, x < 256) (lens : List Nat)
    {out : List Nat} {s : Nat} (h : Utf16F.fromUtf16F be flat lens = .ok out s) :
    ∃ us s', Utf8P.toUtf16F out [out.length] = .ok us s' :=
  Utf16F.utf16_to_utf8_output_accepted be flat hb lens h

/-! ## the repaired defects, as facts about the models of the repaired code -/

theorem defects_fixed :
    -- F4: padding belongs to its group, also across regions
    B64.decode [61, 61, 61, 61] = some [] ∧
    (B64.decRegions [[90, 109, 56, 61], [10]] {}).map (·.out) = some [102, 111] ∧
    B32.decode [0x34, 0x51, 0x3d] = some [] ∧
    -- F7
    Utf8P.toUtf16 [[0xed, 0xbf, 0xbf]] = .fail ∧
    -- F11, F12
    Utf8P.toUtf16 [[0x61, 0xe2], [0x82, 0xac, 0xc3], [0xa9]] = Utf8P.toUtf16 [[0x61, 0xe2, 0x82, 0xac, 0xc3, 0xa9]] ∧
    Utf8P.toUtf16 [[0x7e], [0xef, 0xbb], [0xbf]] = .ok [0xfeff, 0x7e, 0xfeff] 0 ∧
    -- F5, F13
    Utf16P.fromUtf16 false [[0x61], [0x00, 0x62, 0x00, 0x63], [0x00, 0x64, 0x00]] =
      Utf16P.fromUtf16 false [[0x61, 0x00, 0x62, 0x00, 0x63, 0x00, 0x64, 0x00]] ∧
    Utf16P.fromUtf16 false [[0x3d, 0xd8, 0x00], [0xde]] = Utf16P.fromUtf16 false [[0x3d, 0xd8, 0x00, 0xde]] := by
  decide

/-- non-vacuity: the round trip theorem applies to a non-trivial text (ASCII, 2-, 3- and 4-byte characters) -/
example : (∀ c ∈ [0x41, 0xe9, 0x20ac, 0x1f600], Utf8P.scalar c) ∧ [0x41, 0xe9, 0x20ac, 0x1f600] ≠ [] ∧
    [0x41, 0xe9, 0x20ac, 0x1f600].head? ≠ some 0xfeff := by
  refine ⟨?_, by simp, by simp⟩
  intro c hc
  simp only [List.mem_cons, List.not_mem_nil, or_false] at hc
  rcases hc with rfl | rfl | rfl | rfl <;> (unfold Utf8P.scalar; omega)

end C20
