import DispatchVerif.Core.DataP
import DispatchVerif.Core.DataRc
/-! # C13 — dispatch_data objects behave as immutable byte strings

The model (`Core/DataP`) mirrors the *representation* of `src/data.c` — leaves and composites of range records,
with the special cases of `dispatch_data_create_concat` / `create_subrange` / `_dispatch_data_apply` /
`dispatch_data_copy_region` — and gives every object a denotation `den : List UInt8`. The check compares the model
with the real library on size, bytes, **region tiling** and copy_region results for random operation trees, so the
record structure is tied, not only the denotation. -/
namespace C13
open DataP

/-- `dispatch_data_create_concat` yields the concatenation (well-formedness and size preserved) -/
theorem concat_is_append (d1 d2 : Data) (h1 : d1.WF) (h2 : d2.WF) :
    (concat d1 d2).den = d1.den ++ d2.den ∧ (concat d1 d2).WF ∧ (concat d1 d2).size = d1.size + d2.size :=
  concat_den d1 d2 h1 h2

/-- `dispatch_data_create_subrange` yields the clamped slice, for **all** offsets and lengths (out-of-range ones
    included); the two `DISPATCH_INTERNAL_CRASH` sites of the function are unreachable on well-formed objects -/
theorem subrange_is_clamped_slice {d : Data} (h : d.WF) (off len : Nat) :
    ∃ d', subrange d off len = some d' ∧ d'.den = (d.den.drop off).take len ∧ d'.WF ∧
      d'.size = min len (d.size - off) :=
  subrange_den h off len

/-- `dispatch_data_get_size` is the length of the byte string -/
theorem size_is_length {d : Data} (h : d.WF) : d.size = d.den.length := size_eq_den_length h

/-- `dispatch_data_apply` visits consecutive non-empty regions from offset 0 whose contents concatenate to the
    byte string (so every byte is visited exactly once, in order, and nothing outside is read) -/
theorem apply_tiles_in_order {d : Data} (h : d.WF) : Tiles 0 (regions d) ∧ cat (regions d) = d.den :=
  apply_tiles h

/-- … and an applier that returns false stops the traversal after a prefix -/
theorem apply_early_stop (f : Nat → List Byte → Bool) (l : List (Nat × List Byte)) :
    (applyStop f l).1 <+: l ∧ ((applyStop f l).2 = true → (applyStop f l).1 = l ∧ ∀ x ∈ l, f x.1 x.2 = true) :=
  applyStop_prefix f l

/-- `dispatch_data_copy_region` returns the region containing `location` with the offset at which it starts;
    past the end it returns the empty object and the size -/
theorem copy_region_contains {d : Data} (h : d.WF) (loc : Nat) :
    ∃ reg off, copyRegion d loc = some (reg, off) ∧ reg.WF ∧
      (loc ≥ d.size → reg = empty ∧ off = d.size) ∧
      (loc < d.size → off ≤ loc ∧ loc < off + reg.size ∧ reg.den = (d.den.drop off).take reg.size) :=
  copyRegion_spec h loc

/-- every object reachable through the constructors from well-formed ones is well formed: every record stays
    inside its leaf, so no operation reads outside the represented bytes -/
theorem wf_closed (d1 d2 : Data) (h1 : d1.WF) (h2 : d2.WF) (off len : Nat) :
    (concat d1 d2).WF ∧ (∀ d', subrange d1 off len = some d' → d'.WF) := by
  refine ⟨(concat_den d1 d2 h1 h2).2.1, ?_⟩
  intro d' hd
  obtain ⟨d'', e, _, w, _⟩ := subrange_den h1 off len
  rw [e] at hd; cases hd; exact w

/-- non-vacuity: a composite of two leaves, sliced across the seam -/
example : ∃ d, subrange (concat (.leaf ⟨1, [1, 2, 3]⟩) (.leaf ⟨2, [4, 5]⟩)) 2 2 = some d ∧ d.den = [3, 4] := by
  refine ⟨_, rfl, ?_⟩; decide

/-! ## a buffer's destructor runs exactly once, only after the object and everything derived from it have been released

`DataRc`: leaves own buffers; a derived object holds one reference on the leaf of each of its records; an object whose count
drops to zero is disposed of (a leaf runs its destructor, a composite releases its records). The operations the harness
performs on real objects are replayed through `DataRc.step` and the destructors the real library runs are compared with the
model's (never earlier, never twice, all of them once everything has been released). -/

/-- after any sequence of create / derive / retain / release: no destructor has run twice, a destroyed buffer has no client
    reference, and no live object has a record in it -/
theorem destructor_once_and_not_early (ops : List DataRc.Op) (s : DataRc.St) (h : DataRc.run {} ops = some s) :
    s.destroyed.Nodup ∧
    (∀ l ∈ s.destroyed, ∃ o : DataRc.Obj, s.objs[l]? = some o ∧ o.kind = .leaf ∧ o.client = 0 ∧ o.live = false) ∧
    (∀ l ∈ s.destroyed, ∀ o ∈ s.objs, o.live = true → l ∉ DataRc.recsOf o) :=
  DataRc.destructor_once_and_not_early ops s h

/-- … and once the client has released everything it held, the destructor of every buffer ever created has run -/
theorem all_released_all_destroyed (ops : List DataRc.Op) (s : DataRc.St) (h : DataRc.run {} ops = some s)
    (hall : ∀ o ∈ s.objs, o.client = 0) :
    ∀ (l : DataRc.Id) (o : DataRc.Obj), s.objs[l]? = some o → o.kind = .leaf → l ∈ s.destroyed :=
  DataRc.all_released_all_destroyed ops s h hall

/-- non-vacuity: a leaf, a composite over it twice, the leaf released first: the destructor waits for the composite -/
example : (DataRc.run {} [.create, .derive [0, 0] [0, 0], .release 0]).map (·.destroyed) = some [] ∧
    (DataRc.run {} [.create, .derive [0, 0] [0, 0], .release 0, .release 1]).map (·.destroyed) = some [0] := by decide

end C13
