import DispatchVerif.Core.SrcP
import DispatchVerif.Core.CancelP
/-! # C16 — cancelling a source stops its handler and runs the cancel handler once

Two layers. `CancelP`: the cancellation protocol with any number of threads merging, cancelling and invoking; an invocation owns
the source's lane (C02), may run the registration handler, latches pending data only after reading "not cancelled", may return
early wherever `_dispatch_source_invoke2` returns to be re-invoked on another queue or to wait for the kernel, unregisters, and
takes the cancel handler with the handlers freed in the same step. `SrcP`: the decision functions of `_dispatch_source_wakeup`
and `_dispatch_source_invoke2` over the 13-bit view of a source, checked exhaustively by the kernel. -/
namespace C16

/-- **the cancel handler runs at most once**, only for a cancelled and unregistered source, after the last event handler
    invocation has returned; and no event handler invocation starts after it (the count of starts is frozen at the value it had
    when the cancel handler was taken) — in every reachable state -/
theorem cancel_handler_once_and_last {s : CancelP.St} (h : CancelP.Reachable s) :
    s.sh.cancelStarts ≤ 1 ∧
    (s.sh.cancelStarts = 1 → s.sh.canceled = true ∧ s.sh.deleted = true ∧
      s.sh.evStartsAtCallout = some s.sh.evStarts ∧ s.sh.inHandler = false) :=
  CancelP.cancel_handler_once_and_last h

/-- **after cancel, at most the one committed invocation**: the event handler starts at most once after `DSF_CANCELED` was set,
    and only if an invocation had already latched at that moment; a cancel from the source's own handler or registration handler,
    or at any moment when no invocation is between its latch and its callout (in particular from an item on the serial target
    queue, which excludes the invocation), is followed by no event handler invocation at all -/
theorem at_most_one_committed {s : CancelP.St} (h : CancelP.Reachable s) (n : Nat) (hn : s.sh.evStartsAtCancel = some n) :
    s.sh.evStarts ≤ n + CancelP.b2n s.sh.committedAtCancel ∧ (s.sh.committedAtCancel = false → s.sh.evStarts ≤ n) :=
  CancelP.at_most_one_committed h n hn

/-- non-vacuity: a run in which the handler cancels its own source, the source is unregistered and the cancel handler is taken -/
example : ∃ s, CancelP.Reachable s ∧ s.sh.cancelStarts = 1 ∧ s.sh.evStarts = 1 := by
  let mk (sh : CancelP.Sh) (pc : CancelP.Pc) : CancelP.St := ⟨sh, fun t => if t = 0 then pc else .idle⟩
  have step : ∀ (sh : CancelP.Sh) (pc : CancelP.Pc) (op : CancelP.Op) (sh' : CancelP.Sh) (pc' : CancelP.Pc),
      CancelP.Reachable (mk sh pc) → (sh', pc') ∈ CancelP.step sh 0 pc op → CancelP.Reachable (mk sh' pc') := by
    intro sh pc op sh' pc' hr hm
    have : mk sh' pc' = ⟨sh', fun t => if t = 0 then pc' else (mk sh pc).pcs t⟩ := by
      simp only [mk]; congr 1; funext t; by_cases e : t = 0 <;> simp [e]
    rw [this]
    exact .step hr (CancelP.Step.mk (mk sh pc) 0 op sh' pc' (by simpa [mk] using hm))
  have h0 : CancelP.Reachable (mk {} .idle) := by
    have : mk {} .idle = ⟨{}, fun _ => .idle⟩ := by simp only [mk]; congr 1; funext t; by_cases e : t = 0 <;> simp [e]
    rw [this]; exact .init
  have h1 := step _ _ .merge { pending := 1 } .idle h0 (by simp [CancelP.step, CancelP.stepCore, CancelP.canLeave])
  have h2 := step _ _ .invoke { pending := 1, owner := some 0 } .iRead h1 (by simp [CancelP.step, CancelP.stepCore, CancelP.canLeave])
  have h3 := step _ _ .invoke { pending := 0, owner := some 0, latched := true } .iLatched h2 (by simp [CancelP.step, CancelP.stepCore, CancelP.canLeave])
  have h4 := step _ _ .invoke { owner := some 0, evStarts := 1, inHandler := true } .iHandler h3 (by simp [CancelP.step, CancelP.stepCore, CancelP.canLeave])
  have h5 := step _ _ .invoke { owner := some 0, evStarts := 1, canceled := true, evStartsAtCancel := some 1 } .iReread h4
    (by simp [CancelP.step, CancelP.stepCore, CancelP.canLeave])
  have h6 := step _ _ .invoke { owner := some 0, evStarts := 1, canceled := true, evStartsAtCancel := some 1 } .iUnreg h5
    (by simp [CancelP.step, CancelP.stepCore, CancelP.canLeave])
  have h7 := step _ _ .invoke { owner := some 0, evStarts := 1, canceled := true, evStartsAtCancel := some 1, deleted := true } .iCallout h6
    (by simp [CancelP.step, CancelP.stepCore, CancelP.canLeave])
  have h8 := step _ _ .invoke { owner := some 0, evStarts := 1, canceled := true, evStartsAtCancel := some 1, deleted := true, cancelH := false, cancelStarts := 1, evStartsAtCallout := some 1 } .iCancelH h7
    (by simp [CancelP.step, CancelP.stepCore, CancelP.canLeave])
  exact ⟨_, h8, rfl, rfl⟩

/-- **wakeup and invoke agree**: whenever `_dispatch_source_wakeup` names a queue for a source that is not suspended, invoking the
    source there performs an action or redirects once to a queue where it does — cancellation is never left pending -/
theorem wakeup_invoke_progress (v : SrcP.View) (hs : v.suspended = false) (e u : Bool) (x : SrcP.Q) (hw : SrcP.wake v e = .q x) :
    (SrcP.inv v x u).acted = true ∨ ∃ y, (SrcP.inv v x u).out = .redirect y ∧ (SrcP.inv (SrcP.inv v x u).v y u).acted = true :=
  SrcP.wakeup_invoke_progress v hs e u x hw

/-- **nothing is missed**: when wakeup finds nothing to do, invoke has nothing to do either -/
theorem wakeup_none_means_idle (v : SrcP.View) (hs : v.suspended = false)
    (hw : ¬ (v.canceled = true ∧ v.deleted = false ∧ v.needsEvent = true)) (h : SrcP.wake v false = .none) (c : SrcP.Q) (u : Bool) :
    (SrcP.inv v c u).acted = false ∧ (SrcP.inv v c u).out = .ret .none :=
  SrcP.wakeup_none_means_idle v hs hw h c u

/-- with `DSF_CANCELED` set when invoke reads the flags it never calls the event handler, on any queue, in any view -/
theorem no_handler_when_canceled (v : SrcP.View) (hc : v.canceled = true) (c : SrcP.Q) (u : Bool) : (SrcP.inv v c u).evHandler = false :=
  SrcP.no_handler_when_canceled v hc c u

/-- the cancel callout runs only for a cancelled source whose kernel registration is gone (`DSF_DELETED`), and on the target
    queue whenever a handler is left to call -/
theorem cancel_callout_guard (v : SrcP.View) (c : SrcP.Q) (u : Bool) (h : (SrcP.inv v c u).cancelCallout = true) :
    v.canceled = true ∧ (SrcP.inv v c u).v.deleted = true ∧ (c = .T ∨ (v.hasH = false ∧ v.regH = false)) :=
  SrcP.cancel_callout_guard v c u h

/-- **convergence**: from any view of a cancelled, activated, unsuspended source, following wakeup's choice and invoking reaches —
    in at most four invocations, whether or not the kernel unregistration completes at once (a deferred one is completed by the
    delete event's wakeup) — the one final state: unregistered, handlers released, wakeup has nothing to do (pending data merged by a racing
    `dispatch_source_merge_data` may remain; it is never delivered, by `no_handler_when_canceled`) -/
def final (v : SrcP.View) : Bool := v.canceled && v.deleted && !v.hasH && !v.regH && SrcP.wake v true == .none

def drive : Nat → SrcP.View → Bool → SrcP.View
  | 0, v, _ => v
  | n + 1, v, u =>
    match SrcP.wake v true with
    | .none => v
    | .q x =>
      let r := SrcP.inv v x u
      match r.out with
      | .redirect y => drive n (SrcP.inv r.v y u).v true
      | _ => drive n r.v true

theorem converge_all : SrcP.allViews.all (fun v => !(v.canceled && v.installed && !v.suspended) ||
    (final (drive 4 v false) && final (drive 4 v true))) = true := by decide +kernel

theorem cancel_converges (v : SrcP.View) (hc : v.canceled = true) (hi : v.installed = true) (hs : v.suspended = false)
    (u : Bool) : final (drive 4 v u) = true := by
  have := List.all_eq_true.mp converge_all v (SrcP.mem_allViews v)
  simp only [hc, hi, hs, Bool.not_false, Bool.and_self, Bool.not_true, Bool.false_or, Bool.and_eq_true] at this
  cases u
  · exact this.1
  · exact this.2

/-- **the kernel registration is given up on the kevent queue only** - by cancellation and by the deferred deletion that follows a
    peer hang-up alike (F27: the latter used to run on whatever queue the source was invoked on, concurrently with the manager
    thread and the other sources of the descriptor, whose shared mux-note it edits) -/
theorem unregister_on_kevent_queue (v : SrcP.View) (c : SrcP.Q) (u : Bool) (h0 : v.deleted = false)
    (h1 : (SrcP.inv v c u).v.deleted = true) : c = SrcP.dkq v ∨ v.timerDisarmed = true :=
  SrcP.unregister_on_kevent_queue v c u h0 h1

end C16
