import DispatchVerif.Core.BlockP
import DispatchVerif.Core.BlockCnt
import DispatchVerif.Core.GroupPD
import DispatchVerif.Props.C07
/-! # C19 — dispatch block objects: cancel, wait and notify follow the execution

`BlockP`: the block object's flag word (DBF_CANCELED / DBF_WAITING / DBF_WAITED), its `dbpd_performed` counter and its private
group, with any number of threads invoking, cancelling, testing, waiting and registering notifications. The private group is entered
once at creation and left once; what the block layer needs from it — a wait returns 0 and a notification is submitted only after
the leave — is the group theorems for single-use groups, restated below. -/
namespace C19

/-- **the private group is left exactly once**, by the first completion, however often and from however many threads the block is invoked -/
theorem leave_exactly_once {s : BlockP.St} (h : BlockP.Reachable s) :
    s.sh.leaves ≤ 1 ∧ (s.sh.performed ≥ 1 → s.sh.leavers = [] → s.sh.leaves = 1) ∧ (s.sh.performed = 0 → s.sh.leaves = 0) :=
  BlockP.leave_exactly_once h

/-- **cancel**: after a `dispatch_block_cancel` call has returned the flag stays set for good (testcancel reports it; the wait
    bookkeeping on the same word never clears it); an invocation that begins after that never runs the body (`lateBodies = 0`);
    the body is skipped only for a cancelled block. A cancel issued while the body runs changes nothing about that execution:
    the model has no step from `body` other than its completion. -/
theorem cancel_semantics {s : BlockP.St} (h : BlockP.Reachable s) :
    (s.sh.cancelsDone ≥ 1 → s.sh.canceled = true) ∧ (s.sh.canceled = false → s.sh.skipped = 0) ∧
    (∀ t, s.pcs t = .tested true → s.sh.canceled = true) ∧ s.sh.lateBodies = 0 :=
  BlockP.cancel_semantics h

/-- **wait and notify follow the execution**: `dispatch_block_wait` returns zero, and a notification is submitted, only after an
    execution of the block (body, or skipped execution of a cancelled block) has completed; every registered notification is either
    still held or submitted once, and all are submitted once the first completion has left the group. -/
theorem wait_notify_follow_execution {s : BlockP.St} (h : BlockP.Reachable s) :
    ((s.sh.zeroWaits ≥ 1 ∨ s.sh.submittedNotes ≥ 1 ∨ ∃ t, s.pcs t = .waitRet true) → s.sh.performed ≥ 1 ∧ s.sh.finished ≥ 1) ∧
    s.sh.registered = s.sh.pendingNotes + s.sh.submittedNotes ∧
    (s.sh.leaves = 1 → s.sh.submittedNotes = s.sh.registered) :=
  BlockP.wait_notify_follow_execution h

/-- a cancelled block still completes for waiters and notifiers: the skipped execution performs the same increment and leave.
    (non-vacuity of the skip path: cancel, invoke, skip, increment, leave, then a wait returns 0) -/
example : ∃ s, BlockP.Reachable s ∧ s.sh.bodies = 0 ∧ s.sh.skipped = 1 ∧ s.sh.leaves = 1 ∧ s.sh.zeroWaits = 1 := by
  let mk (sh : BlockP.Sh) (pc : BlockP.Pc) : BlockP.St := ⟨sh, fun t => if t = 0 then pc else .idle⟩
  have step : ∀ (sh : BlockP.Sh) (pc : BlockP.Pc) (op : BlockP.Op) (sh' : BlockP.Sh) (pc' : BlockP.Pc),
      BlockP.Reachable (mk sh pc) → (sh', pc') ∈ BlockP.step sh 0 pc op → BlockP.Reachable (mk sh' pc') := by
    intro sh pc op sh' pc' hr hm
    have : mk sh' pc' = ⟨sh', fun t => if t = 0 then pc' else (mk sh pc).pcs t⟩ := by
      simp only [mk]; congr 1; funext t; by_cases e : t = 0 <;> simp [e]
    rw [this]
    exact .step hr (BlockP.Step.mk (mk sh pc) 0 op sh' pc' (by simpa [mk] using hm))
  have h0 : BlockP.Reachable (mk {} .idle) := by
    have : mk {} .idle = ⟨{}, fun _ => .idle⟩ := by simp only [mk]; congr 1; funext t; by_cases e : t = 0 <;> simp [e]
    rw [this]; exact .init
  have h1 := step _ _ .cancel { canceled := true, cancelsDone := 1 } .idle h0 (by simp [BlockP.step])
  have h2 := step _ _ .invoke { canceled := true, cancelsDone := 1 } (.started true true) h1 (by simp [BlockP.step])
  have h3 := step _ _ .invoke { canceled := true, cancelsDone := 1, skipped := 1, finished := 1, completers := [0] } .completed h2 (by simp [BlockP.step])
  have h4 := step _ _ .invoke { canceled := true, cancelsDone := 1, skipped := 1, finished := 1, performed := 1, leavers := [0] } .leaving h3
    (by simp [BlockP.step, BlockP.rm])
  have h5 := step _ _ .invoke { canceled := true, cancelsDone := 1, skipped := 1, finished := 1, performed := 1, leaves := 1 } .idle h4
    (by simp [BlockP.step, BlockP.rm])
  have h6 := step _ _ .wait { canceled := true, cancelsDone := 1, skipped := 1, finished := 1, performed := 1, leaves := 1, waiting := true } .waiting h5
    (by simp [BlockP.step])
  have h7 := step _ _ .wait { canceled := true, cancelsDone := 1, skipped := 1, finished := 1, performed := 1, leaves := 1, waiting := true, zeroWaits := 1 }
    (.waitRet true) h6 (by simp [BlockP.step])
  exact ⟨_, h7, rfl, rfl, rfl, rfl⟩

/-- the private group's side of `dispatch_block_notify`: in a single-use group no notification is submitted before the group has
    been empty since its registration -/
theorem group_notify_not_early {s : GroupP.St} (h : GroupP.ReachableSU s) : ∀ id, id ∈ s.sh.submitted → id ∈ s.sh.zeroSince :=
  GroupP.notify_not_early_single_use h

/-! ## the execution counter is a 32-bit word (`BlockCnt`)

`BlockP` counts executions in a natural number; the real counter is a 32-bit `int`. The two agree as long as the word does not wrap:
as repaired (F40) the word stops at the first value above 1, so it never does. -/

/-- **the private group is left on the first completion and never again, for every number of executions of the block object** (the
    counter word stops at 2) -/
theorem first_completion_only_any_count (n : Nat) :
    (BlockCnt.run n {}).leaves = min n 1 ∧ (BlockCnt.run n {}).performed = min n 2 :=
  BlockCnt.first_completion_only n

/-- F40 as found (every completion incremented the word): the 2^32 + 1-th execution leaves the group a second time - a trap - and
    after 2^31 executions the word reads as a negative `int` -/
theorem F40_as_found : (BlockCnt.runRaw (BlockCnt.W + 1) {}).leaves = 2 ∧ (BlockCnt.runRaw (BlockCnt.W + 1) {}).performed = 1 ∧
    BlockCnt.asInt (BlockCnt.runRaw 2147483648 {}).performed < 0 :=
  BlockCnt.F40_as_found

end C19
