import DispatchVerif.Core.SemaP
import DispatchVerif.Core.SemaCnt
/-! # C08 — semaphores conserve permits: no spurious success, no lost signal

`SemaP` models `dispatch_semaphore_signal / _wait / _dispatch_semaphore_wait_slow` of `src/semaphore.c`: the value word,
the kernel semaphore behind it, signallers (increment, then post iff the previous value was negative) and waiters
(decrement; sleep timed / forever or poll; on timeout the compare-exchange loop that undoes the decrement while the
value is still negative, else drain the pending wake-up), for any number of threads and any history. A kernel wait may
time out only after its deadline. Every `dsema_value` transition of the real library is replayed through `SemaP.step`. -/
namespace C08
open SemaP

/-- **no spurious success**: at every moment successful waits ≤ initial value + signals started -/
theorem no_spurious_success {v : Nat} {s : St} (h : Reachable v s) :
    (s.sh.okWaits : Int) ≤ s.sh.v0 + s.sh.signals :=
  SemaP.no_spurious_success h

/-- **conservation**: when all calls have finished exactly `v + signals − successful waits` permits remain and no kernel
    wake-up is left over — a timed-out waiter neither consumed nor lost a signal -/
theorem conservation {v : Nat} {s : St} (h : Reachable v s) (hq : ∀ t, s.pcs t = .idle) :
    s.sh.value = s.sh.v0 + s.sh.signals - s.sh.okWaits ∧ s.sh.ksem = 0 ∧ 0 ≤ s.sh.value :=
  SemaP.conservation h hq

/-- **a waiter blocked without timeout is released once enough signals arrive**: if a thread is blocked in the kernel
    wait while no post is pending or in flight, the value is negative — there really are more waiters than signals -/
theorem forever_waiter_released {v : Nat} {s : St} (h : Reachable v s) (t : Tid)
    (hb : s.pcs t = .wDrain) (hk : s.sh.ksem = 0) (hp : s.sh.posters = []) : s.sh.value < 0 :=
  SemaP.forever_waiter_released h t hb hk hp

/-! ## the permit counter is a `long` (F49)

`SemaP` counts permits in an unbounded integer. The real counter agrees with it as long as no increment passes LONG_MAX; the library
refuses that increment (a client crash) - as repaired; as found the refusal had been compiled away. -/

/-- **an accepted signal makes the counter exactly one more, still a `long`** - the range in which `SemaP` describes the word -/
theorem signal_counter_exact (v v' : Int) (hv : SemaCnt.LONG_MIN ≤ v ∧ v ≤ SemaCnt.LONG_MAX) (h : SemaCnt.signal v = some v') :
    v' = v + 1 ∧ SemaCnt.LONG_MIN ≤ v' ∧ v' ≤ SemaCnt.LONG_MAX ∧ SemaCnt.signalRaw v = v' := SemaCnt.signal_exact v v' hv h

/-- **F49 as found**: one signal on a semaphore holding LONG_MAX permits makes the counter LONG_MIN; as repaired it is refused -/
theorem F49_as_found : SemaCnt.signalRaw SemaCnt.LONG_MAX = SemaCnt.LONG_MIN ∧ SemaCnt.signal SemaCnt.LONG_MAX = none := SemaCnt.F49_as_found

end C08
