import DispatchVerif.Core.GroupPD
import DispatchVerif.Core.GroupPF9
import DispatchVerif.Generated.Consts
/-! # C07 — groups complete exactly when their count returns to zero

`GroupP` models `dispatch_group_{enter,leave,wait,notify}` and `_dispatch_group_wake` of `src/semaphore.c` on the decoded
`dg_state` word (generation, entered count, HAS_NOTIFS, HAS_WAITERS), the notify list and the futex on the generation, for
**any number of threads and any history** across repeated empty / non-empty generations. Every `dg_state` / `dg_bits`
transition of the real library under multi-threaded workloads is replayed through `GroupP.step`.

One clause of the property is **false of the code** (finding F9, recorded in known_findings.json): a notification
registered while another notification's wake is in flight can be submitted although work entered before its
registration has not left. `notify_not_early_is_false` is the witness as a theorem about the model (found by model
exploration, replayed on the real library by the check); `notify_not_early_single_use` is the part that holds. -/
namespace C07
open GroupP

/-- **nothing is left behind when the count reaches zero, and the group can be reused**: with every thread outside the
    group's functions and count 0, the notify list is empty and both flag bits are clear -/
theorem no_stranded_notify {s : St} (h : Reachable s) (hidle : ∀ t, s.pcs t = .idle) (hz : s.sh.w.count = 0) :
    s.sh.list = [] ∧ s.sh.w.N = false ∧ s.sh.w.Wt = false :=
  GroupP.no_stranded_notify h hidle hz

/-- **every notification is submitted at most once** … -/
theorem notify_at_most_once {s : St} (h : Reachable s) :
    s.sh.submitted.Nodup ∧ ∀ id, id ∈ s.sh.submitted → id ∉ s.sh.list ∧ id ∉ ids s.sh :=
  GroupP.notify_at_most_once h

/-- … **and exactly once** by the time the group is quiescent at zero -/
theorem notify_exactly_once {s : St} (h : Reachable s) (hidle : ∀ t, s.pcs t = .idle) (hz : s.sh.w.count = 0) :
    ∀ id, id < s.sh.nextId → id ∈ s.sh.submitted :=
  GroupP.notify_exactly_once h hidle hz

/-- **wait returns 0 only if the group was empty at some moment during the call**: a slow-path return of 0 implies
    the generation under which the waiter registered has passed (generations advance only at count 0). In the model the
    address wait may return at any time (woken, spuriously, interrupted by a signal): a return is never taken for a wake-up,
    the waiter re-reads the generation -/
theorem wait_zero_sound {s : St} (h : Reachable s) (t : Tid) (g0 g : Nat)
    (hp : s.pcs t = .wRet true (some (g0, g))) : g < s.sh.w.gen :=
  GroupP.wait_zero_sound h t g0 g hp

/-- **no waiter is left behind**: a thread asleep on generation `g` has been woken, or is legitimately waiting
    (same generation, count > 0), or a thread that will wake it is in flight; with nobody in flight only the first two -/
theorem no_stranded_waiter {s : St} (h : Reachable s) (u : Tid) (g0 g : Nat) (hp : s.pcs u = .wSleep g0 g)
    (hq : ∀ t, isGood (s.pcs t) = false ∧ isWW (s.pcs t) = false) :
    u ∈ s.sh.woken ∨ (s.sh.w.gen = g ∧ 0 < s.sh.w.count) :=
  GroupP.no_stranded_waiter h u g0 g hp hq

/-- **not before the work entered earlier has left — partial**: for histories in which every `enter` precedes the first
    notify registration and the first return to zero (a single-use group, e.g. the private group of a block object),
    every submitted notification has seen the count at zero since its registration -/
theorem notify_not_early_partial {s : St} (h : ReachableSU s) :
    ∀ id, id ∈ s.sh.submitted → id ∈ s.sh.zeroSince :=
  GroupP.notify_not_early_single_use h

/-- **F9**: in general the clause is false — a reachable state in which notification 1 has been submitted, has not seen
    the count at zero since its registration, and the count is 1 -/
theorem F9_notify_not_early_is_false :
    ∃ s, Reachable s ∧ 1 ∈ s.sh.submitted ∧ 1 ∉ s.sh.zeroSince ∧ s.sh.w.count = 1 :=
  GroupP.notify_not_early_is_false

/-- word layout used by the model and the trace decoder -/
theorem consts : Gen.DISPATCH_GROUP_VALUE_INTERVAL = 4 ∧ Gen.DISPATCH_GROUP_HAS_WAITERS = 1 ∧ Gen.DISPATCH_GROUP_HAS_NOTIFS = 2 ∧
    Gen.DISPATCH_GROUP_VALUE_MASK = 2 ^ 32 - 4 ∧ Gen.DISPATCH_GROUP_GEN_MASK = 2 ^ 64 - 2 ^ 32 := by decide

end C07
