import DispatchVerif.Core.SuspendP
import DispatchVerif.Core.ActP
import DispatchVerif.Generated.Consts
import DispatchVerif.Core.FinishW
/-! # C06 — inactive and suspended queues run nothing; resume restarts them

Two models of the suspension part of `dq_state`, for any number of threads racing suspend / resume / activate:
`SuspendP` — the 6-bit inline count, its overflow into `dq_side_suspend_cnt` in units of `SUSPEND_HALF` under the side
lock, `HAS_SIDE_SUSPEND_CNT`, both slow paths with their retry exits — and `ActP` — `INACTIVE` / `NEEDS_ACTIVATION` and
the activation protocol of `_dispatch_lane_resume(dq, activate)`. The drainer (`_dispatch_queue_drain_try_lock`,
`drain_try_unlock`, the drain loop) refuses to run anything while `_dq_state_is_suspended`, i.e. while any of inline
count, side bit, INACTIVE, NEEDS_ACTIVATION is set; these theorems say when that is.
The check replays every suspend / resume / activate transition of the real library through `SuspendP.step` / `ActP.step`
(tracking the side count across the slow paths) and evaluates the property's statement on nests of depth 1 … 200. -/
namespace C06

/-- **the count is exact at any depth**: inline field + side count (+ a transfer caught between its two writes)
    = suspends − resumes -/
theorem suspend_count_exact {s : SuspendP.St} (h : SuspendP.Reachable s) :
    s.sh.c + s.sh.side + SuspendP.upv s.sh.tr = s.sh.logical + SuspendP.downv s.sh.tr :=
  SuspendP.suspend_count_exact h

/-- **N suspends need exactly N resumes**: the bits the drainer tests are set iff suspends outnumber resumes —
    whatever the depth, including depths that overflow into the side counter several times -/
theorem suspended_iff {s : SuspendP.St} (h : SuspendP.Reachable s) :
    (0 < s.sh.logical) ↔ (0 < s.sh.c ∨ s.sh.sbit = true) :=
  SuspendP.suspended_iff h

/-- **F23 as found** (`fix:` c6cf305): a property setter (`dispatch_set_target_queue` / `dispatch_queue_set_width` on an active
    queue) gave its temporary suspension back with a bare subtraction on `dq_state`; from the reachable state "inline count 0,
    32 in the side counter" that leaves 64 suspensions too many. Since the repair the give-back is the `resume` step of the model. -/
theorem F23_as_found : ∃ s, SuspendP.Reachable s ∧ s.sh.logical = 32 ∧
    (SuspendP.rawGiveBack s.sh).c + (SuspendP.rawGiveBack s.sh).side = (SuspendP.rawGiveBack s.sh).logical + 64 :=
  SuspendP.F23_as_found

/-- **F23 repaired**: the same history with the suspension given back by `resume` leaves exactly the 31 still outstanding -/
theorem F23_fixed : SuspendP.runT 1 {} .idle (SuspendP.f23Ops ++ [.resume, .resume, .resume, .resume]) =
    some ({ c := 31, sbit := false, side := 0, logical := 31 }, .idle) :=
  SuspendP.F23_fixed

/-- **a queue created inactive runs nothing until its activation has completed, and then exactly while client
    suspends outnumber client resumes** -/
theorem inactive_blocked_iff {s : ActP.St} (h : ActP.Reachable s) :
    ActP.blocked s.sh = true ↔ (s.sh.done = false ∨ 0 < s.sh.logical) :=
  ActP.blocked_iff h

theorem activation_count_exact {s : ActP.St} (h : ActP.Reachable s) :
    s.sh.n = s.sh.logical + (if s.sh.holder.isSome then 1 else 0) :=
  ActP.count_exact h

/-! ## after the last resume: who re-drives the queue

`_dispatch_lane_resume` does not wake a queue whose drain lock is held; it sets DIRTY and leaves the re-drive to the lock
holder. That is sound because of what the lock holder writes when it leaves (`_dispatch_queue_invoke_finish`): the decision
"runnable and not enqueued ⇒ put ENQUEUED back" is taken on the very word being written. -/

/-- **a drainer that leaves a queue never writes a runnable, not-enqueued word** — for every old word, every owned amount,
    both enqueue flavours (word-level model over the generated constants; each such compare-and-swap of the real library is
    replayed through it) -/
theorem drainer_leaves_runnable_queue_enqueued (old owned enq : Nat)
    (he : enq = Gen.DISPATCH_QUEUE_ENQUEUED ∨ enq = Gen.DISPATCH_QUEUE_ENQUEUED_ON_MGR)
    (hr : FinishW.runnable (FinishW.invokeFinishW old owned enq) = true) :
    FinishW.enqueued (FinishW.invokeFinishW old owned enq) = true :=
  FinishW.finish_runnable_enqueued old owned enq he hr

/-- … and always sets DIRTY (bit 39), so whoever locks next looks at the list again -/
theorem drainer_leaves_dirty (old owned enq : Nat) : (FinishW.invokeFinishW old owned enq).testBit 39 = true :=
  FinishW.finish_sets_dirty old owned enq

/-- non-vacuity: a serial queue word as the drainer sees it after the last resume landed (drain-locked by thread 0x1234, in
    barrier, DIRTY set by the resume, one item pending): the word written is runnable and carries ENQUEUED -/
example : FinishW.runnable (FinishW.invokeFinishW (0x0060008000001234) 0x0040020000000000 Gen.DISPATCH_QUEUE_ENQUEUED) = true ∧
    FinishW.enqueued (FinishW.invokeFinishW (0x0060008000001234) 0x0040020000000000 Gen.DISPATCH_QUEUE_ENQUEUED) = true := by decide

/-- the constants the models use are the ones of the headers on this run -/
theorem consts : SuspendP.HALF = Gen.DISPATCH_QUEUE_SUSPEND_HALF ∧
    SuspendP.MAXC * Gen.DISPATCH_QUEUE_SUSPEND_INTERVAL + Gen.DISPATCH_QUEUE_SUSPEND_INTERVAL = 2 ^ 64 ∧
    Gen.DISPATCH_QUEUE_HAS_SIDE_SUSPEND_CNT = 2 ^ 57 ∧ Gen.DISPATCH_QUEUE_INACTIVE = 2 ^ 56 ∧
    Gen.DISPATCH_QUEUE_NEEDS_ACTIVATION = 2 ^ 55 := by decide

/-- **F43 as found**: an inactive object suspended 63 times (the inline field is full), then configured: the configuring call's own
    suspension, a plain addition, carries out of `dq_state` - the count reads 0 with 64 suspensions outstanding -/
theorem F43_as_found : ∃ s, SuspendP.Reachable s ∧ s.sh.logical = 63 ∧
    (SuspendP.rawInactiveSuspend s.sh).c = 0 ∧ (SuspendP.rawInactiveSuspend s.sh).sbit = false ∧ (SuspendP.rawInactiveSuspend s.sh).logical = 64 :=
  SuspendP.F43_as_found

/-- **F43 repaired**: the configuring call's suspension keeps the count exact whenever it is taken, and is refused (the documented
    client crash) when the inline field is full -/
theorem inactive_configure_keeps_count (sh sh' : SuspendP.Sh) (h : SuspendP.inactiveSuspend sh = some sh') (he : sh.c + sh.side = sh.logical) :
    sh'.c + sh'.side = sh'.logical ∧ sh'.c ≤ SuspendP.MAXC ∧ 0 < sh'.c :=
  SuspendP.inactive_suspend_exact sh sh' h he

end C06
