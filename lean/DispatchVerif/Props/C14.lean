import DispatchVerif.Core.IoP4
import DispatchVerif.Core.IoW2
import DispatchVerif.Core.IoWCut
import DispatchVerif.Core.IoCh
import DispatchVerif.Core.IoHold
import DispatchVerif.Core.StreamP
/-! # C14 — dispatch I/O delivers every byte once, in order; each operation completes once (read and write paths)

`IoP` models one stream READ operation of `src/io.c`: the buffer sizing at the top of `_dispatch_operation_perform`,
the outcome of `read()`, `_dispatch_operation_deliver_data` with its flags, the result switch of
`_dispatch_stream_handler`, and the `DOP_DONE` delivery of `_dispatch_operation_dispose`. The theorems quantify over
**every** sequence of outcomes the kernel may produce (any number of bytes between 1 and the length passed to `read`,
EOF, EAGAIN, an error). The check replays the outcomes the kernel actually produced on real pipes — with short
reads, EAGAIN and EOF — through `IoP.handle` and compares the requested length of every `read()` and every handler
invocation. The barrier clause is proved over `IoCh` (the channel's and the descriptor's serial queues as one FIFO, the barrier
group, suspension of the barrier queue) and the recorded history of real channels is replayed through `IoCh.exec`. The other
channel-level clauses (submission order of stream operations, close → ECANCELED, cleanup once) are observed by the oracle on
the real library. -/
namespace C14
open IoP

/-- **conservation**: if the operation completes, the data passed to the handler, concatenated in invocation order,
    is exactly the bytes consumed from the descriptor; no invocation exceeds the high-water mark; `done` is passed
    exactly once, on the last invocation -/
theorem read_conservation (os : List Outcome) (op : Op) (h : Inv op) (hl : Legal op os) (hf : (run op os).2 = true) :
    delivered (run op os).1 = op.data ++ op.buf ++ runBytes op os ∧
    (∀ c ∈ (run op os).1, c.data.length ≤ op.high) ∧
    ∃ init last, (run op os).1 = init ++ [last] ∧ last.done = true ∧ ∀ x ∈ init, x.done = false :=
  IoP.read_conservation os op h hl hf

/-- at most the requested length is ever consumed -/
theorem read_at_most_length (os : List Outcome) (op : Op) (l : Nat) (h : Inv op) (hl : Legal op os)
    (hlen : op.length = some l) : (runBytes op os).length + op.total ≤ l :=
  runBytes_le os op l h hl hlen

/-- every step keeps the invariant; non-final deliveries respect the low-water mark -/
theorem step_spec {op : Op} (h : Inv op) (o : Outcome) (hl : LegalO op o) : HandleSpec op o :=
  handle_spec h o hl

/-- `perform` never issues a zero-length `read()` (which it would mistake for end of file) -/
theorem read_len_pos {op : Op} (h : Inv op) : 0 < readLen op := IoP.read_len_pos h

/-- non-vacuity: a freshly created operation (length 12, low 5, high 5, default chunk) satisfies the invariant, and
    the model reproduces the 5, 5, 2-with-done sequence observed on the real library for reads capped at 3 bytes -/
example : Inv { length := some 12, low := 5, high := 5, chunk := 1048576 } := by
  constructor <;> simp
example : ((run { length := some 12, low := 5, high := 5, chunk := 1048576 }
    [.bytes [0, 1, 2], .bytes [3, 4], .bytes [5, 6, 7], .bytes [8, 9], .bytes [10, 11]]).1.map fun c => (c.done, c.data.length))
    = [(false, 5), (false, 5), (true, 2)] := by decide

/-! ## write path (`IoW`): buffer selection over the regions of the data object, short writes, water marks, trimming -/

/-- **write conservation**: for every data object (any regions), any water marks and chunk size and every legal sequence of
    write() outcomes, the bytes handed to the kernel are — in order, each once — a prefix of the submitted data; every data
    object the handler receives is exactly the part not written at that moment; `done` is reported once, by the last call -/
theorem write_conservation (regs : List (List IoW.Byte)) (low high chunk : Nat) (hne : ∀ r ∈ regs, r ≠ []) (hd : regs ≠ [])
    (hh : 0 < high) (hc : 0 < chunk) (os : List IoW.Outcome) (hleg : IoW.Legal (IoW.fresh regs low high chunk) os) :
    let r := IoW.run (IoW.fresh regs low high chunk) os
    r.1 = regs.flatten.take r.1.length ∧ r.1.length ≤ regs.flatten.length ∧
    (∀ kc ∈ r.2.1, kc.1 ≤ r.1.length ∧ ∀ d, kc.2.rem = some d → regs.flatten.take kc.1 ++ d = regs.flatten) ∧
    (r.2.2 = true → ∃ pre c, r.2.1 = pre ++ [c] ∧ c.2.done = true ∧ ∀ x ∈ pre, x.2.done = false) ∧
    (r.2.2 = false → ∀ x ∈ r.2.1, x.2.done = false) :=
  IoW.write_conservation regs low high chunk hne hd hh hc os hleg

/-- **conservation when the write is completed by the cleanup after its descriptor failed** (another operation got EBADF): one final
    call with the descriptor's error and exactly the bytes that were not written (F42 as repaired); as found the same state gave
    "done, no error, nothing unwritten" -/
theorem write_cut_short_conservation {orig : List IoW.Byte} {op : IoW.Op} (h : IoW.Inv orig op false) (hlt : op.total < op.length)
    (he : op.err = 0) (fdErr : Nat) (hf : fdErr ≠ 0) :
    IoW.cutShort true op fdErr = [⟨true, some (orig.drop op.total), fdErr⟩] :=
  IoW.cut_short_conservation h hlt he fdErr hf
theorem F42_as_found {op : IoW.Op} (he : op.err = 0) (fdErr : Nat) : IoW.cutShort false op fdErr = [⟨true, none, 0⟩] :=
  IoW.cut_short_as_found (orig := []) he fdErr

/-- never a zero-length write while bytes remain -/
theorem write_len_pos {orig : List IoW.Byte} {op : IoW.Op} (h : IoW.Inv orig op true) (hlt : op.total < op.length) :
    0 < IoW.writeLen op := IoW.write_len_pos h hlt

/-- non-vacuity: four 6-byte regions with high water 10 and low water 8 are written 6, 6, 6, 6 with one progress report of the
    12 bytes then unwritten and the final done — the sequence observed on the real library -/
example : ((IoW.run (IoW.fresh [[0,1,2,3,4,5],[6,7,8,9,10,11],[12,13,14,15,16,17],[18,19,20,21,22,23]] 8 10 1048576)
    [.wrote 6, .wrote 6, .wrote 6, .wrote 6]).2.1.map fun kc => (kc.1, kc.2.done, kc.2.rem.map List.length))
    = [(12, false, some 12), (24, true, none)] := by decide

/-! ## orchestration (`IoCh`): a barrier runs between the operations submitted before and after it -/

/-- **when the block of barrier `j` runs, every operation submitted before `j` has been disposed of and no operation submitted
    after `j` has been handed to the descriptor** - for every history of submissions and completions. `pre` / `post` are what
    was submitted before / after the barrier; the hypotheses are the state in which the group notification fires. -/
theorem barrier_runs_between {s : IoCh.St} (h : IoCh.Reachable s) (j : Nat) (hn : s.notif = some j) (he : s.inflight = [])
    (pre post : List IoCh.Act) (hsplit : s.subs = pre ++ IoCh.Act.bar j :: post) :
    (∀ i, IoCh.Act.op i ∈ pre → i ∈ s.dones) ∧ (∀ i, IoCh.Act.op i ∈ post → i ∉ s.enq) :=
  IoCh.barrier_between h j hn he pre post hsplit

/-- every move of the trace replay is a step of that model -/
theorem barrier_replay_sound (s s' : IoCh.St) (e : IoCh.Ev) (h : IoCh.exec s e = some s') : IoCh.Step s s' ∨ s' = s :=
  IoCh.exec_sound s s' e h

/-! ## the cleanup handler runs after all handlers (`IoHold`)

Who keeps the descriptor entry alive: lookups, open channels, operation objects, handler calls until they have returned, stream
sources being cancelled - one suspension of the close queue each; the cleanup handlers wait on that queue. Since F22 / F25 every
handler call that is submitted while its channel still holds the entry takes a hold of its own (zero-length operations and
operations cancelled before they joined the entry included); the model has exactly these holders. -/

/-- **the cleanup handlers are submitted only after every handler call ever submitted on the descriptor has returned**, with no
    channel open, no operation alive, and the cancellation handler of every stream source run (the descriptor is no longer
    monitored) - for every history of lookups, channels, operations, deliveries, closes. -/
theorem cleanup_after_all_handlers {s s' : IoHold.St} {k : IoHold.K} (h : IoHold.Reachable s) (hs : IoHold.Step s k s')
    (hc : s.cleaned = false) (hc' : s'.cleaned = true) :
    s.chans = [] ∧ s.ops = [] ∧ s.running = [] ∧ s.dels = [] ∧ s.srcs = 0 ∧ ∀ (d : IoHold.Call), d ∈ s.submitted → d ∈ s.returned :=
  IoHold.cleanup_after_all_handlers h hs hc hc'

/-- **after the cleanup nothing happens on the entry any more**: no handler call is submitted or started, the cleanup is not
    repeated ("exactly once") -/
theorem cleanup_is_final {s s' : IoHold.St} {k : IoHold.K} (h : IoHold.Reachable s) (hc : s.cleaned = true) : ¬ IoHold.Step s k s' :=
  IoHold.cleaned_is_final h hc

/-- the replay of recorded close-queue histories accepts every run of the model (so a refused record is not one), and in an
    accepted record a cleanup handler appears only with no handler call in progress, none begins after it -/
theorem cleanup_replay_complete {s s' : IoHold.St} {k : IoHold.K} (h : IoHold.Reachable s) (hs : IoHold.Step s k s') :
    IoHold.arun (IoHold.abs s) (IoHold.evs k) = some (IoHold.abs s') :=
  IoHold.replay_complete h hs

theorem cleanup_replay_quiet (a a' : IoHold.A) (h : IoHold.astep a .clean = some a') (hinv : a.running ≤ a.count) :
    a.running = 0 ∧ a'.cleaned = true ∧ IoHold.astep a' .hbegin = none :=
  ⟨(IoHold.replay_clean_quiet a a' h hinv).1, (IoHold.replay_clean_quiet a a' h hinv).2,
   IoHold.replay_no_begin_after_clean a' (IoHold.replay_clean_quiet a a' h hinv).2⟩

/-- non-vacuity: two channels on one descriptor, an operation with two handler calls, a zero-length one, a stream source - the
    model reaches the cleanup with all three handler calls returned -/
theorem cleanup_reachable : ∃ s, IoHold.run {} IoHold.witness = some s ∧ s.cleaned = true ∧ s.returned.length = 3 :=
  IoHold.witness_reaches_cleanup

/-- **no hold is ever taken on a descriptor entry that has been torn down** (and is freed right after): every step that raises the
    suspension count of the close queue, other than the teardown's own holds for the stream sources, happens before the teardown,
    under a hold that already exists or as a look-up that finds the entry in the table. The convenience calls
    (`dispatch_read` / `dispatch_write`) hold the entry from their look-up callback until their operation is done (F37 as repaired). -/
theorem no_hold_on_torn_entry {s s' : IoHold.St} {k : IoHold.K} (h : IoHold.Reachable s) (hs : IoHold.Step s k s') (hc : s.count < s'.count) :
    (∃ n, k = .teardown n) ∨ (s.torn = false ∧ (0 < s.count ∨ k = .lookup)) :=
  IoHold.no_hold_on_torn_entry h hs hc

/-- F37 as found: with the look-up's hold given back and no other hold, the teardown runs; the shortcut's late hold is not a step of
    the model and breaks its invariant. As repaired the same calls reach the cleanup with the handler call returned. -/
theorem F37_as_found : ∃ s, IoHold.run {} [(2,0,0), (10,0,0)] = some s ∧ s.torn = true ∧ IoHold.exec s (5, 9, 0) = none ∧ ¬ IoHold.Inv (IoHold.lateZero s 9 0) :=
  IoHold.F37_as_found
theorem F37_fixed : ∃ s, IoHold.run {} [(1,7,0), (2,0,0), (5,9,0), (6,9,0), (9,7,0), (7,9,0), (10,0,0), (12,0,0)] = some s ∧ s.cleaned = true ∧ s.returned = [(9, 0)] :=
  IoHold.F37_fixed

/-! ## every operation is served: the stream, its handler requests and its readiness source (`StreamP`) -/

/-- **the readiness source is armed exactly while `source_running`; no `dispatch_resume` of it - by the handler or by the teardown of
    the descriptor entry - ever meets a source that is not suspended** (F32, F35 as repaired) - for every history of enqueues,
    handler passes, source events, stops and the teardown -/
theorem stream_source_consistent {s : StreamP.St} (h : StreamP.Reachable true s) :
    s.trapped = false ∧ (s.disposed = false → s.susp = (if s.running then 0 else 1)) :=
  StreamP.source_consistent h

/-- **no operation is left behind** (F33 as repaired): while operations are on the list, a handler request is queued or the source
    is armed -/
theorem stream_no_stranded_operation {s : StreamP.St} (h : StreamP.Reachable true s) (hd : s.disposed = false) (ho : s.ops ≠ 0) :
    s.pending ≠ 0 ∨ s.running = true :=
  StreamP.no_stranded_operation h hd ho

/-- **an idle stream's source is suspended** - what `_dispatch_stream_dispose` relies on when it cancels and resumes it (F35) -/
theorem stream_idle_source_suspended {s : StreamP.St} (h : StreamP.Reachable true s) (hd : s.disposed = false) (ho : s.ops = 0) :
    s.running = false ∧ s.susp = 1 :=
  StreamP.idle_source_suspended h hd ho

/-- F32 / F33 / F35 as found: histories of the unrepaired steps that trap in the handler, leave two operations with nothing to serve
    them, and trap in the teardown (the last one with the first two repairs in place) -/
theorem F32_as_found : ∃ s, StreamP.Reachable false s ∧ s.trapped = true := StreamP.F32_as_found
theorem F33_as_found : ∃ s, StreamP.Reachable false s ∧ s.ops = 2 ∧ s.pending = 0 ∧ s.running = false := StreamP.F33_as_found
theorem F35_as_found : ∃ s, StreamP.ReachableG StreamP.step35 s ∧ s.trapped = true := StreamP.F35_as_found

end C14
