import DispatchVerif.Core.IoP4
/-! # C14 — dispatch I/O delivers every byte once, in order; each operation completes once (read path)

`IoP` models one stream READ operation of `src/io.c`: the buffer sizing at the top of `_dispatch_operation_perform`,
the outcome of `read()`, `_dispatch_operation_deliver_data` with its flags, the result switch of
`_dispatch_stream_handler`, and the `DOP_DONE` delivery of `_dispatch_operation_dispose`. The theorems quantify over
**every** sequence of outcomes the kernel may produce (any number of bytes between 1 and the length passed to `read`,
EOF, EAGAIN, an error). The check replays the outcomes the kernel actually produced on real pipes — with short
reads, EAGAIN and EOF — through `IoP.handle` and compares the requested length of every `read()` and every handler
invocation. Channel-level clauses (submission order, barrier, close → ECANCELED, cleanup once, write conservation)
are observed by the oracle on the real library. -/
namespace C14
open IoP

/-- **conservation**: if the operation completes, the data passed to the handler, concatenated in invocation order,
    is exactly the bytes consumed from the descriptor; no invocation exceeds the high-water mark; `done` is passed
    exactly once, on the last invocation -/
theorem read_conservation (os : List Outcome) (op : Op) (h : Inv op) (hl : Legal op os) (hf : (run op os).2 = true) :
    delivered (run op os).1 = op.data ++ op.buf ++ runBytes op os ∧
    (∀ c ∈ (run op os).1, c.data.length ≤ op.high) ∧
    ∃ init last, (run op os).1 = init ++ [last] ∧ last.done = true ∧ ∀ x ∈ init, x.done = false :=
  IoP.read_conservation os op h hl hf

/-- at most the requested length is ever consumed -/
theorem read_at_most_length (os : List Outcome) (op : Op) (l : Nat) (h : Inv op) (hl : Legal op os)
    (hlen : op.length = some l) : (runBytes op os).length + op.total ≤ l :=
  runBytes_le os op l h hl hlen

/-- every step keeps the invariant; non-final deliveries respect the low-water mark -/
theorem step_spec {op : Op} (h : Inv op) (o : Outcome) (hl : LegalO op o) : HandleSpec op o :=
  handle_spec h o hl

/-- `perform` never issues a zero-length `read()` (which it would mistake for end of file) -/
theorem read_len_pos {op : Op} (h : Inv op) : 0 < readLen op := IoP.read_len_pos h

/-- non-vacuity: a freshly created operation (length 12, low 5, high 5, default chunk) satisfies the invariant, and
    the model reproduces the 5, 5, 2-with-done sequence observed on the real library for reads capped at 3 bytes -/
example : Inv { length := some 12, low := 5, high := 5, chunk := 1048576 } := by
  constructor <;> simp
example : ((run { length := some 12, low := 5, high := 5, chunk := 1048576 }
    [.bytes [0, 1, 2], .bytes [3, 4], .bytes [5, 6, 7], .bytes [8, 9], .bytes [10, 11]]).1.map fun c => (c.done, c.data.length))
    = [(false, 5), (false, 5), (true, 2)] := by decide

end C14
