/-! C08 calibration: dispatch_semaphore (value + kernel semaphore), thread-modular proof
    for any number of threads / any client program. -/
namespace SemaP

abbrev Tid := Nat

inductive Op | signal | wait (kind : Nat)   -- 0 forever, 1 timed, ≥2 poll

inductive Pc
  | idle
  | sPost                 -- signal saw new value ≤ 0: must post the kernel semaphore
  | wSlow (kind : Nat)    -- wait saw new value < 0
  | wSleepT               -- inside sem_timedwait
  | wUndo                 -- timed out / polling: try to re-increment
  | wDrain                -- blocking sem_wait
deriving DecidableEq

structure Sh where
  v0 : Int
  value : Int
  ksem : Nat := 0
  -- ghosts
  posters : List Tid := []   -- threads at sPost
  slow : List Tid := []      -- threads in the wait slow path
  signals : Nat := 0         -- signal calls started
  okWaits : Nat := 0         -- waits that returned 0
  undone : Nat := 0          -- timed-out waits (decrement undone)
  decs : Nat := 0            -- wait calls started

def rm (l : List Tid) (t : Tid) : List Tid := l.filter (· ≠ t)

def step (sh : Sh) (t : Tid) (pc : Pc) (op : Op) : List (Sh × Pc) :=
  match pc with
  | .idle =>
    match op with
    | .signal =>
      let v := sh.value + 1
      if v > 0 then [({ sh with value := v, signals := sh.signals + 1 }, .idle)]
      else [({ sh with value := v, signals := sh.signals + 1, posters := t :: sh.posters }, .sPost)]
    | .wait k =>
      let v := sh.value - 1
      if v ≥ 0 then [({ sh with value := v, decs := sh.decs + 1, okWaits := sh.okWaits + 1 }, .idle)]
      else [({ sh with value := v, decs := sh.decs + 1, slow := t :: sh.slow }, .wSlow k)]
  | .sPost => [({ sh with ksem := sh.ksem + 1, posters := rm sh.posters t }, .idle)]
  | .wSlow k =>
    match k with
    | 0 => [(sh, .wDrain)]
    | 1 => [(sh, .wSleepT)]
    | _ => [(sh, .wUndo)]
  | .wSleepT =>
    (if sh.ksem > 0 then [({ sh with ksem := sh.ksem - 1, slow := rm sh.slow t, okWaits := sh.okWaits + 1 }, Pc.idle)] else [])
      ++ [(sh, .wUndo)]          -- the kernel wait may time out at any moment
  | .wUndo =>
    if sh.value < 0 then [({ sh with value := sh.value + 1, slow := rm sh.slow t, undone := sh.undone + 1 }, .idle)]
    else [(sh, .wDrain)]
  | .wDrain =>
    if sh.ksem > 0 then [({ sh with ksem := sh.ksem - 1, slow := rm sh.slow t, okWaits := sh.okWaits + 1 }, .idle)] else []

structure St where
  sh : Sh
  pcs : Tid → Pc

inductive Step : St → St → Prop
  | mk (s : St) (t : Tid) (op : Op) (sh' : Sh) (pc' : Pc)
      (h : (sh', pc') ∈ step s.sh t (s.pcs t) op) :
      Step s { sh := sh', pcs := fun t' => if t' = t then pc' else s.pcs t' }

inductive Reachable (v : Nat) : St → Prop
  | init : Reachable v { sh := { v0 := v, value := v }, pcs := fun _ => .idle }
  | step {s s'} : Reachable v s → Step s s' → Reachable v s'

def isSlow : Pc → Bool
  | .wSlow _ | .wSleepT | .wUndo | .wDrain => true
  | _ => false

def negPart (v : Int) : Nat := if v < 0 then (-v).toNat else 0

structure G (sh : Sh) : Prop where
  nodupP : sh.posters.Nodup
  nodupS : sh.slow.Nodup
  /-- kernel posts (done or in flight) + outstanding decrements below zero = unresolved slow waiters -/
  bal : sh.ksem + sh.posters.length + negPart sh.value = sh.slow.length
  /-- value accounting -/
  val : sh.value = sh.v0 + sh.signals - sh.decs + sh.undone
  /-- completed waits -/
  acc : sh.decs = sh.okWaits + sh.undone + sh.slow.length
  v0 : 0 ≤ sh.v0

structure L (sh : Sh) (t : Tid) (pc : Pc) : Prop where
  post : t ∈ sh.posters ↔ pc = .sPost
  slow : t ∈ sh.slow ↔ isSlow pc = true

theorem mem_rm {l : List Tid} {t u : Tid} : u ∈ rm l t ↔ u ∈ l ∧ u ≠ t := by simp [rm]

theorem length_rm {l : List Tid} {t : Tid} (nd : l.Nodup) (h : t ∈ l) : (rm l t).length + 1 = l.length := by
  induction l with
  | nil => simp at h
  | cons a l ih =>
    by_cases e : a = t
    · subst e
      have hn : a ∉ l := (List.nodup_cons.mp nd).1
      have hf : rm l a = l := by
        unfold rm
        apply List.filter_eq_self.mpr
        intro x hx; simp; intro hxa; exact hn (hxa ▸ hx)
      have : rm (a :: l) a = rm l a := by simp [rm]
      rw [this, hf]; simp
    · have ht : t ∈ l := by
        rcases List.mem_cons.mp h with h | h
        · exact absurd h.symm e
        · exact h
      have := ih (List.nodup_cons.mp nd).2 ht
      have h2 : rm (a :: l) t = a :: rm l t := by simp [rm, e]
      rw [h2]; simp; omega

theorem nodup_rm {l : List Tid} {t : Tid} (nd : l.Nodup) : (rm l t).Nodup := nd.filter _

abbrev Post (sh sh' : Sh) (t : Tid) (pc' : Pc) : Prop :=
  G sh' ∧ L sh' t pc' ∧ ∀ t' q, t' ≠ t → L sh t' q → L sh' t' q

macro "setfr" : tactic => `(tactic| (intro u hu; simp [mem_rm, hu]))

theorem others {sh sh' : Sh} {t : Tid}
    (hp : ∀ u, u ≠ t → (u ∈ sh'.posters ↔ u ∈ sh.posters)) (hs : ∀ u, u ≠ t → (u ∈ sh'.slow ↔ u ∈ sh.slow)) :
    ∀ t' q, t' ≠ t → L sh t' q → L sh' t' q :=
  fun t' _ ne l => ⟨(hp t' ne).trans l.post, (hs t' ne).trans l.slow⟩

theorem negPart_cases (v : Int) : (v < 0 ∧ (negPart v : Int) = -v) ∨ (0 ≤ v ∧ negPart v = 0) := by
  unfold negPart; split <;> omega

set_option maxHeartbeats 1000000 in
theorem step_local {sh : Sh} {t : Tid} {pc : Pc} {op : Op} {sh' : Sh} {pc' : Pc}
    (g : G sh) (l : L sh t pc) (h : (sh', pc') ∈ step sh t pc op) : Post sh sh' t pc' := by
  obtain ⟨ndP, ndS, bal, val, acc, v0⟩ := g
  obtain ⟨lp, ls⟩ := l
  have np := negPart_cases sh.value
  cases pc with
  | idle =>
    have hnp : t ∉ sh.posters := by simpa using lp
    have hns : t ∉ sh.slow := by simpa [isSlow] using ls
    cases op with
    | signal =>
      simp only [step] at h
      split at h
      · rename_i hv
        simp at h; obtain ⟨rfl, rfl⟩ := h
        have np' := negPart_cases (sh.value + 1)
        refine ⟨⟨ndP, ndS, ?_, ?_, acc, v0⟩, ⟨by simpa using hnp, by simpa [isSlow] using hns⟩, others (by setfr) (by setfr)⟩
        · simp; omega
        · simp; omega
      · rename_i hv
        simp at h; obtain ⟨rfl, rfl⟩ := h
        have np' := negPart_cases (sh.value + 1)
        refine ⟨⟨List.nodup_cons.mpr ⟨hnp, ndP⟩, ndS, ?_, ?_, acc, v0⟩, ⟨by simp, by simpa [isSlow] using hns⟩, others (by setfr) (by setfr)⟩
        · simp; omega
        · simp; omega
    | wait k =>
      simp only [step] at h
      split at h
      · rename_i hv
        simp at h; obtain ⟨rfl, rfl⟩ := h
        have np' := negPart_cases (sh.value - 1)
        refine ⟨⟨ndP, ndS, ?_, ?_, ?_, v0⟩, ⟨by simpa using hnp, by simpa [isSlow] using hns⟩, others (by setfr) (by setfr)⟩
        · simp; omega
        · simp; omega
        · simp; omega
      · rename_i hv
        simp at h; obtain ⟨rfl, rfl⟩ := h
        have np' := negPart_cases (sh.value - 1)
        refine ⟨⟨ndP, List.nodup_cons.mpr ⟨hns, ndS⟩, ?_, ?_, ?_, v0⟩, ⟨by simpa using hnp, by simp [isSlow]⟩, others (by setfr) (by setfr)⟩
        · simp; omega
        · simp; omega
        · simp; omega
  | sPost =>
    have hp : t ∈ sh.posters := by simpa using lp
    have hns : t ∉ sh.slow := by simpa [isSlow] using ls
    simp [step] at h; obtain ⟨rfl, rfl⟩ := h
    have := length_rm ndP hp
    refine ⟨⟨nodup_rm ndP, ndS, ?_, val, acc, v0⟩, ⟨by simp [mem_rm], by simpa [isSlow] using hns⟩, others (by setfr) (by setfr)⟩
    simp; omega
  | wSlow k =>
    have hs : t ∈ sh.slow := by simpa [isSlow] using ls
    have hnp : t ∉ sh.posters := by simpa using lp
    simp only [step] at h
    split at h
    all_goals
      simp at h; obtain ⟨rfl, rfl⟩ := h
      exact ⟨⟨ndP, ndS, bal, val, acc, v0⟩, ⟨by simpa using hnp, by simpa [isSlow] using hs⟩, others (by setfr) (by setfr)⟩
  | wSleepT =>
    have hs : t ∈ sh.slow := by simpa [isSlow] using ls
    have hnp : t ∉ sh.posters := by simpa using lp
    simp only [step] at h
    simp at h
    rcases h with h | h
    · obtain ⟨hk, rfl, rfl⟩ := h
      have := length_rm ndS hs
      refine ⟨⟨ndP, nodup_rm ndS, ?_, val, ?_, v0⟩, ⟨by simpa using hnp, by simp [mem_rm, isSlow]⟩, others (by setfr) (by setfr)⟩
      · simp; omega
      · simp; omega
    · obtain ⟨rfl, rfl⟩ := h
      exact ⟨⟨ndP, ndS, bal, val, acc, v0⟩, ⟨by simpa using hnp, by simpa [isSlow] using hs⟩, others (by setfr) (by setfr)⟩
  | wUndo =>
    have hs : t ∈ sh.slow := by simpa [isSlow] using ls
    have hnp : t ∉ sh.posters := by simpa using lp
    simp only [step] at h
    split at h
    · rename_i hv
      simp at h; obtain ⟨rfl, rfl⟩ := h
      have := length_rm ndS hs
      have np' := negPart_cases (sh.value + 1)
      refine ⟨⟨ndP, nodup_rm ndS, ?_, ?_, ?_, v0⟩, ⟨by simpa using hnp, by simp [mem_rm, isSlow]⟩, others (by setfr) (by setfr)⟩
      · simp; omega
      · simp; omega
      · simp; omega
    · simp at h; obtain ⟨rfl, rfl⟩ := h
      exact ⟨⟨ndP, ndS, bal, val, acc, v0⟩, ⟨by simpa using hnp, by simpa [isSlow] using hs⟩, others (by setfr) (by setfr)⟩
  | wDrain =>
    have hs : t ∈ sh.slow := by simpa [isSlow] using ls
    have hnp : t ∉ sh.posters := by simpa using lp
    simp only [step] at h
    split at h
    · simp at h; obtain ⟨rfl, rfl⟩ := h
      have := length_rm ndS hs
      refine ⟨⟨ndP, nodup_rm ndS, ?_, val, ?_, v0⟩, ⟨by simpa using hnp, by simp [mem_rm, isSlow]⟩, others (by setfr) (by setfr)⟩
      · simp; omega
      · simp; omega
    · simp at h

structure Inv (s : St) : Prop where
  g : G s.sh
  l : ∀ t, L s.sh t (s.pcs t)

theorem inv_reachable {v : Nat} {s : St} (h : Reachable v s) : Inv s := by
  induction h with
  | init =>
    exact ⟨⟨by simp, by simp, by simp [negPart], by simp, by simp, by simp⟩,
      fun _ => ⟨by simp, by simp [isSlow]⟩⟩
  | step _ hs ih =>
    cases hs with
    | mk t op sh' pc' h =>
      obtain ⟨hg, hl, hoth⟩ := step_local ih.g (ih.l t) h
      refine ⟨hg, fun t' => ?_⟩
      by_cases e : t' = t
      · subst e; simpa using hl
      · simpa [e] using hoth t' _ e (ih.l t')

/-- **No spurious success**: at every moment, successful waits ≤ initial value + signals started. -/
theorem no_spurious_success {v : Nat} {s : St} (h : Reachable v s) :
    (s.sh.okWaits : Int) ≤ s.sh.v0 + s.sh.signals := by
  have i := inv_reachable h
  have := i.g.bal; have := i.g.val; have := i.g.acc
  have np := negPart_cases s.sh.value
  omega

/-- **Conservation at quiescence**: when every thread is idle, exactly `v + signals − successes`
    permits remain and no kernel wake-up is left over (a timed-out waiter neither consumed nor
    lost a signal). -/
theorem conservation {v : Nat} {s : St} (h : Reachable v s) (hq : ∀ t, s.pcs t = .idle) :
    s.sh.value = s.sh.v0 + s.sh.signals - s.sh.okWaits ∧ s.sh.ksem = 0 ∧ 0 ≤ s.sh.value := by
  have i := inv_reachable h
  have hs : s.sh.slow = [] := by
    cases hl : s.sh.slow with
    | nil => rfl
    | cons t _ =>
      have := ((i.l t).slow).mp (by simp [hl]); simp [hq t, isSlow] at this
  have hp : s.sh.posters = [] := by
    cases hl : s.sh.posters with
    | nil => rfl
    | cons t _ =>
      have := ((i.l t).post).mp (by simp [hl]); simp [hq t] at this
  have := i.g.bal; have := i.g.val; have := i.g.acc
  have np := negPart_cases s.sh.value
  simp [hs, hp] at *
  omega

/-- **A blocked untimed waiter is released once enough signals arrive** (progress as safety):
    if some thread is blocked in the kernel wait while no post is pending or in flight, then the
    value is negative, i.e. there really are more waiters than signals. -/
theorem forever_waiter_released {v : Nat} {s : St} (h : Reachable v s) (t : Tid)
    (hb : s.pcs t = .wDrain) (hk : s.sh.ksem = 0) (hp : s.sh.posters = []) : s.sh.value < 0 := by
  have i := inv_reachable h
  have hs : t ∈ s.sh.slow := ((i.l t).slow).mpr (by simp [hb, isSlow])
  have hl : 0 < s.sh.slow.length := List.length_pos_of_mem hs
  have := i.g.bal
  have np := negPart_cases s.sh.value
  simp [hk, hp] at *
  omega

end SemaP
