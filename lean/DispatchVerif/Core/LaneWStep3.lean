import DispatchVerif.Core.LaneWStep2
namespace LaneW

/-- a thread that holds (at least) one unit and is not the owner cannot coexist with barrier mode -/
theorem notB_of_unit {W : Nat} {sh : Sh} {t : Tid} (g : G W sh) (h : 1 ≤ sh.holders.count t) : sh.dq.B = false := by
  cases hb : sh.dq.B with
  | false => rfl
  | true =>
    have := (g.gB hb).1
    simp [this] at h

/-- give back `n` units without touching owner / barrier / pending-barrier bits -/
theorem release_units {W : Nat} {sh : Sh} {t : Tid} {pc pc' : Pc} (g : G W sh) (l : L sh t pc)
    (n : Nat) (hn : unitsOf pc = unitsOf pc' + n) (d' : Dq) (tok : Nat)
    (hu : d'.u = sh.dq.u - n) (hB : d'.B = sh.dq.B) (hpb : d'.pb = sh.dq.pb) (hO : d'.O = sh.dq.O)
    (hnB : sh.dq.B = false)
    (hb' : holdsB pc' = holdsB pc) (hu' : holdsU pc' = holdsU pc) (hs : ∀ w k, pc' ≠ .dbwSignal w k)
    (hd : isDnb pc' = true → isDnb pc = true := by ndnb) :
    Post W sh { sh with dq := d', holders := rmN n t sh.holders, tokens := tok } t pc' := by
  have hc := l.cnt
  have hle : n ≤ sh.holders.count t := by omega
  have hlen := length_rmN n t sh.holders hle
  have hcnt := count_rmN_self n t sh.holders hle
  refine ⟨⟨?_, ?_, ?_, ?_, g.nodup, g.xsig⟩, ⟨?_, ?_, ?_, ?_, (fun h => by rw [hpb]; exact l.npb (hd h))⟩,
    others_keep hO hB (by intro u hu; rfl) rfl (by intro u hu; simp [count_rmN_ne n t u sh.holders hu]) hpb⟩
  · have := g.gW; simp only [hu, hB, hpb, hnB] at this ⊢; simp at this ⊢; omega
  · intro hb; simp [hB, hnB] at hb
  · intro w hw; have := g.sig w hw; simp only [LockedB, hO, hB] at *; exact this
  · intro w u hw; have := g.xf w u hw; simp only [LockedB, hO, hB] at *; exact this
  · intro h; have := l.ownB (hb' ▸ h); simp only [LockedB, hO, hB] at *; exact this
  · intro h; have := l.ownU (hu' ▸ h); simp only [hO, hB] at *; exact this
  · simp; omega
  · intro w k e; exact absurd e (hs w k)

/-- give back `n` units and, all width being free now, take the barrier lock -/
theorem release_and_lock {W : Nat} {sh : Sh} {t : Tid} {pc pc' : Pc} (g : G W sh) (l : L sh t pc)
    (n : Nat) (hn : unitsOf pc = n) (hO : sh.dq.O = none ∨ sh.dq.O = some t) (hnB : sh.dq.B = false)
    (hfree : (rmN n t sh.holders).length = 0 ∧ sh.redirects = 0)
    (d' : Dq) (hd' : d'.u = W ∧ d'.B = true ∧ d'.pb = false ∧ d'.O = some t)
    (hb' : holdsB pc' = true) (hu' : holdsU pc' = false) (hn' : unitsOf pc' = 0)
    (hs : ∀ w k, pc' ≠ .dbwSignal w k) :
    Post W sh { sh with dq := d', holders := rmN n t sh.holders } t pc' := by
  have hc := l.cnt
  have hle : n ≤ sh.holders.count t := by omega
  have hcnt := count_rmN_self n t sh.holders hle
  have hnil : rmN n t sh.holders = [] := List.length_eq_zero_iff.mp hfree.1
  have hq : sh.sigB = [] ∧ sh.xfer = none := by
    constructor
    · cases hs' : sh.sigB with
      | nil => rfl
      | cons w _ => have := (g.sig w (by simp [hs'])).2; simp [hnB] at this
    · cases hx : sh.xfer with
      | none => rfl
      | some p => have := (g.xf p.1 p.2 (by simp [hx])).2; simp [hnB] at this
  refine ⟨⟨?_, ?_, ?_, ?_, g.nodup, ?_⟩, ⟨?_, ?_, ?_, ?_, (by ndnb)⟩,
    others_own (by rcases hO with h | h; exact Or.inr h; exact Or.inl h) rfl
      (by intro u hu; simp [count_rmN_ne n t u sh.holders hu])⟩
  · simp [hd'.1, hd'.2.1, hd'.2.2.1, hnil, hfree.2]
  · intro _; exact ⟨hnil, hfree.2, hd'.2.2.1⟩
  · intro w hw; simp [hq.1] at hw
  · intro w u hw; simp [hq.2] at hw
  · intro w u hw; simp [hq.2] at hw
  · intro _; exact ⟨⟨hd'.2.2.2, hd'.2.1⟩, by simp [hq.1], by simp [hq.2]⟩
  · intro h; simp [hu'] at h
  · simp [hnil] at hcnt ⊢; omega
  · intro w k e; exact absurd e (hs w k)

theorem nbcTryLock_spec (W : Nat) (old new : Dq) (t : Tid) (hB : new.B = false) :
    let n := nbcTryLock W old new t
    (n.B = false ∧ n.u = new.u ∧ n.pb = new.pb ∧ n.O = new.O) ∨
    (n.B = true ∧ n.u = W ∧ n.pb = false ∧ n.O = some t ∧ (if new.pb then new.u + 1 = (W : Int) else new.u = 0)) := by
  unfold nbcTryLock Dq.lock
  cases hpb : new.pb <;> simp
  · by_cases hf : new.u = 0
    · right; simp [hf]
    · left; simp [hf]; split <;> simp [hB, hpb]
  · by_cases hf : new.u + 1 = (W : Int)
    · right; simp [hf]
    · left; simp [hf]; split <;> simp [hB, hpb]

theorem nbcDq_spec (W : Nat) (d : Dq) (t : Tid) (hB : d.B = false) :
    (( nbcDq W d t).B = false ∧ (nbcDq W d t).u = d.u - 1 ∧ (nbcDq W d t).pb = d.pb ∧ (nbcDq W d t).O = d.O) ∨
    ((nbcDq W d t).B = true ∧ d.O = none ∧ (nbcDq W d t).u = W ∧ (nbcDq W d t).pb = false ∧ (nbcDq W d t).O = some t ∧
      (if d.pb then d.u = (W : Int) else d.u = 1)) := by
  unfold nbcDq
  simp only []
  split
  · left; simp [hB]
  · rename_i hO
    have hOn : d.O = none := by
      cases ho : d.O with
      | none => rfl
      | some _ => simp [ho] at hO
    split
    · have := nbcTryLock_spec W d { d with u := d.u - 1 } t hB
      simp only at this
      rcases this with h | h
      · left; exact h
      · right
        obtain ⟨h1, h2, h3, h4, h5⟩ := h
        refine ⟨h1, hOn, h2, h3, h4, ?_⟩
        cases hp : d.pb <;> simp [hp] at h5 ⊢ <;> omega
    · left; simp [hB]


set_option maxHeartbeats 4000000 in
theorem step_nbc {W : Nat} (hW : 1 ≤ W) {sh : Sh} {t : Tid} {c2 : Bool} {k : K} {op : Op} {sh' : Sh} {pc' : Pc}
    (g : G W sh) (l : L sh t (.nbc c2 k)) (h : (sh', pc') ∈ step W sh t (.nbc c2 k) op) :
    Post W sh sh' t pc' := by
  have hc := l.cnt
  have h1 : 1 ≤ sh.holders.count t := by simp [unitsOf] at hc; omega
  have hnB := notB_of_unit g h1
  have ⟨kb, ku, kn, ks⟩ := kPc_props k
  have hlen := length_rmN 1 t sh.holders h1
  have hgW := g.gW
  have hspec := nbcDq_spec W sh.dq t hnB
  simp only [step] at h
  generalize nbcDq W sh.dq t = n at h hspec
  rcases hspec with ⟨nB, nu, npb, nO⟩ | ⟨nB, hOn, nu, npb, nO, hfree⟩
  · simp only [nB, Bool.false_and, Bool.false_eq_true, if_false] at h
    split at h
    · simp at h; obtain ⟨rfl, rfl⟩ := h
      exact release_units g l 1 (by rw [kn]; rfl) _ _ nu (by rw [nB, hnB]) npb nO hnB (by rw [kb]; rfl) (by rw [ku]; rfl) ks
    · simp at h; obtain ⟨rfl, rfl⟩ := h
      exact release_units g l 1 (by rw [kn]; rfl) _ _ nu (by rw [nB, hnB]) npb nO hnB (by rw [kb]; rfl) (by rw [ku]; rfl) ks
  · simp [nB, hnB] at h; obtain ⟨rfl, rfl⟩ := h
    have hfr : (rmN 1 t sh.holders).length = 0 ∧ sh.redirects = 0 := by
      simp [hnB] at hgW
      cases hp : sh.dq.pb <;> simp [hp] at hfree hgW <;> omega
    exact release_and_lock g l 1 (by simp [unitsOf]) (Or.inl hOn) hnB hfr _ ⟨nu, nB, npb, nO⟩
      (by simp [holdsB]) (by simp [holdsU]) (by simp [unitsOf]) (by simp)

end LaneW
