/-! C01 (thread pool part): the bookkeeping of `_dispatch_root_queue_poke_slow` / `_dispatch_worker_thread`
    (src/queue.c, pthread pool configuration): `dgq_pending` (worker threads requested and not yet running) and
    `dgq_thread_pool_size` (threads that may still be created). Any number of poking threads, any interleaving.

    What the lane protocol relies on: a request is refused only while `dgq_pending ≠ 0`, i.e. while an earlier
    request is still being served — so `dgq_pending` must be exactly the number of threads being started plus the
    requests in flight, and must return to 0 when nothing is in flight. -/
namespace RootP

abbrev Tid := Nat

inductive Pc
  | idle
  | pkPending (rem : Nat) (floor : Int)                      -- before the cmpxchg / add on dgq_pending
  | pkLoad (rem : Nat) (floor : Int)                         -- pending reserved; before the load of the pool size
  | pkLoop (rem : Nat) (floor : Int) (tcount : Int)          -- top of the do-while
  | pkCas (rem : Nat) (floor : Int) (tcount : Int)           -- request trimmed to what the pool allows; before the cmpxchg
  | pkCreate (rem : Nat)                                     -- pool size reserved: pthread_create × rem
  | wStart                                                   -- a created thread before its decrement of dgq_pending
  | wRun                                                     -- draining / parked on the mediator
  | wContend                                                 -- backing off in __DISPATCH_ROOT_QUEUE_CONTENDED_WAIT__: holds one unit of dgq_pending
  | wExit                                                    -- after the pool size increment, before its poke
deriving DecidableEq

structure Sh where
  pending : Int := 0
  pool : Int := 0
  overcommit : Bool := false
  -- ghosts
  starting : Nat := 0                -- threads created by a poker that have not begun to run
  booting : List Tid := []           -- threads that run but have not yet decremented dgq_pending
  reserved : List (Tid × Nat) := []  -- pokers that hold part of dgq_pending: (thread, its `remaining`)

inductive Op | poke (n : Nat) (floor : Int) | spawn | none

def sumRes : List (Tid × Nat) → Nat
  | [] => 0
  | (_, r) :: l => r + sumRes l

def dropT (l : List (Tid × Nat)) (t : Tid) : List (Tid × Nat) := l.filter (fun p => !decide (p.1 = t))

/-- `can_request = t_count < floor ? 0 : t_count - floor` -/
def canReq (tc floor : Int) : Nat := if tc < floor then 0 else (tc - floor).toNat

/-- one atomic step of thread `t` -/
def step (sh : Sh) (t : Tid) (pc : Pc) (op : Op) : List (Sh × Pc) :=
  match pc with
  | .idle =>
    match op with
    | .poke n floor => if n = 0 then [] else [(sh, .pkPending n floor)]
    | .spawn =>                                                     -- a thread created by pkCreate begins to run
      if sh.starting > 0 then [({ sh with starting := sh.starting - 1, booting := t :: sh.booting }, .wStart)] else []
    | .none => []
  | .pkPending rem floor =>
    if sh.overcommit then
      [({ sh with pending := sh.pending + rem, reserved := (t, rem) :: sh.reserved }, .pkLoad rem floor)]
    else if sh.pending = 0 then
      [({ sh with pending := rem, reserved := (t, rem) :: sh.reserved }, .pkLoad rem floor)]
    else [(sh, .idle)]                                             -- "worker thread request still pending"
  | .pkLoad rem floor => [(sh, .pkLoop rem floor sh.pool)]
  | .pkLoop rem floor tc =>
    if rem ≤ canReq tc floor then [(sh, .pkCas rem floor tc)]
    else if canReq tc floor = 0 then
      -- os_atomic_sub2o(dq, dgq_pending, remaining - 0); "pthread pool is full": return
      [({ sh with pending := sh.pending - rem, reserved := dropT sh.reserved t }, .idle)]
    else
      -- os_atomic_sub2o(dq, dgq_pending, remaining - can_request); remaining = can_request
      [({ sh with pending := sh.pending - (rem - canReq tc floor : Nat),
                  reserved := (t, canReq tc floor) :: dropT sh.reserved t }, .pkCas (canReq tc floor) floor tc)]
  | .pkCas rem floor tc =>
    if sh.pool = tc then [({ sh with pool := tc - rem }, .pkCreate rem)]
    else [(sh, .pkLoop rem floor sh.pool)]                          -- cmpxchgvw failed: reload and retry
  | .pkCreate rem =>
    [({ sh with starting := sh.starting + rem, reserved := dropT sh.reserved t }, .idle)]
  | .wStart => [({ sh with pending := sh.pending - 1, booting := sh.booting.erase t }, .wRun)]
  | .wRun => [(sh, .wRun), ({ sh with pool := sh.pool + 1 }, .wExit),
              -- serious contention on the list head: "mark this queue as pending to avoid requests for further threads"
              ({ sh with pending := sh.pending + 1, reserved := (t, 1) :: sh.reserved }, .wContend)]
  | .wContend => [({ sh with pending := sh.pending - 1, reserved := dropT sh.reserved t }, .wRun)]
  | .wExit => [(sh, .pkPending 1 0), (sh, .idle)]                  -- the exiting worker's re-poke (if the queue is not empty)

structure St where
  sh : Sh
  pcs : Tid → Pc

inductive Step : St → St → Prop
  | mk (s : St) (t : Tid) (op : Op) (sh' : Sh) (pc' : Pc) (h : (sh', pc') ∈ step s.sh t (s.pcs t) op) :
      Step s { sh := sh', pcs := fun t' => if t' = t then pc' else s.pcs t' }

inductive Reachable (pool0 : Int) (oc : Bool) : St → Prop
  | init : Reachable pool0 oc { sh := { pool := pool0, overcommit := oc }, pcs := fun _ => .idle }
  | step {s s'} : Reachable pool0 oc s → Step s s' → Reachable pool0 oc s'

/-- what a poker's pc says it holds of dgq_pending -/
def holdsRes : Pc → Option Nat
  | .pkLoad r _ | .pkLoop r _ _ | .pkCas r _ _ | .pkCreate r => some r
  | .wContend => some 1
  | _ => none

/-- entries of `reserved` per thread -/
def resOf (l : List (Tid × Nat)) (t : Tid) : List Nat := (l.filter (fun p => decide (p.1 = t))).map (·.2)

theorem resOf_cons_self (l : List (Tid × Nat)) (t : Tid) (r : Nat) : resOf ((t, r) :: l) t = r :: resOf l t := by
  simp [resOf, List.filter_cons]

theorem resOf_cons_ne (l : List (Tid × Nat)) (t u : Tid) (r : Nat) (h : u ≠ t) : resOf ((t, r) :: l) u = resOf l u := by
  simp [resOf, List.filter_cons, Ne.symm h]

theorem resOf_dropT_self (l : List (Tid × Nat)) (t : Tid) : resOf (dropT l t) t = [] := by
  induction l with
  | nil => rfl
  | cons p l ih =>
    obtain ⟨a, r⟩ := p
    by_cases e : a = t
    · have : dropT ((a, r) :: l) t = dropT l t := by simp [dropT, List.filter_cons, e]
      rw [this]; exact ih
    · have : dropT ((a, r) :: l) t = (a, r) :: dropT l t := by simp [dropT, List.filter_cons, e]
      rw [this]
      have : resOf ((a, r) :: dropT l t) t = resOf (dropT l t) t := by simp [resOf, List.filter_cons, e]
      rw [this]; exact ih

theorem resOf_dropT_ne (l : List (Tid × Nat)) (t u : Tid) (h : u ≠ t) : resOf (dropT l t) u = resOf l u := by
  induction l with
  | nil => rfl
  | cons p l ih =>
    obtain ⟨a, r⟩ := p
    by_cases e : a = t
    · have h1 : dropT ((a, r) :: l) t = dropT l t := by simp [dropT, List.filter_cons, e]
      have h2 : resOf ((a, r) :: l) u = resOf l u := by
        have : ¬ a = u := by rw [e]; exact fun x => h x.symm
        simp [resOf, List.filter_cons, this]
      rw [h1, h2]; exact ih
    · have h1 : dropT ((a, r) :: l) t = (a, r) :: dropT l t := by simp [dropT, List.filter_cons, e]
      rw [h1]
      by_cases e2 : a = u
      · subst e2
        rw [resOf_cons_self, resOf_cons_self, ih]
      · rw [resOf_cons_ne _ _ _ _ (Ne.symm e2), resOf_cons_ne _ _ _ _ (Ne.symm e2)]; exact ih

theorem sumRes_dropT (l : List (Tid × Nat)) (t : Tid) : sumRes (dropT l t) + (resOf l t).sum = sumRes l := by
  induction l with
  | nil => rfl
  | cons p l ih =>
    obtain ⟨a, r⟩ := p
    by_cases e : a = t
    · have h1 : dropT ((a, r) :: l) t = dropT l t := by simp [dropT, List.filter_cons, e]
      subst e
      rw [h1, resOf_cons_self]; simp [sumRes]; omega
    · have h1 : dropT ((a, r) :: l) t = (a, r) :: dropT l t := by simp [dropT, List.filter_cons, e]
      have h2 : resOf ((a, r) :: l) t = resOf l t := by simp [resOf, List.filter_cons, e]
      rw [h1, h2]; simp [sumRes]; omega

/-- the invariant: `dgq_pending` = threads created or booting + what the pokers in flight hold; each thread's entries
    in the ghost lists are exactly what its pc says -/
structure Inv (s : St) : Prop where
  acct : s.sh.pending = s.sh.starting + s.sh.booting.length + sumRes s.sh.reserved
  own : ∀ t, resOf s.sh.reserved t = (match holdsRes (s.pcs t) with | some r => [r] | none => [])
  boot : ∀ t, s.sh.booting.count t = (if s.pcs t = .wStart then 1 else 0)

theorem inv_init (pool0 : Int) (oc : Bool) : Inv { sh := { pool := pool0, overcommit := oc }, pcs := fun _ => .idle } :=
  ⟨by simp [sumRes], fun t => by simp [resOf, holdsRes], fun t => by simp⟩

theorem inv_step {s s' : St} (i : Inv s) (h : Step s s') : Inv s' := by
  cases h with
  | mk t op sh' pc' h =>
    obtain ⟨acct, own, boot⟩ := i
    have ownt := own t
    have boott := boot t
    have hd := sumRes_dropT s.sh.reserved t
    have fin : ∀ (shn : Sh) (pcn : Pc), shn.pending = shn.starting + shn.booting.length + sumRes shn.reserved →
        resOf shn.reserved t = (match holdsRes pcn with | some r => [r] | none => []) →
        (∀ u, u ≠ t → resOf shn.reserved u = resOf s.sh.reserved u) →
        shn.booting.count t = (if pcn = .wStart then 1 else 0) →
        (∀ u, u ≠ t → shn.booting.count u = s.sh.booting.count u) →
        Inv { sh := shn, pcs := fun t' => if t' = t then pcn else s.pcs t' } := by
      intro shn pcn h1 h2 h3 h4 h5
      refine ⟨h1, fun u => ?_, fun u => ?_⟩
      · by_cases e : u = t
        · subst e; simpa using h2
        · simp only [e, if_false]; rw [h3 u e]; exact own u
      · by_cases e : u = t
        · subst e; simpa using h4
        · simp only [e, if_false]; rw [h5 u e]; exact boot u
    cases hpc : s.pcs t with
    | idle =>
      rw [hpc] at h ownt boott
      simp at boott
      cases op with
      | poke n floor =>
        simp only [step] at h
        split at h
        · simp at h
        · simp at h; obtain ⟨rfl, rfl⟩ := h
          exact fin _ _ acct (by simpa [holdsRes] using ownt) (fun _ _ => rfl) (by simpa using boott) (fun _ _ => rfl)
      | spawn =>
        simp only [step] at h
        split at h
        · rename_i hs
          simp at h; obtain ⟨rfl, rfl⟩ := h
          refine fin _ _ ?_ (by simpa [holdsRes] using ownt) (fun _ _ => rfl) ?_ ?_
          · simp only [List.length_cons]; omega
          · simp [List.count_cons, boott]
          · intro u hu; simp [List.count_cons, Ne.symm hu]
        · simp at h
      | none => simp [step] at h
    | pkPending rem floor =>
      rw [hpc] at h ownt boott
      simp only [holdsRes] at ownt
      simp at boott
      simp only [step] at h
      split at h
      · simp at h; obtain ⟨rfl, rfl⟩ := h
        refine fin _ _ ?_ ?_ ?_ (by simpa using boott) (fun _ _ => rfl)
        · simp [sumRes]; omega
        · rw [resOf_cons_self, ownt]; simp [holdsRes]
        · intro u hu; exact resOf_cons_ne _ _ _ _ hu
      · split at h
        · rename_i hp0
          simp at h; obtain ⟨rfl, rfl⟩ := h
          refine fin _ _ ?_ ?_ ?_ (by simpa using boott) (fun _ _ => rfl)
          · simp [sumRes]; omega
          · rw [resOf_cons_self, ownt]; simp [holdsRes]
          · intro u hu; exact resOf_cons_ne _ _ _ _ hu
        · simp at h; obtain ⟨rfl, rfl⟩ := h
          exact fin _ _ acct (by simpa [holdsRes] using ownt) (fun _ _ => rfl) (by simpa using boott) (fun _ _ => rfl)
    | pkLoad rem floor =>
      rw [hpc] at h ownt boott
      simp at boott
      simp [step] at h; obtain ⟨rfl, rfl⟩ := h
      exact fin _ _ acct (by simpa [holdsRes] using ownt) (fun _ _ => rfl) (by simpa using boott) (fun _ _ => rfl)
    | pkLoop rem floor tc =>
      rw [hpc] at h ownt boott
      simp only [holdsRes] at ownt
      simp at boott
      have hsum : (resOf s.sh.reserved t).sum = rem := by rw [ownt]; simp
      simp only [step] at h
      split at h
      · simp at h; obtain ⟨rfl, rfl⟩ := h
        exact fin _ _ acct (by simpa [holdsRes] using ownt) (fun _ _ => rfl) (by simpa using boott) (fun _ _ => rfl)
      · rename_i hgt
        split at h
        · simp at h; obtain ⟨rfl, rfl⟩ := h
          refine fin _ _ ?_ ?_ ?_ (by simpa using boott) (fun _ _ => rfl)
          · simp only []; omega
          · simp [resOf_dropT_self, holdsRes]
          · intro u hu; exact resOf_dropT_ne _ _ _ hu
        · simp at h; obtain ⟨rfl, rfl⟩ := h
          refine fin _ _ ?_ ?_ ?_ (by simpa using boott) (fun _ _ => rfl)
          · simp only [sumRes]; omega
          · rw [resOf_cons_self, resOf_dropT_self]; simp [holdsRes]
          · intro u hu; rw [resOf_cons_ne _ _ _ _ hu]; exact resOf_dropT_ne _ _ _ hu
    | pkCas rem floor tc =>
      rw [hpc] at h ownt boott
      simp at boott
      simp only [step] at h
      split at h
      · simp at h; obtain ⟨rfl, rfl⟩ := h
        exact fin _ _ acct (by simpa [holdsRes] using ownt) (fun _ _ => rfl) (by simpa using boott) (fun _ _ => rfl)
      · simp at h; obtain ⟨rfl, rfl⟩ := h
        exact fin _ _ acct (by simpa [holdsRes] using ownt) (fun _ _ => rfl) (by simpa using boott) (fun _ _ => rfl)
    | pkCreate rem =>
      rw [hpc] at h ownt boott
      simp only [holdsRes] at ownt
      simp at boott
      have hsum : (resOf s.sh.reserved t).sum = rem := by rw [ownt]; simp
      simp [step] at h; obtain ⟨rfl, rfl⟩ := h
      refine fin _ _ ?_ ?_ ?_ (by simpa using boott) (fun _ _ => rfl)
      · simp only []; omega
      · simp [resOf_dropT_self, holdsRes]
      · intro u hu; exact resOf_dropT_ne _ _ _ hu
    | wStart =>
      rw [hpc] at h ownt boott
      simp at boott
      simp [step] at h; obtain ⟨rfl, rfl⟩ := h
      have hmem : t ∈ s.sh.booting := List.count_pos_iff.mp (by omega)
      have hlen := List.length_erase_of_mem hmem
      refine fin _ _ ?_ (by simpa [holdsRes] using ownt) (fun _ _ => rfl) ?_ ?_
      · simp only []; have : 0 < s.sh.booting.length := List.length_pos_of_mem hmem; omega
      · simp [List.count_erase_self, boott]
      · intro u hu; exact List.count_erase_of_ne hu
    | wRun =>
      rw [hpc] at h ownt boott
      simp at boott
      simp only [holdsRes] at ownt
      simp [step] at h
      rcases h with ⟨rfl, rfl⟩ | ⟨rfl, rfl⟩ | ⟨rfl, rfl⟩
      · exact fin _ _ acct (by simpa [holdsRes] using ownt) (fun _ _ => rfl) (by simpa using boott) (fun _ _ => rfl)
      · exact fin _ _ acct (by simpa [holdsRes] using ownt) (fun _ _ => rfl) (by simpa using boott) (fun _ _ => rfl)
      · refine fin _ _ ?_ ?_ ?_ (by simpa using boott) (fun _ _ => rfl)
        · simp [sumRes]; omega
        · rw [resOf_cons_self, ownt]; simp [holdsRes]
        · intro u hu; exact resOf_cons_ne _ _ _ _ hu
    | wContend =>
      rw [hpc] at h ownt boott
      simp only [holdsRes] at ownt
      simp at boott
      have hsum : (resOf s.sh.reserved t).sum = 1 := by rw [ownt]; simp
      simp [step] at h; obtain ⟨rfl, rfl⟩ := h
      refine fin _ _ ?_ ?_ ?_ (by simpa using boott) (fun _ _ => rfl)
      · simp only []; omega
      · simp [resOf_dropT_self, holdsRes]
      · intro u hu; exact resOf_dropT_ne _ _ _ hu
    | wExit =>
      rw [hpc] at h ownt boott
      simp at boott
      simp [step] at h
      rcases h with ⟨rfl, rfl⟩ | ⟨rfl, rfl⟩
      · exact fin _ _ acct (by simpa [holdsRes] using ownt) (fun _ _ => rfl) (by simpa using boott) (fun _ _ => rfl)
      · exact fin _ _ acct (by simpa [holdsRes] using ownt) (fun _ _ => rfl) (by simpa using boott) (fun _ _ => rfl)

theorem inv_reachable {pool0 : Int} {oc : Bool} {s : St} (h : Reachable pool0 oc s) : Inv s := by
  induction h with
  | init => exact inv_init pool0 oc
  | step _ hs ih => exact inv_step ih hs

/-- **`dgq_pending` is exact**: it counts the worker threads that were requested and have not started running, plus
    what the requests in flight have reserved -/
theorem pending_accounted {pool0 : Int} {oc : Bool} {s : St} (h : Reachable pool0 oc s) :
    s.sh.pending = s.sh.starting + s.sh.booting.length + sumRes s.sh.reserved := (inv_reachable h).acct

/-- **a request is never refused for good**: when no request is in flight and no requested thread is still starting,
    `dgq_pending` is 0, so the next poke passes the "request still pending" test -/
theorem no_phantom_pending {pool0 : Int} {oc : Bool} {s : St} (h : Reachable pool0 oc s)
    (hq : ∀ t, holdsRes (s.pcs t) = none) (hs : s.sh.starting = 0) (hb : ∀ t, s.pcs t ≠ .wStart) :
    s.sh.pending = 0 := by
  have i := inv_reachable h
  have hres : s.sh.reserved = [] := by
    cases hr : s.sh.reserved with
    | nil => rfl
    | cons p l =>
      have := i.own p.1
      rw [hq p.1, hr] at this
      obtain ⟨a, r⟩ := p
      rw [resOf_cons_self] at this
      simp at this
  have hboot : s.sh.booting = [] := by
    cases hr : s.sh.booting with
    | nil => rfl
    | cons u l =>
      have := i.boot u
      rw [hr] at this
      simp [hb u, List.count_cons] at this
  have := i.acct
  rw [hres, hboot, hs] at this
  simpa [sumRes] using this

end RootP
