import DispatchVerif.Core.LaneWProof
namespace LaneW

macro "lauto" : tactic =>
  `(tactic| (constructor <;> (simp_all [holdsB, holdsU, unitsOf, isDnb, LockedB, kPc, List.count_cons, mem_rm] <;> (try omega) <;> try grind)))

macro "cntfr" : tactic =>
  `(tactic| (intro u hu; simp [List.count_cons, hu, Ne.symm hu]))

theorem L_frame {sh sh' : Sh} {t : Tid} {pc : Pc} (l : L sh t pc)
    (hO : sh'.dq.O = sh.dq.O) (hB : sh'.dq.B = sh.dq.B) (hs : sh'.sigB = sh.sigB) (hx : sh'.xfer = sh.xfer)
    (hh : sh'.holders = sh.holders) (hn : sh'.sigN = sh.sigN)
    (hpb : sh'.dq.pb = sh.dq.pb := by rfl) : L sh' t pc := by
  refine ⟨?_, ?_, ?_, ?_, ?_⟩
  · intro hb; have := l.ownB hb; simp only [LockedB, hO, hB, hs, hx] at *; exact this
  · intro hb; have := l.ownU hb; simp only [hO, hB] at *; exact this
  · rw [hh, hn]; exact l.cnt
  · intro w k e; rw [hx]; exact l.sg w k e
  · intro hb; rw [hpb]; exact l.npb hb

theorem kPc_props (k : K) : holdsB (kPc k) = false ∧ holdsU (kPc k) = false ∧ unitsOf (kPc k) = 0 ∧
    ∀ w k', kPc k ≠ .dbwSignal w k' := by
  cases k <;> simp [kPc, holdsB, holdsU, unitsOf]

theorem kPc_notDnb (k : K) : isDnb (kPc k) = false := by
  cases k <;> simp [kPc, isDnb]

/-- discharge `isDnb pc' = true → …` for a pc' that is not inside drain_non_barriers -/
macro "ndnb" : tactic =>
  `(tactic| (intro hdnb; first
      | (simp [isDnb] at hdnb; done)
      | (rw [kPc_notDnb] at hdnb; simp at hdnb; done)
      | (have hdnb2 := holdsU_of_isDnb hdnb; simp_all)))

set_option maxHeartbeats 4000000 in
theorem step_client {W : Nat} (hW : 1 ≤ W) {sh : Sh} {t : Tid} {pc : Pc} {op : Op} {sh' : Sh} {pc' : Pc}
    (g : G W sh) (l : L sh t pc) (h : (sh', pc') ∈ step W sh t pc op)
    (hpc : pc = .idle ∨ (∃ i b, pc = .aStart i b) ∨ (∃ i, pc = .aTryAsync i) ∨ (∃ i b, pc = .aPush i b) ∨
           (∃ i b, pc = .pPushed i b) ∨ (∃ i b, pc = .pLinked i b) ∨ (∃ i, pc = .sTryR i) ∨ (∃ i, pc = .sTryR2 i) ∨
           (∃ i b, pc = .sSlowPush i b) ∨ (∃ i b w, pc = .sSlowLink i b w)) :
    Post W sh sh' t pc' := by
  obtain ⟨gW, gB, gs, gx, gn, gxs⟩ := g
  have g0 : G W sh := ⟨gW, gB, gs, gx, gn, gxs⟩
  obtain ⟨lB, lU, lc, lsg, lpb⟩ := l
  have l0 : L sh t pc := ⟨lB, lU, lc, lsg, lpb⟩
  rcases hpc with rfl | ⟨i, b, rfl⟩ | ⟨i, rfl⟩ | ⟨i, b, rfl⟩ | ⟨i, b, rfl⟩ | ⟨i, b, rfl⟩ | ⟨i, rfl⟩ | ⟨i, rfl⟩ | ⟨i, b, rfl⟩ | ⟨i, b, w, rfl⟩
  · -- idle
    cases op <;> simp [step] at h <;> obtain ⟨rfl, rfl⟩ := h
    · exact frame_step g0 rfl (L_same l0 rfl rfl rfl (by simp))
    · refine frame_step g0 rfl (L_same l0 ?_ ?_ ?_ ?_ ?_) <;> split <;> simp [holdsB, holdsU, unitsOf, isDnb]
    · exact frame_step g0 rfl (L_same l0 rfl rfl rfl (by simp))
  · -- aStart
    simp only [step] at h
    split at h <;> (simp at h; obtain ⟨rfl, rfl⟩ := h; exact frame_step g0 rfl (L_same l0 rfl rfl rfl (by simp)))
  · -- aTryAsync
    simp only [step] at h
    split at h
    · rename_i hc
      simp at h; obtain ⟨rfl, rfl⟩ := h
      have hnB : sh.dq.B = false := by simp [tryAcquireAsyncOk, Dq.runnable] at hc; exact hc.1.1.1
      refine ⟨⟨?_, ?_, ?_, ?_, gn, gxs⟩, ?_, others_keep rfl rfl (by simp) rfl (by cntfr)⟩
      · simp [hnB] at gW ⊢; omega
      · intro hb; simp [hnB] at hb
      · intro w hw; exact gs w hw
      · intro w u hw; exact gx w u hw
      · exact L_frame (L_same l0 rfl rfl rfl (by simp)) rfl rfl rfl rfl rfl rfl
    · simp at h; obtain ⟨rfl, rfl⟩ := h; exact frame_step g0 rfl (L_same l0 rfl rfl rfl (by simp))
  · -- aPush
    simp [step] at h; obtain ⟨rfl, rfl⟩ := h
    exact frame_step g0 rfl (L_same l0 rfl rfl rfl (by simp))
  · -- pPushed
    simp [step] at h; obtain ⟨rfl, rfl⟩ := h
    exact frame_step g0 rfl (L_same l0 rfl rfl rfl (by simp))
  · -- pLinked
    simp only [step] at h
    split at h
    · simp at h
      rcases h with ⟨rfl, rfl⟩ | ⟨rfl, rfl⟩ <;> exact frame_step g0 rfl (L_same l0 rfl rfl rfl (by simp))
    · split at h
      · simp at h; obtain ⟨rfl, rfl⟩ := h; exact frame_step g0 rfl (L_same l0 rfl rfl rfl (by simp))
      · simp at h; obtain ⟨rfl, rfl⟩ := h; exact frame_step g0 rfl (L_same l0 rfl rfl rfl (by simp))
  · -- sTryR
    simp only [step] at h
    split at h <;> (simp at h; obtain ⟨rfl, rfl⟩ := h; exact frame_step g0 rfl (L_same l0 rfl rfl rfl (by simp)))
  · -- sTryR2
    simp only [step] at h
    split at h
    · rename_i hc
      simp at h; obtain ⟨rfl, rfl⟩ := h
      have hnB : sh.dq.B = false := by simp at hc; exact hc.1.1
      refine ⟨⟨?_, ?_, ?_, ?_, gn, gxs⟩, ?_, others_keep rfl rfl (by simp) rfl (by cntfr)⟩
      · simp [hnB] at gW ⊢; omega
      · intro hb; simp [hnB] at hb
      · intro w hw; exact gs w hw
      · intro w u hw; exact gx w u hw
      · refine ⟨by simp [holdsB, After.isBar], by simp [holdsU], ?_, by simp, by simp [isDnb]⟩
        simp [unitsOf, After.isBar, List.count_cons] at lc ⊢; omega
    · simp at h; obtain ⟨rfl, rfl⟩ := h; exact frame_step g0 rfl (L_same l0 rfl rfl rfl (by simp))
  · -- sSlowPush
    simp [step] at h; obtain ⟨rfl, rfl⟩ := h
    exact frame_step g0 rfl (L_same l0 rfl rfl rfl (by simp))
  · -- sSlowLink
    simp only [step] at h
    split at h <;> (simp at h; obtain ⟨rfl, rfl⟩ := h; exact frame_step g0 rfl (L_same l0 rfl rfl rfl (by simp)))

end LaneW
