import DispatchVerif.Core.LaneWProof
namespace LaneW

macro "lauto" : tactic =>
  `(tactic| (constructor <;> (simp_all [holdsB, holdsU, unitsOf, isDnb, LockedB, kPc, List.count_cons, mem_rm] <;> (try omega) <;> try grind)))

macro "cntfr" : tactic =>
  `(tactic| (intro u hu; simp [List.count_cons, hu, Ne.symm hu]))

theorem L_frame {sh sh' : Sh} {t : Tid} {pc : Pc} (l : L sh t pc)
    (hO : sh'.dq.O = sh.dq.O) (hB : sh'.dq.B = sh.dq.B) (hs : sh'.sigB = sh.sigB) (hx : sh'.xfer = sh.xfer)
    (hh : sh'.holders = sh.holders) (hn : sh'.sigN = sh.sigN)
    (hpb : sh'.dq.pb = sh.dq.pb := by rfl) : L sh' t pc := by
  refine ⟨?_, ?_, ?_, ?_, ?_⟩
  · intro hb; have := l.ownB hb; simp only [LockedB, hO, hB, hs, hx] at *; exact this
  · intro hb; have := l.ownU hb; simp only [hO, hB] at *; exact this
  · rw [hh, hn]; exact l.cnt
  · intro w k e; rw [hx]; exact l.sg w k e
  · intro hb; rw [hpb]; exact l.npb hb

theorem kPc_props (k : K) : holdsB (kPc k) = false ∧ holdsU (kPc k) = false ∧ unitsOf (kPc k) = 0 ∧
    ∀ w k', kPc k ≠ .dbwSignal w k' := by
  cases k <;> simp [kPc, holdsB, holdsU, unitsOf]

theorem kPc_notDnb (k : K) : isDnb (kPc k) = false := by
  cases k <;> simp [kPc, isDnb]

/-- discharge `isDnb pc' = true → …` for a pc' that is not inside drain_non_barriers -/
macro "ndnb" : tactic =>
  `(tactic| (intro hdnb; first
      | (simp [isDnb] at hdnb; done)
      | (rw [kPc_notDnb] at hdnb; simp at hdnb; done)
      | (have hdnb2 := holdsU_of_isDnb hdnb; simp_all)))

/-- a thread outside barrier mode takes `n` more units (dispatch_apply's width reservation) -/
theorem take_units {W : Nat} {sh : Sh} {t : Tid} {pc pc' : Pc} (g : G W sh) (l : L sh t pc) (n : Nat)
    (hnB : sh.dq.B = false)
    (hb' : holdsB pc' = holdsB pc) (hu' : holdsU pc' = holdsU pc) (hn' : unitsOf pc' = unitsOf pc + n)
    (hs : ∀ w k, pc' ≠ .dbwSignal w k) (hd : isDnb pc' = true → isDnb pc = true) :
    Post W sh { sh with dq := { sh.dq with u := sh.dq.u + n }, holders := List.replicate n t ++ sh.holders } t pc' := by
  have hc := l.cnt
  refine ⟨⟨?_, ?_, ?_, ?_, g.nodup, g.xsig⟩, ⟨?_, ?_, ?_, ?_, ?_⟩,
    others_keep rfl rfl (by intro u hu; rfl) rfl (by intro u hu; simp [count_replicate_ne n t u sh.holders hu])⟩
  · have := g.gW; simp [hnB] at this ⊢; omega
  · intro hb; simp [hnB] at hb
  · intro w hw; exact g.sig w hw
  · intro w u hw; exact g.xf w u hw
  · intro h; exact l.ownB (hb' ▸ h)
  · intro h; exact l.ownU (hu' ▸ h)
  · simp only [count_replicate_self, hn']; omega
  · intro w k e; exact absurd e (hs w k)
  · intro h; exact l.npb (hd h)

/-- the width reservation of dispatch_apply from inside a running item -/
theorem step_apply_reserve {W : Nat} {sh : Sh} {t : Tid} {i : ItemId} {a : After} {op : Op} {sh' : Sh} {pc' : Pc}
    (g : G W sh) (l : L sh t (.running i a)) (h : (sh', pc') ∈ applyReserve W sh t i a op) : Post W sh sh' t pc' := by
  unfold applyReserve at h
  cases op with
  | apply k =>
    simp only at h
    split at h
    · simp at h
    · split at h
      · simp at h
      · rename_i hav
        split at h
        · simp at h
        · simp only [List.mem_singleton, Prod.mk.injEq] at h
          obtain ⟨rfl, rfl⟩ := h
          -- some width is available, hence the lane is not in barrier mode
          have hnB : sh.dq.B = false := by
            cases hb : sh.dq.B with
            | false => rfl
            | true =>
              have := g.gW; simp [hb] at this
              have h2 := (g.gB hb)
              simp [h2.1, h2.2.1, h2.2.2] at this
              omega
          exact take_units g l _ hnB rfl rfl (by simp [unitsOf]) (by simp) (by simp [isDnb])
  | async _ _ => simp at h
  | sync _ _ => simp at h
  | worker => simp at h

set_option maxHeartbeats 4000000 in
theorem step_client {W : Nat} (hW : 1 ≤ W) {sh : Sh} {t : Tid} {pc : Pc} {op : Op} {sh' : Sh} {pc' : Pc}
    (g : G W sh) (l : L sh t pc) (h : (sh', pc') ∈ step W sh t pc op)
    (hpc : pc = .idle ∨ (∃ i b, pc = .aStart i b) ∨ (∃ i, pc = .aTryAsync i) ∨ (∃ i b, pc = .aPush i b) ∨
           (∃ i b, pc = .pPushed i b) ∨ (∃ i b, pc = .pLinked i b) ∨ (∃ i, pc = .sTryR i) ∨ (∃ i, pc = .sTryR2 i) ∨
           (∃ i b, pc = .sSlowPush i b) ∨ (∃ i b w, pc = .sSlowLink i b w)) :
    Post W sh sh' t pc' := by
  obtain ⟨gW, gB, gs, gx, gn, gxs⟩ := g
  have g0 : G W sh := ⟨gW, gB, gs, gx, gn, gxs⟩
  obtain ⟨lB, lU, lc, lsg, lpb⟩ := l
  have l0 : L sh t pc := ⟨lB, lU, lc, lsg, lpb⟩
  rcases hpc with rfl | ⟨i, b, rfl⟩ | ⟨i, rfl⟩ | ⟨i, b, rfl⟩ | ⟨i, b, rfl⟩ | ⟨i, b, rfl⟩ | ⟨i, rfl⟩ | ⟨i, rfl⟩ | ⟨i, b, rfl⟩ | ⟨i, b, w, rfl⟩
  · -- idle
    cases op <;> simp [step] at h <;> obtain ⟨rfl, rfl⟩ := h
    · exact frame_step g0 rfl (L_same l0 rfl rfl rfl (by simp))
    · refine frame_step g0 rfl (L_same l0 ?_ ?_ ?_ ?_ ?_) <;> split <;> simp [holdsB, holdsU, unitsOf, isDnb]
    · exact frame_step g0 rfl (L_same l0 rfl rfl rfl (by simp))
  · -- aStart
    simp only [step] at h
    split at h <;> (simp at h; obtain ⟨rfl, rfl⟩ := h; exact frame_step g0 rfl (L_same l0 rfl rfl rfl (by simp)))
  · -- aTryAsync
    simp only [step] at h
    split at h
    · rename_i hc
      simp at h; obtain ⟨rfl, rfl⟩ := h
      have hnB : sh.dq.B = false := by simp [tryAcquireAsyncOk, Dq.runnable] at hc; exact hc.1.1.1
      refine ⟨⟨?_, ?_, ?_, ?_, gn, gxs⟩, ?_, others_keep rfl rfl (by simp) rfl (by cntfr)⟩
      · simp [hnB] at gW ⊢; omega
      · intro hb; simp [hnB] at hb
      · intro w hw; exact gs w hw
      · intro w u hw; exact gx w u hw
      · exact L_frame (L_same l0 rfl rfl rfl (by simp)) rfl rfl rfl rfl rfl rfl
    · simp at h; obtain ⟨rfl, rfl⟩ := h; exact frame_step g0 rfl (L_same l0 rfl rfl rfl (by simp))
  · -- aPush
    simp [step] at h; obtain ⟨rfl, rfl⟩ := h
    exact frame_step g0 rfl (L_same l0 rfl rfl rfl (by simp))
  · -- pPushed
    simp [step] at h; obtain ⟨rfl, rfl⟩ := h
    exact frame_step g0 rfl (L_same l0 rfl rfl rfl (by simp))
  · -- pLinked
    simp only [step] at h
    split at h
    · simp at h
      rcases h with ⟨rfl, rfl⟩ | ⟨rfl, rfl⟩ <;> exact frame_step g0 rfl (L_same l0 rfl rfl rfl (by simp))
    · split at h
      · simp at h; obtain ⟨rfl, rfl⟩ := h; exact frame_step g0 rfl (L_same l0 rfl rfl rfl (by simp))
      · simp at h; obtain ⟨rfl, rfl⟩ := h; exact frame_step g0 rfl (L_same l0 rfl rfl rfl (by simp))
  · -- sTryR
    simp only [step] at h
    split at h <;> (simp at h; obtain ⟨rfl, rfl⟩ := h; exact frame_step g0 rfl (L_same l0 rfl rfl rfl (by simp)))
  · -- sTryR2
    simp only [step] at h
    split at h
    · rename_i hc
      simp at h; obtain ⟨rfl, rfl⟩ := h
      have hnB : sh.dq.B = false := by simp at hc; exact hc.1.1
      refine ⟨⟨?_, ?_, ?_, ?_, gn, gxs⟩, ?_, others_keep rfl rfl (by simp) rfl (by cntfr)⟩
      · simp [hnB] at gW ⊢; omega
      · intro hb; simp [hnB] at hb
      · intro w hw; exact gs w hw
      · intro w u hw; exact gx w u hw
      · refine ⟨by simp [holdsB, After.isBar], by simp [holdsU], ?_, by simp, by simp [isDnb]⟩
        simp [unitsOf, After.isBar, List.count_cons] at lc ⊢; omega
    · simp at h; obtain ⟨rfl, rfl⟩ := h; exact frame_step g0 rfl (L_same l0 rfl rfl rfl (by simp))
  · -- sSlowPush
    simp [step] at h; obtain ⟨rfl, rfl⟩ := h
    exact frame_step g0 rfl (L_same l0 rfl rfl rfl (by simp))
  · -- sSlowLink
    simp only [step] at h
    split at h <;> (simp at h; obtain ⟨rfl, rfl⟩ := h; exact frame_step g0 rfl (L_same l0 rfl rfl rfl (by simp)))

end LaneW
