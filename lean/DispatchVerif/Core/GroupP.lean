/-! C07 calibration: dispatch_group (enter / leave / notify / wait) as a thread-modular model with
    ghost responsibility tokens; any number of threads. MPSC linking delays are elided (a push is one
    atomic append); `wake_by_address` wakes every current sleeper. -/
namespace GroupP

abbrev Tid := Nat

/-- decoded dg_state -/
structure W where
  gen : Nat := 0
  count : Nat := 0        -- outstanding enters (the C field holds −count)
  N : Bool := false       -- HAS_NOTIFS
  Wt : Bool := false      -- HAS_WAITERS
deriving DecidableEq

inductive Op | enter | leave | notify | wait
deriving DecidableEq

inductive Pc
  | idle
  | leave2 (old : W)                       -- the cmpxchg loop after the 1 → 0 transition
  | wake (st : W) (snap : Option (List Nat))
  | wakeAddr (st : W)
  | nLinked (we : Bool)                    -- notify: pushed, `we` = the list was empty
  | wSlow (g0 g : Nat)                     -- _dispatch_group_wait_slow, about to futex-wait on gen g
  | wSleep (g0 g : Nat)
  | wRet (ok : Bool) (slow : Option (Nat × Nat))   -- about to return; ghost: (gen at call, gen waited on)
deriving DecidableEq

structure Sh where
  w : W := {}
  list : List Nat := []          -- dg_notify list (continuation ids)
  woken : List Tid := []
  submitted : List Nat := []     -- ghost history: notify continuations handed to their queues
  nextId : Nat := 0
  -- ghosts
  inflight : List (Nat × Tid) := []   -- continuation ids captured in a waker's snapshot, with the waker
  firsts : List Tid := []             -- notifiers that pushed onto an empty list and have not yet published
  nwakers : List Tid := []            -- wakers that own HAS_NOTIFS and have not yet taken the snapshot
  sleepers : List Tid := []
  zeroSince : List Nat := []          -- ghost: ids whose group has been empty at or after their registration
  goodL : List Tid := []              -- leavers in the cmpxchg loop whose `old` has HAS_WAITERS or HAS_NOTIFS
  ww : List Tid := []                 -- wakers that will call wake_by_address (their state has HAS_WAITERS)
  armedL : List Tid := []             -- leavers in the cmpxchg loop whose `old` still has a bit to clear

def rm (l : List Tid) (t : Tid) : List Tid := l.filter (fun x => !decide (x = t))
def rmP (l : List (Nat × Tid)) (p : Nat × Tid) : List (Nat × Tid) := l.filter (fun x => !decide (x = p))

/-- the value the leaver tries to install -/
def cleared (old : W) : W :=
  if old.count = 0 then { old with N := false, Wt := false } else { old with N := false }

/-- the leaver must cmpxchg (its `old` differs from what it wants to install) -/
def armed (old : W) : Bool := old.N || (decide (old.count = 0) && old.Wt)

def good (old : W) : Bool := old.Wt || old.N

def step (sh : Sh) (t : Tid) (pc : Pc) (op : Op) : List (Sh × Pc) :=
  let w := sh.w
  match pc with
  | .idle =>
    match op with
    | .enter => [({ sh with w := { w with count := w.count + 1 } }, .idle)]
    | .leave =>
      if w.count = 0 then []        -- unbalanced leave: client crash
      else if w.count = 1 then
        -- 64-bit add: the carry bumps the generation
        let w' := { w with count := 0, gen := w.gen + 1 }
        [({ sh with w := w', armedL := if armed w' then t :: sh.armedL else sh.armedL,
                    goodL := if good w' then t :: sh.goodL else sh.goodL,
                    zeroSince := List.range sh.nextId }, .leave2 w')]
      else [({ sh with w := { w with count := w.count - 1 } }, .idle)]
    | .notify =>
      let we := sh.list.isEmpty
      [({ sh with list := sh.list ++ [sh.nextId], nextId := sh.nextId + 1,
                  firsts := if we then t :: sh.firsts else sh.firsts,
                  zeroSince := if w.count = 0 then sh.nextId :: sh.zeroSince else sh.zeroSince }, .nLinked we)]
    | .wait =>
      if w.count = 0 then [(sh, .wRet true none)]
      else [({ sh with w := { w with Wt := true } }, .wSlow w.gen w.gen)]
  | .leave2 old =>
    if old = cleared old then
      [({ sh with goodL := rm sh.goodL t, ww := if old.Wt then t :: sh.ww else sh.ww }, .wake old none)]
    else if w = old then
      [({ sh with w := cleared old, nwakers := if old.N then t :: sh.nwakers else sh.nwakers,
                  armedL := rm sh.armedL t, goodL := rm sh.goodL t,
                  ww := if old.Wt then t :: sh.ww else sh.ww }, .wake old none)]
    else [({ sh with armedL := if armed w then t :: rm sh.armedL t else rm sh.armedL t,
                     goodL := if good w then t :: rm sh.goodL t else rm sh.goodL t }, .leave2 w)]
  | .wake st snap =>
    if st.N then
      match snap with
      | none =>
        if sh.list.isEmpty then []     -- capture_snapshot would spin on an empty list
        else [({ sh with list := [], inflight := sh.list.map (fun i => (i, t)) ++ sh.inflight,
                         nwakers := rm sh.nwakers t }, .wake st (some sh.list))]
      | some [] => [(sh, .wakeAddr st)]
      | some (h :: r) =>
        [({ sh with submitted := h :: sh.submitted, inflight := rmP sh.inflight (h, t) }, .wake st (some r))]
    else [(sh, .wakeAddr st)]
  | .wakeAddr st =>
    if st.Wt then [({ sh with woken := sh.sleepers ++ sh.woken, ww := rm sh.ww t }, .idle)] else [(sh, .idle)]
  | .nLinked we =>
    if !we then [(sh, .idle)]
    else if w.count = 0 ∧ w.N = false ∧ w.Wt = false then
      [({ sh with firsts := rm sh.firsts t, nwakers := t :: sh.nwakers }, .wake { w with N := true } none)]
    else [({ sh with w := { w with N := true }, firsts := rm sh.firsts t }, .idle)]
  | .wSlow g0 g =>
    if w.gen ≠ g then [(sh, .wRet true (some (g0, g)))]
    else [({ sh with sleepers := t :: sh.sleepers }, .wSleep g0 g)]
  | .wSleep g0 g =>
    -- the address wait returns - because the thread was woken, or spuriously, or because a signal handler interrupted it:
    -- the caller goes round its loop and re-reads the generation
    [({ sh with woken := rm sh.woken t, sleepers := rm sh.sleepers t }, Pc.wSlow g0 g)] ++
    -- timeout
    [({ sh with woken := rm sh.woken t, sleepers := rm sh.sleepers t },
      if w.gen ≠ g then Pc.wRet true (some (g0, g)) else Pc.wRet false (some (g0, g)))]
  | .wRet _ _ => [(sh, .idle)]

structure St where
  sh : Sh
  pcs : Tid → Pc

inductive Step : St → St → Prop
  | mk (s : St) (t : Tid) (op : Op) (sh' : Sh) (pc' : Pc)
      (h : (sh', pc') ∈ step s.sh t (s.pcs t) op) :
      Step s { sh := sh', pcs := fun t' => if t' = t then pc' else s.pcs t' }

inductive Reachable : St → Prop
  | init : Reachable { sh := {}, pcs := fun _ => .idle }
  | step {s s'} : Reachable s → Step s s' → Reachable s'

end GroupP
