/-! C14, orchestration: the stream of a descriptor (one per direction, shared by all channels on the descriptor) - its list of
    operations, the requests for its handler (`_dispatch_stream_queue_handler` items on the stream's queue), and its readiness
    source, which is suspended except while the handler waits for the descriptor (`source_running`).
    `_dispatch_stream_enqueue_operation` asks for the handler when the list was empty; `_dispatch_stream_handler` performs the
    operation it picks and then: asks for itself again when an operation completed and others remain, arms the source on EAGAIN,
    cleans the channel's operations up on an error; the fired source suspends itself and runs the handler;
    `_dispatch_stream_cleanup_operations` (stop of a channel) removes that channel's operations and suspends the source when
    nothing is left.
    Two repairs are part of the model (`fixed := true`) and their absence is kept for the witnesses (`fixed := false`): the source
    is armed only when it is not running (F32), and the error path asks for the handler again when operations remain (F33). -/
namespace StreamP

structure St where
  ops : Nat := 0            -- operations on the stream's list
  pending : Nat := 0        -- handler requests queued on the stream's queue
  running : Bool := false   -- stream->source_running
  susp : Nat := 1           -- suspension count of the readiness source (created suspended; 0 = armed)
  trapped : Bool := false   -- dispatch_resume of a source that is not suspended: the library traps
deriving DecidableEq, Repr

inductive Ev
  | enqueue                  -- an operation joins the list
  | passEmpty                -- a handler request finds nothing to do
  | passComplete             -- the picked operation completes
  | passWait                 -- the picked operation meets EAGAIN
  | passErr (k : Nat)        -- the picked operation fails (its channel was stopped): k + 1 operations of that channel are removed
  | fire                     -- the readiness source fires: it suspends itself and the handler runs
  | cleanup (k : Nat)        -- a channel is stopped: k of its operations are removed
deriving DecidableEq, Repr

/-- arm the source (`dispatch_resume`) -/
def arm (s : St) : St := if s.susp = 0 then { s with trapped := true } else { s with running := true, susp := s.susp - 1 }

/-- `if (stream->source_running && !avail) { dispatch_suspend(source); source_running = false; }` -/
def quiesce (s : St) : St := if s.running ∧ s.ops = 0 then { s with running := false, susp := s.susp + 1 } else s

def step (fixed : Bool) (s : St) : Ev → Option St
  | .enqueue => some { s with ops := s.ops + 1, pending := if s.ops = 0 then s.pending + 1 else s.pending }
  | .passEmpty => if s.pending = 0 ∨ s.ops ≠ 0 then none else some { s with pending := s.pending - 1 }
  | .passComplete =>
      if s.pending = 0 ∨ s.ops = 0 then none else
        some { s with ops := s.ops - 1, pending := if s.ops - 1 = 0 then s.pending - 1 else s.pending }     -- (−1 for this pass, +1 for the next)
  | .passWait =>
      if s.pending = 0 ∨ s.ops = 0 then none else
        let s1 := { s with pending := s.pending - 1 }
        some (if fixed ∧ s1.running then s1 else arm s1)
  | .passErr k =>
      if s.pending = 0 ∨ s.ops < k + 1 then none else
        let s1 := quiesce { s with pending := s.pending - 1, ops := s.ops - (k + 1) }
        some (if fixed ∧ s1.ops ≠ 0 ∧ ¬ s1.running then { s1 with pending := s1.pending + 1 } else s1)
  | .fire => if s.running ∧ s.susp = 0 then some { s with running := false, susp := 1, pending := s.pending + 1 } else none
  | .cleanup k => if s.ops < k then none else some (quiesce { s with ops := s.ops - k })

def run (fixed : Bool) (s : St) : List Ev → Option St
  | [] => some s
  | e :: es => match step fixed s e with | none => none | some s' => run fixed s' es

inductive Reachable (fixed : Bool) : St → Prop
  | init : Reachable fixed {}
  | step {s s'} (e : Ev) : Reachable fixed s → step fixed s e = some s' → Reachable fixed s'

/-- the source is suspended exactly while it is not running, nothing has trapped, and operations are never left without either a
    pending handler request or an armed source -/
structure Inv (s : St) : Prop where
  susp : s.susp = if s.running then 0 else 1
  ok : s.trapped = false
  live : s.ops ≠ 0 → (s.pending ≠ 0 ∨ s.running = true)

theorem quiesce_inv (s : St) (h1 : s.susp = if s.running then 0 else 1) (h2 : s.trapped = false) :
    (quiesce s).susp = (if (quiesce s).running then 0 else 1) ∧ (quiesce s).trapped = false ∧ (quiesce s).ops = s.ops ∧
    (quiesce s).pending = s.pending ∧ ((quiesce s).running = true → s.running = true) ∧ (s.ops ≠ 0 → (quiesce s).running = s.running) := by
  unfold quiesce
  by_cases h : s.running ∧ s.ops = 0
  · rw [if_pos h]; obtain ⟨hr, ho⟩ := h
    refine ⟨?_, h2, rfl, rfl, ?_, ?_⟩
    · simp only [hr, if_true] at h1; simp [h1]
    · intro h'; cases h'
    · intro hn; exact absurd ho hn
  · rw [if_neg h]; exact ⟨h1, h2, rfl, rfl, id, fun _ => rfl⟩

theorem step_inv {s s' : St} {e : Ev} (hi : Inv s) (hs : step true s e = some s') : Inv s' := by
  obtain ⟨hsu, hok, hl⟩ := hi
  cases e with
  | enqueue =>
    simp only [step] at hs; cases hs
    refine ⟨hsu, hok, ?_⟩
    intro _
    by_cases h0 : s.ops = 0
    · left; simp [h0]
    · have := hl h0
      rcases this with h | h
      · left; simp [h0]; exact h
      · right; exact h
  | passEmpty =>
    simp only [step] at hs
    by_cases h : s.pending = 0 ∨ s.ops ≠ 0
    · rw [if_pos h] at hs; cases hs
    · rw [if_neg h] at hs; cases hs
      have ho : s.ops = 0 := by
        by_cases h0 : s.ops = 0
        · exact h0
        · exact absurd (Or.inr h0) h
      exact ⟨hsu, hok, fun hn => absurd ho hn⟩
  | passComplete =>
    simp only [step] at hs
    by_cases h : s.pending = 0 ∨ s.ops = 0
    · rw [if_pos h] at hs; cases hs
    · rw [if_neg h] at hs; cases hs
      have hp : s.pending ≠ 0 := fun e => h (Or.inl e)
      refine ⟨hsu, hok, ?_⟩
      intro hn
      left
      show (if s.ops - 1 = 0 then s.pending - 1 else s.pending) ≠ 0
      rw [if_neg hn]; exact hp
  | passWait =>
    simp only [step] at hs
    by_cases h : s.pending = 0 ∨ s.ops = 0
    · rw [if_pos h] at hs; cases hs
    · rw [if_neg h] at hs
      have ho : s.ops ≠ 0 := fun e => h (Or.inr e)
      by_cases hr : s.running = true
      · have : (True ∧ s.running = true) := ⟨trivial, hr⟩
        rw [if_pos this] at hs; cases hs
        exact ⟨hsu, hok, fun _ => Or.inr hr⟩
      · have hr' : s.running = false := by cases hrr : s.running <;> simp_all
        have : ¬ (True ∧ s.running = true) := by
          intro ⟨_, h2⟩; exact hr h2
        rw [if_neg this] at hs; cases hs
        have h1 : s.susp = 1 := by rw [hsu, hr']; rfl
        unfold arm
        have hne : ¬ (({ s with pending := s.pending - 1 } : St).susp = 0) := by show ¬ s.susp = 0; omega
        rw [if_neg hne]
        refine ⟨?_, hok, fun _ => Or.inr rfl⟩
        show s.susp - 1 = if true = true then 0 else 1
        simp [h1]
  | passErr k =>
    simp only [step] at hs
    by_cases h : s.pending = 0 ∨ s.ops < k + 1
    · rw [if_pos h] at hs; cases hs
    · rw [if_neg h] at hs
      obtain ⟨q1, q2, q3, q4, q5, q6⟩ := quiesce_inv { s with pending := s.pending - 1, ops := s.ops - (k + 1) } hsu hok
      by_cases hc : (True ∧ (quiesce { s with pending := s.pending - 1, ops := s.ops - (k + 1) }).ops ≠ 0 ∧
          ¬ (quiesce { s with pending := s.pending - 1, ops := s.ops - (k + 1) }).running = true)
      · rw [if_pos hc] at hs; cases hs
        exact ⟨q1, q2, fun _ => Or.inl (by show _ + 1 ≠ 0; omega)⟩
      · rw [if_neg hc] at hs; cases hs
        refine ⟨q1, q2, ?_⟩
        intro hn
        by_cases hr : (quiesce { s with pending := s.pending - 1, ops := s.ops - (k + 1) }).running = true
        · exact Or.inr hr
        · exact absurd ⟨trivial, hn, hr⟩ hc
  | fire =>
    simp only [step] at hs
    by_cases h : s.running ∧ s.susp = 0
    · rw [if_pos h] at hs; cases hs
      exact ⟨rfl, hok, fun _ => Or.inl (by show s.pending + 1 ≠ 0; omega)⟩
    · rw [if_neg h] at hs; cases hs
  | cleanup k =>
    simp only [step] at hs
    by_cases h : s.ops < k
    · rw [if_pos h] at hs; cases hs
    · rw [if_neg h] at hs; cases hs
      obtain ⟨q1, q2, q3, q4, q5, q6⟩ := quiesce_inv { s with ops := s.ops - k } hsu hok
      refine ⟨q1, q2, ?_⟩
      intro hn
      rw [q3] at hn
      have hn' : ({ s with ops := s.ops - k } : St).ops ≠ 0 := hn
      have hso : s.ops ≠ 0 := by
        intro e; apply hn'; show s.ops - k = 0; omega
      rcases hl hso with hp | hr
      · left; rw [q4]; exact hp
      · right; rw [q6 hn']; exact hr

theorem inv_reachable {s : St} (h : Reachable true s) : Inv s := by
  induction h with
  | init => exact ⟨rfl, rfl, fun h => absurd rfl h⟩
  | step e _ hs ih => exact step_inv ih hs

/-- **the readiness source is armed exactly while `source_running`, and `dispatch_resume` never meets a source that is not suspended**
    - for every history of enqueues, handler passes, source events and stops -/
theorem source_consistent {s : St} (h : Reachable true s) : s.trapped = false ∧ s.susp = (if s.running then 0 else 1) :=
  ⟨(inv_reachable h).ok, (inv_reachable h).susp⟩

/-- **no operation is left behind**: while operations are on the list a handler request is queued or the source is armed -/
theorem no_stranded_operation {s : St} (h : Reachable true s) (ho : s.ops ≠ 0) : s.pending ≠ 0 ∨ s.running = true :=
  (inv_reachable h).live ho

theorem run_reachable (fixed : Bool) (s s' : St) (es : List Ev) (hs : Reachable fixed s) (h : run fixed s es = some s') : Reachable fixed s' := by
  induction es generalizing s with
  | nil => simp only [run] at h; cases h; exact hs
  | cons e es ih =>
    simp only [run] at h
    cases hst : step fixed s e with
    | none => rw [hst] at h; cases h
    | some s1 => rw [hst] at h; exact ih s1 (.step e hs hst) h

/-- F32 as found: two reads of a channel A, the first waits (source armed), the source fires and the first completes - a second
    handler request; A is stopped (its queued read is removed), a read of B arrives on the empty list - another request; both
    requests meet an empty pipe: the second `dispatch_resume` traps. -/
def f32 : List Ev := [.enqueue, .passWait, .enqueue, .fire, .passComplete, .cleanup 1, .enqueue, .enqueue, .passWait, .passWait]

def f32End : St := ((run false {} f32).getD {})

theorem F32_as_found : ∃ s, Reachable false s ∧ s.trapped = true :=
  ⟨f32End, run_reachable false {} _ f32 .init (by decide : run false {} f32 = some f32End), by decide⟩

theorem F32_fixed : (run true {} f32).map (·.trapped) = some false := by decide

/-- F33 as found: a read of A waits, two reads of B are queued behind it, the source fires, A is stopped while the handler holds
    A's read, which fails: B's reads stay on the list with no request queued and the source suspended. -/
def f33 : List Ev := [.enqueue, .passWait, .enqueue, .enqueue, .fire, .passErr 0]

def f33End : St := ((run false {} f33).getD {})

theorem F33_as_found : ∃ s, Reachable false s ∧ s.ops = 2 ∧ s.pending = 0 ∧ s.running = false :=
  ⟨f33End, run_reachable false {} _ f33 .init (by decide : run false {} f33 = some f33End), by decide⟩

theorem F33_fixed : (run true {} f33).map (fun s => (s.ops, s.pending)) = some (2, 1) := by decide

/-! ### what a recorded run shows of the source: its suspensions and resumptions -/
/-- replay of the source's recorded transitions (`true` = resume / arm, `false` = suspend): they alternate, beginning with an arm -/
def srcReplay : Bool → List Bool → Bool
  | _, [] => true
  | armed, r :: rest => if r = armed then false else srcReplay r rest

end StreamP

section audit
#print axioms StreamP.source_consistent
#print axioms StreamP.no_stranded_operation
#print axioms StreamP.F32_as_found
#print axioms StreamP.F33_as_found
end audit
