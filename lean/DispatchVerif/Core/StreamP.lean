/-! C14, orchestration: the stream of a descriptor (one per direction, shared by all channels on the descriptor) - its list of
    operations, the requests for its handler (`_dispatch_stream_queue_handler` items on the stream's queue), and its readiness
    source, which is suspended except while the handler waits for the descriptor (`source_running`).
    `_dispatch_stream_enqueue_operation` asks for the handler when the list was empty; `_dispatch_stream_handler` performs the
    operation it picks and then: asks for itself again when an operation completed and others remain, arms the source on EAGAIN,
    cleans the channel's operations up on an error; the fired source suspends itself and runs the handler;
    `_dispatch_stream_cleanup_operations` (stop of a channel) removes that channel's operations and suspends the source when
    nothing is left.
    Three repairs are part of the model (`fixed := true`) and their absence is kept for the witnesses: the source is armed only
    when it is not running (F32) and the error path asks for the handler again when operations remain (F33) - both absent with
    `fixed := false` -, and a handler pass that leaves the list empty suspends a source that is still armed (F35; absent in
    `step35`, which has the first two repairs only). The descriptor's teardown (`_dispatch_stream_dispose`) cancels and resumes
    the source: it must find it suspended. -/
namespace StreamP

structure St where
  ops : Nat := 0            -- operations on the stream's list
  pending : Nat := 0        -- handler requests queued on the stream's queue
  running : Bool := false   -- stream->source_running
  susp : Nat := 1           -- suspension count of the readiness source (created suspended; 0 = armed)
  trapped : Bool := false   -- dispatch_resume of a source that is not suspended: the library traps
  disposed : Bool := false  -- the descriptor entry has been torn down
deriving DecidableEq, Repr

inductive Ev
  | enqueue                  -- an operation joins the list
  | passEmpty                -- a handler request finds nothing to do
  | passComplete             -- the picked operation completes
  | passWait                 -- the picked operation meets EAGAIN
  | passErr (k : Nat)        -- the picked operation fails (its channel was stopped): k + 1 operations of that channel are removed
  | fire                     -- the readiness source fires: it suspends itself and the handler runs
  | cleanup (k : Nat)        -- a channel is stopped: k of its operations are removed
  | dispose                  -- teardown of the descriptor entry: the source is cancelled and resumed
deriving DecidableEq, Repr

/-- `dispatch_resume(source)` -/
def resume (s : St) : St := if s.susp = 0 then { s with trapped := true } else { s with susp := s.susp - 1 }

/-- arm the source -/
def arm (s : St) : St := resume { s with running := true }

/-- `if (stream->source_running && !avail) { dispatch_suspend(source); source_running = false; }` -/
def quiesce (s : St) : St := if s.running ∧ s.ops = 0 then { s with running := false, susp := s.susp + 1 } else s

/-- `fixed`: F32 and F33 repaired; `q35`: F35 repaired -/
def stepG (fixed q35 : Bool) (s : St) (e : Ev) : Option St :=
  if s.disposed then none else
  match e with
  | .enqueue => some { s with ops := s.ops + 1, pending := if s.ops = 0 then s.pending + 1 else s.pending }
  | .passEmpty => if s.pending = 0 ∨ s.ops ≠ 0 then none else
      let s1 := { s with pending := s.pending - 1 }
      some (if q35 then quiesce s1 else s1)
  | .passComplete =>
      if s.pending = 0 ∨ s.ops = 0 then none else
        let s1 := { s with ops := s.ops - 1, pending := if s.ops - 1 = 0 then s.pending - 1 else s.pending }     -- (−1 for this pass, +1 for the next)
        some (if q35 then quiesce s1 else s1)
  | .passWait =>
      if s.pending = 0 ∨ s.ops = 0 then none else
        let s1 := { s with pending := s.pending - 1 }
        some (if fixed ∧ s1.running then s1 else arm s1)
  | .passErr k =>
      if s.pending = 0 ∨ s.ops < k + 1 then none else
        let s1 := quiesce { s with pending := s.pending - 1, ops := s.ops - (k + 1) }
        some (if fixed ∧ s1.ops ≠ 0 ∧ ¬ s1.running then { s1 with pending := s1.pending + 1 } else s1)
  | .fire => if s.running ∧ s.susp = 0 then some { s with running := false, susp := 1, pending := s.pending + 1 } else none
  | .cleanup k => if s.ops < k then none else some (quiesce { s with ops := s.ops - k })
  | .dispose => if s.ops ≠ 0 ∨ s.pending ≠ 0 then none else some { resume s with disposed := true }

/-- the repaired library (`fixed := true`) and the library as found (`false`) -/
def step (fixed : Bool) : St → Ev → Option St := stepG fixed fixed
/-- F32 and F33 repaired, F35 not -/
def step35 : St → Ev → Option St := stepG true false

def runG (f : St → Ev → Option St) (s : St) : List Ev → Option St
  | [] => some s
  | e :: es => match f s e with | none => none | some s' => runG f s' es

def run (fixed : Bool) : St → List Ev → Option St := runG (step fixed)

inductive ReachableG (f : St → Ev → Option St) : St → Prop
  | init : ReachableG f {}
  | step {s s'} (e : Ev) : ReachableG f s → f s e = some s' → ReachableG f s'

abbrev Reachable (fixed : Bool) := ReachableG (step fixed)

/-- while the entry lives: the source is suspended exactly while it is not running, it is not running while the list is empty,
    and operations are never left without either a pending handler request or an armed source; nothing ever traps -/
structure Inv (s : St) : Prop where
  ok : s.trapped = false
  susp : s.disposed = false → s.susp = if s.running then 0 else 1
  idle : s.disposed = false → s.ops = 0 → s.running = false
  live : s.disposed = false → s.ops ≠ 0 → (s.pending ≠ 0 ∨ s.running = true)

theorem quiesce_spec (s : St) (h1 : s.susp = if s.running then 0 else 1) :
    (quiesce s).susp = (if (quiesce s).running then 0 else 1) ∧ (quiesce s).trapped = s.trapped ∧ (quiesce s).ops = s.ops ∧
    (quiesce s).pending = s.pending ∧ (quiesce s).disposed = s.disposed ∧ (s.ops = 0 → (quiesce s).running = false) ∧
    (s.ops ≠ 0 → (quiesce s).running = s.running) := by
  unfold quiesce
  by_cases h : s.running ∧ s.ops = 0
  · rw [if_pos h]; obtain ⟨hr, ho⟩ := h
    refine ⟨?_, rfl, rfl, rfl, rfl, fun _ => rfl, fun hn => absurd ho hn⟩
    simp only [hr, if_true] at h1; simp [h1]
  · rw [if_neg h]
    refine ⟨h1, rfl, rfl, rfl, rfl, ?_, fun _ => rfl⟩
    intro ho
    cases hr : s.running
    · rfl
    · exact absurd ⟨hr, ho⟩ h

theorem step_inv {s s' : St} {e : Ev} (hi : Inv s) (hs : step true s e = some s') : Inv s' := by
  obtain ⟨hok, hsu, hid, hl⟩ := hi
  unfold step stepG at hs
  by_cases hd : s.disposed = true
  · rw [if_pos hd] at hs; cases hs
  · rw [if_neg hd] at hs
    have hd' : s.disposed = false := by cases h : s.disposed <;> simp_all
    have hsu := hsu hd'; have hid := hid hd'; have hl := hl hd'
    cases e with
    | enqueue =>
      simp only at hs; cases hs
      refine ⟨hok, fun _ => hsu, fun _ h => by simp at h, ?_⟩
      intro _ _
      by_cases h0 : s.ops = 0
      · left; simp [h0]
      · rcases hl h0 with h | h
        · left; simp [h0]; exact h
        · right; exact h
    | passEmpty =>
      simp only at hs
      by_cases h : s.pending = 0 ∨ s.ops ≠ 0
      · rw [if_pos h] at hs; cases hs
      · rw [if_neg h] at hs
        have ho : s.ops = 0 := by
          by_cases h0 : s.ops = 0
          · exact h0
          · exact absurd (Or.inr h0) h
        simp only [if_true] at hs; cases hs
        obtain ⟨q1, q2, q3, q4, q5, q6, q7⟩ := quiesce_spec { s with pending := s.pending - 1 } hsu
        refine ⟨by rw [q2]; exact hok, fun _ => q1, fun _ _ => q6 ho, ?_⟩
        intro _ hn; rw [q3] at hn; exact absurd ho hn
    | passComplete =>
      simp only at hs
      by_cases h : s.pending = 0 ∨ s.ops = 0
      · rw [if_pos h] at hs; cases hs
      · rw [if_neg h] at hs
        have hp : s.pending ≠ 0 := fun e => h (Or.inl e)
        simp only [if_true] at hs; cases hs
        obtain ⟨q1, q2, q3, q4, q5, q6, q7⟩ := quiesce_spec { s with ops := s.ops - 1, pending := if s.ops - 1 = 0 then s.pending - 1 else s.pending } hsu
        refine ⟨by rw [q2]; exact hok, fun _ => q1, fun _ ho => q6 (by rw [q3] at ho; exact ho), ?_⟩
        intro _ hn
        rw [q3] at hn
        have hn' : s.ops - 1 ≠ 0 := hn
        left; rw [q4]
        show (if s.ops - 1 = 0 then s.pending - 1 else s.pending) ≠ 0
        rw [if_neg hn']; exact hp
    | passWait =>
      simp only at hs
      by_cases h : s.pending = 0 ∨ s.ops = 0
      · rw [if_pos h] at hs; cases hs
      · rw [if_neg h] at hs
        have ho : s.ops ≠ 0 := fun e => h (Or.inr e)
        by_cases hr : s.running = true
        · have : (True ∧ s.running = true) := ⟨trivial, hr⟩
          rw [if_pos this] at hs; cases hs
          exact ⟨hok, fun _ => hsu, fun _ h0 => absurd h0 ho, fun _ _ => Or.inr hr⟩
        · have hr' : s.running = false := by cases hrr : s.running <;> simp_all
          have : ¬ (True ∧ s.running = true) := by
            intro ⟨_, h2⟩; exact hr h2
          rw [if_neg this] at hs; cases hs
          have h1 : s.susp = 1 := by rw [hsu, hr']; rfl
          unfold arm resume
          have hne : ¬ (({ s with pending := s.pending - 1, running := true } : St).susp = 0) := by show ¬ s.susp = 0; omega
          rw [if_neg hne]
          refine ⟨hok, fun _ => ?_, fun _ h0 => absurd h0 ho, fun _ _ => Or.inr rfl⟩
          show s.susp - 1 = if true = true then 0 else 1
          simp [h1]
    | passErr k =>
      simp only at hs
      by_cases h : s.pending = 0 ∨ s.ops < k + 1
      · rw [if_pos h] at hs; cases hs
      · rw [if_neg h] at hs
        obtain ⟨q1, q2, q3, q4, q5, q6, q7⟩ := quiesce_spec { s with pending := s.pending - 1, ops := s.ops - (k + 1) } hsu
        by_cases hc : (True ∧ (quiesce { s with pending := s.pending - 1, ops := s.ops - (k + 1) }).ops ≠ 0 ∧
            ¬ (quiesce { s with pending := s.pending - 1, ops := s.ops - (k + 1) }).running = true)
        · rw [if_pos hc] at hs; cases hs
          refine ⟨by show (quiesce _).trapped = false; rw [q2]; exact hok, fun _ => q1, ?_, fun _ _ => Or.inl (by show _ + 1 ≠ 0; omega)⟩
          intro _ h0; exact absurd h0 hc.2.1
        · rw [if_neg hc] at hs; cases hs
          refine ⟨by rw [q2]; exact hok, fun _ => q1, fun _ h0 => q6 (by rw [q3] at h0; exact h0), ?_⟩
          intro _ hn
          by_cases hr : (quiesce { s with pending := s.pending - 1, ops := s.ops - (k + 1) }).running = true
          · exact Or.inr hr
          · exact absurd ⟨trivial, hn, hr⟩ hc
    | fire =>
      simp only at hs
      by_cases h : s.running ∧ s.susp = 0
      · rw [if_pos h] at hs; cases hs
        exact ⟨hok, fun _ => rfl, fun _ _ => rfl, fun _ _ => Or.inl (by show s.pending + 1 ≠ 0; omega)⟩
      · rw [if_neg h] at hs; cases hs
    | cleanup k =>
      simp only at hs
      by_cases h : s.ops < k
      · rw [if_pos h] at hs; cases hs
      · rw [if_neg h] at hs; cases hs
        obtain ⟨q1, q2, q3, q4, q5, q6, q7⟩ := quiesce_spec { s with ops := s.ops - k } hsu
        refine ⟨by rw [q2]; exact hok, fun _ => q1, fun _ h0 => q6 (by rw [q3] at h0; exact h0), ?_⟩
        intro _ hn
        rw [q3] at hn
        have hn' : ({ s with ops := s.ops - k } : St).ops ≠ 0 := hn
        have hso : s.ops ≠ 0 := by
          intro e; apply hn'; show s.ops - k = 0; omega
        rcases hl hso with hp | hr
        · left; rw [q4]; exact hp
        · right; rw [q7 hn']; exact hr
    | dispose =>
      simp only at hs
      by_cases h : s.ops ≠ 0 ∨ s.pending ≠ 0
      · rw [if_pos h] at hs; cases hs
      · rw [if_neg h] at hs; cases hs
        have ho : s.ops = 0 := by
          by_cases h0 : s.ops = 0
          · exact h0
          · exact absurd (Or.inl h0) h
        have hr : s.running = false := hid ho
        have h1 : s.susp = 1 := by rw [hsu, hr]; rfl
        have hne : ¬ s.susp = 0 := by omega
        have hdt : ({ resume s with disposed := true } : St).disposed = true := rfl
        refine ⟨?_, ?_, ?_, ?_⟩
        · show (resume s).trapped = false
          unfold resume; rw [if_neg hne]; exact hok
        · intro hh; rw [hdt] at hh; cases hh
        · intro hh; rw [hdt] at hh; cases hh
        · intro hh; rw [hdt] at hh; cases hh

theorem inv_reachable {s : St} (h : Reachable true s) : Inv s := by
  induction h with
  | init => exact ⟨rfl, fun _ => rfl, fun _ _ => rfl, fun _ h => absurd rfl h⟩
  | step e _ hs ih => exact step_inv ih hs

/-- **the readiness source is armed exactly while `source_running`, and no `dispatch_resume` of it - by the handler or by the teardown -
    ever meets a source that is not suspended**, for every history of enqueues, handler passes, source events, stops and the teardown -/
theorem source_consistent {s : St} (h : Reachable true s) :
    s.trapped = false ∧ (s.disposed = false → s.susp = (if s.running then 0 else 1)) :=
  ⟨(inv_reachable h).ok, (inv_reachable h).susp⟩

/-- **no operation is left behind**: while operations are on the list a handler request is queued or the source is armed -/
theorem no_stranded_operation {s : St} (h : Reachable true s) (hd : s.disposed = false) (ho : s.ops ≠ 0) : s.pending ≠ 0 ∨ s.running = true :=
  (inv_reachable h).live hd ho

/-- **an idle stream's source is suspended** (what the teardown relies on) -/
theorem idle_source_suspended {s : St} (h : Reachable true s) (hd : s.disposed = false) (ho : s.ops = 0) : s.running = false ∧ s.susp = 1 := by
  have hr := (inv_reachable h).idle hd ho
  have := (inv_reachable h).susp hd
  rw [hr] at this
  exact ⟨hr, this⟩

theorem run_reachable (f : St → Ev → Option St) (s s' : St) (es : List Ev) (hs : ReachableG f s) (h : runG f s es = some s') : ReachableG f s' := by
  induction es generalizing s with
  | nil => simp only [runG] at h; cases h; exact hs
  | cons e es ih =>
    simp only [runG] at h
    cases hst : f s e with
    | none => rw [hst] at h; cases h
    | some s1 => rw [hst] at h; exact ih s1 (.step e hs hst) h

/-- F32 as found: two reads of a channel A, the first waits (source armed), the source fires and the first completes - a second
    handler request; A is stopped (its queued read is removed), a read of B arrives on the empty list - another request; both
    requests meet an empty pipe: the second `dispatch_resume` traps. -/
def f32 : List Ev := [.enqueue, .passWait, .enqueue, .fire, .passComplete, .cleanup 1, .enqueue, .enqueue, .passWait, .passWait]
def f32End : St := ((run false {} f32).getD {})

theorem F32_as_found : ∃ s, Reachable false s ∧ s.trapped = true :=
  ⟨f32End, run_reachable _ {} _ f32 .init (by decide : runG (step false) {} f32 = some f32End), by decide⟩

theorem F32_fixed : (run true {} f32).map (·.trapped) = some false := by decide

/-- F33 as found: a read of A waits, two reads of B are queued behind it, the source fires, A is stopped while the handler holds
    A's read, which fails: B's reads stay on the list with no request queued and the source suspended. -/
def f33 : List Ev := [.enqueue, .passWait, .enqueue, .enqueue, .fire, .passErr 0]
def f33End : St := ((run false {} f33).getD {})

theorem F33_as_found : ∃ s, Reachable false s ∧ s.ops = 2 ∧ s.pending = 0 ∧ s.running = false :=
  ⟨f33End, run_reachable _ {} _ f33 .init (by decide : runG (step false) {} f33 = some f33End), by decide⟩

theorem F33_fixed : (run true {} f33).map (fun s => (s.ops, s.pending)) = some (2, 1) := by decide

/-- F35 with the first two repairs in place: two handler requests are queued (as in F32); the first meets an empty pipe and arms the
    source, data arrives, the second request reads it and completes the last operation - the list is empty with the source still
    armed; the teardown's `dispatch_resume` traps. -/
def f35 : List Ev := [.enqueue, .enqueue, .passComplete, .cleanup 1, .enqueue, .passWait, .passComplete, .dispose]
def f35End : St := ((runG step35 {} f35).getD {})

theorem F35_as_found : ∃ s, ReachableG step35 s ∧ s.trapped = true :=
  ⟨f35End, run_reachable _ {} _ f35 .init (by decide : runG step35 {} f35 = some f35End), by decide⟩

theorem F35_fixed : (run true {} f35).map (·.trapped) = some false := by decide

/-! ### what a recorded run shows of the source: its suspensions and resumptions -/
/-- replay of the source's recorded transitions (`true` = resume / arm, `false` = suspend): they alternate, beginning with an arm -/
def srcReplay : Bool → List Bool → Bool
  | _, [] => true
  | armed, r :: rest => if r = armed then false else srcReplay r rest

end StreamP

section audit
#print axioms StreamP.source_consistent
#print axioms StreamP.no_stranded_operation
#print axioms StreamP.idle_source_suspended
#print axioms StreamP.F32_as_found
#print axioms StreamP.F33_as_found
#print axioms StreamP.F35_as_found
end audit
