/-! C13, last clause: "a buffer's destructor runs exactly once, only after the object and everything derived from it have been
    released". Reference counting of dispatch_data objects (src/data.c): a leaf owns a buffer; a composite (result of concat /
    subrange / copy_region on a composite) holds records that point at LEAVES and retains each of them once per record; a client
    holds references to objects. An object whose count drops to zero is disposed of: a leaf runs its destructor, a composite
    releases the leaf of each of its records. -/
namespace DataRc

abbrev Id := Nat

inductive Kind
  | leaf
  | comp (recs : List Id)       -- the leaves the records point at (with multiplicity)
deriving DecidableEq

structure Obj where
  kind : Kind
  client : Nat                  -- references held by the client
  live : Bool := true           -- not yet disposed of
deriving DecidableEq

structure St where
  objs : List Obj := []         -- object i is objs[i]
  destroyed : List Id := []     -- leaves whose destructor has run, in order
deriving DecidableEq

def recsOf (o : Obj) : List Id := match o.kind with | .leaf => [] | .comp rs => rs

/-- the leaves an object's bytes live in -/
def leavesOf (s : St) (i : Id) : List Id :=
  match s.objs[i]? with
  | some o => (match o.kind with | .leaf => [i] | .comp rs => rs)
  | none => []

/-- references a live object holds on leaf `l`: one per record -/
def holds (o : Obj) (l : Id) : Nat := if o.live then (recsOf o).count l else 0

/-- internal references to leaf `l` -/
def internalRefs (objs : List Obj) (l : Id) : Nat := (objs.map (holds · l)).sum

def refs (s : St) (i : Id) : Nat :=
  match s.objs[i]? with
  | some o => o.client + internalRefs s.objs i
  | none => 0

inductive Op
  | create                       -- dispatch_data_create: a new leaf, one client reference
  | derive (srcs recs : List Id) -- concat / subrange / copy_region / map-by-reference: a new object whose records point at `recs`, leaves of `srcs`
  | retain (i : Id)
  | release (i : Id)

/-- dispose of every leaf in the list whose count has dropped to zero (its destructor runs) -/
def sweep (s : St) : List Id → St
  | [] => s
  | l :: ls =>
    match s.objs[l]? with
    | some o =>
      if o.live = true ∧ o.kind = .leaf ∧ refs s l = 0 then
        sweep { objs := s.objs.set l { o with live := false }, destroyed := s.destroyed ++ [l] } ls
      else sweep s ls
    | none => sweep s ls

def held (s : St) (i : Id) : Bool := match s.objs[i]? with | some o => o.live && decide (0 < o.client) | none => false

def step (s : St) : Op → Option St
  | .create => some { s with objs := s.objs ++ [{ kind := .leaf, client := 1 }] }
  | .derive srcs recs =>
    -- every source is an object the client holds; the new records point at leaves of the sources
    if srcs.all (held s) ∧ recs.all (fun r => (srcs.flatMap (leavesOf s)).contains r) then
      some { s with objs := s.objs ++ [{ kind := .comp recs, client := 1 }] }
    else none
  | .retain i =>
    match s.objs[i]? with
    | some o => if o.live = true ∧ 0 < o.client then some { s with objs := s.objs.set i { o with client := o.client + 1 } } else none
    | none => none
  | .release i =>
    match s.objs[i]? with
    | some o =>
      if o.live = true ∧ 0 < o.client then
        match o.kind with
        | .leaf => some (sweep { s with objs := s.objs.set i { o with client := o.client - 1 } } [i])
        | .comp rs =>
          if o.client = 1 then some (sweep { s with objs := s.objs.set i { o with client := 0, live := false } } rs)
          else some { s with objs := s.objs.set i { o with client := o.client - 1 } }
      else none
    | none => none

def run : St → List Op → Option St
  | s, [] => some s
  | s, op :: ops => match step s op with | some s' => run s' ops | none => none

/-! ### sums -/

theorem sum_zero_iff (l : List Nat) : l.sum = 0 ↔ ∀ x ∈ l, x = 0 := by
  induction l with
  | nil => simp
  | cons a l ih => simp only [List.sum_cons, List.mem_cons, forall_eq_or_imp]; rw [← ih]; omega

theorem internalRefs_zero_iff (objs : List Obj) (l : Id) :
    internalRefs objs l = 0 ↔ ∀ o ∈ objs, o.live = true → l ∉ recsOf o := by
  unfold internalRefs
  rw [sum_zero_iff]
  constructor
  · intro h o ho hl hm
    have := h (holds o l) (List.mem_map.mpr ⟨o, ho, rfl⟩)
    unfold holds at this
    rw [if_pos hl] at this
    exact (List.count_eq_zero.mp this) hm
  · intro h x hx
    obtain ⟨o, ho, rfl⟩ := List.mem_map.mp hx
    unfold holds
    by_cases hl : o.live = true
    · rw [if_pos hl]; exact List.count_eq_zero.mpr (h o ho hl)
    · rw [if_neg hl]

/-! ### safety: a destructor runs at most once, and only when nothing live holds bytes of the buffer -/

structure Safe (s : St) : Prop where
  nodup : s.destroyed.Nodup
  dead_iff : ∀ (l : Id) (o : Obj), s.objs[l]? = some o → o.kind = .leaf → (o.live = false ↔ l ∈ s.destroyed)
  destroyed_leaf : ∀ l ∈ s.destroyed, ∃ o : Obj, s.objs[l]? = some o ∧ o.kind = .leaf
  dead_unref : ∀ (l : Id) (o : Obj), s.objs[l]? = some o → o.live = false → o.client = 0
  safe : ∀ l ∈ s.destroyed, ∀ o ∈ s.objs, o.live = true → l ∉ recsOf o

theorem mem_of_getElem? {l : List Obj} {i : Nat} {o : Obj} (h : l[i]? = some o) : o ∈ l :=
  List.mem_of_getElem? h

theorem getElem?_of_mem {l : List Obj} {o : Obj} (h : o ∈ l) : ∃ i : Nat, l[i]? = some o := by
  obtain ⟨i, hi, he⟩ := List.getElem_of_mem h
  exact ⟨i, by rw [List.getElem?_eq_getElem hi, he]⟩

/-- killing a leaf whose count is zero keeps the invariant -/
theorem safe_kill {s : St} (h : Safe s) (l : Id) (o : Obj) (ho : s.objs[l]? = some o) (hl : o.live = true)
    (hk : o.kind = .leaf) (hr : refs s l = 0) :
    Safe { objs := s.objs.set l { o with live := false }, destroyed := s.destroyed ++ [l] } := by
  have hlt : l < s.objs.length := by
    by_cases hlt : l < s.objs.length
    · exact hlt
    · rw [List.getElem?_eq_none (Nat.le_of_not_lt hlt)] at ho; cases ho
  have hnd : l ∉ s.destroyed := fun hm => by
    have := (h.dead_iff l o ho hk).mpr hm; rw [hl] at this; cases this
  have hr' : o.client = 0 ∧ internalRefs s.objs l = 0 := by
    unfold refs at hr; rw [ho] at hr; simp only [] at hr; omega
  have hnone := (internalRefs_zero_iff s.objs l).mp hr'.2
  constructor
  · simp only []
    rw [List.nodup_append]
    refine ⟨h.nodup, by simp, ?_⟩
    intro a ha b hb e
    simp at hb; subst hb; subst e; exact hnd ha
  · intro j oj hj hkj
    simp only [] at hj ⊢
    by_cases e : l = j
    · subst e
      rw [List.getElem?_set_self hlt] at hj
      injection hj with hj; subst hj
      simp
    · rw [List.getElem?_set_ne e] at hj
      rw [h.dead_iff j oj hj hkj]
      simp only [List.mem_append, List.mem_singleton]
      constructor
      · intro hm; exact Or.inl hm
      · rintro (hm | hm)
        · exact hm
        · exact absurd hm.symm e
  · intro j hj
    simp only [List.mem_append, List.mem_singleton] at hj
    simp only []
    rcases hj with hj | hj
    · obtain ⟨oj, h1, h2⟩ := h.destroyed_leaf j hj
      by_cases e : l = j
      · subst e; exact absurd hj hnd
      · exact ⟨oj, by rw [List.getElem?_set_ne e]; exact h1, h2⟩
    · subst hj
      exact ⟨_, List.getElem?_set_self hlt, hk⟩
  · intro j oj hj hd
    simp only [] at hj
    by_cases e : l = j
    · subst e
      rw [List.getElem?_set_self hlt] at hj
      injection hj with hj; subst hj
      exact hr'.1
    · rw [List.getElem?_set_ne e] at hj
      exact h.dead_unref j oj hj hd
  · intro j hj x hx hxl
    simp only [List.mem_append, List.mem_singleton] at hj
    simp only [] at hx
    rcases List.mem_or_eq_of_mem_set hx with hx' | hx'
    · rcases hj with hj | hj
      · exact h.safe j hj x hx' hxl
      · rw [hj]; exact hnone x hx' hxl
    · rw [hx'] at hxl; simp at hxl

theorem safe_sweep : ∀ (ls : List Id) (s : St), Safe s → Safe (sweep s ls) := by
  intro ls
  induction ls with
  | nil => intro s h; exact h
  | cons l ls ih =>
    intro s h
    simp only [sweep]
    cases ho : s.objs[l]? with
    | none => exact ih s h
    | some o =>
      simp only []
      by_cases hc : o.live = true ∧ o.kind = .leaf ∧ refs s l = 0
      · rw [if_pos hc]
        exact ih _ (safe_kill h l o ho hc.1 hc.2.1 hc.2.2)
      · rw [if_neg hc]; exact ih s h

theorem lt_of_getElem? {l : List Obj} {i : Nat} {o : Obj} (h : l[i]? = some o) : i < l.length := by
  by_cases hlt : i < l.length
  · exact hlt
  · rw [List.getElem?_eq_none (Nat.le_of_not_lt hlt)] at h; cases h

/-- replacing an object by one of the same kind that is not resurrected, keeps a leaf's liveness, and has no client
    references when dead -/
theorem safe_set {s : St} (h : Safe s) (i : Id) (o o' : Obj) (ho : s.objs[i]? = some o)
    (hk : o'.kind = o.kind) (hres : o'.live = true → o.live = true) (hleaf : o.kind = .leaf → o'.live = o.live)
    (hd : o'.live = false → o'.client = 0) : Safe { s with objs := s.objs.set i o' } := by
  have hlt := lt_of_getElem? ho
  constructor
  · exact h.nodup
  · intro j oj hj hkj
    simp only [] at hj ⊢
    by_cases e : i = j
    · subst e
      rw [List.getElem?_set_self hlt] at hj
      injection hj with hj; subst hj
      rw [hk] at hkj
      rw [hleaf hkj]
      exact h.dead_iff i o ho hkj
    · rw [List.getElem?_set_ne e] at hj
      exact h.dead_iff j oj hj hkj
  · intro j hj
    obtain ⟨oj, h1, h2⟩ := h.destroyed_leaf j hj
    simp only []
    by_cases e : i = j
    · subst e
      rw [ho] at h1; injection h1 with h1; subst h1
      exact ⟨o', List.getElem?_set_self hlt, by rw [hk]; exact h2⟩
    · exact ⟨oj, by rw [List.getElem?_set_ne e]; exact h1, h2⟩
  · intro j oj hj hdj
    simp only [] at hj
    by_cases e : i = j
    · subst e
      rw [List.getElem?_set_self hlt] at hj
      injection hj with hj; subst hj
      exact hd hdj
    · rw [List.getElem?_set_ne e] at hj
      exact h.dead_unref j oj hj hdj
  · intro j hj x hx hxl
    simp only [] at hx
    rcases List.mem_or_eq_of_mem_set hx with hx' | hx'
    · exact h.safe j hj x hx' hxl
    · rw [hx'] at hxl ⊢
      have : recsOf o' = recsOf o := by unfold recsOf; rw [hk]
      rw [this]
      exact h.safe j hj o (mem_of_getElem? ho) (hres hxl)

/-- appending a fresh live object whose records avoid every destroyed leaf -/
theorem safe_append {s : St} (h : Safe s) (o : Obj) (hl : o.live = true)
    (hrec : ∀ l ∈ s.destroyed, l ∉ recsOf o) : Safe { s with objs := s.objs ++ [o] } := by
  constructor
  · exact h.nodup
  · intro j oj hj hkj
    simp only [] at hj ⊢
    by_cases hlt : j < s.objs.length
    · rw [List.getElem?_append_left hlt] at hj
      exact h.dead_iff j oj hj hkj
    · have hje : j = s.objs.length := by
        have hlen : j < s.objs.length + 1 := by simpa using lt_of_getElem? hj
        exact Nat.le_antisymm (Nat.lt_succ_iff.mp hlen) (Nat.le_of_not_lt hlt)
      subst hje
      rw [List.getElem?_append_right (Nat.le_refl _)] at hj
      simp at hj; subst hj
      constructor
      · intro hf; rw [hl] at hf; cases hf
      · intro hm
        obtain ⟨x, hx, _⟩ := h.destroyed_leaf _ hm
        have := lt_of_getElem? hx
        omega
  · intro j hj
    obtain ⟨oj, h1, h2⟩ := h.destroyed_leaf j hj
    exact ⟨oj, by simp only []; rw [List.getElem?_append_left (lt_of_getElem? h1)]; exact h1, h2⟩
  · intro j oj hj hdj
    simp only [] at hj
    by_cases hlt : j < s.objs.length
    · rw [List.getElem?_append_left hlt] at hj
      exact h.dead_unref j oj hj hdj
    · have hje : j = s.objs.length := by
        have hlen : j < s.objs.length + 1 := by simpa using lt_of_getElem? hj
        exact Nat.le_antisymm (Nat.lt_succ_iff.mp hlen) (Nat.le_of_not_lt hlt)
      subst hje
      rw [List.getElem?_append_right (Nat.le_refl _)] at hj
      simp at hj; subst hj
      rw [hl] at hdj; cases hdj
  · intro j hj x hx hxl
    simp only [List.mem_append, List.mem_singleton] at hx
    rcases hx with hx | hx
    · exact h.safe j hj x hx hxl
    · subst hx; exact hrec j hj

/-- **safety is kept by every operation** -/
theorem safe_step {s s' : St} (h : Safe s) (op : Op) (hs : step s op = some s') : Safe s' := by
  cases op with
  | create =>
    simp only [step] at hs; injection hs with hs; subst hs
    exact safe_append h _ rfl (by intro l _; simp [recsOf])
  | derive srcs recs =>
    simp only [step] at hs
    split at hs
    · rename_i hall
      injection hs with hs; subst hs
      apply safe_append h _ rfl
      intro l hl hm
      simp only [recsOf] at hm
      have hsub := List.all_eq_true.mp hall.2 l hm
      have hm' : l ∈ srcs.flatMap (leavesOf s) := by simpa using hsub
      simp only [List.mem_flatMap] at hm'
      obtain ⟨i, hi, hli⟩ := hm'
      have hheld := List.all_eq_true.mp hall.1 i hi
      unfold held at hheld
      unfold leavesOf at hli
      cases ho : s.objs[i]? with
      | none => rw [ho] at hheld; cases hheld
      | some o =>
        rw [ho] at hheld hli
        simp only [Bool.and_eq_true, decide_eq_true_eq] at hheld
        simp only [] at hli
        cases hk : o.kind with
        | leaf =>
          rw [hk] at hli
          simp at hli; subst hli
          have := (h.dead_iff l o ho hk).mpr hl
          rw [hheld.1] at this; cases this
        | comp rs =>
          rw [hk] at hli
          have := h.safe l hl o (mem_of_getElem? ho) hheld.1
          unfold recsOf at this; rw [hk] at this
          exact this hli
    · cases hs
  | retain i =>
    simp only [step] at hs
    cases ho : s.objs[i]? with
    | none => rw [ho] at hs; cases hs
    | some o =>
      rw [ho] at hs
      simp only [] at hs
      split at hs
      · rename_i hc
        injection hs with hs; subst hs
        exact safe_set h i o _ ho rfl (fun _ => hc.1) (fun _ => rfl) (by intro hf; simp only [] at hf; rw [hc.1] at hf; cases hf)
      · cases hs
  | release i =>
    simp only [step] at hs
    cases ho : s.objs[i]? with
    | none => rw [ho] at hs; cases hs
    | some o =>
      rw [ho] at hs
      simp only [] at hs
      split at hs
      · rename_i hc
        cases hk : o.kind with
        | leaf =>
          rw [hk] at hs
          simp only [] at hs
          injection hs with hs; subst hs
          apply safe_sweep
          exact safe_set h i o _ ho hk.symm (fun _ => hc.1) (fun _ => rfl) (by intro hf; simp only [] at hf; rw [hc.1] at hf; cases hf)
        | comp rs =>
          rw [hk] at hs
          simp only [] at hs
          split at hs
          · injection hs with hs; subst hs
            apply safe_sweep
            exact safe_set h i o _ ho hk.symm (by intro hf; simp at hf) (by intro hl; rw [hk] at hl; cases hl) (fun _ => rfl)
          · injection hs with hs; subst hs
            exact safe_set h i o _ ho hk.symm (fun _ => hc.1) (fun _ => rfl) (by intro hf; simp only [] at hf; rw [hc.1] at hf; cases hf)
      · cases hs

theorem safe_init : Safe {} := ⟨List.nodup_nil, by intro l o h; simp at h, by intro l h; simp at h, by intro l o h; simp at h, by intro l h; simp at h⟩

theorem safe_run : ∀ (ops : List Op) (s s' : St), Safe s → run s ops = some s' → Safe s' := by
  intro ops
  induction ops with
  | nil => intro s s' h hr; simp [run] at hr; subst hr; exact h
  | cons op ops ih =>
    intro s s' h hr
    simp only [run] at hr
    cases hs : step s op with
    | none => rw [hs] at hr; cases hr
    | some s1 => rw [hs] at hr; exact ih s1 s' (safe_step h op hs) hr

/-- **a buffer's destructor runs at most once, and only after the object and everything derived from it have been released**:
    after any sequence of operations, no leaf is destroyed twice, a destroyed leaf has no client reference, and no live object
    has a record in it -/
theorem destructor_once_and_not_early (ops : List Op) (s : St) (h : run {} ops = some s) :
    s.destroyed.Nodup ∧
    (∀ l ∈ s.destroyed, ∃ o : Obj, s.objs[l]? = some o ∧ o.kind = .leaf ∧ o.client = 0 ∧ o.live = false) ∧
    (∀ l ∈ s.destroyed, ∀ o ∈ s.objs, o.live = true → l ∉ recsOf o) := by
  have hs := safe_run ops {} s safe_init h
  refine ⟨hs.nodup, ?_, hs.safe⟩
  intro l hl
  obtain ⟨o, h1, h2⟩ := hs.destroyed_leaf l hl
  have hd := (hs.dead_iff l o h1 h2).mpr hl
  exact ⟨o, h1, h2, hs.dead_unref l o h1 hd, hd⟩

/-! ### completeness: once everything has been released, every buffer's destructor has run -/

theorem internalRefs_append (objs : List Obj) (o : Obj) (l : Id) :
    internalRefs (objs ++ [o]) l = internalRefs objs l + holds o l := by
  unfold internalRefs; simp

theorem internalRefs_set (objs : List Obj) (i : Nat) (o o' : Obj) (l : Id) (h : objs[i]? = some o) :
    internalRefs (objs.set i o') l + holds o l = internalRefs objs l + holds o' l := by
  induction objs generalizing i with
  | nil => simp at h
  | cons a objs ih =>
    cases i with
    | zero =>
      simp at h; subst h
      simp [internalRefs]; omega
    | succ i =>
      simp at h
      have := ih i h
      simp only [internalRefs, List.set_cons_succ, List.map_cons, List.sum_cons] at this ⊢
      omega

theorem holds_leaf (o : Obj) (l : Id) (h : o.kind = .leaf) : holds o l = 0 := by
  unfold holds recsOf; rw [h]; split <;> simp

structure Live (s : St) : Prop where
  leaf_ref : ∀ (l : Id) (o : Obj), s.objs[l]? = some o → o.kind = .leaf → o.live = true → 0 < refs s l
  comp_live : ∀ (i : Id) (o : Obj) (rs : List Id), s.objs[i]? = some o → o.kind = .comp rs → (o.live = true ↔ 0 < o.client)

/-- replacing a leaf object (same kind) does not change anybody's internal references -/
theorem internalRefs_set_leaf (objs : List Obj) (i : Nat) (o o' : Obj) (l : Id) (h : objs[i]? = some o)
    (hk : o.kind = .leaf) (hk' : o'.kind = .leaf) : internalRefs (objs.set i o') l = internalRefs objs l := by
  have := internalRefs_set objs i o o' l h
  rw [holds_leaf o l hk, holds_leaf o' l hk'] at this
  omega

/-- what a sweep leaves behind: leaves of the list that are still live are referenced; nothing else changes its count;
    composites are untouched -/
theorem sweep_post : ∀ (ls : List Id) (s : St),
    (∀ (j : Id) (o : Obj), (sweep s ls).objs[j]? = some o → o.kind = .leaf → o.live = true →
        (j ∈ ls → 0 < refs (sweep s ls) j) ∧ (∃ o0 : Obj, s.objs[j]? = some o0 ∧ o0.kind = .leaf ∧ o0.live = true ∧ refs (sweep s ls) j = refs s j)) ∧
    (∀ (j : Id) (o : Obj) (rs : List Id), (sweep s ls).objs[j]? = some o → o.kind = .comp rs → s.objs[j]? = some o) := by
  intro ls
  induction ls with
  | nil =>
    intro s
    refine ⟨fun j o hj hk hl => ⟨fun hm => absurd hm (by simp), ⟨o, hj, hk, hl, rfl⟩⟩, fun j o rs hj _ => hj⟩
  | cons l ls ih =>
    intro s
    simp only [sweep]
    cases ho : s.objs[l]? with
    | none =>
      simp only []
      obtain ⟨h1, h2⟩ := ih s
      refine ⟨fun j o hj hk hl => ?_, h2⟩
      obtain ⟨a, b⟩ := h1 j o hj hk hl
      refine ⟨fun hm => ?_, b⟩
      rcases List.mem_cons.mp hm with e | hm'
      · obtain ⟨o0, h0, _⟩ := b; rw [e, ho] at h0; cases h0
      · exact a hm'
    | some ol =>
      simp only []
      by_cases hc : ol.live = true ∧ ol.kind = .leaf ∧ refs s l = 0
      · rw [if_pos hc]
        -- the leaf is killed
        have hlt := lt_of_getElem? ho
        let s1 : St := { objs := s.objs.set l { ol with live := false }, destroyed := s.destroyed ++ [l] }
        have hrefs : ∀ j, j ≠ l → refs s1 j = refs s j := by
          intro j hne
          unfold refs
          show (match (s.objs.set l { ol with live := false })[j]? with | some o => o.client + internalRefs (s.objs.set l { ol with live := false }) j | none => 0) = _
          rw [List.getElem?_set_ne (Ne.symm hne), internalRefs_set_leaf s.objs l ol { ol with live := false } j ho hc.2.1 hc.2.1]
        obtain ⟨h1, h2⟩ := ih s1
        refine ⟨fun j o hj hk hl => ?_, fun j o rs hj hk => ?_⟩
        · obtain ⟨a, o0, b0, b1, b2, b3⟩ := h1 j o hj hk hl
          have hne : j ≠ l := by
            intro e; subst e
            have : s1.objs[j]? = some { ol with live := false } := List.getElem?_set_self hlt
            rw [this] at b0; injection b0 with b0; rw [← b0] at b2; cases b2
          have b0' : s.objs[j]? = some o0 := by
            have : s1.objs[j]? = s.objs[j]? := List.getElem?_set_ne (Ne.symm hne)
            rw [← this]; exact b0
          refine ⟨fun hm => ?_, ⟨o0, b0', b1, b2, by rw [b3, hrefs j hne]⟩⟩
          rcases List.mem_cons.mp hm with e | hm'
          · exact absurd e hne
          · exact a hm'
        · have hs1 := h2 j o rs hj hk
          by_cases e : l = j
          · subst e
            have : s1.objs[l]? = some { ol with live := false } := List.getElem?_set_self hlt
            rw [this] at hs1; injection hs1 with hs1
            rw [← hs1] at hk; simp only [] at hk; rw [hc.2.1] at hk; cases hk
          · have : s1.objs[j]? = s.objs[j]? := List.getElem?_set_ne e
            rw [← this]; exact hs1
      · rw [if_neg hc]
        obtain ⟨h1, h2⟩ := ih s
        refine ⟨fun j o hj hk hl => ?_, h2⟩
        obtain ⟨a, o0, b0, b1, b2, b3⟩ := h1 j o hj hk hl
        refine ⟨fun hm => ?_, ⟨o0, b0, b1, b2, b3⟩⟩
        rcases List.mem_cons.mp hm with e | hm'
        · subst e
          rw [ho] at b0; injection b0 with b0; subst b0
          rw [b3]
          have : ¬ refs s j = 0 := fun hz => hc ⟨b2, b1, hz⟩
          omega
        · exact a hm'

theorem refs_append_old (s : St) (o : Obj) (j : Id) (oj : Obj) (hj : s.objs[j]? = some oj) :
    refs { s with objs := s.objs ++ [o] } j = refs s j + holds o j := by
  unfold refs
  simp only []
  rw [List.getElem?_append_left (lt_of_getElem? hj), hj, internalRefs_append]
  simp only []; omega

/-- replacing object `i` by one that holds the same records: nobody else's count changes -/
theorem refs_set_other (s : St) (i : Id) (o o' : Obj) (hi : s.objs[i]? = some o) (j : Id) (hne : j ≠ i)
    (hh : holds o' j = holds o j) : refs { s with objs := s.objs.set i o' } j = refs s j := by
  unfold refs
  simp only []
  rw [List.getElem?_set_ne (Ne.symm hne)]
  have := internalRefs_set s.objs i o o' j hi
  cases s.objs[j]? with
  | none => rfl
  | some oj => simp only []; omega

theorem holds_same (o o' : Obj) (j : Id) (hk : o'.kind = o.kind) (hl : o'.live = o.live) : holds o' j = holds o j := by
  unfold holds recsOf; rw [hk, hl]

theorem live_append {s : St} (h : Live s) (o : Obj) (hl : o.live = true) (hc : 0 < o.client) :
    Live { s with objs := s.objs ++ [o] } := by
  constructor
  · intro j oj hj hk hlj
    simp only [] at hj
    by_cases hlt : j < s.objs.length
    · rw [List.getElem?_append_left hlt] at hj
      rw [refs_append_old s o j oj hj]
      have := h.leaf_ref j oj hj hk hlj
      omega
    · have hlen : j < s.objs.length + 1 := by simpa using lt_of_getElem? hj
      have hje : j = s.objs.length := Nat.le_antisymm (Nat.lt_succ_iff.mp hlen) (Nat.le_of_not_lt hlt)
      subst hje
      unfold refs
      simp only []
      rw [List.getElem?_append_right (Nat.le_refl _)]
      simp; omega
  · intro j oj rs hj hk
    simp only [] at hj
    by_cases hlt : j < s.objs.length
    · rw [List.getElem?_append_left hlt] at hj
      exact h.comp_live j oj rs hj hk
    · have hlen : j < s.objs.length + 1 := by simpa using lt_of_getElem? hj
      have hje : j = s.objs.length := Nat.le_antisymm (Nat.lt_succ_iff.mp hlen) (Nat.le_of_not_lt hlt)
      subst hje
      rw [List.getElem?_append_right (Nat.le_refl _)] at hj
      simp at hj; subst hj
      simp [hl, hc]

/-- changing only the client count of a held object (it stays positive) -/
theorem live_set_client {s : St} (h : Live s) (i : Id) (o : Obj) (c : Nat) (hi : s.objs[i]? = some o)
    (hl : o.live = true) (hc : 0 < c) : Live { s with objs := s.objs.set i { o with client := c } } := by
  have hlt := lt_of_getElem? hi
  constructor
  · intro j oj hj hk hlj
    simp only [] at hj
    by_cases e : j = i
    · subst e
      rw [List.getElem?_set_self hlt] at hj
      injection hj with hj; subst hj
      unfold refs
      simp only []
      rw [List.getElem?_set_self hlt]
      simp only []; omega
    · rw [List.getElem?_set_ne (Ne.symm e)] at hj
      rw [refs_set_other s i o { o with client := c } hi j e (holds_same o _ j rfl rfl)]
      exact h.leaf_ref j oj hj hk hlj
  · intro j oj rs hj hk
    simp only [] at hj
    by_cases e : j = i
    · subst e
      rw [List.getElem?_set_self hlt] at hj
      injection hj with hj; subst hj
      simp [hl, hc]
    · rw [List.getElem?_set_ne (Ne.symm e)] at hj
      exact h.comp_live j oj rs hj hk

theorem live_sweep (s1 : St) (ls : List Id)
    (hA : ∀ (j : Id) (o : Obj), s1.objs[j]? = some o → o.kind = .leaf → o.live = true → j ∉ ls → 0 < refs s1 j)
    (hB : ∀ (i : Id) (o : Obj) (rs : List Id), s1.objs[i]? = some o → o.kind = .comp rs → (o.live = true ↔ 0 < o.client)) :
    Live (sweep s1 ls) := by
  obtain ⟨p1, p2⟩ := sweep_post ls s1
  constructor
  · intro j o hj hk hl
    obtain ⟨a, o0, b0, b1, b2, b3⟩ := p1 j o hj hk hl
    by_cases hm : j ∈ ls
    · exact a hm
    · rw [b3]; exact hA j o0 b0 b1 b2 hm
  · intro j o rs hj hk
    exact hB j o rs (p2 j o rs hj hk) hk

/-- **the Live invariant is kept by every operation** -/
theorem live_step {s s' : St} (h : Live s) (op : Op) (hs : step s op = some s') : Live s' := by
  cases op with
  | create =>
    simp only [step] at hs; injection hs with hs; subst hs
    exact live_append h _ rfl (by decide)
  | derive srcs recs =>
    simp only [step] at hs
    split at hs
    · injection hs with hs; subst hs
      exact live_append h _ rfl (Nat.lt_succ_self 0)
    · cases hs
  | retain i =>
    simp only [step] at hs
    cases ho : s.objs[i]? with
    | none => rw [ho] at hs; cases hs
    | some o =>
      rw [ho] at hs
      simp only [] at hs
      split at hs
      · rename_i hc
        injection hs with hs; subst hs
        exact live_set_client h i o _ ho hc.1 (by omega)
      · cases hs
  | release i =>
    simp only [step] at hs
    cases ho : s.objs[i]? with
    | none => rw [ho] at hs; cases hs
    | some o =>
      rw [ho] at hs
      simp only [] at hs
      split at hs
      · rename_i hc
        have hlt := lt_of_getElem? ho
        cases hk : o.kind with
        | leaf =>
          rw [hk] at hs
          simp only [] at hs
          injection hs with hs; subst hs
          apply live_sweep
          · intro j oj hj hkj hlj hnm
            have hne : j ≠ i := by intro e; exact hnm (by simp [e])
            simp only [] at hj
            rw [List.getElem?_set_ne (Ne.symm hne)] at hj
            rw [refs_set_other s i o { kind := .leaf, client := o.client - 1, live := o.live } ho j hne
              (holds_same o _ j hk.symm rfl)]
            exact h.leaf_ref j oj hj hkj hlj
          · intro j oj rs hj hkj
            simp only [] at hj
            by_cases e : j = i
            · subst e
              rw [List.getElem?_set_self hlt] at hj
              injection hj with hj; subst hj
              cases hkj
            · rw [List.getElem?_set_ne (Ne.symm e)] at hj
              exact h.comp_live j oj rs hj hkj
        | comp rs =>
          rw [hk] at hs
          simp only [] at hs
          split at hs
          · injection hs with hs; subst hs
            apply live_sweep
            · intro j oj hj hkj hlj hnm
              simp only [] at hj
              have hne : j ≠ i := by
                intro e; subst e
                rw [List.getElem?_set_self hlt] at hj
                injection hj with hj; subst hj
                cases hkj
              rw [List.getElem?_set_ne (Ne.symm hne)] at hj
              have hold := h.leaf_ref j oj hj hkj hlj
              have hir := internalRefs_set s.objs i o { kind := .comp rs, client := 0, live := false } j ho
              have h1 : holds o j = 0 := by
                unfold holds recsOf; rw [hk, hc.1]; simp only [if_true]; exact List.count_eq_zero.mpr hnm
              have h2 : holds ({ kind := .comp rs, client := 0, live := false } : Obj) j = 0 := by unfold holds; simp
              unfold refs at hold ⊢
              simp only [] at hold ⊢
              rw [List.getElem?_set_ne (Ne.symm hne), hj]
              rw [hj] at hold
              simp only [] at hold ⊢
              omega
            · intro j oj rs' hj hkj
              simp only [] at hj
              by_cases e : j = i
              · subst e
                rw [List.getElem?_set_self hlt] at hj
                injection hj with hj; subst hj
                simp
              · rw [List.getElem?_set_ne (Ne.symm e)] at hj
                exact h.comp_live j oj rs' hj hkj
          · rename_i hne1
            injection hs with hs; subst hs
            have := live_set_client h i o (o.client - 1) ho hc.1 (by omega)
            rw [show ({ kind := Kind.comp rs, client := o.client - 1, live := o.live } : Obj) = { o with client := o.client - 1 } by rw [← hk]]
            exact this
      · cases hs

theorem live_init : Live {} := ⟨by intro l o h; simp at h, by intro i o rs h; simp at h⟩

theorem live_run : ∀ (ops : List Op) (s s' : St), Live s → run s ops = some s' → Live s' := by
  intro ops
  induction ops with
  | nil => intro s s' h hr; simp [run] at hr; subst hr; exact h
  | cons op ops ih =>
    intro s s' h hr
    simp only [run] at hr
    cases hs : step s op with
    | none => rw [hs] at hr; cases hr
    | some s1 => rw [hs] at hr; exact ih s1 s' (live_step h op hs) hr

/-- **exactly once**: when the client has released every reference it held, the destructor of every buffer ever created has
    run (and, by `destructor_once_and_not_early`, exactly once) -/
theorem all_released_all_destroyed (ops : List Op) (s : St) (h : run {} ops = some s)
    (hall : ∀ o ∈ s.objs, o.client = 0) :
    ∀ (l : Id) (o : Obj), s.objs[l]? = some o → o.kind = .leaf → l ∈ s.destroyed := by
  have hs := safe_run ops {} s safe_init h
  have hl := live_run ops {} s live_init h
  intro l o ho hk
  by_cases hlive : o.live = true
  · exfalso
    have hr := hl.leaf_ref l o ho hk hlive
    unfold refs at hr; rw [ho] at hr; simp only [] at hr
    have hc := hall o (mem_of_getElem? ho)
    have hi : internalRefs s.objs l ≠ 0 := by omega
    rw [Ne, internalRefs_zero_iff] at hi
    apply hi
    intro x hx hxl hm
    obtain ⟨j, hj⟩ := getElem?_of_mem hx
    cases hkx : x.kind with
    | leaf => unfold recsOf at hm; rw [hkx] at hm; cases hm
    | comp rs =>
      have := (hl.comp_live j x rs hj hkx).mp hxl
      have := hall x hx
      omega
  · have : o.live = false := by cases hb : o.live <;> simp_all
    exact (hs.dead_iff l o ho hk).mp this

end DataRc
