/-! C10 calibration: the shared-counter core of dispatch_apply (_dispatch_apply_invoke2), for any
    iteration count and any number of helper threads. -/
namespace ApplyP

abbrev Tid := Nat

inductive Pc
  | idle                        -- has not entered _dispatch_apply_invoke2 (or is not a helper)
  | claimed (idx done : Nat)    -- fetched idx (first fetch: done = 0), about to test idx < n
  | running (idx done : Nat)    -- inside the work function for idx
  | ended (done : Nat)          -- work function returned, done already incremented; about to fetch next
  | sub (done : Nat)            -- loop exited with done > 0: about to subtract from da_todo
  | signal                      -- da_todo reached 0: about to signal the event
  | out                         -- past the bookkeeping (helpers finish here)
  | waitEv                      -- the caller: waiting for the completion event
  | returned                    -- the caller: dispatch_apply returned
deriving DecidableEq

structure Sh where
  index : Nat := 0
  todo : Nat
  signalled : Bool := false
  -- ghosts
  held : List (Nat × Tid) := []   -- indices claimed (< n) and not yet started, with their holder
  invoked : List Nat := []        -- indices whose invocation has started
  runners : List Tid := []        -- threads inside the work function
  ended : Nat := 0                -- invocations finished
  pend : List Tid := []           -- one entry per finished invocation not yet subtracted from todo
  subs : List Tid := []           -- threads at `signal`

def rm (l : List Tid) (t : Tid) : List Tid := l.filter (fun x => !decide (x = t))

def step (n : Nat) (c : Tid) (sh : Sh) (t : Tid) (pc : Pc) : List (Sh × Pc) :=
  match pc with
  | .idle =>
    -- idx = atomic_inc_orig(da_index)
    [({ sh with index := sh.index + 1,
                held := if sh.index < n then (sh.index, t) :: sh.held else sh.held }, .claimed sh.index 0)]
  | .claimed idx done =>
    if idx < n then
      [({ sh with held := sh.held.filter (fun x => !decide (x = (idx, t))), invoked := idx :: sh.invoked, runners := t :: sh.runners },
        .running idx done)]
    else if done = 0 then [(sh, if t = c then .waitEv else .out)]
    else [(sh, .sub done)]
  | .running _ done =>
    [({ sh with runners := rm sh.runners t, ended := sh.ended + 1, pend := t :: sh.pend }, .ended (done + 1))]
  | .ended done =>
    [({ sh with index := sh.index + 1,
                held := if sh.index < n then (sh.index, t) :: sh.held else sh.held }, .claimed sh.index done)]
  | .sub done =>
    -- if (!atomic_sub(da_todo, done)) signal
    let todo' := sh.todo - done
    let sh' := { sh with todo := todo', pend := rm sh.pend t }
    if todo' = 0 then [({ sh' with subs := t :: sh.subs }, .signal)]
    else [(sh', if t = c then .waitEv else .out)]
  | .signal => [({ sh with signalled := true, subs := rm sh.subs t }, if t = c then .waitEv else .out)]
  | .out => []
  | .waitEv => if sh.signalled then [(sh, .returned)] else []
  | .returned => []

structure St where
  sh : Sh
  pcs : Tid → Pc

inductive Step (n : Nat) (c : Tid) : St → St → Prop
  | mk (s : St) (t : Tid) (sh' : Sh) (pc' : Pc)
      (h : (sh', pc') ∈ step n c s.sh t (s.pcs t)) :
      Step n c s { sh := sh', pcs := fun t' => if t' = t then pc' else s.pcs t' }

inductive Reachable (n : Nat) (c : Tid) : St → Prop
  | init : Reachable n c { sh := { todo := n }, pcs := fun _ => .idle }
  | step {s s'} : Reachable n c s → Step n c s s' → Reachable n c s'

theorem mem_rm {l : List Tid} {t u : Tid} : u ∈ rm l t ↔ u ∈ l ∧ u ≠ t := by simp [rm]

/-- number of finished-but-not-subtracted invocations of thread t -/
def doneOf : Pc → Nat
  | .claimed _ d | .running _ d | .ended d | .sub d => d
  | _ => 0

structure G (n : Nat) (sh : Sh) : Prop where
  /-- every claimed or invoked index is below the counter and below n -/
  fresh : ∀ i, (i ∈ sh.held.map (·.1) ∨ i ∈ sh.invoked) → i < sh.index ∧ i < n
  nodup : (sh.held.map (·.1) ++ sh.invoked).Nodup
  /-- all indices below min(index, n) are accounted for -/
  cover : ∀ i, i < sh.index → i < n → (i ∈ sh.held.map (·.1) ∨ i ∈ sh.invoked)
  len : sh.held.length + sh.invoked.length = min sh.index n
  /-- invocations: started = running + ended -/
  cnt : sh.invoked.length = sh.runners.length + sh.ended
  ndR : sh.runners.Nodup
  /-- todo accounting -/
  todo : sh.todo = (n - sh.ended) + sh.pend.length
  /-- the event is signalled (or about to be) only when todo is 0 -/
  sigZero : (sh.signalled = true ∨ sh.subs ≠ []) → sh.todo = 0
  ndS : sh.subs.Nodup

structure L (n : Nat) (sh : Sh) (t : Tid) (pc : Pc) : Prop where
  hold : ∀ i, (i, t) ∈ sh.held ↔ ∃ d, pc = .claimed i d ∧ i < n
  run : t ∈ sh.runners ↔ ∃ i d, pc = .running i d
  pend : sh.pend.count t = doneOf pc
  sub : t ∈ sh.subs ↔ pc = .signal
  ret : pc = .returned → sh.signalled = true

/-! list helpers -/

theorem length_filter_ne {α} [DecidableEq α] {l : List α} {a : α} (nd : l.Nodup) (h : a ∈ l) :
    (l.filter (fun x => !decide (x = a))).length + 1 = l.length := by
  induction l with
  | nil => simp at h
  | cons b l ih =>
    have nd' := List.nodup_cons.mp nd
    by_cases e : b = a
    · subst e
      have hf : l.filter (fun x => !decide (x = b)) = l := by
        apply List.filter_eq_self.mpr
        intro x hx
        have : x ≠ b := fun hxa => nd'.1 (hxa ▸ hx)
        simp [this]
      rw [List.filter_cons]; simp [hf]
    · have ht : a ∈ l := by
        rcases List.mem_cons.mp h with h | h
        · exact absurd h.symm e
        · exact h
      have := ih nd'.2 ht
      rw [List.filter_cons]; simp [e]; omega

theorem length_rm_count {l : List Tid} {t : Tid} : (rm l t).length + l.count t = l.length := by
  induction l with
  | nil => simp [rm]
  | cons a l ih =>
    unfold rm at *
    by_cases e : a = t
    · subst e; rw [List.filter_cons]; simp [List.count_cons]; omega
    · rw [List.filter_cons]; simp [List.count_cons, e]; omega

theorem count_rm_self {l : List Tid} {t : Tid} : (rm l t).count t = 0 := by
  simp [rm, List.count_eq_zero]

theorem count_rm_ne {l : List Tid} {t u : Tid} (h : u ≠ t) : (rm l t).count u = l.count u := by
  unfold rm
  exact List.count_filter (by simp [h])

theorem length_rm_mem {l : List Tid} {t : Tid} (nd : l.Nodup) (h : t ∈ l) : (rm l t).length + 1 = l.length :=
  length_filter_ne nd h

theorem snd_unique {l : List (Nat × Tid)} (nd : (l.map (·.1)).Nodup) {i : Nat} {u u' : Tid}
    (h : (i, u) ∈ l) (h' : (i, u') ∈ l) : u = u' := by
  induction l with
  | nil => simp at h
  | cons a l ih =>
    simp only [List.map_cons, List.nodup_cons] at nd
    have key : ∀ v, (i, v) ∈ l → i ∈ l.map (·.1) := fun v hv => List.mem_map.mpr ⟨(i, v), hv, rfl⟩
    rcases List.mem_cons.mp h with h1 | h1
    · rcases List.mem_cons.mp h' with h2 | h2
      · rw [← h1] at h2; exact ((Prod.mk.inj h2).2).symm
      · rw [← h1] at nd; exact absurd (key u' h2) nd.1
    · rcases List.mem_cons.mp h' with h2 | h2
      · rw [← h2] at nd; exact absurd (key u h1) nd.1
      · exact ih nd.2 h1 h2

theorem nodup_of_map_fst {l : List (Nat × Tid)} (nd : (l.map (·.1)).Nodup) : l.Nodup := by
  induction l with
  | nil => simp
  | cons a l ih =>
    simp only [List.map_cons, List.nodup_cons] at nd ⊢
    exact ⟨fun h => nd.1 (List.mem_map.mpr ⟨a, h, rfl⟩), ih nd.2⟩

/-- removing the pair (i,t) from an association list with unique keys removes exactly the key i -/
theorem mem_fst_filter {l : List (Nat × Tid)} (nd : (l.map (·.1)).Nodup) {i : Nat} {t : Tid}
    (h : (i, t) ∈ l) (j : Nat) :
    j ∈ (l.filter (fun x => !decide (x = (i, t)))).map (·.1) ↔ (j ∈ l.map (·.1) ∧ j ≠ i) := by
  constructor
  · intro hj
    obtain ⟨⟨j', u⟩, hm, rfl⟩ := List.mem_map.mp hj
    simp at hm
    refine ⟨List.mem_map.mpr ⟨(j', u), hm.1, rfl⟩, ?_⟩
    intro e; simp at e; subst e
    have := snd_unique nd hm.1 h; subst this
    rcases hm.2 with h1 | h1 <;> exact h1 rfl
  · intro ⟨hj, hne⟩
    obtain ⟨⟨j', u⟩, hm, rfl⟩ := List.mem_map.mp hj
    refine List.mem_map.mpr ⟨(j', u), ?_, rfl⟩
    simp; exact ⟨hm, Or.inl hne⟩

theorem nodup_move {l : List (Nat × Tid)} {inv : List Nat} {i : Nat} {t : Tid}
    (nd : (l.map (·.1) ++ inv).Nodup) (h : (i, t) ∈ l) :
    ((l.filter (fun x => !decide (x = (i, t)))).map (·.1) ++ i :: inv).Nodup := by
  have ⟨ndA, ndI, disj⟩ := List.nodup_append.mp nd
  have hi : i ∈ l.map (·.1) := List.mem_map.mpr ⟨(i, t), h, rfl⟩
  have hfil := mem_fst_filter ndA h
  refine List.nodup_append.mpr ⟨?_, ?_, ?_⟩
  · exact ndA.sublist ((List.filter_sublist).map _)
  · exact List.nodup_cons.mpr ⟨fun hx => disj i hi i hx rfl, ndI⟩
  · intro a ha b hb
    have ⟨ha1, ha2⟩ := (hfil a).mp ha
    rcases List.mem_cons.mp hb with hb | hb
    · exact fun e => ha2 (e.trans hb)
    · exact disj a ha1 b hb

abbrev Post (n : Nat) (sh sh' : Sh) (t : Tid) (pc' : Pc) : Prop :=
  G n sh' ∧ L n sh' t pc' ∧ ∀ t' q, t' ≠ t → L n sh t' q → L n sh' t' q

macro "aauto" : tactic =>
  `(tactic| (constructor <;> (simp_all [mem_rm, doneOf, count_rm_self] <;> try grind)))

/-- G goals: arithmetic fields by omega on the saved facts, the rest by simp_all + grind -/
macro "gauto" : tactic =>
  `(tactic| (refine ⟨?_, ?_, ?_, ?_, ?_, ?_, ?_, ?_, ?_⟩ <;>
      first
        | (simp only [List.length_cons, List.length_nil] at *; (try split) <;> omega)
        | (simp_all [mem_rm, doneOf] <;> try grind)))

set_option maxHeartbeats 4000000 in
theorem step_local {n : Nat} {c : Tid} {sh : Sh} {t : Tid} {pc : Pc} {sh' : Sh} {pc' : Pc}
    (g : G n sh) (l : L n sh t pc) (h : (sh', pc') ∈ step n c sh t pc) : Post n sh sh' t pc' := by
  obtain ⟨gfresh, gnodup, gcover, glen, gcnt, gndR, gtodo, gsig, gndS⟩ := g
  obtain ⟨lhold, lrun, lpend, lsub, lret⟩ := l
  cases pc with
  | idle =>
    simp [step] at h; obtain ⟨rfl, rfl⟩ := h
    refine ⟨?_, ?_, ?_⟩
    · by_cases hn : sh.index < n <;> gauto
    · by_cases hn : sh.index < n <;> aauto
    · intro t' q ne l'
      obtain ⟨lhold', lrun', lpend', lsub', lret'⟩ := l'
      by_cases hn : sh.index < n <;> aauto
  | claimed idx done =>
    simp only [step] at h
    split at h
    · rename_i hlt
      simp at h; obtain ⟨rfl, rfl⟩ := h
      have hmem : (idx, t) ∈ sh.held := (lhold idx).mpr ⟨done, rfl, hlt⟩
      have hnd : (sh.held.map (·.1)).Nodup := (List.nodup_append.mp gnodup).1
      have hlen := length_filter_ne (nodup_of_map_fst hnd) hmem
      have hfil := mem_fst_filter hnd hmem
      have hmove := nodup_move gnodup hmem
      have hnr : t ∉ sh.runners := by
        intro hr; obtain ⟨i, d, e⟩ := lrun.mp hr; simp at e
      refine ⟨?_, ?_, ?_⟩
      · gauto
      · aauto
      · intro t' q ne l'
        obtain ⟨lhold', lrun', lpend', lsub', lret'⟩ := l'
        aauto
    · split at h
      · simp at h; obtain ⟨rfl, rfl⟩ := h
        refine ⟨⟨gfresh, gnodup, gcover, glen, gcnt, gndR, gtodo, gsig, gndS⟩, ?_, fun t' q _ l' => l'⟩
        by_cases hc : t = c <;> aauto
      · simp at h; obtain ⟨rfl, rfl⟩ := h
        refine ⟨⟨gfresh, gnodup, gcover, glen, gcnt, gndR, gtodo, gsig, gndS⟩, by aauto, fun t' q _ l' => l'⟩
  | running idx done =>
    simp [step] at h; obtain ⟨rfl, rfl⟩ := h
    have hr : t ∈ sh.runners := lrun.mpr ⟨idx, done, rfl⟩
    have hlenr := length_rm_mem gndR hr
    have hndr : (rm sh.runners t).Nodup := gndR.filter _
    have hle : sh.invoked.length ≤ n := by
      have := Nat.min_le_right sh.index n; omega
    have hpos : 0 < sh.runners.length := List.length_pos_of_mem hr
    refine ⟨?_, ?_, ?_⟩
    · gauto
    · aauto
    · intro t' q ne l'
      obtain ⟨lhold', lrun', lpend', lsub', lret'⟩ := l'
      constructor <;> (simp_all [mem_rm, doneOf, List.count_cons] <;> try grind)
  | ended done =>
    simp [step] at h; obtain ⟨rfl, rfl⟩ := h
    refine ⟨?_, ?_, ?_⟩
    · by_cases hn : sh.index < n <;> gauto
    · by_cases hn : sh.index < n <;> aauto
    · intro t' q ne l'
      obtain ⟨lhold', lrun', lpend', lsub', lret'⟩ := l'
      by_cases hn : sh.index < n <;> aauto
  | sub done =>
    have hcnt := @length_rm_count sh.pend t
    have hc0 := @count_rm_self sh.pend t
    have hsubs : t ∉ sh.subs := by simpa using lsub
    simp only [step] at h
    split at h
    · rename_i hz
      simp at h; obtain ⟨rfl, rfl⟩ := h
      have hd : sh.pend.count t = done := by simpa [doneOf] using lpend
      refine ⟨?_, ?_, ?_⟩
      · refine ⟨gfresh, gnodup, gcover, glen, gcnt, gndR, ?_, ?_, List.nodup_cons.mpr ⟨hsubs, gndS⟩⟩
        · simp only []; omega
        · intro _; simpa using hz
      · constructor <;> (simp_all [mem_rm, doneOf] <;> try grind)
      · intro t' q ne l'
        obtain ⟨lhold', lrun', lpend', lsub', lret'⟩ := l'
        have := @count_rm_ne sh.pend t t' ne
        constructor <;> (simp_all [mem_rm, doneOf] <;> try grind)
    · rename_i hz
      simp at h; obtain ⟨rfl, rfl⟩ := h
      have hd : sh.pend.count t = done := by simpa [doneOf] using lpend
      refine ⟨?_, ?_, ?_⟩
      · refine ⟨gfresh, gnodup, gcover, glen, gcnt, gndR, ?_, ?_, gndS⟩
        · simp only []; omega
        · intro hs; have := gsig hs; simp only [] ; omega
      · by_cases hc : t = c <;> constructor <;> (simp_all [mem_rm, doneOf] <;> try grind)
      · intro t' q ne l'
        obtain ⟨lhold', lrun', lpend', lsub', lret'⟩ := l'
        have := @count_rm_ne sh.pend t t' ne
        constructor <;> (simp_all [mem_rm, doneOf] <;> try grind)
  | signal =>
    have hs : t ∈ sh.subs := lsub.mpr rfl
    have hz := gsig (Or.inr (List.ne_nil_of_mem hs))
    simp [step] at h; obtain ⟨rfl, rfl⟩ := h
    refine ⟨?_, ?_, ?_⟩
    · exact ⟨gfresh, gnodup, gcover, glen, gcnt, gndR, gtodo, fun _ => hz, gndS.filter _⟩
    · by_cases hc : t = c <;> constructor <;> (simp_all [mem_rm, doneOf] <;> try grind)
    · intro t' q ne l'
      obtain ⟨lhold', lrun', lpend', lsub', lret'⟩ := l'
      constructor <;> (simp_all [mem_rm, doneOf] <;> try grind)
  | out => simp [step] at h
  | waitEv =>
    simp only [step] at h
    split at h
    · simp at h; obtain ⟨rfl, rfl⟩ := h
      refine ⟨⟨gfresh, gnodup, gcover, glen, gcnt, gndR, gtodo, gsig, gndS⟩, by aauto, fun t' q _ l' => l'⟩
    · simp at h
  | returned => simp [step] at h

structure Inv (n : Nat) (s : St) : Prop where
  g : G n s.sh
  l : ∀ t, L n s.sh t (s.pcs t)

theorem inv_reachable {n : Nat} {c : Tid} {s : St} (h : Reachable n c s) : Inv n s := by
  induction h with
  | init =>
    refine ⟨?_, fun _ => ?_⟩
    · constructor <;> simp
    · constructor <;> simp [doneOf]
  | step _ hs ih =>
    cases hs with
    | mk t sh' pc' h =>
      obtain ⟨hg, hl, hoth⟩ := step_local ih.g (ih.l t) h
      refine ⟨hg, fun t' => ?_⟩
      by_cases e : t' = t
      · subst e; simpa using hl
      · simpa [e] using hoth t' _ e (ih.l t')

/-- **No index is invoked twice and no index outside 0..n-1 is invoked** (at every moment, for
    any number of helpers). -/
theorem invoked_once_in_range {n : Nat} {c : Tid} {s : St} (h : Reachable n c s) :
    s.sh.invoked.Nodup ∧ ∀ i ∈ s.sh.invoked, i < n := by
  have i := inv_reachable h
  exact ⟨(List.nodup_append.mp i.g.nodup).2.1, fun j hj => (i.g.fresh j (Or.inr hj)).2⟩

/-- **dispatch_apply returns only after all n invocations have finished, and every index
    0..n-1 has been invoked exactly once.** -/
theorem returns_after_all {n : Nat} {c : Tid} {s : St} (h : Reachable n c s) (t : Tid)
    (hr : s.pcs t = .returned) :
    s.sh.ended = n ∧ s.sh.runners = [] ∧ s.sh.invoked.Nodup ∧ s.sh.invoked.length = n ∧
      ∀ i, i < n → i ∈ s.sh.invoked := by
  have i := inv_reachable h
  have hsig := (i.l t).ret hr
  have hz := i.g.sigZero (Or.inl hsig)
  have htodo := i.g.todo
  have hlen := i.g.len
  have hcnt := i.g.cnt
  have hmin := Nat.min_le_right s.sh.index n
  have hmin2 := Nat.min_le_left s.sh.index n
  have hend : s.sh.ended = n := by omega
  have hrun : s.sh.runners.length = 0 := by omega
  have hheld : s.sh.held.length = 0 := by omega
  have hinv : s.sh.invoked.length = n := by omega
  have hidx : n ≤ s.sh.index := by omega
  refine ⟨hend, List.length_eq_zero_iff.mp hrun, (List.nodup_append.mp i.g.nodup).2.1, hinv, ?_⟩
  intro j hj
  rcases i.g.cover j (by omega) hj with hc | hc
  · have : s.sh.held = [] := List.length_eq_zero_iff.mp hheld
    simp [this] at hc
  · exact hc

end ApplyP
