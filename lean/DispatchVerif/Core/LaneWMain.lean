import DispatchVerif.Core.LaneWStep8
/-! C04 calibration, main theorems: a barrier item running on a lane of any width excludes every
    other item of that lane, for any number of threads and any schedule. -/
namespace LaneW

theorem step_local {W : Nat} (hW : 1 ≤ W) {sh : Sh} {t : Tid} {pc : Pc} {op : Op} {sh' : Sh} {pc' : Pc}
    (g : G W sh) (l : L sh t pc) (h : (sh', pc') ∈ step W sh t pc op) : Post W sh sh' t pc' := by
  cases pc with
  | idle => exact step_client hW g l h (Or.inl rfl)
  | aStart i b => exact step_client hW g l h (Or.inr (Or.inl ⟨i, b, rfl⟩))
  | aTryAsync i => exact step_client hW g l h (Or.inr (Or.inr (Or.inl ⟨i, rfl⟩)))
  | aPush i b => exact step_client hW g l h (Or.inr (Or.inr (Or.inr (Or.inl ⟨i, b, rfl⟩))))
  | pPushed i b => exact step_client hW g l h (Or.inr (Or.inr (Or.inr (Or.inr (Or.inl ⟨i, b, rfl⟩)))))
  | pLinked i b => exact step_client hW g l h (Or.inr (Or.inr (Or.inr (Or.inr (Or.inr (Or.inl ⟨i, b, rfl⟩))))))
  | sTryR i => exact step_client hW g l h (Or.inr (Or.inr (Or.inr (Or.inr (Or.inr (Or.inr (Or.inl ⟨i, rfl⟩)))))))
  | sTryR2 i => exact step_client hW g l h (Or.inr (Or.inr (Or.inr (Or.inr (Or.inr (Or.inr (Or.inr (Or.inl ⟨i, rfl⟩))))))))
  | sSlowPush i b => exact step_client hW g l h (Or.inr (Or.inr (Or.inr (Or.inr (Or.inr (Or.inr (Or.inr (Or.inr (Or.inl ⟨i, b, rfl⟩)))))))))
  | sSlowLink i b w => exact step_client hW g l h (Or.inr (Or.inr (Or.inr (Or.inr (Or.inr (Or.inr (Or.inr (Or.inr (Or.inr ⟨i, b, w, rfl⟩)))))))))
  | sTryB i => exact step_sync hW g l h (Or.inl ⟨i, rfl⟩)
  | sSlowRmw i b => exact step_sync hW g l h (Or.inr (Or.inl ⟨i, b, rfl⟩))
  | sWait i b => exact step_sync hW g l h (Or.inr (Or.inr (Or.inl ⟨i, b, rfl⟩)))
  | run i a => exact step_sync hW g l h (Or.inr (Or.inr (Or.inr (Or.inl ⟨i, a, rfl⟩))))
  | running i a => exact step_sync hW g l h (Or.inr (Or.inr (Or.inr (Or.inr (Or.inl ⟨i, a, rfl⟩)))))
  | runningA i a k => exact step_runningA g l h
  | sFastUnlock => exact step_sync hW g l h (Or.inr (Or.inr (Or.inr (Or.inr (Or.inr rfl)))))
  | nbc c k => exact step_nbc hW g l h
  | bc1 c k => exact step_barrier hW g l h (Or.inl ⟨c, k, rfl⟩)
  | bc2 tg c k => exact step_barrier hW g l h (Or.inr (Or.inl ⟨tg, c, k, rfl⟩))
  | dbwPop e k => exact step_barrier hW g l h (Or.inr (Or.inr (Or.inl ⟨e, k, rfl⟩)))
  | dbwRmw w e k => exact step_barrier hW g l h (Or.inr (Or.inr (Or.inr (Or.inl ⟨w, e, k, rfl⟩))))
  | dbwSignal w k => exact step_barrier hW g l h (Or.inr (Or.inr (Or.inr (Or.inr ⟨w, k, rfl⟩))))
  | dnb0 c k => exact step_dnb hW g l h (Or.inl ⟨c, k, rfl⟩)
  | dnbWidth ow c k => exact step_dnb hW g l h (Or.inr (Or.inl ⟨ow, c, k, rfl⟩))
  | dnbPop ow c k => exact step_dnb hW g l h (Or.inr (Or.inr (Or.inl ⟨ow, c, k, rfl⟩)))
  | dnbFin ow nx c k => exact step_dnb hW g l h (Or.inr (Or.inr (Or.inr ⟨ow, nx, c, k, rfl⟩)))
  | wIdle => exact step_drain hW g l h (Or.inl rfl)
  | dTryLock => exact step_drain hW g l h (Or.inr (Or.inl rfl))
  | dInvoke ow => exact step_drain hW g l h (Or.inr (Or.inr (Or.inl ⟨ow, rfl⟩)))
  | dLoopHead ow => exact step_drain hW g l h (Or.inr (Or.inr (Or.inr (Or.inl ⟨ow, rfl⟩))))
  | dUpgrade n => exact step_drain hW g l h (Or.inr (Or.inr (Or.inr (Or.inr (Or.inl ⟨n, rfl⟩)))))
  | dDropBarrier => exact step_drain hW g l h (Or.inr (Or.inr (Or.inr (Or.inr (Or.inr (Or.inl rfl))))))
  | dWidth => exact step_drain hW g l h (Or.inr (Or.inr (Or.inr (Or.inr (Or.inr (Or.inr (Or.inl rfl)))))))
  | dPopNB n => exact step_drain hW g l h (Or.inr (Or.inr (Or.inr (Or.inr (Or.inr (Or.inr (Or.inr (Or.inl ⟨n, rfl⟩))))))))
  | dLoopNext ow => exact step_drain hW g l h (Or.inr (Or.inr (Or.inr (Or.inr (Or.inr (Or.inr (Or.inr (Or.inr (Or.inl ⟨ow, rfl⟩)))))))))
  | dUnlock ow dn => exact step_drain hW g l h (Or.inr (Or.inr (Or.inr (Or.inr (Or.inr (Or.inr (Or.inr (Or.inr (Or.inr ⟨ow, dn, rfl⟩)))))))))

structure Inv (W : Nat) (s : St) : Prop where
  g : G W s.sh
  l : ∀ t, L s.sh t (s.pcs t)

theorem inv_init (W : Nat) : Inv W { sh := {}, pcs := fun _ => .idle } := by
  refine ⟨⟨by simp, by simp, by simp, by simp, by simp, by simp⟩, fun t => ⟨?_, ?_, ?_, ?_, ?_⟩⟩
  · intro h; simp [holdsB] at h
  · intro h; simp [holdsU] at h
  · simp [unitsOf]
  · intro w k e; simp at e
  · intro h; simp [isDnb] at h

theorem inv_reachable {W : Nat} (hW : 1 ≤ W) {s : St} (h : Reachable W s) : Inv W s := by
  induction h with
  | init => exact inv_init W
  | step _ hs ih =>
    cases hs with
    | mk t op sh' pc' h =>
      obtain ⟨hg, hl, hoth⟩ := step_local hW ih.g (ih.l t) h
      refine ⟨hg, fun t' => ?_⟩
      by_cases e : t' = t
      · subst e; simpa using hl
      · simpa [e] using hoth t' _ e (ih.l t')

/-- **Barrier exclusion** (C04 core): while any thread is inside a barrier item of the lane, no
    other thread is inside any item of the lane. Any width W ≥ 1, any number of threads. -/
theorem barrier_exclusion {W : Nat} (hW : 1 ≤ W) {s : St} (h : Reachable W s) (t t' : Tid)
    (i i' : ItemId) (a a' : After) (hb : a.isBar = true)
    (ht : s.pcs t = .running i a) (ht' : s.pcs t' = .running i' a') : t = t' := by
  have inv := inv_reachable hW h
  have lt := inv.l t; rw [ht] at lt
  have lt' := inv.l t'; rw [ht'] at lt'
  have hl := (lt.ownB (by simp [holdsB, hb])).1
  cases hb' : a'.isBar with
  | true => exact lockedB_unique hl (lt'.ownB (by simp [holdsB, hb'])).1
  | false =>
    have hh := (inv.g.gB hl.2).1
    have := lt'.cnt
    simp [hh, unitsOf, hb'] at this
    omega

/-- the barrier bit is set exactly while a barrier item runs: a running non-barrier item implies the
    lane is not in barrier mode, and it is accounted one unit of width in the state word -/
theorem nonbarrier_running_accounted {W : Nat} (hW : 1 ≤ W) {s : St} (h : Reachable W s) (t : Tid)
    (i : ItemId) (a : After) (hb : a.isBar = false) (ht : s.pcs t = .running i a) :
    s.sh.dq.B = false ∧ 1 ≤ s.sh.dq.u := by
  have inv := inv_reachable hW h
  have lt := inv.l t; rw [ht] at lt
  have hc := lt.cnt
  simp [unitsOf, hb] at hc
  have h1 : 1 ≤ s.sh.holders.count t := by omega
  have hnB := notB_of_unit inv.g h1
  have hlen : s.sh.holders.count t ≤ s.sh.holders.length := List.count_le_length
  have := inv.g.gW
  refine ⟨hnB, ?_⟩
  simp [hnB] at this
  cases hp : s.sh.dq.pb <;> simp [hp] at this <;> omega

/-- the width word is exact: used width = units held by threads + redirected items in flight
    (+ the pending-barrier reservation), in every reachable state -/
theorem width_accounting {W : Nat} (hW : 1 ≤ W) {s : St} (h : Reachable W s) :
    s.sh.dq.u = (if s.sh.dq.B then (W : Int) else 0) + s.sh.holders.length + s.sh.redirects
          + (if s.sh.dq.pb then (W : Int) - 1 else 0) :=
  (inv_reachable hW h).g.gW

/-- lock transfer never duplicates ownership: at most one thread is at a barrier-owner pc -/
theorem barrier_owner_unique {W : Nat} (hW : 1 ≤ W) {s : St} (h : Reachable W s) (t t' : Tid)
    (ht : holdsB (s.pcs t) = true) (ht' : holdsB (s.pcs t') = true) : t = t' := by
  have inv := inv_reachable hW h
  exact lockedB_unique ((inv.l t).ownB ht).1 ((inv.l t').ownB ht').1

theorem holdsB_of_isRunningB {pc : Pc} (h : isRunningB pc = true) : holdsB pc = true := by
  cases pc <;> simp_all [isRunningB, holdsB]

theorem unit_of_isRunningN {pc : Pc} (h : isRunningN pc = true) : 1 ≤ unitsOf pc := by
  cases pc <;> simp_all [isRunningN, unitsOf]

/-- **Barrier exclusion, all item pcs** (inside an item, with or without width reserved for a nested
    dispatch_apply): a thread inside a barrier item excludes every other thread inside any item of the lane -/
theorem barrier_exclusion_gen {W : Nat} (hW : 1 ≤ W) {s : St} (h : Reachable W s) (t t' : Tid)
    (hb : isRunningB (s.pcs t) = true)
    (hb' : isRunningB (s.pcs t') = true ∨ isRunningN (s.pcs t') = true) : t = t' := by
  have inv := inv_reachable hW h
  have hl := ((inv.l t).ownB (holdsB_of_isRunningB hb)).1
  rcases hb' with hb' | hb'
  · exact lockedB_unique hl ((inv.l t').ownB (holdsB_of_isRunningB hb')).1
  · have hh := (inv.g.gB hl.2).1
    have := (inv.l t').cnt
    have := unit_of_isRunningN hb'
    simp [hh] at *
    omega

end LaneW

section audit
open LaneW
#print axioms barrier_exclusion
#print axioms nonbarrier_running_accounted
#print axioms width_accounting
#print axioms barrier_owner_unique
end audit
