/- derived from Base32P.lean by scripts/mk_b32hex.py: the same loops with the Base32Hex tables -/
/-! C20 calibration: Base32 encoder / decoder of transform.c (`_dispatch_transform_to/from_base32_with_table`
    with the RFC 4648 alphabet) as loops over bytes; round trip for every byte string. -/
namespace B32H

def encTbl : List Nat := [48, 49, 50, 51, 52, 53, 54, 55, 56, 57, 65, 66, 67, 68, 69, 70, 71, 72, 73, 74, 75, 76, 77, 78, 79, 80, 81, 82, 83, 84, 85, 86]
def decTbl : List Int := [-1, -1, -1, -1, -1, -1, -1, -1, -1, -1, -1, -1, -1, -1, -1, -1, -1, -1, -1, -1, -1, -1, -1, -1, -1, -1, -1, -1, -1, -1, -1, -1, -1, -1, -1, -1, -1, -1, -1, -1, -1, -1, -1, -1, -1, -1, -1, -1, 0, 1, 2, 3, 4, 5, 6, 7, 8, 9, -1, -1, -1, -2, -1, -1, -1, 10, 11, 12, 13, 14, 15, 16, 17, 18, 19, 20, 21, 22, 23, 24, 25, 26, 27, 28, 29, 30, 31]
def T (i : Nat) : Nat := encTbl.getD i 0
def D (c : Nat) : Int := decTbl.getD c (-1)
def decSize : Nat := 87

/-- the encoder loop: `cnt` running byte count, `last` previous byte -/
def encLoop : List Nat → Nat → Nat → List Nat
  | [], cnt, last =>
    match cnt % 5 with
    | 0 => []
    | 1 => [T ((last <<< 2) &&& 0x1c), 61, 61, 61, 61, 61, 61]
    | 2 => [T ((last <<< 4) &&& 0x10), 61, 61, 61, 61]
    | 3 => [T ((last <<< 1) &&& 0x1e), 61, 61, 61]
    | _ => [T ((last <<< 3) &&& 0x18), 61]
  | c :: r, cnt, last =>
    (match cnt % 5 with
     | 0 => [T ((c >>> 3) &&& 0x1f)]
     | 1 => [T (((last <<< 2) ||| (c >>> 6)) &&& 0x1f), T ((c >>> 1) &&& 0x1f)]
     | 2 => [T (((last <<< 4) ||| (c >>> 4)) &&& 0x1f)]
     | 3 => [T (((last <<< 1) ||| (c >>> 7)) &&& 0x1f), T ((c >>> 2) &&& 0x1f)]
     | _ => [T (((last <<< 3) ||| (c >>> 5)) &&& 0x1f), T (c &&& 0x1f)]) ++ encLoop r (cnt + 1) c

def encode (bs : List Nat) : List Nat := encLoop bs 0 0

structure DS where
  x : Nat := 0
  cnt : Nat := 0
  pad : Nat := 0
  out : List Nat := []

/-- `switch (pad) { case 1: ptr -= 1; case 3: -= 2; case 4: -= 3; case 6: -= 4; }` -/
def adj (pad : Nat) : Nat := if pad = 1 then 1 else if pad = 3 then 2 else if pad = 4 then 3 else if pad = 6 then 4 else 0

def decStep (s : DS) (ch : Nat) : Option DS :=
  if ch = 10 ∨ ch = 9 ∨ ch = 32 then some s
  else if ch ≥ decSize ∨ D ch = -1 then none
  else
    let cnt := s.cnt + 1
    let v : Nat := if D ch = -2 then 0 else (D ch).toNat
    let pad := if D ch = -2 then s.pad + 1 else s.pad
    let x := ((s.x <<< 5) + v) % 2 ^ 64
    if cnt &&& 7 = 0 then
      -- `switch (pad) { case 1: ptr -= 1; ... } pad = 0;` : the padded bytes of this group are dropped
      some { x, cnt, pad := 0, out := s.out ++
        [(x >>> 32) &&& 0xff, (x >>> 24) &&& 0xff, (x >>> 16) &&& 0xff, (x >>> 8) &&& 0xff, x &&& 0xff].take (5 - adj pad) }
    else some { x, cnt, pad, out := s.out }

def decLoop : List Nat → DS → Option DS
  | [], s => some s
  | c :: r, s => match decStep s c with
    | none => none
    | some s' => decLoop r s'

def decode (cs : List Nat) : Option (List Nat) := (decLoop cs {}).map (·.out)

/-- over a fragmented input: `x`, `count`, `pad` are carried from region to region, every region appends
    the bytes it produced -/
def decRegions : List (List Nat) → DS → Option DS
  | [], s => some s
  | r :: rs, s => match decLoop r s with
    | none => none
    | some s' => decRegions rs s'

theorem T_valid : ∀ i, i < 32 → (T i ≠ 10 ∧ T i ≠ 9 ∧ T i ≠ 32) ∧ T i < decSize ∧ D (T i) = (i : Int) := by decide
theorem pad_char : (61 ≠ 10 ∧ 61 ≠ 9 ∧ 61 ≠ 32) ∧ 61 < decSize ∧ D 61 = -2 := by decide

theorem b_q0 : ∀ c, c < 256 → (c >>> 3) &&& 0x1f = c / 8 := by decide +kernel
theorem b_q2 : ∀ c, c < 256 → (c >>> 1) &&& 0x1f = (c / 2) % 32 := by decide +kernel
theorem b_q5 : ∀ c, c < 256 → (c >>> 2) &&& 0x1f = (c / 4) % 32 := by decide +kernel
theorem b_q7 : ∀ c, c < 256 → c &&& 0x1f = c % 32 := by decide +kernel
theorem b_l2 : ∀ c, c < 256 → (c <<< 2) &&& 0x1f = (c % 8) * 4 := by decide +kernel
theorem b_r6 : ∀ c, c < 256 → (c >>> 6) &&& 0x1f = c / 64 := by decide +kernel
theorem b_l4 : ∀ c, c < 256 → (c <<< 4) &&& 0x1f = (c % 2) * 16 := by decide +kernel
theorem b_r4 : ∀ c, c < 256 → (c >>> 4) &&& 0x1f = c / 16 := by decide +kernel
theorem b_l1 : ∀ c, c < 256 → (c <<< 1) &&& 0x1f = (c % 16) * 2 := by decide +kernel
theorem b_r7 : ∀ c, c < 256 → (c >>> 7) &&& 0x1f = c / 128 := by decide +kernel
theorem b_l3 : ∀ c, c < 256 → (c <<< 3) &&& 0x1f = (c % 4) * 8 := by decide +kernel
theorem b_r5 : ∀ c, c < 256 → (c >>> 5) &&& 0x1f = c / 32 := by decide +kernel
theorem b_p1 : ∀ c, c < 256 → (c <<< 2) &&& 0x1c = (c % 8) * 4 := by decide +kernel
theorem b_p2 : ∀ c, c < 256 → (c <<< 4) &&& 0x10 = (c % 2) * 16 := by decide +kernel
theorem b_p3 : ∀ c, c < 256 → (c <<< 1) &&& 0x1e = (c % 16) * 2 := by decide +kernel
theorem b_p4 : ∀ c, c < 256 → (c <<< 3) &&& 0x18 = (c % 4) * 8 := by decide +kernel
theorem or_a : ∀ p, p < 8 → ∀ q, q < 4 → p * 4 ||| q = p * 4 + q := by decide
theorem or_b : ∀ p, p < 2 → ∀ q, q < 16 → p * 16 ||| q = p * 16 + q := by decide
theorem or_c : ∀ p, p < 16 → ∀ q, q < 2 → p * 2 ||| q = p * 2 + q := by decide
theorem or_d : ∀ p, p < 4 → ∀ q, q < 8 → p * 8 ||| q = p * 8 + q := by decide

theorem q1_eq {l c : Nat} (hl : l < 256) (hc : c < 256) : ((l <<< 2) ||| (c >>> 6)) &&& 0x1f = (l % 8) * 4 + c / 64 := by
  rw [Nat.and_or_distrib_right, b_l2 l hl, b_r6 c hc]; exact or_a _ (by omega) _ (by omega)
theorem q3_eq {l c : Nat} (hl : l < 256) (hc : c < 256) : ((l <<< 4) ||| (c >>> 4)) &&& 0x1f = (l % 2) * 16 + c / 16 := by
  rw [Nat.and_or_distrib_right, b_l4 l hl, b_r4 c hc]; exact or_b _ (by omega) _ (by omega)
theorem q4_eq {l c : Nat} (hl : l < 256) (hc : c < 256) : ((l <<< 1) ||| (c >>> 7)) &&& 0x1f = (l % 16) * 2 + c / 128 := by
  rw [Nat.and_or_distrib_right, b_l1 l hl, b_r7 c hc]; exact or_c _ (by omega) _ (by omega)
theorem q6_eq {l c : Nat} (hl : l < 256) (hc : c < 256) : ((l <<< 3) ||| (c >>> 5)) &&& 0x1f = (l % 4) * 8 + c / 32 := by
  rw [Nat.and_or_distrib_right, b_l3 l hl, b_r5 c hc]; exact or_d _ (by omega) _ (by omega)

/-! ### the encoder, group by group (quintets of a 5-byte group) -/
def Q0 (a : Nat) := a / 8
def Q1 (a b : Nat) := (a % 8) * 4 + b / 64
def Q2 (b : Nat) := (b / 2) % 32
def Q3 (b c : Nat) := (b % 2) * 16 + c / 16
def Q4 (c d : Nat) := (c % 16) * 2 + d / 128
def Q5 (d : Nat) := (d / 4) % 32
def Q6 (d e : Nat) := (d % 4) * 8 + e / 32
def Q7 (e : Nat) := e % 32

theorem enc_nil (cnt last : Nat) (h : cnt % 5 = 0) : encLoop [] cnt last = [] := by simp [encLoop, h]

theorem enc_1 (a cnt last : Nat) (h : cnt % 5 = 0) (ha : a < 256) :
    encLoop [a] cnt last = [T (Q0 a), T ((a % 8) * 4), 61, 61, 61, 61, 61, 61] := by
  have h1 : (cnt + 1) % 5 = 1 := by omega
  simp [encLoop, h, h1, b_q0 a ha, b_p1 a ha, Q0]

theorem enc_2 (a b cnt last : Nat) (h : cnt % 5 = 0) (ha : a < 256) (hb : b < 256) :
    encLoop [a, b] cnt last = [T (Q0 a), T (Q1 a b), T (Q2 b), T ((b % 2) * 16), 61, 61, 61, 61] := by
  have h1 : (cnt + 1) % 5 = 1 := by omega
  have h2 : (cnt + 1 + 1) % 5 = 2 := by omega
  simp [encLoop, h, h1, h2, b_q0 a ha, q1_eq ha hb, b_q2 b hb, b_p2 b hb, Q0, Q1, Q2]

theorem enc_3 (a b c cnt last : Nat) (h : cnt % 5 = 0) (ha : a < 256) (hb : b < 256) (hc : c < 256) :
    encLoop [a, b, c] cnt last = [T (Q0 a), T (Q1 a b), T (Q2 b), T (Q3 b c), T ((c % 16) * 2), 61, 61, 61] := by
  have h1 : (cnt + 1) % 5 = 1 := by omega
  have h2 : (cnt + 1 + 1) % 5 = 2 := by omega
  have h3 : (cnt + 1 + 1 + 1) % 5 = 3 := by omega
  simp [encLoop, h, h1, h2, h3, b_q0 a ha, q1_eq ha hb, b_q2 b hb, q3_eq hb hc, b_p3 c hc, Q0, Q1, Q2, Q3]

theorem enc_4 (a b c d cnt last : Nat) (h : cnt % 5 = 0) (ha : a < 256) (hb : b < 256) (hc : c < 256) (hd : d < 256) :
    encLoop [a, b, c, d] cnt last =
      [T (Q0 a), T (Q1 a b), T (Q2 b), T (Q3 b c), T (Q4 c d), T (Q5 d), T ((d % 4) * 8), 61] := by
  have h1 : (cnt + 1) % 5 = 1 := by omega
  have h2 : (cnt + 1 + 1) % 5 = 2 := by omega
  have h3 : (cnt + 1 + 1 + 1) % 5 = 3 := by omega
  have h4 : (cnt + 1 + 1 + 1 + 1) % 5 = 4 := by omega
  simp [encLoop, h, h1, h2, h3, h4, b_q0 a ha, q1_eq ha hb, b_q2 b hb, q3_eq hb hc, q4_eq hc hd, b_q5 d hd, b_p4 d hd,
    Q0, Q1, Q2, Q3, Q4, Q5]

theorem enc_5 (a b c d e : Nat) (r : List Nat) (cnt last : Nat) (h : cnt % 5 = 0)
    (ha : a < 256) (hb : b < 256) (hc : c < 256) (hd : d < 256) (he : e < 256) :
    encLoop (a :: b :: c :: d :: e :: r) cnt last =
      [T (Q0 a), T (Q1 a b), T (Q2 b), T (Q3 b c), T (Q4 c d), T (Q5 d), T (Q6 d e), T (Q7 e)] ++ encLoop r (cnt + 5) e := by
  have h1 : (cnt + 1) % 5 = 1 := by omega
  have h2 : (cnt + 1 + 1) % 5 = 2 := by omega
  have h3 : (cnt + 1 + 1 + 1) % 5 = 3 := by omega
  have h4 : (cnt + 1 + 1 + 1 + 1) % 5 = 4 := by omega
  simp [encLoop, h, h1, h2, h3, h4, b_q0 a ha, q1_eq ha hb, b_q2 b hb, q3_eq hb hc, q4_eq hc hd, b_q5 d hd, q6_eq hd he,
    b_q7 e he, Q0, Q1, Q2, Q3, Q4, Q5, Q6, Q7]

/-! ### the decoder -/

def push (s : DS) (v : Nat) (isPad : Bool) : DS :=
  let x := (s.x * 32 + v) % 2 ^ 64
  let pad := if isPad then s.pad + 1 else s.pad
  { x, cnt := s.cnt + 1, pad := if (s.cnt + 1) % 8 = 0 then 0 else pad,
    out := if (s.cnt + 1) % 8 = 0 then
        s.out ++ [(x / 4294967296) % 256, (x / 16777216) % 256, (x / 65536) % 256, (x / 256) % 256, x % 256].take (5 - adj pad)
      else s.out }

theorem and7 (n : Nat) : n &&& 7 = n % 8 := Nat.and_two_pow_sub_one_eq_mod n 3
theorem and255 (n : Nat) : n &&& 0xff = n % 256 := Nat.and_two_pow_sub_one_eq_mod n 8

theorem decStep_T (s : DS) (i : Nat) (hi : i < 32) : decStep s (T i) = some (push s i false) := by
  have ⟨⟨w1, w2, w3⟩, hs, hd⟩ := T_valid i hi
  have hd1 : D (T i) ≠ -1 := by rw [hd]; omega
  have hd2 : D (T i) ≠ -2 := by rw [hd]; omega
  have hlt : ¬ T i ≥ decSize := by omega
  simp only [decStep, w1, w2, w3, or_self, if_false, hlt, hd1, hd2, false_or]
  simp only [push, and7, and255, Nat.shiftLeft_eq, Nat.shiftRight_eq_div_pow, hd, Int.toNat_natCast]
  split <;> simp_all

theorem decStep_pad (s : DS) : decStep s 61 = some (push s 0 true) := by
  have ⟨⟨w1, w2, w3⟩, hs, hd⟩ := pad_char
  have hd1 : D 61 ≠ -1 := by rw [hd]; omega
  have hlt : ¬ 61 ≥ decSize := by omega
  simp only [decStep, w1, w2, w3, or_self, if_false, hlt, hd1, false_or]
  simp only [push, and7, and255, Nat.shiftLeft_eq, Nat.shiftRight_eq_div_pow, hd]
  split <;> simp_all

/-- eight quintets pushed from a group boundary append the bytes they spell, minus the padded ones -/
theorem push8 (s : DS) (q0 q1 q2 q3 q4 q5 q6 q7 : Nat) (p2 p3 p4 p5 p6 p7 : Bool) (hc : s.cnt % 8 = 0) (hp : s.pad = 0)
    (h0 : q0 < 32) (h1 : q1 < 32) (h2 : q2 < 32) (h3 : q3 < 32) (h4 : q4 < 32) (h5 : q5 < 32) (h6 : q6 < 32) (h7 : q7 < 32) :
    let v := q0 * 34359738368 + q1 * 1073741824 + q2 * 33554432 + q3 * 1048576 + q4 * 32768 + q5 * 1024 + q6 * 32 + q7
    let s' := push (push (push (push (push (push (push (push s q0 false) q1 false) q2 p2) q3 p3) q4 p4) q5 p5) q6 p6) q7 p7
    s'.out = s.out ++ [v / 4294967296, (v / 16777216) % 256, (v / 65536) % 256, (v / 256) % 256, v % 256].take
        (5 - adj ((if p2 then 1 else 0) + (if p3 then 1 else 0) + (if p4 then 1 else 0) + (if p5 then 1 else 0) +
        (if p6 then 1 else 0) + (if p7 then 1 else 0))) ∧
      s'.cnt = s.cnt + 8 ∧ s'.pad = 0 := by
  have c1 : ¬ (s.cnt + 1) % 8 = 0 := by omega
  have c2 : ¬ (s.cnt + 1 + 1) % 8 = 0 := by omega
  have c3 : ¬ (s.cnt + 1 + 1 + 1) % 8 = 0 := by omega
  have c4 : ¬ (s.cnt + 1 + 1 + 1 + 1) % 8 = 0 := by omega
  have c5 : ¬ (s.cnt + 1 + 1 + 1 + 1 + 1) % 8 = 0 := by omega
  have c6 : ¬ (s.cnt + 1 + 1 + 1 + 1 + 1 + 1) % 8 = 0 := by omega
  have c7 : ¬ (s.cnt + 1 + 1 + 1 + 1 + 1 + 1 + 1) % 8 = 0 := by omega
  have c8 : (s.cnt + 1 + 1 + 1 + 1 + 1 + 1 + 1 + 1) % 8 = 0 := by omega
  simp only [push, c1, c2, c3, c4, c5, c6, c7, c8, if_false, if_true, hp]
  refine ⟨?_, by simp <;> omega, trivial⟩
  generalize s.x = x
  have e : ((((((((x * 32 + q0) % 2 ^ 64 * 32 + q1) % 2 ^ 64 * 32 + q2) % 2 ^ 64 * 32 + q3) % 2 ^ 64 * 32 + q4) % 2 ^ 64 * 32 + q5)
        % 2 ^ 64 * 32 + q6) % 2 ^ 64 * 32 + q7) % 2 ^ 64 % 1099511627776
      = q0 * 34359738368 + q1 * 1073741824 + q2 * 33554432 + q3 * 1048576 + q4 * 32768 + q5 * 1024 + q6 * 32 + q7 := by omega
  generalize ((((((((x * 32 + q0) % 2 ^ 64 * 32 + q1) % 2 ^ 64 * 32 + q2) % 2 ^ 64 * 32 + q3) % 2 ^ 64 * 32 + q4) % 2 ^ 64 * 32 + q5)
        % 2 ^ 64 * 32 + q6) % 2 ^ 64 * 32 + q7) % 2 ^ 64 = y at e ⊢
  have e1 : y / 4294967296 % 256 = (q0 * 34359738368 + q1 * 1073741824 + q2 * 33554432 + q3 * 1048576 + q4 * 32768 + q5 * 1024 + q6 * 32 + q7) / 4294967296 := by omega
  have e2 : y / 16777216 % 256 = (q0 * 34359738368 + q1 * 1073741824 + q2 * 33554432 + q3 * 1048576 + q4 * 32768 + q5 * 1024 + q6 * 32 + q7) / 16777216 % 256 := by omega
  have e3 : y / 65536 % 256 = (q0 * 34359738368 + q1 * 1073741824 + q2 * 33554432 + q3 * 1048576 + q4 * 32768 + q5 * 1024 + q6 * 32 + q7) / 65536 % 256 := by omega
  have e4 : y / 256 % 256 = (q0 * 34359738368 + q1 * 1073741824 + q2 * 33554432 + q3 * 1048576 + q4 * 32768 + q5 * 1024 + q6 * 32 + q7) / 256 % 256 := by omega
  have e5 : y % 256 = (q0 * 34359738368 + q1 * 1073741824 + q2 * 33554432 + q3 * 1048576 + q4 * 32768 + q5 * 1024 + q6 * 32 + q7) % 256 := by omega
  rw [e1, e2, e3, e4, e5]
  cases p2 <;> cases p3 <;> cases p4 <;> cases p5 <;> cases p6 <;> cases p7 <;> simp [adj]

theorem decLoop_cons (c : Nat) (r : List Nat) (s s' : DS) (h : decStep s c = some s') :
    decLoop (c :: r) s = decLoop r s' := by simp [decLoop, h]

theorem q_bounds (a b c d e : Nat) (ha : a < 256) (hb : b < 256) (hc : c < 256) (hd : d < 256) (he : e < 256) :
    Q0 a < 32 ∧ Q1 a b < 32 ∧ Q2 b < 32 ∧ Q3 b c < 32 ∧ Q4 c d < 32 ∧ Q5 d < 32 ∧ Q6 d e < 32 ∧ Q7 e < 32 := by
  unfold Q0 Q1 Q2 Q3 Q4 Q5 Q6 Q7; omega

/-- the five bytes spelled by the eight quintets of a group -/
theorem v_bytes (a b c d e : Nat) (ha : a < 256) (hb : b < 256) (hc : c < 256) (hd : d < 256) (he : e < 256) :
    let v := Q0 a * 34359738368 + Q1 a b * 1073741824 + Q2 b * 33554432 + Q3 b c * 1048576 + Q4 c d * 32768 + Q5 d * 1024 + Q6 d e * 32 + Q7 e
    v / 4294967296 = a ∧ v / 16777216 % 256 = b ∧ v / 65536 % 256 = c ∧ v / 256 % 256 = d ∧ v % 256 = e := by
  unfold Q0 Q1 Q2 Q3 Q4 Q5 Q6 Q7; omega

theorem q_zero : Q2 0 = 0 ∧ Q3 0 0 = 0 ∧ Q4 0 0 = 0 ∧ Q5 0 = 0 ∧ Q6 0 0 = 0 ∧ Q7 0 = 0 := by decide

/-- decoding the encoder's output from a group boundary appends exactly the input bytes and ends on a group
    boundary with no padding pending -/
theorem dec_enc : ∀ (bs : List Nat), (∀ b ∈ bs, b < 256) → ∀ (cnt last : Nat) (s : DS),
    cnt % 5 = 0 → s.cnt % 8 = 0 → s.pad = 0 →
    ∃ s', decLoop (encLoop bs cnt last) s = some s' ∧ s'.out = s.out ++ bs ∧ s'.pad = 0 ∧ s'.cnt % 8 = 0
  | [], _, cnt, last, s, hc, hs, hp => ⟨s, by simp [enc_nil cnt last hc, decLoop], by simp, hp, hs⟩
  | [a], hb, cnt, last, s, hc, hs, hp => by
    have ha : a < 256 := hb a (by simp)
    have ⟨b0, b1, b2, b3, b4, b5, b6, b7⟩ := q_bounds a 0 0 0 0 ha (by omega) (by omega) (by omega) (by omega)
    have ⟨z2, z3, z4, z5, z6, z7⟩ := q_zero
    have e1 : a % 8 * 4 = Q1 a 0 := by unfold Q1; omega
    rw [enc_1 a cnt last hc ha, e1]
    rw [decLoop_cons _ _ _ _ (decStep_T s _ b0), decLoop_cons _ _ _ _ (decStep_T _ _ b1),
      decLoop_cons _ _ _ _ (decStep_pad _), decLoop_cons _ _ _ _ (decStep_pad _), decLoop_cons _ _ _ _ (decStep_pad _),
      decLoop_cons _ _ _ _ (decStep_pad _), decLoop_cons _ _ _ _ (decStep_pad _), decLoop_cons _ _ _ _ (decStep_pad _)]
    have ⟨o, c, p⟩ := push8 s (Q0 a) (Q1 a 0) (Q2 0) (Q3 0 0) (Q4 0 0) (Q5 0) (Q6 0 0) (Q7 0) true true true true true true hs hp
      b0 b1 b2 b3 b4 b5 b6 b7
    have ⟨v1, v2, v3, v4, v5⟩ := v_bytes a 0 0 0 0 ha (by omega) (by omega) (by omega) (by omega)
    simp only [z2, z3, z4, z5, z6, z7] at o c p v1 v2 v3 v4 v5
    refine ⟨_, rfl, ?_, p, by rw [c]; omega⟩
    rw [o, v1, v2, v3, v4, v5]; simp [adj]
  | [a, b], hb, cnt, last, s, hc, hs, hp => by
    have ha : a < 256 := hb a (by simp)
    have hb' : b < 256 := hb b (by simp)
    have ⟨b0, b1, b2, b3, b4, b5, b6, b7⟩ := q_bounds a b 0 0 0 ha hb' (by omega) (by omega) (by omega)
    have ⟨z2, z3, z4, z5, z6, z7⟩ := q_zero
    have e1 : b % 2 * 16 = Q3 b 0 := by unfold Q3; omega
    rw [enc_2 a b cnt last hc ha hb', e1]
    rw [decLoop_cons _ _ _ _ (decStep_T s _ b0), decLoop_cons _ _ _ _ (decStep_T _ _ b1),
      decLoop_cons _ _ _ _ (decStep_T _ _ b2), decLoop_cons _ _ _ _ (decStep_T _ _ b3),
      decLoop_cons _ _ _ _ (decStep_pad _), decLoop_cons _ _ _ _ (decStep_pad _),
      decLoop_cons _ _ _ _ (decStep_pad _), decLoop_cons _ _ _ _ (decStep_pad _)]
    have ⟨o, c, p⟩ := push8 s (Q0 a) (Q1 a b) (Q2 b) (Q3 b 0) (Q4 0 0) (Q5 0) (Q6 0 0) (Q7 0) false false true true true true hs hp
      b0 b1 b2 b3 b4 b5 b6 b7
    have ⟨v1, v2, v3, v4, v5⟩ := v_bytes a b 0 0 0 ha hb' (by omega) (by omega) (by omega)
    simp only [z4, z5, z6, z7] at o c p v1 v2 v3 v4 v5
    refine ⟨_, rfl, ?_, p, by rw [c]; omega⟩
    rw [o, v1, v2, v3, v4, v5]; simp [adj]
  | [a, b, c], hb, cnt, last, s, hc, hs, hp => by
    have ha : a < 256 := hb a (by simp)
    have hb' : b < 256 := hb b (by simp)
    have hc' : c < 256 := hb c (by simp)
    have ⟨b0, b1, b2, b3, b4, b5, b6, b7⟩ := q_bounds a b c 0 0 ha hb' hc' (by omega) (by omega)
    have ⟨z2, z3, z4, z5, z6, z7⟩ := q_zero
    have e1 : c % 16 * 2 = Q4 c 0 := by unfold Q4; omega
    rw [enc_3 a b c cnt last hc ha hb' hc', e1]
    rw [decLoop_cons _ _ _ _ (decStep_T s _ b0), decLoop_cons _ _ _ _ (decStep_T _ _ b1),
      decLoop_cons _ _ _ _ (decStep_T _ _ b2), decLoop_cons _ _ _ _ (decStep_T _ _ b3),
      decLoop_cons _ _ _ _ (decStep_T _ _ b4), decLoop_cons _ _ _ _ (decStep_pad _),
      decLoop_cons _ _ _ _ (decStep_pad _), decLoop_cons _ _ _ _ (decStep_pad _)]
    have ⟨o, cn, p⟩ := push8 s (Q0 a) (Q1 a b) (Q2 b) (Q3 b c) (Q4 c 0) (Q5 0) (Q6 0 0) (Q7 0) false false false true true true hs hp
      b0 b1 b2 b3 b4 b5 b6 b7
    have ⟨v1, v2, v3, v4, v5⟩ := v_bytes a b c 0 0 ha hb' hc' (by omega) (by omega)
    simp only [z5, z6, z7] at o cn p v1 v2 v3 v4 v5
    refine ⟨_, rfl, ?_, p, by rw [cn]; omega⟩
    rw [o, v1, v2, v3, v4, v5]; simp [adj]
  | [a, b, c, d], hb, cnt, last, s, hc, hs, hp => by
    have ha : a < 256 := hb a (by simp)
    have hb' : b < 256 := hb b (by simp)
    have hc' : c < 256 := hb c (by simp)
    have hd' : d < 256 := hb d (by simp)
    have ⟨b0, b1, b2, b3, b4, b5, b6, b7⟩ := q_bounds a b c d 0 ha hb' hc' hd' (by omega)
    have ⟨z2, z3, z4, z5, z6, z7⟩ := q_zero
    have e1 : d % 4 * 8 = Q6 d 0 := by unfold Q6; omega
    rw [enc_4 a b c d cnt last hc ha hb' hc' hd', e1]
    rw [decLoop_cons _ _ _ _ (decStep_T s _ b0), decLoop_cons _ _ _ _ (decStep_T _ _ b1),
      decLoop_cons _ _ _ _ (decStep_T _ _ b2), decLoop_cons _ _ _ _ (decStep_T _ _ b3),
      decLoop_cons _ _ _ _ (decStep_T _ _ b4), decLoop_cons _ _ _ _ (decStep_T _ _ b5),
      decLoop_cons _ _ _ _ (decStep_T _ _ b6), decLoop_cons _ _ _ _ (decStep_pad _)]
    have ⟨o, cn, p⟩ := push8 s (Q0 a) (Q1 a b) (Q2 b) (Q3 b c) (Q4 c d) (Q5 d) (Q6 d 0) (Q7 0) false false false false false true hs hp
      b0 b1 b2 b3 b4 b5 b6 b7
    have ⟨v1, v2, v3, v4, v5⟩ := v_bytes a b c d 0 ha hb' hc' hd' (by omega)
    simp only [z7] at o cn p v1 v2 v3 v4 v5
    refine ⟨_, rfl, ?_, p, by rw [cn]; omega⟩
    rw [o, v1, v2, v3, v4, v5]; simp [adj]
  | a :: b :: c :: d :: e :: r, hb, cnt, last, s, hc, hs, hp => by
    have ha : a < 256 := hb a (by simp)
    have hb' : b < 256 := hb b (by simp)
    have hc' : c < 256 := hb c (by simp)
    have hd' : d < 256 := hb d (by simp)
    have he' : e < 256 := hb e (by simp)
    have ⟨b0, b1, b2, b3, b4, b5, b6, b7⟩ := q_bounds a b c d e ha hb' hc' hd' he'
    rw [enc_5 a b c d e r cnt last hc ha hb' hc' hd' he']
    try simp only [List.cons_append, List.nil_append]
    rw [decLoop_cons _ _ _ _ (decStep_T s _ b0), decLoop_cons _ _ _ _ (decStep_T _ _ b1),
      decLoop_cons _ _ _ _ (decStep_T _ _ b2), decLoop_cons _ _ _ _ (decStep_T _ _ b3),
      decLoop_cons _ _ _ _ (decStep_T _ _ b4), decLoop_cons _ _ _ _ (decStep_T _ _ b5),
      decLoop_cons _ _ _ _ (decStep_T _ _ b6), decLoop_cons _ _ _ _ (decStep_T _ _ b7)]
    have ⟨o, cn, p⟩ := push8 s (Q0 a) (Q1 a b) (Q2 b) (Q3 b c) (Q4 c d) (Q5 d) (Q6 d e) (Q7 e) false false false false false false hs hp
      b0 b1 b2 b3 b4 b5 b6 b7
    obtain ⟨s', e1, eo, ep, ec⟩ := dec_enc r (fun x hx => hb x (by simp [hx])) (cnt + 5) e _ (by omega)
      (by rw [cn]; omega) p
    refine ⟨s', e1, ?_, ep, ec⟩
    rw [eo, o]
    have ⟨v1, v2, v3, v4, v5⟩ := v_bytes a b c d e ha hb' hc' hd' he'
    rw [v1, v2, v3, v4, v5]; simp [adj]

/-- **Base32 round trip**: decoding the encoder's output gives the input back, for every byte string. -/
theorem b32_roundtrip (bs : List Nat) (h : ∀ b ∈ bs, b < 256) : decode (encode bs) = some bs := by
  obtain ⟨s', e, eo, _, _⟩ := dec_enc bs h 0 0 {} rfl rfl rfl
  simp only [decode, encode, e, Option.map_some]
  rw [eo]; simp

theorem decLoop_append (a b : List Nat) (s : DS) :
    decLoop (a ++ b) s = (decLoop a s).bind (decLoop b) := by
  induction a generalizing s with
  | nil => simp [decLoop]
  | cons c r ih =>
    simp only [List.cons_append, decLoop]
    cases decStep s c with
    | none => simp
    | some s' => simp [ih]

/-- **the decoder does not depend on how the text is cut into regions** -/
theorem decRegions_flatten (rs : List (List Nat)) (s : DS) : decRegions rs s = decLoop rs.flatten s := by
  induction rs generalizing s with
  | nil => simp [decRegions, decLoop]
  | cons r rs ih =>
    simp only [decRegions, List.flatten_cons, decLoop_append]
    cases decLoop r s with
    | none => simp
    | some s' => simp [ih]

/-- every write of the decoder is inside the `howmany(size, 8) * 5` bytes allocated for the region -/
theorem dec_region_bound (size carry : Nat) (hc : carry ≤ 7) :
    5 * ((carry + size) / 8) ≤ (size + 7) / 8 * 5 := by omega

end B32H

