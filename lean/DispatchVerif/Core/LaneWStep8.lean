import DispatchVerif.Core.LaneWStep7
namespace LaneW

/-- `_dispatch_queue_relinquish_width`: the units reserved for dispatch_apply are given back -/
theorem step_runningA {W : Nat} {sh : Sh} {t : Tid} {i : ItemId} {a : After} {k : Nat} {op : Op} {sh' : Sh} {pc' : Pc}
    (g : G W sh) (l : L sh t (.runningA i a k)) (h : (sh', pc') ∈ step W sh t (.runningA i a k) op) :
    Post W sh sh' t pc' := by
  simp only [step, List.mem_singleton, Prod.mk.injEq] at h
  obtain ⟨rfl, rfl⟩ := h
  by_cases hk : k = 0
  · subst hk
    have hc := l.cnt
    have e : rmN 0 t sh.holders = sh.holders := by cases sh.holders <;> simp [rmN]
    have e2 : ({ sh.dq with u := sh.dq.u - ((0 : Nat) : Int) } : Dq) = sh.dq := by simp
    rw [e, e2]
    exact frame_step g rfl ⟨fun hh => l.ownB hh, fun hh => by simp [holdsU] at hh, by simpa [unitsOf] using hc,
      fun w k e => by simp at e, fun hh => by simp [isDnb] at hh⟩
  · have hc := l.cnt
    have h1 : 1 ≤ sh.holders.count t := by simp [unitsOf] at hc; omega
    have hnB := notB_of_unit g h1
    have := release_units g l k (pc' := .running i a) (by simp [unitsOf]) { sh.dq with u := sh.dq.u - k } sh.tokens
      rfl rfl rfl rfl hnB rfl rfl (by simp)
    simpa using this

end LaneW
