import DispatchVerif.Core.IoP
namespace IoP

theorem handle_bytes {op : Op} (h : Inv op) (bs : List Byte) (hl : LegalO op (.bytes bs)) :
    HandleSpec op (.bytes bs) := by
  have ⟨a1, a2, a3, a4, a5, a6, a7, a8, a9, a10, a11, a12, a13⟩ := alloc_spec h
  obtain ⟨l1, l2⟩ := hl
  have hrl : readLen op = (allocBuf op).bufSiz - op.buf.length := by unfold readLen; rw [a2]
  rw [hrl] at l2
  -- the state after the read
  let op2 : Op := { allocBuf op with buf := (allocBuf op).buf ++ bs, total := (allocBuf op).total + bs.length }
  have hu2 : op2.undelivered = op2.data.length := by show (allocBuf op).undelivered = (allocBuf op).data.length; rw [a7, a3]; exact h.und
  have hb2 : op2.buf.length = op.buf.length + bs.length := by show ((allocBuf op).buf ++ bs).length = _; rw [a2]; simp
  have hsz2 : op2.data.length + op2.buf.length ≤ op2.high := by
    rw [hb2]; show (allocBuf op).data.length + _ ≤ (allocBuf op).high; rw [a3, a11]; rw [a2] at a4; omega
  have hbs2 : op2.buf.length ≤ op2.bufSiz := by rw [hb2]; show _ ≤ (allocBuf op).bufSiz; rw [a2] at a4; omega
  have hcons2 : op2.data ++ op2.buf = op.data ++ op.buf ++ bs := by
    show (allocBuf op).data ++ ((allocBuf op).buf ++ bs) = _; rw [a3, a2]; simp
  by_cases hfin : some ((allocBuf op).total + bs.length) = (allocBuf op).length
  · -- COMPLETE: dispose delivers with DOP_DONE
    have hh : handle op (.bytes bs) = ((deliverData op2 false true false).1, (deliverData op2 false true false).2, true) := by
      simp only [handle, perform, hfin, if_true]; rfl
    have ⟨d1, d2, d3, d4, d5, d6, d7, d8, d9, d10, d11⟩ := deliver_spec op2 false true false hu2 hsz2 hbs2
    simp only at d1 d2 d3 d4 d5 d6 d7 d8 d9 d10 d11
    have hdata : (deliverData op2 false true false).1.data = [] ∧ (deliverData op2 false true false).1.buf = [] := by
      rcases d11 with ⟨_, _, _, _, hc⟩ | ⟨_, hb, _, hd⟩
      · simp at hc
      · rcases hd with hd | ⟨_, _, _, hc⟩
        · exact ⟨hd, hb⟩
        · simp at hc
    refine ⟨?_, ?_, ?_, ?_, ?_⟩
    · rw [hh]; simp only [bytesOf]; rw [d1, hcons2]
    · rw [hh]; intro c hc; have := d2 c hc; show _ ≤ op.high; rw [← a11]; exact this
    · rw [hh]; exact ⟨by rw [d7]; exact a11, by rw [d6]; exact a10⟩
    · rw [hh]; intro hc; simp at hc
    · rw [hh]; intro _; exact ⟨hdata.1, hdata.2, deliver_done_spec op2⟩
  · -- DELIVER
    have hh : handle op (.bytes bs) = ((deliverData op2 false false false).1, (deliverData op2 false false false).2, false) := by
      simp only [handle, perform, hfin, if_false]; rfl
    have ⟨d1, d2, d3, d4, d5, d6, d7, d8, d9, d10, d11⟩ := deliver_spec op2 false false false hu2 hsz2 hbs2
    simp only at d1 d2 d3 d4 d5 d6 d7 d8 d9 d10 d11
    refine ⟨?_, ?_, ?_, ?_, ?_⟩
    · rw [hh]; simp only [bytesOf]; rw [d1, hcons2]
    · rw [hh]; intro c hc; have := d2 c hc; show _ ≤ op.high; rw [← a11]; exact this
    · rw [hh]; exact ⟨by rw [d7]; exact a11, by rw [d6]; exact a10⟩
    · rw [hh]; intro _
      refine ⟨?_, ?_⟩
      · -- the invariant is re-established
        have htot : ∀ l, op.length = some l → op2.total < l ∧ op2.total + ((allocBuf op).bufSiz - op2.buf.length) ≤ l := by
          intro l hl'
          have := a6 l hl'
          have hne : op2.total ≠ l := by intro e; apply hfin; show some op2.total = (allocBuf op).length; rw [a9, hl', e]
          have ht : op2.total = op.total + bs.length := by show (allocBuf op).total + bs.length = _; rw [a8]
          rw [ht] at hne ⊢; rw [hb2]; omega
        constructor
        · show (deliverData op2 false false false).1.low ≤ (deliverData op2 false false false).1.high
          rw [d6, d7]; show (allocBuf op).low ≤ (allocBuf op).high; rw [a10, a11]; exact h.lowHigh
        · show 0 < (deliverData op2 false false false).1.high
          rw [d7]; show 0 < (allocBuf op).high; rw [a11]; exact h.highPos
        · show 0 < (deliverData op2 false false false).1.chunk
          rw [d8]; show 0 < (allocBuf op).chunk; rw [a12]; exact h.chunkPos
        · exact d3
        · show (deliverData op2 false false false).1.data.length < (deliverData op2 false false false).1.high ∧ _
          rw [d7, d6]
          show _ < (allocBuf op).high ∧ (_ → _ < (allocBuf op).low)
          rw [a11, a10]
          rcases d11 with ⟨e, _⟩ | ⟨_, _, _, hd⟩
          · rw [e]; show (allocBuf op).data.length < _ ∧ ((allocBuf op).data ≠ [] → (allocBuf op).data.length < _)
            rw [a3]; exact h.small
          · rcases hd with hd | ⟨hd, hlt, _⟩
            · rw [hd]; exact ⟨h.highPos, fun hc => absurd rfl hc⟩
            · rw [hd, hu2] at *
              have hlen : (op2.data ++ op2.buf).length = op2.data.length + op2.buf.length := by simp
              rw [hlen]
              have : op2.low = op.low := a10
              have := h.lowHigh
              constructor <;> (try intro _) <;> omega
        · intro hb
          rcases d11 with ⟨e, _, hlt, _⟩ | ⟨hhb, _, _, _⟩
          · rw [e]; show op2.buf.length < (allocBuf op).bufSiz ∧ (allocBuf op).data.length + (allocBuf op).bufSiz ≤ (allocBuf op).high
            rw [a3, a11]; exact ⟨hlt, a5⟩
          · rw [hhb] at hb; have : op2.buf.length > 0 := by rw [hb2]; omega
            simp [this] at hb
        · intro hb
          rcases d11 with ⟨e, _⟩ | ⟨_, hbuf, _, _⟩
          · rw [e] at hb; have : op2.hasBuf = true := a1; rw [this] at hb; cases hb
          · exact hbuf
        · intro l hl'
          rw [d9] at hl'
          have hl'' : op.length = some l := by rw [← a9]; exact hl'
          have ⟨t1, t2⟩ := htot l hl''
          rw [d10]
          refine ⟨t1, fun hb => ?_⟩
          rcases d11 with ⟨e, _⟩ | ⟨hhb, _, _, _⟩
          · rw [e]; exact t2
          · rw [hhb] at hb; have : op2.buf.length > 0 := by rw [hb2]; omega
            simp [this] at hb
      · intro c hc
        exact ⟨d4 trivial c hc, by have := d5 trivial trivial c hc; rw [← a10]; exact this⟩
    · rw [hh]; intro hc; simp at hc

end IoP
