import DispatchVerif.Core.Utf8Acc
import DispatchVerif.Core.Utf16F
/-! C20: for ARBITRARY input bytes, whatever `_dispatch_transform_from_utf16` returns is accepted by the inverse transform: its
    output is the UTF-8 of scalar values. -/
namespace Utf8P

theorem drop_length_ge {l : List Nat} {n : Nat} {a : List Nat} (h : l.drop n = a) : n + a.length ≤ l.length ∨ a = [] := by
  by_cases hn : n ≤ l.length
  · left; rw [← h, List.length_drop]; omega
  · right; rw [← h]; exact List.drop_eq_nil_of_le (by omega)

/-- at the start of the encoding of a scalar value the loop body decodes it and moves past it -/
theorem step1_enc (flat : List Nat) (pos : Nat) (c : Nat) (rest : List Nat) (hc : scalar c)
    (hd : flat.drop pos = enc c ++ rest) : ∃ us, step1 flat pos = .emit us (enc c).length := by
  obtain ⟨b, r, he, hu⟩ := ulen_enc c hc.1
  have hlen : (enc c).length = r.length + 1 := by rw [he]; simp
  have hd' : flat.drop pos = b :: (r ++ rest) := by rw [hd, he]; rfl
  have hge : pos + (enc c ++ rest).length ≤ flat.length := by
    rcases drop_length_ge hd with h | h
    · exact h
    · rw [he] at h; cases h
  unfold step1
  rw [hd']
  simp only []
  have h0 : ¬ ulen b = 0 := by omega
  have h1 : ¬ flat.length < pos + ulen b := by
    rw [List.length_append, hlen] at hge; omega
  rw [if_neg h0, if_neg h1]
  have hrs : readSeq (b :: (r ++ rest)) = some c := by
    have := readSeq_enc c hc.1 rest
    rw [he] at this; exact this
  rw [hrs]
  simp only []
  by_cases hb : c = 0xfeff ∧ (pos == 0) = true
  · have : emit c (pos == 0) = some [] := by unfold emit; rw [if_pos ⟨hb.1, hb.2⟩]
    rw [this]; exact ⟨[], by rw [hu, hlen]⟩
  · rw [emit_eq c _ hb, emit_scalar c hc]
    exact ⟨enc16 c, by rw [hu, hlen]⟩

theorem runTo_enc (flat : List Nat) : ∀ (cs : List Nat) (pos fuel : Nat) (out : List Nat),
    (∀ c ∈ cs, scalar c) → flat.drop pos = cs.flatMap enc → pos ≤ flat.length → (cs.flatMap enc).length ≤ fuel →
    ∃ out' s, runTo flat flat.length fuel pos out = .ok out' s := by
  intro cs
  induction cs with
  | nil =>
    intro pos fuel out _ hd hp _
    have : flat.length ≤ pos := by
      have := congrArg List.length hd
      simp at this; omega
    cases fuel with
    | zero => exact ⟨_, _, rfl⟩
    | succ f => simp [runTo, this]
  | cons c cs ih =>
    intro pos fuel out hs hd hp hf
    have hc := hs c (by simp)
    rw [List.flatMap_cons] at hd hf
    obtain ⟨us, hst⟩ := step1_enc flat pos c _ hc hd
    obtain ⟨b, r, he, _⟩ := ulen_enc c hc.1
    have hpos : 0 < (enc c).length := by rw [he]; simp
    have hlt : pos + (enc c).length ≤ flat.length := by
      rcases drop_length_ge hd with h | h
      · rw [List.length_append] at h; omega
      · exfalso; have := congrArg List.length h; rw [List.length_append, List.length_nil] at this; omega
    cases fuel with
    | zero => rw [List.length_append] at hf; omega
    | succ f =>
      have hne : ¬ flat.length ≤ pos := by omega
      simp only [runTo, hne, if_false, hst]
      apply ih (pos + (enc c).length) f _ (fun x hx => hs x (by simp [hx]))
      · rw [← List.drop_drop, hd, List.drop_left]
      · exact hlt
      · rw [List.length_append] at hf; omega

/-- the UTF-8 of any list of scalar values is accepted by UTF-8 → UTF-16 -/
theorem toUtf16F_accepts_wf (cs : List Nat) (hs : ∀ c ∈ cs, scalar c) :
    ∃ us s, toUtf16F (cs.flatMap enc) [(cs.flatMap enc).length] = .ok us s := by
  obtain ⟨o, s, h⟩ := runTo_enc (cs.flatMap enc) cs 0 (cs.flatMap enc).length [0xfeff] hs (by simp) (by simp) (Nat.le_refl _)
  refine ⟨o, s, ?_⟩
  simp only [toUtf16F, regionsF, Nat.zero_add, if_true]
  rw [h]

end Utf8P

namespace Utf16F
open Utf16P (look enc8 u16 enc8_eq)
open Utf8P (enc scalar)

theorem look_lt (be : Bool) (flat : List Nat) (hb : ∀ x ∈ flat, x < 256) (pos ch : Nat) (h : look be flat pos = some ch) : ch < 65536 := by
  unfold look at h
  split at h
  · rename_i a b t hd
    injection h with h
    have ha : a ∈ flat := List.mem_of_mem_drop (by rw [hd]; simp)
    have hb' : b ∈ flat := List.mem_of_mem_drop (by rw [hd]; simp)
    have := hb a ha; have := hb b hb'
    unfold u16 at h; split at h <;> omega
  · cases h

def Shape8 (out : List Nat) : Prop := ∃ cs : List Nat, (∀ c ∈ cs, scalar c) ∧ out = cs.flatMap enc

theorem Shape8.nil : Shape8 [] := ⟨[], by simp, rfl⟩
theorem Shape8.append {a b : List Nat} (ha : Shape8 a) (hb : Shape8 b) : Shape8 (a ++ b) := by
  obtain ⟨c1, h1, rfl⟩ := ha; obtain ⟨c2, h2, rfl⟩ := hb
  exact ⟨c1 ++ c2, by intro c hc; rcases List.mem_append.mp hc with h | h; exact h1 c h; exact h2 c h, by simp⟩
theorem Shape8.one (c : Nat) (h : scalar c) : Shape8 (enc8 c) :=
  ⟨[c], by intro x hx; rw [List.mem_singleton.mp hx]; exact h, by rw [enc8_eq c h.1]; simp⟩

theorem step1_shape (be : Bool) (flat : List Nat) (hb : ∀ x ∈ flat, x < 256) {pos : Nat} {us : List Nat} {n : Nat}
    (h : step1 be flat pos = .emit us n) : Shape8 us := by
  unfold step1 at h
  split at h
  · cases h
  · rename_i ch hl
    have hch := look_lt be flat hb _ _ hl
    split at h
    · cases h
    · split at h
      · split at h
        · cases h
        · rename_i c2 hl2
          split at h
          · cases h
          · rename_i hc2
            injection h with h _; rw [← h]
            apply Shape8.one
            have : c2 % 1024 < 1024 := Nat.mod_lt _ (by omega)
            unfold scalar; omega
      · split at h
        · cases h
        · injection h with h _; rw [← h]
          apply Shape8.one
          unfold scalar; omega

theorem runTo_shape (be : Bool) (flat : List Nat) (hb : ∀ x ∈ flat, x < 256) (e : Nat) : ∀ (f pos : Nat) (out : List Nat) {out' : List Nat} {s : Nat},
    Shape8 out → runTo be flat e f pos out = .ok out' s → Shape8 out' := by
  intro f
  induction f with
  | zero => intro pos out out' s ho h; simp [runTo] at h; rw [← h.1]; exact ho
  | succ f ih =>
    intro pos out out' s ho h
    simp only [runTo] at h
    by_cases he : e ≤ pos
    · simp [he] at h; rw [← h.1]; exact ho
    · simp only [he, if_false] at h
      cases hs : step1 be flat pos with
      | emit us n =>
        rw [hs] at h
        exact ih _ _ (ho.append (step1_shape be flat hb hs)) h
      | fail => rw [hs] at h; cases h

theorem regionsF_shape (be : Bool) (flat : List Nat) (hb : ∀ x ∈ flat, x < 256) : ∀ (lens : List Nat) (off : Nat) (out : List Nat) (skip : Nat) {out' : List Nat} {s : Nat},
    Shape8 out → regionsF be flat off lens out skip = .ok out' s → Shape8 out' := by
  intro lens
  induction lens with
  | nil => intro off out skip out' s ho h; simp [regionsF] at h; rw [← h.1]; exact ho
  | cons n ns ih =>
    intro off out skip out' s ho h
    simp only [regionsF] at h
    cases hr : runTo be flat (off + n) (off + n) (off + skip) out with
    | ok o1 s1 =>
      rw [hr] at h
      exact ih _ _ _ (runTo_shape be flat hb _ _ _ _ ho hr) h
    | fail => rw [hr] at h; cases h

/-- **whatever UTF-16 → UTF-8 returns is well-formed UTF-8**: for arbitrary input bytes, either byte order and any
    fragmentation, a successful conversion yields the UTF-8 encoding of a list of Unicode scalar values -/
theorem fromUtf16F_output_wf (be : Bool) (flat : List Nat) (hb : ∀ x ∈ flat, x < 256) (lens : List Nat) {out : List Nat} {s : Nat}
    (h : fromUtf16F be flat lens = .ok out s) : ∃ cs : List Nat, (∀ c ∈ cs, scalar c) ∧ out = cs.flatMap enc :=
  regionsF_shape be flat hb lens 0 [] 0 Shape8.nil h

/-- **UTF-16 → UTF-8 returns NULL or data the inverse transform accepts**, for arbitrary input bytes and any fragmentation -/
theorem utf16_to_utf8_output_accepted (be : Bool) (flat : List Nat) (hb : ∀ x ∈ flat, x < 256) (lens : List Nat) {out : List Nat} {s : Nat}
    (h : fromUtf16F be flat lens = .ok out s) : ∃ us s', Utf8P.toUtf16F out [out.length] = .ok us s' := by
  obtain ⟨cs, hs, rfl⟩ := fromUtf16F_output_wf be flat hb lens h
  exact Utf8P.toUtf16F_accepts_wf cs hs

end Utf16F
