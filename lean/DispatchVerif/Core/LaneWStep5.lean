import DispatchVerif.Core.LaneWStep4
namespace LaneW

/-- outside barrier mode no barrier signal and no lock transfer is pending -/
theorem notB_quiet {W : Nat} {sh : Sh} (g : G W sh) (hnB : sh.dq.B = false) : sh.sigB = [] ∧ sh.xfer = none := by
  constructor
  · cases hs' : sh.sigB with
    | nil => rfl
    | cons w _ => have := (g.sig w (by simp [hs'])).2; simp [hnB] at this
  · cases hx : sh.xfer with
    | none => rfl
    | some p => have := (g.xf p.1 p.2 (by simp [hx])).2; simp [hnB] at this

/-- the barrier owner drops IN_BARRIER and becomes the owner of all W units -/
theorem ownerB_to_units {W : Nat} {sh : Sh} {t : Tid} {pc pc' : Pc} (g : G W sh) (l : L sh t pc)
    (hh : holdsB pc = true) (hu0 : unitsOf pc = 0)
    (hb' : holdsB pc' = false) (hn' : unitsOf pc' = W) (hs : ∀ w k, pc' ≠ .dbwSignal w k) :
    Post W sh { sh with dq := { sh.dq with B := false }, holders := List.replicate W t ++ sh.holders } t pc' := by
  have ⟨hq1, hq2, hq3, hq4, hq5, hq6⟩ := ownerB_quiet g l hh
  have hl := (l.ownB hh).1
  have hc := l.cnt
  refine ⟨⟨?_, ?_, ?_, ?_, g.nodup, g.xsig⟩, ⟨?_, ?_, ?_, ?_, ?_⟩,
    others_own (Or.inl hl.1) rfl (by intro u hu; simp [count_replicate_ne W t u sh.holders hu])⟩
  · simp [hq3, hq4, hq5, hq6]
  · intro hb; simp at hb
  · intro w hw; simp [hq1] at hw
  · intro w u hw; simp [hq2] at hw
  · intro h; simp [hb'] at h
  · intro _; exact ⟨hl.1, rfl⟩
  · simp [hq3, hu0] at hc; simp [hq3, hn']; omega
  · intro w k e; exact absurd e (hs w k)
  · intro _; exact hq5

/-- a units-mode thread takes one more unit -/
theorem take_unit {W : Nat} {sh : Sh} {t : Tid} {pc pc' : Pc} (g : G W sh) (l : L sh t pc)
    (hnB : sh.dq.B = false)
    (hb' : holdsB pc' = holdsB pc) (hu' : holdsU pc' = holdsU pc) (hn' : unitsOf pc' = unitsOf pc + 1)
    (hs : ∀ w k, pc' ≠ .dbwSignal w k) (hd : isDnb pc' = true → isDnb pc = true) :
    Post W sh { sh with dq := { sh.dq with u := sh.dq.u + 1 }, holders := t :: sh.holders } t pc' := by
  have hc := l.cnt
  refine ⟨⟨?_, ?_, ?_, ?_, g.nodup, g.xsig⟩, ⟨?_, ?_, ?_, ?_, ?_⟩,
    others_keep rfl rfl (by intro u hu; rfl) rfl (by intro u hu; simp [List.count_cons, Ne.symm hu])⟩
  · have := g.gW; simp [hnB] at this ⊢; omega
  · intro hb; simp [hnB] at hb
  · intro w hw; exact g.sig w hw
  · intro w u hw; exact g.xf w u hw
  · intro h; exact l.ownB (hb' ▸ h)
  · intro h; exact l.ownU (hu' ▸ h)
  · simp [List.count_cons, hn']; omega
  · intro w k e; exact absurd e (hs w k)
  · intro h; exact l.npb (hd h)

/-- one unit of thread t goes to the popped item: to its waiter, or to a redirect token -/
theorem hand_over {W : Nat} {sh : Sh} {t : Tid} {pc pc' : Pc} (g : G W sh) (l : L sh t pc)
    (hnB : sh.dq.B = false) (rest : List Item) (it : Item)
    (hb' : holdsB pc' = holdsB pc) (hu' : holdsU pc' = holdsU pc) (hn : unitsOf pc = unitsOf pc' + 1)
    (hs : ∀ w k, pc' ≠ .dbwSignal w k) (hd : isDnb pc' = true → isDnb pc = true) :
    Post W sh (handOver { sh with items := rest } t it) t pc' := by
  have hc := l.cnt
  have hle : 1 ≤ sh.holders.count t := by omega
  have hlen := length_rmN 1 t sh.holders hle
  have hcnt := count_rmN_self 1 t sh.holders hle
  unfold handOver
  split
  · rename_i w _
    refine ⟨⟨?_, ?_, ?_, ?_, g.nodup, g.xsig⟩, ⟨?_, ?_, ?_, ?_, ?_⟩,
      others_keep rfl rfl (by intro u hu; rfl) rfl ?_⟩
    · have := g.gW; simp [hnB] at this ⊢; omega
    · intro hb; simp [hnB] at hb
    · intro w hw; exact g.sig w hw
    · intro w u hw; exact g.xf w u hw
    · intro h; exact l.ownB (hb' ▸ h)
    · intro h; exact l.ownU (hu' ▸ h)
    · by_cases e : w = t
      · subst e; simp [List.count_cons]; omega
      · simp [List.count_cons, e]; omega
    · intro w k e; exact absurd e (hs w k)
    · intro h; exact l.npb (hd h)
    · intro u hu
      have := count_rmN_ne 1 t u sh.holders hu
      by_cases e : w = u
      · subst e; simp [List.count_cons, this]; omega
      · simp [List.count_cons, e, this]
  · refine ⟨⟨?_, ?_, ?_, ?_, g.nodup, g.xsig⟩, ⟨?_, ?_, ?_, ?_, ?_⟩,
      others_keep rfl rfl (by intro u hu; rfl) rfl (by intro u hu; simp [count_rmN_ne 1 t u sh.holders hu])⟩
    · have := g.gW; simp [hnB] at this ⊢; omega
    · intro hb; simp [hnB] at hb
    · intro w hw; exact g.sig w hw
    · intro w u hw; exact g.xf w u hw
    · intro h; exact l.ownB (hb' ▸ h)
    · intro h; exact l.ownU (hu' ▸ h)
    · simp; omega
    · intro w k e; exact absurd e (hs w k)
    · intro h; exact l.npb (hd h)

/-- the units-mode owner of the drain lock rewrites the word: gives back n units, may set or keep the
    pending-barrier reservation, may drop ownership -/
theorem owner_units_rewrite {W : Nat} {sh : Sh} {t : Tid} {pc pc' : Pc} (g : G W sh) (l : L sh t pc)
    (hU : holdsU pc = true) (n : Nat) (hn : unitsOf pc = unitsOf pc' + n) (d' : Dq) (tok : Nat)
    (hB' : d'.B = false)
    (hu : d'.u - (if d'.pb then (W : Int) - 1 else 0) = sh.dq.u - (if sh.dq.pb then (W : Int) - 1 else 0) - n)
    (hO : (d'.O = some t ∧ holdsB pc' = false) ∨ (d'.O = none ∧ holdsB pc' = false ∧ holdsU pc' = false))
    (hs : ∀ w k, pc' ≠ .dbwSignal w k) (hd : isDnb pc' = true → d'.pb = false) :
    Post W sh { sh with dq := d', holders := rmN n t sh.holders, tokens := tok } t pc' := by
  have ⟨hOt, hnB⟩ := l.ownU hU
  have ⟨hq1, hq2⟩ := notB_quiet g hnB
  have hc := l.cnt
  have hle : n ≤ sh.holders.count t := by omega
  have hlen := length_rmN n t sh.holders hle
  have hcnt := count_rmN_self n t sh.holders hle
  refine ⟨⟨?_, ?_, ?_, ?_, g.nodup, g.xsig⟩, ⟨?_, ?_, ?_, ?_, ?_⟩,
    others_own (Or.inl hOt) rfl (by intro u hu; simp [count_rmN_ne n t u sh.holders hu])⟩
  · have := g.gW; simp only [hnB, hB'] at this ⊢; simp at this ⊢; omega
  · intro hb; simp [hB'] at hb
  · intro w hw; simp [hq1] at hw
  · intro w u hw; simp [hq2] at hw
  · intro h; rcases hO with ⟨_, h2⟩ | ⟨_, h2, _⟩ <;> simp [h2] at h
  · intro h
    rcases hO with ⟨h1, _⟩ | ⟨_, _, h3⟩
    · exact ⟨h1, hB'⟩
    · simp [h3] at h
  · simp; omega
  · intro w k e; exact absurd e (hs w k)
  · exact hd

/-- an unowned, runnable but not lockable lane: the drainer takes all the free width as units -/
theorem acquireU {W : Nat} {sh : Sh} {t : Tid} {pc pc' : Pc} (g : G W sh) (l : L sh t pc)
    (hO : sh.dq.O = none) (hnB : sh.dq.B = false) (hpb : sh.dq.pb = false) (hlt : sh.dq.u < W)
    (hu0 : unitsOf pc = 0) (D' E' : Bool)
    (hb' : holdsB pc' = false) (hn' : unitsOf pc' = (W - sh.dq.u).toNat) (hs : ∀ w k, pc' ≠ .dbwSignal w k) :
    Post W sh { sh with dq := { u := W, B := false, pb := false, D := D', E := E', O := some t },
                        holders := List.replicate (W - sh.dq.u).toNat t ++ sh.holders } t pc' := by
  have ⟨hq1, hq2⟩ := unowned_quiet g hO
  have hc := l.cnt
  refine ⟨⟨?_, ?_, ?_, ?_, g.nodup, g.xsig⟩, ⟨?_, ?_, ?_, ?_, ?_⟩,
    others_own (Or.inr hO) rfl (by intro u hu; simp [count_replicate_ne _ t u sh.holders hu])⟩
  · have := g.gW; simp [hnB, hpb] at this ⊢; omega
  · intro hb; simp at hb
  · intro w hw; simp [hq1] at hw
  · intro w u hw; simp [hq2] at hw
  · intro h; simp [hb'] at h
  · intro _; exact ⟨rfl, rfl⟩
  · show (List.replicate _ t ++ sh.holders).count t = _ + sh.sigN.count t
    rw [count_replicate_self, hn']; omega
  · intro w k e; exact absurd e (hs w k)
  · intro _; rfl

theorem dnbFinDq_spec (W : Nat) (d : Dq) (ow : Nat) (nb : Bool) (t : Tid) (hB : d.B = false) (hpb : d.pb = false) :
    ((dnbFinDq W d ow nb t).B = false ∧ (dnbFinDq W d ow nb t).O = none ∧
      (dnbFinDq W d ow nb t).u - (if (dnbFinDq W d ow nb t).pb then (W : Int) - 1 else 0) = d.u - ow) ∨
    ((dnbFinDq W d ow nb t).B = true ∧ (dnbFinDq W d ow nb t).u = W ∧ (dnbFinDq W d ow nb t).pb = false ∧
      (dnbFinDq W d ow nb t).O = some t ∧ d.u - ow = 0) := by
  unfold dnbFinDq
  simp only []
  by_cases c : (nb && decide (W > 1)) = true
  · simp only [c, if_true]
    have := nbcTryLock_spec W d { u := d.u - ow + (W - 1), B := d.B, pb := true, D := true, E := d.E, O := none } t hB
    simp only at this
    rcases this with ⟨h1, h2, h3, h4⟩ | ⟨h1, h2, h3, h4, h5⟩
    · left; refine ⟨h1, h4, ?_⟩; rw [h2, h3]; simp <;> omega
    · right; refine ⟨h1, h2, h3, h4, ?_⟩; simp at h5; omega
  · have c' : (nb && decide (W > 1)) = false := by simpa using c
    simp only [c', Bool.false_eq_true, if_false]
    have := nbcTryLock_spec W d { u := d.u - ow, B := d.B, pb := d.pb, D := true, E := d.E, O := none } t hB
    simp only at this
    rcases this with ⟨h1, h2, h3, h4⟩ | ⟨h1, h2, h3, h4, h5⟩
    · left; refine ⟨h1, h4, ?_⟩; rw [h2, h3]; simp [hpb]
    · right; refine ⟨h1, h2, h3, h4, ?_⟩; simp [hpb] at h5; exact h5

theorem upgradeDq_spec (W : Nat) (d : Dq) (n : Nat) (hB : d.B = false) :
    (upgradeDq W d n).O = d.O ∧
    (((upgradeDq W d n).B = false ∧ (upgradeDq W d n).pb = true ∧
       (upgradeDq W d n).u = d.u - n + (if d.pb then 0 else (W : Int) - 1)) ∨
     ((upgradeDq W d n).B = true ∧ (upgradeDq W d n).pb = false ∧
       (upgradeDq W d n).u = d.u - n + (if d.pb then 0 else (W : Int) - 1) + 1 ∧
       d.u - n + (if d.pb then 0 else (W : Int) - 1) < W)) := by
  unfold upgradeDq Dq.runnable
  cases hp : d.pb <;> simp [hB]
  · by_cases c : d.u - ↑n + (↑W - 1) < (W : Int)
    · simp [c]
    · simp [c]
  · by_cases c : d.u - ↑n < (W : Int)
    · simp [c]
    · simp [c, hp]

end LaneW
