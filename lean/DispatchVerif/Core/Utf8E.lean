import DispatchVerif.Core.Utf8F
/-! C20: the UTF-8 → UTF-16 loop as written in the source (`Utf8P.toUtf16`: per-region pointer, `size`, `i`, the mapped
    look-ahead sub-range) computes what the position-shaped loop (`Utf8P.toUtf16F`) computes, for arbitrary bytes and any
    fragmentation. Fragmentation independence and the no-read-outside statement then carry over to the loop as written. -/
namespace Utf8P

theorem ulen_le4 (b : Nat) : ulen b ≤ 4 := by unfold ulen; split <;> (try split) <;> (try split) <;> (try split) <;> omega

/-- the sequence reader looks at no more than `ulen` bytes -/
theorem readSeq_prefix (b : Nat) (t rest : List Nat) (h : ulen b ≤ (b :: t).length) (h0 : ulen b ≠ 0) :
    readSeq ((b :: t) ++ rest) = readSeq (b :: t) := by
  simp only [List.cons_append, readSeq]
  by_cases h1 : ulen b = 1
  · simp [h1]
  · by_cases h2 : ulen b = 2
    · simp only [h2] at h ⊢
      cases t with
      | nil => simp at h
      | cons b1 t => simp
    · by_cases h3 : ulen b = 3
      · simp only [h3] at h ⊢
        match t, h with
        | b1 :: b2 :: t, _ => simp
        | [b1], h => simp at h
        | [], h => simp at h
      · by_cases h4 : ulen b = 4
        · simp only [h4] at h ⊢
          match t, h with
          | b1 :: b2 :: b3 :: t, _ => simp
          | [b1, b2], h => simp at h
          | [b1], h => simp at h
          | [], h => simp at h
        · simp [h1, h2, h3, h4]

theorem readSeq_some_of_len (b : Nat) (t : List Nat) (h : ulen b ≤ (b :: t).length) (h0 : ulen b ≠ 0) :
    ∃ w, readSeq (b :: t) = some w := by
  have := ulen_le4 b
  simp only [readSeq]
  by_cases h1 : ulen b = 1
  · simp [h1]
  · by_cases h2 : ulen b = 2
    · simp only [h2] at h ⊢
      cases t with
      | nil => simp at h
      | cons b1 t => simp
    · by_cases h3 : ulen b = 3
      · simp only [h3] at h ⊢
        match t, h with
        | b1 :: b2 :: t, _ => simp
        | [b1], h => simp at h
        | [], h => simp at h
      · by_cases h4 : ulen b = 4
        · simp only [h4] at h ⊢
          match t, h with
          | b1 :: b2 :: b3 :: t, _ => simp
          | [b1, b2], h => simp at h
          | [b1], h => simp at h
          | [], h => simp at h
        · omega

theorem drop_succ_of_cons {l : List Nat} {n : Nat} {b : Nat} {tl : List Nat} (h : l.drop n = b :: tl) : n < l.length := by
  by_cases hn : n < l.length
  · exact hn
  · rw [List.drop_eq_nil_of_le (by omega)] at h; cases h

/-- the loop of one region, as written in the source, is a run of the position-shaped loop to the end of the region -/
theorem inner_eq (flat : List Nat) (off size : Nat) (hsz : off + size ≤ flat.length) :
    ∀ (fuel : Nat) (src : List Nat) (i : Nat) (out : List Nat) (f' : Nat),
      flat.drop (off + i) = src ++ flat.drop (off + size) → src.length = size - i → i ≤ size → size - i ≤ fuel → size - i ≤ f' →
      inner flat off size fuel src i out = runTo flat (off + size) f' (off + i) out := by
  intro fuel
  induction fuel with
  | zero =>
    intro src i out f' _ _ hi hf _
    have : i = size := by omega
    subst this
    cases f' with
    | zero => simp [inner, runTo]
    | succ f' => simp [inner, runTo]
  | succ fuel ih =>
    intro src i out f' hd hl hi hf hf'
    by_cases hge : size ≤ i
    · have : i = size := by omega
      subst this
      cases f' with
      | zero => simp [inner, runTo]
      | succ f' => simp [inner, runTo]
    · cases src with
      | nil => simp at hl; omega
      | cons b t =>
        cases f' with
        | zero => omega
        | succ f' =>
          have hd' : flat.drop (off + i) = b :: (t ++ flat.drop (off + size)) := by rw [hd]; rfl
          have hne : ¬ (off + size ≤ off + i) := by omega
          simp only [inner, hge, if_false, runTo, hne, step1, hd']
          by_cases h0 : ulen b = 0
          · simp [h0]
          · simp only [h0, if_false]
            have hlen : (b :: t).length = size - i := hl
            by_cases hst : size < ulen b + i
            · -- the sequence straddles the end of the region: the mapped sub-range
              simp only [hst, if_true]
              generalize hR : flat.drop (off + size) = R at hd hd' ⊢
              have hLlen : (b :: (t ++ R)).length = flat.length - (off + i) := by rw [← hd', List.length_drop]
              have htl : ((b :: (t ++ R)).take (ulen b)).length = min (ulen b) (flat.length - (off + i)) := by
                rw [List.length_take, hLlen]
              by_cases hshort : flat.length < off + i + ulen b
              · have hneq : ((b :: (t ++ R)).take (ulen b)).length ≠ ulen b := by rw [htl]; omega
                rw [if_pos hneq, if_pos hshort]
              · have hfull : ((b :: (t ++ R)).take (ulen b)).length = ulen b := by rw [htl]; omega
                have hneq : ¬ ((b :: (t ++ R)).take (ulen b)).length ≠ ulen b := by rw [hfull]; simp
                rw [if_neg hneq, if_neg hshort]
                obtain ⟨t', ht'⟩ : ∃ t', (b :: (t ++ R)).take (ulen b) = b :: t' := by
                  cases hu : ulen b with
                  | zero => exact absurd hu h0
                  | succ k => exact ⟨(t ++ R).take k, by simp [List.take]⟩
                have hpre : b :: (t ++ R) = (b :: t') ++ (b :: (t ++ R)).drop (ulen b) := by
                  rw [← ht', List.take_append_drop]
                have hrs : readSeq (b :: (t ++ R)) = readSeq (b :: t') := by
                  rw [hpre]
                  exact readSeq_prefix b t' _ (by rw [← ht', hfull]; exact Nat.le_refl _) h0
                rw [ht', hrs]
                cases hr : readSeq (b :: t') with
                | none => rfl
                | some w =>
                  simp only []
                  cases he : emit w (off + i == 0) with
                  | none => rfl
                  | some us =>
                    simp only []
                    have hpast : off + size ≤ off + i + ulen b := by omega
                    cases f' with
                    | zero => simp only [runTo]; congr 1; omega
                    | succ f'' => simp only [runTo, hpast, if_true]; congr 1; omega
            · -- the whole sequence is inside the region
              simp only [hst, if_false]
              have hin : ¬ flat.length < off + i + ulen b := by omega
              simp only [hin, if_false]
              have hrs : readSeq (b :: (t ++ flat.drop (off + size))) = readSeq (b :: t) := by
                have := readSeq_prefix b t (flat.drop (off + size)) (by rw [hlen]; omega) h0
                simpa using this
              rw [hrs]
              cases hr : readSeq (b :: t) with
              | none => simp
              | some w =>
                simp only []
                cases he : emit w (off + i == 0) with
                | none => simp
                | some us =>
                  simp only []
                  have hpos := (Nat.pos_of_ne_zero h0)
                  rw [show off + i + ulen b = off + (i + ulen b) by omega]
                  apply ih
                  · rw [show off + (i + ulen b) = (off + i) + ulen b by omega, ← List.drop_drop, hd,
                      List.drop_append_of_le_length (by rw [hlen]; omega)]
                  · rw [List.length_drop, hlen]; omega
                  · omega
                  · omega
                  · omega

/-- the block of one region is a run of the position-shaped loop from `off + skip` to the end of the region -/
theorem region_eq (flat r : List Nat) (off : Nat) (rest : List Nat) (h : flat.drop off = r ++ rest) (out : List Nat) (skip f' : Nat)
    (hf : r.length - skip ≤ f') :
    region flat off r out skip = runTo flat (off + r.length) f' (off + skip) (if off = 0 then [0xfeff] else out) := by
  unfold region
  simp only []
  by_cases hs : r.length ≤ skip
  · rw [if_pos hs]
    cases f' with
    | zero => simp only [runTo]; congr 1; omega
    | succ f'' =>
      have : off + r.length ≤ off + skip := by omega
      simp only [runTo, this, if_true]; congr 1; omega
  · rw [if_neg hs]
    have hlen : off + r.length ≤ flat.length := by
      have hl := congrArg List.length h
      rw [List.length_drop, List.length_append] at hl
      omega
    have hrest : flat.drop (off + r.length) = rest := by
      rw [← List.drop_drop, h, List.drop_left]
    have := inner_eq flat (off + skip) (r.length - skip) (by omega) (r.length - skip) (r.drop skip) 0
      (if off = 0 then [0xfeff] else out) f'
      (by
        rw [Nat.add_zero, show off + skip + (r.length - skip) = off + r.length by omega, hrest, ← List.drop_drop, h,
          List.drop_append_of_le_length (by omega)])
      (by rw [List.length_drop]; omega) (by omega) (by omega) (by omega)
    rw [this]
    congr 1 <;> omega

def conv8 : Res → Res := id

theorem regions_eq (flat : List Nat) : ∀ (rs : List (List Nat)) (off : Nat) (tl out : List Nat) (skip : Nat),
    flat.drop off = rs.flatten ++ tl →
    regions flat off rs out skip = regionsF flat off (rs.map List.length) out skip := by
  intro rs
  induction rs with
  | nil => intro off tl out skip _; simp [regions, regionsF]
  | cons r rs ih =>
    intro off tl out skip h
    simp only [regions, List.map_cons, regionsF]
    rw [region_eq flat r off (rs.flatten ++ tl) (by rw [h]; simp) out skip (off + r.length) (by omega)]
    cases hr : runTo flat (off + r.length) (off + r.length) (off + skip) (if off = 0 then [0xfeff] else out) with
    | ok o s =>
      simp only []
      apply ih _ tl
      rw [← List.drop_drop, h]; simp
    | fail => rfl
    | oob => rfl

/-- **the loop as written in the source computes what the position-shaped loop computes** — arbitrary bytes, any fragmentation -/
theorem toUtf16_eq (rs : List (List Nat)) : toUtf16 rs = toUtf16F rs.flatten (rs.map List.length) := by
  unfold toUtf16 toUtf16F
  exact regions_eq rs.flatten rs 0 [] [] 0 (by simp)

theorem regionsF_no_oob (flat : List Nat) : ∀ (lens : List Nat) (off : Nat) (out : List Nat) (skip : Nat),
    off + lens.sum ≤ flat.length → regionsF flat off lens out skip ≠ .oob := by
  intro lens
  induction lens with
  | nil => intro off out skip _; simp [regionsF]
  | cons n ns ih =>
    intro off out skip h
    simp only [List.sum_cons] at h
    simp only [regionsF]
    cases hr : runTo flat (off + n) (off + n) (off + skip) (if off = 0 then [0xfeff] else out) with
    | ok o s => exact ih _ _ _ (by omega)
    | fail => simp
    | oob => exact absurd hr (runTo_no_oob flat (off + n) (by omega) _ _ _)

theorem sum_map_length (rs : List (List Nat)) : (rs.map List.length).sum = rs.flatten.length := by
  induction rs with
  | nil => rfl
  | cons r rs ih => simp only [List.map_cons, List.sum_cons, List.flatten_cons, List.length_append, ih]

/-- **the loop as written in the source never reads outside the mapped bytes** — arbitrary bytes, any fragmentation -/
theorem toUtf16_never_oob (rs : List (List Nat)) : toUtf16 rs ≠ .oob := by
  rw [toUtf16_eq]
  exact regionsF_no_oob rs.flatten _ 0 [] 0 (by rw [sum_map_length]; omega)

/-- **fragmentation independence for the loop as written in the source** -/
theorem toUtf16_fragmentation_independent (rs : List (List Nat)) (hne : rs ≠ []) (hp : ∀ r ∈ rs, r ≠ []) :
    toUtf16 rs = toUtf16 [rs.flatten] := by
  rw [toUtf16_eq rs, toUtf16_eq [rs.flatten]]
  simp only [List.flatten_cons, List.flatten_nil, List.append_nil, List.map_cons, List.map_nil]
  apply frag_independent
  · intro e; exact hne (List.map_eq_nil_iff.mp e)
  · intro n hn
    obtain ⟨r, hr, rfl⟩ := List.mem_map.mp hn
    exact List.length_pos_iff.mpr (hp r hr)
  · exact sum_map_length rs

end Utf8P
