import DispatchVerif.Core.LaneRProof
/-! Layer 2: the "no lost wakeup" invariant (R1a / R1b) and the quiescence theorem. -/
namespace LaneR

def isInflight : Pc → Bool
  | .pPushed _ true | .pLinked _ true | .sSlowLink _ true | .sSlowRmw _ => true
  | _ => false

def isPast : Pc → Bool
  | .dUnlock | .bc2 false _ _ => true
  | _ => false

def isDrainerHolder : Pc → Bool
  | .dInvoke | .dLoopHead | .dRun _ | .dRunning _ | .dLoopNext | .dUnlock
  | .dbwPop true _ | .dbwRmw _ true _ => true
  | _ => false

structure G2 (sh : Sh) : Prop where
  r1a : ∀ o, sh.dq.O = some o → sh.items ≠ [] → sh.dq.D = true ∨ sh.infl ≠ [] ∨ sh.past = false
  r1b : sh.dq.O = none → sh.items ≠ [] →
          (sh.dq.E = true ∧ (sh.tokens > 0 ∨ sh.tl ≠ [])) ∨ sh.infl ≠ []
  ie : sh.dq.E = true → sh.tokens > 0 ∨ sh.tl ≠ [] ∨ sh.eOwned = true
  eo : sh.eOwned = true → sh.dq.O ≠ none
  clean : sh.dq.O = none → sh.dq.B = false ∧ sh.dq.F = false
  xp : (sh.xfer ≠ none ∨ sh.signalled ≠ []) → sh.past = false ∧ sh.eOwned = false

structure L2 (sh : Sh) (t : Tid) (pc : Pc) : Prop where
  infl : t ∈ sh.infl ↔ isInflight pc = true
  tl : t ∈ sh.tl ↔ pc = .dTryLock
  past : holds pc = true → sh.past = isPast pc
  eown : holds pc = true → sh.eOwned = isDrainerHolder pc

@[simp] theorem linkItem_eq_nil {l : List Item} {id : ItemId} : linkItem l id = [] ↔ l = [] := by
  simp [linkItem]

theorem mem_rm {l : List Tid} {t u : Tid} : u ∈ rm l t ↔ u ∈ l ∧ u ≠ t := by
  simp [rm]

abbrev Post2 (sh sh' : Sh) (t : Tid) (pc' : Pc) : Prop :=
  G2 sh' ∧ L2 sh' t pc' ∧ ∀ t' q, t' ≠ t → L sh t' q → L2 sh t' q → L2 sh' t' q

/-- others are unaffected when the ghost sets change only at `t` and the owner ghosts are untouched -/
theorem others_frame {sh sh' : Sh} {t : Tid}
    (hi : ∀ u, u ≠ t → (u ∈ sh'.infl ↔ u ∈ sh.infl)) (ht : ∀ u, u ≠ t → (u ∈ sh'.tl ↔ u ∈ sh.tl))
    (hp : sh'.past = sh.past) (he : sh'.eOwned = sh.eOwned) :
    ∀ t' q, t' ≠ t → L sh t' q → L2 sh t' q → L2 sh' t' q := by
  intro t' q ne _ l2
  exact ⟨(hi t' ne).trans l2.infl, (ht t' ne).trans l2.tl, fun h => hp ▸ l2.past h, fun h => he ▸ l2.eown h⟩

/-- others are unaffected when the stepping thread is the owner, or the lock is free -/
theorem others_owner {sh sh' : Sh} {t : Tid}
    (hi : ∀ u, u ≠ t → (u ∈ sh'.infl ↔ u ∈ sh.infl)) (ht : ∀ u, u ≠ t → (u ∈ sh'.tl ↔ u ∈ sh.tl))
    (ho : sh.dq.O = none ∨ Locked sh.dq t) :
    ∀ t' q, t' ≠ t → L sh t' q → L2 sh t' q → L2 sh' t' q := by
  intro t' q ne l1 l2
  have nh : holds q = false := by
    cases hq : holds q with
    | false => rfl
    | true =>
      have hl := (l1.own hq).1
      rcases ho with ho | ho
      · exact absurd hl (not_locked_of_none ho t')
      · exact absurd (locked_unique' hl ho) ne
  exact ⟨(hi t' ne).trans l2.infl, (ht t' ne).trans l2.tl,
    fun h => by simp [nh] at h, fun h => by simp [nh] at h⟩

end LaneR

namespace LaneR

/-- discharge the ghost-set frame conditions -/
macro "setfr" : tactic => `(tactic| (intro u hu; (try split) <;> simp [mem_rm, hu]))

/-- close a G2 / L2 goal after the step has been made explicit -/
macro "inv2" : tactic =>
  `(tactic| (constructor <;> (simp_all [isInflight, isPast, isDrainerHolder, holds, mem_rm, Dq.idle, Dq.runnable, kPc] <;> try grind)))

/-- while somebody holds the lock at a holding pc, no signal and no transfer is pending -/
theorem holder_quiet {sh : Sh} {t : Tid} {pc : Pc} (g : G sh) (l : L sh t pc) (hh : holds pc = true) :
    sh.signalled = [] ∧ sh.xfer = none := by
  obtain ⟨hl, hns, hnx⟩ := l.own hh
  constructor
  · cases hs : sh.signalled with
    | nil => rfl
    | cons w _ =>
      have := locked_unique' hl (g.sig w (by simp [hs])); subst this
      exact absurd (by simp [hs]) hns
  · cases hx : sh.xfer with
    | none => rfl
    | some p =>
      have := locked_unique' hl (g.xf p.1 p.2 (by simp [hx])); subst this
      exact absurd hx (hnx p.2)

theorem unlocked_quiet {sh : Sh} (g : G sh) (hO : sh.dq.O = none) : sh.signalled = [] ∧ sh.xfer = none := by
  have nl := not_locked_of_none hO
  constructor
  · cases hs : sh.signalled with
    | nil => rfl
    | cons w _ => exact absurd (g.sig w (by simp [hs])) (nl w)
  · cases hx : sh.xfer with
    | none => rfl
    | some p => exact absurd (g.xf p.1 p.2 (by simp [hx])) (nl p.1)

set_option maxHeartbeats 4000000 in
theorem step_local2 {sh : Sh} {t : Tid} {pc : Pc} {op : Op} {sh' : Sh} {pc' : Pc}
    (g : G sh) (l : L sh t pc) (g2 : G2 sh) (l2 : L2 sh t pc)
    (h : (sh', pc') ∈ step sh t pc op) : Post2 sh sh' t pc' := by
  have ⟨r1a, r1b, ie, eo, clean, xp⟩ := g2
  have ⟨linfl, ltl, lpast, leown⟩ := l2
  cases pc with
  | idle =>
    cases op with
    | async id =>
      simp [step] at h; obtain ⟨rfl, rfl⟩ := h
      refine ⟨?_, ?_, others_frame (by setfr) (by setfr) rfl rfl⟩
      · constructor <;> (by_cases he : sh.items = [] <;> simp_all <;> grind)
      · constructor <;> (by_cases he : sh.items = [] <;> simp_all [isInflight, holds])
    | sync id =>
      simp [step] at h; obtain ⟨rfl, rfl⟩ := h
      exact ⟨g2, by inv2, others_frame (by setfr) (by setfr) rfl rfl⟩
    | worker =>
      simp [step] at h; obtain ⟨rfl, rfl⟩ := h
      exact ⟨g2, by inv2, others_frame (by setfr) (by setfr) rfl rfl⟩
    | override => simp [step] at h
  | pPushed id we =>
    simp [step] at h; obtain ⟨rfl, rfl⟩ := h
    exact ⟨by inv2, by inv2, others_frame (by setfr) (by setfr) rfl rfl⟩
  | pLinked id we =>
    simp only [step] at h
    split at h
    · split at h
      · simp at h; obtain ⟨rfl, rfl⟩ := h
        refine ⟨?_, by inv2, others_frame (by setfr) (by setfr) rfl rfl⟩
        inv2
      · simp at h; obtain ⟨rfl, rfl⟩ := h
        exact ⟨g2, by inv2, others_frame (by setfr) (by setfr) rfl rfl⟩
    · split at h
      · simp at h; obtain ⟨rfl, rfl⟩ := h
        exact ⟨by inv2, by inv2, others_frame (by setfr) (by setfr) rfl rfl⟩
      · simp at h; obtain ⟨rfl, rfl⟩ := h
        refine ⟨?_, by inv2, others_frame (by setfr) (by setfr) rfl rfl⟩
        inv2
  | sTry id =>
    simp only [step] at h
    split at h
    · rename_i hi
      simp at h; obtain ⟨rfl, rfl⟩ := h
      have hO : sh.dq.O = none := by simp [Dq.idle] at hi; exact hi.2
      exact ⟨by inv2, by inv2, others_owner (by setfr) (by setfr) (Or.inl hO)⟩
    · simp at h; obtain ⟨rfl, rfl⟩ := h
      exact ⟨g2, by inv2, others_frame (by setfr) (by setfr) rfl rfl⟩
  | sRunFast id =>
    simp [step] at h; obtain ⟨rfl, rfl⟩ := h
    exact ⟨g2, by inv2, others_frame (by setfr) (by setfr) rfl rfl⟩
  | sRunningFast id =>
    simp [step] at h; obtain ⟨rfl, rfl⟩ := h
    exact ⟨g2, by inv2, others_frame (by setfr) (by setfr) rfl rfl⟩
  | sFastUnlock =>
    have hl := (l.own rfl).1
    simp only [step] at h
    split at h
    · simp at h; obtain ⟨rfl, rfl⟩ := h
      exact ⟨g2, by inv2, others_frame (by setfr) (by setfr) rfl rfl⟩
    · split at h
      · simp at h; obtain ⟨rfl, rfl⟩ := h
        exact ⟨g2, by inv2, others_frame (by setfr) (by setfr) rfl rfl⟩
      · simp at h; obtain ⟨rfl, rfl⟩ := h
        exact ⟨by inv2, by inv2, others_owner (by setfr) (by setfr) (Or.inr hl)⟩
  | sSlowPush id =>
    simp [step] at h; obtain ⟨rfl, rfl⟩ := h
    refine ⟨?_, ?_, others_frame (by setfr) (by setfr) rfl rfl⟩
    · constructor <;> (by_cases he : sh.items = [] <;> simp_all <;> grind)
    · constructor <;> (by_cases he : sh.items = [] <;> simp_all [isInflight, holds])
  | sSlowLink id we =>
    simp only [step] at h
    split at h
    · simp at h; obtain ⟨rfl, rfl⟩ := h
      exact ⟨by inv2, by inv2, others_frame (by setfr) (by setfr) rfl rfl⟩
    · simp at h; obtain ⟨rfl, rfl⟩ := h
      exact ⟨by inv2, by inv2, others_frame (by setfr) (by setfr) rfl rfl⟩
  | sSlowRmw id =>
    simp only [step] at h
    split at h
    · simp at h; obtain ⟨rfl, rfl⟩ := h
      exact ⟨by inv2, by inv2, others_frame (by setfr) (by setfr) rfl rfl⟩
    · rename_i hc
      simp at h; obtain ⟨rfl, rfl⟩ := h
      have hO : sh.dq.O = none := by
        simp at hc; cases hO : sh.dq.O with
        | none => rfl
        | some _ => simp [hO] at hc
      exact ⟨by inv2, by inv2, others_owner (by setfr) (by setfr) (Or.inl hO)⟩
  | sWait id =>
    simp only [step] at h
    split at h
    · simp at h; obtain ⟨rfl, rfl⟩ := h
      exact ⟨by inv2, by inv2, others_frame (by setfr) (by setfr) rfl rfl⟩
    · simp at h
  | sRunSlow id =>
    simp [step] at h; obtain ⟨rfl, rfl⟩ := h
    exact ⟨g2, by inv2, others_frame (by setfr) (by setfr) rfl rfl⟩
  | sRunningSlow id =>
    simp [step] at h; obtain ⟨rfl, rfl⟩ := h
    exact ⟨g2, by inv2, others_frame (by setfr) (by setfr) rfl rfl⟩
  | bc1 c2 k =>
    have hl := (l.own rfl).1
    have ⟨hq1, hq2⟩ := holder_quiet g l rfl
    simp only [step] at h
    split at h
    · simp at h; obtain ⟨rfl, rfl⟩ := h
      exact ⟨by inv2, by inv2, others_owner (by setfr) (by setfr) (Or.inr hl)⟩
    · split at h
      · simp at h
      · split at h
        · simp at h; obtain ⟨rfl, rfl⟩ := h
          exact ⟨g2, by inv2, others_frame (by setfr) (by setfr) rfl rfl⟩
        · simp at h; obtain ⟨rfl, rfl⟩ := h
          exact ⟨g2, by inv2, others_frame (by setfr) (by setfr) rfl rfl⟩
  | bc2 target c2 k =>
    have hl := (l.own rfl).1
    have hr := r1a t hl.1
    have ⟨hq1, hq2⟩ := holder_quiet g l rfl
    simp only [step] at h
    split at h
    · simp at h; obtain ⟨rfl, rfl⟩ := h
      exact ⟨by inv2, by cases k <;> inv2, others_owner (by setfr) (by setfr) (Or.inr hl)⟩
    · split at h
      · simp at h; obtain ⟨rfl, rfl⟩ := h
        exact ⟨by inv2, by inv2, others_owner (by setfr) (by setfr) (Or.inr hl)⟩
      · rename_i ht hd
        simp at h; obtain ⟨rfl, rfl⟩ := h
        have htf : target = false := by simpa using ht
        subst htf
        exact ⟨by inv2, by cases k <;> inv2, others_owner (by setfr) (by setfr) (Or.inr hl)⟩
  | dbwPop enq k =>
    simp only [step] at h
    split at h
    · split at h
      · simp at h
      · split at h
        · simp at h; obtain ⟨rfl, rfl⟩ := h
          exact ⟨by inv2, by inv2, others_frame (by setfr) (by setfr) rfl rfl⟩
        · simp at h
    · simp at h
  | dbwRmw w enq k =>
    have hl := (l.own rfl).1
    have ⟨hq1, hq2⟩ := holder_quiet g l rfl
    simp [step] at h; obtain ⟨rfl, rfl⟩ := h
    exact ⟨by cases enq <;> inv2, by inv2, others_owner (by setfr) (by setfr) (Or.inr hl)⟩
  | dbwSignal w k =>
    have hx := l.sg w k rfl
    have hxp := xp (Or.inl (by simp [hx]))
    simp [step] at h; obtain ⟨rfl, rfl⟩ := h
    exact ⟨by inv2, by cases k <;> inv2, others_frame (by setfr) (by setfr) rfl rfl⟩
  | wIdle =>
    simp only [step] at h
    split at h
    · simp at h; obtain ⟨rfl, rfl⟩ := h
      exact ⟨by inv2, by inv2, others_frame (by setfr) (by setfr) rfl rfl⟩
    · simp at h
  | dTryLock =>
    simp only [step] at h
    split at h
    · rename_i hc
      simp at h; obtain ⟨rfl, rfl⟩ := h
      have hO : sh.dq.O = none := by simp at hc; exact hc.2
      have ⟨hq1, hq2⟩ := unlocked_quiet g hO
      exact ⟨by inv2, by inv2, others_owner (by setfr) (by setfr) (Or.inl hO)⟩
    · simp at h; obtain ⟨rfl, rfl⟩ := h
      exact ⟨by inv2, by inv2, others_frame (by setfr) (by setfr) rfl rfl⟩
  | dInvoke =>
    have hl := (l.own rfl).1
    have ⟨hq1, hq2⟩ := holder_quiet g l rfl
    simp only [step] at h
    split at h
    · simp at h; obtain ⟨rfl, rfl⟩ := h
      exact ⟨by inv2, by inv2, others_owner (by setfr) (by setfr) (Or.inr hl)⟩
    · simp at h; obtain ⟨rfl, rfl⟩ := h
      exact ⟨g2, by inv2, others_frame (by setfr) (by setfr) rfl rfl⟩
  | dLoopHead =>
    simp only [step] at h
    split at h
    · simp at h
    · split at h
      · simp at h
      · split at h
        · simp at h; obtain ⟨rfl, rfl⟩ := h
          exact ⟨g2, by inv2, others_frame (by setfr) (by setfr) rfl rfl⟩
        · split at h
          · simp at h
          · simp at h; obtain ⟨rfl, rfl⟩ := h
            exact ⟨by inv2, by inv2, others_frame (by setfr) (by setfr) rfl rfl⟩
  | dRun id =>
    simp [step] at h; obtain ⟨rfl, rfl⟩ := h
    exact ⟨g2, by inv2, others_frame (by setfr) (by setfr) rfl rfl⟩
  | dRunning id =>
    simp [step] at h; obtain ⟨rfl, rfl⟩ := h
    exact ⟨g2, by inv2, others_frame (by setfr) (by setfr) rfl rfl⟩
  | dLoopNext =>
    have hl := (l.own rfl).1
    have ⟨hq1, hq2⟩ := holder_quiet g l rfl
    simp only [step] at h
    split at h
    · simp at h; obtain ⟨rfl, rfl⟩ := h
      exact ⟨by inv2, by inv2, others_owner (by setfr) (by setfr) (Or.inr hl)⟩
    · simp at h; obtain ⟨rfl, rfl⟩ := h
      exact ⟨g2, by inv2, others_frame (by setfr) (by setfr) rfl rfl⟩
  | dUnlock =>
    have hl := (l.own rfl).1
    have hr := r1a t hl.1
    simp only [step] at h
    split at h
    · simp at h; obtain ⟨rfl, rfl⟩ := h
      exact ⟨by inv2, by inv2, others_owner (by setfr) (by setfr) (Or.inr hl)⟩
    · simp at h; obtain ⟨rfl, rfl⟩ := h
      exact ⟨by inv2, by inv2, others_owner (by setfr) (by setfr) (Or.inr hl)⟩

end LaneR

namespace LaneR

structure Inv2 (s : St) : Prop where
  g : G2 s.sh
  l : ∀ t, L2 s.sh t (s.pcs t)

theorem inv2_init : Inv2 { sh := {}, pcs := fun _ => .idle } :=
  ⟨by constructor <;> simp, fun _ => by constructor <;> simp [isInflight, holds]⟩

theorem inv2_step {s s' : St} (h1 : Inv s) (h2 : Inv2 s) (hstep : Step s s') : Inv2 s' := by
  cases hstep with
  | mk t op sh' pc' h =>
    obtain ⟨hg, hl, hoth⟩ := step_local2 h1.g (h1.l t) h2.g (h2.l t) h
    refine ⟨hg, fun t' => ?_⟩
    by_cases e : t' = t
    · subst e; simpa using hl
    · simpa [e] using hoth t' _ e (h1.l t') (h2.l t')

theorem inv2_reachable {s : St} (h : Reachable s) : Inv s ∧ Inv2 s := by
  induction h with
  | init => exact ⟨inv_init, inv2_init⟩
  | step _ hs ih => exact ⟨inv_step ih.1 hs, inv2_step ih.1 ih.2 hs⟩

/-- a thread is at rest: a client between operations, a parked worker, or a sleeping sync waiter -/
def atRest : Pc → Bool
  | .idle | .wIdle | .sWait _ => true
  | _ => false

/-- **No stranded work (serial lane).** In every reachable state in which all threads are at rest,
    no signal or lock transfer is pending and the root holds no token of the lane, the lane is
    empty: every submitted item has been dequeued. For any number of threads, any client program. -/
theorem quiescent_empty {s : St} (h : Reachable s)
    (hrest : ∀ t, atRest (s.pcs t) = true) (hsig : s.sh.signalled = []) (hx : s.sh.xfer = none)
    (htok : s.sh.tokens = 0) : s.sh.items = [] := by
  obtain ⟨i1, i2⟩ := inv2_reachable h
  -- nobody is in flight / at try_lock
  have hinfl : s.sh.infl = [] := by
    cases hi : s.sh.infl with
    | nil => rfl
    | cons t _ =>
      have := ((i2.l t).infl).mp (by simp [hi])
      have hr := hrest t
      cases hp : s.pcs t <;> simp_all [isInflight, atRest]
  have htl : s.sh.tl = [] := by
    cases hi : s.sh.tl with
    | nil => rfl
    | cons t _ =>
      have := ((i2.l t).tl).mp (by simp [hi])
      have hr := hrest t
      simp_all [atRest]
  -- nobody owns the lock
  have hO : s.sh.dq.O = none := by
    cases ho : s.sh.dq.O with
    | none => rfl
    | some o =>
      rcases (i1.l o).conv ho with hh | hh | ⟨u, hh⟩
      · have hr := hrest o
        cases hp : s.pcs o <;> simp_all [holds, atRest]
      · simp [hsig] at hh
      · simp [hx] at hh
  by_cases hne : s.sh.items = []
  · exact hne
  · rcases i2.g.r1b hO hne with ⟨_, ht | ht⟩ | hi
    · omega
    · exact absurd htl ht
    · exact absurd hinfl hi

/-- … and nobody is left sleeping: a parked sync waiter's item is still queued, so with an empty
    lane there is none (stated for the queued part; see R2 in DESIGN.md). -/
theorem quiescent_unlocked {s : St} (h : Reachable s)
    (hrest : ∀ t, atRest (s.pcs t) = true) (hsig : s.sh.signalled = []) (hx : s.sh.xfer = none) :
    s.sh.dq.O = none ∧ s.sh.dq.B = false ∧ s.sh.dq.F = false := by
  obtain ⟨i1, i2⟩ := inv2_reachable h
  have hO : s.sh.dq.O = none := by
    cases ho : s.sh.dq.O with
    | none => rfl
    | some o =>
      rcases (i1.l o).conv ho with hh | hh | ⟨u, hh⟩
      · have hr := hrest o
        cases hp : s.pcs o <;> simp_all [holds, atRest]
      · simp [hsig] at hh
      · simp [hx] at hh
  exact ⟨hO, i2.g.clean hO⟩

end LaneR
