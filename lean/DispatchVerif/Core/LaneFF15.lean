import DispatchVerif.Core.LaneF
/-! C02 / C04, finding F15: "if the submission of A returned before the submission of B began then A runs before B" is FALSE of
    the code when B is a synchronous submission that takes the fast path. The fast path looks only at `dq_state`; a first
    pusher P that has exchanged the tail (and linked the head) but has not yet called `dx_wakeup` leaves the word idle; a
    second pusher appends its item A behind P's and returns at once (it is not responsible for the wake-up); a
    `dispatch_sync` that begins after that finds the word idle, takes the lane and runs B while A is still queued. -/
namespace LaneF

/-- run a schedule, taking the first enabled alternative of each step -/
def exec : St → List (Tid × Op) → Option St
  | s, [] => some s
  | s, (t, op) :: r =>
    match step s.sh t (s.pcs t) op with
    | [] => none
    | (sh', pc') :: _ => exec { sh := sh', pcs := fun t' => if t' = t then pc' else s.pcs t' } r

theorem exec_reachable : ∀ (tr : List (Tid × Op)) (s s' : St), Reachable s → exec s tr = some s' → Reachable s'
  | [], s, s', hr, he => by simp [exec] at he; exact he ▸ hr
  | (t, op) :: r, s, s', hr, he => by
    simp only [exec] at he
    split at he
    · cases he
    · rename_i sh' pc' rest hstep
      exact exec_reachable r _ s' (Reachable.step hr (Step.mk s t op sh' pc' (by rw [hstep]; simp))) he

def init0 : St := { sh := {}, pcs := fun _ => .idle }

/-- the schedule of the real library (found by the lane storm, then forced by harness/f15_sync_overtake.c):
    thread 0 submits item 0 and wakes the queue; worker 9 drains it and, having found the list empty (`dLoopNext`), is about to
    unlock; thread 1 pushes item 1 into the empty list and links it, then stalls before its wake-up; thread 2 pushes item 2
    behind it, issues its override wake-up (the queue is owned: only the QoS is merged) and returns; worker 9 unlocks — the
    word is not DIRTY, so it becomes the idle word although two items are queued -/
def f15a : List (Tid × Op) :=
  [(0, .async 0), (0, .async 0), (0, .async 0),
   (9, .worker), (9, .worker), (9, .worker), (9, .worker), (9, .worker), (9, .worker), (9, .worker), (9, .worker),
   (1, .async 1), (1, .async 1),
   (2, .async 2), (2, .async 2), (2, .override),
   (9, .worker)]
/-- thread 3 then calls dispatch_sync: the word is idle, the fast path takes the lane and the item runs -/
def f15b : List (Tid × Op) := [(3, .sync 3), (3, .sync 3), (3, .sync 3)]

/-- **F15 as a theorem**: a reachable state `s1` in which the asynchronous submission of item 2 has returned (its thread is
    back at `idle`, the item is pushed and linked) and thread 3 has not begun anything, from which thread 3's synchronous
    submission runs its item on the fast path while item 2 has still not started. -/
theorem sync_fast_path_overtakes :
    ∃ s1 s2, Reachable s1 ∧ s1.pcs 2 = .idle ∧ s1.pcs 3 = .idle ∧ 2 ∈ s1.sh.pushed ∧
      (∃ it ∈ s1.sh.items, it.id = 2 ∧ it.linked = true) ∧
      exec s1 f15b = some s2 ∧ s2.pcs 3 = .sRunningFast 3 ∧ 2 ∉ s2.sh.startedP ∧ s2.sh.dq.O = some 3 := by
  have h1 : ∃ s, exec init0 f15a = some s := by
    cases he : exec init0 f15a with
    | none => simp [exec, f15a, init0, step, linkItem, canPop, rm, Dq.runnable, Dq.idle] at he
    | some s => exact ⟨s, rfl⟩
  obtain ⟨s1, hs1⟩ := h1
  have h2 : ∃ s, exec s1 f15b = some s := by
    simp [exec, f15a, init0, step, linkItem, canPop, rm, Dq.runnable, Dq.idle] at hs1
    subst hs1
    cases he : exec _ f15b with
    | none => simp [exec, f15b, step, Dq.idle] at he
    | some s => exact ⟨s, rfl⟩
  obtain ⟨s2, hs2⟩ := h2
  refine ⟨s1, s2, exec_reachable f15a init0 s1 Reachable.init hs1, ?_⟩
  simp [exec, f15a, init0, step, linkItem, canPop, rm, Dq.runnable, Dq.idle] at hs1
  subst hs1
  simp [exec, f15b, step, Dq.idle] at hs2
  subst hs2
  simp [exec, f15b, step, Dq.idle]

end LaneF

section audit
#print axioms LaneF.sync_fast_path_overtakes
end audit
