import DispatchVerif.Core.TimerP
/-! C11: `_dispatch_source_timer_data` (src/source.c) - what the handler of a timer source is told when the firing was latched
    with the DISARMED marker (the timer left the heap: it fired while suspended / while its handler was busy, or it is
    a one-shot). The catch-up by `compute_missed` is guarded by `now >= target`: after a firing the target has already been
    moved to the next, possibly still future, boundary. -/
namespace TimerP

def timerData (target deadline interval now prev : Nat) : Out :=
  let data := prev / 2          -- (unsigned long)prev >> 1: the marker bit dropped
  if target < INT64_MAX then
    if now ≥ target then computeMissed target deadline interval now data
    else { target := target, deadline := deadline, data := data }
  else { target := target, deadline := deadline, data := data }

/-- **the count reported never exceeds what was latched plus the interval boundaries that have passed since** - and is
    exactly what was latched when the (already advanced) target is still ahead -/
theorem timer_data_le_boundaries (target deadline interval now prev : Nat)
    (hn : now < 9223372036854775808) (hp : prev / 2 ≤ LONG_MAX) :
    (timerData target deadline interval now prev).data ≤
      prev / 2 + (if target ≤ now then boundaries target interval now else 0) := by
  unfold timerData
  simp only []
  split
  · by_cases h : now ≥ target
    · rw [if_pos h, if_pos h]
      exact data_le_boundaries target deadline interval now (prev / 2) h hn hp
    · rw [if_neg h, if_neg h]; simp
  · split <;> simp

/-- without the guard (the third-round seeded change of this property): a timer whose target was advanced to a boundary
    100 ns ahead reports 2^64 / interval firings that never happened -/
theorem unguarded_catch_up_overcounts : (computeMissed 1000 1000 400 900 1).data > 1000000000000000 := by decide

end TimerP
