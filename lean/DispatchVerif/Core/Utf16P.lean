import DispatchVerif.Core.Utf8P
/-! C20 (UTF part): code-shaped model of `_dispatch_transform_from_utf16` (src/transform.c), as repaired by the
    `fix:` commit for F5, F6 and F13 (the `wide` field of the outcomes is kept and stays 0),
    over a list of regions: `skip`, odd-sized regions with a one-unit look-ahead, surrogate pairs
    whose second half is in the next region.  Outcomes: `ok out skip wide` (`wide` counts the
    8-byte loads from a 2-byte mapping, F6), `fail` (NULL), `oob` (a `src[i]` load past the end of
    the region); both also carry the wide-load count. -/
namespace Utf16P

inductive Res where
  | ok (out : List Nat) (skip : Nat) (wide : Nat)
  | fail (wide : Nat)
  | oob (wide : Nat)
  deriving Repr, DecidableEq

def u16 (be : Bool) (a b : Nat) : Nat := if be then 256 * a + b else a + 256 * b

/-- `swap_to_host(src[k])` on the bytes from `src` to the end of the region -/
def rd16 (be : Bool) (src : List Nat) (k : Nat) : Option Nat :=
  match src.drop (2 * k) with
  | a :: b :: _ => some (u16 be a b)
  | _ => none

/-- `_dispatch_data_subrange_map(data, &p, pos, 2)` followed by the 16-bit value at `p` -/
def look (be : Bool) (flat : List Nat) (pos : Nat) : Option Nat :=
  match flat.drop pos with
  | a :: b :: _ => some (u16 be a b)
  | _ => none

def enc8 (w : Nat) : List Nat :=
  if w < 0x80 then [w]
  else if w < 0x800 then [0xc0 + w / 64, 0x80 + w % 64]
  else if w < 0x10000 then [0xe0 + w / 4096, 0x80 + w / 64 % 64, 0x80 + w % 64]
  else if w < 0x200000 then [0xf0 + w / 262144, 0x80 + w / 4096 % 64, 0x80 + w / 64 % 64, 0x80 + w % 64]
  else []

def inner (be : Bool) (flat : List Nat) (off size max : Nat) (src : List Nat) :
    Nat → Nat → List Nat → Nat → Nat → Res
  | 0, _, out, skip, wide => .ok out skip wide
  | fuel + 1, i, out, skip, wide =>
    if max ≤ i then .ok out skip wide else
    -- first unit
    let first : Option (Option Nat × Nat × Nat) :=           -- (ch or oob, skip, wide)
      if i + 1 = max ∧ size / 2 < max then
        match look be flat (off + 2 * i) with
        | none => none
        | some ch => some (some ch, skip + 1, wide)
      else some (rd16 be src i, skip, wide)
    match first with
    | none => .fail wide
    | some (none, _, wide) => .oob wide
    | some (some ch, skip, wide) =>
      if ch = 0xfffe ∧ off = 0 ∧ i = 0 then .fail wide
      -- (a correct-endian byte-order mark is converted like any other character: the encoder that follows drops one leading
      --  U+FEFF itself; dropping it here as well lost a U+FEFF character after the mark - finding F19)
      else if 0xd800 ≤ ch ∧ ch ≤ 0xdbff then
        let i := i + 1
        let second : Option (Option Nat × Nat) :=
          if size / 2 ≤ i then
            match look be flat (off + 2 * i) with
            | none => none
            | some c2 => some (some c2, skip + (if 2 * i < size then 1 else 2))
          else some (rd16 be src i, skip)
        match second with
        | none => .fail wide
        | some (none, _) => .oob wide
        | some (some c2, skip) =>
          if ¬ (0xdc00 ≤ c2 ∧ c2 ≤ 0xdfff) then .fail wide
          else inner be flat off size max src fuel (i + 1)
                 (out ++ enc8 ((ch - 0xd800) * 1024 + c2 % 1024 + 0x10000)) skip wide
      else if 0xdc00 ≤ ch ∧ ch ≤ 0xdfff then .fail wide
      else inner be flat off size max src fuel (i + 1) (out ++ enc8 ch) skip wide

def region (be : Bool) (flat : List Nat) (off : Nat) (r : List Nat) (out : List Nat) (skip wide : Nat) : Res :=
  if r.length ≤ skip then .ok out (skip - r.length) wide
  else
    let size := r.length - skip
    let max := size / 2 + size % 2
    inner be flat (off + skip) size max (r.drop skip) (max + 1) 0 out 0 wide

def regions (be : Bool) (flat : List Nat) : Nat → List (List Nat) → List Nat → Nat → Nat → Res
  | _, [], out, skip, wide => .ok out skip wide
  | off, r :: rs, out, skip, wide =>
    match region be flat off r out skip wide with
    | .ok out' skip' wide' => regions be flat (off + r.length) rs out' skip' wide'
    | e => e

def fromUtf16 (be : Bool) (rs : List (List Nat)) : Res := regions be rs.flatten 0 rs [] 0 0

/-- `_dispatch_transform_to_utf8_without_bom`: the `encode` hook of the UTF-8 format, applied by
    dispatch_data_create_with_transform to the result of `fromUtf16` -/
def withoutBom (out : List Nat) : List Nat :=
  if out.take 3 = [0xef, 0xbb, 0xbf] then out.drop 3 else out

/-- F5 (fixed): "abcd" (UTF-16LE) cut 1|4|3 gives the single-region result -/
theorem F5_fixed :
    fromUtf16 false [[0x61], [0x00, 0x62, 0x00, 0x63], [0x00, 0x64, 0x00]] =
    fromUtf16 false [[0x61, 0x00, 0x62, 0x00, 0x63, 0x00, 0x64, 0x00]] := by decide

/-- F13 (fixed): a high surrogate followed by the odd last byte of the region takes the look-ahead -/
theorem F13_fixed : fromUtf16 false [[0x3d, 0xd8, 0x00], [0xde]] = fromUtf16 false [[0x3d, 0xd8, 0x00, 0xde]] := by decide

/-! ### well-formed input in one region: the converter inverts `Utf8P.toUtf16` -/
open Utf8P (enc enc16 scalar)

def bytesLE (us : List Nat) : List Nat := us.flatMap fun u => [u % 256, u / 256]

theorem bytesLE_length (us : List Nat) : (bytesLE us).length = 2 * us.length := by
  induction us with
  | nil => rfl
  | cons u us ih => simp [bytesLE] at ih ⊢; omega

theorem rd16_bytes (us : List Nat) : ∀ (i : Nat), (∀ u ∈ us, u < 65536) → (h : i < us.length) →
    rd16 false (bytesLE us) i = some us[i] := by
  induction us with
  | nil => intro i _ h; simp at h
  | cons u us ih =>
    intro i hu h
    cases i with
    | zero =>
      have := hu u (by simp)
      simp [rd16, bytesLE, u16]; omega
    | succ i =>
      have hd : (bytesLE (u :: us)).drop (2 * (i + 1)) = (bytesLE us).drop (2 * i) := by
        simp [bytesLE, Nat.mul_add]
      have := ih i (fun v hv => hu v (by simp [hv])) (by simpa using h)
      unfold rd16 at this ⊢
      rw [hd]
      simpa using this

theorem enc8_eq (c : Nat) (h : c < 0x110000) : enc8 c = enc c := by
  unfold enc8 enc
  have : c < 0x200000 := by omega
  by_cases h1 : c < 0x80 <;> by_cases h2 : c < 0x800 <;> by_cases h3 : c < 0x10000 <;> simp [h1, h2, h3, this]

/-- one iteration on a unit that is not a surrogate, away from the first unit and the odd tail -/
theorem inner_step_bmp (flat : List Nat) (off size max : Nat) (src : List Nat) (fuel i : Nat)
    (out : List Nat) (skip wide ch : Nat)
    (hi : i < max) (heven : ¬ (size / 2 < max)) (h0 : i ≠ 0) (hrd : rd16 false src i = some ch)
    (hns : ¬ (0xd800 ≤ ch ∧ ch ≤ 0xdbff)) (hnl : ¬ (0xdc00 ≤ ch ∧ ch ≤ 0xdfff)) :
    inner false flat off size max src (fuel + 1) i out skip wide =
      inner false flat off size max src fuel (i + 1) (out ++ enc8 ch) skip wide := by
  have h1 : ¬ max ≤ i := by omega
  have h2 : ¬ (i + 1 = max ∧ size / 2 < max) := fun h => heven h.2
  have h3 : ¬ (ch = 0xfffe ∧ off = 0 ∧ i = 0) := fun h => h0 h.2.2
  simp only [inner, h1, h2, if_false, hrd, h3, hns, hnl]

/-- one iteration on a surrogate pair that lies inside the region -/
theorem inner_step_pair (flat : List Nat) (off size max : Nat) (src : List Nat) (fuel i : Nat)
    (out : List Nat) (skip wide ch c2 : Nat)
    (hi : i + 1 < max) (heven : ¬ (size / 2 < max)) (h0 : i ≠ 0) (hrd : rd16 false src i = some ch)
    (hrd2 : rd16 false src (i + 1) = some c2)
    (hs : 0xd800 ≤ ch ∧ ch ≤ 0xdbff) (hl : 0xdc00 ≤ c2 ∧ c2 ≤ 0xdfff) :
    inner false flat off size max src (fuel + 1) i out skip wide =
      inner false flat off size max src fuel (i + 2)
        (out ++ enc8 ((ch - 0xd800) * 1024 + c2 % 1024 + 0x10000)) skip wide := by
  have h1 : ¬ max ≤ i := by omega
  have h1' : ¬ size / 2 ≤ i + 1 := by omega
  have h2 : ¬ (i + 1 = max ∧ size / 2 < max) := fun h => heven h.2
  have h3 : ¬ (ch = 0xfffe ∧ off = 0 ∧ i = 0) := fun h => h0 h.2.2
  simp only [inner, h1, h1', h2, if_false, hrd, hrd2, h3, hs, hl, and_self, if_true, not_true]

theorem enc16_lt (c : Nat) (h : scalar c) : ∀ u ∈ enc16 c, u < 65536 := by
  obtain ⟨h1, h2⟩ := h
  unfold enc16
  by_cases hb : c < 0x10000
  · simp [hb]
  · simp [hb]; omega

theorem inner16_wf (flat : List Nat) (cs : List Nat) : ∀ (pre : List Nat) (fuel : Nat) (out : List Nat)
    (skip wide : Nat) (us : List Nat),
    us = pre ++ cs.flatMap enc16 →
    (∀ u ∈ pre, u < 65536) → (∀ c ∈ cs, scalar c) → pre ≠ [] → (cs.flatMap enc16).length < fuel →
    inner false flat 0 (2 * us.length) us.length (bytesLE us) fuel pre.length out skip wide =
      .ok (out ++ cs.flatMap enc) skip wide := by
  induction cs with
  | nil =>
    intro pre fuel out skip wide us hus _ _ _ hf
    simp at hus; subst hus
    cases fuel with
    | zero => simp at hf
    | succ f => simp [inner]
  | cons c cs ih =>
    intro pre fuel out skip wide us hus hpre hcs hne hf
    have hc := hcs c (by simp)
    have hall : ∀ u ∈ us, u < 65536 := by
      intro u hu
      rw [hus] at hu
      simp only [List.mem_append, List.mem_flatMap] at hu
      rcases hu with hu | ⟨c', hc', hu⟩
      · exact hpre u hu
      · exact enc16_lt c' (hcs c' hc') u hu
    have heven : ¬ ((2 * us.length) / 2 < us.length) := by omega
    have h0 : pre.length ≠ 0 := by
      cases pre with
      | nil => exact absurd rfl hne
      | cons _ _ => simp
    cases fuel with
    | zero => simp at hf
    | succ f =>
      simp only [List.flatMap_cons, List.length_append] at hf
      by_cases hb : c < 0x10000
      · -- one unit
        have he : enc16 c = [c] := by simp [enc16, hb]
        rw [he] at hf
        have hus' : us = (pre ++ [c]) ++ cs.flatMap enc16 := by
          rw [hus]; simp [he]
        have hlen : pre.length < us.length := by rw [hus']; simp <;> omega
        have hget : us[pre.length] = c := by
          simp [hus']
        have hrd := rd16_bytes us pre.length hall hlen
        rw [hget] at hrd
        rw [inner_step_bmp flat 0 _ _ _ f _ out skip wide c hlen heven h0 hrd
          (by have := hc.2; omega) (by have := hc.2; omega)]
        have := ih (pre ++ [c]) f (out ++ enc8 c) skip wide us hus'
          (by intro u hu; simp at hu; rcases hu with hu | hu; exact hpre u hu; omega)
          (fun c' h' => hcs c' (by simp [h'])) (by simp) (by simp only [List.length_cons, List.length_nil] at hf; omega)
        simp only [List.length_append, List.length_singleton] at this
        rw [this, enc8_eq c hc.1]
        simp
      · -- surrogate pair
        have he : enc16 c = [(c - 0x10000) / 1024 + 0xd800, (c - 0x10000) % 1024 + 0xdc00] := by
          simp [enc16, hb]
        rw [he] at hf
        have hus' : us = (pre ++ [(c - 0x10000) / 1024 + 0xd800, (c - 0x10000) % 1024 + 0xdc00]) ++ cs.flatMap enc16 := by
          rw [hus]; simp [he]
        have hlen : pre.length + 1 < us.length := by rw [hus']; simp <;> omega
        have hget : us[pre.length]'(by omega) = (c - 0x10000) / 1024 + 0xd800 := by
          simp [hus']
        have hget2 : us[pre.length + 1] = (c - 0x10000) % 1024 + 0xdc00 := by
          simp [hus']
        have hrd := rd16_bytes us pre.length hall (by omega)
        have hrd2 := rd16_bytes us (pre.length + 1) hall hlen
        rw [hget] at hrd
        rw [hget2] at hrd2
        have hc1 := hc.1
        rw [inner_step_pair flat 0 _ _ _ f _ out skip wide _ _ hlen heven h0 hrd hrd2
          (by omega) (by omega)]
        have hw : ((c - 0x10000) / 1024 + 0xd800 - 0xd800) * 1024 + ((c - 0x10000) % 1024 + 0xdc00) % 1024 + 0x10000 = c := by
          omega
        rw [hw]
        have := ih (pre ++ [(c - 0x10000) / 1024 + 0xd800, (c - 0x10000) % 1024 + 0xdc00]) f
          (out ++ enc8 c) skip wide us hus'
          (by intro u hu; simp at hu; rcases hu with hu | hu | hu; exact hpre u hu; omega; omega)
          (fun c' h' => hcs c' (by simp [h'])) (by simp) (by simp only [List.length_cons, List.length_nil] at hf; omega)
        simp only [List.length_append, List.length_cons, List.length_nil] at this
        rw [this, enc8_eq c hc.1]
        simp

/-- the first iteration converts the BOM written by the other converter like any other character -/
theorem inner_step_bom (flat : List Nat) (size max : Nat) (src : List Nat) (fuel : Nat)
    (out : List Nat) (skip wide : Nat)
    (hi : 0 < max) (heven : ¬ (size / 2 < max)) (hrd : rd16 false src 0 = some 0xfeff) :
    inner false flat 0 size max src (fuel + 1) 0 out skip wide =
      inner false flat 0 size max src fuel 1 (out ++ enc8 0xfeff) skip wide := by
  have h1 : ¬ max ≤ 0 := by omega
  have h2 : ¬ (0 + 1 = max ∧ size / 2 < max) := fun h => heven h.2
  simp only [inner, h1, h2, if_false, hrd]
  simp

/-- UTF-16LE text with its byte-order mark converts to the UTF-8 of the mark followed by the UTF-8 of the text -/
theorem fromUtf16_bom_wf (cs : List Nat) (hs : ∀ c ∈ cs, scalar c) :
    fromUtf16 false [bytesLE (0xfeff :: cs.flatMap enc16)] = .ok (enc 0xfeff ++ cs.flatMap enc) 0 0 := by
  have hlen := bytesLE_length (0xfeff :: cs.flatMap enc16)
  have hall : ∀ u ∈ (0xfeff :: cs.flatMap enc16), u < 65536 := by
    intro u hu
    simp only [List.mem_cons, List.mem_flatMap] at hu
    rcases hu with hu | ⟨c, hc, hu⟩
    · omega
    · exact enc16_lt c (hs c hc) u hu
  have hrd := rd16_bytes (0xfeff :: cs.flatMap enc16) 0 hall (by simp)
  simp only [List.getElem_cons_zero] at hrd
  have hmax : 2 * (0xfeff :: cs.flatMap enc16).length / 2 + 2 * (0xfeff :: cs.flatMap enc16).length % 2
      = (0xfeff :: cs.flatMap enc16).length := by omega
  simp only [fromUtf16, regions, region, List.flatten_cons, List.flatten_nil, List.append_nil,
    Nat.sub_zero, List.drop_zero, hlen, hmax]
  rw [inner_step_bom _ _ _ _ _ _ _ _ (by simp) (by omega) hrd]
  have := inner16_wf (bytesLE (0xfeff :: cs.flatMap enc16)) cs [0xfeff]
    (0xfeff :: cs.flatMap enc16).length ([] ++ enc8 0xfeff) 0 0 (0xfeff :: cs.flatMap enc16) (by simp)
    (by intro u hu; simp at hu; omega) hs (by simp) (by simp)
  simp only [List.length_singleton] at this
  rw [this, enc8_eq 0xfeff (by decide)]
  simp

theorem withoutBom_bom (x : List Nat) : withoutBom (enc 0xfeff ++ x) = x := by
  have he : enc 0xfeff = [0xef, 0xbb, 0xbf] := by decide
  rw [he]; simp [withoutBom]

open Utf8P (dropBom) in
/-- **single-region round trip of any well-formed text**: UTF-8 converted to UTF-16LE by the model of
    `_dispatch_transform_to_utf16`, back by the model of `_dispatch_transform_from_utf16` (as repaired: F19) and through the
    `encode` hook of the UTF-8 format is the original byte string apart from ONE leading byte-order mark - a U+FEFF character
    that follows the mark is kept -/
theorem utf8_utf16_roundtrip_single (cs : List Nat) (hs : ∀ c ∈ cs, scalar c) (hne : cs ≠ []) :
    ∃ us out, Utf8P.toUtf16 [cs.flatMap enc] = .ok us 0 ∧
      fromUtf16 false [bytesLE us] = .ok out 0 0 ∧ withoutBom out = (dropBom cs).flatMap enc := by
  by_cases hb : cs.head? = some 0xfeff
  · cases cs with
    | nil => exact absurd rfl hne
    | cons c cs' =>
      have hc : c = 0xfeff := by simpa using hb
      subst hc
      have hs' : ∀ c ∈ cs', scalar c := fun c h => hs c (by simp [h])
      exact ⟨_, _, Utf8P.single_region_bom cs' hs', fromUtf16_bom_wf cs' hs', by rw [withoutBom_bom]; rfl⟩
  · refine ⟨_, _, Utf8P.single_region_wf cs hs hne hb, fromUtf16_bom_wf cs hs, ?_⟩
    rw [withoutBom_bom]
    cases cs with
    | nil => rfl
    | cons c cs' =>
      have : c ≠ 0xfeff := by intro e; exact hb (by simp [e])
      unfold dropBom
      split
      · rename_i h; injection h with h1 _; exact absurd h1 this
      · rfl

#print axioms inner16_wf
#print axioms utf8_utf16_roundtrip_single
end Utf16P
