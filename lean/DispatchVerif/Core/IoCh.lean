/-! C14, orchestration: "a barrier runs between the operations submitted before and after it".
    The channel's serial queue and the descriptor's serial barrier queue in a row are one FIFO of submitted actions. An operation
    popped from it enters the barrier group (`_dispatch_operation_enqueue`) and leaves it when it is disposed of
    (`_dispatch_operation_dispose`). A barrier popped from it suspends the barrier queue and registers a group notification
    (`dispatch_io_barrier`); the notification runs the barrier block when the group is empty and resumes the queue. -/
namespace IoCh

inductive Act | op (i : Nat) | bar (j : Nat)
deriving DecidableEq

structure St where
  bq : List Act := []          -- submitted, not yet run on the barrier queue
  susp : Bool := false         -- barrier queue suspended
  inflight : List Nat := []    -- operations inside the barrier group
  notif : Option Nat := none   -- barrier waiting for the group to empty
  -- history
  subs : List Act := []        -- everything submitted, in order
  pops : List Act := []        -- everything the barrier queue has run, in order
  enq : List Nat := []         -- operations that have entered the group
  dones : List Nat := []       -- operations disposed of
deriving DecidableEq

inductive Step : St → St → Prop
  | submit (s : St) (a : Act) (fresh : a ∉ s.subs) :
      Step s { s with bq := s.bq ++ [a], subs := s.subs ++ [a] }
  | popOp (s : St) (i : Nat) (rest : List Act) (hs : s.susp = false) (hq : s.bq = .op i :: rest) :
      Step s { s with bq := rest, inflight := i :: s.inflight, pops := s.pops ++ [.op i], enq := i :: s.enq }
  | popBar (s : St) (j : Nat) (rest : List Act) (hs : s.susp = false) (hq : s.bq = .bar j :: rest) :
      Step s { s with bq := rest, susp := true, notif := some j, pops := s.pops ++ [.bar j] }
  | finish (s : St) (i : Nat) (hi : i ∈ s.inflight) :
      Step s { s with inflight := s.inflight.erase i, dones := i :: s.dones }
  | fire (s : St) (j : Nat) (hn : s.notif = some j) (he : s.inflight = []) :
      Step s { s with notif := none, susp := false }

inductive Reachable : St → Prop
  | init : Reachable {}
  | step {s s'} : Reachable s → Step s s' → Reachable s'

structure Inv (s : St) : Prop where
  fifo : s.subs = s.pops ++ s.bq
  nodup : s.subs.Nodup
  enqIff : ∀ i, Act.op i ∈ s.pops ↔ i ∈ s.enq
  acct : ∀ i, i ∈ s.enq → i ∈ s.inflight ∨ i ∈ s.dones
  suspIff : s.susp = true ↔ s.notif.isSome = true
  last : ∀ j, s.notif = some j → ∃ pre, s.pops = pre ++ [Act.bar j]

theorem inv_reachable {s : St} (h : Reachable s) : Inv s := by
  induction h with
  | init => exact ⟨rfl, List.nodup_nil, by simp, by simp, by simp, by simp⟩
  | @step s s' _ hs ih =>
    obtain ⟨f, nd, ei, ac, si, la⟩ := ih
    cases hs with
    | submit a fresh =>
      refine ⟨?_, ?_, ei, ac, si, la⟩
      · simp only [f, List.append_assoc]
      · rw [List.nodup_append]
        refine ⟨nd, by simp, ?_⟩
        intro x hx y hy e
        simp at hy; subst hy; subst e; exact fresh hx
    | popOp i rest hs hq =>
      refine ⟨?_, nd, ?_, ?_, ?_, ?_⟩
      · simp only [f, hq, List.append_assoc, List.singleton_append]
      · intro k
        rw [List.mem_append, List.mem_singleton, List.mem_cons, ei k, Act.op.injEq]
        exact or_comm
      · intro k hk
        simp only [List.mem_cons] at hk ⊢
        rcases hk with rfl | hk
        · exact Or.inl (Or.inl rfl)
        · rcases ac k hk with h | h
          · exact Or.inl (Or.inr h)
          · exact Or.inr h
      · exact si
      · intro j hj
        have hj' : s.notif = some j := hj
        have hsn : s.notif.isSome = true := by rw [hj']; rfl
        have := si.mpr hsn
        rw [hs] at this; cases this
    | popBar j rest hs hq =>
      refine ⟨?_, nd, ?_, ac, ?_, ?_⟩
      · simp only [f, hq, List.append_assoc, List.singleton_append]
      · intro k
        simp only [List.mem_append, List.mem_singleton]
        rw [← ei k]
        constructor
        · rintro (h | h)
          · exact h
          · cases h
        · intro h; exact Or.inl h
      · simp
      · intro j' hj'
        simp only [Option.some.injEq] at hj'
        subst hj'
        exact ⟨_, rfl⟩
    | finish i hi =>
      refine ⟨f, nd, ei, ?_, si, la⟩
      intro k hk
      simp only [List.mem_cons]
      rcases ac k hk with h | h
      · by_cases e : k = i
        · exact Or.inr (Or.inl e)
        · exact Or.inl ((List.mem_erase_of_ne e).mpr h)
      · exact Or.inr (Or.inr h)
    | fire j hn he =>
      refine ⟨f, nd, ei, ac, by simp, by intro j' hj'; cases hj'⟩

theorem split_unique {α : Type} (x : α) : ∀ (l1 l2 r1 r2 : List α),
    l1 ++ x :: l2 = r1 ++ x :: r2 → x ∉ l1 → x ∉ r1 → l1 = r1 ∧ l2 = r2 := by
  intro l1
  induction l1 with
  | nil =>
    intro l2 r1 r2 h _ hr
    cases r1 with
    | nil => simp at h; exact ⟨rfl, h⟩
    | cons b r1 =>
      simp at h
      exact absurd (List.mem_cons.mpr (Or.inl h.1)) hr
  | cons a l1 ih =>
    intro l2 r1 r2 h hl hr
    cases r1 with
    | nil =>
      simp at h
      exact absurd (List.mem_cons.mpr (Or.inl h.1.symm)) hl
    | cons b r1 =>
      simp at h
      obtain ⟨rfl, h⟩ := h
      have := ih l2 r1 r2 h (fun m => hl (List.mem_cons_of_mem _ m)) (fun m => hr (List.mem_cons_of_mem _ m))
      exact ⟨by rw [this.1], this.2⟩

/-- **a barrier runs between the operations submitted before and after it**: at the moment the barrier block of barrier `j`
    runs, every operation submitted before `j` has been disposed of, and no operation submitted after `j` has been handed to
    the descriptor yet - for every history of submissions, however operations complete -/
theorem barrier_between {s : St} (h : Reachable s) (j : Nat) (hn : s.notif = some j) (he : s.inflight = [])
    (pre post : List Act) (hsplit : s.subs = pre ++ Act.bar j :: post) :
    (∀ i, Act.op i ∈ pre → i ∈ s.dones) ∧ (∀ i, Act.op i ∈ post → i ∉ s.enq) := by
  obtain ⟨f, nd, ei, ac, _, la⟩ := inv_reachable h
  obtain ⟨pre', hp⟩ := la j hn
  have hsub : s.subs = pre' ++ Act.bar j :: s.bq := by rw [f, hp]; simp
  have hnd := nd
  rw [hsplit] at hnd
  have hj1 : Act.bar j ∉ pre := by
    intro m
    have := (List.nodup_append.mp hnd).2.2 _ m (Act.bar j) (by simp)
    exact this rfl
  have hnd2 := nd
  rw [hsub] at hnd2
  have hj2 : Act.bar j ∉ pre' := by
    intro m
    have := (List.nodup_append.mp hnd2).2.2 _ m (Act.bar j) (by simp)
    exact this rfl
  obtain ⟨e1, e2⟩ := split_unique (Act.bar j) pre post pre' s.bq (by rw [← hsplit, hsub]) hj1 hj2
  subst e1; subst e2
  constructor
  · intro i hi
    have : Act.op i ∈ s.pops := by rw [hp]; exact List.mem_append_left _ hi
    rcases ac i ((ei i).mp this) with h1 | h1
    · rw [he] at h1; cases h1
    · exact h1
  · intro i hi hq
    have hpop := (ei i).mpr hq
    have hnd3 := nd
    rw [f] at hnd3
    exact (List.nodup_append.mp hnd3).2.2 _ hpop _ hi rfl

/-! ### replay of recorded executions -/

/-- what the recorder sees: a submission (before the API call), an operation entering / leaving the barrier group, the barrier
    queue being suspended / resumed, a barrier block running -/
inductive Ev | sub (a : Act) | enter | leave | suspend | ran (j : Nat) | resume

/-- the model's move for a recorded event; `none` = the model has no such move in this state -/
def exec (s : St) : Ev → Option St
  | .sub a => if a ∈ s.subs then none else some { s with bq := s.bq ++ [a], subs := s.subs ++ [a] }
  | .enter =>
    match s.susp, s.bq with
    | false, .op i :: rest => some { s with bq := rest, inflight := i :: s.inflight, pops := s.pops ++ [.op i], enq := i :: s.enq }
    | _, _ => none
  | .suspend =>
    match s.susp, s.bq with
    | false, .bar j :: rest => some { s with bq := rest, susp := true, notif := some j, pops := s.pops ++ [.bar j] }
    | _, _ => none
  | .leave =>
    match s.inflight with
    | i :: _ => some { s with inflight := s.inflight.erase i, dones := i :: s.dones }
    | [] => none
  | .ran j => if s.notif = some j ∧ s.inflight = [] then some s else none     -- the hypothesis of `barrier_between`
  | .resume =>
    match s.notif, s.inflight with
    | some _, [] => some { s with notif := none, susp := false }
    | _, _ => none

/-- every move of the replay is a step of the model (or, for `ran`, no move at all) -/
theorem exec_sound (s s' : St) (e : Ev) (h : exec s e = some s') : Step s s' ∨ s' = s := by
  cases e with
  | sub a =>
    simp only [exec] at h
    split at h
    · cases h
    · rename_i hf; injection h with h; subst h; exact Or.inl (.submit s a hf)
  | enter =>
    simp only [exec] at h
    split at h
    · rename_i i rest hs hq; injection h with h; subst h; exact Or.inl (.popOp s i rest hs hq)
    · cases h
  | suspend =>
    simp only [exec] at h
    split at h
    · rename_i j rest hs hq; injection h with h; subst h; exact Or.inl (.popBar s j rest hs hq)
    · cases h
  | leave =>
    simp only [exec] at h
    split at h
    · rename_i i tl hq; injection h with h; subst h; exact Or.inl (.finish s i (by rw [hq]; simp))
    · cases h
  | ran j =>
    simp only [exec] at h
    split at h
    · injection h with h; exact Or.inr h.symm
    · cases h
  | resume =>
    simp only [exec] at h
    split at h
    · rename_i j hn he; injection h with h; subst h; exact Or.inl (.fire s j hn he)
    · cases h

def run : St → List Ev → Option St
  | s, [] => some s
  | s, e :: es => match exec s e with
    | some s' => run s' es
    | none => none

theorem run_reachable : ∀ (es : List Ev) (s s' : St), Reachable s → run s es = some s' → Reachable s' := by
  intro es
  induction es with
  | nil => intro s s' hr h; simp [run] at h; subst h; exact hr
  | cons e es ih =>
    intro s s' hr h
    simp only [run] at h
    cases he : exec s e with
    | none => rw [he] at h; cases h
    | some s1 =>
      rw [he] at h
      rcases exec_sound s s1 e he with hs | rfl
      · exact ih s1 s' (.step hr hs) h
      · exact ih _ s' hr h

/-- non-vacuity: one operation before and one after a barrier; the barrier is ready to run exactly when the first is done -/
example : ∃ s, Reachable s ∧ s.notif = some 7 ∧ s.inflight = [] ∧ s.subs = [.op 1, .bar 7, .op 2] ∧ s.dones = [1] ∧ s.enq = [1] := by
  have e : run {} [.sub (.op 1), .sub (.bar 7), .sub (.op 2), .enter, .suspend, .leave] =
      some { bq := [.op 2], susp := true, inflight := [], notif := some 7, subs := [.op 1, .bar 7, .op 2], pops := [.op 1, .bar 7], enq := [1], dones := [1] } := by decide
  exact ⟨_, run_reachable _ _ _ .init e, rfl, rfl, rfl, rfl, rfl⟩

end IoCh
