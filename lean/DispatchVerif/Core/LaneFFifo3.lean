import DispatchVerif.Core.LaneFFifo2
namespace LaneF

theorem sig_after {sh : Sh} {t : Tid} {pc : Pc} {op : Op} {sh' : Sh} {pc' : Pc}
    (h : (sh', pc') ∈ step sh t pc op) :
    ∀ u, u ∈ sh'.signalled → u ∈ sh.signalled ∨ ∃ k, pc = .dbwSignal u k := by
  cases pc <;> simp only [step] at h
  all_goals (try (repeat' split at h))
  all_goals (try simp at h)
  all_goals (try (first | (obtain ⟨rfl, rfl⟩ := h) | (rcases h with ⟨rfl, rfl⟩ | ⟨rfl, rfl⟩)))
  all_goals (try (intro u hm; exact Or.inl hm))
  · intro u hm; exact Or.inl (List.mem_of_mem_erase hm)
  · intro u hm; simp at hm; rcases hm with rfl | hm
    · exact Or.inr ⟨_, rfl⟩
    · exact Or.inl hm

theorem oth_same {s : St} (lf : ∀ u, LF s.sh u (s.pcs u)) {t : Tid} {op : Op} {sh' : Sh} {pc' : Pc}
    (h : (sh', pc') ∈ step s.sh t (s.pcs t) op) (hX : X sh' = X s.sh) :
    ∀ u, u ≠ t → LF sh' u (s.pcs u) := by
  intro u ne
  refine others_same hX (items_after h) ?_ ?_ u _ ne (lf u)
  · intro v _ hm
    rcases sig_after h v hm with h1 | ⟨k, hk⟩
    · exact Or.inl h1
    · exact Or.inr ((lf t).r3 v k hk)
  · intro v nv
    rcases count_after h v with h1 | ⟨e, _⟩
    · exact h1
    · exact absurd e nv

theorem map_id_linkItem (l : List Item) (id : ItemId) : (linkItem l id).map (·.id) = l.map (·.id) := by
  induction l with
  | nil => rfl
  | cons a l ih => simp only [linkItem, List.map_cons] at ih ⊢; rw [ih]; split <;> rfl

end LaneF
