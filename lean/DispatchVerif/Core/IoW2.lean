import DispatchVerif.Core.IoW
/-! C14 (write path): the invariant that ties a write operation to the data submitted, and conservation for every legal
    sequence of write() outcomes. -/
namespace IoW

theorem flatten_dropR : ∀ (rs : List (List Byte)) (n : Nat), (dropR rs n).flatten = rs.flatten.drop n
  | [], n => by simp [dropR]
  | r :: rs, n => by
    unfold dropR
    split
    · rename_i h
      rw [flatten_dropR rs (n - r.length)]
      simp only [List.flatten_cons]
      rw [List.drop_append]
      have : r.drop n = [] := List.drop_eq_nil_of_le h
      simp [this]
    · rename_i h
      simp only [List.flatten_cons]
      rw [List.drop_append_of_le_length (by omega)]

theorem dropR_ne : ∀ (rs : List (List Byte)) (n : Nat), (∀ r ∈ rs, r ≠ []) → ∀ r ∈ dropR rs n, r ≠ []
  | [], n, _ => by simp [dropR]
  | r :: rs, n, h => by
    unfold dropR
    split
    · exact dropR_ne rs _ (fun x hx => h x (by simp [hx]))
    · rename_i hn
      intro x hx
      simp only [List.mem_cons] at hx
      rcases hx with rfl | hx
      · intro e; have := congrArg List.length e; simp at this; omega
      · exact h x (by simp [hx])

theorem accum_le (cs : Nat) : ∀ (ls : List Nat) (b : Nat), accum cs ls b ≤ b + ls.sum
  | [], b => by simp [accum]
  | l :: ls, b => by
    simp only [accum, List.sum_cons]
    generalize hb' : (if b = 0 ∨ b + l ≤ cs then b + l else b) = b'
    have hb1 : b' ≤ b + l := by split at hb' <;> omega
    split
    · have := accum_le cs ls b'; omega
    · omega

theorem accum_pos (cs : Nat) (l : Nat) (ls : List Nat) (hl : 0 < l) : 0 < accum cs (l :: ls) 0 := by
  have mono : ∀ (ls : List Nat) (b : Nat), b ≤ accum cs ls b := by
    intro ls
    induction ls with
    | nil => intro b; simp [accum]
    | cons x xs ih =>
      intro b
      simp only [accum]
      generalize hb' : (if b = 0 ∨ b + x ≤ cs then b + x else b) = b'
      have hb1 : b ≤ b' := by split at hb' <;> omega
      split
      · have := ih b'; omega
      · omega
  simp only [accum, true_or, if_true, Nat.zero_add]
  split
  · have := mono ls l; omega
  · omega


/-- what ties the operation to the data originally submitted (`orig`); `strict`: between two passes a mapped buffer always has
    room left (a full one is released by `deliverData`) -/
structure Inv (orig : List Byte) (op : Op) (strict : Bool) : Prop where
  len : op.length = orig.length
  flat : op.data.flatten = orig.drop (op.total - op.bufLen)
  bl : op.bufLen ≤ op.total
  tot : op.total ≤ op.length
  buf : op.hasBuf = true → op.bufLen ≤ op.bufSiz ∧ op.bufSiz ≤ op.data.flatten.length ∧ (strict = true → op.bufLen < op.bufSiz)
  nobuf : op.hasBuf = false → op.bufLen = 0
  hi : 0 < op.high
  ch : 0 < op.chunk
  ne : ∀ r ∈ op.data, r ≠ []

theorem sum_map_length (rs : List (List Byte)) : (rs.map List.length).sum = rs.flatten.length := by
  induction rs with
  | nil => rfl
  | cons r rs ih => simp only [List.map_cons, List.sum_cons, List.flatten_cons, List.length_append, ih]

def newSiz (op : Op) : Nat :=
  let b := accum (if op.chunk > op.high then op.high else op.chunk) (op.data.map List.length) 0
  if b > op.high then op.high else b

theorem allocBuf_has {op : Op} (h : op.hasBuf = true) : allocBuf op = op := by simp [allocBuf, h]
theorem allocBuf_none {op : Op} (h : op.hasBuf = false) :
    allocBuf op = { op with hasBuf := true, bufSiz := newSiz op, bufLen := 0 } := by simp [allocBuf, h, newSiz]

theorem newSiz_le (op : Op) : newSiz op ≤ op.data.flatten.length := by
  unfold newSiz
  generalize (if op.chunk > op.high then op.high else op.chunk) = cs
  have hle := accum_le cs (op.data.map List.length) 0
  rw [sum_map_length] at hle
  simp only []
  generalize accum cs (op.data.map List.length) 0 = b at *
  split <;> omega

theorem newSiz_pos {op : Op} (hh : 0 < op.high) (hne : ∀ r ∈ op.data, r ≠ []) (hd : op.data ≠ []) : 0 < newSiz op := by
  unfold newSiz
  generalize (if op.chunk > op.high then op.high else op.chunk) = cs
  cases hdd : op.data with
  | nil => exact absurd hdd hd
  | cons r rs =>
    have hr : 0 < r.length := List.length_pos_iff.mpr (hne r (by rw [hdd]; simp))
    have := accum_pos cs r.length (rs.map List.length) hr
    simp only [List.map_cons]
    generalize accum cs (r.length :: rs.map List.length) 0 = b at *
    split <;> omega

/-- buffer selection: the invariant is kept, and while bytes remain the next write() is asked for at least one byte -/
theorem allocBuf_inv {orig : List Byte} {op : Op} (h : Inv orig op true) (hlt : op.total < op.length) :
    Inv orig (allocBuf op) true ∧ (allocBuf op).hasBuf = true ∧ (allocBuf op).total = op.total ∧ 0 < writeLen op := by
  unfold writeLen
  by_cases hb : op.hasBuf = true
  · rw [allocBuf_has hb]
    have := h.buf hb
    exact ⟨h, hb, rfl, by have := this.2.2 rfl; omega⟩
  · have hb' : op.hasBuf = false := by simpa using hb
    have hbl := h.nobuf hb'
    rw [allocBuf_none hb']
    have hflat : op.data.flatten = orig.drop op.total := by simpa [hbl] using h.flat
    have hdne : op.data ≠ [] := by
      intro e
      rw [e] at hflat
      have := congrArg List.length hflat
      simp at this
      have := h.len; omega
    have hpos := newSiz_pos h.hi h.ne hdne
    have hle := newSiz_le op
    refine ⟨⟨h.len, ?_, ?_, h.tot, ?_, (by intro e; cases e), h.hi, h.ch, h.ne⟩, rfl, rfl, ?_⟩
    · simpa using hflat
    · simp
    · intro _; exact ⟨by simp, hle, fun _ => hpos⟩
    · simpa using hpos


theorem Inv.weaken {orig : List Byte} {op : Op} (h : Inv orig op true) : Inv orig op false :=
  ⟨h.len, h.flat, h.bl, h.tot, fun e => ⟨(h.buf e).1, (h.buf e).2.1, fun x => by cases x⟩, h.nobuf, h.hi, h.ch, h.ne⟩

/-- the bytes given to a write() are the next bytes of the submitted data, and the bookkeeping after it -/
theorem perform_wrote {orig : List Byte} {op : Op} (h : Inv orig op true) (hlt : op.total < op.length) (n : Nat)
    (hn : 0 < n ∧ n ≤ writeLen op) :
    Inv orig (perform op (.wrote n)).1 false ∧ (perform op (.wrote n)).1.total = op.total + n ∧
    (writeBuf op).take n = (orig.drop op.total).take n := by
  obtain ⟨hi, hb, ht, hw⟩ := allocBuf_inv h hlt
  have hbuf := hi.buf hb
  unfold writeLen at hn hw
  have hflat := hi.flat
  -- length of what is left
  have hlen : (allocBuf op).data.flatten.length = orig.length - ((allocBuf op).total - (allocBuf op).bufLen) := by
    rw [hflat]; simp
  refine ⟨⟨hi.len, ?_, ?_, ?_, ?_, (by intro e; simp [perform] at e; rw [hb] at e; cases e), hi.hi, hi.ch, hi.ne⟩, ?_, ?_⟩
  · show (allocBuf op).data.flatten = orig.drop ((allocBuf op).total + n - ((allocBuf op).bufLen + n))
    have : (allocBuf op).total + n - ((allocBuf op).bufLen + n) = (allocBuf op).total - (allocBuf op).bufLen := by omega
    rw [this]; exact hflat
  · show (allocBuf op).bufLen + n ≤ (allocBuf op).total + n
    have := hi.bl; omega
  · show (allocBuf op).total + n ≤ (allocBuf op).length
    have := hi.len; have := hi.bl; omega
  · intro _
    show (allocBuf op).bufLen + n ≤ (allocBuf op).bufSiz ∧ (allocBuf op).bufSiz ≤ (allocBuf op).data.flatten.length ∧ _
    exact ⟨by omega, hbuf.2.1, fun x => by cases x⟩
  · show (allocBuf op).total + n = op.total + n
    rw [ht]
  · unfold writeBuf writeLen
    rw [hflat, List.drop_drop, List.take_take]
    have e1 : (allocBuf op).total - (allocBuf op).bufLen + (allocBuf op).bufLen = op.total := by
      have := hi.bl; omega
    rw [e1]
    have : min n ((allocBuf op).bufSiz - (allocBuf op).bufLen) = n := by omega
    rw [this]


theorem ite_none_some {p : Prop} [Decidable p] (x : List Byte) :
    (if p then (none : Option (List Byte)) else some x) = none ∨ (if p then (none : Option (List Byte)) else some x) = some x := by
  by_cases h : p <;> simp [h]

/-- `deliverData` keeps the tie to the submitted data, leaves a mapped buffer only with room in it, calls the handler at most
    once, with the `done` flag it was given, and whenever it passes data that data is exactly the unwritten remainder -/
theorem deliverData_spec {orig : List Byte} {op : Op} (h : Inv orig op false) (fD fDn fNe : Bool) :
    Inv orig (deliverData op fD fDn fNe).1 true ∧ (deliverData op fD fDn fNe).1.total = op.total ∧
    (deliverData op fD fDn fNe).2.length ≤ 1 ∧
    (∀ c ∈ (deliverData op fD fDn fNe).2, c.done = fDn ∧ (∀ d, c.rem = some d → d = orig.drop op.total)) ∧
    (fDn = true → fNe = false → (deliverData op fD fDn fNe).2.length = 1) := by
  have hrem : (dropR op.data op.bufLen).flatten = orig.drop op.total := by
    rw [flatten_dropR, h.flat, List.drop_drop]
    have := h.bl
    congr 1; omega
  unfold deliverData
  simp only []
  split
  · -- not yet: below the low-water mark and the buffer has room
    rename_i hc
    refine ⟨⟨h.len, h.flat, h.bl, h.tot, fun e => ⟨(h.buf e).1, (h.buf e).2.1, fun _ => hc.2.2⟩, h.nobuf, h.hi, h.ch, h.ne⟩, rfl, by simp, by simp, ?_⟩
    intro e1 _; rw [e1] at hc; simp at hc
  · rename_i hc
    -- the operation after the (possible) release of a used-up buffer
    have key : ∀ (dlv : Bool), Inv orig (if op.hasBuf = true ∧ op.bufLen = op.bufSiz then
          { op with hasBuf := false, bufLen := 0, data := if dlv then dropR op.data op.bufLen else dropR op.data op.bufSiz } else op) true := by
      intro dlv
      split
      · rename_i hfull
        have hd : (if dlv then dropR op.data op.bufLen else dropR op.data op.bufSiz) = dropR op.data op.bufSiz := by
          rw [hfull.2]; split <;> rfl
        refine ⟨h.len, ?_, by simp, h.tot, (by intro e; cases e), fun _ => rfl, h.hi, h.ch, ?_⟩
        · show (if dlv then dropR op.data op.bufLen else dropR op.data op.bufSiz).flatten = orig.drop (op.total - 0)
          rw [hd, ← hfull.2, hrem]; simp
        · show ∀ r ∈ (if dlv then dropR op.data op.bufLen else dropR op.data op.bufSiz), r ≠ []
          rw [hd]; exact dropR_ne _ _ h.ne
      · rename_i hnf
        refine ⟨h.len, h.flat, h.bl, h.tot, fun e => ⟨(h.buf e).1, (h.buf e).2.1, fun _ => ?_⟩, h.nobuf, h.hi, h.ch, h.ne⟩
        have := (h.buf e).1
        have : op.bufLen ≠ op.bufSiz := fun e2 => hnf ⟨e, e2⟩
        omega
    generalize hdl : ((fD || fDn) || decide (op.undelivered + op.bufLen ≥ op.low)) = dlv
    have k := key dlv
    generalize hop2 : (if op.hasBuf = true ∧ op.bufLen = op.bufSiz then
          { op with hasBuf := false, bufLen := 0, data := if dlv then dropR op.data op.bufLen else dropR op.data op.bufSiz } else op) = op2 at k
    have ht2 : op2.total = op.total := by rw [← hop2]; split <;> rfl
    split
    · rename_i hnd
      refine ⟨⟨k.len, k.flat, k.bl, k.tot, k.buf, k.nobuf, k.hi, k.ch, k.ne⟩, ht2, by simp, by simp, ?_⟩
      intro e1 e2
      rw [← hdl, e1, e2] at hnd
      simp at hnd
    · refine ⟨⟨k.len, k.flat, k.bl, k.tot, k.buf, k.nobuf, k.hi, k.ch, k.ne⟩, ht2, by simp, ?_, fun _ _ => by simp⟩
      intro c hcm
      simp only [List.mem_cons, List.mem_nil_iff, or_false] at hcm
      subst hcm
      refine ⟨rfl, ?_⟩
      intro d hd
      simp only [] at hd
      have : ∀ (o : Option (List Byte)), o = some d → (o = none ∨ o = some (dropR op.data op.bufLen).flatten) → d = orig.drop op.total := by
        intro o e1 e2
        rcases e2 with e2 | e2
        · rw [e2] at e1; cases e1
        · rw [e2] at e1; injection e1 with e1; rw [← e1]; exact hrem
      exact this _ hd (ite_none_some _)


def written : Outcome → Nat
  | .wrote n => n
  | _ => 0

/-- what one pass of the stream handler does -/
structure HSpec (orig : List Byte) (op : Op) (o : Outcome) : Prop where
  inv : Inv orig (handle op o).1 true
  tot : (handle op o).1.total = op.total + written o
  rem : ∀ c ∈ (handle op o).2.1, ∀ d, c.rem = some d → d = orig.drop (handle op o).1.total
  notFin : (handle op o).2.2 = false → (∀ c ∈ (handle op o).2.1, c.done = false) ∧ (handle op o).1.total < op.length
  fin : (handle op o).2.2 = true → ∃ pre c, (handle op o).2.1 = pre ++ [c] ∧ c.done = true ∧ ∀ x ∈ pre, x.done = false

theorem HSpec_iff (orig : List Byte) (op : Op) (o : Outcome) : HSpec orig op o ↔
    (Inv orig (handle op o).1 true ∧ (handle op o).1.total = op.total + written o ∧
     (∀ c ∈ (handle op o).2.1, ∀ d, c.rem = some d → d = orig.drop (handle op o).1.total) ∧
     ((handle op o).2.2 = false → (∀ c ∈ (handle op o).2.1, c.done = false) ∧ (handle op o).1.total < op.length) ∧
     ((handle op o).2.2 = true → ∃ pre c, (handle op o).2.1 = pre ++ [c] ∧ c.done = true ∧ ∀ x ∈ pre, x.done = false)) :=
  ⟨fun h => ⟨h.inv, h.tot, h.rem, h.notFin, h.fin⟩, fun h => ⟨h.1, h.2.1, h.2.2.1, h.2.2.2.1, h.2.2.2.2⟩⟩

theorem perform_other {orig : List Byte} {op : Op} (h : Inv orig op true) (hlt : op.total < op.length) (o : Outcome)
    (hno : ∀ n, o ≠ .wrote n) : Inv orig (perform op o).1 false ∧ (perform op o).1.total = op.total := by
  obtain ⟨hi, _, ht, _⟩ := allocBuf_inv h hlt
  cases o with
  | wrote n => exact absurd rfl (hno n)
  | zero => exact ⟨hi.weaken, ht⟩
  | eagain => exact ⟨hi.weaken, ht⟩
  | error e =>
    have := hi.weaken
    exact ⟨⟨this.len, this.flat, this.bl, this.tot, this.buf, this.nobuf, this.hi, this.ch, this.ne⟩, ht⟩

theorem handle_eq (op : Op) (o : Outcome) :
    handle op o = (match (perform op o).2 with
      | .deliver => ((deliverData (perform op o).1 false false false).1, (deliverData (perform op o).1 false false false).2, false)
      | .deliverAndComplete =>
        ((deliverData (deliverData (perform op o).1 true false true).1 false true false).1,
         (deliverData (perform op o).1 true false true).2 ++ (deliverData (deliverData (perform op o).1 true false true).1 false true false).2, true)
      | .complete => ((deliverData (perform op o).1 false true false).1, (deliverData (perform op o).1 false true false).2, true)
      | .resume => ((perform op o).1, [], false)) := by
  unfold handle
  cases hp : perform op o with
  | mk a r => cases r <;> rfl

theorem handle_spec {orig : List Byte} {op : Op} (h : Inv orig op true) (hlt : op.total < op.length) (o : Outcome)
    (hl : okOutcome op o) : HSpec orig op o := by
  cases o with
  | wrote n =>
    obtain ⟨hp, hpt, _⟩ := perform_wrote h hlt n hl
    have hlen := hp.len; have htot := hp.tot
    by_cases hc : (perform op (.wrote n)).1.total = (perform op (.wrote n)).1.length
    · have hr : (perform op (.wrote n)).2 = .complete := by
        simp only [perform]; simp only [perform] at hc; rw [if_pos hc]
      obtain ⟨d1, d2, d3, d4, d5⟩ := deliverData_spec hp false true false
      rw [HSpec_iff, handle_eq, hr]; dsimp only [written]
      refine ⟨d1, (by rw [d2, hpt]), ?_, (by intro e; cases e), ?_⟩
      · intro c hc' d hd; rw [d2]; exact (d4 c hc').2 d hd
      · intro _
        have h1 := d5 rfl rfl
        match hcs : (deliverData (perform op (.wrote n)).1 false true false).2, h1 with
        | [c], _ => exact ⟨[], c, by simp, (d4 c (by rw [hcs]; simp)).1, by simp⟩
    · have hr : (perform op (.wrote n)).2 = .deliver := by
        simp only [perform]; simp only [perform] at hc; rw [if_neg hc]
      obtain ⟨d1, d2, d3, d4, _⟩ := deliverData_spec hp false false false
      rw [HSpec_iff, handle_eq, hr]; dsimp only [written]
      refine ⟨d1, (by rw [d2, hpt]), ?_, ?_, (by intro e; cases e)⟩
      · intro c hc' d hd; rw [d2]; exact (d4 c hc').2 d hd
      · intro _
        refine ⟨fun c hc' => (d4 c hc').1, ?_⟩
        rw [d2]
        have : (perform op (.wrote n)).1.length = op.length := by simp [perform, allocBuf]; split <;> rfl
        omega
  | zero =>
    obtain ⟨hp, hpt⟩ := perform_other h hlt .zero (by intro n e; cases e)
    have hr : (perform op .zero).2 = .deliverAndComplete := rfl
    obtain ⟨d1, d2, d3, d4, _⟩ := deliverData_spec hp true false true
    obtain ⟨e1, e2, e3, e4, e5⟩ := deliverData_spec d1.weaken false true false
    rw [HSpec_iff, handle_eq, hr]; dsimp only [written]
    refine ⟨e1, (by rw [e2, d2, hpt]; rfl), ?_, (by intro e; cases e), ?_⟩
    · intro c hc' d hd
      rw [e2, d2]
      rcases List.mem_append.mp hc' with hm | hm
      · exact (d4 c hm).2 d hd
      · have := (e4 c hm).2 d hd; rw [d2] at this; exact this
    · intro _
      have h1 := e5 rfl rfl
      match hcs : (deliverData (deliverData (perform op .zero).1 true false true).1 false true false).2, h1 with
      | [c], _ =>
        refine ⟨_, c, rfl, (e4 c (by rw [hcs]; simp)).1, fun x hx => (d4 x hx).1⟩
  | eagain =>
    obtain ⟨hp, hpt⟩ := perform_other h hlt .eagain (by intro n e; cases e)
    obtain ⟨hi, _, ht, _⟩ := allocBuf_inv h hlt
    have hr : (perform op .eagain).2 = .resume := rfl
    rw [HSpec_iff, handle_eq, hr]; dsimp only [written]
    refine ⟨(by simpa [perform] using hi), (by simpa [perform] using ht), (by simp), ?_, (by intro e; cases e)⟩
    intro _; refine ⟨by simp, ?_⟩
    show (allocBuf op).total < op.length
    rw [ht]; exact hlt
  | error e =>
    obtain ⟨hp, hpt⟩ := perform_other h hlt (.error e) (by intro n e'; cases e')
    have hr : (perform op (.error e)).2 = .complete := rfl
    obtain ⟨d1, d2, d3, d4, d5⟩ := deliverData_spec hp false true false
    rw [HSpec_iff, handle_eq, hr]; dsimp only [written]
    refine ⟨d1, (by rw [d2, hpt]; rfl), ?_, (by intro e'; cases e'), ?_⟩
    · intro c hc' d hd; rw [d2]; exact (d4 c hc').2 d hd
    · intro _
      have h1 := d5 rfl rfl
      match hcs : (deliverData (perform op (.error e)).1 false true false).2, h1 with
      | [c], _ => exact ⟨[], c, by simp, (d4 c (by rw [hcs]; simp)).1, by simp⟩


theorem run_cons (op : Op) (o : Outcome) (os : List Outcome) :
    run op (o :: os) =
      (if (handle op o).2.2 = true then
        ((passW op o), (handle op o).2.1.map (fun x => ((handle op o).1.total, x)), true)
       else
        ((passW op o) ++ (run (handle op o).1 os).1,
         (handle op o).2.1.map (fun x => ((handle op o).1.total, x)) ++ (run (handle op o).1 os).2.1,
         (run (handle op o).1 os).2.2)) := by
  simp only [run]

/-- the bytes of one pass: the next `written o` bytes of the submitted data -/
theorem pass_bytes {orig : List Byte} {op : Op} (h : Inv orig op true) (hlt : op.total < op.length) (o : Outcome)
    (hl : okOutcome op o) :
    (passW op o) = (orig.drop op.total).take (written o) ∧
    op.total + written o ≤ orig.length := by
  cases o with
  | wrote n =>
    obtain ⟨hp, hpt, hw⟩ := perform_wrote h hlt n hl
    have := hp.tot; have := hp.len
    have hle : (perform op (.wrote n)).1.length = op.length := by simp [perform, allocBuf]; split <;> rfl
    exact ⟨hw, by simp only [written]; rw [← h.len]; omega⟩
  | zero => exact ⟨by simp [written, passW], by simp only [written]; have := h.len; omega⟩
  | eagain => exact ⟨by simp [written, passW], by simp only [written]; have := h.len; omega⟩
  | error e => exact ⟨by simp [written, passW], by simp only [written]; have := h.len; omega⟩


theorem legal_cons (op : Op) (o : Outcome) (os : List Outcome) (h : Legal op (o :: os)) :
    okOutcome op o ∧ Legal (handle op o).1 os := h

/-- **write conservation**, for every legal sequence of write() outcomes: the bytes handed to the kernel are, in order and each
    once, a prefix of the submitted data; every data object passed to the handler is exactly the part not yet written at that
    moment; `done` is reported once, by the last call, and only if the operation completed -/
theorem run_spec (orig : List Byte) : ∀ (os : List Outcome) (op : Op), Inv orig op true → op.total < op.length → Legal op os →
    (run op os).1 = (orig.drop op.total).take (run op os).1.length ∧
    op.total + (run op os).1.length ≤ orig.length ∧
    (∀ kc ∈ (run op os).2.1, op.total ≤ kc.1 ∧ kc.1 ≤ op.total + (run op os).1.length ∧
        ∀ d, kc.2.rem = some d → d = orig.drop kc.1) ∧
    ((run op os).2.2 = true → ∃ pre c, (run op os).2.1 = pre ++ [c] ∧ c.2.done = true ∧ ∀ x ∈ pre, x.2.done = false) ∧
    ((run op os).2.2 = false → ∀ x ∈ (run op os).2.1, x.2.done = false) := by
  intro os
  induction os with
  | nil => intro op h _ _; have := h.tot; have := h.len; simp [run]; omega
  | cons o os ih =>
    intro op h hlt hleg
    obtain ⟨hl, hleg'⟩ := legal_cons op o os hleg
    have hs := handle_spec h hlt o hl
    obtain ⟨hw, hwle⟩ := pass_bytes h hlt o hl
    have hwlen : (passW op o).length = written o := by
      rw [hw, List.length_take, List.length_drop]; omega
    rw [run_cons]
    by_cases hf : (handle op o).2.2 = true
    · rw [if_pos hf]
      obtain ⟨pre, c, hc, hcd, hpre⟩ := hs.fin hf
      refine ⟨by simp only []; rw [hwlen]; exact hw, by simp only []; rw [hwlen]; exact hwle, ?_, ?_, by intro e; cases e⟩
      · intro kc hkc
        simp only [List.mem_map] at hkc
        obtain ⟨x, hx, rfl⟩ := hkc
        simp only []
        rw [hwlen, hs.tot]
        exact ⟨by omega, by omega, fun d hd => by have := hs.rem x hx d hd; rw [hs.tot] at this; exact this⟩
      · intro _
        refine ⟨pre.map (fun x => ((handle op o).1.total, x)), ((handle op o).1.total, c), by simp only []; rw [hc]; simp, hcd, ?_⟩
        intro x hx
        simp only [List.mem_map] at hx
        obtain ⟨y, hy, rfl⟩ := hx
        exact hpre y hy
    · rw [if_neg hf]
      have hf' : (handle op o).2.2 = false := by simpa using hf
      obtain ⟨hnd, hlt'⟩ := hs.notFin hf'
      have hlen' : (handle op o).1.length = op.length := by
        have := hs.inv.len; have := h.len; omega
      have ih' := ih (handle op o).1 hs.inv (by rw [hlen']; exact hlt') hleg'
      obtain ⟨i1, i2, i3, i4, i5⟩ := ih'
      rw [hs.tot] at i1 i2 i3
      simp only [List.length_append]
      rw [hwlen]
      refine ⟨?_, by omega, ?_, ?_, ?_⟩
      · -- a prefix followed by the prefix of the rest
        generalize hL : (run (handle op o).1 os).1.length = L at i1 ⊢
        rw [i1, hw]
        have : orig.drop (op.total + written o) = (orig.drop op.total).drop (written o) := by rw [List.drop_drop]
        rw [this, ← List.take_add]
      · intro kc hkc
        rcases List.mem_append.mp hkc with hm | hm
        · simp only [List.mem_map] at hm
          obtain ⟨x, hx, rfl⟩ := hm
          simp only []
          rw [hs.tot]
          exact ⟨by omega, by omega, fun d hd => by have := hs.rem x hx d hd; rw [hs.tot] at this; exact this⟩
        · obtain ⟨a1, a2, a3⟩ := i3 kc hm
          exact ⟨by omega, by omega, a3⟩
      · intro hfin
        obtain ⟨pre, c, hc, hcd, hpre⟩ := i4 hfin
        refine ⟨(handle op o).2.1.map (fun x => ((handle op o).1.total, x)) ++ pre, c, by rw [hc, List.append_assoc], hcd, ?_⟩
        intro x hx
        rcases List.mem_append.mp hx with hm | hm
        · simp only [List.mem_map] at hm
          obtain ⟨y, hy, rfl⟩ := hm
          exact hnd y hy
        · exact hpre x hm
      · intro hnf x hx
        rcases List.mem_append.mp hx with hm | hm
        · simp only [List.mem_map] at hm
          obtain ⟨y, hy, rfl⟩ := hm
          exact hnd y hy
        · exact i5 hnf x hm


/-- a freshly created write operation over the regions `regs` -/
def fresh (regs : List (List Byte)) (low high chunk : Nat) : Op :=
  { length := regs.flatten.length, low := low, high := high, chunk := chunk, data := regs }

theorem fresh_inv (regs : List (List Byte)) (low high chunk : Nat) (hne : ∀ r ∈ regs, r ≠ []) (hh : 0 < high) (hc : 0 < chunk) :
    Inv regs.flatten (fresh regs low high chunk) true :=
  ⟨rfl, by simp [fresh], by simp [fresh], by simp [fresh], (by intro e; cases e), fun _ => rfl, hh, hc, hne⟩

/-- **write conservation for a whole operation**: whatever the kernel does (short writes, EAGAIN, errors, a zero return), the
    bytes it was handed are — in order, each once — a prefix of the submitted data; every data object the handler receives is
    exactly the part not written at that moment (so bytes at the descriptor + reported unwritten = submitted); `done` is
    reported by the last call only, once -/
theorem write_conservation (regs : List (List Byte)) (low high chunk : Nat) (hne : ∀ r ∈ regs, r ≠ []) (hd : regs ≠ [])
    (hh : 0 < high) (hc : 0 < chunk) (os : List Outcome) (hleg : Legal (fresh regs low high chunk) os) :
    let r := run (fresh regs low high chunk) os
    r.1 = regs.flatten.take r.1.length ∧ r.1.length ≤ regs.flatten.length ∧
    (∀ kc ∈ r.2.1, kc.1 ≤ r.1.length ∧ ∀ d, kc.2.rem = some d → regs.flatten.take kc.1 ++ d = regs.flatten) ∧
    (r.2.2 = true → ∃ pre c, r.2.1 = pre ++ [c] ∧ c.2.done = true ∧ ∀ x ∈ pre, x.2.done = false) ∧
    (r.2.2 = false → ∀ x ∈ r.2.1, x.2.done = false) := by
  have hpos : (fresh regs low high chunk).total < (fresh regs low high chunk).length := by
    cases regs with
    | nil => exact absurd rfl hd
    | cons r rs =>
      have : 0 < r.length := List.length_pos_iff.mpr (hne r (by simp))
      simp [fresh]; omega
  obtain ⟨h1, h2, h3, h4, h5⟩ := run_spec regs.flatten os _ (fresh_inv regs low high chunk hne hh hc) hpos hleg
  have ht : (fresh regs low high chunk).total = 0 := rfl
  rw [ht] at h1 h2 h3
  simp only [List.drop_zero, Nat.zero_add] at h1 h2 h3
  refine ⟨h1, h2, ?_, h4, h5⟩
  intro kc hkc
  obtain ⟨_, a2, a3⟩ := h3 kc hkc
  exact ⟨a2, fun d hd' => by rw [a3 d hd']; exact List.take_append_drop _ _⟩

/-- the library never issues a zero-length write while bytes remain -/
theorem write_len_pos {orig : List Byte} {op : Op} (h : Inv orig op true) (hlt : op.total < op.length) : 0 < writeLen op :=
  (allocBuf_inv h hlt).2.2.2

end IoW
