import DispatchVerif.Core.LaneW
namespace LaneW

/-! list helpers -/
theorem mem_rm {l : List Tid} {t u : Tid} : u ∈ rm l t ↔ u ∈ l ∧ u ≠ t := by simp [rm]

theorem length_rmN (n : Nat) (t : Tid) (l : List Tid) (h : n ≤ l.count t) : (rmN n t l).length + n = l.length := by
  induction l generalizing n with
  | nil => cases n <;> simp_all [rmN]
  | cons a l ih =>
    cases n with
    | zero => simp [rmN]
    | succ n =>
      by_cases e : a = t
      · subst e
        have : n ≤ l.count a := by simp [List.count_cons] at h; omega
        have := ih n this
        simp [rmN]; omega
      · have : n + 1 ≤ l.count t := by simp [List.count_cons, e] at h; omega
        have := ih (n + 1) this
        simp [rmN, e]; omega

theorem count_rmN_self (n : Nat) (t : Tid) (l : List Tid) (h : n ≤ l.count t) : (rmN n t l).count t + n = l.count t := by
  induction l generalizing n with
  | nil => cases n <;> simp_all [rmN]
  | cons a l ih =>
    cases n with
    | zero => simp [rmN]
    | succ n =>
      by_cases e : a = t
      · subst e
        have : n ≤ l.count a := by simp [List.count_cons] at h; omega
        have := ih n this
        simp [rmN, List.count_cons]; omega
      · have : n + 1 ≤ l.count t := by simp [List.count_cons, e] at h; omega
        have := ih (n + 1) this
        simp [rmN, e, List.count_cons]; omega

theorem count_rmN_ne (n : Nat) (t u : Tid) (l : List Tid) (hne : u ≠ t) : (rmN n t l).count u = l.count u := by
  induction l generalizing n with
  | nil => cases n <;> simp [rmN]
  | cons a l ih =>
    cases n with
    | zero => simp [rmN]
    | succ n =>
      by_cases e : a = t
      · subst e; simp [rmN, List.count_cons, Ne.symm hne]; exact ih n
      · simp [rmN, e, List.count_cons]; rw [ih (n + 1)]

theorem count_replicate_self (n : Nat) (t : Tid) (l : List Tid) : (List.replicate n t ++ l).count t = n + l.count t := by
  simp [List.count_append, List.count_replicate]

theorem count_replicate_ne (n : Nat) (t u : Tid) (l : List Tid) (hne : u ≠ t) : (List.replicate n t ++ l).count u = l.count u := by
  simp [List.count_append, List.count_replicate, Ne.symm hne]

/-! ### the invariant -/

/-- barrier-mode owner of the lane -/
def holdsB : Pc → Bool
  | .run _ a | .running _ a | .runningA _ a _ => a.isBar
  | .sFastUnlock | .bc1 _ _ | .bc2 _ _ _
  | .dbwPop _ _ | .dbwRmw _ _ _ | .dnb0 _ _
  | .dInvoke .bar | .dLoopHead .bar | .dDropBarrier | .dLoopNext .bar | .dUnlock .bar _ => true
  | _ => false

/-- units-mode owner of the drain lock -/
def holdsU : Pc → Bool
  | .dInvoke (.units _) | .dLoopHead (.units _) | .dUpgrade _ | .dWidth | .dPopNB _
  | .dLoopNext (.units _) | .dUnlock (.units _) _
  | .dnbWidth _ _ _ | .dnbPop _ _ _ | .dnbFin _ _ _ _ => true
  | _ => false

/-- width units the pc says the thread holds -/
def unitsOf : Pc → Nat
  | .run _ a | .running _ a => if a.isBar then 0 else 1
  | .runningA _ a k => (if a.isBar then 0 else 1) + k
  | .nbc _ _ => 1
  | .dInvoke (.units n) | .dLoopHead (.units n) | .dUpgrade n
  | .dLoopNext (.units n) | .dUnlock (.units n) _ => n
  | .dnbWidth ow _ _ | .dnbFin ow _ _ _ => ow
  | .dnbPop ow _ _ | .dPopNB ow => ow + 1
  | _ => 0

/-- inside _dispatch_lane_drain_non_barriers: the pending-barrier bit is known to be clear -/
def isDnb : Pc → Bool
  | .dnbWidth _ _ _ | .dnbPop _ _ _ | .dnbFin _ _ _ _ => true
  | _ => false

theorem holdsU_of_isDnb {pc : Pc} (h : isDnb pc = true) : holdsU pc = true := by
  cases pc <;> simp_all [isDnb, holdsU]

def isRunningB : Pc → Bool
  | .running _ a | .runningA _ a _ => a.isBar
  | _ => false

def isRunningN : Pc → Bool
  | .running _ a | .runningA _ a _ => !a.isBar
  | _ => false

def LockedB (d : Dq) (t : Tid) : Prop := d.O = some t ∧ d.B = true

structure G (W : Nat) (sh : Sh) : Prop where
  gW : sh.dq.u = (if sh.dq.B then (W : Int) else 0) + sh.holders.length + sh.redirects
          + (if sh.dq.pb then (W : Int) - 1 else 0)
  gB : sh.dq.B = true → sh.holders = [] ∧ sh.redirects = 0 ∧ sh.dq.pb = false
  sig : ∀ w, w ∈ sh.sigB → LockedB sh.dq w
  xf : ∀ w u, sh.xfer = some (w, u) → LockedB sh.dq w
  nodup : sh.sigB.Nodup
  xsig : ∀ w u, sh.xfer = some (w, u) → w ∉ sh.sigB

structure L (sh : Sh) (t : Tid) (pc : Pc) : Prop where
  ownB : holdsB pc = true → LockedB sh.dq t ∧ t ∉ sh.sigB ∧ ∀ u, sh.xfer ≠ some (t, u)
  ownU : holdsU pc = true → sh.dq.O = some t ∧ sh.dq.B = false
  cnt : sh.holders.count t = unitsOf pc + sh.sigN.count t
  sg : ∀ w k, pc = .dbwSignal w k → sh.xfer = some (w, t)
  npb : isDnb pc = true → sh.dq.pb = false

abbrev Post (W : Nat) (sh sh' : Sh) (t : Tid) (pc' : Pc) : Prop :=
  G W sh' ∧ L sh' t pc' ∧ ∀ t' q, t' ≠ t → L sh t' q → L sh' t' q

theorem lockedB_unique {d : Dq} {t t' : Tid} (h : LockedB d t) (h' : LockedB d t') : t = t' :=
  Option.some.inj (h.1.symm.trans h'.1)

/-- others: the step leaves owner, barrier bit, barrier signals and transfer ghost alone, and moves
    width units only consistently with the non-barrier signals -/
theorem others_keep {sh sh' : Sh} {t : Tid}
    (hO : sh'.dq.O = sh.dq.O) (hB : sh'.dq.B = sh.dq.B) (hs : ∀ u, u ≠ t → (u ∈ sh'.sigB ↔ u ∈ sh.sigB))
    (hx : sh'.xfer = sh.xfer)
    (hc : ∀ u, u ≠ t → sh'.holders.count u + sh.sigN.count u = sh.holders.count u + sh'.sigN.count u)
    (hpb : sh'.dq.pb = sh.dq.pb := by rfl) :
    ∀ t' q, t' ≠ t → L sh t' q → L sh' t' q := by
  intro t' q ne l
  refine ⟨?_, ?_, ?_, ?_, ?_⟩
  · intro h; have := l.ownB h; simp only [LockedB, hO, hB, hx, hs t' ne] at *; exact this
  · intro h; have := l.ownU h; simp only [hO, hB] at *; exact this
  · have := l.cnt; have := hc t' ne; omega
  · intro w k e; rw [hx]; exact l.sg w k e
  · intro h; rw [hpb]; exact l.npb h

/-- others: the stepping thread owns the drain lock (or nobody does) and rewrites the word -/
theorem others_own {sh sh' : Sh} {t : Tid}
    (ho : sh.dq.O = some t ∨ sh.dq.O = none) (hx : sh'.xfer = sh.xfer)
    (hc : ∀ u, u ≠ t → sh'.holders.count u + sh.sigN.count u = sh.holders.count u + sh'.sigN.count u) :
    ∀ t' q, t' ≠ t → L sh t' q → L sh' t' q := by
  intro t' q ne l
  have nb : holdsB q = false := by
    cases hq : holdsB q with
    | false => rfl
    | true =>
      have := (l.ownB hq).1.1
      rcases ho with ho | ho
      · rw [ho] at this; exact absurd (Option.some.inj this).symm ne
      · rw [ho] at this; simp at this
  have nu : holdsU q = false := by
    cases hq : holdsU q with
    | false => rfl
    | true =>
      have := (l.ownU hq).1
      rcases ho with ho | ho
      · rw [ho] at this; exact absurd (Option.some.inj this).symm ne
      · rw [ho] at this; simp at this
  refine ⟨?_, ?_, ?_, ?_, ?_⟩
  · intro h; simp [nb] at h
  · intro h; simp [nu] at h
  · have := l.cnt; have := hc t' ne; omega
  · intro w k e; rw [hx]; exact l.sg w k e
  · intro h; have := holdsU_of_isDnb h; simp [nu] at this

/-- everything the invariant reads -/
structure Key where
  u : Int
  B : Bool
  pb : Bool
  O : Option Tid
  holders : List Tid
  redirects : Nat
  sigB : List Tid
  sigN : List Tid
  xfer : Option (Tid × Tid)

def Sh.key (sh : Sh) : Key := ⟨sh.dq.u, sh.dq.B, sh.dq.pb, sh.dq.O, sh.holders, sh.redirects, sh.sigB, sh.sigN, sh.xfer⟩

theorem G_of_key {W : Nat} {sh sh' : Sh} (h : sh'.key = sh.key) (g : G W sh) : G W sh' := by
  simp [Sh.key] at h
  obtain ⟨hu, hB, hpb, hO, hh, hr, hsB, hsN, hx⟩ := h
  obtain ⟨gW, gB, gs, gx, gn, gxs⟩ := g
  refine ⟨?_, ?_, ?_, ?_, ?_, ?_⟩
  · rw [hu, hB, hpb, hh, hr]; exact gW
  · rw [hB, hpb, hh, hr]; exact gB
  · intro w hw; rw [hsB] at hw; have := gs w hw; simp only [LockedB, hO, hB] at *; exact this
  · intro w u hw; rw [hx] at hw; have := gx w u hw; simp only [LockedB, hO, hB] at *; exact this
  · rw [hsB]; exact gn
  · intro w u hw; rw [hx] at hw; rw [hsB]; exact gxs w u hw

theorem L_of_key {sh sh' : Sh} {t : Tid} {pc : Pc} (h : sh'.key = sh.key) (l : L sh t pc) : L sh' t pc := by
  simp [Sh.key] at h
  obtain ⟨hu, hB, hpb, hO, hh, hr, hsB, hsN, hx⟩ := h
  refine ⟨?_, ?_, ?_, ?_, ?_⟩
  · intro hb; have := l.ownB hb; simp only [LockedB, hO, hB, hsB, hx] at *; exact this
  · intro hb; have := l.ownU hb; simp only [hO, hB] at *; exact this
  · rw [hh, hsN]; exact l.cnt
  · intro w k e; rw [hx]; exact l.sg w k e
  · intro hb; rw [hpb]; exact l.npb hb

/-- a step that does not touch anything the invariant reads -/
theorem frame_step {W : Nat} {sh sh' : Sh} {t : Tid} {pc' : Pc} (g : G W sh)
    (hk : sh'.key = sh.key) (l' : L sh t pc') : Post W sh sh' t pc' :=
  ⟨G_of_key hk g, L_of_key hk l', fun _ _ _ h => L_of_key hk h⟩

/-- moving between two pcs with the same obligations -/
theorem L_same {sh : Sh} {t : Tid} {pc pc' : Pc} (l : L sh t pc)
    (hb : holdsB pc' = holdsB pc) (hu : holdsU pc' = holdsU pc) (hn : unitsOf pc' = unitsOf pc)
    (hs : ∀ w k, pc' ≠ .dbwSignal w k) (hd : isDnb pc' = isDnb pc := by rfl) : L sh t pc' :=
  ⟨fun h => l.ownB (hb ▸ h), fun h => l.ownU (hu ▸ h), by rw [hn]; exact l.cnt, fun w k e => absurd e (hs w k),
   fun h => l.npb (hd ▸ h)⟩

theorem G_frame {W : Nat} {sh sh' : Sh} (g : G W sh)
    (hu : sh'.dq.u = sh.dq.u) (hB : sh'.dq.B = sh.dq.B) (hpb : sh'.dq.pb = sh.dq.pb) (hO : sh'.dq.O = sh.dq.O)
    (hh : sh'.holders = sh.holders) (hr : sh'.redirects = sh.redirects) (hs : sh'.sigB = sh.sigB)
    (hx : sh'.xfer = sh.xfer) : G W sh' := by
  obtain ⟨gW, gB, gs, gx, gn, gxs⟩ := g
  refine ⟨?_, ?_, ?_, ?_, ?_, ?_⟩
  · rw [hu, hB, hpb, hh, hr]; exact gW
  · rw [hB, hpb, hh, hr]; exact gB
  · intro w hw; rw [hs] at hw; have := gs w hw; simp only [LockedB, hO, hB] at *; exact this
  · intro w u hw; rw [hx] at hw; have := gx w u hw; simp only [LockedB, hO, hB] at *; exact this
  · rw [hs]; exact gn
  · intro w u hw; rw [hx] at hw; rw [hs]; exact gxs w u hw

/-- nobody is a barrier owner / has a signal or transfer pending when the owner field is empty -/
theorem unowned_quiet {W : Nat} {sh : Sh} (g : G W sh) (hO : sh.dq.O = none) :
    sh.sigB = [] ∧ sh.xfer = none := by
  constructor
  · cases hs : sh.sigB with
    | nil => rfl
    | cons w _ => have := (g.sig w (by simp [hs])).1; rw [hO] at this; simp at this
  · cases hx : sh.xfer with
    | none => rfl
    | some p => have := (g.xf p.1 p.2 (by simp [hx])).1; rw [hO] at this; simp at this

/-- while a barrier owner is at a holding pc, no barrier signal and no transfer is pending -/
theorem ownerB_quiet {W : Nat} {sh : Sh} {t : Tid} {pc : Pc} (g : G W sh) (l : L sh t pc) (hh : holdsB pc = true) :
    sh.sigB = [] ∧ sh.xfer = none ∧ sh.holders = [] ∧ sh.redirects = 0 ∧ sh.dq.pb = false ∧ sh.dq.u = W := by
  obtain ⟨hl, hns, hnx⟩ := l.ownB hh
  have ⟨h1, h2, h3⟩ := g.gB hl.2
  refine ⟨?_, ?_, h1, h2, h3, ?_⟩
  · cases hs : sh.sigB with
    | nil => rfl
    | cons w _ =>
      have := lockedB_unique hl (g.sig w (by simp [hs])); subst this
      exact absurd (by simp [hs]) hns
  · cases hx : sh.xfer with
    | none => rfl
    | some p =>
      have := lockedB_unique hl (g.xf p.1 p.2 (by simp [hx])); subst this
      exact absurd hx (hnx p.2)
  · have := g.gW; simp [hl.2, h1, h2, h3] at this; exact this

end LaneW
