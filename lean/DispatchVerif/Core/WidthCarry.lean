import DispatchVerif.Generated.Consts
/-! C04 (F44, known finding): the reader count of a concurrent queue lives in the width field of `dq_state` - 12 bits from bit 41
    plus the WIDTH_FULL bit above them - directly below the IN_BARRIER bit. A queue of width `w` is idle at `WIDTH_FULL - w`; every
    reader adds one interval. Readers that come through `dispatch_sync` are not held back by the width (`_dispatch_queue_reserve_sync_width`
    in the drainer and in the recursion over targets is an unconditional add), so their number is bounded only by the number of
    threads. The constants are generated from `src/queue_internal.h`. -/
namespace WidthCarry
open Gen

/-- the width field and the FULL bit, as a number of intervals, with `n` readers inside a queue of width `w` -/
def field (w n : Nat) : Nat := DISPATCH_QUEUE_WIDTH_FULL - w + n

/-- those bits of `dq_state` -/
def word (w n : Nat) : Nat := field w n * DISPATCH_QUEUE_WIDTH_INTERVAL

/-- **below the limit the reader count never touches IN_BARRIER** -/
theorem readers_below_barrier (w n : Nat) (hw : w ≤ DISPATCH_QUEUE_WIDTH_FULL) (hn : DISPATCH_QUEUE_WIDTH_FULL - w + n < 2 * DISPATCH_QUEUE_WIDTH_FULL) :
    word w n < DISPATCH_QUEUE_IN_BARRIER := by
  unfold word field DISPATCH_QUEUE_WIDTH_FULL DISPATCH_QUEUE_WIDTH_INTERVAL DISPATCH_QUEUE_IN_BARRIER at *
  omega

/-- **F44**: with the widest queue (`DISPATCH_QUEUE_WIDTH_MAX` = 4094) the 8190th simultaneous reader makes the word exactly the
    IN_BARRIER bit: the queue reads as held by a barrier with no reader inside, and when readers leave, the borrow clears the bit
    again, which the leaving reader takes for "the barrier is mine to complete" -/
theorem F44_reader_count_carries :
    word 4094 8190 = DISPATCH_QUEUE_IN_BARRIER ∧ word 4094 8189 < DISPATCH_QUEUE_IN_BARRIER ∧
    (∀ n, n < 8190 → word 4094 n < DISPATCH_QUEUE_IN_BARRIER) := by
  refine ⟨by decide, by decide, ?_⟩
  intro n hn
  exact readers_below_barrier 4094 n (by decide) (by unfold DISPATCH_QUEUE_WIDTH_FULL; omega)

end WidthCarry
