/-! C20 calibration: Base64 encoder / decoder of transform.c as loops over bytes, round trip for
    every byte string. Bytes and characters are `Nat`s (< 256). -/
namespace B64

def encTbl : List Nat := [65, 66, 67, 68, 69, 70, 71, 72, 73, 74, 75, 76, 77, 78, 79, 80, 81, 82, 83, 84, 85, 86, 87, 88, 89, 90, 97, 98, 99, 100, 101, 102, 103, 104, 105, 106, 107, 108, 109, 110, 111, 112, 113, 114, 115, 116, 117, 118, 119, 120, 121, 122, 48, 49, 50, 51, 52, 53, 54, 55, 56, 57, 43, 47]
def decTbl : List Int := [-1, -1, -1, -1, -1, -1, -1, -1, -1, -1, -1, -1, -1, -1, -1, -1, -1, -1, -1, -1, -1, -1, -1, -1, -1, -1, -1, -1, -1, -1, -1, -1, -1, -1, -1, -1, -1, -1, -1, -1, -1, -1, -1, 62, -1, -1, -1, 63, 52, 53, 54, 55, 56, 57, 58, 59, 60, 61, -1, -1, -1, -2, -1, -1, -1, 0, 1, 2, 3, 4, 5, 6, 7, 8, 9, 10, 11, 12, 13, 14, 15, 16, 17, 18, 19, 20, 21, 22, 23, 24, 25, -1, -1, -1, -1, -1, -1, 26, 27, 28, 29, 30, 31, 32, 33, 34, 35, 36, 37, 38, 39, 40, 41, 42, 43, 44, 45, 46, 47, 48, 49, 50, 51]
def T (i : Nat) : Nat := encTbl.getD i 0
def D (c : Nat) : Int := decTbl.getD c (-1)
def decSize : Nat := 123

/-- _dispatch_transform_to_base64: `cnt` is the running byte count, `last` the previous byte -/
def encLoop : List Nat → Nat → Nat → List Nat
  | [], cnt, last =>
    match cnt % 3 with
    | 0 => []
    | 1 => [T ((last <<< 4) &&& 0x30), 61, 61]
    | _ => [T ((last <<< 2) &&& 0x3c), 61]
  | c :: r, cnt, last =>
    (match cnt % 3 with
     | 0 => [T ((c >>> 2) &&& 0x3f)]
     | 1 => [T (((last <<< 4) ||| (c >>> 4)) &&& 0x3f)]
     | _ => [T (((last <<< 2) ||| (c >>> 6)) &&& 0x3f), T (c &&& 0x3f)]) ++ encLoop r (cnt + 1) c

def encode (bs : List Nat) : List Nat := encLoop bs 0 0

structure DS where
  x : Nat := 0
  cnt : Nat := 0
  pad : Nat := 0
  out : List Nat := []

/-- one iteration of the decoder loop; none = `return false` -/
def decStep (s : DS) (ch : Nat) : Option DS :=
  if ch = 10 ∨ ch = 9 ∨ ch = 32 then some s
  else if ch ≥ decSize ∨ D ch = -1 then none
  else
    let cnt := s.cnt + 1
    let v : Nat := if D ch = -2 then 0 else (D ch).toNat
    let pad := if D ch = -2 then s.pad + 1 else s.pad
    let x := ((s.x <<< 6) + v) % 2 ^ 64
    if cnt &&& 3 = 0 then
      -- `ptr -= pad < 3 ? pad : 3; pad = 0;` : the padded bytes of this group are dropped
      some { x, cnt, pad := 0, out := s.out ++ [(x >>> 16) &&& 0xff, (x >>> 8) &&& 0xff, x &&& 0xff].take (3 - min pad 3) }
    else some { x, cnt, pad, out := s.out }

def decLoop : List Nat → DS → Option DS
  | [], s => some s
  | c :: r, s => match decStep s c with
    | none => none
    | some s' => decLoop r s'

/-- the bytes of the returned object (`final = ptr - dest`), for the text `cs` -/
def decode (cs : List Nat) : Option (List Nat) := (decLoop cs {}).map (·.out)

/-- over a fragmented input: `x`, `count`, `pad` are carried from region to region, every region appends
    the bytes it produced (`dispatch_data_create_concat`) -/
def decRegions : List (List Nat) → DS → Option DS
  | [], s => some s
  | r :: rs, s => match decLoop r s with
    | none => none
    | some s' => decRegions rs s'

/-! ### table facts (finite: by evaluation) -/

theorem T_valid : ∀ i, i < 64 → (T i ≠ 10 ∧ T i ≠ 9 ∧ T i ≠ 32) ∧ T i < decSize ∧ D (T i) = (i : Int) := by decide
theorem pad_char : (61 ≠ 10 ∧ 61 ≠ 9 ∧ 61 ≠ 32) ∧ 61 < decSize ∧ D 61 = -2 := by decide

/-! ### bit facts (one byte each: by evaluation) -/
theorem b_s0 : ∀ c, c < 256 → (c >>> 2) &&& 0x3f = c / 4 := by decide +kernel
theorem b_s3 : ∀ c, c < 256 → c &&& 0x3f = c % 64 := by decide +kernel
theorem b_l4 : ∀ c, c < 256 → (c <<< 4) &&& 0x3f = (c % 4) * 16 := by decide +kernel
theorem b_r4 : ∀ c, c < 256 → (c >>> 4) &&& 0x3f = c / 16 := by decide +kernel
theorem b_l2 : ∀ c, c < 256 → (c <<< 2) &&& 0x3f = (c % 16) * 4 := by decide +kernel
theorem b_r6 : ∀ c, c < 256 → (c >>> 6) &&& 0x3f = c / 64 := by decide +kernel
theorem b_p1 : ∀ c, c < 256 → (c <<< 4) &&& 0x30 = (c % 4) * 16 := by decide +kernel
theorem b_p2 : ∀ c, c < 256 → (c <<< 2) &&& 0x3c = (c % 16) * 4 := by decide +kernel
theorem or16 : ∀ p, p < 4 → ∀ q, q < 16 → p * 16 ||| q = p * 16 + q := by decide
theorem or4 : ∀ p, p < 16 → ∀ q, q < 4 → p * 4 ||| q = p * 4 + q := by decide

theorem s1_eq {l c : Nat} (hl : l < 256) (hc : c < 256) :
    ((l <<< 4) ||| (c >>> 4)) &&& 0x3f = (l % 4) * 16 + c / 16 := by
  rw [Nat.and_or_distrib_right, b_l4 l hl, b_r4 c hc]
  exact or16 _ (by omega) _ (by omega)

theorem s2_eq {l c : Nat} (hl : l < 256) (hc : c < 256) :
    ((l <<< 2) ||| (c >>> 6)) &&& 0x3f = (l % 16) * 4 + c / 64 := by
  rw [Nat.and_or_distrib_right, b_l2 l hl, b_r6 c hc]
  exact or4 _ (by omega) _ (by omega)

/-! ### the encoder, group by group -/

theorem enc_nil (cnt last : Nat) (h : cnt % 3 = 0) : encLoop [] cnt last = [] := by
  simp [encLoop, h]

theorem enc_one (a cnt last : Nat) (h : cnt % 3 = 0) (ha : a < 256) :
    encLoop [a] cnt last = [T (a / 4), T ((a % 4) * 16), 61, 61] := by
  have h1 : (cnt + 1) % 3 = 1 := by omega
  simp [encLoop, h, h1, b_s0 a ha, b_p1 a ha]

theorem enc_two (a b cnt last : Nat) (h : cnt % 3 = 0) (ha : a < 256) (hb : b < 256) :
    encLoop [a, b] cnt last = [T (a / 4), T ((a % 4) * 16 + b / 16), T ((b % 16) * 4), 61] := by
  have h1 : (cnt + 1) % 3 = 1 := by omega
  have h2 : (cnt + 1 + 1) % 3 = 2 := by omega
  simp [encLoop, h, h1, h2, b_s0 a ha, s1_eq ha hb, b_p2 b hb]

theorem enc_three (a b c : Nat) (r : List Nat) (cnt last : Nat) (h : cnt % 3 = 0)
    (ha : a < 256) (hb : b < 256) (hc : c < 256) :
    encLoop (a :: b :: c :: r) cnt last =
      [T (a / 4), T ((a % 4) * 16 + b / 16), T ((b % 16) * 4 + c / 64), T (c % 64)] ++ encLoop r (cnt + 3) c := by
  have h1 : (cnt + 1) % 3 = 1 := by omega
  have h2 : (cnt + 1 + 1) % 3 = 2 := by omega
  simp [encLoop, h, h1, h2, b_s0 a ha, s1_eq ha hb, s2_eq hb hc, b_s3 c hc]

/-! ### the decoder, character by character -/

/-- the body of the loop for an accepted character of value `v` -/
def push (s : DS) (v : Nat) (isPad : Bool) : DS :=
  let x := (s.x * 64 + v) % 2 ^ 64
  let pad := if isPad then s.pad + 1 else s.pad
  { x, cnt := s.cnt + 1, pad := if (s.cnt + 1) % 4 = 0 then 0 else pad,
    out := if (s.cnt + 1) % 4 = 0 then s.out ++ [(x / 65536) % 256, (x / 256) % 256, x % 256].take (3 - min pad 3) else s.out }

theorem and3 (n : Nat) : n &&& 3 = n % 4 := Nat.and_two_pow_sub_one_eq_mod n 2
theorem and255 (n : Nat) : n &&& 0xff = n % 256 := Nat.and_two_pow_sub_one_eq_mod n 8

theorem decStep_T (s : DS) (i : Nat) (hi : i < 64) : decStep s (T i) = some (push s i false) := by
  have ⟨⟨w1, w2, w3⟩, hs, hd⟩ := T_valid i hi
  have hd1 : D (T i) ≠ -1 := by rw [hd]; omega
  have hd2 : D (T i) ≠ -2 := by rw [hd]; omega
  have hlt : ¬ T i ≥ decSize := by omega
  simp only [decStep, w1, w2, w3, or_self, if_false, hlt, hd1, hd2, false_or]
  simp only [push, and3, and255, Nat.shiftLeft_eq, Nat.shiftRight_eq_div_pow, hd, Int.toNat_natCast]
  split <;> simp_all

theorem decStep_pad (s : DS) : decStep s 61 = some (push s 0 true) := by
  have ⟨⟨w1, w2, w3⟩, hs, hd⟩ := pad_char
  have hd1 : D 61 ≠ -1 := by rw [hd]; omega
  have hlt : ¬ 61 ≥ decSize := by omega
  simp only [decStep, w1, w2, w3, or_self, if_false, hlt, hd1, false_or]
  simp only [push, and3, and255, Nat.shiftLeft_eq, Nat.shiftRight_eq_div_pow, hd]
  split <;> simp_all

/-- four sextets pushed from a group boundary append the bytes they spell, minus one per pad character -/
theorem push4 (s : DS) (s0 s1 s2 s3 : Nat) (p2 p3 : Bool) (hc : s.cnt % 4 = 0) (hp : s.pad = 0)
    (h0 : s0 < 64) (h1 : s1 < 64) (h2 : s2 < 64) (h3 : s3 < 64) :
    let v := s0 * 262144 + s1 * 4096 + s2 * 64 + s3
    let s' := push (push (push (push s s0 false) s1 false) s2 p2) s3 p3
    s'.out = s.out ++ [v / 65536, (v / 256) % 256, v % 256].take (3 - ((if p2 then 1 else 0) + (if p3 then 1 else 0))) ∧
      s'.cnt = s.cnt + 4 ∧ s'.pad = 0 := by
  have c1 : ¬ (s.cnt + 1) % 4 = 0 := by omega
  have c2 : ¬ (s.cnt + 1 + 1) % 4 = 0 := by omega
  have c3 : ¬ (s.cnt + 1 + 1 + 1) % 4 = 0 := by omega
  have c4 : (s.cnt + 1 + 1 + 1 + 1) % 4 = 0 := by omega
  simp only [push, c1, c2, c3, c4, if_false, if_true, hp]
  refine ⟨?_, by simp <;> omega, trivial⟩
  generalize s.x = x
  have e : ((((x * 64 + s0) % 2 ^ 64 * 64 + s1) % 2 ^ 64 * 64 + s2) % 2 ^ 64 * 64 + s3) % 2 ^ 64 % 16777216
      = s0 * 262144 + s1 * 4096 + s2 * 64 + s3 := by omega
  generalize ((((x * 64 + s0) % 2 ^ 64 * 64 + s1) % 2 ^ 64 * 64 + s2) % 2 ^ 64 * 64 + s3) % 2 ^ 64 = y at e ⊢
  have e1 : y / 65536 % 256 = (s0 * 262144 + s1 * 4096 + s2 * 64 + s3) / 65536 := by omega
  have e2 : y / 256 % 256 = (s0 * 262144 + s1 * 4096 + s2 * 64 + s3) / 256 % 256 := by omega
  have e3 : y % 256 = (s0 * 262144 + s1 * 4096 + s2 * 64 + s3) % 256 := by omega
  rw [e1, e2, e3]
  cases p2 <;> cases p3 <;> simp

theorem decLoop_cons (c : Nat) (r : List Nat) (s s' : DS) (h : decStep s c = some s') :
    decLoop (c :: r) s = decLoop r s' := by simp [decLoop, h]

/-- decoding the encoder's output from a group boundary appends exactly the input bytes and ends on a
    group boundary with no padding pending -/
theorem dec_enc : ∀ (bs : List Nat), (∀ b ∈ bs, b < 256) → ∀ (cnt last : Nat) (s : DS),
    cnt % 3 = 0 → s.cnt % 4 = 0 → s.pad = 0 →
    ∃ s', decLoop (encLoop bs cnt last) s = some s' ∧ s'.out = s.out ++ bs ∧ s'.pad = 0 ∧ s'.cnt % 4 = 0
  | [], _, cnt, last, s, hc, hs, hp => ⟨s, by simp [enc_nil cnt last hc, decLoop], by simp, hp, hs⟩
  | [a], hb, cnt, last, s, hc, hs, hp => by
    have ha : a < 256 := hb a (by simp)
    rw [enc_one a cnt last hc ha]
    rw [decLoop_cons _ _ _ _ (decStep_T s _ (by omega)), decLoop_cons _ _ _ _ (decStep_T _ _ (by omega)),
      decLoop_cons _ _ _ _ (decStep_pad _), decLoop_cons _ _ _ _ (decStep_pad _)]
    have ⟨o, c, p⟩ := push4 s (a / 4) ((a % 4) * 16) 0 0 true true hs hp (by omega) (by omega) (by omega) (by omega)
    try simp only at o c p
    refine ⟨_, rfl, ?_, p, by rw [c]; omega⟩
    rw [o]; simp; omega
  | [a, b], hb, cnt, last, s, hc, hs, hp => by
    have ha : a < 256 := hb a (by simp)
    have hb' : b < 256 := hb b (by simp)
    rw [enc_two a b cnt last hc ha hb']
    rw [decLoop_cons _ _ _ _ (decStep_T s _ (by omega)), decLoop_cons _ _ _ _ (decStep_T _ _ (by omega)),
      decLoop_cons _ _ _ _ (decStep_T _ _ (by omega)), decLoop_cons _ _ _ _ (decStep_pad _)]
    have ⟨o, c, p⟩ := push4 s (a / 4) ((a % 4) * 16 + b / 16) ((b % 16) * 4) 0 false true hs hp
      (by omega) (by omega) (by omega) (by omega)
    try simp only at o c p
    refine ⟨_, rfl, ?_, p, by rw [c]; omega⟩
    rw [o]; simp; omega
  | a :: b :: c :: r, hb, cnt, last, s, hc, hs, hp => by
    have ha : a < 256 := hb a (by simp)
    have hb' : b < 256 := hb b (by simp)
    have hc' : c < 256 := hb c (by simp)
    rw [enc_three a b c r cnt last hc ha hb' hc']
    try simp only [List.cons_append, List.nil_append]
    rw [decLoop_cons _ _ _ _ (decStep_T s _ (by omega)), decLoop_cons _ _ _ _ (decStep_T _ _ (by omega)),
      decLoop_cons _ _ _ _ (decStep_T _ _ (by omega)), decLoop_cons _ _ _ _ (decStep_T _ _ (by omega))]
    have ⟨o, cn, p⟩ := push4 s (a / 4) ((a % 4) * 16 + b / 16) ((b % 16) * 4 + c / 64) (c % 64) false false hs hp
      (by omega) (by omega) (by omega) (by omega)
    try simp only at o cn p
    obtain ⟨s', e, eo, ep, ec⟩ := dec_enc r (fun x hx => hb x (by simp [hx])) (cnt + 3) c _ (by omega)
      (by rw [cn]; omega) p
    refine ⟨s', e, ?_, ep, ec⟩
    rw [eo, o]
    have e1 : (a / 4 * 262144 + (a % 4 * 16 + b / 16) * 4096 + (b % 16 * 4 + c / 64) * 64 + c % 64) / 65536 = a := by omega
    have e2 : (a / 4 * 262144 + (a % 4 * 16 + b / 16) * 4096 + (b % 16 * 4 + c / 64) * 64 + c % 64) / 256 % 256 = b := by omega
    have e3 : (a / 4 * 262144 + (a % 4 * 16 + b / 16) * 4096 + (b % 16 * 4 + c / 64) * 64 + c % 64) % 256 = c := by omega
    rw [e1, e2, e3]; simp

/-- **Base64 round trip**: for every byte string, decoding the encoder's output gives the input back. -/
theorem b64_roundtrip (bs : List Nat) (h : ∀ b ∈ bs, b < 256) : decode (encode bs) = some bs := by
  obtain ⟨s', e, eo, _, _⟩ := dec_enc bs h 0 0 {} rfl rfl rfl
  simp only [decode, encode, e, Option.map_some]
  rw [eo]; simp

/-! ### fragmentation: the carried state makes region boundaries invisible -/

theorem decLoop_append (a b : List Nat) (s : DS) :
    decLoop (a ++ b) s = (decLoop a s).bind (decLoop b) := by
  induction a generalizing s with
  | nil => simp [decLoop]
  | cons c r ih =>
    simp only [List.cons_append, decLoop]
    cases decStep s c with
    | none => simp
    | some s' => simp [ih]

/-- **the decoder does not depend on how the text is cut into regions** (including cuts inside a
    4-character group or inside the padding) -/
theorem decRegions_flatten (rs : List (List Nat)) (s : DS) : decRegions rs s = decLoop rs.flatten s := by
  induction rs generalizing s with
  | nil => simp [decRegions, decLoop]
  | cons r rs ih =>
    simp only [decRegions, List.flatten_cons, decLoop_append]
    cases decLoop r s with
    | none => simp
    | some s' => simp [ih]

/-- every write of the decoder is inside the `howmany(size, 4) * 3` bytes it allocated for the region, and
    `ptr` never moves below `dest`: the bytes a region produces (before the padding adjustment: 3 per completed
    group) fit, given that at most 3 characters are pending from earlier regions -/
theorem dec_region_bound (size carry : Nat) (hc : carry ≤ 3) :
    3 * ((carry + size) / 4) ≤ (size + 3) / 4 * 3 := by omega

end B64

section audit
open B64
#print axioms b64_roundtrip
/-- F4 (fixed): four pad characters decode to nothing; padding belongs to its group, also across regions -/
example : decode [61, 61, 61, 61] = some [] := by decide
example : (decRegions [[90, 109, 56, 61], [10]] {}).map (·.out) = some [102, 111] := by decide
example : (decRegions [[90, 109, 56, 61], [90, 109, 56, 61]] {}).map (·.out) = some [102, 111, 102, 111] := by decide
example : encode [102, 111] = [90, 109, 56, 61] := by decide   -- "fo" ↦ "Zm8="
end audit
