import DispatchVerif.Core.Utf16P
/-! C20 (UTF part): UTF-16 -> UTF-8 (`_dispatch_transform_from_utf16`, as repaired) written over absolute byte positions in
    the object, and the statement the property asks for: the result does not depend on how the input is cut into regions.
    Region `k` covers `[off, off + n)`; the loop body at position `pos` reads the unit at `pos` (from the region if both
    bytes are in it, through a two-byte mapped sub-range otherwise — the same two bytes of the object either way; a sub-range
    that is short, i.e. an odd byte at the very end, makes the transform fail), rejects a wrong-endian byte-order mark at position 0,
    and for a high surrogate the unit at `pos + 2` likewise. The new `skip` is how far the last unit consumed reaches into the
    following regions. `Utf16P` is the same loop written with the code's own indices; both are compared with the real
    library on every run. -/
namespace Utf16F
open Utf16P (look enc8)

inductive St where
  | emit (us : List Nat) (n : Nat)
  | fail
  deriving DecidableEq

inductive Res where
  | ok (out : List Nat) (skip : Nat)
  | fail
  deriving DecidableEq, Repr

/-- one iteration of the `for` body at absolute position `pos` -/
def step1 (be : Bool) (flat : List Nat) (pos : Nat) : St :=
  match look be flat pos with
  | none => .fail
  | some ch =>
    if ch = 0xfffe ∧ pos = 0 then .fail
    else if 0xd800 ≤ ch ∧ ch ≤ 0xdbff then
      match look be flat (pos + 2) with
      | none => .fail
      | some c2 =>
        if ¬ (0xdc00 ≤ c2 ∧ c2 ≤ 0xdfff) then .fail
        else .emit (enc8 ((ch - 0xd800) * 1024 + c2 % 1024 + 0x10000)) 4
    else if 0xdc00 ≤ ch ∧ ch ≤ 0xdfff then .fail
    else .emit (enc8 ch) 2

/-- run the body from `pos` until the end `e` of the current region is reached or passed -/
def runTo (be : Bool) (flat : List Nat) (e : Nat) : Nat → Nat → List Nat → Res
  | 0, pos, out => .ok out (pos - e)
  | fuel + 1, pos, out =>
    if e ≤ pos then .ok out (pos - e) else
    match step1 be flat pos with
    | .emit us n => runTo be flat e fuel (pos + n) (out ++ us)
    | .fail => .fail

/-- dispatch_data_apply over regions of the given lengths -/
def regionsF (be : Bool) (flat : List Nat) : Nat → List Nat → List Nat → Nat → Res
  | _, [], out, skip => .ok out skip
  | off, n :: ns, out, skip =>
    match runTo be flat (off + n) (off + n) (off + skip) out with
    | .ok out' skip' => regionsF be flat (off + n) ns out' skip'
    | e => e

def fromUtf16F (be : Bool) (flat : List Nat) (lens : List Nat) : Res := regionsF be flat 0 lens [] 0

theorem step1_pos {be : Bool} {flat : List Nat} {pos : Nat} {us : List Nat} {n : Nat}
    (h : step1 be flat pos = .emit us n) : 2 ≤ n := by
  unfold step1 at h
  split at h
  · cases h
  · split at h
    · cases h
    · split at h
      · split at h
        · cases h
        · split at h
          · cases h
          · injection h with _ h2; omega
      · split at h
        · cases h
        · injection h with _ h2; omega

/-- fuel beyond `e - pos` makes no difference -/
theorem runTo_fuel (be : Bool) (flat : List Nat) (e : Nat) : ∀ (f f' pos : Nat) (out : List Nat),
    e - pos ≤ f → e - pos ≤ f' → runTo be flat e f pos out = runTo be flat e f' pos out := by
  intro f
  induction f with
  | zero =>
    intro f' pos out h _
    cases f' with
    | zero => rfl
    | succ f' =>
      have : e ≤ pos := by omega
      simp [runTo, this]
  | succ f ih =>
    intro f' pos out h h'
    cases f' with
    | zero =>
      have : e ≤ pos := by omega
      simp [runTo, this]
    | succ f' =>
      simp only [runTo]
      by_cases he : e ≤ pos
      · simp [he]
      · simp only [he, if_false]
        cases hs : step1 be flat pos with
        | emit us n =>
          have := step1_pos hs
          exact ih f' (pos + n) (out ++ us) (by omega) (by omega)
        | fail => rfl

/-- a run stops at or after the position it started from -/
theorem runTo_stop_ge (be : Bool) (flat : List Nat) (e : Nat) : ∀ (f pos : Nat) (out : List Nat) {out' : List Nat} {s : Nat},
    runTo be flat e f pos out = .ok out' s → pos ≤ e + s ∧ (e ≤ pos → e + s = pos) := by
  intro f
  induction f with
  | zero => intro pos out out' s h; simp [runTo] at h; omega
  | succ f ih =>
    intro pos out out' s h
    simp only [runTo] at h
    by_cases he : e ≤ pos
    · simp [he] at h; omega
    · simp only [he, if_false] at h
      cases hs : step1 be flat pos with
      | emit us n =>
        rw [hs] at h
        have := ih (pos + n) (out ++ us) h
        omega
      | fail => rw [hs] at h; cases h

/-- stopping at an earlier boundary `e1` and resuming is the same as running to `e2` directly -/
theorem runTo_compose (be : Bool) (flat : List Nat) (e1 e2 : Nat) (h12 : e1 ≤ e2) : ∀ (f pos : Nat) (out : List Nat),
    e2 - pos ≤ f →
    runTo be flat e2 f pos out =
      (match runTo be flat e1 f pos out with
       | .ok out' s => runTo be flat e2 f (e1 + s) out'
       | r => r) := by
  intro f
  induction f with
  | zero =>
    intro pos out h
    have : e1 + (pos - e1) = pos := by omega
    simp [runTo, this]
  | succ f ih =>
    intro pos out h
    by_cases he1 : e1 ≤ pos
    · have : e1 + (pos - e1) = pos := by omega
      simp only [runTo, he1, if_true, this]
    · have he2 : ¬ e2 ≤ pos := by omega
      simp only [runTo, he1, he2, if_false]
      cases hs : step1 be flat pos with
      | emit us n =>
        have hn := step1_pos hs
        simp only []
        rw [ih (pos + n) (out ++ us) (by omega)]
        cases hr : runTo be flat e1 f (pos + n) (out ++ us) with
        | ok out' s =>
          simp only []
          have := runTo_stop_ge be flat e1 f (pos + n) (out ++ us) hr
          exact runTo_fuel be flat e2 f (f + 1) (e1 + s) out' (by omega) (by omega)
        | fail => rfl
      | fail => rfl

/-- the region loop is one run to the end of the last region -/
theorem regionsF_eq (be : Bool) (flat : List Nat) : ∀ (lens : List Nat) (off : Nat) (out : List Nat) (skip : Nat),
    (∀ n ∈ lens, 0 < n) →
    regionsF be flat off lens out skip =
      runTo be flat (off + lens.sum) (off + lens.sum) (off + skip) out := by
  intro lens
  induction lens with
  | nil =>
    intro off out skip _
    have : off + skip - off = skip := by omega
    cases off with
    | zero => simp [regionsF, runTo]
    | succ off => simp [regionsF, runTo, this]
  | cons n ns ih =>
    intro off out skip hp
    have hn : 0 < n := hp n (by simp)
    simp only [regionsF, List.sum_cons]
    rw [runTo_compose be flat (off + n) (off + (n + ns.sum)) (by omega) _ _ _ (by omega)]
    rw [runTo_fuel be flat (off + n) (off + n) (off + (n + ns.sum)) (off + skip) out (by omega) (by omega)]
    cases hr : runTo be flat (off + n) (off + (n + ns.sum)) (off + skip) out with
    | ok out' s =>
      simp only []
      rw [ih (off + n) out' s (fun m hm => hp m (by simp [hm]))]
      have : off + n + ns.sum = off + (n + ns.sum) := by omega
      rw [this]
    | fail => rfl

/-- **fragmentation independence** of the UTF-16 -> UTF-8 loop: every way of cutting the object into non-empty regions —
    inside a code unit, between the halves of a surrogate pair, inside the byte-order mark — gives the result of the
    single-region object, for arbitrary bytes -/
theorem frag_independent (be : Bool) (flat : List Nat) (lens : List Nat) (hne : lens ≠ [])
    (hp : ∀ n ∈ lens, 0 < n) (hsum : lens.sum = flat.length) :
    fromUtf16F be flat lens = fromUtf16F be flat [flat.length] := by
  have h1 := regionsF_eq be flat lens 0 [] 0 hp
  have h2 := regionsF_eq be flat [flat.length] 0 [] 0 (by
    intro n hn; simp at hn; subst hn
    cases lens with
    | nil => exact absurd rfl hne
    | cons a l => have := hp a (by simp); simp at hsum; omega)
  simp only [fromUtf16F, h1, h2, hsum, List.sum_cons, List.sum_nil, Nat.add_zero]

example : fromUtf16F false [0x61, 0, 0x62, 0, 0x63, 0, 0x64, 0] [1, 4, 3] = .ok [0x61, 0x62, 0x63, 0x64] 0 := by decide
example : fromUtf16F false [0x3d, 0xd8, 0x00, 0xde] [3, 1] = fromUtf16F false [0x3d, 0xd8, 0x00, 0xde] [4] := by decide
example : fromUtf16F false [0x3d, 0xd8, 0x00] [3] = .fail := by decide

end Utf16F
