import DispatchVerif.Core.Time
/-! C11: `_dispatch_timer_config_create` (src/source.c) - what `dispatch_source_set_timer(start, interval, leeway)` makes of its
    arguments: the clock and target decoded from `start` (NOW read from the clock), the interval clamped to [1, INT64_MAX], the
    leeway clamped to INT64_MAX and - for a repeating timer - to half the interval, the deadline `target + leeway` saturated at
    INT64_MAX. Whether the timer is armed at all (`_dispatch_timer_unote_needs_rearm`) depends on the target alone.
    The mach time unit is the nanosecond on this platform (`_dispatch_time_nano2mach` is the identity). -/
namespace TimerCfg
open TimeP

def I64MAX : Nat := 9223372036854775807

structure Cfg where
  clock : Clock
  target : Nat
  interval : Nat
  deadline : Nat
deriving DecidableEq

def clampInterval (interval : Nat) : Nat := if interval = 0 then 1 else if interval ≥ B63 then I64MAX else interval
def clampL0 (leeway : Nat) : Nat := if leeway ≥ B63 then I64MAX else leeway
def clampLeeway (interval leeway : Nat) : Nat :=
  if interval < I64MAX ∧ clampL0 leeway > interval / 2 then interval / 2 else clampL0 leeway

theorem clampL0_le (l : Nat) (hl : l < W) : clampL0 l ≤ I64MAX := by
  unfold clampL0 I64MAX B63; unfold W at hl; split <;> omega

theorem clampLeeway_le (iv l : Nat) (hl : l < W) : clampLeeway iv l ≤ I64MAX := by
  unfold clampLeeway
  by_cases h : iv < I64MAX ∧ clampL0 l > iv / 2
  · rw [if_pos h]; have := h.1; omega
  · rw [if_neg h]; exact clampL0_le l hl

theorem clampLeeway_half (iv l : Nat) (hiv : iv < I64MAX) : clampLeeway iv l ≤ iv / 2 := by
  unfold clampLeeway
  by_cases h : iv < I64MAX ∧ clampL0 l > iv / 2
  · rw [if_pos h]; exact Nat.le_refl _
  · rw [if_neg h]; exact Nat.le_of_not_gt (fun hb => h ⟨hiv, hb⟩)

/-- clock and target; `flagClock` is the clock the source already has (kept when the start is FOREVER) -/
def startOf (start : Nat) (flagClock : Clock) (nowUp nowMono nowWall : Nat) : Clock × Nat :=
  if start = FOREVER then (flagClock, I64MAX) else
  let cv := decode start nowWall
  (cv.1, if cv.2 = 0 then (if cv.1 = .up then nowUp else nowMono) else cv.2)

def config (start interval leeway : Nat) (flagClock : Clock) (nowUp nowMono nowWall : Nat) : Cfg :=
  let iv := clampInterval interval
  let lw := clampLeeway iv leeway
  let ct := startOf start flagClock nowUp nowMono nowWall
  let sum := (ct.2 + lw) % W                               -- uint64 addition
  { clock := ct.1, target := ct.2, interval := iv, deadline := if sum < I64MAX then sum else I64MAX }

/-- `_dispatch_timer_unote_needs_rearm`, the part that depends on the configuration -/
def armed (c : Cfg) : Bool := decide (c.target < I64MAX)

theorem interval_bounds (start interval leeway : Nat) (fc : Clock) (u m w : Nat) (hi : interval < W) :
    1 ≤ (config start interval leeway fc u m w).interval ∧ (config start interval leeway fc u m w).interval ≤ I64MAX := by
  simp only [config, clampInterval]
  unfold I64MAX B63 W at *
  split
  · omega
  · split <;> omega

/-- **target and clock do not depend on the leeway or the interval: a timer with a finite start is armed whatever its leeway** -/
theorem armed_whatever_leeway (start i l i' l' : Nat) (fc : Clock) (u m w : Nat) :
    armed (config start i l fc u m w) = armed (config start i' l' fc u m w) ∧
    (config start i l fc u m w).target = (config start i' l' fc u m w).target := ⟨rfl, rfl⟩

/-- **the deadline is never before the target and never beyond INT64_MAX; a repeating timer's deadline is at most half an interval
    after its target** - for every start, interval and leeway whose target is in range -/
theorem deadline_bounds (start interval leeway : Nat) (fc : Clock) (u m w : Nat) (hi : interval < W) (hl : leeway < W)
    (ht : (config start interval leeway fc u m w).target < I64MAX) :
    (config start interval leeway fc u m w).target ≤ (config start interval leeway fc u m w).deadline ∧
    (config start interval leeway fc u m w).deadline ≤ I64MAX ∧
    ((config start interval leeway fc u m w).interval < I64MAX →
      (config start interval leeway fc u m w).deadline - (config start interval leeway fc u m w).target ≤
        (config start interval leeway fc u m w).interval / 2) := by
  simp only [config] at *
  generalize (startOf start fc u m w).2 = t at *
  have hlw := clampLeeway_le (clampInterval interval) leeway hl
  have hlw2 := clampLeeway_half (clampInterval interval) leeway
  generalize clampLeeway (clampInterval interval) leeway = lw at *
  generalize clampInterval interval = iv at *
  have hs : (t + lw) % W = t + lw := by unfold I64MAX W at *; omega
  rw [hs]
  by_cases hc : t + lw < I64MAX
  · rw [if_pos hc]
    refine ⟨by omega, by omega, ?_⟩
    intro h; have := hlw2 h; omega
  · rw [if_neg hc]
    refine ⟨by omega, Nat.le_refl _, ?_⟩
    intro h; have := hlw2 h; omega

/-- the target is the decoded start itself (or the clock reading for NOW): never earlier than what was asked for -/
theorem clock_is_starts (start interval leeway : Nat) (fc : Clock) (u m w : Nat) (hs : start ≠ FOREVER) :
    (config start interval leeway fc u m w).clock = (decode start w).1 := by
  simp [config, startOf, hs]

theorem target_is_start (start interval leeway : Nat) (fc : Clock) (u m w : Nat) (hs : start ≠ FOREVER) (hv : (decode start w).2 ≠ 0) :
    (config start interval leeway fc u m w).target = (decode start w).2 := by
  simp [config, startOf, hs, hv]

/-- the answer line of the correspondence check -/
def answer (start interval leeway : Nat) (fc : Clock) (u m w : Nat) : String :=
  let c := config start interval leeway fc u m w
  let cn := match c.clock with | .up => 0 | .mono => 1 | .wall => 2
  s!"{cn} {c.target} {c.interval} {c.deadline}"

-- non-vacuity: a one-shot 5 s from an uptime of 1000 with an unbounded leeway: armed, deadline saturated; a repeating 100 ns timer
-- with a leeway of 1 s: the leeway is cut to 50
set_option maxRecDepth 1000000
example : (config 5000001000 FOREVER FOREVER .up 1000 0 0).target = 5000001000 ∧ (config 5000001000 FOREVER FOREVER .up 1000 0 0).deadline = I64MAX ∧
    armed (config 5000001000 FOREVER FOREVER .up 1000 0 0) = true := by
  simp [config, startOf, decode, clampInterval, clampLeeway, clampL0, armed, FOREVER, I64MAX, B63, B62, MAXV, W, WALLNOW]
example : (config 7000 100 1000000000 .up 1000 0 0).deadline = 7050 ∧ (config 7000 100 1000000000 .up 1000 0 0).interval = 100 := by
  simp [config, startOf, decode, clampInterval, clampLeeway, clampL0, FOREVER, I64MAX, B63, B62, MAXV, W, WALLNOW]

/-! ## interval sources (`_dispatch_interval_config_create`): `start = uptime + interval; start -= start % interval` -/
/-- the first fire of an interval source created at uptime `now` -/
def intervalStart (now iv : Nat) : Nat := (now + iv) - (now + iv) % iv
/-- rounding to the closest boundary instead (`uptime + interval / 2`, aligned down): what the first fire must not be -/
def closestStart (now iv : Nat) : Nat := (now + iv / 2) - (now + iv / 2) % iv

/-- the first fire is strictly after the creation, at most one interval later, and on a multiple of the interval -/
theorem intervalStart_spec (now iv : Nat) (h : 0 < iv) :
    now < intervalStart now iv ∧ intervalStart now iv ≤ now + iv ∧ intervalStart now iv % iv = 0 := by
  unfold intervalStart
  have hm : (now + iv) % iv < iv := Nat.mod_lt _ h
  have hle : (now + iv) % iv ≤ now + iv := Nat.mod_le _ _
  have hd : now + iv - (now + iv) % iv = iv * ((now + iv) / iv) := by
    have := Nat.div_add_mod (now + iv) iv; omega
  refine ⟨by omega, by omega, ?_⟩
  rw [hd]; exact Nat.mul_mod_right _ _
/-- rounding to the closest boundary puts the first fire of a source created in the first half of a period in the past -/
theorem closestStart_in_the_past : ∃ now iv, 0 < iv ∧ closestStart now iv ≤ now := ⟨10, 100, by decide⟩

end TimerCfg
