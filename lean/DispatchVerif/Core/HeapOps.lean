import DispatchVerif.Core.HeapP
/-! C11: the three operations of the timer heap (`_dispatch_timer_heap_insert / _remove / _update`, event.c) on one
    logical heap, written on top of `resift`, with preservation of heap order and of the contents. The physical
    array of the library holds two such heaps interleaved (targets at even slots, deadlines at odd ones); the check
    replays every real operation through these functions and compares every slot. -/
namespace HeapP

/-- insert: the new key is re-sifted from the new last slot `n`; the heap then has `n + 1` slots -/
def insert (a : Arr) (n x : Nat) : Arr := resift a (n + 1) n x

/-- remove the key in slot `k` of a heap with `n` slots: the last key is re-sifted into the vacated slot
    (unless the removed one was the last); the heap then has `n - 1` slots -/
def remove (a : Arr) (n k : Nat) : Arr := if k = n - 1 then a else resift a (n - 1) k (a (n - 1))

/-- re-key slot `k` in place -/
def update (a : Arr) (n k x : Nat) : Arr := resift a n k x

theorem H_mono {a : Arr} {n m : Nat} (h : H a n) (hm : m ≤ n) : H a m := fun j hj hjm => h j hj (by omega)

theorem insert_heap {a : Arr} {n : Nat} (x : Nat) (h : H a n) : H (insert a n x) (n + 1) := by
  apply resift_heap x (by omega)
  constructor
  · intro j hj hjn e1 _; exact h j hj (by omega)
  · intro c hc hcn hpc _
    rcases (par_child c n hc).mp hpc with e | e <;> omega

theorem remove_heap {a : Arr} {n k : Nat} (h : H a n) (hk : k < n) : H (remove a n k) (n - 1) := by
  unfold remove
  split
  · exact H_mono h (by omega)
  · exact resift_heap _ (by omega) (HE_of_H (H_mono h (by omega)) k (by omega))

theorem update_heap {a : Arr} {n k : Nat} (x : Nat) (h : H a n) (hk : k < n) : H (update a n k x) n :=
  resift_heap x hk (HE_of_H h k hk)

/-- after any of the three operations slot 0 holds a minimum of the live keys: what `dth_min` reports is the earliest -/
theorem min_after_insert {a : Arr} {n : Nat} (x : Nat) (h : H a n) : ∀ j, j < n + 1 → insert a n x 0 ≤ insert a n x j :=
  root_min (insert_heap x h)

theorem min_after_remove {a : Arr} {n k : Nat} (h : H a n) (hk : k < n) : ∀ j, j < n - 1 → remove a n k 0 ≤ remove a n k j :=
  root_min (remove_heap h hk)

theorem min_after_update {a : Arr} {n k : Nat} (x : Nat) (h : H a n) (hk : k < n) : ∀ j, j < n → update a n k x 0 ≤ update a n k x j :=
  root_min (update_heap x h hk)

/-- contents: insert adds exactly the new key -/
theorem insert_cnt (a : Arr) (n x v : Nat) : cnt (insert a n x) (n + 1) v + ind (a n = v) = cnt a (n + 1) v + ind (x = v) :=
  resift_cnt a (n + 1) n x v (by omega)

/-- contents: update replaces exactly the key of slot `k` -/
theorem update_cnt (a : Arr) (n k x v : Nat) (hk : k < n) : cnt (update a n k x) n v + ind (a k = v) = cnt a n v + ind (x = v) :=
  resift_cnt a n k x v hk

/-- contents: remove drops exactly the key of slot `k` (the last key takes its place) -/
theorem remove_cnt (a : Arr) (n k v : Nat) (hk : k < n) (hne : k ≠ n - 1) :
    cnt (remove a n k) (n - 1) v + ind (a k = v) = cnt a (n - 1) v + ind (a (n - 1) = v) := by
  unfold remove; rw [if_neg hne]
  exact resift_cnt a (n - 1) k (a (n - 1)) v (by omega)

end HeapP

namespace HeapP

/-! ## `dth_needs_program`: a root slot was written

`_dispatch_timer_heap_set` raises `dth_needs_program` whenever it stores into a root slot; the kernel timer is reprogrammed
only when the flag is up. The functions below say when `resift` stores into slot 0; the theorems say that while the flag
stays down the root — the key the kernel timer was programmed for — is unchanged. -/

/-- does the sift-up loop with the hole at `i` end by storing into slot 0 -/
def siftUpW (a : Arr) (i x : Nat) : Bool :=
  if h : i = 0 then true
  else if a (par i) ≤ x then false
  else siftUpW (set a i (a (par i))) (par i) x
termination_by i
decreasing_by unfold par; omega

/-- does `_dispatch_timer_heap_resift(dth, dt, idx)` store into the root slot (sift-down from `i` stores into slot `i` first) -/
def resiftW (a : Arr) (i x : Nat) : Bool :=
  if i ≠ 0 ∧ ¬ a (par i) ≤ x then siftUpW (set a i (a (par i))) (par i) x else decide (i = 0)

theorem siftUp_root : ∀ (i : Nat) (a : Arr) (x : Nat), siftUpW a i x = false → siftUp a i x 0 = a 0 := by
  intro i
  induction i using Nat.strongRecOn with
  | _ i ih =>
    intro a x hw
    unfold siftUpW at hw
    unfold siftUp
    split
    · rename_i h0; simp [h0] at hw
    · rename_i h0
      simp only [h0, dite_false] at hw
      split
      · exact set_other _ _ _ _ (by omega)
      · rename_i hgt
        simp only [hgt, if_false] at hw
        rw [ih (par i) (par_lt (Nat.pos_of_ne_zero h0)) _ x hw]
        exact set_other _ _ _ _ (by omega)

theorem siftDown_below (n : Nat) : ∀ (k i : Nat) (a : Arr) (x : Nat), n - i = k → ∀ j, j < i → siftDown a n i x j = a j := by
  intro k
  induction k using Nat.strongRecOn with
  | _ k ih =>
    intro i a x hk j hj
    unfold siftDown
    split
    · rename_i hc
      simp only []
      generalize hm : (if 2 * i + 1 + 1 < n ∧ a (2 * i + 1) > a (2 * i + 1 + 1) then 2 * i + 1 + 1 else 2 * i + 1) = m
      have hmi : i < m ∧ m < n := by split at hm <;> omega
      split
      · exact set_other _ _ _ _ (by omega)
      · rw [ih (n - m) (by omega) _ _ _ rfl j (by omega)]
        exact set_other _ _ _ _ (by omega)
    · exact set_other _ _ _ _ (by omega)

/-- **while `resift` does not raise the flag the root key is unchanged** -/
theorem resift_root (a : Arr) (n i x : Nat) (hw : resiftW a i x = false) : resift a n i x 0 = a 0 := by
  unfold resiftW at hw
  unfold resift
  split
  · rename_i h
    rw [if_pos h] at hw
    rw [siftUp_root _ _ _ hw]
    exact set_other _ _ _ _ (by omega)
  · rename_i h
    rw [if_neg h] at hw
    have hi : i ≠ 0 := by simpa using hw
    exact siftDown_below n (n - i) i a x rfl 0 (by omega)

/-- the flag for the three operations on one logical heap (the empty ↔ non-empty transitions raise it unconditionally) -/
def insertW (a : Arr) (n x : Nat) : Bool := n == 0 || resiftW a n x
def removeW (a : Arr) (n k : Nat) : Bool := n ≤ 1 || (if k = n - 1 then false else resiftW a k (a (n - 1)))
def updateW (a : Arr) (k x : Nat) : Bool := resiftW a k x

theorem insert_root (a : Arr) (n x : Nat) (hw : insertW a n x = false) : insert a n x 0 = a 0 := by
  simp only [insertW, Bool.or_eq_false_iff] at hw
  exact resift_root a (n + 1) n x hw.2

theorem remove_root (a : Arr) (n k : Nat) (hw : removeW a n k = false) : remove a n k 0 = a 0 := by
  simp only [removeW, Bool.or_eq_false_iff] at hw
  unfold remove
  split
  · rfl
  · rename_i h
    rw [if_neg h] at hw
    exact resift_root a (n - 1) k _ hw.2

theorem update_root (a : Arr) (n k x : Nat) (hw : updateW a k x = false) : update a n k x 0 = a 0 :=
  resift_root a n k x hw

/-- re-keying the root always raises the flag: an armed timer that is the earliest and is re-armed is always reprogrammed -/
theorem update_root_flag (a : Arr) (x : Nat) : updateW a 0 x = true := by simp [updateW, resiftW]

end HeapP
