import DispatchVerif.Core.HeapP
/-! C11: the three operations of the timer heap (`_dispatch_timer_heap_insert / _remove / _update`, event.c) on one
    logical heap, written on top of `resift`, with preservation of heap order and of the contents. The physical
    array of the library holds two such heaps interleaved (targets at even slots, deadlines at odd ones); the check
    replays every real operation through these functions and compares every slot. -/
namespace HeapP

/-- insert: the new key is re-sifted from the new last slot `n`; the heap then has `n + 1` slots -/
def insert (a : Arr) (n x : Nat) : Arr := resift a (n + 1) n x

/-- remove the key in slot `k` of a heap with `n` slots: the last key is re-sifted into the vacated slot
    (unless the removed one was the last); the heap then has `n - 1` slots -/
def remove (a : Arr) (n k : Nat) : Arr := if k = n - 1 then a else resift a (n - 1) k (a (n - 1))

/-- re-key slot `k` in place -/
def update (a : Arr) (n k x : Nat) : Arr := resift a n k x

theorem H_mono {a : Arr} {n m : Nat} (h : H a n) (hm : m ≤ n) : H a m := fun j hj hjm => h j hj (by omega)

theorem insert_heap {a : Arr} {n : Nat} (x : Nat) (h : H a n) : H (insert a n x) (n + 1) := by
  apply resift_heap x (by omega)
  constructor
  · intro j hj hjn e1 _; exact h j hj (by omega)
  · intro c hc hcn hpc _
    rcases (par_child c n hc).mp hpc with e | e <;> omega

theorem remove_heap {a : Arr} {n k : Nat} (h : H a n) (hk : k < n) : H (remove a n k) (n - 1) := by
  unfold remove
  split
  · exact H_mono h (by omega)
  · exact resift_heap _ (by omega) (HE_of_H (H_mono h (by omega)) k (by omega))

theorem update_heap {a : Arr} {n k : Nat} (x : Nat) (h : H a n) (hk : k < n) : H (update a n k x) n :=
  resift_heap x hk (HE_of_H h k hk)

/-- after any of the three operations slot 0 holds a minimum of the live keys: what `dth_min` reports is the earliest -/
theorem min_after_insert {a : Arr} {n : Nat} (x : Nat) (h : H a n) : ∀ j, j < n + 1 → insert a n x 0 ≤ insert a n x j :=
  root_min (insert_heap x h)

theorem min_after_remove {a : Arr} {n k : Nat} (h : H a n) (hk : k < n) : ∀ j, j < n - 1 → remove a n k 0 ≤ remove a n k j :=
  root_min (remove_heap h hk)

theorem min_after_update {a : Arr} {n k : Nat} (x : Nat) (h : H a n) (hk : k < n) : ∀ j, j < n → update a n k x 0 ≤ update a n k x j :=
  root_min (update_heap x h hk)

/-- contents: insert adds exactly the new key -/
theorem insert_cnt (a : Arr) (n x v : Nat) : cnt (insert a n x) (n + 1) v + ind (a n = v) = cnt a (n + 1) v + ind (x = v) :=
  resift_cnt a (n + 1) n x v (by omega)

/-- contents: update replaces exactly the key of slot `k` -/
theorem update_cnt (a : Arr) (n k x v : Nat) (hk : k < n) : cnt (update a n k x) n v + ind (a k = v) = cnt a n v + ind (x = v) :=
  resift_cnt a n k x v hk

/-- contents: remove drops exactly the key of slot `k` (the last key takes its place) -/
theorem remove_cnt (a : Arr) (n k v : Nat) (hk : k < n) (hne : k ≠ n - 1) :
    cnt (remove a n k) (n - 1) v + ind (a k = v) = cnt a (n - 1) v + ind (a (n - 1) = v) := by
  unfold remove; rw [if_neg hne]
  exact resift_cnt a (n - 1) k (a (n - 1)) v (by omega)

end HeapP
