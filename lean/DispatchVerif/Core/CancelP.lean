/-! C16 calibration, layer (ii): cancellation racing event delivery. The source's own lane gives
    mutual exclusion between invocations (C02), abstracted here as an owner field taken atomically;
    mergers and cancellers are arbitrary other threads. -/
namespace CancelP

abbrev Tid := Nat

inductive Op | merge | cancel | invoke
inductive Pc
  | idle
  | iRegH                      -- owns the source lane: inside the registration handler (client code; first invocation)
  | iRead                      -- owns the source lane, about to read the flags
  | iLatched                   -- read "not cancelled" and pending ≠ 0: committed to call the event handler
  | iHandler                   -- inside the event handler
  | iReread                    -- back from the handler (or skipped it): re-reads the flags
  | iUnreg                     -- saw CANCELED ∧ ¬DELETED: unregisters
  | iCallout                   -- saw CANCELED ∧ DELETED: takes the cancel handler
  | iCancelH                   -- inside the cancel handler
  | iDone                      -- about to release the lane
deriving DecidableEq

structure Sh where
  canceled : Bool := false
  deleted : Bool := false
  pending : Nat := 0
  cancelH : Bool := true       -- the cancel handler continuation is still installed
  owner : Option Tid := none
  -- ghosts
  latched : Bool := false          -- an invocation is between its latch and its callout
  inHandler : Bool := false        -- an event handler invocation is running
  evStarts : Nat := 0              -- event handler invocations started
  evStartsAtCancel : Option Nat := none   -- evStarts when DSF_CANCELED was set
  committedAtCancel : Bool := false       -- an invocation had already latched at that moment
  cancelStarts : Nat := 0          -- cancel handler invocations
  evStartsAtCallout : Option Nat := none  -- evStarts when the cancel handler was taken

def stepCore (sh : Sh) (t : Tid) (pc : Pc) (op : Op) : List (Sh × Pc) :=
  match pc with
  | .idle =>
    match op with
    | .merge => if sh.canceled then [(sh, .idle)] else [({ sh with pending := sh.pending + 1 }, .idle)]
    | .cancel =>
      if sh.canceled then [(sh, .idle)]
      else [({ sh with canceled := true, evStartsAtCancel := some sh.evStarts, committedAtCancel := sh.latched }, .idle)]
    | .invoke => if sh.owner.isNone then [({ sh with owner := some t }, .iRegH), ({ sh with owner := some t }, .iRead)] else []
  | .iRegH =>
    -- the registration handler returns; it may have cancelled its own source. The flags are (re)read afterwards.
    [(sh, .iRead),
     (if sh.canceled then sh
      else { sh with canceled := true, evStartsAtCancel := some sh.evStarts, committedAtCancel := false }, .iRead)]
  | .iRead =>
    if !sh.canceled && sh.pending > 0 then [({ sh with pending := 0, latched := true }, .iLatched)]   -- xchg(pending, 0)
    else [(sh, .iReread)]
  | .iLatched => [({ sh with evStarts := sh.evStarts + 1, latched := false, inHandler := true }, .iHandler)]
  | .iHandler =>
    -- the handler returns; it may have cancelled its own source
    [({ sh with inHandler := false }, .iReread),
     (if sh.canceled then { sh with inHandler := false }
      else { sh with inHandler := false, canceled := true, evStartsAtCancel := some sh.evStarts, committedAtCancel := false },
      .iReread)]
  | .iReread =>
    if sh.canceled && !sh.deleted then [(sh, .iUnreg)]
    else if sh.canceled && sh.deleted then [(sh, .iCallout)]
    else [(sh, .iDone)]
  | .iUnreg => [({ sh with deleted := true }, .iCallout)]
  | .iCallout =>
    if sh.cancelH then [({ sh with cancelH := false, pending := 0, cancelStarts := sh.cancelStarts + 1,
                                    evStartsAtCallout := some sh.evStarts }, .iCancelH)]
    else [({ sh with pending := 0 }, .iDone)]
  | .iCancelH => [(sh, .iDone)]
  | .iDone => [({ sh with owner := none }, .idle)]

/-- the points at which `_dispatch_source_invoke2` may return without going further: it is not on the queue the next
    action needs (redirect to the manager / target queue), or the kernel unregistration is deferred -/
def canLeave : Pc → Bool
  | .iRead | .iReread | .iUnreg | .iCallout => true
  | _ => false

def step (sh : Sh) (t : Tid) (pc : Pc) (op : Op) : List (Sh × Pc) :=
  stepCore sh t pc op ++ (if canLeave pc then [(sh, .iDone)] else [])

structure St where
  sh : Sh
  pcs : Tid → Pc

inductive Step : St → St → Prop
  | mk (s : St) (t : Tid) (op : Op) (sh' : Sh) (pc' : Pc)
      (h : (sh', pc') ∈ step s.sh t (s.pcs t) op) :
      Step s { sh := sh', pcs := fun t' => if t' = t then pc' else s.pcs t' }

inductive Reachable : St → Prop
  | init : Reachable { sh := {}, pcs := fun _ => .idle }
  | step {s s'} : Reachable s → Step s s' → Reachable s'

def owns : Pc → Bool
  | .idle => false
  | _ => true

def b2n (b : Bool) : Nat := if b then 1 else 0

structure G (sh : Sh) : Prop where
  g1 : sh.evStartsAtCancel.isSome = sh.canceled
  g2 : ∀ n, sh.evStartsAtCancel = some n → sh.evStarts + b2n sh.latched = n + b2n sh.committedAtCancel
  g3 : sh.deleted = true → sh.canceled = true
  g4 : sh.cancelH = true → sh.cancelStarts = 0 ∧ sh.evStartsAtCallout = none
  g5 : sh.cancelH = false → sh.cancelStarts = 1 ∧ sh.canceled = true ∧ sh.deleted = true ∧
        sh.evStartsAtCallout = some sh.evStarts ∧ sh.latched = false ∧ sh.inHandler = false
  g6 : sh.owner = none → sh.latched = false ∧ sh.inHandler = false

structure L (sh : Sh) (t : Tid) (pc : Pc) : Prop where
  own : owns pc = true ↔ sh.owner = some t
  lt : sh.owner = some t → (sh.latched = true ↔ pc = .iLatched)
  ih : sh.owner = some t → (sh.inHandler = true ↔ pc = .iHandler)
  cal : (pc = .iCallout ∨ pc = .iCancelH) → sh.canceled = true ∧ sh.deleted = true
  unr : pc = .iUnreg → sh.canceled = true
  pre : (pc = .iLatched ∨ pc = .iHandler) → sh.cancelH = true

abbrev Post (sh sh' : Sh) (t : Tid) (pc' : Pc) : Prop :=
  G sh' ∧ L sh' t pc' ∧ ∀ t' q, t' ≠ t → L sh t' q → L sh' t' q

/-- a step of the lane owner t (or one that takes / releases the lane) leaves other threads' claims
    intact: they are not owners, so all their owner-conditional claims are vacuous -/
theorem others_owner {sh sh' : Sh} {t : Tid} (ho : sh.owner = some t ∨ sh.owner = none)
    (ho' : sh'.owner = some t ∨ sh'.owner = none) : ∀ t' q, t' ≠ t → L sh t' q → L sh' t' q := by
  intro t' q ne l
  have nown : owns q = false := by
    cases hq : owns q with
    | false => rfl
    | true =>
      have := l.own.mp hq
      rcases ho with h | h <;> rw [h] at this
      · exact absurd (Option.some.inj this).symm ne
      · cases this
  have hq : q = .idle := by cases q <;> simp_all [owns]
  subst hq
  have no' : sh'.owner ≠ some t' := by
    rcases ho' with h | h <;> rw [h] <;> simp <;> exact fun e => ne e.symm
  exact ⟨by simp [owns, no'], fun h => absurd h no', fun h => absurd h no', (by intro h; rcases h with h | h <;> cases h),
    (by intro h; cases h), (by intro h; rcases h with h | h <;> cases h)⟩

/-- a step of a non-owner (merge, cancel) that keeps owner / latched / inHandler / cancelH / deleted and
    only raises `canceled` -/
theorem others_client {sh sh' : Sh} {t : Tid} (h1 : sh'.owner = sh.owner) (h2 : sh'.latched = sh.latched)
    (h3 : sh'.inHandler = sh.inHandler) (h4 : sh'.cancelH = sh.cancelH) (h5 : sh'.deleted = sh.deleted)
    (h6 : sh.canceled = true → sh'.canceled = true) : ∀ t' q, t' ≠ t → L sh t' q → L sh' t' q := by
  intro t' q _ l
  exact ⟨by rw [h1]; exact l.own, by rw [h1, h2]; exact l.lt, by rw [h1, h3]; exact l.ih,
    fun h => ⟨h6 (l.cal h).1, by rw [h5]; exact (l.cal h).2⟩, fun h => h6 (l.unr h), fun h => by rw [h4]; exact l.pre h⟩

/-- new claims of the owner t at an owner pc that is neither latched nor in the handler -/
theorem L_owner {sh' : Sh} {t : Tid} {pc' : Pc} (ho : sh'.owner = some t) (hown : owns pc' = true)
    (hl : sh'.latched = false) (hi : sh'.inHandler = false) (hn1 : pc' ≠ .iLatched) (hn2 : pc' ≠ .iHandler)
    (hcal : (pc' = .iCallout ∨ pc' = .iCancelH) → sh'.canceled = true ∧ sh'.deleted = true)
    (hunr : pc' = .iUnreg → sh'.canceled = true) : L sh' t pc' :=
  ⟨by simp [hown, ho], fun _ => by simp [hl, hn1], fun _ => by simp [hi, hn2], hcal, hunr,
   fun h => by rcases h with h | h; exact absurd h hn1; exact absurd h hn2⟩

set_option maxHeartbeats 4000000 in
theorem step_local_core {sh : Sh} {t : Tid} {pc : Pc} {op : Op} {sh' : Sh} {pc' : Pc}
    (g : G sh) (l : L sh t pc) (h : (sh', pc') ∈ stepCore sh t pc op) : Post sh sh' t pc' := by
  obtain ⟨g1, g2, g3, g4, g5, g6⟩ := g
  have lown := l.own
  cases pc with
  | idle =>
    have hno : sh.owner ≠ some t := by intro e; have := lown.mpr e; simp [owns] at this
    have lidle : ∀ (s2 : Sh), s2.owner = sh.owner → L s2 t .idle := by
      intro s2 e
      exact ⟨by simp [owns, e, hno], fun h => absurd (e ▸ h) hno, fun h => absurd (e ▸ h) hno,
        (by intro h; rcases h with h | h <;> cases h), (by intro h; cases h), (by intro h; rcases h with h | h <;> cases h)⟩
    cases op with
    | merge =>
      simp only [stepCore] at h
      split at h <;> (simp at h; obtain ⟨rfl, rfl⟩ := h; exact ⟨⟨g1, g2, g3, g4, g5, g6⟩, lidle _ rfl, others_client rfl rfl rfl rfl rfl (fun x => x)⟩)
    | cancel =>
      simp only [stepCore] at h
      split at h
      · simp at h; obtain ⟨rfl, rfl⟩ := h
        exact ⟨⟨g1, g2, g3, g4, g5, g6⟩, lidle _ rfl, others_client rfl rfl rfl rfl rfl (fun x => x)⟩
      · rename_i hc
        have hc' : sh.canceled = false := by cases hx : sh.canceled <;> simp_all
        simp at h; obtain ⟨rfl, rfl⟩ := h
        refine ⟨⟨rfl, ?_, fun _ => rfl, g4, ?_, g6⟩, lidle _ rfl, others_client rfl rfl rfl rfl rfl (fun _ => rfl)⟩
        · intro n e; simp at e; subst e; rfl
        · intro hh; have := (g5 hh).2.1; rw [hc'] at this; cases this
    | invoke =>
      simp only [stepCore] at h
      split at h
      · rename_i hn
        have hn' : sh.owner = none := by cases ho : sh.owner <;> simp_all
        have ⟨hl0, hi0⟩ := g6 hn'
        simp at h
        rcases h with ⟨rfl, rfl⟩ | ⟨rfl, rfl⟩
        · refine ⟨⟨g1, g2, g3, g4, g5, by intro e; cases e⟩,
            L_owner rfl rfl hl0 hi0 (by simp) (by simp) (by intro h; rcases h with h | h <;> cases h) (by intro h; cases h),
            others_owner (Or.inr hn') (Or.inl rfl)⟩
        · refine ⟨⟨g1, g2, g3, g4, g5, by intro e; cases e⟩,
            L_owner rfl rfl hl0 hi0 (by simp) (by simp) (by intro h; rcases h with h | h <;> cases h) (by intro h; cases h),
            others_owner (Or.inr hn') (Or.inl rfl)⟩
      · simp at h
  | iRegH =>
    have ho : sh.owner = some t := lown.mp rfl
    have hl0 : sh.latched = false := by
      cases hx : sh.latched with
      | false => rfl
      | true => have := (l.lt ho).mp hx; cases this
    have hi0 : sh.inHandler = false := by
      cases hx : sh.inHandler with
      | false => rfl
      | true => have := (l.ih ho).mp hx; cases this
    simp only [stepCore, List.mem_cons, Prod.mk.injEq, List.mem_nil_iff, or_false] at h
    have keepL : ∀ (s2 : Sh), s2.owner = sh.owner → s2.latched = sh.latched → s2.inHandler = sh.inHandler → L s2 t .iRead := by
      intro s2 e1 e2 e3
      exact L_owner (e1 ▸ ho) rfl (e2 ▸ hl0) (e3 ▸ hi0) (by simp) (by simp) (by intro h; rcases h with h | h <;> cases h) (by intro h; cases h)
    rcases h with ⟨rfl, rfl⟩ | ⟨h1, rfl⟩
    · exact ⟨⟨g1, g2, g3, g4, g5, g6⟩, keepL _ rfl rfl rfl, others_owner (Or.inl ho) (Or.inl ho)⟩
    · by_cases hc : sh.canceled = true
      · rw [if_pos hc] at h1; subst h1
        exact ⟨⟨g1, g2, g3, g4, g5, g6⟩, keepL _ rfl rfl rfl, others_owner (Or.inl ho) (Or.inl ho)⟩
      · rw [if_neg hc] at h1; subst h1
        have hc' : sh.canceled = false := by cases hx : sh.canceled <;> simp_all
        refine ⟨⟨rfl, ?_, fun _ => rfl, g4, ?_, by intro e; rw [ho] at e; cases e⟩, keepL _ rfl rfl rfl,
          others_owner (Or.inl ho) (Or.inl ho)⟩
        · intro n e; simp at e; subst e; simp [hl0, b2n]
        · intro hh; have := (g5 hh).2.1; rw [hc'] at this; cases this
  | iRead =>
    have ho : sh.owner = some t := lown.mp rfl
    have hl0 : sh.latched = false := by
      cases hx : sh.latched with
      | false => rfl
      | true => have := (l.lt ho).mp hx; cases this
    have hi0 : sh.inHandler = false := by
      cases hx : sh.inHandler with
      | false => rfl
      | true => have := (l.ih ho).mp hx; cases this
    simp only [stepCore] at h
    split at h
    · rename_i hc
      have hnc : sh.canceled = false := by simp at hc; exact hc.1
      have hch : sh.cancelH = true := by
        cases hx : sh.cancelH with
        | true => rfl
        | false => have := (g5 hx).2.1; rw [hnc] at this; cases this
      simp at h; obtain ⟨rfl, rfl⟩ := h
      refine ⟨⟨g1, ?_, g3, g4, (by intro hh; rw [hch] at hh; cases hh), by intro e; rw [ho] at e; cases e⟩, ?_, others_owner (Or.inl ho) (Or.inl ho)⟩
      · intro n e; have := g1; rw [e, hnc] at this; cases this
      · exact ⟨by simp [owns, ho], fun _ => by simp, fun _ => by simp [hi0], (by intro h; rcases h with h | h <;> cases h),
          (by intro h; cases h), fun _ => hch⟩
    · simp at h; obtain ⟨rfl, rfl⟩ := h
      exact ⟨⟨g1, g2, g3, g4, g5, g6⟩,
        L_owner ho rfl hl0 hi0 (by simp) (by simp) (by intro h; rcases h with h | h <;> cases h) (by intro h; cases h),
        others_owner (Or.inl ho) (Or.inl ho)⟩
  | iLatched =>
    have ho : sh.owner = some t := lown.mp rfl
    have hlat : sh.latched = true := (l.lt ho).mpr rfl
    have hch := l.pre (Or.inl rfl)
    simp [stepCore] at h; obtain ⟨rfl, rfl⟩ := h
    refine ⟨⟨g1, ?_, g3, g4, (by intro hh; rw [hch] at hh; cases hh), by intro e; rw [ho] at e; cases e⟩, ?_, others_owner (Or.inl ho) (Or.inl ho)⟩
    · intro n e; have := g2 n e; simp [hlat, b2n] at this ⊢; omega
    · exact ⟨by simp [owns, ho], fun _ => by simp, fun _ => by simp, (by intro h; rcases h with h | h <;> cases h),
        (by intro h; cases h), fun _ => hch⟩
  | iHandler =>
    have ho : sh.owner = some t := lown.mp rfl
    have hih : sh.inHandler = true := (l.ih ho).mpr rfl
    have hl0 : sh.latched = false := by
      cases hx : sh.latched with
      | false => rfl
      | true => have := (l.lt ho).mp hx; cases this
    have hch := l.pre (Or.inr rfl)
    simp only [stepCore, List.mem_cons, Prod.mk.injEq, List.mem_nil_iff, or_false] at h
    have keepG : G { sh with inHandler := false } :=
      ⟨g1, g2, g3, g4, (by intro hh; rw [hch] at hh; cases hh), by intro e; rw [ho] at e; cases e⟩
    have keepL : L { sh with inHandler := false } t .iReread :=
      L_owner ho rfl hl0 rfl (by simp) (by simp) (by intro h; rcases h with h | h <;> cases h) (by intro h; cases h)
    rcases h with ⟨rfl, rfl⟩ | ⟨h1, rfl⟩
    · exact ⟨keepG, keepL, others_owner (Or.inl ho) (Or.inl ho)⟩
    · by_cases hc : sh.canceled = true
      · rw [if_pos hc] at h1; subst h1
        exact ⟨keepG, keepL, others_owner (Or.inl ho) (Or.inl ho)⟩
      · rw [if_neg hc] at h1; subst h1
        refine ⟨⟨rfl, ?_, fun _ => rfl, g4, (by intro hh; rw [hch] at hh; cases hh), by intro e; rw [ho] at e; cases e⟩,
          L_owner ho rfl hl0 rfl (by simp) (by simp) (by intro h; rcases h with h | h <;> cases h) (by intro h; cases h),
          others_owner (Or.inl ho) (Or.inl ho)⟩
        intro n e; simp at e; subst e; simp [hl0, b2n]
  | iReread =>
    have ho : sh.owner = some t := lown.mp rfl
    have hl0 : sh.latched = false := by
      cases hx : sh.latched with
      | false => rfl
      | true => have := (l.lt ho).mp hx; cases this
    have hi0 : sh.inHandler = false := by
      cases hx : sh.inHandler with
      | false => rfl
      | true => have := (l.ih ho).mp hx; cases this
    simp only [stepCore] at h
    split at h
    · rename_i hc
      simp at hc
      simp at h; obtain ⟨rfl, rfl⟩ := h
      exact ⟨⟨g1, g2, g3, g4, g5, g6⟩,
        L_owner ho rfl hl0 hi0 (by simp) (by simp) (by intro h; rcases h with h | h <;> cases h) (fun _ => hc.1),
        others_owner (Or.inl ho) (Or.inl ho)⟩
    · split at h
      · rename_i _ hc
        simp at hc
        simp at h; obtain ⟨rfl, rfl⟩ := h
        exact ⟨⟨g1, g2, g3, g4, g5, g6⟩,
          L_owner ho rfl hl0 hi0 (by simp) (by simp) (fun _ => hc) (by intro h; cases h),
          others_owner (Or.inl ho) (Or.inl ho)⟩
      · simp at h; obtain ⟨rfl, rfl⟩ := h
        exact ⟨⟨g1, g2, g3, g4, g5, g6⟩,
          L_owner ho rfl hl0 hi0 (by simp) (by simp) (by intro h; rcases h with h | h <;> cases h) (by intro h; cases h),
          others_owner (Or.inl ho) (Or.inl ho)⟩
  | iUnreg =>
    have ho : sh.owner = some t := lown.mp rfl
    have hc := l.unr rfl
    have hl0 : sh.latched = false := by
      cases hx : sh.latched with
      | false => rfl
      | true => have := (l.lt ho).mp hx; cases this
    have hi0 : sh.inHandler = false := by
      cases hx : sh.inHandler with
      | false => rfl
      | true => have := (l.ih ho).mp hx; cases this
    simp [stepCore] at h; obtain ⟨rfl, rfl⟩ := h
    refine ⟨⟨g1, g2, fun _ => hc, g4, ?_, g6⟩,
      L_owner ho rfl hl0 hi0 (by simp) (by simp) (fun _ => ⟨hc, rfl⟩) (by intro h; cases h),
      others_owner (Or.inl ho) (Or.inl ho)⟩
    intro hh; have := g5 hh; exact ⟨this.1, this.2.1, rfl, this.2.2.2.1, this.2.2.2.2⟩
  | iCallout =>
    have ho : sh.owner = some t := lown.mp rfl
    have ⟨hc, hd⟩ := l.cal (Or.inl rfl)
    have hl0 : sh.latched = false := by
      cases hx : sh.latched with
      | false => rfl
      | true => have := (l.lt ho).mp hx; cases this
    have hi0 : sh.inHandler = false := by
      cases hx : sh.inHandler with
      | false => rfl
      | true => have := (l.ih ho).mp hx; cases this
    simp only [stepCore] at h
    split at h
    · rename_i hch
      have ⟨c0, _⟩ := g4 hch
      simp at h; obtain ⟨rfl, rfl⟩ := h
      refine ⟨⟨g1, g2, g3, (by intro hh; cases hh), ?_, by intro e; rw [ho] at e; cases e⟩,
        L_owner ho rfl hl0 hi0 (by simp) (by simp) (fun _ => ⟨hc, hd⟩) (by intro h; cases h),
        others_owner (Or.inl ho) (Or.inl ho)⟩
      intro _; exact ⟨by simp [c0], hc, hd, rfl, hl0, hi0⟩
    · rename_i hch
      simp at h; obtain ⟨rfl, rfl⟩ := h
      exact ⟨⟨g1, g2, g3, g4, g5, g6⟩,
        L_owner ho rfl hl0 hi0 (by simp) (by simp) (by intro h; rcases h with h | h <;> cases h) (by intro h; cases h),
        others_owner (Or.inl ho) (Or.inl ho)⟩
  | iCancelH =>
    have ho : sh.owner = some t := lown.mp rfl
    have hl0 : sh.latched = false := by
      cases hx : sh.latched with
      | false => rfl
      | true => have := (l.lt ho).mp hx; cases this
    have hi0 : sh.inHandler = false := by
      cases hx : sh.inHandler with
      | false => rfl
      | true => have := (l.ih ho).mp hx; cases this
    simp [stepCore] at h; obtain ⟨rfl, rfl⟩ := h
    exact ⟨⟨g1, g2, g3, g4, g5, g6⟩,
      L_owner ho rfl hl0 hi0 (by simp) (by simp) (by intro h; rcases h with h | h <;> cases h) (by intro h; cases h),
      others_owner (Or.inl ho) (Or.inl ho)⟩
  | iDone =>
    have ho : sh.owner = some t := lown.mp rfl
    have hl0 : sh.latched = false := by
      cases hx : sh.latched with
      | false => rfl
      | true => have := (l.lt ho).mp hx; cases this
    have hi0 : sh.inHandler = false := by
      cases hx : sh.inHandler with
      | false => rfl
      | true => have := (l.ih ho).mp hx; cases this
    simp [stepCore] at h; obtain ⟨rfl, rfl⟩ := h
    refine ⟨⟨g1, g2, g3, g4, g5, fun _ => ⟨hl0, hi0⟩⟩, ?_, others_owner (Or.inl ho) (Or.inr rfl)⟩
    exact ⟨by simp [owns], (by intro e; cases e), (by intro e; cases e), (by intro h; rcases h with h | h <;> cases h),
      (by intro h; cases h), (by intro h; rcases h with h | h <;> cases h)⟩

theorem step_local {sh : Sh} {t : Tid} {pc : Pc} {op : Op} {sh' : Sh} {pc' : Pc}
    (g : G sh) (l : L sh t pc) (h : (sh', pc') ∈ step sh t pc op) : Post sh sh' t pc' := by
  simp only [step, List.mem_append] at h
  rcases h with h | h
  · exact step_local_core g l h
  · by_cases hc : canLeave pc = true
    · rw [if_pos hc] at h
      simp at h; obtain ⟨rfl, rfl⟩ := h
      have hown : owns pc = true := by cases pc <;> simp_all [canLeave, owns]
      have ho : sh'.owner = some t := l.own.mp hown
      have hl0 : sh'.latched = false := by
        cases hx : sh'.latched with
        | false => rfl
        | true => have := (l.lt ho).mp hx; subst this; simp [canLeave] at hc
      have hi0 : sh'.inHandler = false := by
        cases hx : sh'.inHandler with
        | false => rfl
        | true => have := (l.ih ho).mp hx; subst this; simp [canLeave] at hc
      exact ⟨g, L_owner ho rfl hl0 hi0 (by simp) (by simp) (by intro h; rcases h with h | h <;> cases h) (by intro h; cases h),
        others_owner (Or.inl ho) (Or.inl ho)⟩
    · rw [if_neg hc] at h; simp at h

structure Inv (s : St) : Prop where
  g : G s.sh
  l : ∀ t, L s.sh t (s.pcs t)

theorem inv_reachable {s : St} (h : Reachable s) : Inv s := by
  induction h with
  | init =>
    exact ⟨⟨rfl, (by intro n e; cases e), (by intro e; cases e), fun _ => ⟨rfl, rfl⟩, (by intro e; cases e), fun _ => ⟨rfl, rfl⟩⟩,
      fun _ => ⟨by simp [owns], (by intro e; cases e), (by intro e; cases e), (by intro h; rcases h with h | h <;> cases h),
        (by intro h; cases h), (by intro h; rcases h with h | h <;> cases h)⟩⟩
  | step _ hs ih =>
    cases hs with
    | mk t op sh' pc' h =>
      obtain ⟨hg, hl, hoth⟩ := step_local ih.g (ih.l t) h
      refine ⟨hg, fun t' => ?_⟩
      by_cases e : t' = t
      · subst e; simpa using hl
      · simpa [e] using hoth t' _ e (ih.l t')

/-- **The cancel handler runs at most once**, only after the source was cancelled and unregistered,
    after the last event handler invocation has returned, and no event handler invocation starts
    after it. -/
theorem cancel_handler_once_and_last {s : St} (h : Reachable s) :
    s.sh.cancelStarts ≤ 1 ∧
    (s.sh.cancelStarts = 1 → s.sh.canceled = true ∧ s.sh.deleted = true ∧
      s.sh.evStartsAtCallout = some s.sh.evStarts ∧ s.sh.inHandler = false) := by
  have g := (inv_reachable h).g
  cases hc : s.sh.cancelH with
  | true => have := (g.g4 hc).1; exact ⟨by omega, fun e => by omega⟩
  | false =>
    have := g.g5 hc
    exact ⟨by omega, fun _ => ⟨this.2.1, this.2.2.1, this.2.2.2.1, this.2.2.2.2.2⟩⟩

/-- **At most the one committed invocation after cancel**: once DSF_CANCELED is set, the event handler
    starts at most once more, and only if an invocation had already latched the pending data at that
    moment; a cancel issued from the handler itself (or with no latched invocation) is followed by
    no event handler invocation at all. -/
theorem at_most_one_committed {s : St} (h : Reachable s) (n : Nat) (hn : s.sh.evStartsAtCancel = some n) :
    s.sh.evStarts ≤ n + b2n s.sh.committedAtCancel ∧ (s.sh.committedAtCancel = false → s.sh.evStarts ≤ n) := by
  have := (inv_reachable h).g.g2 n hn
  have h1 : b2n s.sh.latched ≤ 1 := by unfold b2n; split <;> omega
  constructor
  · omega
  · intro hc; rw [hc] at this; have h2 : b2n false = 0 := rfl; omega

end CancelP

section audit
#print axioms CancelP.cancel_handler_once_and_last
#print axioms CancelP.at_most_one_committed
end audit
