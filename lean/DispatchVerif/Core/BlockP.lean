/-! C19: a dispatch block object — the `dbpd_atomic_flags` word (DBF_CANCELED set-once, DBF_WAITING / DBF_WAITED of
    `dispatch_block_wait`), the `dbpd_performed` counter, the single `dispatch_group_leave` of the first completion, and
    wait / notify delegated to the private group. Any number of invoking / cancelling / waiting / observing threads.
    The private group is single-use (entered once at creation, left once): its contract — wait returns 0, and a
    notification is submitted, only once the leave has happened — is `GroupPD.notify_not_early_single_use` and
    `C07.wait_zero_sound`, taken here as the enabling condition of the corresponding steps. -/
namespace BlockP

abbrev Tid := Nat

inductive Op | invoke | cancel | testcancel | wait | notify
inductive Pc
  | idle
  | started (sawCancel : Bool) (afterCancel : Bool)
                                    -- read atomic_flags at the top of the invoke function; afterCancel (ghost): a
                                    -- dispatch_block_cancel call had already returned at that moment
  | body                            -- inside the block's body
  | completed                       -- about to `os_atomic_inc(performed)`
  | leaving                         -- saw the increment return 1: about to leave the group
  | tested (r : Bool)               -- dispatch_block_testcancel returned r
  | waiting                         -- set DBF_WAITING; inside dispatch_group_wait on the private group
  | waitRet (zero : Bool)           -- dispatch_group_wait returned (zero = result 0)
  | trapped                         -- DISPATCH_CLIENT_CRASH: waited for twice
deriving DecidableEq

structure Sh where
  canceled : Bool := false      -- DBF_CANCELED
  waiting : Bool := false       -- DBF_WAITING
  waited : Bool := false        -- DBF_WAITED
  performed : Nat := 0
  -- ghost history
  leaves : Nat := 0            -- dispatch_group_leave calls on the private group
  bodies : Nat := 0            -- body executions started
  skipped : Nat := 0           -- invocations that skipped the body
  lateBodies : Nat := 0        -- body executions started by an invocation that began after a cancel call had returned
  finished : Nat := 0          -- executions (body or skipped) that have completed
  cancelsDone : Nat := 0       -- completed dispatch_block_cancel calls
  leavers : List Tid := []     -- threads between the increment that returned 1 and the leave
  completers : List Tid := []  -- threads between the end of their execution and the increment
  registered : Nat := 0        -- dispatch_block_notify calls
  pendingNotes : Nat := 0      -- notifications held by the private group
  submittedNotes : Nat := 0    -- notifications submitted to their queue
  zeroWaits : Nat := 0         -- dispatch_block_wait calls that returned 0

def rm (l : List Tid) (t : Tid) : List Tid := l.filter (fun x => !decide (x = t))

def step (sh : Sh) (t : Tid) (pc : Pc) (op : Op) : List (Sh × Pc) :=
  match pc with
  | .idle =>
    match op with
    | .invoke => [(sh, .started sh.canceled (decide (sh.cancelsDone ≥ 1)))]     -- atomic_flags = dbpd->dbpd_atomic_flags
    | .cancel => [({ sh with canceled := true, cancelsDone := sh.cancelsDone + 1 }, .idle)]   -- os_atomic_or(DBF_CANCELED)
    | .testcancel => [(sh, .tested sh.canceled)]
    | .wait =>                                                                   -- os_atomic_or_orig(DBF_WAITING)
      if sh.waiting || sh.waited then [({ sh with waiting := true }, .trapped)]
      else [({ sh with waiting := true }, .waiting)]
    | .notify =>                                                                 -- dispatch_group_notify(dbpd_group, …)
      if sh.leaves = 1 then [({ sh with registered := sh.registered + 1, submittedNotes := sh.submittedNotes + 1 }, .idle)]
      else [({ sh with registered := sh.registered + 1, pendingNotes := sh.pendingNotes + 1 }, .idle)]
  | .started c a =>
    if c then [({ sh with skipped := sh.skipped + 1, finished := sh.finished + 1, completers := t :: sh.completers }, .completed)]
    else [({ sh with bodies := sh.bodies + 1, lateBodies := sh.lateBodies + (if a then 1 else 0) }, .body)]
  | .body => [({ sh with finished := sh.finished + 1, completers := t :: sh.completers }, .completed)]
  | .completed =>
    -- if (os_atomic_inc2o(dbpd, dbpd_performed) == 1) dispatch_group_leave(...)
    let sh' := { sh with performed := sh.performed + 1, completers := rm sh.completers t }
    if sh'.performed = 1 then [({ sh' with leavers := t :: sh.leavers }, .leaving)] else [(sh', .idle)]
  | .leaving =>
    -- the private group's count reaches zero: its held notifications are submitted
    [({ sh with leaves := sh.leaves + 1, leavers := rm sh.leavers t,
                submittedNotes := sh.submittedNotes + sh.pendingNotes, pendingNotes := 0 }, .idle)]
  | .tested _ => [(sh, .idle)]
  | .waiting =>
    -- dispatch_group_wait: may time out at any moment; returns 0 only once the group is empty
    (sh, .waitRet false) :: (if sh.leaves = 1 then [({ sh with zeroWaits := sh.zeroWaits + 1 }, .waitRet true)] else [])
  | .waitRet false => [({ sh with waiting := false }, .idle)]                    -- os_atomic_and(~DBF_WAITING)
  | .waitRet true => [({ sh with waited := true }, .idle)]                       -- os_atomic_or(DBF_WAITED)
  | .trapped => []

structure St where
  sh : Sh
  pcs : Tid → Pc

inductive Step : St → St → Prop
  | mk (s : St) (t : Tid) (op : Op) (sh' : Sh) (pc' : Pc)
      (h : (sh', pc') ∈ step s.sh t (s.pcs t) op) :
      Step s { sh := sh', pcs := fun t' => if t' = t then pc' else s.pcs t' }

inductive Reachable : St → Prop
  | init : Reachable { sh := {}, pcs := fun _ => .idle }
  | step {s s'} : Reachable s → Step s s' → Reachable s'

def b2n (b : Bool) : Nat := if b then 1 else 0

structure G (sh : Sh) : Prop where
  once : sh.leaves + sh.leavers.length = b2n (decide (sh.performed ≥ 1))
  fin : sh.performed + sh.completers.length = sh.finished
  mono : sh.cancelsDone ≥ 1 → sh.canceled = true
  none : sh.canceled = false → sh.skipped = 0
  late : sh.lateBodies = 0
  reg : sh.registered = sh.pendingNotes + sh.submittedNotes
  sub : sh.leaves = 0 → sh.submittedNotes = 0 ∧ sh.zeroWaits = 0
  pen : sh.leaves ≥ 1 → sh.pendingNotes = 0

structure L (sh : Sh) (t : Tid) (pc : Pc) : Prop where
  lv : sh.leavers.count t = b2n (decide (pc = .leaving))
  cp : sh.completers.count t = b2n (decide (pc = .completed))
  tc : ∀ r, pc = .tested r → r = true → sh.canceled = true
  sc : ∀ a, pc = .started true a → sh.canceled = true
  sa : ∀ c, pc = .started c true → c = true
  wz : pc = .waitRet true → sh.leaves = 1

abbrev Post (sh sh' : Sh) (t : Tid) (pc' : Pc) : Prop :=
  G sh' ∧ L sh' t pc' ∧ ∀ t' q, t' ≠ t → L sh t' q → L sh' t' q

theorem others_of {sh sh' : Sh} {t : Tid}
    (h1 : ∀ u, u ≠ t → sh'.leavers.count u = sh.leavers.count u)
    (h3 : ∀ u, u ≠ t → sh'.completers.count u = sh.completers.count u)
    (h2 : sh.canceled = true → sh'.canceled = true)
    (h4 : sh.leaves = 1 → sh'.leaves = 1) :
    ∀ t' q, t' ≠ t → L sh t' q → L sh' t' q := by
  intro t' q ne l
  exact ⟨by rw [h1 t' ne]; exact l.lv, by rw [h3 t' ne]; exact l.cp, fun r e hr => h2 (l.tc r e hr), fun a e => h2 (l.sc a e),
    l.sa, fun e => h4 (l.wz e)⟩

theorem length_rm (l : List Tid) (t : Tid) : (rm l t).length + l.count t = l.length := by
  unfold rm
  induction l with
  | nil => rfl
  | cons a l ih => by_cases e : a = t <;> simp [e, List.count_cons] at ih ⊢ <;> omega

theorem count_rm_ne (l : List Tid) (t u : Tid) (h : u ≠ t) : (rm l t).count u = l.count u := by
  unfold rm; exact List.count_filter (by simp [h])

theorem count_rm_self (l : List Tid) (t : Tid) : (rm l t).count t = 0 := by
  unfold rm; simp [List.count_eq_zero]

theorem count_cons_ne (l : List Tid) (t u : Tid) (h : u ≠ t) : (t :: l).count u = l.count u := by
  simp [List.count_cons, Ne.symm h]

/-- the local claims at a pc that is none of the special ones -/
theorem L_plain {sh : Sh} {t : Tid} {pc : Pc} (hl : sh.leavers.count t = 0) (hc : sh.completers.count t = 0)
    (h1 : pc ≠ .leaving) (h2 : pc ≠ .completed) (h3 : ∀ r, pc ≠ .tested r) (h4 : ∀ c a, pc ≠ .started c a)
    (h5 : pc ≠ .waitRet true) : L sh t pc :=
  ⟨by simp [hl, h1, b2n], by simp [hc, h2, b2n], fun r e => absurd e (h3 r), fun a e => absurd e (h4 true a),
   fun c e => absurd e (h4 c true), fun e => absurd e h5⟩

theorem step_local {sh : Sh} {t : Tid} {pc : Pc} {op : Op} {sh' : Sh} {pc' : Pc}
    (g : G sh) (l : L sh t pc) (h : (sh', pc') ∈ step sh t pc op) : Post sh sh' t pc' := by
  obtain ⟨go, gf, gm, gn, gl, gr, gs, gp⟩ := g
  obtain ⟨ll, lc, lt, ls, la, lw⟩ := l
  cases pc with
  | idle =>
    simp [b2n] at ll lc
    cases op with
    | invoke =>
      simp [step] at h; obtain ⟨rfl, rfl⟩ := h
      refine ⟨⟨go, gf, gm, gn, gl, gr, gs, gp⟩, ⟨by simp [b2n, ll], by simp [b2n, lc], (by intro r e; cases e), ?_, ?_, by intro e; cases e⟩,
        others_of (fun _ _ => rfl) (fun _ _ => rfl) (fun x => x) (fun x => x)⟩
      · intro a e; exact (Pc.started.inj e).1
      · intro c e
        have e2 := (Pc.started.inj e).2
        have e1 := (Pc.started.inj e).1
        simp at e2; rw [← e1]; exact gm e2
    | cancel =>
      simp [step] at h; obtain ⟨rfl, rfl⟩ := h
      exact ⟨⟨go, gf, fun _ => rfl, (by intro e; cases e), gl, gr, gs, gp⟩,
        L_plain ll lc (by simp) (by simp) (by simp) (by simp) (by simp),
        others_of (fun _ _ => rfl) (fun _ _ => rfl) (fun _ => rfl) (fun x => x)⟩
    | testcancel =>
      simp [step] at h; obtain ⟨rfl, rfl⟩ := h
      exact ⟨⟨go, gf, gm, gn, gl, gr, gs, gp⟩,
        ⟨by simp [b2n, ll], by simp [b2n, lc], (by intro r e hr; injection e with e; subst e; exact hr), (by intro a e; cases e),
          (by intro c e; cases e), by intro e; cases e⟩,
        others_of (fun _ _ => rfl) (fun _ _ => rfl) (fun x => x) (fun x => x)⟩
    | wait =>
      simp only [step] at h
      split at h <;> (simp at h; obtain ⟨rfl, rfl⟩ := h)
      · exact ⟨⟨go, gf, gm, gn, gl, gr, gs, gp⟩, L_plain ll lc (by simp) (by simp) (by simp) (by simp) (by simp),
          others_of (fun _ _ => rfl) (fun _ _ => rfl) (fun x => x) (fun x => x)⟩
      · exact ⟨⟨go, gf, gm, gn, gl, gr, gs, gp⟩, L_plain ll lc (by simp) (by simp) (by simp) (by simp) (by simp),
          others_of (fun _ _ => rfl) (fun _ _ => rfl) (fun x => x) (fun x => x)⟩
    | notify =>
      simp only [step] at h
      split at h
      · rename_i h1
        simp at h; obtain ⟨rfl, rfl⟩ := h
        refine ⟨⟨go, gf, gm, gn, gl, ?_, ?_, gp⟩, L_plain ll lc (by simp) (by simp) (by simp) (by simp) (by simp),
          others_of (fun _ _ => rfl) (fun _ _ => rfl) (fun x => x) (fun x => x)⟩
        · show sh.registered + 1 = sh.pendingNotes + (sh.submittedNotes + 1); omega
        · intro e; show sh.submittedNotes + 1 = 0 ∧ sh.zeroWaits = 0
          have : sh.leaves = 0 := e
          omega
      · rename_i h1
        simp at h; obtain ⟨rfl, rfl⟩ := h
        refine ⟨⟨go, gf, gm, gn, gl, ?_, gs, ?_⟩, L_plain ll lc (by simp) (by simp) (by simp) (by simp) (by simp),
          others_of (fun _ _ => rfl) (fun _ _ => rfl) (fun x => x) (fun x => x)⟩
        · show sh.registered + 1 = sh.pendingNotes + 1 + sh.submittedNotes; omega
        · intro e
          have e' : sh.leaves ≥ 1 := e
          have hle : sh.leaves ≤ 1 := by unfold b2n at go; split at go <;> omega
          exact absurd (by omega : sh.leaves = 1) h1
  | started c a =>
    simp [b2n] at ll lc
    simp only [step] at h
    split at h
    · rename_i hc
      simp at h; obtain ⟨rfl, rfl⟩ := h
      have hcan := ls a (by rw [hc])
      refine ⟨⟨go, ?_, gm, (by intro e; rw [hcan] at e; cases e), gl, gr, gs, gp⟩,
        ⟨by simp [b2n, ll], by simp [b2n, lc], (by intro r e; cases e), (by intro a e; cases e), (by intro c e; cases e), by intro e; cases e⟩,
        others_of (fun _ _ => rfl) (fun u hu => count_cons_ne _ _ _ hu) (fun x => x) (fun x => x)⟩
      show sh.performed + (t :: sh.completers).length = sh.finished + 1
      simp; omega
    · rename_i hc
      simp at h; obtain ⟨rfl, rfl⟩ := h
      have ha : a = false := by
        cases a with
        | false => rfl
        | true => have := la c rfl; exact absurd this hc
      refine ⟨⟨go, gf, gm, gn, ?_, gr, gs, gp⟩, L_plain ll lc (by simp) (by simp) (by simp) (by simp) (by simp),
        others_of (fun _ _ => rfl) (fun _ _ => rfl) (fun x => x) (fun x => x)⟩
      show sh.lateBodies + (if a = true then 1 else 0) = 0
      simp [ha, gl]
  | body =>
    simp [b2n] at ll lc
    simp [step] at h; obtain ⟨rfl, rfl⟩ := h
    refine ⟨⟨go, ?_, gm, gn, gl, gr, gs, gp⟩,
      ⟨by simp [b2n, ll], by simp [b2n, lc], (by intro r e; cases e), (by intro a e; cases e), (by intro c e; cases e), by intro e; cases e⟩,
      others_of (fun _ _ => rfl) (fun u hu => count_cons_ne _ _ _ hu) (fun x => x) (fun x => x)⟩
    show sh.performed + (t :: sh.completers).length = sh.finished + 1
    simp; omega
  | completed =>
    simp [b2n] at ll lc
    have hlen := length_rm sh.completers t
    simp only [step] at h
    split at h
    · rename_i h1
      simp at h; obtain ⟨rfl, rfl⟩ := h
      have hp0 : sh.performed = 0 := by simp at h1; exact h1
      refine ⟨⟨?_, ?_, gm, gn, gl, gr, gs, gp⟩,
        ⟨by simp [b2n, ll], by simp [b2n, count_rm_self], (by intro r e; cases e), (by intro a e; cases e), (by intro c e; cases e), by intro e; cases e⟩,
        others_of (fun u hu => count_cons_ne _ _ _ hu) (fun u hu => count_rm_ne _ _ _ hu) (fun x => x) (fun x => x)⟩
      · have h0 : sh.leaves + sh.leavers.length = 0 := by simpa [hp0, b2n] using go
        show sh.leaves + (t :: sh.leavers).length = b2n (decide (sh.performed + 1 ≥ 1))
        rw [hp0]; simp [b2n]; omega
      · show sh.performed + 1 + (rm sh.completers t).length = sh.finished; omega
    · rename_i h1
      simp at h; obtain ⟨rfl, rfl⟩ := h
      have hp : sh.performed ≥ 1 := by simp at h1; omega
      refine ⟨⟨?_, ?_, gm, gn, gl, gr, gs, gp⟩, L_plain ll (count_rm_self _ _) (by simp) (by simp) (by simp) (by simp) (by simp),
        others_of (fun _ _ => rfl) (fun u hu => count_rm_ne _ _ _ hu) (fun x => x) (fun x => x)⟩
      · have h2 : sh.performed + 1 ≥ 1 := by omega
        simp [hp, h2, b2n] at go ⊢; exact go
      · show sh.performed + 1 + (rm sh.completers t).length = sh.finished; omega
  | leaving =>
    simp [b2n] at ll lc
    have hlen := length_rm sh.leavers t
    simp [step] at h; obtain ⟨rfl, rfl⟩ := h
    have hle : sh.leaves + sh.leavers.length ≤ 1 := by unfold b2n at go; split at go <;> omega
    have hpos : sh.leavers.length ≥ 1 := by
      have := List.count_le_length (a := t) (l := sh.leavers); omega
    have hl0 : sh.leaves = 0 := by omega
    refine ⟨⟨?_, gf, gm, gn, gl, ?_, ?_, fun _ => rfl⟩, L_plain (count_rm_self _ _) lc (by simp) (by simp) (by simp) (by simp) (by simp),
      others_of (fun u hu => count_rm_ne _ _ _ hu) (fun _ _ => rfl) (fun x => x) ?_⟩
    · show sh.leaves + 1 + (rm sh.leavers t).length = b2n (decide (sh.performed ≥ 1))
      omega
    · show sh.registered = 0 + (sh.submittedNotes + sh.pendingNotes); omega
    · intro e; have : sh.leaves + 1 = 0 := e; omega
    · intro e; rw [hl0] at e; cases e
  | tested r =>
    simp [b2n] at ll lc
    simp [step] at h; obtain ⟨rfl, rfl⟩ := h
    exact ⟨⟨go, gf, gm, gn, gl, gr, gs, gp⟩, L_plain ll lc (by simp) (by simp) (by simp) (by simp) (by simp),
      others_of (fun _ _ => rfl) (fun _ _ => rfl) (fun x => x) (fun x => x)⟩
  | waiting =>
    simp [b2n] at ll lc
    simp only [step, List.mem_cons] at h
    rcases h with h | h
    · simp at h; obtain ⟨rfl, rfl⟩ := h
      exact ⟨⟨go, gf, gm, gn, gl, gr, gs, gp⟩, L_plain ll lc (by simp) (by simp) (by simp) (by simp) (by simp),
        others_of (fun _ _ => rfl) (fun _ _ => rfl) (fun x => x) (fun x => x)⟩
    · split at h
      · rename_i h1
        simp at h; obtain ⟨rfl, rfl⟩ := h
        refine ⟨⟨go, gf, gm, gn, gl, gr, ?_, gp⟩,
          ⟨by simp [b2n, ll], by simp [b2n, lc], (by intro r e; cases e), (by intro a e; cases e), (by intro c e; cases e), fun _ => h1⟩,
          others_of (fun _ _ => rfl) (fun _ _ => rfl) (fun x => x) (fun x => x)⟩
        intro e; have : sh.leaves = 0 := e; omega
      · simp at h
  | waitRet z =>
    simp [b2n] at ll lc
    cases z <;> (simp [step] at h; obtain ⟨rfl, rfl⟩ := h)
    · exact ⟨⟨go, gf, gm, gn, gl, gr, gs, gp⟩, L_plain ll lc (by simp) (by simp) (by simp) (by simp) (by simp),
        others_of (fun _ _ => rfl) (fun _ _ => rfl) (fun x => x) (fun x => x)⟩
    · exact ⟨⟨go, gf, gm, gn, gl, gr, gs, gp⟩, L_plain ll lc (by simp) (by simp) (by simp) (by simp) (by simp),
        others_of (fun _ _ => rfl) (fun _ _ => rfl) (fun x => x) (fun x => x)⟩
  | trapped => simp [step] at h

structure Inv (s : St) : Prop where
  g : G s.sh
  l : ∀ t, L s.sh t (s.pcs t)

theorem inv_reachable {s : St} (h : Reachable s) : Inv s := by
  induction h with
  | init =>
    exact ⟨⟨by simp [b2n], rfl, (by intro h; simp at h), fun _ => rfl, rfl, rfl, fun _ => ⟨rfl, rfl⟩, fun _ => rfl⟩,
      fun _ => L_plain rfl rfl (by simp) (by simp) (by simp) (by simp) (by simp)⟩
  | step _ hs ih =>
    cases hs with
    | mk t op sh' pc' h =>
      obtain ⟨hg, hl, hoth⟩ := step_local ih.g (ih.l t) h
      refine ⟨hg, fun t' => ?_⟩
      by_cases e : t' = t
      · subst e; simpa using hl
      · simpa [e] using hoth t' _ e (ih.l t')

/-- **The private group is left exactly once**, by the first completion, however many times the
    block object is invoked and from however many threads. -/
theorem leave_exactly_once {s : St} (h : Reachable s) :
    s.sh.leaves ≤ 1 ∧ (s.sh.performed ≥ 1 → s.sh.leavers = [] → s.sh.leaves = 1) ∧ (s.sh.performed = 0 → s.sh.leaves = 0) := by
  have := (inv_reachable h).g.once
  refine ⟨?_, ?_, ?_⟩
  · unfold b2n at this; split at this <;> omega
  · intro hp hl; simp [hp, hl, b2n] at this; exact this
  · intro hp; simp [hp, b2n] at this; exact this.1

/-- **Cancellation is sticky and honest**: once a cancel call has returned, testcancel's flag is set
    for good (the wait bookkeeping on the same word never clears it); an invocation skips the body only if the flag was
    set when it read it; no body is skipped on a block that was never cancelled; and no invocation that begins after a
    cancel call has returned runs the body. -/
theorem cancel_semantics {s : St} (h : Reachable s) :
    (s.sh.cancelsDone ≥ 1 → s.sh.canceled = true) ∧ (s.sh.canceled = false → s.sh.skipped = 0) ∧
    (∀ t, s.pcs t = .tested true → s.sh.canceled = true) ∧ s.sh.lateBodies = 0 := by
  have i := inv_reachable h
  exact ⟨i.g.mono, i.g.none, fun t e => (i.l t).tc true e rfl, i.g.late⟩

/-- **wait and notify follow the execution**: `dispatch_block_wait` returns zero, and a notification is submitted, only after
    an execution of the block (its body, or the skipped execution of a cancelled block) has completed; every notification
    is submitted at most once, and exactly once as soon as the first completion has left the group. -/
theorem wait_notify_follow_execution {s : St} (h : Reachable s) :
    ((s.sh.zeroWaits ≥ 1 ∨ s.sh.submittedNotes ≥ 1 ∨ ∃ t, s.pcs t = .waitRet true) → s.sh.performed ≥ 1 ∧ s.sh.finished ≥ 1) ∧
    s.sh.registered = s.sh.pendingNotes + s.sh.submittedNotes ∧
    (s.sh.leaves = 1 → s.sh.submittedNotes = s.sh.registered) := by
  have i := inv_reachable h
  have hle : s.sh.leaves ≥ 1 → s.sh.performed ≥ 1 ∧ s.sh.finished ≥ 1 := by
    intro hl
    have := i.g.once
    have hf := i.g.fin
    by_cases hp : s.sh.performed ≥ 1
    · exact ⟨hp, by omega⟩
    · simp [hp, b2n] at this; omega
  refine ⟨?_, i.g.reg, ?_⟩
  · intro hh
    apply hle
    rcases hh with hh | hh | ⟨t, ht⟩
    · by_cases h0 : s.sh.leaves = 0
      · have := (i.g.sub h0).2; omega
      · omega
    · by_cases h0 : s.sh.leaves = 0
      · have := (i.g.sub h0).1; omega
      · omega
    · have := (i.l t).wz ht; omega
  · intro hl
    have := i.g.pen (by omega)
    have := i.g.reg
    omega

end BlockP

section audit
#print axioms BlockP.leave_exactly_once
#print axioms BlockP.cancel_semantics
#print axioms BlockP.wait_notify_follow_execution
end audit
