/-! C19 calibration: the part of a dispatch block object that is not the private group — the
    `dbpd_atomic_flags` word (DBF_CANCELED set-once), the `dbpd_performed` counter and the single
    `dispatch_group_leave` of the first completion. Any number of invoking / cancelling threads. -/
namespace BlockP

abbrev Tid := Nat

inductive Op | invoke | cancel | testcancel
inductive Pc
  | idle
  | started (sawCancel : Bool)      -- read atomic_flags at the top of the invoke function
  | body                            -- inside the block's body
  | completed                       -- about to `os_atomic_inc(performed)`
  | leaving                         -- saw the increment return 1: about to leave the group
  | tested (r : Bool)               -- dispatch_block_testcancel returned r
deriving DecidableEq

structure Sh where
  canceled : Bool := false
  performed : Nat := 0
  -- ghost history
  leaves : Nat := 0            -- dispatch_group_leave calls on the private group
  bodies : Nat := 0            -- body executions started
  skipped : Nat := 0           -- invocations that skipped the body
  cancelsDone : Nat := 0       -- completed dispatch_block_cancel calls
  leavers : List Tid := []     -- threads between the increment that returned 1 and the leave

def step (sh : Sh) (t : Tid) (pc : Pc) (op : Op) : List (Sh × Pc) :=
  match pc with
  | .idle =>
    match op with
    | .invoke => [(sh, .started sh.canceled)]                 -- atomic_flags = dbpd->dbpd_atomic_flags
    | .cancel => [({ sh with canceled := true, cancelsDone := sh.cancelsDone + 1 }, .idle)]   -- os_atomic_or(DBF_CANCELED)
    | .testcancel => [(sh, .tested sh.canceled)]
  | .started c =>
    if c then [({ sh with skipped := sh.skipped + 1 }, .completed)]
    else [({ sh with bodies := sh.bodies + 1 }, .body)]
  | .body => [(sh, .completed)]
  | .completed =>
    -- if (os_atomic_inc2o(dbpd, dbpd_performed) == 1) dispatch_group_leave(...)
    let sh' := { sh with performed := sh.performed + 1 }
    if sh'.performed = 1 then [({ sh' with leavers := t :: sh.leavers }, .leaving)] else [(sh', .idle)]
  | .leaving => [({ sh with leaves := sh.leaves + 1, leavers := sh.leavers.filter (fun x => !decide (x = t)) }, .idle)]
  | .tested _ => [(sh, .idle)]

structure St where
  sh : Sh
  pcs : Tid → Pc

inductive Step : St → St → Prop
  | mk (s : St) (t : Tid) (op : Op) (sh' : Sh) (pc' : Pc)
      (h : (sh', pc') ∈ step s.sh t (s.pcs t) op) :
      Step s { sh := sh', pcs := fun t' => if t' = t then pc' else s.pcs t' }

inductive Reachable : St → Prop
  | init : Reachable { sh := {}, pcs := fun _ => .idle }
  | step {s s'} : Reachable s → Step s s' → Reachable s'

def b2n (b : Bool) : Nat := if b then 1 else 0

structure G (sh : Sh) : Prop where
  once : sh.leaves + sh.leavers.length = b2n (decide (sh.performed ≥ 1))
  mono : sh.cancelsDone ≥ 1 → sh.canceled = true
  none : sh.canceled = false → sh.skipped = 0

structure L (sh : Sh) (t : Tid) (pc : Pc) : Prop where
  lv : sh.leavers.count t = b2n (decide (pc = .leaving))
  tc : ∀ r, pc = .tested r → r = true → sh.canceled = true
  sc : pc = .started true → sh.canceled = true

abbrev Post (sh sh' : Sh) (t : Tid) (pc' : Pc) : Prop :=
  G sh' ∧ L sh' t pc' ∧ ∀ t' q, t' ≠ t → L sh t' q → L sh' t' q

theorem others_of {sh sh' : Sh} {t : Tid}
    (h1 : ∀ u, u ≠ t → sh'.leavers.count u = sh.leavers.count u) (h2 : sh.canceled = true → sh'.canceled = true) :
    ∀ t' q, t' ≠ t → L sh t' q → L sh' t' q := by
  intro t' q ne l
  exact ⟨by rw [h1 t' ne]; exact l.lv, fun r e hr => h2 (l.tc r e hr), fun e => h2 (l.sc e)⟩

theorem length_filter_ne (l : List Tid) (t : Tid) :
    (l.filter (fun x => !decide (x = t))).length + l.count t = l.length := by
  induction l with
  | nil => rfl
  | cons a l ih => by_cases e : a = t <;> simp [e, List.count_cons] at ih ⊢ <;> omega

theorem count_filter_ne (l : List Tid) (t u : Tid) (h : u ≠ t) :
    (l.filter (fun x => !decide (x = t))).count u = l.count u := by
  exact List.count_filter (by simp [h])

theorem step_local {sh : Sh} {t : Tid} {pc : Pc} {op : Op} {sh' : Sh} {pc' : Pc}
    (g : G sh) (l : L sh t pc) (h : (sh', pc') ∈ step sh t pc op) : Post sh sh' t pc' := by
  obtain ⟨go, gm, gn⟩ := g
  obtain ⟨ll, lt, ls⟩ := l
  cases pc with
  | idle =>
    simp [b2n] at ll
    cases op <;> simp [step] at h <;> obtain ⟨rfl, rfl⟩ := h
    · exact ⟨⟨go, gm, gn⟩, ⟨by simp [b2n, ll], (by intro r e; cases e), (fun e => Pc.started.inj e)⟩,
        others_of (fun _ _ => rfl) (fun x => x)⟩
    · exact ⟨⟨go, fun _ => rfl, by intro e; cases e⟩, ⟨by simp [b2n, ll], (by intro r e; cases e), by intro e; cases e⟩,
        others_of (fun _ _ => rfl) (fun _ => rfl)⟩
    · exact ⟨⟨go, gm, gn⟩, ⟨by simp [b2n, ll], (by intro r e hr; cases e; exact hr), by intro e; cases e⟩,
        others_of (fun _ _ => rfl) (fun x => x)⟩
  | started c =>
    simp [b2n] at ll
    simp only [step] at h
    split at h
    · rename_i hc
      simp at h; obtain ⟨rfl, rfl⟩ := h
      have hcan := ls (by rw [hc])
      exact ⟨⟨go, gm, by intro e; rw [hcan] at e; cases e⟩, ⟨by simp [b2n, ll], (by intro r e; cases e), by intro e; cases e⟩,
        others_of (fun _ _ => rfl) (fun x => x)⟩
    · simp at h; obtain ⟨rfl, rfl⟩ := h
      exact ⟨⟨go, gm, gn⟩, ⟨by simp [b2n, ll], (by intro r e; cases e), by intro e; cases e⟩,
        others_of (fun _ _ => rfl) (fun x => x)⟩
  | body =>
    simp [b2n] at ll
    simp [step] at h; obtain ⟨rfl, rfl⟩ := h
    exact ⟨⟨go, gm, gn⟩, ⟨by simp [b2n, ll], (by intro r e; cases e), by intro e; cases e⟩,
      others_of (fun _ _ => rfl) (fun x => x)⟩
  | completed =>
    simp [b2n] at ll
    simp only [step] at h
    split at h
    · rename_i h1
      simp at h; obtain ⟨rfl, rfl⟩ := h
      have hp0 : sh.performed = 0 := by simp at h1; exact h1
      refine ⟨⟨?_, gm, gn⟩, ⟨by simp [b2n, ll], (by intro r e; cases e), by intro e; cases e⟩,
        others_of (by intro u hu; simp [List.count_cons, Ne.symm hu]) (fun x => x)⟩
      have h0 : sh.leaves + sh.leavers.length = 0 := by simpa [hp0, b2n] using go
      show sh.leaves + (t :: sh.leavers).length = b2n (decide (sh.performed + 1 ≥ 1))
      rw [hp0]; simp [b2n]; omega
    · rename_i h1
      simp at h; obtain ⟨rfl, rfl⟩ := h
      have hp : sh.performed ≥ 1 := by simp at h1; omega
      refine ⟨⟨?_, gm, gn⟩, ⟨by simp [b2n, ll], (by intro r e; cases e), by intro e; cases e⟩,
        others_of (fun _ _ => rfl) (fun x => x)⟩
      have h2 : sh.performed + 1 ≥ 1 := by omega
      simp [hp, h2, b2n] at go ⊢; exact go
  | leaving =>
    simp [b2n] at ll
    have hlen := length_filter_ne sh.leavers t
    simp [step] at h; obtain ⟨rfl, rfl⟩ := h
    refine ⟨⟨?_, gm, gn⟩, ⟨?_, (by intro r e; cases e), by intro e; cases e⟩,
      others_of (by intro u hu; exact count_filter_ne _ _ _ hu) (fun x => x)⟩
    · show sh.leaves + 1 + (sh.leavers.filter (fun x => !decide (x = t))).length = b2n (decide (sh.performed ≥ 1))
      omega
    · simp [b2n, List.count_eq_zero]
  | tested r =>
    simp [b2n] at ll
    simp [step] at h; obtain ⟨rfl, rfl⟩ := h
    exact ⟨⟨go, gm, gn⟩, ⟨by simp [b2n, ll], (by intro r e; cases e), by intro e; cases e⟩,
      others_of (fun _ _ => rfl) (fun x => x)⟩

structure Inv (s : St) : Prop where
  g : G s.sh
  l : ∀ t, L s.sh t (s.pcs t)

theorem inv_reachable {s : St} (h : Reachable s) : Inv s := by
  induction h with
  | init => exact ⟨⟨by simp [b2n], by intro h; simp at h, fun _ => rfl⟩, fun _ => ⟨by simp [b2n], (by intro r e; cases e), by intro e; cases e⟩⟩
  | step _ hs ih =>
    cases hs with
    | mk t op sh' pc' h =>
      obtain ⟨hg, hl, hoth⟩ := step_local ih.g (ih.l t) h
      refine ⟨hg, fun t' => ?_⟩
      by_cases e : t' = t
      · subst e; simpa using hl
      · simpa [e] using hoth t' _ e (ih.l t')

/-- **The private group is left exactly once**, by the first completion, however many times the
    block object is invoked and from however many threads. -/
theorem leave_exactly_once {s : St} (h : Reachable s) :
    s.sh.leaves ≤ 1 ∧ (s.sh.performed ≥ 1 → s.sh.leavers = [] → s.sh.leaves = 1) ∧ (s.sh.performed = 0 → s.sh.leaves = 0) := by
  have := (inv_reachable h).g.once
  refine ⟨?_, ?_, ?_⟩
  · unfold b2n at this; split at this <;> omega
  · intro hp hl; simp [hp, hl, b2n] at this; exact this
  · intro hp; simp [hp, b2n] at this; exact this.1

/-- **Cancellation is sticky and honest**: once a cancel call has returned, testcancel's flag is set
    for good; an invocation skips the body only if the flag was set when it read it; no body is
    skipped on a block that was never cancelled. -/
theorem cancel_semantics {s : St} (h : Reachable s) :
    (s.sh.cancelsDone ≥ 1 → s.sh.canceled = true) ∧ (s.sh.canceled = false → s.sh.skipped = 0) ∧
    (∀ t, s.pcs t = .tested true → s.sh.canceled = true) := by
  have i := inv_reachable h
  exact ⟨i.g.mono, i.g.none, fun t e => (i.l t).tc true e rfl⟩

end BlockP

section audit
#print axioms BlockP.leave_exactly_once
#print axioms BlockP.cancel_semantics
end audit
