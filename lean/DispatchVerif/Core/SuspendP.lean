/-! C06 calibration: the suspend count of a lane — 6-bit inline field of dq_state, overflow into
    dq_side_suspend_cnt in units of SUSPEND_HALF = 32 under the side lock, HAS_SIDE_SUSPEND_CNT bit.
    Any nesting depth, any number of threads racing suspend/resume with the slow paths. -/
namespace SuspendP

abbrev Tid := Nat
def MAXC : Nat := 63      -- largest inline count
def HALF : Nat := 32

inductive Op | suspend | resume
inductive Tr | none | up | down     -- a transfer is between its dq_state rmw and its side-count update
deriving DecidableEq

inductive Pc
  | idle
  | sLock | sRmw | sSide            -- _dispatch_lane_suspend_slow
  | rLock | rRmw | rSide            -- _dispatch_lane_resume_slow
deriving DecidableEq

structure Sh where
  c : Nat := 0            -- inline suspend count
  sbit : Bool := false    -- HAS_SIDE_SUSPEND_CNT
  side : Nat := 0         -- dq_side_suspend_cnt
  lock : Option Tid := none
  -- ghosts
  logical : Nat := 0      -- suspends minus resumes, counted at their dq_state rmw
  tr : Tr := .none
deriving DecidableEq

def holds : Pc → Bool
  | .sRmw | .sSide | .rRmw | .rSide => true
  | _ => false

def step (sh : Sh) (t : Tid) (pc : Pc) (op : Op) : List (Sh × Pc) :=
  match pc with
  | .idle =>
    match op with
    | .suspend =>
      -- os_add_overflow(old_state, SUSPEND_INTERVAL): overflows exactly when the inline field is full
      if sh.c < MAXC then [({ sh with c := sh.c + 1, logical := sh.logical + 1 }, .idle)]
      else [(sh, .sLock)]
    | .resume =>
      if sh.logical = 0 then []          -- over-resume: client crash, not a history we quantify over
      else if sh.c > 0 then [({ sh with c := sh.c - 1, logical := sh.logical - 1 }, .idle)]
      else if !sh.sbit then []           -- goto over_resume
      else [(sh, .rLock)]
  | .sLock => if sh.lock.isNone then [({ sh with lock := some t }, .sRmw)] else []
  | .sRmw =>
    -- delta = 31 intervals (minus the side bit when the side count is 0); underflow ⇒ retry
    if sh.c ≥ HALF - 1 then
      [({ sh with c := sh.c - (HALF - 1), sbit := true, logical := sh.logical + 1, tr := .up }, .sSide)]
    else [({ sh with lock := none }, .idle)]      -- unlock; `return _dispatch_lane_suspend(dq)` re-issued by the caller
  | .sSide => [({ sh with side := sh.side + HALF, lock := none, tr := .none }, .idle)]
  | .rLock => if sh.lock.isNone then [({ sh with lock := some t }, .rRmw)] else []
  | .rRmw =>
    if sh.side = 0 then [({ sh with lock := none }, .idle)]         -- retry
    else if sh.c + (HALF - 1) > MAXC then [({ sh with lock := none }, .idle)]   -- add overflow ⇒ retry
    else if sh.logical = 0 then []
    else
      [({ sh with c := sh.c + (HALF - 1), sbit := if sh.side = HALF then false else sh.sbit,
                  logical := sh.logical - 1, tr := .down }, .rSide)]
  | .rSide => [({ sh with side := sh.side - HALF, lock := none, tr := .none }, .idle)]

structure St where
  sh : Sh
  pcs : Tid → Pc

inductive Step : St → St → Prop
  | mk (s : St) (t : Tid) (op : Op) (sh' : Sh) (pc' : Pc)
      (h : (sh', pc') ∈ step s.sh t (s.pcs t) op) :
      Step s { sh := sh', pcs := fun t' => if t' = t then pc' else s.pcs t' }

inductive Reachable : St → Prop
  | init : Reachable { sh := {}, pcs := fun _ => .idle }
  | step {s s'} : Reachable s → Step s s' → Reachable s'

def upv (tr : Tr) : Nat := if tr = .up then HALF else 0
def downv (tr : Tr) : Nat := if tr = .down then HALF else 0

structure G (sh : Sh) : Prop where
  total : sh.c + sh.side + upv sh.tr = sh.logical + downv sh.tr
  cmax : sh.c ≤ MAXC
  sideMul : sh.side % HALF = 0
  down : sh.tr = .down → HALF ≤ sh.side
  bit : sh.sbit = true ↔ sh.side + upv sh.tr ≠ downv sh.tr
  unl : sh.lock = none → sh.tr = .none

structure L (sh : Sh) (t : Tid) (pc : Pc) : Prop where
  own : holds pc = true ↔ sh.lock = some t
  up : pc = .sSide ↔ (sh.lock = some t ∧ sh.tr = .up)
  dn : pc = .rSide ↔ (sh.lock = some t ∧ sh.tr = .down)

abbrev Post (sh sh' : Sh) (t : Tid) (pc' : Pc) : Prop :=
  G sh' ∧ L sh' t pc' ∧ ∀ t' q, t' ≠ t → L sh t' q → L sh' t' q

macro "sauto" : tactic =>
  `(tactic| (simp_all [holds, upv, downv, HALF, MAXC] <;> (try omega) <;> try grind))

set_option maxHeartbeats 4000000 in
theorem step_local {sh : Sh} {t : Tid} {pc : Pc} {op : Op} {sh' : Sh} {pc' : Pc}
    (g : G sh) (l : L sh t pc) (h : (sh', pc') ∈ step sh t pc op) : Post sh sh' t pc' := by
  obtain ⟨gt, gc, gm, gd, gb, gu⟩ := g
  obtain ⟨lo, lu, ld⟩ := l
  have keep : ∀ (sh' : Sh), sh'.lock = sh.lock → sh'.tr = sh.tr →
      ∀ t' q, t' ≠ t → L sh t' q → L sh' t' q := by
    intro sh' h1 h2 t' q _ l'
    exact ⟨by rw [h1]; exact l'.own, by rw [h1, h2]; exact l'.up, by rw [h1, h2]; exact l'.dn⟩
  cases pc with
  | idle =>
    cases op with
    | suspend =>
      simp only [step] at h
      split at h
      · simp at h; obtain ⟨rfl, rfl⟩ := h
        refine ⟨⟨by sauto, by sauto, gm, gd, by sauto, gu⟩, ⟨by sauto, by sauto, by sauto⟩, keep _ rfl rfl⟩
      · simp at h; obtain ⟨rfl, rfl⟩ := h
        exact ⟨⟨gt, gc, gm, gd, gb, gu⟩, ⟨by sauto, by sauto, by sauto⟩, keep _ rfl rfl⟩
    | resume =>
      simp only [step] at h
      split at h
      · simp at h
      · split at h
        · simp at h; obtain ⟨rfl, rfl⟩ := h
          refine ⟨⟨by sauto, by sauto, gm, gd, by sauto, gu⟩, ⟨by sauto, by sauto, by sauto⟩, keep _ rfl rfl⟩
        · split at h
          · simp at h
          · simp at h; obtain ⟨rfl, rfl⟩ := h
            exact ⟨⟨gt, gc, gm, gd, gb, gu⟩, ⟨by sauto, by sauto, by sauto⟩, keep _ rfl rfl⟩
  | sLock =>
    simp only [step] at h
    split at h
    · rename_i hn
      have hn' : sh.lock = none := by cases hl : sh.lock <;> simp_all
      have htr := gu hn'
      simp at h; obtain ⟨rfl, rfl⟩ := h
      refine ⟨⟨gt, gc, gm, gd, gb, by simp⟩, ⟨by sauto, by sauto, by sauto⟩, ?_⟩
      intro t' q ne l'
      have hq : holds q = false := by
        cases hh : holds q with
        | false => rfl
        | true => have := l'.own.mp hh; simp [hn'] at this
      refine ⟨?_, ?_, ?_⟩
      · simp [hq]; exact fun e => ne e.symm
      · constructor
        · intro e; subst e; simp [holds] at hq
        · intro ⟨e, _⟩; simp at e; exact absurd e.symm ne
      · constructor
        · intro e; subst e; simp [holds] at hq
        · intro ⟨e, _⟩; simp at e; exact absurd e.symm ne
    · simp at h
  | sRmw =>
    have hl : sh.lock = some t := lo.mp rfl
    have htr : sh.tr = .none := by
      cases ht : sh.tr with
      | none => rfl
      | up => have := lu.mpr ⟨hl, ht⟩; simp at this
      | down => have := ld.mpr ⟨hl, ht⟩; simp at this
    have oth : ∀ (sh' : Sh), (sh'.lock = some t ∨ sh'.lock = none) → ∀ t' q, t' ≠ t → L sh t' q → L sh' t' q := by
      intro sh' hl' t' q ne l'
      have hq : holds q = false := by
        cases hh : holds q with
        | false => rfl
        | true => have := l'.own.mp hh; rw [hl] at this; exact absurd (Option.some.inj this).symm ne
      have nl : sh'.lock ≠ some t' := by
        rcases hl' with e | e <;> rw [e] <;> simp <;> exact fun e' => ne e'.symm
      refine ⟨by simp [hq, nl], ?_, ?_⟩
      · constructor
        · intro e; subst e; simp [holds] at hq
        · intro ⟨e, _⟩; exact absurd e nl
      · constructor
        · intro e; subst e; simp [holds] at hq
        · intro ⟨e, _⟩; exact absurd e nl
    simp only [step] at h
    split at h
    · simp at h; obtain ⟨rfl, rfl⟩ := h
      refine ⟨⟨by sauto, by sauto, gm, by sauto, by sauto, by sauto⟩, ⟨by sauto, by sauto, by sauto⟩,
        oth _ (Or.inl hl)⟩
    · simp at h; obtain ⟨rfl, rfl⟩ := h
      refine ⟨⟨by sauto, gc, gm, by sauto, by sauto, by sauto⟩, ⟨by sauto, by sauto, by sauto⟩, oth _ (Or.inr rfl)⟩
  | sSide =>
    have ⟨hl, htr⟩ := lu.mp rfl
    simp [step] at h; obtain ⟨rfl, rfl⟩ := h
    refine ⟨⟨by sauto, gc, by sauto, by sauto, by sauto, by sauto⟩, ⟨by sauto, by sauto, by sauto⟩, ?_⟩
    intro t' q ne l'
    have hq : holds q = false := by
      cases hh : holds q with
      | false => rfl
      | true => have := l'.own.mp hh; rw [hl] at this; exact absurd (Option.some.inj this).symm ne
    refine ⟨by simp [hq], ?_, ?_⟩
    · constructor
      · intro e; subst e; simp [holds] at hq
      · intro ⟨e, _⟩; simp at e
    · constructor
      · intro e; subst e; simp [holds] at hq
      · intro ⟨e, _⟩; simp at e
  | rLock =>
    simp only [step] at h
    split at h
    · rename_i hn
      have hn' : sh.lock = none := by cases hl : sh.lock <;> simp_all
      have htr := gu hn'
      simp at h; obtain ⟨rfl, rfl⟩ := h
      refine ⟨⟨gt, gc, gm, gd, gb, by simp⟩, ⟨by sauto, by sauto, by sauto⟩, ?_⟩
      intro t' q ne l'
      have hq : holds q = false := by
        cases hh : holds q with
        | false => rfl
        | true => have := l'.own.mp hh; simp [hn'] at this
      refine ⟨?_, ?_, ?_⟩
      · simp [hq]; exact fun e => ne e.symm
      · constructor
        · intro e; subst e; simp [holds] at hq
        · intro ⟨e, _⟩; simp at e; exact absurd e.symm ne
      · constructor
        · intro e; subst e; simp [holds] at hq
        · intro ⟨e, _⟩; simp at e; exact absurd e.symm ne
    · simp at h
  | rRmw =>
    have hl : sh.lock = some t := lo.mp rfl
    have htr : sh.tr = .none := by
      cases ht : sh.tr with
      | none => rfl
      | up => have := lu.mpr ⟨hl, ht⟩; simp at this
      | down => have := ld.mpr ⟨hl, ht⟩; simp at this
    have oth : ∀ (sh' : Sh), (sh'.lock = some t ∨ sh'.lock = none) → ∀ t' q, t' ≠ t → L sh t' q → L sh' t' q := by
      intro sh' hl' t' q ne l'
      have hq : holds q = false := by
        cases hh : holds q with
        | false => rfl
        | true => have := l'.own.mp hh; rw [hl] at this; exact absurd (Option.some.inj this).symm ne
      have nl : sh'.lock ≠ some t' := by
        rcases hl' with e | e <;> rw [e] <;> simp <;> exact fun e' => ne e'.symm
      refine ⟨by simp [hq, nl], ?_, ?_⟩
      · constructor
        · intro e; subst e; simp [holds] at hq
        · intro ⟨e, _⟩; exact absurd e nl
      · constructor
        · intro e; subst e; simp [holds] at hq
        · intro ⟨e, _⟩; exact absurd e nl
    simp only [step] at h
    split at h
    · simp at h; obtain ⟨rfl, rfl⟩ := h
      refine ⟨⟨by sauto, gc, gm, by sauto, by sauto, by sauto⟩, ⟨by sauto, by sauto, by sauto⟩, oth _ (Or.inr rfl)⟩
    · split at h
      · simp at h; obtain ⟨rfl, rfl⟩ := h
        refine ⟨⟨by sauto, gc, gm, by sauto, by sauto, by sauto⟩, ⟨by sauto, by sauto, by sauto⟩, oth _ (Or.inr rfl)⟩
      · split at h
        · simp at h
        · rename_i hs0 hov hl0
          simp at h; obtain ⟨rfl, rfl⟩ := h
          have hside : HALF ≤ sh.side := by
            have := Nat.mod_add_div sh.side HALF
            simp [HALF] at gm this hs0 ⊢; omega
          refine ⟨⟨?_, by sauto, gm, by sauto, ?_, by sauto⟩, ⟨by sauto, by sauto, by sauto⟩, oth _ (Or.inl hl)⟩
          · simp [htr, upv, downv, HALF] at gt ⊢; omega
          · simp only [htr, upv, downv, HALF] at gb hside ⊢
            by_cases e : sh.side = 32 <;> simp [e] at gb ⊢
            · exact gb.mpr hs0
  | rSide =>
    have ⟨hl, htr⟩ := ld.mp rfl
    have hge := gd htr
    simp [step] at h; obtain ⟨rfl, rfl⟩ := h
    refine ⟨⟨by sauto, gc, ?_, by sauto, by sauto, by sauto⟩, ⟨by sauto, by sauto, by sauto⟩, ?_⟩
    · simp [HALF] at gm hge ⊢; omega
    · intro t' q ne l'
      have hq : holds q = false := by
        cases hh : holds q with
        | false => rfl
        | true => have := l'.own.mp hh; rw [hl] at this; exact absurd (Option.some.inj this).symm ne
      refine ⟨by simp [hq], ?_, ?_⟩
      · constructor
        · intro e; subst e; simp [holds] at hq
        · intro ⟨e, _⟩; simp at e
      · constructor
        · intro e; subst e; simp [holds] at hq
        · intro ⟨e, _⟩; simp at e

structure Inv (s : St) : Prop where
  g : G s.sh
  l : ∀ t, L s.sh t (s.pcs t)

theorem inv_reachable {s : St} (h : Reachable s) : Inv s := by
  induction h with
  | init =>
    refine ⟨⟨by simp [upv, downv], by simp [MAXC], by simp, by simp, by simp [upv, downv], by simp⟩, fun _ => ⟨by simp [holds], by simp, by simp⟩⟩
  | step _ hs ih =>
    cases hs with
    | mk t op sh' pc' h =>
      obtain ⟨hg, hl, hoth⟩ := step_local ih.g (ih.l t) h
      refine ⟨hg, fun t' => ?_⟩
      by_cases e : t' = t
      · subst e; simpa using hl
      · simpa [e] using hoth t' _ e (ih.l t')

/-- **The suspend count is exact at any depth**: inline field + side count (+ a transfer caught
    between its two writes) equals the number of suspends minus the number of resumes. -/
theorem suspend_count_exact {s : St} (h : Reachable s) :
    s.sh.c + s.sh.side + upv s.sh.tr = s.sh.logical + downv s.sh.tr := (inv_reachable h).g.total

/-- **Suspended exactly while the logical count is positive**: the bits the drainer tests
    (inline count ≠ 0 or the side-count bit) are set iff suspends outnumber resumes. -/
theorem suspended_iff {s : St} (h : Reachable s) :
    (0 < s.sh.logical) ↔ (0 < s.sh.c ∨ s.sh.sbit = true) := by
  have g := (inv_reachable h).g
  have gt := g.total; have gb := g.bit; have gd := g.down
  cases htr : s.sh.tr <;> simp [htr, upv, downv, HALF] at gt gb gd ⊢
  · constructor
    · intro hl; by_cases hc : 0 < s.sh.c
      · exact Or.inl hc
      · exact Or.inr (gb.mpr (by omega))
    · rintro (hc | hb)
      · omega
      · have := gb.mp hb; omega
  · constructor
    · intro _; exact Or.inr gb
    · intro _; omega
  · constructor
    · intro hl; by_cases hc : 0 < s.sh.c
      · exact Or.inl hc
      · exact Or.inr (gb.mpr (by omega))
    · rintro (hc | hb)
      · omega
      · have := gb.mp hb; omega

/-! ### F23: the temporary suspension of a property setter
`dispatch_set_target_queue` / `dispatch_queue_set_width` on an active idle queue run their change under the barrier plus one
suspension of their own (`_dispatch_barrier_trysync_or_async_f`) and give it back in
`_dispatch_barrier_trysync_or_async_f_complete`. As found, the give-back was a bare subtraction of one interval from `dq_state`;
with the inline count at 0 and the rest in the side counter it wraps the 6-bit field. Since the repair it is the `resume` step of
this model (the same loop, and `_dispatch_lane_resume` when the inline count is 0), so the theorems above cover it; the
replay of real traces checks every such transition against `step … .resume`. -/

/-- one thread running a list of operations, each continued until the thread is idle again is not required: a slow path is
    written out as the operations that drive it (the operation is only read in `idle`) -/
def runT (t : Tid) (sh : Sh) (pc : Pc) : List Op → Option (Sh × Pc)
  | [] => some (sh, pc)
  | op :: ops => match step sh t pc op with
    | [] => none
    | r :: _ => runT t r.1 r.2 ops

theorem runT_reachable (t : Tid) (ops : List Op) (s : St) (sh' : Sh) (pc' : Pc) (hs : Reachable s)
    (h : runT t s.sh (s.pcs t) ops = some (sh', pc')) :
    Reachable { sh := sh', pcs := fun t' => if t' = t then pc' else s.pcs t' } := by
  induction ops generalizing s with
  | nil =>
    simp only [runT] at h
    have e1 : s.sh = sh' := congrArg Prod.fst (Option.some.inj h)
    have e2 : s.pcs t = pc' := congrArg Prod.snd (Option.some.inj h)
    have : (fun t' => if t' = t then pc' else s.pcs t') = s.pcs := by
      funext t'; by_cases e : t' = t
      · rw [if_pos e, e, e2]
      · rw [if_neg e]
    rw [this, ← e1]; exact hs
  | cons op ops ih =>
    simp only [runT] at h
    cases hst : step s.sh t (s.pcs t) op with
    | nil => rw [hst] at h; cases h
    | cons r rest =>
      rw [hst] at h
      have hr : Reachable { sh := r.1, pcs := fun t' => if t' = t then r.2 else s.pcs t' } :=
        .step hs (.mk s t op r.1 r.2 (by rw [hst]; exact List.mem_cons_self))
      have h2 : runT t r.1 r.2 ops = some (sh', pc') := h
      have h3 := ih { sh := r.1, pcs := fun t' => if t' = t then r.2 else s.pcs t' } hr (by simpa using h2)
      have e : (fun t' => if t' = t then pc' else (if t' = t then r.2 else s.pcs t')) = (fun t' => if t' = t then pc' else s.pcs t') := by
        funext t'; by_cases e : t' = t
        · rw [if_pos e, if_pos e]
        · rw [if_neg e, if_neg e, if_neg e]
      have h4 : Reachable { sh := sh', pcs := fun t' => if t' = t then pc' else (if t' = t then r.2 else s.pcs t') } := h3
      rw [e] at h4; exact h4

/-- the give-back as found: one interval subtracted from the word, whatever the inline count is -/
def rawGiveBack (sh : Sh) : Sh := { sh with c := (sh.c + MAXC) % (MAXC + 1), logical := sh.logical - 1 }

/-- 64 suspensions (the setter's and 63 nested by another thread, the 64th through the slow path), then 32 resumes -/
def f23Ops : List Op := List.replicate 63 .suspend ++ [.suspend, .suspend, .suspend, .suspend] ++ List.replicate 32 .resume

theorem f23_state : runT 1 {} .idle f23Ops = some ({ c := 0, sbit := true, side := 32, logical := 32 }, .idle) := by decide

/-- **F23 as found**: a reachable state with 32 suspensions outstanding (the setter's among them) in which the bare subtraction
    leaves inline count + side count = 95 for 31 outstanding suspensions - 64 resumes too many are needed. -/
theorem F23_as_found : ∃ s, Reachable s ∧ s.sh.logical = 32 ∧
    (rawGiveBack s.sh).c + (rawGiveBack s.sh).side = (rawGiveBack s.sh).logical + 64 := by
  refine ⟨_, runT_reachable 1 f23Ops { sh := {}, pcs := fun _ => .idle } _ _ .init f23_state, rfl, by decide⟩

/-- **F23 repaired**: given back by the model's `resume` step, the count stays exact (this is `suspend_count_exact` at the state
    after the step; stated for the witness: the resume goes through the side-count transfer and leaves 31). -/
theorem F23_fixed : runT 1 {} .idle (f23Ops ++ [.resume, .resume, .resume, .resume]) =
    some ({ c := 31, sbit := false, side := 0, logical := 31 }, .idle) := by decide

/-! ### F43: the suspension a configuring call takes on an INACTIVE object (`_dispatch_lane_try_inactive_suspend`)

`dispatch_set_target_queue` and the `dispatch_source_set_*_handler` functions suspend an inactive object for the duration of their
work with a plain addition of one interval to `dq_state`, and give the suspension back with `_dispatch_lane_resume`. The count is
the topmost field of the word. -/

/-- as found: `new_state = old_state + DISPATCH_QUEUE_SUSPEND_INTERVAL` - with the inline field full the addition carries out of
    the word and the field reads 0 -/
def rawInactiveSuspend (sh : Sh) : Sh := { sh with c := (sh.c + 1) % (MAXC + 1), logical := sh.logical + 1 }

/-- as repaired: a full inline field (like a side count in use) is refused - the documented client crash; otherwise it is the
    model's ordinary fast-path `suspend` -/
def inactiveSuspend (sh : Sh) : Option Sh :=
  if sh.c < MAXC ∧ !sh.sbit then some { sh with c := sh.c + 1, logical := sh.logical + 1 } else none

theorem f43_state : runT 1 {} .idle (List.replicate 63 .suspend) = some ({ c := 63, logical := 63 }, .idle) := by decide

/-- **F43 as found**: 63 suspensions of an inactive object are reachable through the inline field alone; the configuring call's own
    suspension then leaves a word whose count reads 0 with 64 suspensions outstanding - the object is no longer suspended - and the
    call's give-back and the 63 balancing resumes are over-resumes -/
theorem F43_as_found : ∃ s, Reachable s ∧ s.sh.logical = 63 ∧
    (rawInactiveSuspend s.sh).c = 0 ∧ (rawInactiveSuspend s.sh).sbit = false ∧ (rawInactiveSuspend s.sh).logical = 64 := by
  refine ⟨_, runT_reachable 1 (List.replicate 63 .suspend) { sh := {}, pcs := fun _ => .idle } _ _ .init f43_state, rfl, by decide⟩

/-- **F43 repaired**: whenever the configuring call's suspension is taken at all it keeps the count exact (inline field + side
    count = outstanding suspensions), and at the full inline field it is refused -/
theorem inactive_suspend_exact (sh sh' : Sh) (h : inactiveSuspend sh = some sh') (he : sh.c + sh.side = sh.logical) :
    sh'.c + sh'.side = sh'.logical ∧ sh'.c ≤ MAXC ∧ 0 < sh'.c := by
  unfold inactiveSuspend at h
  by_cases hc : sh.c < MAXC ∧ (!sh.sbit) = true
  · rw [if_pos hc] at h; cases h
    have := hc.1
    unfold MAXC at *
    refine ⟨by dsimp only; omega, by dsimp only; omega, by dsimp only; omega⟩
  · rw [if_neg hc] at h; cases h

theorem inactive_suspend_refuses_full : inactiveSuspend { c := 63, logical := 63 } = none := by decide

end SuspendP

section audit
#print axioms SuspendP.suspend_count_exact
#print axioms SuspendP.suspended_iff
end audit
