import DispatchVerif.Core.GroupPB3
/-! C07 calibration, layer C: every registered notify continuation is in exactly one of
    {the list, one waker's snapshot, submitted}; hence submitted at most once, and exactly once at
    quiescence. -/
namespace GroupP

def ids (sh : Sh) : List Nat := sh.inflight.map (·.1)

def snapOf : Pc → List Nat
  | .wake _ (some sn) => sn
  | _ => []

structure G4 (sh : Sh) : Prop where
  nd1 : (ids sh).Nodup
  nd2 : sh.submitted.Nodup
  nd3 : sh.list.Nodup
  d12 : ∀ id, id ∈ ids sh → id ∉ sh.submitted
  d13 : ∀ id, id ∈ ids sh → id ∉ sh.list
  d23 : ∀ id, id ∈ sh.submitted → id ∉ sh.list
  bnd : ∀ id, (id ∈ ids sh ∨ id ∈ sh.submitted ∨ id ∈ sh.list) → id < sh.nextId
  cov : ∀ id, id < sh.nextId → (id ∈ ids sh ∨ id ∈ sh.submitted ∨ id ∈ sh.list)

structure L4 (sh : Sh) (t : Tid) (pc : Pc) : Prop where
  own : ∀ id, (id, t) ∈ sh.inflight ↔ id ∈ snapOf pc
  snd : (snapOf pc).Nodup
  snN : ∀ st sn, pc = .wake st (some sn) → st.N = true

abbrev Post4 (sh sh' : Sh) (t : Tid) (pc' : Pc) : Prop :=
  G4 sh' ∧ L4 sh' t pc' ∧ ∀ t' q, t' ≠ t → L4 sh t' q → L4 sh' t' q

theorem mem_ids {sh : Sh} {id : Nat} : id ∈ ids sh ↔ ∃ u, (id, u) ∈ sh.inflight := by
  simp [ids]

theorem fst_unique {l : List (Nat × Tid)} (h : (l.map (·.1)).Nodup) {a : Nat} {x y : Tid}
    (hx : (a, x) ∈ l) (hy : (a, y) ∈ l) : x = y := by
  induction l with
  | nil => simp at hx
  | cons p l ih =>
    simp only [List.map_cons, List.nodup_cons] at h
    simp only [List.mem_cons] at hx hy
    rcases hx with hx | hx <;> rcases hy with hy | hy
    · rw [← hx] at hy; exact (Prod.mk.inj hy).2.symm ▸ rfl
    · exfalso; apply h.1; rw [← hx]; exact List.mem_map.mpr ⟨(a, y), hy, rfl⟩
    · exfalso; apply h.1; rw [← hy]; exact List.mem_map.mpr ⟨(a, x), hx, rfl⟩
    · exact ih h.2 hx hy

/-- a step that does not touch list / inflight / submitted / nextId -/
theorem keep4 {sh sh' : Sh} {t : Tid} {pc pc' : Pc} (g : G4 sh) (l : L4 sh t pc)
    (h1 : sh'.list = sh.list) (h2 : sh'.inflight = sh.inflight) (h3 : sh'.submitted = sh.submitted)
    (h4 : sh'.nextId = sh.nextId) (hp : snapOf pc' = snapOf pc)
    (hn : ∀ st sn, pc' = .wake st (some sn) → st.N = true := by intro st sn e; cases e) : Post4 sh sh' t pc' := by
  have hi : ids sh' = ids sh := by simp [ids, h2]
  refine ⟨⟨by rw [hi]; exact g.nd1, by rw [h3]; exact g.nd2, by rw [h1]; exact g.nd3, by rw [hi, h3]; exact g.d12,
    by rw [hi, h1]; exact g.d13, by rw [h3, h1]; exact g.d23, by rw [hi, h3, h1, h4]; exact g.bnd,
    by rw [hi, h3, h1, h4]; exact g.cov⟩, ⟨by rw [h2, hp]; exact l.own, by rw [hp]; exact l.snd, hn⟩, ?_⟩
  intro t' q _ l'
  exact ⟨by rw [h2]; exact l'.own, l'.snd, l'.snN⟩

theorem snapshot_post {sh sh2 : Sh} {t : Tid} {st : W} (g : G4 sh) (l : L4 sh t (.wake st none)) (hN : st.N = true)
    (e1 : sh2.list = []) (e2 : sh2.inflight = sh.list.map (fun i => (i, t)) ++ sh.inflight)
    (e3 : sh2.submitted = sh.submitted) (e4 : sh2.nextId = sh.nextId) :
    Post4 sh sh2 t (.wake st (some sh.list)) := by
  have hown : ∀ id, (id, t) ∉ sh.inflight := by intro id hm; have := (l.own id).mp hm; simp [snapOf] at this
  have hi : ids sh2 = sh.list ++ ids sh := by simp [ids, e2, Function.comp_def]
  have hids : ∀ id, id ∈ ids sh2 ↔ (id ∈ sh.list ∨ id ∈ ids sh) := by intro id; rw [hi]; simp
  refine ⟨⟨?_, by rw [e3]; exact g.nd2, by rw [e1]; simp, ?_, by intro id _; rw [e1]; simp, by intro id _; rw [e1]; simp, ?_, ?_⟩,
    ⟨?_, g.nd3, fun st' sn e => by cases e; exact hN⟩, ?_⟩
  · rw [hi, List.nodup_append]
    exact ⟨g.nd3, g.nd1, fun a ha b hb e => g.d13 b hb (e ▸ ha)⟩
  · intro id hm; rw [e3]
    rcases (hids id).mp hm with hm | hm
    · exact fun hs => g.d23 id hs hm
    · exact g.d12 id hm
  · intro id hm; rw [e4]
    apply g.bnd id
    rcases hm with hm | hm | hm
    · rcases (hids id).mp hm with hm | hm
      · exact Or.inr (Or.inr hm)
      · exact Or.inl hm
    · rw [e3] at hm; exact Or.inr (Or.inl hm)
    · rw [e1] at hm; simp at hm
  · intro id hlt; rw [e4] at hlt
    rcases g.cov id hlt with hm | hm | hm
    · exact Or.inl ((hids id).mpr (Or.inr hm))
    · exact Or.inr (Or.inl (by rw [e3]; exact hm))
    · exact Or.inl ((hids id).mpr (Or.inl hm))
  · intro id; rw [e2]; simp [snapOf, hown id]
  · intro t' q ne l'
    refine ⟨fun id => ?_, l'.snd, l'.snN⟩
    rw [e2, ← l'.own id]; simp [Ne.symm ne]

theorem submit_post {sh sh2 : Sh} {t : Tid} {st : W} {hd : Nat} {r : List Nat} (g : G4 sh)
    (l : L4 sh t (.wake st (some (hd :: r)))) (hN : st.N = true)
    (e1 : sh2.list = sh.list) (e2 : sh2.inflight = rmP sh.inflight (hd, t))
    (e3 : sh2.submitted = hd :: sh.submitted) (e4 : sh2.nextId = sh.nextId) :
    Post4 sh sh2 t (.wake st (some r)) := by
  have hsn : (hd :: r).Nodup := l.snd
  have hht : (hd, t) ∈ sh.inflight := (l.own hd).mpr (by simp [snapOf])
  have hhid : hd ∈ ids sh := mem_ids.mpr ⟨t, hht⟩
  have hsub : ∀ id, id ∈ ids sh2 → id ∈ ids sh ∧ id ≠ hd := by
    intro id hm
    obtain ⟨u, hu⟩ := mem_ids.mp hm
    rw [e2] at hu
    have hu' : (id, u) ∈ sh.inflight ∧ ¬ (id = hd ∧ u = t) := by
      simp [rmP] at hu
      exact ⟨hu.1, fun ⟨a, b⟩ => by rcases hu.2 with h | h; exact h a; exact h b⟩
    refine ⟨mem_ids.mpr ⟨u, hu'.1⟩, fun e => ?_⟩
    subst e
    have := fst_unique g.nd1 hu'.1 hht
    subst this; exact hu'.2 ⟨rfl, rfl⟩
  have hback : ∀ id, id ∈ ids sh → id ≠ hd → id ∈ ids sh2 := by
    intro id hm ne
    obtain ⟨u, hu⟩ := mem_ids.mp hm
    exact mem_ids.mpr ⟨u, by rw [e2]; simp [rmP, hu, ne]⟩
  refine ⟨⟨?_, ?_, by rw [e1]; exact g.nd3, ?_, ?_, ?_, ?_, ?_⟩, ⟨?_, ?_, fun st' sn e => by cases e; exact hN⟩, ?_⟩
  · have : ids sh2 = (rmP sh.inflight (hd, t)).map (·.1) := by simp [ids, e2]
    rw [this]
    exact List.Nodup.sublist (List.Sublist.map _ (List.filter_sublist)) g.nd1
  · rw [e3]; exact List.nodup_cons.mpr ⟨g.d12 hd hhid, g.nd2⟩
  · intro id hm
    have ⟨h1, h2⟩ := hsub id hm
    rw [e3]; simp only [List.mem_cons, not_or]; exact ⟨h2, g.d12 id h1⟩
  · intro id hm; rw [e1]; exact g.d13 id (hsub id hm).1
  · intro id hm; rw [e3] at hm; rw [e1]
    simp only [List.mem_cons] at hm
    rcases hm with e | hm
    · subst e; exact g.d13 _ hhid
    · exact g.d23 id hm
  · intro id hm; rw [e4]
    apply g.bnd id
    rcases hm with hm | hm | hm
    · exact Or.inl (hsub id hm).1
    · rw [e3] at hm; simp only [List.mem_cons] at hm
      rcases hm with e | hm
      · subst e; exact Or.inl hhid
      · exact Or.inr (Or.inl hm)
    · rw [e1] at hm; exact Or.inr (Or.inr hm)
  · intro id hlt; rw [e4] at hlt
    rcases g.cov id hlt with hm | hm | hm
    · by_cases e : id = hd
      · right; left; rw [e3]; simp [e]
      · exact Or.inl (hback id hm e)
    · right; left; rw [e3]; simp [hm]
    · exact Or.inr (Or.inr (by rw [e1]; exact hm))
  · intro id
    rw [e2]
    have := l.own id
    simp only [snapOf, List.mem_cons] at this
    have hnr : hd ∉ r := (List.nodup_cons.mp hsn).1
    simp only [rmP, List.mem_filter, this, snapOf]
    constructor
    · rintro ⟨h1 | h1, h2⟩
      · subst h1; simp at h2
      · exact h1
    · intro h1; refine ⟨Or.inr h1, ?_⟩
      have : id ≠ hd := fun e => hnr (e ▸ h1)
      simp [this]
  · exact (List.nodup_cons.mp hsn).2
  · intro t' q ne l'
    refine ⟨fun id => ?_, l'.snd, l'.snN⟩
    rw [e2, ← l'.own id]; simp [rmP, ne]

set_option maxHeartbeats 4000000 in
theorem step_local4 {sh : Sh} {t : Tid} {pc : Pc} {op : Op} {sh' : Sh} {pc' : Pc}
    (g : G4 sh) (l : L4 sh t pc) (h : (sh', pc') ∈ step sh t pc op) : Post4 sh sh' t pc' := by
  cases pc with
  | idle =>
    cases op with
    | enter => simp [step] at h; obtain ⟨rfl, rfl⟩ := h; exact keep4 g l rfl rfl rfl rfl rfl
    | leave =>
      simp only [step] at h
      split at h
      · simp at h
      · split at h <;> (simp at h; obtain ⟨rfl, rfl⟩ := h; exact keep4 g l rfl rfl rfl rfl rfl)
    | notify =>
      simp [step] at h; obtain ⟨rfl, rfl⟩ := h
      have hfresh : ∀ id, (id ∈ ids sh ∨ id ∈ sh.submitted ∨ id ∈ sh.list) → id ≠ sh.nextId := by
        intro id hm e; have := g.bnd id hm; omega
      refine ⟨⟨g.nd1, g.nd2, ?_, g.d12, ?_, ?_, ?_, ?_⟩, ⟨l.own, l.snd, by intro st sn e; cases e⟩, fun t' q _ l' => ⟨l'.own, l'.snd, l'.snN⟩⟩
      · show (sh.list ++ [sh.nextId]).Nodup
        rw [List.nodup_append]
        refine ⟨g.nd3, by simp, ?_⟩
        intro a ha b hb; simp at hb; subst hb; exact hfresh a (Or.inr (Or.inr ha))
      · intro id hm; show id ∉ sh.list ++ [sh.nextId]
        simp only [List.mem_append, List.mem_singleton, not_or]
        exact ⟨g.d13 id hm, hfresh id (Or.inl hm)⟩
      · intro id hm; show id ∉ sh.list ++ [sh.nextId]
        simp only [List.mem_append, List.mem_singleton, not_or]
        exact ⟨g.d23 id hm, hfresh id (Or.inr (Or.inl hm))⟩
      · intro id hm; show id < sh.nextId + 1
        rcases hm with hm | hm | hm
        · have := g.bnd id (Or.inl hm); omega
        · have := g.bnd id (Or.inr (Or.inl hm)); omega
        · have hm' : id ∈ sh.list ++ [sh.nextId] := hm
          simp only [List.mem_append, List.mem_singleton] at hm'
          rcases hm' with hm' | hm'
          · have := g.bnd id (Or.inr (Or.inr hm')); omega
          · omega
      · intro id hlt
        have hlt' : id < sh.nextId + 1 := hlt
        by_cases e : id = sh.nextId
        · right; right; show id ∈ sh.list ++ [sh.nextId]; simp [e]
        · rcases g.cov id (by omega) with hm | hm | hm
          · exact Or.inl hm
          · exact Or.inr (Or.inl hm)
          · right; right; show id ∈ sh.list ++ [sh.nextId]; simp [hm]
    | wait =>
      simp only [step] at h
      split at h <;> (simp at h; obtain ⟨rfl, rfl⟩ := h; exact keep4 g l rfl rfl rfl rfl rfl)
  | leave2 old =>
    simp only [step] at h
    split at h
    · simp at h; obtain ⟨rfl, rfl⟩ := h; exact keep4 g l rfl rfl rfl rfl rfl
    · split at h <;> (simp at h; obtain ⟨rfl, rfl⟩ := h; exact keep4 g l rfl rfl rfl rfl rfl)
  | wake st snap =>
    simp only [step] at h
    split at h
    · rename_i hN
      split at h
      · split at h
        · simp at h
        · simp at h; obtain ⟨rfl, rfl⟩ := h
          exact snapshot_post g l hN rfl rfl rfl rfl
      · simp at h; obtain ⟨rfl, rfl⟩ := h; exact keep4 g l rfl rfl rfl rfl rfl
      · rename_i hd r
        simp at h; obtain ⟨rfl, rfl⟩ := h
        exact submit_post g l hN rfl rfl rfl rfl
    · rename_i hN
      simp at h; obtain ⟨rfl, rfl⟩ := h
      have : snapOf (Pc.wake st snap) = [] := by
        cases snap with
        | none => rfl
        | some sn => exact absurd (l.snN st sn rfl) hN
      exact keep4 g l rfl rfl rfl rfl (by rw [this]; rfl)
  | wakeAddr st =>
    simp only [step] at h
    split at h <;> (simp at h; obtain ⟨rfl, rfl⟩ := h; exact keep4 g l rfl rfl rfl rfl rfl)
  | nLinked we =>
    simp only [step] at h
    split at h
    · simp at h; obtain ⟨rfl, rfl⟩ := h; exact keep4 g l rfl rfl rfl rfl rfl
    · split at h <;> (simp at h; obtain ⟨rfl, rfl⟩ := h; exact keep4 g l rfl rfl rfl rfl rfl)
  | wSlow g0 gg =>
    simp only [step] at h
    split at h <;> (simp at h; obtain ⟨rfl, rfl⟩ := h; exact keep4 g l rfl rfl rfl rfl rfl)
  | wSleep g0 gg =>
    simp only [step, List.mem_append] at h
    rcases h with h | h
    · simp at h; obtain ⟨rfl, rfl⟩ := h; exact keep4 g l rfl rfl rfl rfl rfl
    · simp at h; obtain ⟨rfl, rfl⟩ := h
      exact keep4 g l rfl rfl rfl rfl (by split <;> rfl) (hn := by intro st sn e; split at e <;> cases e)
  | wRet ok sl =>
    simp [step] at h; obtain ⟨rfl, rfl⟩ := h; exact keep4 g l rfl rfl rfl rfl rfl

end GroupP

namespace GroupP

structure Inv4 (s : St) : Prop where
  g : G4 s.sh
  l : ∀ t, L4 s.sh t (s.pcs t)

theorem inv4_reachable {s : St} (h : Reachable s) : Inv4 s := by
  induction h with
  | init =>
    refine ⟨⟨by simp [ids], by simp, by simp, by simp [ids], by simp [ids], by simp, by simp [ids], by simp⟩,
      fun _ => ⟨by simp [snapOf], by simp [snapOf], by intro st sn e; cases e⟩⟩
  | step _ hs ih =>
    cases hs with
    | mk t op sh' pc' h =>
      obtain ⟨hg, hl, hoth⟩ := step_local4 ih.g (ih.l t) h
      refine ⟨hg, fun t' => ?_⟩
      by_cases e : t' = t
      · subst e; simpa using hl
      · simpa [e] using hoth t' _ e (ih.l t')

/-- **At most once**: no notify continuation is ever submitted twice, and a submitted one is neither
    in the list nor in any waker's snapshot any more. -/
theorem notify_at_most_once {s : St} (h : Reachable s) :
    s.sh.submitted.Nodup ∧ ∀ id, id ∈ s.sh.submitted → id ∉ s.sh.list ∧ id ∉ ids s.sh := by
  have i := inv4_reachable h
  exact ⟨i.g.nd2, fun id hm => ⟨i.g.d23 id hm, fun hi => i.g.d12 id hi hm⟩⟩

/-- **Exactly once**: when every thread is outside the group's functions and the count is zero, every
    continuation ever registered has been submitted (and, by the above, only once). -/
theorem notify_exactly_once {s : St} (h : Reachable s) (hidle : ∀ t, s.pcs t = .idle) (hz : s.sh.w.count = 0) :
    ∀ id, id < s.sh.nextId → id ∈ s.sh.submitted := by
  intro id hlt
  have i := inv4_reachable h
  have ⟨hl, _, _⟩ := no_stranded_notify h hidle hz
  rcases i.g.cov id hlt with hm | hm | hm
  · obtain ⟨u, hu⟩ := mem_ids.mp hm
    have := ((i.l u).own id).mp hu
    rw [hidle u] at this; simp [snapOf] at this
  · exact hm
  · rw [hl] at hm; simp at hm

end GroupP

section audit
#print axioms GroupP.notify_at_most_once
#print axioms GroupP.notify_exactly_once
end audit
