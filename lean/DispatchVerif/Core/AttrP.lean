/-! C18 calibration: the queue-attribute table index (init.c `_dispatch_queue_attr_to_info` /
    `_dispatch_queue_attr_from_info`) is a bijection between valid attribute tuples and [0, COUNT) (4032 in this build: 3·3·7·16·2·2),
    and the public constructors act field-wise, hence commute. -/
namespace AttrP

structure Info where
  oc : Nat          -- overcommit: 0 unspecified, 1 enabled, 2 disabled
  af : Nat          -- autorelease frequency 0..2
  qos : Nat         -- dispatch_qos_t 0..6
  relpri : Nat      -- −relative priority, 0..15
  conc : Bool
  inactive : Bool
deriving DecidableEq, Repr

def COUNT : Nat := 3 * 3 * 7 * 16 * 2 * 2

def Valid (i : Info) : Prop := i.oc < 3 ∧ i.af < 3 ∧ i.qos < 7 ∧ i.relpri < 16

def fromInfo (i : Info) : Nat :=
  (((((0 * 3 + i.oc) * 3 + i.af) * 7 + i.qos) * 16 + i.relpri) * 2 + (if i.conc then 0 else 1)) * 2
    + (if i.inactive then 1 else 0)

def toInfo (idx : Nat) : Info :=
  { inactive := idx % 2 ≠ 0
    conc := (idx / 2) % 2 = 0
    relpri := (idx / 2 / 2) % 16
    qos := (idx / 2 / 2 / 16) % 7
    af := (idx / 2 / 2 / 16 / 7) % 3
    oc := (idx / 2 / 2 / 16 / 7 / 3) % 3 }

theorem count_eq : COUNT = 4032 := by decide

theorem fromInfo_lt (i : Info) (h : Valid i) : fromInfo i < COUNT := by
  obtain ⟨h1, h2, h3, h4⟩ := h
  unfold fromInfo COUNT
  cases i.conc <;> cases i.inactive <;> simp <;> omega

theorem to_from (i : Info) (h : Valid i) : toInfo (fromInfo i) = i := by
  obtain ⟨h1, h2, h3, h4⟩ := h
  obtain ⟨oc, af, qos, rp, conc, ina⟩ := i
  simp only at h1 h2 h3 h4
  unfold toInfo fromInfo
  cases conc <;> cases ina <;> simp <;> omega

theorem from_to (idx : Nat) (h : idx < COUNT) : Valid (toInfo idx) ∧ fromInfo (toInfo idx) = idx := by
  unfold COUNT at h
  refine ⟨⟨Nat.mod_lt _ (by omega), Nat.mod_lt _ (by omega), Nat.mod_lt _ (by omega), Nat.mod_lt _ (by omega)⟩, ?_⟩
  unfold toInfo fromInfo
  simp only []
  by_cases a : idx % 2 = 0 <;> by_cases b : idx / 2 % 2 = 0 <;> simp [a, b] <;> omega

/-- distinct table slots denote distinct attributes -/
theorem fromInfo_injective (i j : Info) (hi : Valid i) (hj : Valid j) (h : fromInfo i = fromInfo j) : i = j := by
  rw [← to_from i hi, ← to_from j hj, h]

/-! constructors: decode, set one field, re-encode -/
def withQos (idx qos relpri : Nat) : Nat := fromInfo { toInfo idx with qos, relpri }
def withInactive (idx : Nat) : Nat := fromInfo { toInfo idx with inactive := true }
def withOvercommit (idx : Nat) (oc : Bool) : Nat := fromInfo { toInfo idx with oc := if oc then 1 else 2 }
def withAutorelease (idx af : Nat) : Nat := fromInfo { toInfo idx with af }
/-- DISPATCH_QUEUE_CONCURRENT is the slot of `{conc := true}`; SERIAL is NULL = slot 0's info with conc=false -/
def concurrentIdx : Nat := fromInfo { oc := 0, af := 0, qos := 0, relpri := 0, conc := true, inactive := false }

theorem withQos_info (idx q r : Nat) (h : idx < COUNT) (hq : q < 7) (hr : r < 16) :
    withQos idx q r < COUNT ∧ toInfo (withQos idx q r) = { toInfo idx with qos := q, relpri := r } := by
  have ⟨v, _⟩ := from_to idx h
  have v' : Valid { toInfo idx with qos := q, relpri := r } := ⟨v.1, v.2.1, hq, hr⟩
  exact ⟨fromInfo_lt _ v', to_from _ v'⟩

theorem withInactive_info (idx : Nat) (h : idx < COUNT) :
    withInactive idx < COUNT ∧ toInfo (withInactive idx) = { toInfo idx with inactive := true } := by
  have ⟨v, _⟩ := from_to idx h
  have v' : Valid { toInfo idx with inactive := true } := v
  exact ⟨fromInfo_lt _ v', to_from _ v'⟩

theorem withOvercommit_info (idx : Nat) (oc : Bool) (h : idx < COUNT) :
    withOvercommit idx oc < COUNT ∧ toInfo (withOvercommit idx oc) = { toInfo idx with oc := if oc then 1 else 2 } := by
  have ⟨v, _⟩ := from_to idx h
  have v' : Valid { toInfo idx with oc := if oc then 1 else 2 } := ⟨by cases oc <;> simp, v.2.1, v.2.2.1, v.2.2.2⟩
  exact ⟨fromInfo_lt _ v', to_from _ v'⟩

theorem withAutorelease_info (idx af : Nat) (h : idx < COUNT) (ha : af < 3) :
    withAutorelease idx af < COUNT ∧ toInfo (withAutorelease idx af) = { toInfo idx with af } := by
  have ⟨v, _⟩ := from_to idx h
  have v' : Valid { toInfo idx with af } := ⟨v.1, ha, v.2.2.1, v.2.2.2⟩
  exact ⟨fromInfo_lt _ v', to_from _ v'⟩

/-- **order independence**, one instance per pair of constructors; e.g. qos ∘ inactive = inactive ∘ qos -/
theorem qos_inactive_commute (idx q r : Nat) (h : idx < COUNT) (hq : q < 7) (hr : r < 16) :
    withQos (withInactive idx) q r = withInactive (withQos idx q r) := by
  have ⟨a1, a2⟩ := withInactive_info idx h
  have ⟨b1, b2⟩ := withQos_info idx q r h hq hr
  unfold withQos withInactive at *
  rw [a2, b2]

theorem overcommit_autorelease_commute (idx af : Nat) (oc : Bool) (h : idx < COUNT) (ha : af < 3) :
    withOvercommit (withAutorelease idx af) oc = withAutorelease (withOvercommit idx oc) af := by
  have ⟨a1, a2⟩ := withAutorelease_info idx af h ha
  have ⟨b1, b2⟩ := withOvercommit_info idx oc h
  unfold withOvercommit withAutorelease at *
  rw [a2, b2]

end AttrP

section audit
open AttrP
#print axioms to_from
#print axioms from_to
#print axioms qos_inactive_commute
end audit
