import DispatchVerif.Core.LaneRProof
/-! C03 calibration: a target-queue hierarchy of serial lanes, any depth and fan-in. Every lane is an
    instance of the single-lane model; a thread has one pc per lane and a stack of the lanes it is
    currently nested in. The worker role on a non-root lane may only be taken from inside a drain item
    of its target (`_dispatch_lane_invoke` runs as an item of the target queue). Consequences:
    (1) the projection of a reachable hierarchy state onto any lane is a reachable single-lane state,
    so every single-lane theorem transfers; (2) a thread running a drained item of lane q is running
    an item of every lane on the path to the bottom; hence (3) at most one item of the whole hierarchy
    runs at a time. -/
namespace HierP
open LaneR

abbrev QId := Nat

structure HSt where
  sh : QId → Sh
  pcs : QId → Tid → Pc
  cur : Tid → List QId          -- the lanes the thread is nested in, innermost first

def upd {α : Type} (f : QId → α) (q : QId) (v : α) : QId → α := fun q' => if q' = q then v else f q'

def kW : K → Bool
  | .workerIdle => true
  | _ => false

/-- the worker role between the token pop and the return to wIdle -/
def inWorker : Pc → Bool
  | .dTryLock | .dInvoke | .dLoopHead | .dRun _ | .dRunning _ | .dLoopNext | .dUnlock => true
  | .dbwPop _ k | .dbwRmw _ _ k | .dbwSignal _ k | .bc1 _ k | .bc2 _ _ k => kW k
  | _ => false

@[simp] theorem inWorker_kPc (k : K) : inWorker (kPc k) = false := by cases k <;> rfl

def isDRunning : Pc → Bool
  | .dRunning _ => true
  | _ => false

variable (target : QId → Option QId)

inductive HStep : HSt → HSt → Prop
  /-- the thread takes a step of the single-lane protocol in its innermost lane; taking a token
      (entering the worker role) on a lane that has a target requires being inside a drain item of
      that target, one level down the stack -/
  | lane (s : HSt) (t : Tid) (q : QId) (rest : List QId) (op : Op) (sh' : Sh) (pc' : Pc)
      (hc : s.cur t = q :: rest)
      (h : (sh', pc') ∈ step (s.sh q) t (s.pcs q t) op)
      (hg : s.pcs q t = .wIdle → target q = none ∨
              ∃ p rest', rest = p :: rest' ∧ target q = some p ∧ isDRunning (s.pcs p t) = true) :
      HStep s { sh := upd s.sh q sh', pcs := upd s.pcs q (fun t' => if t' = t then pc' else s.pcs q t'), cur := s.cur }
  /-- start an operation on another lane (async, sync, or a drain) -/
  | push (s : HSt) (t : Tid) (q : QId) (hn : q ∉ s.cur t) :
      HStep s { s with cur := fun u => if u = t then q :: s.cur t else s.cur u }
  /-- return to the enclosing lane -/
  | pop (s : HSt) (t : Tid) (q : QId) (rest : List QId) (hc : s.cur t = q :: rest)
      (hi : s.pcs q t = .idle ∨ s.pcs q t = .wIdle) :
      HStep s { s with cur := fun u => if u = t then rest else s.cur u }

inductive HReachable : HSt → Prop
  | init : HReachable { sh := fun _ => {}, pcs := fun _ _ => .idle, cur := fun _ => [] }
  | step {s s'} : HReachable s → HStep target s s' → HReachable s'

def proj (s : HSt) (q : QId) : St := { sh := s.sh q, pcs := s.pcs q }

/-- **Projection**: every lane of a reachable hierarchy state is a reachable single-lane state. -/
theorem proj_reachable {s : HSt} (h : HReachable target s) (q : QId) : Reachable (proj s q) := by
  induction h with
  | init => exact Reachable.init
  | @step s s1 _ hs ih =>
    cases hs with
    | lane t q0 rest op sh' pc' hc h hg =>
      by_cases e : q = q0
      · subst e
        have : proj { sh := upd s.sh q sh', pcs := upd s.pcs q (fun t' => if t' = t then pc' else s.pcs q t'), cur := s.cur } q
            = { sh := sh', pcs := fun t' => if t' = t then pc' else (proj s q).pcs t' } := by
          simp [proj, upd]
        rw [this]
        exact Reachable.step ih (Step.mk (proj s q) t op sh' pc' h)
      · have : proj { sh := upd s.sh q0 sh', pcs := upd s.pcs q0 (fun t' => if t' = t then pc' else s.pcs q0 t'), cur := s.cur } q
            = proj s q := by simp [proj, upd, e]
        rw [this]; exact ih
    | push t q0 hn => exact ih
    | pop t q0 rest hc hi => exact ih

/-- q sits directly on top of p in the stack -/
def Adj (l : List QId) (q p : QId) : Prop := ∃ pre rest, l = pre ++ q :: p :: rest

def POK (s : HSt) (t : Tid) (q : QId) : Prop :=
  target q = none ∨ ∃ p, target q = some p ∧ Adj (s.cur t) q p ∧ isDRunning (s.pcs p t) = true

structure NH (s : HSt) : Prop where
  nodup : ∀ t, (s.cur t).Nodup
  ok : ∀ t q, inWorker (s.pcs q t) = true → POK target s t q
  /-- only the innermost lane of a thread can be in a state that is about to change -/
  top : ∀ t q, inWorker (s.pcs q t) = true → q ∈ s.cur t

/-- the single-lane protocol enters the worker role only through the token pop at wIdle -/
theorem enter_worker {sh : Sh} {t : Tid} {pc : Pc} {op : Op} {sh' : Sh} {pc' : Pc}
    (h : (sh', pc') ∈ step sh t pc op) (hw : inWorker pc' = true) : inWorker pc = true ∨ pc = .wIdle := by
  cases pc <;> simp only [step] at h
  all_goals (try (repeat' split at h))
  all_goals (try simp at h)
  all_goals (try (first | (obtain ⟨rfl, rfl⟩ := h) | (rcases h with ⟨rfl, rfl⟩ | ⟨rfl, rfl⟩)))
  all_goals (try (simp only [inWorker_kPc] at hw; cases hw))
  all_goals (try simp_all [inWorker, kW])

theorem adj_not_head {q0 q p : QId} {rest : List QId} (hn : (q0 :: rest).Nodup) (ha : Adj (q0 :: rest) q p)
    (hq : q ≠ q0) : p ≠ q0 ∧ Adj rest q p := by
  obtain ⟨pre, r2, e⟩ := ha
  cases pre with
  | nil => simp at e; exact absurd e.1.symm hq
  | cons a pre' =>
    simp at e
    obtain ⟨e1, e2⟩ := e
    subst e1
    refine ⟨?_, ⟨pre', r2, e2⟩⟩
    intro hp; subst hp
    have : p ∈ rest := by rw [e2]; simp
    exact (List.nodup_cons.mp hn).1 this

theorem nh_step {s s' : HSt} (n : NH target s) (hs : HStep target s s') : NH target s' := by
  cases hs with
  | lane t0 q0 rest op sh' pc' hc h hg =>
    have hnd := n.nodup t0
    rw [hc] at hnd
    have pcs_eq : ∀ q t, (q ≠ q0 ∨ t ≠ t0) →
        (upd s.pcs q0 (fun t' => if t' = t0 then pc' else s.pcs q0 t')) q t = s.pcs q t := by
      intro q t hne
      unfold upd
      by_cases e : q = q0
      · subst e
        rcases hne with hne | hne
        · exact absurd rfl hne
        · simp [hne]
      · simp [e]
    have pcs_self : (upd s.pcs q0 (fun t' => if t' = t0 then pc' else s.pcs q0 t')) q0 t0 = pc' := by simp [upd]
    refine ⟨n.nodup, ?_, ?_⟩
    · intro t q hw
      by_cases e : q = q0 ∧ t = t0
      · obtain ⟨rfl, rfl⟩ := e
        simp only [pcs_self] at hw
        rcases enter_worker h hw with hold | hidle
        · -- already in the worker role: the parent frame is untouched
          rcases n.ok t q hold with hn | ⟨p, hp, ha, hr⟩
          · exact Or.inl hn
          · refine Or.inr ⟨p, hp, ha, ?_⟩
            have hpq : p ≠ q := by
              obtain ⟨pre, r2, e⟩ := ha
              rw [hc] at e
              cases pre with
              | nil =>
                simp at e
                intro hpq; subst hpq
                have : p ∈ rest := by rw [e]; simp
                exact (List.nodup_cons.mp hnd).1 this
              | cons a pre' =>
                simp at e
                obtain ⟨e1, e2⟩ := e
                subst e1
                have : q ∈ rest := by rw [e2]; simp
                exact absurd this (List.nodup_cons.mp hnd).1
            show isDRunning ((upd s.pcs q (fun t' => if t' = t then pc' else s.pcs q t')) p t) = true
            rw [pcs_eq p t (Or.inl hpq)]; exact hr
        · -- just took a token: the guard provides the parent
          rcases hg hidle with hn | ⟨p, rest', hr, hp, hd⟩
          · exact Or.inl hn
          · refine Or.inr ⟨p, hp, ⟨[], rest', by rw [hc, hr]; rfl⟩, ?_⟩
            have hpq : p ≠ q := by
              intro e; subst e
              rw [hr] at hnd; simp at hnd
            show isDRunning ((upd s.pcs q (fun t' => if t' = t then pc' else s.pcs q t')) p t) = true
            rw [pcs_eq p t (Or.inl hpq)]; exact hd
      · have hne : q ≠ q0 ∨ t ≠ t0 := by
          by_cases e1 : q = q0
          · right; intro e2; exact e ⟨e1, e2⟩
          · exact Or.inl e1
        have hw' : inWorker (s.pcs q t) = true := by
          have := pcs_eq q t hne
          simp only [this] at hw; exact hw
        rcases n.ok t q hw' with hn | ⟨p, hp, ha, hr⟩
        · exact Or.inl hn
        · refine Or.inr ⟨p, hp, ha, ?_⟩
          show isDRunning ((upd s.pcs q0 (fun t' => if t' = t0 then pc' else s.pcs q0 t')) p t) = true
          by_cases et : t = t0
          · subst et
            have hq : q ≠ q0 := by rcases hne with h1 | h1; exact h1; exact absurd rfl h1
            have ha' : Adj (q0 :: rest) q p := by rw [← hc]; exact ha
            have := (adj_not_head hnd ha' hq).1
            rw [pcs_eq p t (Or.inl this)]; exact hr
          · rw [pcs_eq p t (Or.inr et)]; exact hr
    · intro t q hw
      by_cases e : q = q0 ∧ t = t0
      · obtain ⟨rfl, rfl⟩ := e; show q ∈ s.cur t; rw [hc]; simp
      · have hne : q ≠ q0 ∨ t ≠ t0 := by
          by_cases e1 : q = q0
          · right; intro e2; exact e ⟨e1, e2⟩
          · exact Or.inl e1
        have := pcs_eq q t hne
        simp only [this] at hw
        exact n.top t q hw
  | push t0 q0 hn0 =>
    refine ⟨?_, ?_, ?_⟩
    · intro t; show (if t = t0 then q0 :: s.cur t0 else s.cur t).Nodup
      by_cases e : t = t0
      · simp only [e, if_true]; exact List.nodup_cons.mpr ⟨hn0, n.nodup t0⟩
      · simp only [e, if_false]; exact n.nodup t
    · intro t q hw
      rcases n.ok t q hw with hn | ⟨p, hp, ha, hr⟩
      · exact Or.inl hn
      · refine Or.inr ⟨p, hp, ?_, hr⟩
        show Adj (if t = t0 then q0 :: s.cur t0 else s.cur t) q p
        by_cases e : t = t0
        · subst e; simp only [if_true]
          obtain ⟨pre, r2, e2⟩ := ha
          exact ⟨q0 :: pre, r2, by rw [e2]; rfl⟩
        · simp only [e, if_false]; exact ha
    · intro t q hw
      have := n.top t q hw
      show q ∈ (if t = t0 then q0 :: s.cur t0 else s.cur t)
      by_cases e : t = t0
      · subst e; simp [this]
      · simp [e, this]
  | pop t0 q0 rest hc hi =>
    have hnw : inWorker (s.pcs q0 t0) = false := by rcases hi with h | h <;> rw [h] <;> rfl
    have hnd := n.nodup t0
    rw [hc] at hnd
    refine ⟨?_, ?_, ?_⟩
    · intro t; show (if t = t0 then rest else s.cur t).Nodup
      by_cases e : t = t0
      · simp only [e, if_true]; exact (List.nodup_cons.mp hnd).2
      · simp only [e, if_false]; exact n.nodup t
    · intro t q hw
      rcases n.ok t q hw with hn | ⟨p, hp, ha, hr⟩
      · exact Or.inl hn
      · refine Or.inr ⟨p, hp, ?_, hr⟩
        show Adj (if t = t0 then rest else s.cur t) q p
        by_cases e : t = t0
        · subst e; simp only [if_true]
          have hq : q ≠ q0 := by intro e; subst e; rw [hnw] at hw; cases hw
          have ha' : Adj (q0 :: rest) q p := by rw [← hc]; exact ha
          exact (adj_not_head hnd ha' hq).2
        · simp only [e, if_false]; exact ha
    · intro t q hw
      have hm := n.top t q hw
      show q ∈ (if t = t0 then rest else s.cur t)
      by_cases e : t = t0
      · subst e; simp only [if_true]
        have hq : q ≠ q0 := by intro e; subst e; rw [hnw] at hw; cases hw
        rw [hc] at hm; simp [hq] at hm; exact hm
      · simp [e, hm]

theorem nh_reachable {s : HSt} (h : HReachable target s) : NH target s := by
  induction h with
  | init => exact ⟨by intro t; simp, by intro t q hw; simp [inWorker] at hw, by intro t q hw; simp [inWorker] at hw⟩
  | step _ hs ih => exact nh_step target ih hs

/-- b is the bottom of the target chain starting at q -/
inductive BottomOf : QId → QId → Prop
  | here (q : QId) (h : target q = none) : BottomOf q q
  | down (q p b : QId) (h : target q = some p) (hb : BottomOf p b) : BottomOf q b

/-- **Nested hold**: a thread running a drained item of lane q is at the same time running a drained
    item of every lane down the target chain, in particular of the bottom lane. -/
theorem nested_hold {s : HSt} (n : NH target s) {q b : QId} (hb : BottomOf target q b) (t : Tid)
    (hr : isDRunning (s.pcs q t) = true) : isDRunning (s.pcs b t) = true := by
  induction hb with
  | here q h => exact hr
  | down q p b h _ ih =>
    have hw : inWorker (s.pcs q t) = true := by
      cases hpc : s.pcs q t <;> simp [hpc, isDRunning] at hr <;> simp [inWorker]
    rcases n.ok t q hw with hn | ⟨p', hp', _, hr'⟩
    · rw [h] at hn; cases hn
    · rw [h] at hp'; cases hp'; exact ih hr'

/-- **Hierarchy exclusion** (any depth, any fan-in): two threads that each run an item of some lane
    of a hierarchy with bottom lane b — a drained (asynchronous) item of any lane of the hierarchy,
    or any item, synchronous or not, of the bottom lane itself — are the same thread. -/
theorem hier_exclusion {s : HSt} (h : HReachable target s) (b : QId) (t t' : Tid)
    (ht : (∃ q, BottomOf target q b ∧ isDRunning (s.pcs q t) = true) ∨ isRunning (s.pcs b t) = true)
    (ht' : (∃ q, BottomOf target q b ∧ isDRunning (s.pcs q t') = true) ∨ isRunning (s.pcs b t') = true) :
    t = t' := by
  have n := nh_reachable target h
  have key : ∀ u, ((∃ q, BottomOf target q b ∧ isDRunning (s.pcs q u) = true) ∨ isRunning (s.pcs b u) = true) →
      isRunning ((proj s b).pcs u) = true := by
    intro u hu
    rcases hu with ⟨q, hq, hr⟩ | hr
    · have := nested_hold target n hq u hr
      show isRunning (s.pcs b u) = true
      cases hpc : s.pcs b u <;> simp [hpc, isDRunning] at this <;> simp [isRunning]
    · exact hr
  exact serial_exclusion (proj_reachable target h b) t t' (key t ht) (key t' ht')

end HierP

section audit
#print axioms HierP.hier_exclusion
#print axioms HierP.proj_reachable
end audit

