import DispatchVerif.Core.GroupPA
/-! C07: the clause "a notify block is not submitted before all work entered before the notify call
    has left" is FALSE of the code (finding F9); the witness is a six-call schedule. -/
namespace GroupP

/-- run a schedule, taking the first enabled alternative of each step -/
def exec : St → List (Tid × Op) → Option St
  | s, [] => some s
  | s, (t, op) :: r =>
    match step s.sh t (s.pcs t) op with
    | [] => none
    | (sh', pc') :: _ => exec { sh := sh', pcs := fun t' => if t' = t then pc' else s.pcs t' } r

theorem exec_reachable : ∀ (tr : List (Tid × Op)) (s s' : St), Reachable s → exec s tr = some s' → Reachable s'
  | [], s, s', hr, he => by simp [exec] at he; exact he ▸ hr
  | (t, op) :: r, s, s', hr, he => by
    simp only [exec] at he
    split at he
    · cases he
    · rename_i sh' pc' rest hstep
      exact exec_reachable r _ s' (Reachable.step hr (Step.mk s t op sh' pc' (by rw [hstep]; simp))) he

def init : St := { sh := {}, pcs := fun _ => .idle }

/-- thread 0: notify on the empty group, publishes, gives up and enters `_dispatch_group_wake`, stalls;
    thread 1: enter, then notify; thread 0 resumes: snapshot, submit, submit. -/
def f9 : List (Tid × Op) :=
  [(0, .notify), (0, .notify), (1, .enter), (1, .notify), (1, .notify), (0, .notify), (0, .notify), (0, .notify)]

/-- **F9 as a theorem**: a reachable state in which continuation 1 has been submitted although the
    group has never been empty since it was registered (the count is still 1 from the enter that
    preceded the notify call). -/
theorem notify_not_early_is_false :
    ∃ s, Reachable s ∧ 1 ∈ s.sh.submitted ∧ 1 ∉ s.sh.zeroSince ∧ s.sh.w.count = 1 := by
  have h : ∃ s, exec init f9 = some s := by
    cases he : exec init f9 with
    | none => simp [exec, f9, init, step] at he
    | some s => exact ⟨s, rfl⟩
  obtain ⟨s, hs⟩ := h
  refine ⟨s, exec_reachable f9 init s Reachable.init hs, ?_⟩
  simp [exec, f9, init, step, rmP, rm] at hs
  subst hs
  simp

end GroupP

section audit
#print axioms GroupP.notify_not_early_is_false
end audit
