import DispatchVerif.Core.LaneFFifo5
namespace LaneF

set_option maxHeartbeats 8000000 in
theorem fifo_client {s : St} (inv : Inv s) (gf : GF s.sh) (lf : ∀ u, LF s.sh u (s.pcs u)) {t : Tid} {op : Op}
    {sh' : Sh} {pc' : Pc} (h : (sh', pc') ∈ step s.sh t (s.pcs t) op)
    (hpc : s.pcs t = .idle ∨ (∃ i w, s.pcs t = .pPushed i w) ∨ (∃ i w, s.pcs t = .pLinked i w) ∨
      (∃ i, s.pcs t = .sSlowPush i) ∨ (∃ i w, s.pcs t = .sSlowLink i w) ∨ s.pcs t = .wIdle) :
    PostF s t sh' pc' := by
  have f1 := gf.f1
  have lt := lf t
  have h' := h
  rcases hpc with e | ⟨i, w, e⟩ | ⟨i, w, e⟩ | ⟨i, e⟩ | ⟨i, w, e⟩ | e <;> rw [e] at h' lt
  · -- idle
    cases op <;> simp [step] at h' <;> obtain ⟨rfl, rfl⟩ := h'
    · exact free_step inv gf lf h rfl (Or.inl rfl) (by simp [f1]) rfl (by simp) (by rw [e]; rfl) (fun u hm => hm)
        (by intro hc; obtain ⟨id, h1, _⟩ := lt.c hc; simp [waitId, waitId0] at h1) (by rw [e]; exact Or.inl rfl)
    · exact free_step inv gf lf h rfl (Or.inl rfl) f1 rfl (by simp) (by rw [e]; rfl) (fun u hm => hm)
        (by intro hc; obtain ⟨id, h1, _⟩ := lt.c hc; simp [waitId, waitId0] at h1) (by rw [e]; exact Or.inl rfl)
    · exact free_step inv gf lf h rfl (Or.inl rfl) f1 rfl (by simp) (by rw [e]; rfl) (fun u hm => hm)
        (by intro hc; obtain ⟨id, h1, _⟩ := lt.c hc; simp [waitId, waitId0] at h1) (by rw [e]; exact Or.inl rfl)
  · -- pPushed
    simp [step] at h'; obtain ⟨rfl, rfl⟩ := h'
    exact free_step inv gf lf h rfl (Or.inl rfl) (by simp [f1, map_id_linkItem]) rfl (by simp) (by rw [e]; rfl) (fun u hm => hm)
      (by intro hc; obtain ⟨id, h1, _⟩ := lt.c hc; simp [waitId, waitId0] at h1) (by rw [e]; exact Or.inl rfl)
  · -- pLinked
    simp only [step] at h'
    split at h'
    · split at h'
      · simp at h'; obtain ⟨rfl, rfl⟩ := h'
        exact free_step inv gf lf h rfl (Or.inl rfl) f1 rfl (by simp) (by rw [e]; rfl) (fun u hm => hm)
          (by intro hc; obtain ⟨id, h1, _⟩ := lt.c hc; simp [waitId, waitId0] at h1) (by rw [e]; exact Or.inl rfl)
      · simp at h'; obtain ⟨rfl, rfl⟩ := h'
        exact free_step inv gf lf h rfl (Or.inl rfl) f1 rfl (by simp) (by rw [e]; rfl) (fun u hm => hm)
          (by intro hc; obtain ⟨id, h1, _⟩ := lt.c hc; simp [waitId, waitId0] at h1) (by rw [e]; exact Or.inl rfl)
    · split at h'
      · simp at h'; obtain ⟨rfl, rfl⟩ := h'
        exact free_step inv gf lf h rfl (Or.inl rfl) f1 rfl (by simp) (by rw [e]; rfl) (fun u hm => hm)
          (by intro hc; obtain ⟨id, h1, _⟩ := lt.c hc; simp [waitId, waitId0] at h1) (by rw [e]; exact Or.inl rfl)
      · simp at h'; obtain ⟨rfl, rfl⟩ := h'
        exact free_step inv gf lf h rfl (Or.inl rfl) f1 rfl (by simp) (by rw [e]; rfl) (fun u hm => hm)
          (by intro hc; obtain ⟨id, h1, _⟩ := lt.c hc; simp [waitId, waitId0] at h1) (by rw [e]; exact Or.inl rfl)
  · -- sSlowPush
    simp [step] at h'; obtain ⟨rfl, rfl⟩ := h'
    exact free_step inv gf lf h rfl (Or.inl rfl) (by simp [f1]) rfl (by simp) (by rw [e]; rfl) (fun u hm => hm)
      (by intro hc; obtain ⟨id, h1, _⟩ := lt.c hc; simp [waitId, waitId0] at h1)
      (Or.inr (by intro it hm hw; have := lt.d it hm hw; simp [waitId0] at this))
  · -- sSlowLink
    simp only [step] at h'
    split at h' <;> (simp at h'; obtain ⟨rfl, rfl⟩ := h'; exact free_step inv gf lf h rfl (Or.inl rfl) (by simp [f1, map_id_linkItem]) rfl (by simp) (by rw [e]; rfl) (fun u hm => hm) (by intro _; rw [e]; rfl) (by rw [e]; exact Or.inl rfl))
  · -- wIdle
    simp only [step] at h'
    split at h'
    · simp at h'; obtain ⟨rfl, rfl⟩ := h'
      exact free_step inv gf lf h rfl (Or.inl rfl) f1 rfl (by simp) (by rw [e]; rfl) (fun u hm => hm)
        (by intro hc; obtain ⟨id, h1, _⟩ := lt.c hc; simp [waitId, waitId0] at h1) (by rw [e]; exact Or.inl rfl)
    · simp at h'

end LaneF
