import DispatchVerif.Core.IoP3
/-! C14: a read operation never hands over more bytes than the requested length. -/
namespace IoP

theorem allocBuf_total (op : Op) : (allocBuf op).total = op.total ∧ (allocBuf op).length = op.length := by
  unfold allocBuf; split <;> simp

theorem deliver_total (op : Op) (a b c : Bool) :
    (deliverData op a b c).1.total = op.total ∧ (deliverData op a b c).1.length = op.length := by
  unfold deliverData
  simp only []
  repeat' split
  all_goals exact ⟨rfl, rfl⟩

/-- the part of `handle` after `perform` -/
def post (op : Op) (r : Result) : Op × List Call × Bool :=
  match r with
  | .deliver => let (op, c) := deliverData op false false false; (op, c, false)
  | .deliverAndComplete =>
    let (op, c) := deliverData op true false true
    let (op, c2) := deliverData op false true false
    (op, c ++ c2, true)
  | .complete => let (op, c) := deliverData op false true false; (op, c, true)
  | .resume => (op, [], false)

theorem handle_eq (op : Op) (o : Outcome) : handle op o = post (perform op o).1 (perform op o).2 := by
  unfold handle post
  cases perform op o with
  | mk op' r => cases r <;> rfl

theorem post_total (op : Op) (r : Result) : (post op r).1.total = op.total ∧ (post op r).1.length = op.length := by
  cases r with
  | deliver => exact deliver_total op false false false
  | deliverAndComplete =>
    have h1 := deliver_total op true false true
    have h2 := deliver_total (deliverData op true false true).1 false true false
    exact ⟨by show (deliverData (deliverData op true false true).1 false true false).1.total = _; rw [h2.1, h1.1],
           by show (deliverData (deliverData op true false true).1 false true false).1.length = _; rw [h2.2, h1.2]⟩
  | complete => exact deliver_total op false true false
  | resume => exact ⟨rfl, rfl⟩

theorem perform_total (op : Op) (o : Outcome) :
    (perform op o).1.total = op.total + (bytesOf o).length ∧ (perform op o).1.length = op.length := by
  have ⟨a1, a2⟩ := allocBuf_total op
  cases o <;> simp [perform, bytesOf, a1, a2]

theorem handle_total (op : Op) (o : Outcome) :
    (handle op o).1.total = op.total + (bytesOf o).length ∧ (handle op o).1.length = op.length := by
  rw [handle_eq]
  have h1 := post_total (perform op o).1 (perform op o).2
  have h2 := perform_total op o
  exact ⟨by rw [h1.1, h2.1], by rw [h1.2, h2.2]⟩

/-- the kernel is never asked for, hence never hands over, more than what is left of the requested length -/
theorem runBytes_le : ∀ (os : List Outcome) (op : Op) (l : Nat), Inv op → Legal op os → op.length = some l →
    (runBytes op os).length + op.total ≤ l := by
  intro os
  induction os with
  | nil => intro op l h _ hl; simp [runBytes]; have := (h.tot l hl).1; omega
  | cons o os ih =>
    intro op l hinv hleg hl
    have ⟨lo, lrest⟩ := legal_cons hleg
    have hs := handle_spec hinv o lo
    have ⟨ht, hlen⟩ := handle_total op o
    have hb : (bytesOf o).length + op.total ≤ l := by
      cases o with
      | bytes bs =>
        simp only [bytesOf]
        have ⟨_, hbuf, _, _, _, htot, _⟩ := alloc_spec hinv
        have := htot l hl
        have hrl : bs.length ≤ readLen op := lo.2
        unfold readLen at hrl
        rw [hbuf] at hrl
        omega
      | _ => simp [bytesOf]; have := (hinv.tot l hl).1; omega
    simp only [runBytes, List.length_append]
    by_cases hf : (handle op o).2.2 = true
    · simp [hf]; omega
    · have hf' : (handle op o).2.2 = false := by cases h : (handle op o).2.2 <;> simp_all
      have ⟨hinv', _⟩ := hs.cont hf'
      have := ih (handle op o).1 l hinv' lrest (by rw [hlen]; exact hl)
      simp only [hf', Bool.false_eq_true, if_false]
      omega

end IoP
