/-! C14, orchestration: "the cleanup handler runs after every handler call of the operations on the descriptor has returned, after
    the library has stopped monitoring the descriptor, and no handler call starts after it".
    The descriptor entry's close queue is suspended once per holder: `_dispatch_fd_entry_retain` suspends it and
    `_dispatch_fd_entry_release` resumes it. Holders: a lookup of the entry (`_dispatch_fd_entry_init_async`, from the lookup or
    creation on the lock queue until the completion callback has returned), every channel from its creation callback until it is
    closed (`_dispatch_io_stop` / `dispatch_io_close` / `_dispatch_io_dispose`), every operation object from
    `_dispatch_operation_create` to `_dispatch_operation_dispose`, every handler call from its submission in
    `_dispatch_operation_deliver_data` (or in the zero-length shortcut of `_dispatch_operation_create`) until the handler has
    returned. The first block on the close queue (queued when the entry is created) tears the entry down: it removes it from the
    table (lookups and the close queue are serialised by the lock queue, so no lookup finds it afterwards) and cancels the
    stream sources, holding the entry once per source until the source's cancellation handler has run. The blocks that submit the
    cleanup handlers are queued behind it. -/
namespace IoHold

abbrev Call := Nat × Nat      -- (operation, serial number of the handler call)

structure St where
  lookups : Nat := 1             -- lookups in progress (the entry is created by one)
  chans : List Nat := []         -- channels open on the descriptor
  ops : List Nat := []           -- operation objects alive
  dels : List Call := []         -- handler calls submitted, not started
  running : List Call := []      -- handler calls started, not returned
  srcs : Nat := 0                -- stream sources cancelled by the teardown, cancellation handler not yet run
  count : Nat := 1               -- suspension count of the close queue
  torn : Bool := false           -- the teardown block has run
  cleaned : Bool := false        -- the cleanup handlers have been submitted
  -- history
  submitted : List Call := []
  returned : List Call := []
deriving DecidableEq

inductive K | lookup | opened | looked | create | deliver | zero | begin | finish | dispose | close | teardown (n : Nat) | srcDone | cleanup
deriving DecidableEq, Repr

inductive Step : St → K → St → Prop
  | lookup (s : St) (ht : s.torn = false) :
      Step s .lookup { s with lookups := s.lookups + 1, count := s.count + 1 }
  | opened (s : St) (c : Nat) (hl : 0 < s.lookups) :
      Step s .opened { s with chans := c :: s.chans, count := s.count + 1 }
  | looked (s : St) (hl : 0 < s.lookups) :
      Step s .looked { s with lookups := s.lookups - 1, count := s.count - 1 }
  | create (s : St) (c i : Nat) (hc : c ∈ s.chans) :
      Step s .create { s with ops := i :: s.ops, count := s.count + 1 }
  | deliver (s : St) (i k : Nat) (hi : i ∈ s.ops) :
      Step s .deliver { s with dels := (i, k) :: s.dels, submitted := (i, k) :: s.submitted, count := s.count + 1 }
  | zero (s : St) (c i k : Nat) (hc : c ∈ s.chans) :         -- zero-length shortcut: a handler call without an operation object
      Step s .zero { s with dels := (i, k) :: s.dels, submitted := (i, k) :: s.submitted, count := s.count + 1 }
  | begin (s : St) (d : Call) (hd : d ∈ s.dels) :
      Step s .begin { s with dels := s.dels.erase d, running := d :: s.running }
  | finish (s : St) (d : Call) (hd : d ∈ s.running) :
      Step s .finish { s with running := s.running.erase d, returned := d :: s.returned, count := s.count - 1 }
  | dispose (s : St) (i : Nat) (hi : i ∈ s.ops) :
      Step s .dispose { s with ops := s.ops.erase i, count := s.count - 1 }
  | close (s : St) (c : Nat) (hc : c ∈ s.chans) :
      Step s .close { s with chans := s.chans.erase c, count := s.count - 1 }
  | teardown (s : St) (n : Nat) (h0 : s.count = 0) (ht : s.torn = false) :
      Step s (.teardown n) { s with torn := true, srcs := n, count := n }
  | srcDone (s : St) (hs : 0 < s.srcs) :
      Step s .srcDone { s with srcs := s.srcs - 1, count := s.count - 1 }
  | cleanup (s : St) (ht : s.torn = true) (h0 : s.count = 0) (hn : s.cleaned = false) :
      Step s .cleanup { s with cleaned := true }

inductive Reachable : St → Prop
  | init : Reachable {}
  | step {s k s'} : Reachable s → Step s k s' → Reachable s'

structure Inv (s : St) : Prop where
  acct : s.count = s.lookups + s.chans.length + s.ops.length + s.dels.length + s.running.length + s.srcs
  hist : ∀ (d : Call), d ∈ s.submitted → d ∈ s.dels ∨ d ∈ s.running ∨ d ∈ s.returned
  quiet : s.torn = true → s.lookups = 0 ∧ s.chans = [] ∧ s.ops = [] ∧ s.dels = [] ∧ s.running = []
  pre : s.torn = false → s.srcs = 0 ∧ s.cleaned = false
  done : s.cleaned = true → s.count = 0

theorem hist_cons {s : St} (c : Call) (hi : ∀ (d : Call), d ∈ s.submitted → d ∈ s.dels ∨ d ∈ s.running ∨ d ∈ s.returned) :
    ∀ (d : Call), d ∈ c :: s.submitted → d ∈ c :: s.dels ∨ d ∈ s.running ∨ d ∈ s.returned := by
  intro d hd
  rcases List.mem_cons.mp hd with e | hd
  · exact Or.inl (by rw [e]; exact List.mem_cons_self)
  · rcases hi d hd with h | h | h
    · exact Or.inl (List.mem_cons_of_mem _ h)
    · exact Or.inr (Or.inl h)
    · exact Or.inr (Or.inr h)

theorem not_torn_of_pos {s : St} (q : s.torn = true → s.lookups = 0 ∧ s.chans = [] ∧ s.ops = [] ∧ s.dels = [] ∧ s.running = [])
    (h : 0 < s.lookups + s.chans.length + s.ops.length + s.dels.length + s.running.length) : s.torn = false := by
  cases ht : s.torn
  · rfl
  · obtain ⟨a, b, c, d, e⟩ := q ht
    rw [a, b, c, d, e] at h; simp at h

macro "acct" : tactic => `(tactic| (dsimp only; (try simp only [List.length_cons]); omega))

theorem inv_reachable {s : St} (h : Reachable s) : Inv s := by
  induction h with
  | init => exact ⟨by simp, by simp, by simp, by simp, by simp⟩
  | @step s k s' _ hs ih =>
    obtain ⟨ac, hi, qu, pr, dn⟩ := ih
    cases hs with
    | lookup ht =>
      refine ⟨?_, hi, ?_, pr, ?_⟩
      · acct
      · intro h; rw [ht] at h; cases h
      · intro h; rw [(pr ht).2] at h; cases h
    | opened c hl =>
      have ht : s.torn = false := not_torn_of_pos qu (by omega)
      refine ⟨?_, hi, ?_, pr, ?_⟩
      · acct
      · intro h; rw [ht] at h; cases h
      · intro h; rw [(pr ht).2] at h; cases h
    | looked hl =>
      have ht : s.torn = false := not_torn_of_pos qu (by omega)
      refine ⟨?_, hi, ?_, pr, ?_⟩
      · acct
      · intro h; rw [ht] at h; cases h
      · intro h; rw [(pr ht).2] at h; cases h
    | create c i hc =>
      have : 0 < s.chans.length := List.length_pos_of_mem hc
      have ht : s.torn = false := not_torn_of_pos qu (by omega)
      refine ⟨?_, hi, ?_, pr, ?_⟩
      · acct
      · intro h; rw [ht] at h; cases h
      · intro h; rw [(pr ht).2] at h; cases h
    | deliver i k hm =>
      have : 0 < s.ops.length := List.length_pos_of_mem hm
      have ht : s.torn = false := not_torn_of_pos qu (by omega)
      refine ⟨?_, hist_cons _ hi, ?_, pr, ?_⟩
      · acct
      · intro h; rw [ht] at h; cases h
      · intro h; rw [(pr ht).2] at h; cases h
    | zero c i k hc =>
      have : 0 < s.chans.length := List.length_pos_of_mem hc
      have ht : s.torn = false := not_torn_of_pos qu (by omega)
      refine ⟨?_, hist_cons _ hi, ?_, pr, ?_⟩
      · acct
      · intro h; rw [ht] at h; cases h
      · intro h; rw [(pr ht).2] at h; cases h
    | begin d hd =>
      have hp : 0 < s.dels.length := List.length_pos_of_mem hd
      have ht : s.torn = false := not_torn_of_pos qu (by omega)
      refine ⟨?_, ?_, ?_, pr, dn⟩
      · have := List.length_erase_of_mem hd
        acct
      · intro x hx
        rcases hi x hx with h | h | h
        · by_cases e : x = d
          · exact Or.inr (Or.inl (by rw [e]; exact List.mem_cons_self))
          · exact Or.inl ((List.mem_erase_of_ne e).mpr h)
        · exact Or.inr (Or.inl (List.mem_cons_of_mem _ h))
        · exact Or.inr (Or.inr h)
      · intro h; rw [ht] at h; cases h
    | finish d hd =>
      have hp : 0 < s.running.length := List.length_pos_of_mem hd
      have ht : s.torn = false := not_torn_of_pos qu (by omega)
      refine ⟨?_, ?_, ?_, pr, ?_⟩
      · have := List.length_erase_of_mem hd
        acct
      · intro x hx
        rcases hi x hx with h | h | h
        · exact Or.inl h
        · by_cases e : x = d
          · exact Or.inr (Or.inr (by rw [e]; exact List.mem_cons_self))
          · exact Or.inr (Or.inl ((List.mem_erase_of_ne e).mpr h))
        · exact Or.inr (Or.inr (List.mem_cons_of_mem _ h))
      · intro h; rw [ht] at h; cases h
      · intro h; rw [(pr ht).2] at h; cases h
    | dispose i hm =>
      have hp : 0 < s.ops.length := List.length_pos_of_mem hm
      have ht : s.torn = false := not_torn_of_pos qu (by omega)
      refine ⟨?_, hi, ?_, pr, ?_⟩
      · have := List.length_erase_of_mem hm
        acct
      · intro h; rw [ht] at h; cases h
      · intro h; rw [(pr ht).2] at h; cases h
    | close c hc =>
      have hp : 0 < s.chans.length := List.length_pos_of_mem hc
      have ht : s.torn = false := not_torn_of_pos qu (by omega)
      refine ⟨?_, hi, ?_, pr, ?_⟩
      · have := List.length_erase_of_mem hc
        acct
      · intro h; rw [ht] at h; cases h
      · intro h; rw [(pr ht).2] at h; cases h
    | teardown n h0 ht =>
      rw [h0] at ac
      have hl : s.lookups = 0 := by omega
      have hc : s.chans = [] := List.eq_nil_of_length_eq_zero (by omega)
      have ho : s.ops = [] := List.eq_nil_of_length_eq_zero (by omega)
      have hd : s.dels = [] := List.eq_nil_of_length_eq_zero (by omega)
      have hr : s.running = [] := List.eq_nil_of_length_eq_zero (by omega)
      refine ⟨?_, hi, fun _ => ⟨hl, hc, ho, hd, hr⟩, ?_, ?_⟩
      · show n = s.lookups + s.chans.length + s.ops.length + s.dels.length + s.running.length + n
        rw [hl, hc, ho, hd, hr]; simp
      · intro h; cases h
      · intro h; rw [(pr ht).2] at h; cases h
    | srcDone hs =>
      have ht : s.torn = true := by
        cases h : s.torn
        · have := (pr h).1; omega
        · rfl
      refine ⟨?_, hi, qu, ?_, ?_⟩
      · acct
      · intro h; rw [ht] at h; cases h
      · intro h; have := dn h; acct
    | cleanup ht h0 hn =>
      refine ⟨ac, hi, qu, ?_, fun _ => h0⟩
      intro h; rw [ht] at h; cases h

/-- The cleanup handlers are submitted only after every handler call ever submitted on the descriptor has returned, with no
    channel open, no operation alive, and every stream source's cancellation handler run (the library no longer monitors it). -/
theorem cleanup_after_all_handlers {s s' : St} {k : K} (h : Reachable s) (hs : Step s k s') (hc : s.cleaned = false) (hc' : s'.cleaned = true) :
    s.chans = [] ∧ s.ops = [] ∧ s.running = [] ∧ s.dels = [] ∧ s.srcs = 0 ∧ ∀ (d : Call), d ∈ s.submitted → d ∈ s.returned := by
  obtain ⟨ac, hi, qu, _, _⟩ := inv_reachable h
  have hk : s.torn = true ∧ s.count = 0 := by
    cases hs with
    | cleanup ht h0 _ => exact ⟨ht, h0⟩
    | _ => simp [hc] at hc'
  obtain ⟨hl, hch, ho, hd, hr⟩ := qu hk.1
  refine ⟨hch, ho, hr, hd, by omega, ?_⟩
  intro d hm
  rcases hi d hm with h | h | h
  · rw [hd] at h; cases h
  · rw [hr] at h; cases h
  · exact h

/-- After the teardown no handler call is submitted or started and no operation or channel appears on the entry. -/
theorem torn_is_quiet {s s' : St} {k : K} (h : Reachable s) (ht : s.torn = true) (hs : Step s k s') :
    s'.submitted = s.submitted ∧ s'.running = [] ∧ s'.dels = [] ∧ (k = .srcDone ∨ k = .cleanup) := by
  obtain ⟨_, _, qu, _, _⟩ := inv_reachable h
  obtain ⟨hl, hch, ho, hd, hr⟩ := qu ht
  cases hs with
  | lookup ht' => rw [ht] at ht'; cases ht'
  | opened c hl' => omega
  | looked hl' => omega
  | create c i hc => rw [hch] at hc; cases hc
  | deliver i k hm => rw [ho] at hm; cases hm
  | zero c i k hc => rw [hch] at hc; cases hc
  | begin d hm => rw [hd] at hm; cases hm
  | finish d hm => rw [hr] at hm; cases hm
  | dispose i hm => rw [ho] at hm; cases hm
  | close c hc => rw [hch] at hc; cases hc
  | teardown n _ ht' => rw [ht] at ht'; cases ht'
  | srcDone _ => exact ⟨rfl, hr, hd, Or.inl rfl⟩
  | cleanup _ _ _ => exact ⟨rfl, hr, hd, Or.inr rfl⟩

/-- After the cleanup handlers have been submitted nothing happens any more on this descriptor entry. -/
theorem cleaned_is_final {s s' : St} {k : K} (h : Reachable s) (hc : s.cleaned = true) : ¬ Step s k s' := by
  intro hs
  obtain ⟨ac, _, qu, pr, dn⟩ := inv_reachable h
  have ht : s.torn = true := by
    cases h : s.torn
    · have := (pr h).2; rw [hc] at this; cases this
    · rfl
  have h0 := dn hc
  rcases (torn_is_quiet h ht hs).2.2.2 with e | e
  · subst e; cases hs with | srcDone hs' => omega
  · subst e; cases hs with | cleanup _ _ hn => rw [hc] at hn; cases hn

/-- No hold is taken on an entry that has been torn down (and is about to be freed): every step that raises the suspension count,
    other than the teardown's own holds for the stream sources, happens before the teardown and under a hold that already exists -
    or is the look-up, which finds the entry in the table (the table and the teardown are serialised by the lock queue).
    `dispatch_read` / `dispatch_write` take a hold in their look-up callback and give it back when their operation is done; in this
    model that hold plays the part of a channel (`opened` ... `close`), so their zero-length shortcut is the step `zero`. -/
theorem no_hold_on_torn_entry {s s' : St} {k : K} (h : Reachable s) (hs : Step s k s') (hc : s.count < s'.count) :
    (∃ n, k = .teardown n) ∨ (s.torn = false ∧ (0 < s.count ∨ k = .lookup)) := by
  obtain ⟨ac, _, qu, _, _⟩ := inv_reachable h
  cases hs with
  | lookup ht => exact Or.inr ⟨ht, Or.inr rfl⟩
  | opened c hl => exact Or.inr ⟨not_torn_of_pos qu (by omega), Or.inl (by omega)⟩
  | looked hl => exfalso; revert hc; dsimp only; omega
  | create c i hm =>
    have : 0 < s.chans.length := List.length_pos_of_mem hm
    exact Or.inr ⟨not_torn_of_pos qu (by omega), Or.inl (by omega)⟩
  | deliver i k hm =>
    have : 0 < s.ops.length := List.length_pos_of_mem hm
    exact Or.inr ⟨not_torn_of_pos qu (by omega), Or.inl (by omega)⟩
  | zero c i k hm =>
    have : 0 < s.chans.length := List.length_pos_of_mem hm
    exact Or.inr ⟨not_torn_of_pos qu (by omega), Or.inl (by omega)⟩
  | begin d hm => exfalso; revert hc; dsimp only; omega
  | finish d hm => exfalso; revert hc; dsimp only; omega
  | dispose i hm => exfalso; revert hc; dsimp only; omega
  | close c hm => exfalso; revert hc; dsimp only; omega
  | teardown n _ _ => exact Or.inl ⟨n, rfl⟩
  | srcDone _ => exfalso; revert hc; dsimp only; omega
  | cleanup _ _ _ => exfalso; revert hc; dsimp only; omega

/-- F37 as found (a regression of the F25 repair, for the convenience calls): the zero-length shortcut took its hold in a later block,
    with no channel hold and the look-up's hold already given back; the teardown could run first. The late hold is then not a
    step of the model, and taking it anyway leaves the invariant (a handler call submitted on a torn entry). -/
def lateZero (s : St) (i k : Nat) : St := { s with dels := (i, k) :: s.dels, submitted := (i, k) :: s.submitted, count := s.count + 1 }

/-! ### What a recorded run shows: suspensions and resumptions of the close queue, handler calls, cleanup handlers -/
inductive Ev | susp | resume | hbegin | hend | clean
deriving DecidableEq, Repr

structure A where
  count : Nat
  running : Nat := 0
  cleaned : Bool := false
deriving DecidableEq, Repr

/-- replay of one recorded event; `none` = this is not a run of the model -/
def astep (a : A) : Ev → Option A
  | .susp => if a.cleaned then none else some { a with count := a.count + 1 }
  | .resume => if a.running < a.count then some { a with count := a.count - 1 } else none     -- a running call keeps its own hold
  | .hbegin => if a.running < a.count ∧ !a.cleaned then some { a with running := a.running + 1 } else none   -- a call runs under its own hold
  | .hend => if a.running = 0 then none else some { a with running := a.running - 1 }
  | .clean => if a.count = 0 then some { a with cleaned := true } else none

def arun (a : A) : List Ev → Option A
  | [] => some a
  | e :: es => match astep a e with | none => none | some a' => arun a' es

def abs (s : St) : A := { count := s.count, running := s.running.length, cleaned := s.cleaned }

/-- the recorded events of one model step -/
def evs : K → List Ev
  | .lookup => [.susp]
  | .opened => [.susp]
  | .looked => [.resume]
  | .create => [.susp]
  | .deliver => [.susp]
  | .zero => [.susp]
  | .begin => [.hbegin]
  | .finish => [.hend, .resume]
  | .dispose => [.resume]
  | .close => [.resume]
  | .teardown n => List.replicate n .susp
  | .srcDone => [.resume]
  | .cleanup => [.clean]

theorem arun_susp (a : A) (n : Nat) (h : a.cleaned = false) : arun a (List.replicate n .susp) = some { a with count := a.count + n } := by
  induction n generalizing a with
  | zero => simp [arun]
  | succ n ih =>
    have h1 : astep a .susp = some { a with count := a.count + 1 } := by simp [astep, h]
    rw [List.replicate_succ]
    simp only [arun, h1]
    rw [ih { a with count := a.count + 1 } h]
    simp only [Option.some.injEq, A.mk.injEq, and_true]
    omega

/-- Every step of the model is accepted by the replay: a recorded run that the replay rejects is not a run of the model. -/
theorem replay_complete {s s' : St} {k : K} (h : Reachable s) (hs : Step s k s') : arun (abs s) (evs k) = some (abs s') := by
  obtain ⟨ac, hi, qu, pr, dn⟩ := inv_reachable h
  have ncl : 0 < s.count → s.cleaned = false := by
    intro hp
    cases hcl : s.cleaned
    · rfl
    · have := dn hcl; omega
  cases hs with
  | lookup ht => simp [arun, astep, abs, evs, (pr ht).2]
  | opened c hl => simp [arun, astep, abs, evs, ncl (by omega)]
  | looked hl =>
    have : s.running.length < s.count := by omega
    simp [arun, astep, abs, evs, this]
  | create c i hc =>
    have : 0 < s.chans.length := List.length_pos_of_mem hc
    simp [arun, astep, abs, evs, ncl (by omega)]
  | deliver i k hm =>
    have : 0 < s.ops.length := List.length_pos_of_mem hm
    simp [arun, astep, abs, evs, ncl (by omega)]
  | zero c i k hc =>
    have : 0 < s.chans.length := List.length_pos_of_mem hc
    simp [arun, astep, abs, evs, ncl (by omega)]
  | begin d hm =>
    have hp : 0 < s.dels.length := List.length_pos_of_mem hm
    have hlt : s.running.length < s.count := by omega
    simp [arun, astep, abs, evs, ncl (by omega), hlt]
  | finish d hm =>
    have hp : 0 < s.running.length := List.length_pos_of_mem hm
    have hne : s.running.length ≠ 0 := by omega
    have hlt : s.running.length - 1 < s.count := by omega
    have := List.length_erase_of_mem hm
    simp [arun, astep, abs, evs, hne, hlt, this]
  | dispose i hm =>
    have hp : 0 < s.ops.length := List.length_pos_of_mem hm
    have hlt : s.running.length < s.count := by omega
    simp [arun, astep, abs, evs, hlt]
  | close c hc =>
    have hp : 0 < s.chans.length := List.length_pos_of_mem hc
    have hlt : s.running.length < s.count := by omega
    simp [arun, astep, abs, evs, hlt]
  | teardown n h0 ht =>
    have hcl := (pr ht).2
    show arun (abs s) (List.replicate n .susp) = _
    rw [arun_susp _ _ (by simpa [abs] using hcl)]
    simp [abs, h0]
  | srcDone hs =>
    have ht : s.torn = true := by
      cases h : s.torn
      · have := (pr h).1; omega
      · rfl
    obtain ⟨_, _, _, _, hr⟩ := qu ht
    have hlt : s.running.length < s.count := by rw [hr]; simp; omega
    simp [arun, astep, abs, evs, hlt]
  | cleanup ht h0 hn => simp [arun, astep, abs, evs, h0]

/-- the replay's own invariant: every running call is covered by a hold -/
theorem astep_inv (a a' : A) (e : Ev) (h : astep a e = some a') (hi : a.running ≤ a.count) : a'.running ≤ a'.count := by
  cases e <;> simp only [astep] at h
  · by_cases hc : a.cleaned = true
    · rw [if_pos hc] at h; cases h
    · rw [if_neg hc] at h; cases h; show a.running ≤ a.count + 1; omega
  · by_cases hc : a.running < a.count
    · rw [if_pos hc] at h; cases h; show a.running ≤ a.count - 1; omega
    · rw [if_neg hc] at h; cases h
  · by_cases hc : a.running < a.count ∧ (!a.cleaned) = true
    · rw [if_pos hc] at h; cases h; show a.running + 1 ≤ a.count; omega
    · rw [if_neg hc] at h; cases h
  · by_cases hc : a.running = 0
    · rw [if_pos hc] at h; cases h
    · rw [if_neg hc] at h; cases h; show a.running - 1 ≤ a.count; omega
  · by_cases hc : a.count = 0
    · rw [if_pos hc] at h; cases h; exact hi
    · rw [if_neg hc] at h; cases h

/-- In a replayed run a cleanup handler is accepted only with no handler call in progress, and no handler call begins after it. -/
theorem replay_clean_quiet (a a' : A) (h : astep a .clean = some a') (hinv : a.running ≤ a.count) : a.running = 0 ∧ a'.cleaned = true := by
  simp only [astep] at h
  by_cases hc : a.count = 0
  · rw [if_pos hc] at h; cases h; exact ⟨by omega, rfl⟩
  · rw [if_neg hc] at h; cases h

theorem replay_no_begin_after_clean (a : A) (hc : a.cleaned = true) : astep a .hbegin = none := by
  simp [astep, hc]

/-- non-vacuity: an executable version of the steps and a run that reaches the cleanup -/
def exec (s : St) : (Nat × Nat × Nat) → Option (K × St)     -- (kind, operation / channel, serial)
  | (0, _, _) => if s.torn = false then some (.lookup, { s with lookups := s.lookups + 1, count := s.count + 1 }) else none
  | (1, c, _) => if 0 < s.lookups then some (.opened, { s with chans := c :: s.chans, count := s.count + 1 }) else none
  | (2, _, _) => if 0 < s.lookups then some (.looked, { s with lookups := s.lookups - 1, count := s.count - 1 }) else none
  | (3, i, c) => if c ∈ s.chans then some (.create, { s with ops := i :: s.ops, count := s.count + 1 }) else none
  | (4, i, k) => if i ∈ s.ops then some (.deliver, { s with dels := (i, k) :: s.dels, submitted := (i, k) :: s.submitted, count := s.count + 1 }) else none
  | (5, i, k) => if s.chans ≠ [] then some (.zero, { s with dels := (i, k) :: s.dels, submitted := (i, k) :: s.submitted, count := s.count + 1 }) else none
  | (6, i, k) => if (i, k) ∈ s.dels then some (.begin, { s with dels := s.dels.erase (i, k), running := (i, k) :: s.running }) else none
  | (7, i, k) => if (i, k) ∈ s.running then some (.finish, { s with running := s.running.erase (i, k), returned := (i, k) :: s.returned, count := s.count - 1 }) else none
  | (8, i, _) => if i ∈ s.ops then some (.dispose, { s with ops := s.ops.erase i, count := s.count - 1 }) else none
  | (9, c, _) => if c ∈ s.chans then some (.close, { s with chans := s.chans.erase c, count := s.count - 1 }) else none
  | (10, n, _) => if s.count = 0 ∧ s.torn = false then some (.teardown n, { s with torn := true, srcs := n, count := n }) else none
  | (11, _, _) => if 0 < s.srcs then some (.srcDone, { s with srcs := s.srcs - 1, count := s.count - 1 }) else none
  | (12, _, _) => if s.torn = true ∧ s.count = 0 ∧ s.cleaned = false then some (.cleanup, { s with cleaned := true }) else none
  | _ => none

theorem exec_sound (s s' : St) (k : K) (e : Nat × Nat × Nat) (h : exec s e = some (k, s')) : Step s k s' := by
  obtain ⟨n, i, j⟩ := e
  match n with
  | 0 => simp only [exec] at h; split at h <;> cases h; exact .lookup s ‹_›
  | 1 => simp only [exec] at h; split at h <;> cases h; exact .opened s i ‹_›
  | 2 => simp only [exec] at h; split at h <;> cases h; exact .looked s ‹_›
  | 3 => simp only [exec] at h; split at h <;> cases h; exact .create s j i ‹_›
  | 4 => simp only [exec] at h; split at h <;> cases h; exact .deliver s i j ‹_›
  | 5 =>
    simp only [exec] at h; split at h <;> cases h
    rename_i hne
    obtain ⟨c, hc⟩ := List.exists_mem_of_ne_nil _ hne
    exact .zero s c i j hc
  | 6 => simp only [exec] at h; split at h <;> cases h; exact .begin s (i, j) ‹_›
  | 7 => simp only [exec] at h; split at h <;> cases h; exact .finish s (i, j) ‹_›
  | 8 => simp only [exec] at h; split at h <;> cases h; exact .dispose s i ‹_›
  | 9 => simp only [exec] at h; split at h <;> cases h; exact .close s i ‹_›
  | 10 => simp only [exec] at h; split at h <;> cases h; rename_i hh; exact .teardown s i hh.1 hh.2
  | 11 => simp only [exec] at h; split at h <;> cases h; exact .srcDone s ‹_›
  | 12 => simp only [exec] at h; split at h <;> cases h; rename_i hh; exact .cleanup s hh.1 hh.2.1 hh.2.2
  | n + 13 => simp [exec] at h

def run (s : St) : List (Nat × Nat × Nat) → Option St
  | [] => some s
  | e :: es => match exec s e with | none => none | some (_, s') => run s' es

theorem run_reachable (s s' : St) (es : List (Nat × Nat × Nat)) (hs : Reachable s) (h : run s es = some s') : Reachable s' := by
  induction es generalizing s with
  | nil => simp only [run] at h; cases h; exact hs
  | cons e es ih =>
    simp only [run] at h
    split at h
    · cases h
    · rename_i k s1 he; exact ih s1 (.step hs (exec_sound _ _ _ _ he)) h

/-- two channels on one descriptor, an operation with two handler calls and a zero-length one, a second lookup after the first
    channel was closed, both closed, one stream source cancelled, cleanup -/
def witness : List (Nat × Nat × Nat) :=
  [(1,1,0), (2,0,0), (3,1,1), (4,1,0), (5,9,0), (6,1,0), (9,1,0), (0,0,0), (1,2,0), (2,0,0), (7,1,0), (4,1,1), (8,1,0),
   (6,9,0), (7,9,0), (6,1,1), (9,2,0), (7,1,1), (10,1,0), (11,0,0), (12,0,0)]

theorem witness_reaches_cleanup : ∃ s, run {} witness = some s ∧ s.cleaned = true ∧ s.returned.length = 3 := by
  decide

theorem F37_as_found : ∃ s, run {} [(2,0,0), (10,0,0)] = some s ∧ s.torn = true ∧ exec s (5, 9, 0) = none ∧ ¬ Inv (lateZero s 9 0) := by
  refine ⟨{ lookups := 0, count := 0, torn := true }, by decide, rfl, by decide, ?_⟩
  intro h
  have := (h.quiet rfl).2.2.2.1
  simp [lateZero] at this

/-- repaired: the convenience call holds the entry from its look-up callback (1) until its operation is done (9); the shortcut's hold
    (5) is taken under it, and the teardown (10) can only follow -/
theorem F37_fixed : ∃ s, run {} [(1,7,0), (2,0,0), (5,9,0), (6,9,0), (9,7,0), (7,9,0), (10,0,0), (12,0,0)] = some s ∧ s.cleaned = true ∧ s.returned = [(9, 0)] := by
  decide

end IoHold
