/-! C14 calibration: a stream READ operation of dispatch I/O — `_dispatch_operation_perform`,
    `_dispatch_operation_deliver_data`, the result switch of `_dispatch_stream_handler` and the final
    `DOP_DONE` delivery of `_dispatch_operation_dispose` — against every sequence of read() outcomes. -/
namespace IoP

abbrev Byte := UInt8

structure Op where
  length : Option Nat      -- none = SIZE_MAX ("until EOF")
  low : Nat
  high : Nat
  chunk : Nat              -- dispatch_io_defaults.chunk_size
  hasBuf : Bool := false
  bufSiz : Nat := 0
  buf : List Byte := []    -- the first buf_len bytes of op->buf
  total : Nat := 0
  undelivered : Nat := 0
  data : List Byte := []   -- op->data
  err : Nat := 0

/-- what read(fd, buf + buf_len, buf_siz − buf_len) may do (EINTR is retried inside perform) -/
inductive Outcome
  | bytes (bs : List Byte)
  | eof
  | eagain
  | error (e : Nat)

inductive Result | deliver | deliverAndComplete | complete | resume
deriving DecidableEq

/-- one handler invocation -/
structure Call where
  done : Bool
  data : List Byte
  err : Nat
deriving DecidableEq

/-- buffer allocation at the top of perform -/
def allocBuf (op : Op) : Op :=
  if op.hasBuf then op else
  let m := op.high - op.data.length
  let m := if m > op.chunk then op.chunk else m
  let siz := match op.length with
    | some l => if l - op.total > m then m else l - op.total
    | none => m
  { op with hasBuf := true, bufSiz := siz, buf := [] }

def readLen (op : Op) : Nat := (allocBuf op).bufSiz - (allocBuf op).buf.length

def perform (op : Op) (o : Outcome) : Op × Result :=
  let op := allocBuf op
  match o with
  | .bytes bs =>
    let op := { op with buf := op.buf ++ bs, total := op.total + bs.length }
    (op, if some op.total = op.length then .complete else .deliver)
  | .eof => (op, .deliverAndComplete)
  | .eagain => (op, .resume)
  | .error e => ({ op with err := e }, .complete)

/-- `_dispatch_operation_deliver_data` for a READ operation (DOP_DELIVER timer flag not modelled) -/
def deliverData (op : Op) (fDeliver fDone fNoEmpty : Bool) : Op × List Call :=
  let undel := op.undelivered + op.buf.length
  let deliver0 := fDeliver || fDone
  if !deliver0 ∧ undel < op.low ∧ op.buf.length < op.bufSiz then (op, [])
  else
    let deliver := deliver0 || decide (undel ≥ op.low)
    let err := if deliver0 then op.err else 0
    let data := if op.buf.length > 0 then op.data ++ op.buf else op.data
    let op := if op.buf.length > 0 then { op with hasBuf := false, buf := [] } else op
    let op := { op with data := if deliver then [] else data }
    if !deliver ∨ (fNoEmpty ∧ data.length = 0) then ({ op with undelivered := undel }, [])
    else
      let op := { op with undelivered := 0 }
      -- the block submitted to op_q
      if fDone ∧ err ≠ 0 then
        (op, (if data.length > 0 then [⟨false, data, 0⟩] else []) ++ [⟨true, [], err⟩])
      else (op, [⟨fDone, data, err⟩])

/-- `_dispatch_stream_handler` for this operation with one outcome; true = the operation completed
    (dispose then delivers with DOP_DONE) -/
def handle (op : Op) (o : Outcome) : Op × List Call × Bool :=
  let (op, r) := perform op o
  match r with
  | .deliver => let (op, c) := deliverData op false false false; (op, c, false)
  | .deliverAndComplete =>
    let (op, c) := deliverData op true false true
    let (op, c2) := deliverData op false true false
    (op, c ++ c2, true)
  | .complete => let (op, c) := deliverData op false true false; (op, c, true)
  | .resume => (op, [], false)

/-- run the operation against a sequence of outcomes until it completes -/
def run : Op → List Outcome → List Call × Bool
  | _, [] => ([], false)
  | op, o :: os =>
    let (op', c, fin) := handle op o
    if fin then (c, true) else let (cs, f) := run op' os; (c ++ cs, f)

/-- the bytes the kernel handed over, in order -/
def consumed : List Outcome → List Byte
  | [] => []
  | .bytes bs :: os => bs ++ consumed os
  | .eof :: _ => []
  | .error _ :: _ => []
  | .eagain :: os => consumed os

def delivered (cs : List Call) : List Byte := (cs.map (·.data)).flatten

/-- the kernel never returns more than asked, and at least one byte when it returns data -/
def Legal : Op → List Outcome → Prop
  | _, [] => True
  | op, o :: os =>
    (match o with | .bytes bs => 0 < bs.length ∧ bs.length ≤ readLen op | _ => True) ∧
    Legal (handle op o).1 os

structure Inv (op : Op) : Prop where
  lowHigh : op.low ≤ op.high
  highPos : 0 < op.high
  chunkPos : 0 < op.chunk
  und : op.undelivered = op.data.length
  small : op.data.length < op.high ∧ (op.data ≠ [] → op.data.length < op.low)
  bufOk : op.hasBuf = true → op.buf.length < op.bufSiz ∧ op.data.length + op.bufSiz ≤ op.high
  noBuf : op.hasBuf = false → op.buf = []
  tot : ∀ l, op.length = some l → op.total < l ∧ (op.hasBuf = true → op.total + (op.bufSiz - op.buf.length) ≤ l)

theorem alloc_spec {op : Op} (h : Inv op) :
    (allocBuf op).hasBuf = true ∧ (allocBuf op).buf = op.buf ∧ (allocBuf op).data = op.data ∧
    (allocBuf op).buf.length < (allocBuf op).bufSiz ∧ op.data.length + (allocBuf op).bufSiz ≤ op.high ∧
    (∀ l, op.length = some l → op.total + ((allocBuf op).bufSiz - op.buf.length) ≤ l) ∧
    (allocBuf op).undelivered = op.undelivered ∧ (allocBuf op).total = op.total ∧ (allocBuf op).length = op.length ∧
    (allocBuf op).low = op.low ∧ (allocBuf op).high = op.high ∧ (allocBuf op).chunk = op.chunk ∧ (allocBuf op).err = op.err := by
  obtain ⟨h1, h2, h3, h4, h5, h6, h7, h8⟩ := h
  unfold allocBuf
  split
  · rename_i hb
    have := h6 hb
    refine ⟨hb, rfl, rfl, this.1, this.2, ?_, rfl, rfl, rfl, rfl, rfl, rfl, rfl⟩
    intro l hl; exact (h8 l hl).2 hb
  · rename_i hb
    have hnb : op.hasBuf = false := by cases h : op.hasBuf <;> simp_all
    have hbuf := h7 hnb
    simp only [hbuf, List.length_nil]
    cases hl : op.length with
    | none =>
      dsimp only
      refine ⟨?_, ?_, ?_, ?_, ?_, ?_, ?_, ?_, ?_, ?_, ?_, ?_, ?_⟩ <;>
        first | rfl | trivial | (intro l h; cases h) | (split <;> omega)
    | some l =>
      have := (h8 l hl).1
      dsimp only
      refine ⟨?_, ?_, ?_, ?_, ?_, ?_, ?_, ?_, ?_, ?_, ?_, ?_, ?_⟩ <;>
        first | rfl | trivial | (split <;> split <;> omega) | (intro l' hl'; cases hl'; split <;> split <;> omega)

/-- perform never issues a zero-length read (which it would mistake for EOF) -/
theorem read_len_pos {op : Op} (h : Inv op) : 0 < readLen op := by
  have ⟨_, hb, _, hlt, _⟩ := alloc_spec h
  unfold readLen; omega

def bytesOf : Outcome → List Byte
  | .bytes bs => bs
  | _ => []

def LegalO (op : Op) (o : Outcome) : Prop :=
  match o with | .bytes bs => 0 < bs.length ∧ bs.length ≤ readLen op | _ => True

/-- facts about one `deliver_data` call on a state whose buffer is allocated -/
theorem deliver_spec (op : Op) (fD fDn fNE : Bool) (hu : op.undelivered = op.data.length)
    (hsz : op.data.length + op.buf.length ≤ op.high) (hbs : op.buf.length ≤ op.bufSiz) :
    let r := deliverData op fD fDn fNE
    delivered r.2 ++ r.1.data ++ r.1.buf = op.data ++ op.buf ∧
    (∀ c ∈ r.2, c.data.length ≤ op.high) ∧
    r.1.undelivered = r.1.data.length ∧
    (fDn = false → ∀ c ∈ r.2, c.done = false) ∧
    (fD = false → fDn = false → ∀ c ∈ r.2, op.low ≤ c.data.length) ∧
    r.1.low = op.low ∧ r.1.high = op.high ∧ r.1.chunk = op.chunk ∧ r.1.length = op.length ∧ r.1.total = op.total ∧
    ((r.1 = op ∧ op.undelivered + op.buf.length < op.low ∧ op.buf.length < op.bufSiz ∧ fD = false ∧ fDn = false) ∨
     (r.1.hasBuf = (if op.buf.length > 0 then false else op.hasBuf) ∧ r.1.buf = [] ∧ r.1.bufSiz = op.bufSiz ∧
       (r.1.data = [] ∨ (r.1.data = op.data ++ op.buf ∧ op.undelivered + op.buf.length < op.low ∧ fD = false ∧ fDn = false)))) := by
  have hnil : ¬ op.buf.length > 0 → op.buf = [] := fun h => List.length_eq_zero_iff.mp (by omega)
  unfold deliverData
  simp only [hu]
  by_cases hb : op.buf.length > 0
  · have hne : op.buf ≠ [] := by intro e; simp [e] at hb
    have hpos : 0 < op.data.length + op.buf.length := by omega
    have hle : op.low ≤ op.data.length + op.buf.length ↔ ¬ (op.data.length + op.buf.length < op.low) := by omega
    by_cases hl : op.data.length + op.buf.length < op.low <;>
      by_cases hf : op.buf.length < op.bufSiz <;> by_cases he : op.err = 0 <;>
      cases fD <;> cases fDn <;> cases fNE <;> simp [*, delivered] <;> (try omega)
  · have hn := hnil hb
    simp only [hn, List.length_nil, Nat.add_zero, List.append_nil] at hsz hbs ⊢
    by_cases hd : op.data = []
    · simp only [hd, List.length_nil] at hsz ⊢
      have hle : op.low ≤ 0 ↔ ¬ (0 < op.low) := by omega
      by_cases hl : 0 < op.low <;>
        by_cases hf : 0 < op.bufSiz <;> by_cases he : op.err = 0 <;>
        cases fD <;> cases fDn <;> cases fNE <;> simp [*, delivered] <;> (try omega)
    · have hdl : 0 < op.data.length := List.length_pos_iff.mpr hd
      have hle : op.low ≤ op.data.length ↔ ¬ (op.data.length < op.low) := by omega
      by_cases hl : op.data.length < op.low <;>
        by_cases hf : 0 < op.bufSiz <;> by_cases he : op.err = 0 <;>
        cases fD <;> cases fDn <;> cases fNE <;> simp [*, delivered] <;> (try omega)

theorem deliver_done_eq (op : Op) :
    (deliverData op false true false).2 =
      if op.err ≠ 0 then
        (if (if op.buf.length > 0 then op.data ++ op.buf else op.data).length > 0
          then [⟨false, if op.buf.length > 0 then op.data ++ op.buf else op.data, 0⟩] else []) ++ [⟨true, [], op.err⟩]
      else [⟨true, if op.buf.length > 0 then op.data ++ op.buf else op.data, 0⟩] := by
  unfold deliverData
  by_cases he : op.err = 0 <;> by_cases hb : op.buf.length > 0 <;> simp [he, hb]

/-- the DONE delivery always ends with exactly one `done` call, preceded only by non-done calls -/
theorem deliver_done_spec (op : Op) :
    ∃ init last, (deliverData op false true false).2 = init ++ [last] ∧ last.done = true ∧ ∀ x ∈ init, x.done = false := by
  rw [deliver_done_eq]
  generalize (if op.buf.length > 0 then op.data ++ op.buf else op.data) = d'
  by_cases he : op.err ≠ 0
  · by_cases hd : d'.length > 0
    · exact ⟨[⟨false, d', 0⟩], ⟨true, [], op.err⟩, by simp [he, hd], rfl, by simp⟩
    · exact ⟨[], ⟨true, [], op.err⟩, by simp [he, hd], rfl, by simp⟩
  · exact ⟨[], ⟨true, d', 0⟩, by simp [he], rfl, by simp⟩

theorem delivered_append (a b : List Call) : delivered (a ++ b) = delivered a ++ delivered b := by
  simp [delivered]

structure HandleSpec (op : Op) (o : Outcome) : Prop where
  cons : delivered (handle op o).2.1 ++ (handle op o).1.data ++ (handle op o).1.buf = op.data ++ op.buf ++ bytesOf o
  high : ∀ c ∈ (handle op o).2.1, c.data.length ≤ op.high
  same : (handle op o).1.high = op.high ∧ (handle op o).1.low = op.low
  cont : (handle op o).2.2 = false → Inv (handle op o).1 ∧ ∀ c ∈ (handle op o).2.1, c.done = false ∧ op.low ≤ c.data.length
  fin : (handle op o).2.2 = true → (handle op o).1.data = [] ∧ (handle op o).1.buf = [] ∧
    ∃ init last, (handle op o).2.1 = init ++ [last] ∧ last.done = true ∧ ∀ x ∈ init, x.done = false

end IoP
