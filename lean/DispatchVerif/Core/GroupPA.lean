import DispatchVerif.Core.GroupP
/-! C07 calibration, layer A: the HAS_NOTIFS responsibility token and the armed-leaver invariant;
    consequence: no notification is left behind at quiescence. -/
namespace GroupP

theorem mem_rm {l : List Tid} {t u : Tid} : u ∈ rm l t ↔ u ∈ l ∧ u ≠ t := by simp [rm]

theorem length_rm (l : List Tid) (t : Tid) : (rm l t).length + l.count t = l.length := by
  induction l with
  | nil => rfl
  | cons a l ih =>
    by_cases e : a = t
    · subst e; simp [rm] at ih ⊢; omega
    · simp [rm, e, List.count_cons] at ih ⊢; omega

theorem count_rm_self (l : List Tid) (t : Tid) : (rm l t).count t = 0 := by
  simp [rm, List.count_eq_zero]

theorem count_rm_ne (l : List Tid) (t u : Tid) (h : u ≠ t) : (rm l t).count u = l.count u := by
  unfold rm; exact List.count_filter (by simp [h])

theorem cleared_iff (old : W) : old = cleared old ↔ armed old = false := by
  obtain ⟨g, c, n, wt⟩ := old
  unfold cleared armed
  by_cases hc : c = 0 <;> cases n <;> cases wt <;> simp [hc]

def isFirst : Pc → Bool
  | .nLinked true => true
  | _ => false
def isNW : Pc → Bool
  | .wake st none => st.N
  | _ => false
def isArmed : Pc → Bool
  | .leave2 old => armed old
  | _ => false

def b2n (b : Bool) : Nat := if b then 1 else 0

structure G (sh : Sh) : Prop where
  tok : b2n sh.w.N + sh.firsts.length + sh.nwakers.length = (if sh.list = [] then 0 else 1)
  arm : sh.w.count = 0 → (sh.w.N = true ∨ sh.w.Wt = true) → sh.armedL ≠ []

structure L (sh : Sh) (t : Tid) (pc : Pc) : Prop where
  fc : sh.firsts.count t = b2n (isFirst pc)
  nc : sh.nwakers.count t = b2n (isNW pc)
  ac : t ∈ sh.armedL ↔ isArmed pc = true

abbrev Post (sh sh' : Sh) (t : Tid) (pc' : Pc) : Prop :=
  G sh' ∧ L sh' t pc' ∧ ∀ t' q, t' ≠ t → L sh t' q → L sh' t' q

/-- others keep their claims when the three ghost lists change only at `t` -/
theorem others_of {sh sh' : Sh} {t : Tid}
    (hf : ∀ u, u ≠ t → sh'.firsts.count u = sh.firsts.count u)
    (hn : ∀ u, u ≠ t → sh'.nwakers.count u = sh.nwakers.count u)
    (ha : ∀ u, u ≠ t → (u ∈ sh'.armedL ↔ u ∈ sh.armedL)) :
    ∀ t' q, t' ≠ t → L sh t' q → L sh' t' q := by
  intro t' q ne l
  exact ⟨by rw [hf t' ne]; exact l.fc, by rw [hn t' ne]; exact l.nc, by rw [ha t' ne]; exact l.ac⟩

theorem same_lists {sh sh' : Sh} {t : Tid} {pc pc' : Pc} (g : G sh) (l : L sh t pc)
    (hw : sh'.w.N = sh.w.N) (hl : (sh'.list = []) ↔ (sh.list = [])) (hf : sh'.firsts = sh.firsts) (hn : sh'.nwakers = sh.nwakers)
    (ha : sh'.armedL = sh.armedL)
    (harm : sh'.w.count = 0 → (sh'.w.N = true ∨ sh'.w.Wt = true) → sh.armedL ≠ [])
    (h1 : isFirst pc' = isFirst pc) (h2 : isNW pc' = isNW pc) (h3 : isArmed pc' = isArmed pc) :
    Post sh sh' t pc' := by
  refine ⟨⟨?_, ?_⟩, ⟨by rw [hf, h1]; exact l.fc, by rw [hn, h2]; exact l.nc, by rw [ha, h3]; exact l.ac⟩,
    others_of (by intro u _; rw [hf]) (by intro u _; rw [hn]) (by intro u _; rw [ha])⟩
  · have := g.tok; rw [hw, hf, hn]; by_cases e : sh.list = []
    · simp [e, hl.mpr e] at this ⊢; exact this
    · have e' : ¬ sh'.list = [] := fun h => e (hl.mp h)
      simp [e, e'] at this ⊢; exact this
  · rw [ha]; exact harm

set_option maxHeartbeats 4000000 in
theorem step_local {sh : Sh} {t : Tid} {pc : Pc} {op : Op} {sh' : Sh} {pc' : Pc}
    (g : G sh) (l : L sh t pc) (h : (sh', pc') ∈ step sh t pc op) : Post sh sh' t pc' := by
  have gt := g.tok
  have ga := g.arm
  have lf := l.fc
  have ln := l.nc
  have la := l.ac
  cases pc with
  | idle =>
    simp [isFirst, isNW, isArmed, b2n] at lf ln la
    cases op with
    | enter =>
      simp [step] at h; obtain ⟨rfl, rfl⟩ := h
      exact same_lists g l rfl Iff.rfl rfl rfl rfl (by intro hc; simp at hc) rfl rfl rfl
    | leave =>
      simp only [step] at h
      split at h
      · simp at h
      · split at h
        · rename_i h0 h1
          simp at h; obtain ⟨rfl, rfl⟩ := h
          refine ⟨⟨?_, ?_⟩, ⟨?_, ?_, ?_⟩, others_of (by intro u _; rfl) (by intro u _; rfl) ?_⟩
          · simpa using gt
          · intro _ hb
            have : armed { sh.w with count := 0, gen := sh.w.gen + 1 } = true := by
              simp [armed]; rcases hb with hb | hb <;> simp_all
            simp [this]
          · simp [isFirst, b2n, lf]
          · simp [isNW, b2n, ln]
          · simp only [isArmed]; split <;> simp_all
          · intro u hu; dsimp only; split <;> simp [hu]
        · simp at h; obtain ⟨rfl, rfl⟩ := h
          exact same_lists g l rfl Iff.rfl rfl rfl rfl (by intro hc; simp at hc; omega) rfl rfl rfl
    | notify =>
      simp [step] at h; obtain ⟨rfl, rfl⟩ := h
      by_cases he : sh.list = []
      · simp only [he, if_true] at gt
        simp only [he, if_true, List.nil_append, List.isEmpty_nil]
        refine ⟨⟨?_, ga⟩, ⟨by simp [isFirst, b2n, lf], by simp [isNW, b2n, ln], by simp [isArmed, la]⟩,
          others_of (by intro u hu; simp [List.count_cons, Ne.symm hu]) (by intro u _; rfl) (by intro u _; rfl)⟩
        show b2n sh.w.N + (t :: sh.firsts).length + sh.nwakers.length = if [sh.nextId] = [] then 0 else 1
        rw [if_neg (by simp), List.length_cons]; omega
      · have hne : sh.list.isEmpty = false := by cases hl : sh.list <;> simp_all
        simp only [he, if_false] at gt
        simp only [he, if_false, hne]
        refine ⟨⟨?_, ga⟩, ⟨by simp [isFirst, b2n, lf], by simp [isNW, b2n, ln], by simp [isArmed, la]⟩,
          others_of (by intro u _; rfl) (by intro u _; rfl) (by intro u _; rfl)⟩
        show b2n sh.w.N + sh.firsts.length + sh.nwakers.length = if sh.list ++ [sh.nextId] = [] then 0 else 1
        rw [if_neg (by simp)]; exact gt
    | wait =>
      simp only [step] at h
      split at h
      · simp at h; obtain ⟨rfl, rfl⟩ := h
        exact same_lists g l rfl Iff.rfl rfl rfl rfl ga rfl rfl rfl
      · rename_i hc
        simp at h; obtain ⟨rfl, rfl⟩ := h
        exact same_lists g l rfl Iff.rfl rfl rfl rfl (by intro h0; exact absurd h0 hc) rfl rfl rfl
  | leave2 old =>
    simp [isFirst, isNW, isArmed, b2n] at lf ln la
    simp only [step] at h
    split at h
    · rename_i hbr
      have hna := (cleared_iff old).mp hbr
      have hN : old.N = false := by simp [armed] at hna; exact hna.1
      simp at h; obtain ⟨rfl, rfl⟩ := h
      exact same_lists g l rfl Iff.rfl rfl rfl rfl ga rfl (by simp [isNW, hN]) (by simp [isArmed, hna])
    · rename_i hbr
      have harmed : armed old = true := by
        cases h : armed old with
        | true => rfl
        | false => exact absurd ((cleared_iff old).mpr h) hbr
      split at h
      · rename_i hw
        simp at h; obtain ⟨rfl, rfl⟩ := h
        have hcN : (cleared old).N = false := by unfold cleared; split <;> rfl
        refine ⟨⟨?_, ?_⟩, ⟨?_, ?_, ?_⟩, others_of (by intro u _; rfl) ?_ (by intro u hu; simp [mem_rm, hu])⟩
        · rw [hw] at gt; simp only [hcN]
          cases hn : old.N <;> simp [hn, b2n] at gt ⊢ <;> omega
        · intro hc hb
          simp only [hcN] at hb
          have : (cleared old).Wt = false := by
            unfold cleared at hc ⊢; split <;> simp_all
          simp [this] at hb
        · simp [isFirst, b2n, lf]
        · cases hn : old.N <;> simp [isNW, hn, b2n, ln]
        · simp [isArmed, mem_rm]
        · intro u hu; split <;> simp [List.count_cons, Ne.symm hu]
      · simp at h; obtain ⟨rfl, rfl⟩ := h
        refine ⟨⟨gt, ?_⟩, ⟨lf.trans (by simp [isFirst, b2n]), ln.trans (by simp [isNW, b2n]), ?_⟩,
          others_of (by intro u _; rfl) (by intro u _; rfl) ?_⟩
        · intro hc hb
          have : armed sh.w = true := by simp [armed]; rcases hb with hb | hb <;> simp_all
          simp [this]
        · simp only [isArmed]; split <;> simp_all [mem_rm]
        · intro u hu; dsimp only; split <;> simp [mem_rm, hu]
  | wake st snap =>
    simp [isFirst, isArmed, b2n] at lf la
    simp only [step] at h
    split at h
    · rename_i hN
      split at h
      · -- capture the snapshot
        split at h
        · simp at h
        · rename_i hne
          have hne' : sh.list ≠ [] := by cases hl : sh.list <;> simp_all
          simp at h; obtain ⟨rfl, rfl⟩ := h
          simp [isNW, hN, b2n] at ln
          have hlen := length_rm sh.nwakers t
          have hle : sh.nwakers.count t ≤ sh.nwakers.length := List.count_le_length
          rw [if_neg hne'] at gt
          refine ⟨⟨?_, ?_⟩, ⟨?_, ?_, ?_⟩, others_of (by intro u _; rfl) (by intro u hu; exact count_rm_ne _ _ _ hu) (by intro u _; rfl)⟩
          · show b2n sh.w.N + sh.firsts.length + (rm sh.nwakers t).length = if ([] : List Nat) = [] then 0 else 1
            rw [if_pos rfl]; omega
          · exact ga
          · simp [isFirst, b2n, lf]
          · simp [isNW, b2n, count_rm_self]
          · simp [isArmed, la]
      · simp at h; obtain ⟨rfl, rfl⟩ := h
        exact same_lists g l rfl Iff.rfl rfl rfl rfl ga rfl (by simp [isNW]) rfl
      · simp at h; obtain ⟨rfl, rfl⟩ := h
        exact same_lists g l rfl Iff.rfl rfl rfl rfl ga rfl (by simp [isNW]) rfl
    · rename_i hN
      have hN' : st.N = false := by cases h : st.N <;> simp_all
      simp at h; obtain ⟨rfl, rfl⟩ := h
      exact same_lists g l rfl Iff.rfl rfl rfl rfl ga rfl (by cases snap <;> simp [isNW, hN']) rfl
  | wakeAddr st =>
    simp only [step] at h
    split at h <;> (simp at h; obtain ⟨rfl, rfl⟩ := h; exact same_lists g l rfl Iff.rfl rfl rfl rfl ga rfl rfl rfl)
  | nLinked we =>
    simp [isNW, isArmed, b2n] at ln la
    simp only [step] at h
    split at h
    · rename_i hwe
      have : we = false := by cases we <;> simp_all
      subst this
      simp at h; obtain ⟨rfl, rfl⟩ := h
      exact same_lists g l rfl Iff.rfl rfl rfl rfl ga rfl rfl rfl
    · rename_i hwe
      have : we = true := by cases we <;> simp_all
      subst this
      simp [isFirst, b2n] at lf
      have hlen := length_rm sh.firsts t
      have hle : sh.firsts.count t ≤ sh.firsts.length := List.count_le_length
      split at h
      · rename_i hgu
        simp at h; obtain ⟨rfl, rfl⟩ := h
        refine ⟨⟨?_, ga⟩, ⟨?_, ?_, ?_⟩, others_of (by intro u hu; exact count_rm_ne _ _ _ hu)
          (by intro u hu; simp [List.count_cons, Ne.symm hu]) (by intro u _; rfl)⟩
        · show b2n sh.w.N + (rm sh.firsts t).length + (t :: sh.nwakers).length = if sh.list = [] then 0 else 1
          generalize (if sh.list = [] then 0 else 1) = r at gt ⊢
          rw [List.length_cons]; omega
        · simp [isFirst, b2n, count_rm_self]
        · simp [isNW, b2n, ln]
        · simp [isArmed, la]
      · rename_i hgu
        simp at h; obtain ⟨rfl, rfl⟩ := h
        refine ⟨⟨?_, ?_⟩, ⟨?_, ?_, ?_⟩, others_of (by intro u hu; exact count_rm_ne _ _ _ hu)
          (by intro u _; rfl) (by intro u _; rfl)⟩
        · show b2n true + (rm sh.firsts t).length + sh.nwakers.length = if sh.list = [] then 0 else 1
          have hb1 : b2n true = 1 := rfl
          have hb0 : b2n false = 0 := rfl
          by_cases e : sh.list = [] <;> cases hn : sh.w.N <;> simp only [e, hn, hb1, hb0, if_true, if_false] at gt ⊢ <;> omega
        · intro hc _
          simp at hc
          apply ga hc
          cases hn : sh.w.N <;> cases hw : sh.w.Wt <;> simp_all
        · simp [isFirst, b2n, count_rm_self]
        · simp [isNW, b2n, ln]
        · simp [isArmed, la]
  | wSlow g0 gg =>
    simp only [step] at h
    split at h <;> (simp at h; obtain ⟨rfl, rfl⟩ := h; exact same_lists g l rfl Iff.rfl rfl rfl rfl ga rfl rfl rfl)
  | wSleep g0 gg =>
    simp only [step, List.mem_append] at h
    rcases h with h | h
    · simp at h; obtain ⟨rfl, rfl⟩ := h; exact same_lists g l rfl Iff.rfl rfl rfl rfl ga rfl rfl rfl
    · simp at h; obtain ⟨rfl, rfl⟩ := h
      refine same_lists g l rfl Iff.rfl rfl rfl rfl ga ?_ ?_ ?_ <;> split <;> rfl
  | wRet ok sl =>
    simp [step] at h; obtain ⟨rfl, rfl⟩ := h
    exact same_lists g l rfl Iff.rfl rfl rfl rfl ga rfl rfl rfl

structure Inv (s : St) : Prop where
  g : G s.sh
  l : ∀ t, L s.sh t (s.pcs t)

theorem inv_reachable {s : St} (h : Reachable s) : Inv s := by
  induction h with
  | init => exact ⟨⟨by simp [b2n], by intro _ hb; simp at hb⟩, fun _ => ⟨by simp [isFirst, b2n], by simp [isNW, b2n], by simp [isArmed]⟩⟩
  | step _ hs ih =>
    cases hs with
    | mk t op sh' pc' h =>
      obtain ⟨hg, hl, hoth⟩ := step_local ih.g (ih.l t) h
      refine ⟨hg, fun t' => ?_⟩
      by_cases e : t' = t
      · subst e; simpa using hl
      · simpa [e] using hoth t' _ e (ih.l t')

theorem nil_of_count_zero (l : List Tid) (h : ∀ t, l.count t = 0) : l = [] := by
  cases l with
  | nil => rfl
  | cons a l => have := h a; simp at this

/-- **Nothing is left behind**: when every thread is outside the group's functions and the count is
    zero, the notify list is empty and neither HAS_NOTIFS nor HAS_WAITERS is set — every registered
    notification has been taken by a waker, and the group is back in its initial shape (reusable). -/
theorem no_stranded_notify {s : St} (h : Reachable s) (hidle : ∀ t, s.pcs t = .idle) (hz : s.sh.w.count = 0) :
    s.sh.list = [] ∧ s.sh.w.N = false ∧ s.sh.w.Wt = false := by
  have i := inv_reachable h
  have hf : s.sh.firsts = [] := nil_of_count_zero _ (fun t => by have := (i.l t).fc; rw [hidle t] at this; simpa [isFirst, b2n] using this)
  have hn : s.sh.nwakers = [] := nil_of_count_zero _ (fun t => by have := (i.l t).nc; rw [hidle t] at this; simpa [isNW, b2n] using this)
  have ha : s.sh.armedL = [] := by
    cases hl : s.sh.armedL with
    | nil => rfl
    | cons a l =>
      have := (i.l a).ac; rw [hidle a] at this
      have hm : a ∈ s.sh.armedL := by simp [hl]
      have := this.mp hm; simp [isArmed] at this
  have hbits : s.sh.w.N = false ∧ s.sh.w.Wt = false := by
    cases hN : s.sh.w.N <;> cases hW : s.sh.w.Wt <;> simp
    all_goals (exact i.g.arm hz (by simp [hN, hW]) ha)
  have := i.g.tok
  rw [hf, hn, hbits.1] at this
  by_cases e : s.sh.list = []
  · exact ⟨e, hbits⟩
  · simp [e, b2n] at this

/-- exactly one party is responsible for a non-empty notify list -/
theorem notify_token {s : St} (h : Reachable s) :
    b2n s.sh.w.N + s.sh.firsts.length + s.sh.nwakers.length = (if s.sh.list = [] then 0 else 1) :=
  (inv_reachable h).g.tok

end GroupP

section audit
#print axioms GroupP.no_stranded_notify
end audit
