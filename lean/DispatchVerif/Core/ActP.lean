/-! C06 (activation): the three suspension-related pieces of `dq_state` that `_dispatch_lane_resume(dq, activate)` and
    `dispatch_activate` manipulate — the suspend count (taken here as one number: inline field + side count, whose
    arithmetic is `SuspendP`), `INACTIVE` and `NEEDS_ACTIVATION` — for a queue created initially inactive. Any number
    of threads calling suspend / resume / activate concurrently.

    The drainer refuses to run anything while any of these is set (`_dq_state_is_suspended`). -/
namespace ActP

abbrev Tid := Nat

inductive Op | suspend | resume | activate

inductive Pc
  | idle
  | aFin          -- after step 1 of the activation ({sc:0 i:1 na:1} → {sc:1 i:0 na:0}): runs the activation finalizer
  | rFin          -- a resume that cleared NEEDS_ACTIVATION ({sc:1 na:1} → {sc:1 na:0}): runs the activation finalizer
  | aRes          -- the internal `_dispatch_lane_resume(dq, false)` that consumes the count taken in step 1
  | rRes          -- the second half of that resume: the decrement it was called for
deriving DecidableEq

structure Sh where
  n : Nat := 0            -- suspend count (inline + side)
  inactive : Bool := true
  na : Bool := true       -- NEEDS_ACTIVATION
  -- ghosts
  logical : Nat := 0      -- client suspends minus client resumes that have taken effect
  holder : Option Tid := none   -- the thread that is finalizing the activation
  done : Bool := false    -- the activation has completed

def blocked (sh : Sh) : Bool := sh.n > 0 || sh.inactive || sh.na

def step (sh : Sh) (t : Tid) (pc : Pc) (op : Op) : List (Sh × Pc) :=
  match pc with
  | .idle =>
    match op with
    | .suspend => [({ sh with n := sh.n + 1, logical := sh.logical + 1 }, .idle)]
    | .activate =>
      if sh.n = 0 ∧ sh.inactive ∧ sh.na then
        [({ sh with n := 1, inactive := false, na := false, holder := some t }, .aFin)]
      else if sh.inactive then [({ sh with inactive := false }, .idle)]
      else [(sh, .idle)]
    | .resume =>
      if sh.logical = 0 then []                       -- over-resume: a client crash, not a history we quantify over
      else if sh.n = 1 ∧ !sh.inactive ∧ sh.na then
        -- {sc:1 i:0 na:1} → {sc:1 i:0 na:0}; the count this resume gives back stays until the finalizer has run
        [({ sh with na := false, holder := some t, logical := sh.logical - 1 }, .rFin)]
      else if sh.n = 0 then []                        -- over-resume
      else [({ sh with n := sh.n - 1, logical := sh.logical - 1 }, .idle)]
  | .aFin => [(sh, .aRes)]
  | .rFin => [(sh, .rRes)]
  | .aRes => [({ sh with n := sh.n - 1, holder := none, done := true }, .idle)]
  | .rRes => [({ sh with n := sh.n - 1, holder := none, done := true }, .idle)]

structure St where
  sh : Sh
  pcs : Tid → Pc

inductive Step : St → St → Prop
  | mk (s : St) (t : Tid) (op : Op) (sh' : Sh) (pc' : Pc) (h : (sh', pc') ∈ step s.sh t (s.pcs t) op) :
      Step s { sh := sh', pcs := fun t' => if t' = t then pc' else s.pcs t' }

inductive Reachable : St → Prop
  | init : Reachable { sh := {}, pcs := fun _ => .idle }
  | step {s s'} : Reachable s → Step s s' → Reachable s'

def isH : Pc → Bool | .aFin | .aRes | .rFin | .rRes => true | _ => false

structure G (sh : Sh) : Prop where
  ina : sh.inactive = true → sh.na = true ∧ sh.holder = none ∧ sh.done = false
  naH : sh.na = true → sh.holder = none ∧ sh.done = false
  dn : sh.done = true → sh.inactive = false ∧ sh.na = false ∧ sh.holder = none
  nh : sh.holder = none → sh.n = sh.logical
  hd : sh.holder ≠ none → sh.inactive = false ∧ sh.na = false ∧ sh.done = false
  quiet : sh.inactive = false → sh.na = false → sh.holder = none → sh.done = true

structure L (sh : Sh) (t : Tid) (pc : Pc) : Prop where
  a : isH pc = true → sh.holder = some t ∧ sh.n = sh.logical + 1
  h : sh.holder = some t → isH pc = true

structure Inv (s : St) : Prop where
  g : G s.sh
  l : ∀ t, L s.sh t (s.pcs t)

theorem inv_init : Inv { sh := {}, pcs := fun _ => .idle } :=
  ⟨⟨by simp, by simp, by simp, by simp, by simp, by simp⟩, fun _ => ⟨by simp [isH], by simp⟩⟩

set_option maxHeartbeats 1000000 in
theorem inv_step {s s' : St} (i : Inv s) (hs : Step s s') : Inv s' := by
  cases hs with
  | mk t op sh' pc' h =>
    obtain ⟨⟨gi, gna, gd, gnh, ghd, gq⟩, l⟩ := i
    have lt := l t
    have fin : ∀ (shn : Sh) (pcn : Pc), G shn → L shn t pcn →
        (∀ u, u ≠ t → L s.sh u (s.pcs u) → L shn u (s.pcs u)) →
        Inv { sh := shn, pcs := fun t' => if t' = t then pcn else s.pcs t' } := by
      intro shn pcn g' l' oth
      refine ⟨g', fun u => ?_⟩
      by_cases e : u = t
      · subst e; simpa using l'
      · simpa [e] using oth u e (l u)
    have notHolder : ∀ u, u ≠ t → s.sh.holder = some t → isH (s.pcs u) = false := by
      intro u hu hh
      cases ha : isH (s.pcs u) with
      | false => rfl
      | true => have := ((l u).a ha).1; rw [hh] at this; exact absurd (Option.some.inj this).symm hu
    have idleOthers : s.sh.holder = none → ∀ u, isH (s.pcs u) = false := by
      intro hh u
      cases ha : isH (s.pcs u) with
      | false => rfl
      | true => have := ((l u).a ha).1; rw [hh] at this; cases this
    cases hpc : s.pcs t with
    | idle =>
      rw [hpc] at h lt
      have hnt : s.sh.holder ≠ some t := by
        intro e; have x := lt.h e; simp [isH] at x
      cases op with
      | suspend =>
        simp [step] at h; obtain ⟨rfl, rfl⟩ := h
        refine fin _ _ ⟨gi, gna, gd, fun hh => by simp [gnh hh], ghd, gq⟩ ⟨by simp [isH], fun e => absurd e hnt⟩ ?_
        intro u hu lu
        exact ⟨fun ha => by have := lu.a ha; exact ⟨this.1, by simp [this.2]⟩, lu.h⟩
      | activate =>
        simp only [step] at h
        split at h
        · rename_i hc
          obtain ⟨hn0, hin, hna⟩ := hc
          simp at h; obtain ⟨rfl, rfl⟩ := h
          have hi := gi hin
          have hl0 : s.sh.logical = 0 := by have := gnh hi.2.1; omega
          refine fin _ _ ⟨by simp, by simp, by simp [hi.2.2], by simp, by simp [hi.2.2], by simp⟩
            ⟨fun _ => ⟨rfl, by simp [hl0]⟩, fun _ => rfl⟩ ?_
          intro u hu lu
          have ia := idleOthers hi.2.1 u
          exact ⟨by simp [ia], fun e => by simp at e; exact absurd e.symm hu⟩
        · split at h
          · rename_i hnc hin
            simp at h; obtain ⟨rfl, rfl⟩ := h
            have hi := gi hin
            refine fin _ _ ⟨by simp, gna, by simp [hi.2.2], gnh, by simp [hi.2.1], by simp [hi.1]⟩
              ⟨by simp [isH], fun e => absurd e hnt⟩ (fun u hu lu => ⟨lu.a, lu.h⟩)
          · simp at h; obtain ⟨rfl, rfl⟩ := h
            exact fin _ _ ⟨gi, gna, gd, gnh, ghd, gq⟩ ⟨by simp [isH], fun e => absurd e hnt⟩ (fun u hu lu => lu)
      | resume =>
        simp only [step] at h
        split at h
        · simp at h
        · rename_i hl0
          split at h
          · rename_i hc
            simp at hc
            obtain ⟨hn1, hin, hna⟩ := hc
            simp only [List.mem_singleton, Prod.mk.injEq] at h; obtain ⟨rfl, rfl⟩ := h
            have hh := gna hna
            have hnl := gnh hh.1
            refine fin _ _ ⟨by simp [hin], by simp, by simp [hh.2], by simp, by simp [hin, hh.2], by simp⟩
              ⟨fun _ => ⟨rfl, by simp only []; omega⟩, fun _ => rfl⟩ ?_
            intro u hu lu
            have ia := idleOthers hh.1 u
            exact ⟨by simp [ia], fun e => by simp at e; exact absurd e.symm hu⟩
          · split at h
            · simp at h
            · rename_i hnc hn0
              simp at h; obtain ⟨rfl, rfl⟩ := h
              refine fin _ _ ⟨gi, gna, gd, fun hh => by simp [gnh hh], ghd, gq⟩ ⟨by simp [isH], fun e => absurd e hnt⟩ ?_
              intro u hu lu
              exact ⟨fun ha => by have := lu.a ha; exact ⟨this.1, by simp only []; omega⟩, lu.h⟩
    | aFin =>
      rw [hpc] at h lt
      simp [step] at h; obtain ⟨rfl, rfl⟩ := h
      exact fin _ _ ⟨gi, gna, gd, gnh, ghd, gq⟩ ⟨fun _ => lt.a rfl, fun _ => rfl⟩ (fun u hu lu => lu)
    | rFin =>
      rw [hpc] at h lt
      simp [step] at h; obtain ⟨rfl, rfl⟩ := h
      exact fin _ _ ⟨gi, gna, gd, gnh, ghd, gq⟩ ⟨fun _ => lt.a rfl, fun _ => rfl⟩ (fun u hu lu => lu)
    | aRes =>
      rw [hpc] at h lt
      have ⟨hh, hn⟩ := lt.a rfl
      have hhd := ghd (by rw [hh]; simp)
      simp [step] at h; obtain ⟨rfl, rfl⟩ := h
      refine fin _ _ ⟨by simp [hhd.1], by simp [hhd.2.1], fun _ => ⟨hhd.1, hhd.2.1, rfl⟩, fun _ => by simp [hn], by simp, by simp⟩
        ⟨by simp [isH], by simp⟩ ?_
      intro u hu lu
      have ia := notHolder u hu hh
      exact ⟨by simp [ia], by simp⟩
    | rRes =>
      rw [hpc] at h lt
      have ⟨hh, hn⟩ := lt.a rfl
      have hhd := ghd (by rw [hh]; simp)
      simp [step] at h; obtain ⟨rfl, rfl⟩ := h
      refine fin _ _ ⟨by simp [hhd.1], by simp [hhd.2.1], fun _ => ⟨hhd.1, hhd.2.1, rfl⟩, fun _ => by simp [hn], by simp, by simp⟩
        ⟨by simp [isH], by simp⟩ ?_
      intro u hu lu
      have ia := notHolder u hu hh
      exact ⟨by simp [ia], by simp⟩

theorem inv_reachable {s : St} (h : Reachable s) : Inv s := by
  induction h with
  | init => exact inv_init
  | step _ hs ih => exact inv_step ih hs

/-- **an inactive queue runs nothing until its activation has completed; afterwards N suspends need exactly N
    resumes**: the drainer's test (`count ≠ 0 ∨ INACTIVE ∨ NEEDS_ACTIVATION`) is true exactly while the activation has
    not completed or client suspends outnumber the client resumes issued -/
theorem blocked_iff {s : St} (h : Reachable s) :
    blocked s.sh = true ↔ (s.sh.done = false ∨ 0 < s.sh.logical) := by
  have i := inv_reachable h
  obtain ⟨gi, gna, gd, gnh, ghd, gq⟩ := i.g
  unfold blocked
  constructor
  · intro hb
    by_cases hd : s.sh.done = true
    · right
      have ⟨h1, h2, h3⟩ := gd hd
      have := gnh h3
      simp [h1, h2] at hb; omega
    · left; cases hdd : s.sh.done <;> simp_all
  · rintro (hd | hl)
    · by_cases hh : s.sh.holder = none
      · cases hin : s.sh.inactive with
        | true => simp
        | false =>
          cases hna : s.sh.na with
          | true => simp
          | false => have := gq hin hna hh; simp [hd] at this
      · obtain ⟨t, ht⟩ := Option.ne_none_iff_exists'.mp hh
        have := ((i.l t).a ((i.l t).h ht)).2; simp; omega
    · by_cases hh : s.sh.holder = none
      · have := gnh hh; simp; omega
      · obtain ⟨t, ht⟩ := Option.ne_none_iff_exists'.mp hh
        have := ((i.l t).a ((i.l t).h ht)).2; simp; omega

/-- the suspend count is exact: the client's outstanding suspends, plus one while a thread is finalizing the activation -/
theorem count_exact {s : St} (h : Reachable s) :
    s.sh.n = s.sh.logical + (if s.sh.holder.isSome then 1 else 0) := by
  have i := inv_reachable h
  cases hh : s.sh.holder with
  | none => simp [i.g.nh hh]
  | some t => simp [((i.l t).a ((i.l t).h hh)).2]

end ActP
