import DispatchVerif.Core.TimeA
/-! C12: property-level consequences for dispatch_time, and dispatch_walltime (finding F1). -/
namespace TimeP

theorem decode_up (v nw : Nat) (h1 : v ≤ MAXV) : decode v nw = (.up, v) := by
  unfold decode B63 MAXV at *
  have a : ¬ (v ≥ 9223372036854775808) := by omega
  have b : ¬ (v > 4611686018427387903) := by omega
  simp only [a, b, if_false]

theorem decode_mono (v nw : Nat) (h : v ≤ MAXV) : decode (v + B63) nw = (.mono, v) := by
  unfold decode B63 B62 MAXV FOREVER at *
  have e2 : v + 9223372036854775808 ≥ 9223372036854775808 := by omega
  have e3 : ¬ ((v + 9223372036854775808) / 4611686018427387904 % 2 = 1) := by omega
  have e4 : v + 9223372036854775808 - 9223372036854775808 = v := by omega
  have e5 : ¬ (v > 4611686018427387903) := by omega
  simp only [e2, e3, e4, e5, if_true, if_false]

theorem decode_wall (v nw : Nat) (h1 : 3 ≤ v) (h2 : v ≤ MAXV) : decode (W - v) nw = (.wall, v) := by
  unfold decode MAXV B63 B62 FOREVER WALLNOW W at *
  have e2 : 18446744073709551616 - v ≥ 9223372036854775808 := by omega
  have e3 : (18446744073709551616 - v) / 4611686018427387904 % 2 = 1 := by omega
  have e4 : ¬ (18446744073709551616 - v = 18446744073709551614) := by omega
  have e5 : (18446744073709551616 - (18446744073709551616 - v)) % 18446744073709551616 = v := by omega
  have e6 : ¬ (v > 4611686018427387903) := by omega
  simp only [e2, e3, e4, e5, e6, if_true, if_false]

/-- uptime base -/
theorem dt_up (v : Nat) (d : Int) (nu nm nw : Nat) (h1 : 1 ≤ v) (h2 : v ≤ MAXV) (hd : I64 d) :
    dispatchTime v d nu nm nw = coreRel .up v d := by
  unfold dispatchTime
  have hv1 : ¬ (v = FOREVER) := by unfold FOREVER MAXV at *; omega
  have hv0 : ¬ (v = 0) := by omega
  rw [if_neg hv1, decode_up v nw h2]
  simp only [hv1, hv0, if_false]

/-- monotonic base -/
theorem dt_mono (v : Nat) (d : Int) (nu nm nw : Nat) (h1 : 1 ≤ v) (h2 : v ≤ MAXV) (hd : I64 d) :
    dispatchTime (v + B63) d nu nm nw = coreRel .mono v d := by
  unfold dispatchTime
  have hv1 : ¬ (v + B63 = FOREVER) := by unfold FOREVER MAXV B63 at *; omega
  have hvf : ¬ (v = FOREVER) := by unfold FOREVER MAXV at *; omega
  have hv0 : ¬ (v = 0) := by omega
  rw [if_neg hv1, decode_mono v nw h2]
  simp only [hvf, hv0, if_false]

/-- wall base -/
theorem dt_wall (v : Nat) (d : Int) (nu nm nw : Nat) (h1 : 3 ≤ v) (h2 : v ≤ MAXV) (hd : I64 d) :
    dispatchTime (W - v) d nu nm nw = coreWall v d := by
  unfold dispatchTime
  have hv1 : ¬ (W - v = FOREVER) := by unfold FOREVER MAXV W at *; omega
  have hvf : ¬ (v = FOREVER) := by unfold FOREVER MAXV at *; omega
  rw [if_neg hv1, decode_wall v nw h1 h2]
  simp only [hvf, if_false]

/-- FOREVER is absorbing -/
theorem forever_absorbing (d : Int) (nu nm nw : Nat) : dispatchTime FOREVER d nu nm nw = FOREVER := by
  unfold dispatchTime; simp

/-- out-of-range bases (uptime values ≥ 2^62) are treated as FOREVER -/
theorem out_of_range_up (t : Nat) (d : Int) (nu nm nw : Nat) (h1 : MAXV < t) (h2 : t < B63) :
    dispatchTime t d nu nm nw = FOREVER := by
  unfold dispatchTime decode
  have a : ¬ (t ≥ B63) := by omega
  have b : t > MAXV := h1
  simp [a, b]

/-- **Uptime / monotonic clocks: exact shift with saturation, for all 2^64 deltas.**
    The result is FOREVER exactly when the sum is beyond the representable future (≥ 2^62-1), the
    earliest representable time (1) when it precedes the representable past, else the exact sum. -/
theorem rel_shift (c : Clock) (v : Nat) (d : Int) (h1 : 1 ≤ v) (h2 : v ≤ MAXV) (hd : I64 d) :
    coreRel c v d =
      if (v : Int) + d ≥ MAXV then FOREVER
      else encode c (max 1 ((v : Int) + d)).toNat := by
  rw [coreRel_eq c v d h1 h2 hd]
  by_cases hm : (v : Int) + d ≥ MAXV
  · simp [hm]
  · simp only [hm, if_false]
    by_cases hl : (v : Int) + d < 1
    · simp only [hl, if_true]; congr 1; omega
    · simp only [hl, if_false]; congr 1; omega

/-- a larger delta never yields an earlier time (uptime / monotonic), and the result stays on the
    same clock: it is FOREVER or `encode c x` with x monotone in the delta -/
theorem rel_monotone (c : Clock) (v : Nat) (d1 d2 : Int) (h1 : 1 ≤ v) (h2 : v ≤ MAXV)
    (hd1 : I64 d1) (hd2 : I64 d2) (hle : d1 ≤ d2) :
    coreRel c v d2 = FOREVER ∨
      ∃ x1 x2, coreRel c v d1 = encode c x1 ∧ coreRel c v d2 = encode c x2 ∧
        1 ≤ x1 ∧ x1 ≤ x2 ∧ x2 < MAXV := by
  rw [rel_shift c v d1 h1 h2 hd1, rel_shift c v d2 h1 h2 hd2]
  by_cases hm2 : (v : Int) + d2 ≥ MAXV
  · left; simp [hm2]
  · right
    have hm1 : ¬ ((v : Int) + d1 ≥ MAXV) := by omega
    simp only [hm1, hm2, if_false]
    refine ⟨_, _, rfl, rfl, ?_, ?_, ?_⟩ <;> (unfold MAXV at *; omega)

/-- **F8 as a theorem about the model**: on the wall clock the property fails at exactly one
    point — base 3 ns after the epoch, delta −2: an elapsed time, yet the result is FOREVER, while
    the *smaller* delta −3 gives "now". -/
theorem wall_sum_one_is_forever :
    coreWall 3 (-2) = FOREVER ∧ coreWall 3 (-3) = WALLNOW := by
  have a := coreWall_eq 3 (-2) (by omega) (by unfold MAXV; omega) (by unfold I64; omega)
  have b := coreWall_eq 3 (-3) (by omega) (by unfold MAXV; omega) (by unfold I64; omega)
  unfold MAXV at a b
  constructor
  · rw [a]; simp
  · rw [b]; simp

/-- wall clock away from that point: same clock, exact shift, saturation (partial C12 for wall) -/
theorem wall_shift_partial (v : Nat) (d : Int) (h1 : 3 ≤ v) (h2 : v ≤ MAXV) (hd : I64 d)
    (hne : (v : Int) + d ≠ 1) :
    coreWall v d =
      if (v : Int) + d ≥ MAXV then FOREVER
      else if (v : Int) + d < 1 then WALLNOW
      else W - ((v : Int) + d).toNat := by
  rw [coreWall_eq v d h1 h2 hd]
  simp [hne]

/-! ### dispatch_walltime -/

/-- dispatch_walltime(inval, delta): `base` is the uint64 `_dispatch_timespec_to_nano(*inval)` or the
    current wall time; int64 arithmetic wraps (the code relies on it) -/
def dispatchWalltime (base : Nat) (delta : Int) : Nat :=
  let nsec := (base + u64 delta) % W          -- (int64_t)base + delta, two's complement
  if nsec ≥ B63 ∨ nsec ≤ 1 then               -- nsec <= 1 as a signed number
    (if delta ≥ 0 then FOREVER else WALLNOW)
  else (W - nsec) % W

/-- **F1 as a theorem about the model**: a wall-clock time ≥ 2^62 ns (year 2116) — e.g.
    timespec {4700000000, 0} with delta 0 — is returned as a value with top bits `10`, which
    every consumer decodes as a time on the MONOTONIC clock. -/
theorem walltime_changes_clock :
    (decode (dispatchWalltime 4700000000000000000 0) 0).1 = Clock.mono := by
  unfold dispatchWalltime decode u64 W B63 B62 MAXV FOREVER WALLNOW
  decide

/-- … and near 2^63 the decoded monotonic value is tiny: a deadline 292 years in the future becomes
    one that has already passed (wrap-around). -/
theorem walltime_wraps_to_past :
    decode (dispatchWalltime 1790000000000000000 7433372036854775000) 0 = (Clock.mono, 808) := by
  unfold dispatchWalltime decode u64 W B63 B62 MAXV FOREVER WALLNOW
  decide

/-- in range, dispatch_walltime is exact (partial C12 for dispatch_walltime) -/
theorem walltime_partial (base : Nat) (d : Int) (hb : base < B63) (hd : I64 d)
    (h3 : 3 ≤ (base : Int) + d) (hm : (base : Int) + d < MAXV) (nw : Nat) :
    decode (dispatchWalltime base d) nw = (.wall, ((base : Int) + d).toNat) := by
  have hn : (base + u64 d) % W = ((base : Int) + d).toNat := by
    unfold I64 at hd; unfold u64 W B63 MAXV at *; omega
  unfold dispatchWalltime
  simp only [hn]
  have c1 : ¬ (((base : Int) + d).toNat ≥ B63 ∨ ((base : Int) + d).toNat ≤ 1) := by
    unfold B63 MAXV at *; omega
  simp only [c1, if_false]
  have := decode_wall ((base : Int) + d).toNat nw (by omega) (by unfold MAXV at *; omega)
  have e : (W - ((base : Int) + d).toNat) % W = W - ((base : Int) + d).toNat := by
    unfold W MAXV at *; omega
  rw [e]; exact this

end TimeP
