import DispatchVerif.Core.IoW2
/-! C14, write conservation when the operation is completed by somebody else: after an operation fails with EBADF the library gives up
    the descriptor and completes the operations queued on it (`_dispatch_stream_cleanup_operations` /
    `_dispatch_disk_cleanup_fd_entry_operations`); the final `DOP_DONE` delivery of `_dispatch_operation_deliver_data` then decides
    what the handler is told. As found it took the error from `op->err` alone - 0 for an operation that never failed itself - and a
    write with error 0 passes NULL: "done, no error, nothing unwritten" with bytes missing (F42). As repaired an operation that is
    done before it has transferred its length takes `fd_entry->err`. -/
namespace IoW

def cutShort (fixed : Bool) (op : Op) (fdErr : Nat) : List Call :=
  let op := if fixed ∧ op.err = 0 ∧ op.total < op.length then { op with err := fdErr } else op
  (deliverData op false true false).2

/-- **a write cut short by the cleanup after its descriptor failed reports the descriptor's error and exactly the bytes that were
    not written**, in one final call - whatever had been written before, whatever the water marks and the state of the buffer -/
theorem cut_short_conservation {orig : List Byte} {op : Op} (h : Inv orig op false) (hlt : op.total < op.length) (he : op.err = 0)
    (fdErr : Nat) (hf : fdErr ≠ 0) :
    cutShort true op fdErr = [⟨true, some (orig.drop op.total), fdErr⟩] := by
  have hrem : (dropR op.data op.bufLen).flatten = orig.drop op.total := by
    rw [flatten_dropR, h.flat, List.drop_drop]
    have := h.bl
    congr 1; omega
  unfold cutShort
  simp only [he, hlt, and_self, if_true]
  unfold deliverData
  simp [hf, hrem]

/-- F42 as found: the same state, the error left at 0: the handler is told "done, no error, nothing unwritten" -/
theorem cut_short_as_found {orig : List Byte} {op : Op} (he : op.err = 0) (fdErr : Nat) :
    cutShort false op fdErr = [⟨true, none, 0⟩] := by
  unfold cutShort
  simp only [Bool.false_eq_true, false_and, if_false]
  unfold deliverData
  simp [he]

/-- non-vacuity: 10 bytes submitted, none written yet (the pipe is full), the descriptor fails with EBADF = 9 -/
example : cutShort true (fresh [List.replicate 10 7] 0 1000000 1048576) 9 = [⟨true, some (List.replicate 10 7), 9⟩] :=
  cut_short_conservation (fresh_inv _ _ _ _ (by simp) (by decide) (by decide)).weaken (by simp [fresh]) (by simp [fresh]) 9 (by decide)

end IoW
