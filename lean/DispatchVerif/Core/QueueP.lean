import DispatchVerif.Core.AttrP
/-! C18: what a queue created from an attribute reports, the global-queue lookup, and queue-specific data /
    `dispatch_assert_queue` along the target chain. -/
namespace QueueP
open AttrP

/-- `_dispatch_qos_to_qos_class` -/
def qosClass (q : Nat) : Nat := [0x00, 0x05, 0x09, 0x11, 0x15, 0x19, 0x21].getD q 0

/-- the clamp of `_dispatch_lane_create_with_target` without pthread workqueue QoS:
    user-interactive (6) → user-initiated (5), maintenance (1) → background (2) -/
def clampQos (q : Nat) : Nat := if q = 6 then 5 else if q = 1 then 2 else q

structure Report where
  qosClass : Nat
  relpri : Int
  concurrent : Bool
  inactive : Bool
deriving DecidableEq, Repr

/-- what `dispatch_queue_create(label, attr)` reports through `dispatch_queue_get_qos_class` and its
    debug description, for the attribute in table slot `idx` -/
def created (idx : Nat) : Report :=
  let i := toInfo idx
  let q := clampQos i.qos
  { qosClass := qosClass q, relpri := if q = 0 then 0 else -(i.relpri : Int), concurrent := i.conc, inactive := i.inactive }

/-- the report depends only on the fields of the attribute, whatever order the constructors were applied in -/
theorem created_of_info (idx jdx : Nat) (h : toInfo idx = toInfo jdx) : created idx = created jdx := by
  unfold created; rw [h]

theorem clamp_supported (q : Nat) (h : q < 7) : clampQos q ∈ [0, 2, 3, 4, 5] := by
  unfold clampQos
  have : q = 0 ∨ q = 1 ∨ q = 2 ∨ q = 3 ∨ q = 4 ∨ q = 5 ∨ q = 6 := by omega
  rcases this with rfl | rfl | rfl | rfl | rfl | rfl | rfl <;> simp

/-! ### dispatch_get_global_queue -/

/-- `_dispatch_qos_from_queue_priority` followed by the clamp of `dispatch_get_global_queue`; 0 = unspecified -/
def qosFromIdentifier (id : Int) : Nat :=
  let q : Nat :=
    if id = -32768 then 2          -- DISPATCH_QUEUE_PRIORITY_BACKGROUND
    else if id = -128 then 3       -- DISPATCH_QUEUE_PRIORITY_NON_INTERACTIVE
    else if id = -2 then 3         -- DISPATCH_QUEUE_PRIORITY_LOW
    else if id = 0 then 4          -- DISPATCH_QUEUE_PRIORITY_DEFAULT
    else if id = 2 then 5          -- DISPATCH_QUEUE_PRIORITY_HIGH
    else if id = 0x05 then 1 else if id = 0x09 then 2 else if id = 0x11 then 3 else if id = 0x15 then 4
    else if id = 0x19 then 5 else if id = 0x21 then 6 else 0
  if q = 1 then 2 else if q = 6 then 5 else q

def rootLabel (q : Nat) (overcommit : Bool) : String :=
  let base := ["", "com.apple.root.maintenance-qos", "com.apple.root.background-qos", "com.apple.root.utility-qos",
    "com.apple.root.default-qos", "com.apple.root.user-initiated-qos", "com.apple.root.user-interactive-qos"].getD q ""
  if overcommit then base ++ ".overcommit" else base

/-- label of the queue returned for an identifier, `none` = NULL -/
def globalQueue (id : Int) (overcommit : Bool) : Option String :=
  let q := qosFromIdentifier id
  if q = 0 then none else some (rootLabel q overcommit)

/-! ### queue-specific data and assert_queue along the target chain
    A hierarchy is `parent : List (Option Nat)` (index of the target, `none` = targets a global queue);
    `vals q k` is the value set for key `k` on queue `q` (0 = not set). -/

def chain (parent : List (Option Nat)) : Nat → Nat → List Nat
  | 0, _ => []
  | fuel + 1, q => q :: (match parent.getD q none with | some p => chain parent fuel p | none => [])

/-- `dispatch_get_specific(key)` inside an item of queue `q`: the value on the nearest queue of the chain -/
def getSpecific (parent : List (Option Nat)) (vals : Nat → Nat → Nat) (q k : Nat) : Nat :=
  ((chain parent (parent.length + 1) q).map (fun c => vals c k)).find? (· ≠ 0) |>.getD 0

/-- `dispatch_assert_queue(a)` inside an item of `q` that was submitted synchronously from an item of `ctx`
    (`none`: submitted asynchronously or from a plain thread) passes iff `a` is on the chain of `q` or of `ctx` -/
def assertAccepts (parent : List (Option Nat)) (q : Nat) (ctx : Option Nat) (a : Nat) : Bool :=
  (chain parent (parent.length + 1) q).contains a ||
    (match ctx with | some c => (chain parent (parent.length + 1) c).contains a | none => false)

/-- the value returned is the one set on the nearest queue of the chain that has the key, or NULL -/
theorem getSpecific_nearest (parent : List (Option Nat)) (vals : Nat → Nat → Nat) (q k : Nat) :
    (getSpecific parent vals q k = 0 ∧ ∀ c ∈ chain parent (parent.length + 1) q, vals c k = 0) ∨
    (∃ pre c post, chain parent (parent.length + 1) q = pre ++ c :: post ∧ (∀ d ∈ pre, vals d k = 0) ∧
      vals c k ≠ 0 ∧ getSpecific parent vals q k = vals c k) := by
  unfold getSpecific
  generalize chain parent (parent.length + 1) q = l
  induction l with
  | nil => left; simp
  | cons c l ih =>
    by_cases hc : vals c k = 0
    · rcases ih with ⟨h0, hall⟩ | ⟨pre, d, post, e, hp, hd, hv⟩
      · left
        refine ⟨?_, ?_⟩
        · simpa [List.find?, hc] using h0
        · intro x hx
          simp only [List.mem_cons] at hx
          rcases hx with rfl | hx
          · exact hc
          · exact hall x hx
      · right
        refine ⟨c :: pre, d, post, by simp [e], ?_, hd, ?_⟩
        · intro x hx
          simp only [List.mem_cons] at hx
          rcases hx with rfl | hx
          · exact hc
          · exact hp x hx
        · simpa [List.find?, hc] using hv
    · right
      exact ⟨[], c, l, rfl, by simp, hc, by simp [List.find?, hc]⟩

/-- assert_queue_not accepts exactly the others -/
theorem assert_not_complement (parent : List (Option Nat)) (q : Nat) (ctx : Option Nat) (a : Nat) :
    (!assertAccepts parent q ctx a) = true ↔ assertAccepts parent q ctx a = false := by
  cases assertAccepts parent q ctx a <;> simp

end QueueP
