/-! C10, the serial path: `_dispatch_apply_serial` (src/apply.c) is
    `size_t idx = 0; do { callout(idx); } while (++idx < iter);` - a do-while over an index *word*.
    `serialLoop bits iter` runs that loop with an index of `bits` bits (`++idx` wraps), collecting the invoked
    indices; `none` = the fuel ran out, i.e. the loop did not end within `fuel` passes. -/
namespace ApplySerial

def serialLoop (bits iter : Nat) : (fuel : Nat) → (idx : Nat) → List Nat → Option (List Nat)
  | 0, _, _ => none
  | f + 1, idx, acc =>
    let acc' := acc ++ [idx]
    let idx' := (idx + 1) % 2 ^ bits
    if idx' < iter then serialLoop bits iter f idx' acc' else some acc'

theorem serialLoop_from {bits iter : Nat} (hi : iter < 2 ^ bits) :
    ∀ (k idx : Nat) (acc : List Nat), 0 < k → idx + k = iter →
      serialLoop bits iter k idx acc = some (acc ++ List.range' idx k) := by
  intro k
  induction k with
  | zero => intro _ _ h; omega
  | succ k ih =>
    intro idx acc _ hk
    have hmod : (idx + 1) % 2 ^ bits = idx + 1 := Nat.mod_eq_of_lt (by omega)
    simp only [serialLoop, hmod]
    by_cases hlast : k = 0
    · subst hlast
      have : ¬ idx + 1 < iter := by omega
      simp [this, List.range']
    · have hlt : idx + 1 < iter := by omega
      rw [if_pos hlt, ih (idx + 1) (acc ++ [idx]) (by omega) (by omega)]
      simp [List.range', List.append_assoc]

/-- **the serial path invokes 0, 1, …, iter-1 in that order, each once, and ends after exactly iter passes** - for every
    iteration count a `size_t` can hold (the index word is as wide as the count: iter < 2^bits) -/
theorem serial_exact {bits iter : Nat} (h0 : 0 < iter) (hi : iter < 2 ^ bits) :
    serialLoop bits iter iter 0 [] = some (List.range iter) := by
  rw [serialLoop_from hi iter 0 [] h0 (by omega)]
  simp [List.range_eq_range']

/-- the width matters: with an index word narrower than the count the loop is still running after `iter` passes and has
    called index 0 a second time (bits = 2, iter = 5: 0 1 2 3 0 …) - the round-8 seed (`uint32_t idx`) in small -/
theorem narrow_index_repeats : serialLoop 2 5 5 0 [] = none ∧ serialLoop 2 5 40 0 [] = none := by decide

end ApplySerial
