import DispatchVerif.Core.LaneFFifo7
namespace LaneF

set_option maxHeartbeats 8000000 in
theorem fifo_drain {s : St} (inv : Inv s) (gf : GF s.sh) (lf : ∀ u, LF s.sh u (s.pcs u)) {t : Tid} {op : Op}
    {sh' : Sh} {pc' : Pc} (h : (sh', pc') ∈ step s.sh t (s.pcs t) op)
    (hpc : s.pcs t = .dTryLock ∨ s.pcs t = .dInvoke ∨ s.pcs t = .dLoopHead ∨ (∃ i, s.pcs t = .dRun i) ∨
      (∃ i, s.pcs t = .dRunning i) ∨ s.pcs t = .dLoopNext ∨ s.pcs t = .dUnlock) :
    PostF s t sh' pc' := by
  have f1 := gf.f1
  have lt := lf t
  have h' := h
  rcases hpc with e | e | e | ⟨i, e⟩ | ⟨i, e⟩ | e | e <;> rw [e] at h' lt
  · -- dTryLock
    simp only [step] at h'
    split at h'
    · rename_i hc
      have hO : s.sh.dq.O = none := by cases ho : s.sh.dq.O <;> simp_all
      simp at h'; obtain ⟨rfl, rfl⟩ := h'
      exact acq_step inv gf lf h rfl hO (by simp) f1 rfl rfl rfl (by rw [e]; rfl)
    · simp at h'; obtain ⟨rfl, rfl⟩ := h'
      exact free_step inv gf lf h rfl (Or.inl rfl) f1 rfl (by simp) (by rw [e]; rfl) (fun u hm => hm)
        (by intro hc; obtain ⟨id, h1, _⟩ := lt.c hc; simp [waitId, waitId0] at h1) (by rw [e]; exact Or.inl rfl)
  · -- dInvoke
    have hOt := ((inv.l t).own (by rw [e]; rfl)).1.1
    simp only [step] at h'
    split at h' <;> (simp at h'; obtain ⟨rfl, rfl⟩ := h'; exact owner_step inv gf lf h rfl (by rw [hOt]; simp) f1 (by rw [e]; rfl) (by rw [e]; rfl) rfl rfl rfl (by rw [e]; rfl))
  · -- dLoopHead
    have hOt := ((inv.l t).own (by rw [e]; rfl)).1.1
    have hp := lt.p rfl rfl
    simp only [step] at h'
    split at h'
    · simp at h'
    · rename_i hd rest heq
      split at h'
      · simp at h'
      · split at h'
        · simp at h'; obtain ⟨rfl, rfl⟩ := h'
          exact owner_step inv gf lf h rfl (by rw [hOt]; simp) f1 (by rw [e]; rfl) (by rw [e]; rfl) rfl rfl rfl (by rw [e]; rfl)
        · split at h'
          · simp at h'
          · -- pop an asynchronous item
            simp at h'; obtain ⟨rfl, rfl⟩ := h'
            have ht : holds (s.pcs t) = true := by rw [e]; rfl
            have hnsig := ((inv.l t).own ht).2.1
            refine ⟨⟨?_, fun ho => by simp [hOt] at ho⟩, ?_, ?_⟩
            · simp [f1, heq, hp.1]
            · have hcnt : countW s.sh t = 0 := count_zero_of_d lt.d rfl
              have hcnt' := (d2_carry h (by rw [e]; exact lt.d) lt.d2).2 hcnt (by intro id e2; rw [e] at e2; cases e2)
              refine ⟨fun _ hi => by simp [inHand] at hi, ?_, ?_, ?_, ?_, ?_, ?_, ?_, ?_, by omega⟩
              · intro id e2; cases e2; exact ⟨by simp [hp.1], hp.2.1, hp.2.2⟩
              · intro hpx; simp [hp.2.2] at hpx
              · intro w enq k e2; cases e2
              · intro w k e2; cases e2
              · intro hm; exact absurd hm hnsig
              · intro id e2; cases e2
              · intro hc; simp [hp.2.1] at hc
              · intro it hm hw
                have := lt.d it (by rw [heq]; simp [hm]) hw; simp [waitId0] at this
            · intro u0 ne0; refine others_changed inv ht ?_ ?_ ?_ ?_ ?_ u0 ne0 (lf u0)
              · rfl
              · exact Or.inl rfl
              · intro it hm; rw [heq]; exact List.mem_cons_of_mem _ hm
              · intro u nu
                rcases count_after h u with h1 | ⟨e1, _⟩
                · exact h1
                · exact absurd e1 nu
              · intro u _ hc; simp [hp.2.1] at hc
  · -- dRun: the item starts
    have ht : holds (s.pcs t) = true := by rw [e]; rfl
    have hOt := ((inv.l t).own ht).1.1
    have hnsig := ((inv.l t).own ht).2.1
    have ha := lt.a i rfl
    simp [step] at h'; obtain ⟨rfl, rfl⟩ := h'
    refine ⟨⟨?_, fun ho => by simp [hOt] at ho⟩, ?_, ?_⟩
    · simp [f1, ha.1]
    · exact self_owner rfl rfl ⟨by simp [ha.1], ha.2.1, ha.2.2⟩ hnsig
        (by intro it hm hw; have := lt.d it hm hw; simp [waitId0] at this) lt.d2
    · intro u0 ne0; refine others_changed inv ht ?_ ?_ ?_ ?_ ?_ u0 ne0 (lf u0)
      · rfl
      · exact Or.inl rfl
      · intro it hm; exact hm
      · intro u _; exact Nat.le_refl _
      · intro u _ hc; simp [ha.2.1] at hc
  · -- dRunning
    have hOt := ((inv.l t).own (by rw [e]; rfl)).1.1
    simp [step] at h'; obtain ⟨rfl, rfl⟩ := h'
    exact owner_step inv gf lf h rfl (by rw [hOt]; simp) f1 (by rw [e]; rfl) (by rw [e]; rfl) rfl rfl rfl (by rw [e]; rfl)
  · -- dLoopNext
    have hOt := ((inv.l t).own (by rw [e]; rfl)).1.1
    simp only [step] at h'
    split at h' <;> (simp at h'; obtain ⟨rfl, rfl⟩ := h'; exact owner_step inv gf lf h rfl (by rw [hOt]; simp) f1 (by rw [e]; rfl) (by rw [e]; rfl) rfl rfl rfl (by rw [e]; rfl))
  · -- dUnlock
    have hOt := ((inv.l t).own (by rw [e]; rfl)).1.1
    simp only [step] at h'
    split at h'
    · simp at h'; obtain ⟨rfl, rfl⟩ := h'
      exact owner_step inv gf lf h rfl (by rw [hOt]; simp) f1 (by rw [e]; rfl) (by rw [e]; rfl) rfl rfl rfl (by rw [e]; rfl)
    · simp at h'; obtain ⟨rfl, rfl⟩ := h'
      exact rel_step inv gf lf h rfl f1 (by rw [e]; rfl) (by rw [e]; rfl) rfl (by simp) rfl (by rw [e]; rfl)

end LaneF
