import DispatchVerif.Core.LaneFFifo3
namespace LaneF

/-- bundle for one step: new shared claims, the stepping thread's claims, everybody else's -/
abbrev PostF (s : St) (t : Tid) (sh' : Sh) (pc' : Pc) : Prop :=
  GF sh' ∧ LF sh' t pc' ∧ ∀ u, u ≠ t → LF sh' u (s.pcs u)

macro "lfsimp" : tactic =>
  `(tactic| (simp_all [holds, inHand, isDbwRmw, waitId, waitId0, kId, X, kPc] <;> (try omega)))

/-- new claims of the stepping thread at an owner pc with nothing in hand -/
theorem self_owner {sh' : Sh} {t : Tid} {pc' : Pc} (hh : holds pc' = true) (hi : inHand pc' = false)
    (hx : sh'.pend = [] ∧ sh'.handing = none ∧ sh'.preX = none) (hs : t ∉ sh'.signalled)
    (hd : ∀ it, it ∈ sh'.items → it.waiter = some t → waitId0 pc' = some it.id) (hd2 : countW sh' t ≤ 1) :
    LF sh' t pc' := by
  refine ⟨fun _ _ => hx, ?_, ?_, ?_, ?_, ?_, ?_, ?_, hd, hd2⟩
  · intro id e; subst e; simp [inHand] at hi
  · intro hp; rw [hx.2.2] at hp; cases hp
  · intro w enq k e; subst e; simp [inHand] at hi
  · intro w k e; subst e; simp [holds] at hh
  · intro hm; exact absurd hm hs
  · intro id e; subst e; simp [inHand] at hi
  · intro hc; rw [hx.2.1] at hc; cases hc

/-- new claims of the stepping thread at a non-owner pc -/
theorem self_free {sh' : Sh} {t : Tid} {pc' : Pc} (hh : holds pc' = false) (hns : ∀ w k, pc' ≠ .dbwSignal w k)
    (hpre : sh'.preX ≠ some t)
    (hs : t ∈ sh'.signalled → sh'.handing = some t ∧ sh'.preX = none)
    (hc : sh'.handing = some t → ∃ id, waitId pc' = some id ∧ sh'.pend = [id] ∧ countW sh' t = 0)
    (hd : ∀ it, it ∈ sh'.items → it.waiter = some t → waitId0 pc' = some it.id) (hd2 : countW sh' t ≤ 1) :
    LF sh' t pc' := by
  refine ⟨?_, ?_, ?_, ?_, ?_, hs, ?_, hc, hd, hd2⟩
  · intro h1; rw [hh] at h1; cases h1
  · intro id e; subst e; simp [holds] at hh
  · intro hp; exact absurd hp hpre
  · intro w enq k e; subst e; simp [holds] at hh
  · intro w k e; exact absurd e (hns w k)
  · intro id e; subst e; simp [holds] at hh

end LaneF
