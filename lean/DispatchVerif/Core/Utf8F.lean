import DispatchVerif.Core.Utf8P
/-! C20 (UTF part), the statement the property asks for: the result of UTF-8 -> UTF-16 does not
    depend on how the input is fragmented into regions.  It is false of the current code (F11, F12
    in Utf8P.lean); this file proves it for the *repaired* loop, i.e. the loop in which
      * the look-ahead maps `offset + applied_skip + i` (the position `src` really points at), and
      * the leading-BOM test is made on the position where the sequence starts (`== 0`).
    The repaired loop is written over absolute positions in the object: region `k` covers
    `[off, off + n)`, `src` is position `off + skip + i`. -/
namespace Utf8P

inductive St where
  | emit (us : List Nat) (n : Nat)
  | fail
  | oob
  deriving DecidableEq

/-- one iteration of the (repaired) `for` body at absolute position `pos` -/
def step1 (flat : List Nat) (pos : Nat) : St :=
  match flat.drop pos with
  | [] => .oob
  | b :: tl =>
    if ulen b = 0 then .fail
    else if flat.length < pos + ulen b then .fail          -- the look-ahead subrange is short
    else match readSeq (b :: tl) with
      | none => .oob
      | some w =>
        match emit w (pos == 0) with
        | none => .fail
        | some us => .emit us (ulen b)

/-- run the body from `pos` until the end `e` of the current region is reached or passed; the
    second component of `ok` is the new `skip` -/
def runTo (flat : List Nat) (e : Nat) : Nat → Nat → List Nat → Res
  | 0, pos, out => .ok out (pos - e)
  | fuel + 1, pos, out =>
    if e ≤ pos then .ok out (pos - e) else
    match step1 flat pos with
    | .emit us n => runTo flat e fuel (pos + n) (out ++ us)
    | .fail => .fail
    | .oob => .oob

/-- dispatch_data_apply over regions of the given lengths -/
def regionsF (flat : List Nat) : Nat → List Nat → List Nat → Nat → Res
  | _, [], out, skip => .ok out skip
  | off, n :: ns, out, skip =>
    match runTo flat (off + n) (off + n) (off + skip) (if off = 0 then [0xfeff] else out) with
    | .ok out' skip' => regionsF flat (off + n) ns out' skip'
    | e => e

def toUtf16F (flat : List Nat) (lens : List Nat) : Res := regionsF flat 0 lens [] 0

theorem step1_pos {flat : List Nat} {pos : Nat} {us : List Nat} {n : Nat}
    (h : step1 flat pos = .emit us n) : 1 ≤ n := by
  unfold step1 at h
  split at h
  · cases h
  · rename_i b tl _
    by_cases h0 : ulen b = 0
    · simp [h0] at h
    · simp only [h0, if_false] at h
      split at h
      · cases h
      · split at h
        · cases h
        · split at h
          · cases h
          · cases h; omega

/-- the repaired body never reads outside the mapped bytes -/
theorem step1_no_oob (flat : List Nat) (pos : Nat) (h : pos < flat.length) : step1 flat pos ≠ .oob := by
  unfold step1
  split
  · rename_i hd
    have : (flat.drop pos).length = flat.length - pos := List.length_drop
    rw [hd] at this; simp at this; omega
  · rename_i b tl hd
    have hl : (flat.drop pos).length = flat.length - pos := List.length_drop
    rw [hd] at hl
    simp only [List.length_cons] at hl
    by_cases h0 : ulen b = 0
    · simp [h0]
    · simp only [h0, if_false]
      split
      · simp
      · rename_i hlen
        have hrs : readSeq (b :: tl) ≠ none := by
          have hu : ulen b = 1 ∨ ulen b = 2 ∨ ulen b = 3 ∨ ulen b = 4 := by
            unfold ulen at h0 ⊢; repeat' split <;> simp_all
          rcases hu with hu | hu | hu | hu
          · simp [readSeq, hu]
          · match tl, hl with
            | [], hl => simp at hl; omega
            | _ :: _, _ => simp [readSeq, hu]
          · match tl, hl with
            | [], hl => simp at hl; omega
            | [_], hl => simp at hl; omega
            | _ :: _ :: _, _ => simp [readSeq, hu]
          · match tl, hl with
            | [], hl => simp at hl; omega
            | [_], hl => simp at hl; omega
            | [_, _], hl => simp at hl; omega
            | _ :: _ :: _ :: _, _ => simp [readSeq, hu]
        split
        · rename_i hn; exact absurd hn hrs
        · split <;> simp

/-- fuel beyond `e - pos` makes no difference -/
theorem runTo_fuel (flat : List Nat) (e : Nat) : ∀ (f f' pos : Nat) (out : List Nat),
    e - pos ≤ f → e - pos ≤ f' → runTo flat e f pos out = runTo flat e f' pos out := by
  intro f
  induction f with
  | zero =>
    intro f' pos out h _
    cases f' with
    | zero => rfl
    | succ f' =>
      have : e ≤ pos := by omega
      simp [runTo, this]
  | succ f ih =>
    intro f' pos out h h'
    cases f' with
    | zero =>
      have : e ≤ pos := by omega
      simp [runTo, this]
    | succ f' =>
      simp only [runTo]
      by_cases he : e ≤ pos
      · simp [he]
      · simp only [he, if_false]
        cases hs : step1 flat pos with
        | emit us n =>
          have := step1_pos hs
          exact ih f' (pos + n) (out ++ us) (by omega) (by omega)
        | fail => rfl
        | oob => rfl

/-- a run stops at or after the position it started from -/
theorem runTo_stop_ge (flat : List Nat) (e : Nat) : ∀ (f pos : Nat) (out : List Nat) {out' : List Nat} {s : Nat},
    runTo flat e f pos out = .ok out' s → pos ≤ e + s ∧ (e ≤ pos → e + s = pos) := by
  intro f
  induction f with
  | zero => intro pos out out' s h; simp [runTo] at h; omega
  | succ f ih =>
    intro pos out out' s h
    simp only [runTo] at h
    by_cases he : e ≤ pos
    · simp [he] at h; omega
    · simp only [he, if_false] at h
      cases hs : step1 flat pos with
      | emit us n =>
        rw [hs] at h
        have := ih (pos + n) (out ++ us) h
        omega
      | fail => rw [hs] at h; cases h
      | oob => rw [hs] at h; cases h

/-- stopping at an earlier boundary `e1` and resuming is the same as running to `e2` directly -/
theorem runTo_compose (flat : List Nat) (e1 e2 : Nat) (h12 : e1 ≤ e2) : ∀ (f pos : Nat) (out : List Nat),
    e2 - pos ≤ f →
    runTo flat e2 f pos out =
      (match runTo flat e1 f pos out with
       | .ok out' s => runTo flat e2 f (e1 + s) out'
       | r => r) := by
  intro f
  induction f with
  | zero =>
    intro pos out h
    have : e1 + (pos - e1) = pos := by omega
    simp [runTo, this]
  | succ f ih =>
    intro pos out h
    by_cases he1 : e1 ≤ pos
    · have : e1 + (pos - e1) = pos := by omega
      simp only [runTo, he1, if_true, this]
    · have he2 : ¬ e2 ≤ pos := by omega
      simp only [runTo, he1, he2, if_false]
      cases hs : step1 flat pos with
      | emit us n =>
        have hn := step1_pos hs
        simp only []
        rw [ih (pos + n) (out ++ us) (by omega)]
        cases hr : runTo flat e1 f (pos + n) (out ++ us) with
        | ok out' s =>
          simp only []
          have := runTo_stop_ge flat e1 f (pos + n) (out ++ us) hr
          exact runTo_fuel flat e2 f (f + 1) (e1 + s) out' (by omega) (by omega)
        | fail => rfl
        | oob => rfl
      | fail => rfl
      | oob => rfl

/-- all regions after the first: the region loop is one run to the end of the last region -/
theorem regionsF_eq (flat : List Nat) : ∀ (lens : List Nat) (off : Nat) (out : List Nat) (skip : Nat),
    0 < off → (∀ n ∈ lens, 0 < n) →
    regionsF flat off lens out skip =
      runTo flat (off + lens.sum) (off + lens.sum) (off + skip) out := by
  intro lens
  induction lens with
  | nil =>
    intro off out skip _ _
    have : off + skip - off = skip := by omega
    cases off with
    | zero => omega
    | succ off => simp [regionsF, runTo, this]
  | cons n ns ih =>
    intro off out skip ho hp
    have hn : 0 < n := hp n (by simp)
    have hne : off ≠ 0 := by omega
    simp only [regionsF, hne, if_false, List.sum_cons]
    rw [runTo_compose flat (off + n) (off + (n + ns.sum)) (by omega) _ _ _ (by omega)]
    rw [runTo_fuel flat (off + n) (off + n) (off + (n + ns.sum)) (off + skip) out (by omega) (by omega)]
    cases hr : runTo flat (off + n) (off + (n + ns.sum)) (off + skip) out with
    | ok out' s =>
      simp only []
      rw [ih (off + n) out' s (by omega) (fun m hm => hp m (by simp [hm]))]
      have : off + n + ns.sum = off + (n + ns.sum) := by omega
      rw [this]
    | fail => rfl
    | oob => rfl

/-- **fragmentation independence** of the repaired UTF-8 -> UTF-16 loop: every way of cutting the
    object into non-empty regions gives the result of the single-region object -/
theorem frag_independent (flat : List Nat) (lens : List Nat) (hne : lens ≠ [])
    (hp : ∀ n ∈ lens, 0 < n) (hsum : lens.sum = flat.length) :
    toUtf16F flat lens = toUtf16F flat [flat.length] := by
  cases lens with
  | nil => exact absurd rfl hne
  | cons n ns =>
    have hn : 0 < n := hp n (by simp)
    simp only [List.sum_cons] at hsum
    have hR : toUtf16F flat [flat.length] = runTo flat flat.length flat.length 0 [0xfeff] := by
      simp only [toUtf16F, regionsF, Nat.zero_add, if_true]
      cases runTo flat flat.length flat.length 0 [0xfeff] <;> rfl
    rw [hR]
    simp only [toUtf16F, regionsF, Nat.zero_add, if_true]
    rw [runTo_compose flat n flat.length (by omega) _ _ _ (by omega)]
    rw [runTo_fuel flat n n flat.length 0 [0xfeff] (by omega) (by omega)]
    cases hr : runTo flat n flat.length 0 [0xfeff] with
    | ok out' s =>
      simp only []
      rw [regionsF_eq flat ns n out' s hn (fun m hm => hp m (by simp [hm])), hsum]
    | fail => rfl
    | oob => rfl

/-- ... and it never reads outside the object (whatever the bytes are) -/
theorem runTo_no_oob (flat : List Nat) (e : Nat) (he : e ≤ flat.length) : ∀ (f pos : Nat) (out : List Nat),
    runTo flat e f pos out ≠ .oob := by
  intro f
  induction f with
  | zero => intro pos out; simp [runTo]
  | succ f ih =>
    intro pos out
    simp only [runTo]
    by_cases hp : e ≤ pos
    · simp [hp]
    · simp only [hp, if_false]
      have := step1_no_oob flat pos (by omega)
      cases hs : step1 flat pos with
      | emit us n => exact ih _ _
      | fail => simp
      | oob => exact absurd hs this

/-- the current loop and the repaired loop differ exactly on the finding witnesses -/
example : toUtf16F [0x61, 0xc3, 0xa9, 0x62, 0xc3, 0xa9] [2, 3, 1] = .ok [0xfeff, 0x61, 0xe9, 0x62, 0xe9] 0 := by decide
example : toUtf16F [0x7e, 0xef, 0xbb, 0xbf] [1, 2, 1] = .ok [0xfeff, 0x7e, 0xfeff] 0 := by decide
example : toUtf16F [0xef, 0xbb, 0xbf, 0x61] [2, 2] = .ok [0xfeff, 0x61] 0 := by decide

#print axioms frag_independent
#print axioms runTo_no_oob

end Utf8P
