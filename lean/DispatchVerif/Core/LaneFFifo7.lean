import DispatchVerif.Core.LaneFFifo6
namespace LaneF

/-- t takes the lock of an unowned lane -/
theorem acq_step {s : St} (inv : Inv s) (gf : GF s.sh) (lf : ∀ u, LF s.sh u (s.pcs u)) {t : Tid} {op : Op}
    {sh' : Sh} {pc' : Pc} (h : (sh', pc') ∈ step s.sh t (s.pcs t) op)
    (hX : X sh' = X s.sh) (hO0 : s.sh.dq.O = none) (hO : sh'.dq.O ≠ none)
    (hf1 : sh'.pushed = sh'.startedP ++ sh'.pend ++ sh'.items.map (·.id))
    (hh : holds pc' = true) (hi : inHand pc' = false)
    (hsg : sh'.signalled = s.sh.signalled)
    (hw0 : waitId0 pc' = waitId0 (s.pcs t)) :
    PostF s t sh' pc' := by
  simp only [X, Prod.mk.injEq] at hX
  obtain ⟨x1, x2, x3⟩ := hX
  have lt := lf t
  have hp := gf.f4 hO0
  have hns : t ∉ s.sh.signalled := by
    intro hm; have := (inv.g.sig t hm).1; rw [hO0] at this; cases this
  refine ⟨⟨hf1, fun ho => absurd ho hO⟩, ?_, oth_same lf h (by simp [X, x1, x2, x3])⟩
  exact self_owner hh hi (by rw [x1, x2, x3]; exact hp) (by rw [hsg]; exact hns) (d_carry (items_after h) lt.d hw0)
    (d2_carry h lt.d lt.d2).1

/-- the owner t releases the lane -/
theorem rel_step {s : St} (inv : Inv s) (gf : GF s.sh) (lf : ∀ u, LF s.sh u (s.pcs u)) {t : Tid} {op : Op}
    {sh' : Sh} {pc' : Pc} (h : (sh', pc') ∈ step s.sh t (s.pcs t) op)
    (hX : X sh' = X s.sh)
    (hf1 : sh'.pushed = sh'.startedP ++ sh'.pend ++ sh'.items.map (·.id))
    (h0 : holds (s.pcs t) = true) (hi0 : inHand (s.pcs t) = false)
    (hh : holds pc' = false) (hns : ∀ w k, pc' ≠ .dbwSignal w k)
    (hsg : sh'.signalled = s.sh.signalled)
    (hw0 : waitId0 pc' = waitId0 (s.pcs t)) :
    PostF s t sh' pc' := by
  simp only [X, Prod.mk.injEq] at hX
  obtain ⟨x1, x2, x3⟩ := hX
  have lt := lf t
  have hp := lt.p h0 hi0
  have hnsig := ((inv.l t).own h0).2.1
  refine ⟨⟨hf1, fun _ => by rw [x1, x2, x3]; exact hp⟩, ?_, oth_same lf h (by simp [X, x1, x2, x3])⟩
  refine self_free hh hns (by rw [x3, hp.2.2]; simp) ?_ ?_ (d_carry (items_after h) lt.d hw0) (d2_carry h lt.d lt.d2).1
  · intro hm; rw [hsg] at hm; exact absurd hm hnsig
  · intro hc; rw [x2, hp.2.1] at hc; cases hc

set_option maxHeartbeats 8000000 in
theorem fifo_sync {s : St} (inv : Inv s) (gf : GF s.sh) (lf : ∀ u, LF s.sh u (s.pcs u)) {t : Tid} {op : Op}
    {sh' : Sh} {pc' : Pc} (h : (sh', pc') ∈ step s.sh t (s.pcs t) op)
    (hpc : (∃ i, s.pcs t = .sTry i) ∨ (∃ i, s.pcs t = .sRunFast i) ∨ (∃ i, s.pcs t = .sRunningFast i) ∨
      s.pcs t = .sFastUnlock ∨ (∃ i, s.pcs t = .sSlowRmw i) ∨ (∃ i, s.pcs t = .sRunningSlow i) ∨
      (∃ c k, s.pcs t = .bc1 c k) ∨ (∃ tg c k, s.pcs t = .bc2 tg c k)) :
    PostF s t sh' pc' := by
  have f1 := gf.f1
  have lt := lf t
  have h' := h
  rcases hpc with ⟨i, e⟩ | ⟨i, e⟩ | ⟨i, e⟩ | e | ⟨i, e⟩ | ⟨i, e⟩ | ⟨c, k, e⟩ | ⟨tg, c, k, e⟩ <;> rw [e] at h' lt
  · -- sTry
    simp only [step] at h'
    split at h'
    · rename_i hidle
      have hO : s.sh.dq.O = none := by
        simp [Dq.idle] at hidle; cases ho : s.sh.dq.O <;> simp_all
      simp at h'; obtain ⟨rfl, rfl⟩ := h'
      exact acq_step inv gf lf h rfl hO (by simp) f1 rfl rfl rfl (by rw [e]; rfl)
    · simp at h'; obtain ⟨rfl, rfl⟩ := h'
      exact free_step inv gf lf h rfl (Or.inl rfl) f1 rfl (by simp) (by rw [e]; rfl) (fun u hm => hm)
        (by intro hc; obtain ⟨id, h1, _⟩ := lt.c hc; simp [waitId, waitId0] at h1) (by rw [e]; exact Or.inl rfl)
  · -- sRunFast
    simp [step] at h'; obtain ⟨rfl, rfl⟩ := h'
    exact owner_step inv gf lf h rfl (by have := ((inv.l t).own (by rw [e]; rfl)).1.1; rw [this]; simp) f1
      (by rw [e]; rfl) (by rw [e]; rfl) rfl rfl rfl (by rw [e]; rfl)
  · -- sRunningFast
    simp [step] at h'; obtain ⟨rfl, rfl⟩ := h'
    exact owner_step inv gf lf h rfl (by have := ((inv.l t).own (by rw [e]; rfl)).1.1; rw [this]; simp) f1
      (by rw [e]; rfl) (by rw [e]; rfl) rfl rfl rfl (by rw [e]; rfl)
  · -- sFastUnlock
    have hOt := ((inv.l t).own (by rw [e]; rfl)).1.1
    simp only [step] at h'
    split at h'
    · simp at h'; obtain ⟨rfl, rfl⟩ := h'
      exact owner_step inv gf lf h rfl (by rw [hOt]; simp) f1 (by rw [e]; rfl) (by rw [e]; rfl) rfl rfl rfl (by rw [e]; rfl)
    · split at h'
      · simp at h'; obtain ⟨rfl, rfl⟩ := h'
        exact owner_step inv gf lf h rfl (by rw [hOt]; simp) f1 (by rw [e]; rfl) (by rw [e]; rfl) rfl rfl rfl (by rw [e]; rfl)
      · simp at h'; obtain ⟨rfl, rfl⟩ := h'
        exact rel_step inv gf lf h rfl f1 (by rw [e]; rfl) (by rw [e]; rfl) rfl (by simp) rfl (by rw [e]; rfl)
  · -- sSlowRmw
    simp only [step] at h'
    split at h'
    · simp at h'; obtain ⟨rfl, rfl⟩ := h'
      exact free_step inv gf lf h rfl (Or.inl rfl) f1 rfl (by simp) (by rw [e]; rfl) (fun u hm => hm)
        (by intro _; rw [e]; rfl) (by rw [e]; exact Or.inl rfl)
    · rename_i hc
      have hO : s.sh.dq.O = none := by cases ho : s.sh.dq.O <;> simp_all
      simp at h'; obtain ⟨rfl, rfl⟩ := h'
      exact acq_step inv gf lf h rfl hO (by simp) f1 rfl rfl rfl (by rw [e]; rfl)
  · -- sRunningSlow
    simp [step] at h'; obtain ⟨rfl, rfl⟩ := h'
    have hd0 : ∀ it, it ∈ s.sh.items → it.waiter ≠ some t := by
      intro it hm hw; have := lt.d it hm hw; simp [waitId0] at this
    have hOt := ((inv.l t).own (by rw [e]; rfl)).1.1
    -- owner_step needs waitId0 equal; both sides are none
    exact owner_step inv gf lf h rfl (by rw [hOt]; simp) f1 (by rw [e]; rfl) (by rw [e]; rfl) rfl rfl rfl (by rw [e]; rfl)
  · -- bc1
    have hOt := ((inv.l t).own (by rw [e]; rfl)).1.1
    simp only [step] at h'
    split at h'
    · simp at h'; obtain ⟨rfl, rfl⟩ := h'
      exact owner_step inv gf lf h rfl (by rw [hOt]; simp) f1 (by rw [e]; rfl) (by rw [e]; rfl) rfl rfl rfl (by rw [e]; rfl)
    · split at h'
      · simp at h'
      · split at h'
        · simp at h'; obtain ⟨rfl, rfl⟩ := h'
          exact owner_step inv gf lf h rfl (by rw [hOt]; simp) f1 (by rw [e]; rfl) (by rw [e]; rfl) rfl rfl rfl (by rw [e]; rfl)
        · simp at h'; obtain ⟨rfl, rfl⟩ := h'
          exact owner_step inv gf lf h rfl (by rw [hOt]; simp) f1 (by rw [e]; rfl) (by rw [e]; rfl) rfl rfl rfl (by rw [e]; rfl)
  · -- bc2
    have hOt := ((inv.l t).own (by rw [e]; rfl)).1.1
    simp only [step] at h'
    split at h'
    · simp at h'; obtain ⟨rfl, rfl⟩ := h'
      exact rel_step inv gf lf h rfl f1 (by rw [e]; rfl) (by rw [e]; rfl) (kPc_not_holds k) (kPc_not_sig k) rfl
        (by rw [e, waitId0_kPc]; rfl)
    · split at h'
      · simp at h'; obtain ⟨rfl, rfl⟩ := h'
        exact owner_step inv gf lf h rfl (by rw [hOt]; simp) f1 (by rw [e]; rfl) (by rw [e]; rfl) rfl rfl rfl (by rw [e]; rfl)
      · simp at h'; obtain ⟨rfl, rfl⟩ := h'
        exact rel_step inv gf lf h rfl f1 (by rw [e]; rfl) (by rw [e]; rfl) (kPc_not_holds k) (kPc_not_sig k) rfl
          (by rw [e, waitId0_kPc]; rfl)

end LaneF
