/-! C08 at the upper limit of the permit counter (`dsema_value`, a `long`). `dispatch_semaphore_signal` increments it and, in the source,
    refuses the increment that would take it past LONG_MAX (a client crash, "Unbalanced call to dispatch_semaphore_signal()"). As
    found the refusal was written as a test on the incremented value (`orig + 1 == LONG_MIN`), which is undefined behaviour for a
    signed `long`; the compiler dropped it and the counter wrapped (F49). -/
namespace SemaCnt

def LONG_MAX : Int := 9223372036854775807
def LONG_MIN : Int := -9223372036854775808

/-- two's-complement wrap of a 64-bit signed value -/
def wrap (x : Int) : Int := (x + 9223372036854775808) % 18446744073709551616 - 9223372036854775808

/-- as compiled before the repair: the atomic increment wraps, nothing is refused -/
def signalRaw (v : Int) : Int := wrap (v + 1)

/-- as repaired (and as the source always meant): the increment at LONG_MAX is refused -/
def signal (v : Int) : Option Int := if v = LONG_MAX then none else some (v + 1)

/-- **whenever a signal is accepted the counter is exactly one more and still a `long`** - the range in which `SemaP`'s unbounded
    counter describes the word -/
theorem signal_exact (v v' : Int) (hv : LONG_MIN ≤ v ∧ v ≤ LONG_MAX) (h : signal v = some v') :
    v' = v + 1 ∧ LONG_MIN ≤ v' ∧ v' ≤ LONG_MAX ∧ signalRaw v = v' := by
  unfold signal at h
  by_cases hm : v = LONG_MAX
  · rw [if_pos hm] at h; cases h
  · rw [if_neg hm] at h; cases h
    unfold LONG_MAX LONG_MIN signalRaw wrap at *
    refine ⟨rfl, by omega, by omega, by omega⟩

/-- **F49 as found**: a semaphore holding LONG_MAX permits that is signalled once more reads LONG_MIN - "2^63 waiters are queued" -
    and every later wait, a poll included, goes to sleep -/
theorem F49_as_found : signalRaw LONG_MAX = LONG_MIN ∧ signal LONG_MAX = none := by decide

end SemaCnt
