/-! C20 (UTF part): function-level model of `_dispatch_transform_to_utf16` (src/transform.c) as repaired by the
    `fix:` commits for F7, F11 and F12,
    over a *fragmented* input: the per-region block, the `skip` carried between regions, the
    look-ahead through a mapped subrange of the whole object, and the BOM / surrogate tests.

    Bit operations are written arithmetically (`b & 0x3f = b % 64`, `(w << 6) | x = w * 64 + x`
    for `x < 64`) so that `omega` can reason about them; the L-fn comparison checks that reading
    against the compiled code.  A read outside the mapped bytes is an explicit outcome `oob`. -/
namespace Utf8P

/-- `_dispatch_transform_utf8_length` -/
def ulen (b : Nat) : Nat :=
  if b < 128 then 1 else if b / 32 = 6 then 2 else if b / 16 = 14 then 3 else if b / 8 = 30 then 4 else 0

/-- `_dispatch_transform_read_utf8_sequence` on the bytes that are mapped at the pointer: the
    length is re-derived from the first byte, *not* passed in; `none` = reads past the mapped bytes
    (a lead byte of length 0 makes `seq_length--` wrap to 255, which is always past them) -/
def readSeq : List Nat → Option Nat
  | [] => none
  | b0 :: rest =>
    if ulen b0 = 1 then some (b0 % 128)
    else if ulen b0 = 2 then
      match rest with
      | b1 :: _ => some ((b0 % 32) * 64 + b1 % 64)
      | _ => none
    else if ulen b0 = 3 then
      match rest with
      | b1 :: b2 :: _ => some (((b0 % 16) * 64 + b1 % 64) * 64 + b2 % 64)
      | _ => none
    else if ulen b0 = 4 then
      match rest with
      | b1 :: b2 :: b3 :: _ => some ((((b0 % 8) * 64 + b1 % 64) * 64 + b2 % 64) * 64 + b3 % 64)
      | _ => none
    else none

inductive Res where
  | ok (units : List Nat) (skip : Nat)
  | fail
  | oob
  deriving Repr, DecidableEq

/-- what the loop body appends for one decoded value; `none` = return false -/
def emit (wch : Nat) (atBom : Bool) : Option (List Nat) :=
  if wch = 0xfeff ∧ atBom then some []
  else if 0xd800 ≤ wch ∧ wch ≤ 0xdfff then none
  else if 0x10000 ≤ wch then
    some [(wch - 0x10000) / 1024 % 1024 + 0xd800, (wch - 0x10000) % 1024 + 0xdc00]
  else some [wch % 65536]

/-- the `for (i = 0; i < size;)` loop of one region.  `flat` = all bytes of the object, `off` =
    the region's offset as passed by dispatch_data_apply, `src` = the bytes from the current
    pointer to the end of the region, `size`/`i` as in the code (after the `skip` adjustment) -/
def inner (flat : List Nat) (off size : Nat) : Nat → List Nat → Nat → List Nat → Res
  | 0, _, _, out => .ok out 0
  | fuel + 1, src, i, out =>
    if size ≤ i then .ok out 0 else
    match src with
    | [] => .oob
    | b :: _ =>
      let bs := ulen b
      if bs = 0 then .fail
      else if size < bs + i then
        let sub := (flat.drop (off + i)).take bs
        if sub.length ≠ bs then .fail
        else match readSeq sub with
          | none => .oob
          | some wch =>
            match emit wch (off + i == 0) with
            | none => .fail
            | some us => .ok (out ++ us) (bs - (size - i))
      else
        match readSeq src with
        | none => .oob
        | some wch =>
          match emit wch (off + i == 0) with
          | none => .fail
          | some us => inner flat off size fuel (src.drop bs) (i + bs) (out ++ us)

/-- the block run by dispatch_data_apply for one region -/
def region (flat : List Nat) (off : Nat) (r : List Nat) (out : List Nat) (skip : Nat) : Res :=
  let out := if off = 0 then [0xfeff] else out
  if r.length ≤ skip then .ok out (skip - r.length)
  else inner flat (off + skip) (r.length - skip) (r.length - skip) (r.drop skip) 0 out

def regions (flat : List Nat) : Nat → List (List Nat) → List Nat → Nat → Res
  | _, [], out, skip => .ok out skip
  | off, r :: rs, out, skip =>
    match region flat off r out skip with
    | .ok out' skip' => regions flat (off + r.length) rs out' skip'
    | e => e

/-- `_dispatch_transform_to_utf16` on an object whose regions are `rs` (all non-empty);
    the result is in UTF-16 code units, before the byte-order swap -/
def toUtf16 (rs : List (List Nat)) : Res := regions rs.flatten 0 rs [] 0

/-! ### the reference: well-formed UTF-8 -/

/-- shortest-form UTF-8 of a scalar value -/
def enc (c : Nat) : List Nat :=
  if c < 0x80 then [c]
  else if c < 0x800 then [0xc0 + c / 64, 0x80 + c % 64]
  else if c < 0x10000 then [0xe0 + c / 4096, 0x80 + c / 64 % 64, 0x80 + c % 64]
  else [0xf0 + c / 262144, 0x80 + c / 4096 % 64, 0x80 + c / 64 % 64, 0x80 + c % 64]

def scalar (c : Nat) : Prop := c < 0x110000 ∧ ¬ (0xd800 ≤ c ∧ c < 0xe000)

/-- the decoder reads back every scalar value from its encoding, whatever follows it -/
theorem readSeq_enc (c : Nat) (h : c < 0x110000) (tl : List Nat) : readSeq (enc c ++ tl) = some c := by
  unfold enc
  by_cases h1 : c < 0x80
  · have : ulen c = 1 := by unfold ulen; simp [h1]
    simp [h1, readSeq, this]
    all_goals omega
  · by_cases h2 : c < 0x800
    · have hl : ulen (0xc0 + c / 64) = 2 := by
        unfold ulen
        have a : ¬ (0xc0 + c / 64 < 128) := by omega
        have b : (0xc0 + c / 64) / 32 = 6 := by omega
        simp [a, b]
      simp only [h1, h2, if_false, if_true, List.cons_append, List.nil_append, readSeq, hl]
      simp; omega
    · by_cases h3 : c < 0x10000
      · have hl : ulen (0xe0 + c / 4096) = 3 := by
          unfold ulen
          have a : ¬ (0xe0 + c / 4096 < 128) := by omega
          have b : ¬ ((0xe0 + c / 4096) / 32 = 6) := by omega
          have d : (0xe0 + c / 4096) / 16 = 14 := by omega
          simp [a, b, d]
        simp only [h1, h2, h3, if_false, if_true, List.cons_append, List.nil_append, readSeq, hl]
        simp; omega
      · have hl : ulen (0xf0 + c / 262144) = 4 := by
          unfold ulen
          have a : ¬ (0xf0 + c / 262144 < 128) := by omega
          have b : ¬ ((0xf0 + c / 262144) / 32 = 6) := by omega
          have d : ¬ ((0xf0 + c / 262144) / 16 = 14) := by omega
          have e : (0xf0 + c / 262144) / 8 = 30 := by omega
          simp [a, b, d, e]
        simp only [h1, h2, h3, if_false, if_true, List.cons_append, List.nil_append, readSeq, hl]
        simp; omega

/-- ... and the sequence length announced by the first byte is the length of the encoding -/
theorem ulen_enc (c : Nat) (h : c < 0x110000) :
    ∃ b rest, enc c = b :: rest ∧ ulen b = rest.length + 1 := by
  unfold enc
  by_cases h1 : c < 0x80
  · exact ⟨c, [], by simp [h1], by simp [ulen, h1]⟩
  · by_cases h2 : c < 0x800
    · refine ⟨_, _, by simp only [h1, h2, if_false, if_true]; rfl, ?_⟩
      unfold ulen
      have a : ¬ (0xc0 + c / 64 < 128) := by omega
      have b : (0xc0 + c / 64) / 32 = 6 := by omega
      simp [a, b]
    · by_cases h3 : c < 0x10000
      · refine ⟨_, _, by simp only [h1, h2, h3, if_false, if_true]; rfl, ?_⟩
        unfold ulen
        have a : ¬ (0xe0 + c / 4096 < 128) := by omega
        have b : ¬ ((0xe0 + c / 4096) / 32 = 6) := by omega
        have d : (0xe0 + c / 4096) / 16 = 14 := by omega
        simp [a, b, d]
      · refine ⟨_, _, by simp only [h1, h2, h3, if_false, if_true]; rfl, ?_⟩
        unfold ulen
        have a : ¬ (0xf0 + c / 262144 < 128) := by omega
        have b : ¬ ((0xf0 + c / 262144) / 32 = 6) := by omega
        have d : ¬ ((0xf0 + c / 262144) / 16 = 14) := by omega
        have e : (0xf0 + c / 262144) / 8 = 30 := by omega
        simp [a, b, d, e]

/-- UTF-16 of a scalar value -/
def enc16 (c : Nat) : List Nat :=
  if c < 0x10000 then [c] else [(c - 0x10000) / 1024 + 0xd800, (c - 0x10000) % 1024 + 0xdc00]

/-- away from the BOM position the loop body emits exactly the UTF-16 of a scalar value -/
theorem emit_scalar (c : Nat) (h : scalar c) : emit c false = some (enc16 c) := by
  obtain ⟨h1, h2⟩ := h
  unfold emit enc16
  have a : ¬ (0xd800 ≤ c ∧ c ≤ 0xdfff) := by omega
  by_cases hb : c < 0x10000
  · have b : ¬ (0x10000 ≤ c) := by omega
    have e : c % 65536 = c := by omega
    simp [a, b, hb, e]
  · have b : 0x10000 ≤ c := by omega
    have e : (c - 0x10000) / 1024 % 1024 = (c - 0x10000) / 1024 := by omega
    simp [a, b, hb, e]

theorem emit_eq (c : Nat) (b : Bool) (h : ¬ (c = 0xfeff ∧ b = true)) : emit c b = emit c false := by
  unfold emit
  by_cases hc : c = 0xfeff
  · cases b <;> simp_all
  · simp [hc]

theorem enc_bom_length (c : Nat) (h : c = 0xfeff) : (enc c).length = 3 := by subst h; decide

/-- one region holding well-formed UTF-8: the loop emits the UTF-16 of every scalar value, in order
    (a U+FEFF is dropped only when it is the very first character) -/
theorem inner_wf (cs : List Nat) : ∀ (fuel i : Nat) (out : List Nat) (size : Nat) (flat : List Nat),
    (∀ c ∈ cs, scalar c) → (i = 0 → cs.head? ≠ some 0xfeff) →
    size = i + (cs.flatMap enc).length → (cs.flatMap enc).length ≤ fuel →
    inner flat 0 size fuel (cs.flatMap enc) i out = .ok (out ++ cs.flatMap enc16) 0 := by
  induction cs with
  | nil =>
    intro fuel i out size flat _ _ hs _
    cases fuel <;> simp [inner, hs]
  | cons c cs ih =>
    intro fuel i out size flat hsc hb hs hf
    have hc := hsc c (by simp)
    obtain ⟨b, r, he, hl⟩ := ulen_enc c hc.1
    have hrs := readSeq_enc c hc.1 (cs.flatMap enc)
    have hlen : (enc c).length = r.length + 1 := by rw [he]; simp
    simp only [List.flatMap_cons, List.length_append] at hs hf ⊢
    cases fuel with
    | zero => omega
    | succ fuel =>
      have hem : emit c (0 + i == 0) = some (enc16 c) := by
        rw [emit_eq, emit_scalar c hc]
        rintro ⟨h1, h2⟩
        have hi : i = 0 := by simp at h2; omega
        exact hb hi (by simp [h1])
      have hdrop : (enc c ++ cs.flatMap enc).drop (r.length + 1) = cs.flatMap enc := by
        rw [← hlen]; simp
      have hnle : ¬ size ≤ i := by omega
      have hnlt : ¬ size < r.length + 1 + i := by omega
      rw [he] at hrs hdrop
      rw [he]
      simp only [List.cons_append] at hrs hdrop ⊢
      simp only [inner, hnle, if_false, hl, hnlt, hrs, hem]
      simp only [Nat.add_eq_zero_iff, Nat.succ_ne_zero, and_false, if_false]
      rw [hdrop, ih fuel (i + (r.length + 1)) (out ++ enc16 c) size flat
        (fun c' h' => hsc c' (by simp [h'])) (by omega) (by omega) (by omega)]
      simp

/-- a single-region object of well-formed UTF-8 (not starting with a BOM) converts to BOM + UTF-16 -/
theorem single_region_wf (cs : List Nat) (hs : ∀ c ∈ cs, scalar c) (hne : cs ≠ [])
    (hb : cs.head? ≠ some 0xfeff) :
    toUtf16 [cs.flatMap enc] = .ok (0xfeff :: cs.flatMap enc16) 0 := by
  have hpos : 0 < (cs.flatMap enc).length := by
    cases cs with
    | nil => exact absurd rfl hne
    | cons c cs =>
      obtain ⟨b, r, he, _⟩ := ulen_enc c (hs c (by simp)).1
      simp [he]
  have := inner_wf cs (cs.flatMap enc).length 0 [0xfeff] (cs.flatMap enc).length (cs.flatMap enc)
    hs (fun _ => hb) (by omega) (by omega)
  simp only [toUtf16, regions, region, List.flatten_cons, List.flatten_nil, List.append_nil]
  have h0 : ¬ (cs.flatMap enc).length ≤ 0 := by omega
  simp only [h0, if_false, if_true, Nat.sub_zero, List.drop_zero, this, Nat.zero_add]
  simp

/-- drop one leading byte-order mark -/
def dropBom : List Nat → List Nat
  | 0xfeff :: cs => cs
  | cs => cs

/-- … and a text that starts with a byte-order mark converts to BOM + the UTF-16 of the rest: exactly one leading U+FEFF is
    dropped, a second one is an ordinary character -/
theorem single_region_bom (cs : List Nat) (hs : ∀ c ∈ cs, scalar c) :
    toUtf16 [(0xfeff :: cs).flatMap enc] = .ok (0xfeff :: cs.flatMap enc16) 0 := by
  have he : enc 0xfeff = [0xef, 0xbb, 0xbf] := by decide
  have hl : ((0xfeff :: cs).flatMap enc).length = 3 + (cs.flatMap enc).length := by
    simp [List.flatMap_cons, he]; omega
  have hrs := readSeq_enc 0xfeff (by decide) (cs.flatMap enc)
  rw [he] at hrs
  have hw := inner_wf cs (2 + (cs.flatMap enc).length) 3 [0xfeff] (3 + (cs.flatMap enc).length) ((0xfeff :: cs).flatMap enc)
    hs (fun h => absurd h (by decide)) rfl (by omega)
  simp only [toUtf16, regions, region, List.flatten_cons, List.flatten_nil, List.append_nil, hl]
  have h0 : ¬ 3 + (cs.flatMap enc).length ≤ 0 := by omega
  simp only [h0, if_false, if_true, Nat.sub_zero, List.drop_zero, Nat.zero_add]
  simp only [List.flatMap_cons, he, List.cons_append, List.nil_append] at hw hrs ⊢
  have hu : ulen 0xef = 3 := by decide
  have hnlt : ¬ 3 + (cs.flatMap enc).length < 3 + 0 := by omega
  have hem : emit 65279 (0 + 0 == 0) = some [] := by decide
  rw [show 3 + (cs.flatMap enc).length = (2 + (cs.flatMap enc).length) + 1 by omega]
  simp only [inner, h0, if_false, hu, hrs, hem]
  rw [show (2 + (cs.flatMap enc).length) + 1 = 3 + (cs.flatMap enc).length by omega]
  simp only [hnlt, if_false, Nat.reduceEqDiff, List.drop_succ_cons, List.drop_zero, List.append_nil, Nat.zero_add]
  rw [if_neg h0, hw]

/-! ### the defects F7, F11, F12 of the earlier loop, on the repaired one -/

/-- F7 (fixed): `ED BF BF` (U+DFFF) is rejected like every other encoded surrogate -/
theorem F7_fixed : toUtf16 [[0xed, 0xbf, 0xbf]] = .fail := by decide

/-- every encoded surrogate is rejected -/
theorem surrogate_rejected (c : Nat) (h : 0xd800 ≤ c ∧ c ≤ 0xdfff) (b : Bool) : emit c b = none := by
  unfold emit
  have : ¬ (c = 0xfeff) := by omega
  simp [this, h]

/-- F11 (fixed): the witnesses of the wrong-text and over-read defects now give the single-region result -/
theorem F11_fixed :
    toUtf16 [[0x61, 0xc3], [0xa9, 0x62, 0xc3], [0xa9]] = toUtf16 [[0x61, 0xc3, 0xa9, 0x62, 0xc3, 0xa9]] ∧
    toUtf16 [[0x61, 0xe2], [0x82, 0xac, 0xc3], [0xa9]] = toUtf16 [[0x61, 0xe2, 0x82, 0xac, 0xc3, 0xa9]] := by decide

/-- F12 (fixed): the leading-BOM rule no longer depends on the fragmentation -/
theorem F12_fixed :
    toUtf16 [[0x7e, 0xef, 0xbb, 0xbf]] = .ok [0xfeff, 0x7e, 0xfeff] 0 ∧
    toUtf16 [[0x7e], [0xef, 0xbb], [0xbf]] = .ok [0xfeff, 0x7e, 0xfeff] 0 ∧
    toUtf16 [[0xef, 0xbb, 0xbf]] = .ok [0xfeff] 0 ∧
    toUtf16 [[0xef, 0xbb], [0xbf]] = .ok [0xfeff] 0 := by decide

end Utf8P
