import DispatchVerif.Generated.Consts
/-! C01 / C06: the compare-and-swap by which a drainer leaves a queue it could not finish (`_dispatch_queue_invoke_finish`,
    src/queue.c), at the level of the `dq_state` word with the generated constants: give back what is owned, clear the drain-lock
    bits, set DIRTY, and - decided on the very value being written - put ENQUEUED back when the queue is runnable and not enqueued.
    The theorem is the hand-over rule the suspend / resume protocol relies on: a drainer never leaves a runnable queue without
    an enqueued bit, so a resume that finds the drain lock held may leave the re-drive to the lock holder.
    Every successful compare-and-swap the real library makes in that function is replayed through `invokeFinishW`. -/
namespace FinishW
open Gen

def runnable (x : Nat) : Bool := x < DISPATCH_QUEUE_WIDTH_FULL_BIT
def enqMask : Nat := DISPATCH_QUEUE_ENQUEUED ||| DISPATCH_QUEUE_ENQUEUED_ON_MGR
def enqueued (x : Nat) : Bool := x &&& enqMask != 0
/-- `x & ~m` -/
def clearMask (x m : Nat) : Nat := x - (x &&& m)

/-- the body of the rmw loop; `enq` is `DISPATCH_QUEUE_ENQUEUED` or, for the manager queue, `DISPATCH_QUEUE_ENQUEUED_ON_MGR` -/
def sub64 (a b : Nat) : Nat := (a + 2 ^ 64 - b % 2 ^ 64) % 2 ^ 64

/-- `owned` is a 64-bit quantity and the subtraction wraps: after `_dispatch_queue_adjust_owned` has taken the reservation for a
    barrier at the head off it, `owned` is "negative" and the subtraction ADDS the pending-barrier bit and the reserved width -/
def invokeFinishW (old owned enq : Nat) : Nat :=
  let n0 := clearMask (sub64 old owned) DISPATCH_QUEUE_DRAIN_UNLOCK_MASK ||| DISPATCH_QUEUE_DIRTY
  if runnable n0 && !enqueued n0 then n0 ||| enq else n0

theorem enqueued_or_31 (x : Nat) : enqueued (x ||| DISPATCH_QUEUE_ENQUEUED) = true := by
  unfold enqueued
  have h : ((x ||| DISPATCH_QUEUE_ENQUEUED) &&& enqMask).testBit 31 = true := by
    rw [Nat.testBit_and, Nat.testBit_or]
    have h1 : DISPATCH_QUEUE_ENQUEUED.testBit 31 = true := by decide
    have h2 : enqMask.testBit 31 = true := by decide
    rw [h1, h2]; simp
  have : (x ||| DISPATCH_QUEUE_ENQUEUED) &&& enqMask ≠ 0 := by
    intro e; rw [e] at h; simp at h
  simpa using this

theorem enqueued_or_38 (x : Nat) : enqueued (x ||| DISPATCH_QUEUE_ENQUEUED_ON_MGR) = true := by
  unfold enqueued
  have h : ((x ||| DISPATCH_QUEUE_ENQUEUED_ON_MGR) &&& enqMask).testBit 38 = true := by
    rw [Nat.testBit_and, Nat.testBit_or]
    have h1 : DISPATCH_QUEUE_ENQUEUED_ON_MGR.testBit 38 = true := by decide
    have h2 : enqMask.testBit 38 = true := by decide
    rw [h1, h2]; simp
  have : (x ||| DISPATCH_QUEUE_ENQUEUED_ON_MGR) &&& enqMask ≠ 0 := by
    intro e; rw [e] at h; simp at h
  simpa using this

/-- **a drainer never leaves a runnable queue without an enqueued bit** - whatever the word was and whatever it owned -/
theorem finish_runnable_enqueued (old owned enq : Nat)
    (he : enq = DISPATCH_QUEUE_ENQUEUED ∨ enq = DISPATCH_QUEUE_ENQUEUED_ON_MGR)
    (hr : runnable (invokeFinishW old owned enq) = true) : enqueued (invokeFinishW old owned enq) = true := by
  unfold invokeFinishW at hr ⊢
  simp only [] at hr ⊢
  split
  · rcases he with rfl | rfl
    · exact enqueued_or_31 _
    · exact enqueued_or_38 _
  · rename_i hc
    rw [if_neg hc] at hr
    cases hq : enqueued (clearMask (sub64 old owned) DISPATCH_QUEUE_DRAIN_UNLOCK_MASK ||| DISPATCH_QUEUE_DIRTY) with
    | true => rfl
    | false => rw [hr, hq] at hc; simp at hc

/-- … and DIRTY is set in what it writes, so that the next lock holder looks at the list again -/
theorem finish_sets_dirty (old owned enq : Nat) : (invokeFinishW old owned enq).testBit 39 = true := by
  unfold invokeFinishW
  simp only []
  have hd : DISPATCH_QUEUE_DIRTY.testBit 39 = true := by decide
  split
  · rw [Nat.testBit_or, Nat.testBit_or, hd]; simp
  · rw [Nat.testBit_or, hd]; simp

/-! ### replay of a recorded transition: the owned amount is what the fields lost -/

/-- the bits `owned` is made of, apart from an enqueued bit: PENDING_BARRIER, the width field with its full bit, IN_BARRIER
    (bits 40 … 54, contiguous) -/
def ownFields : Nat := DISPATCH_QUEUE_PENDING_BARRIER ||| DISPATCH_QUEUE_WIDTH_MASK ||| DISPATCH_QUEUE_WIDTH_FULL_BIT ||| DISPATCH_QUEUE_IN_BARRIER

/-- candidates for `owned` given the recorded old and new words: the (wrapping) difference of the owned fields, and possibly an
    enqueued bit (the drainer owns the one it was enqueued with) -/
def ownedCandidates (old new : Nat) : List Nat :=
  let base := sub64 (old &&& ownFields) (new &&& ownFields)
  [0, DISPATCH_QUEUE_ENQUEUED, DISPATCH_QUEUE_ENQUEUED_ON_MGR].filterMap fun e =>
    if e = 0 ∨ old &&& e != 0 then some ((base + e) % 2 ^ 64) else none

def explained (old new : Nat) : Bool :=
  (ownedCandidates old new).any fun owned =>
    [DISPATCH_QUEUE_ENQUEUED, DISPATCH_QUEUE_ENQUEUED_ON_MGR].any fun enq => invokeFinishW old owned enq == new

end FinishW
