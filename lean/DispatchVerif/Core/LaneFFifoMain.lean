import DispatchVerif.Core.LaneFFifo9
/-! C02 calibration, main theorem: FIFO of the serial lane. -/
namespace LaneF

theorem fifo_step {s : St} (inv : Inv s) (gf : GF s.sh) (lf : ∀ u, LF s.sh u (s.pcs u)) {t : Tid} {op : Op}
    {sh' : Sh} {pc' : Pc} (h : (sh', pc') ∈ step s.sh t (s.pcs t) op) : PostF s t sh' pc' := by
  cases hpc : s.pcs t with
  | idle => exact fifo_client inv gf lf h (Or.inl hpc)
  | pPushed i w => exact fifo_client inv gf lf h (Or.inr (Or.inl ⟨i, w, hpc⟩))
  | pLinked i w => exact fifo_client inv gf lf h (Or.inr (Or.inr (Or.inl ⟨i, w, hpc⟩)))
  | sSlowPush i => exact fifo_client inv gf lf h (Or.inr (Or.inr (Or.inr (Or.inl ⟨i, hpc⟩))))
  | sSlowLink i w => exact fifo_client inv gf lf h (Or.inr (Or.inr (Or.inr (Or.inr (Or.inl ⟨i, w, hpc⟩)))))
  | wIdle => exact fifo_client inv gf lf h (Or.inr (Or.inr (Or.inr (Or.inr (Or.inr hpc)))))
  | sTry i => exact fifo_sync inv gf lf h (Or.inl ⟨i, hpc⟩)
  | sRunFast i => exact fifo_sync inv gf lf h (Or.inr (Or.inl ⟨i, hpc⟩))
  | sRunningFast i => exact fifo_sync inv gf lf h (Or.inr (Or.inr (Or.inl ⟨i, hpc⟩)))
  | sFastUnlock => exact fifo_sync inv gf lf h (Or.inr (Or.inr (Or.inr (Or.inl hpc))))
  | sSlowRmw i => exact fifo_sync inv gf lf h (Or.inr (Or.inr (Or.inr (Or.inr (Or.inl ⟨i, hpc⟩)))))
  | sRunningSlow i => exact fifo_sync inv gf lf h (Or.inr (Or.inr (Or.inr (Or.inr (Or.inr (Or.inl ⟨i, hpc⟩))))))
  | bc1 c k => exact fifo_sync inv gf lf h (Or.inr (Or.inr (Or.inr (Or.inr (Or.inr (Or.inr (Or.inl ⟨c, k, hpc⟩)))))))
  | bc2 tg c k => exact fifo_sync inv gf lf h (Or.inr (Or.inr (Or.inr (Or.inr (Or.inr (Or.inr (Or.inr ⟨tg, c, k, hpc⟩)))))))
  | sWait i => exact fifo_handoff inv gf lf h (Or.inl ⟨i, hpc⟩)
  | sRunSlow i => exact fifo_handoff inv gf lf h (Or.inr (Or.inl ⟨i, hpc⟩))
  | dbwPop e k => exact fifo_handoff inv gf lf h (Or.inr (Or.inr (Or.inl ⟨e, k, hpc⟩)))
  | dbwRmw w e k => exact fifo_handoff inv gf lf h (Or.inr (Or.inr (Or.inr (Or.inl ⟨w, e, k, hpc⟩))))
  | dbwSignal w k => exact fifo_handoff inv gf lf h (Or.inr (Or.inr (Or.inr (Or.inr ⟨w, k, hpc⟩))))
  | dTryLock => exact fifo_drain inv gf lf h (Or.inl hpc)
  | dInvoke => exact fifo_drain inv gf lf h (Or.inr (Or.inl hpc))
  | dLoopHead => exact fifo_drain inv gf lf h (Or.inr (Or.inr (Or.inl hpc)))
  | dRun i => exact fifo_drain inv gf lf h (Or.inr (Or.inr (Or.inr (Or.inl ⟨i, hpc⟩))))
  | dRunning i => exact fifo_drain inv gf lf h (Or.inr (Or.inr (Or.inr (Or.inr (Or.inl ⟨i, hpc⟩)))))
  | dLoopNext => exact fifo_drain inv gf lf h (Or.inr (Or.inr (Or.inr (Or.inr (Or.inr (Or.inl hpc))))))
  | dUnlock => exact fifo_drain inv gf lf h (Or.inr (Or.inr (Or.inr (Or.inr (Or.inr (Or.inr hpc))))))

structure InvF (s : St) : Prop where
  g : GF s.sh
  l : ∀ u, LF s.sh u (s.pcs u)

theorem invF_reachable {s : St} (h : Reachable s) : InvF s := by
  induction h with
  | init =>
    refine ⟨⟨rfl, fun _ => ⟨rfl, rfl, rfl⟩⟩, fun u => ?_⟩
    refine ⟨fun hh => by simp [holds] at hh, (by intro id e; cases e), (by intro hp; cases hp),
      (by intro w enq k e; cases e), (by intro w k e; cases e), (by intro hm; simp at hm), (by intro id e; cases e),
      (by intro hc; cases hc), (by intro it hm; simp at hm), by simp [countW, cntW]⟩
  | @step s0 s1 hr hs ih =>
    have inv := inv_reachable hr
    cases hs with
    | mk t op sh' pc' h =>
      obtain ⟨g', lt', oth⟩ := fifo_step inv ih.g ih.l h
      refine ⟨g', fun u => ?_⟩
      by_cases e : u = t
      · subst e; simpa using lt'
      · simpa [e] using oth u e

/-- **FIFO of a serial lane**: in every reachable state, for any number of threads and any client
    program, the sequence of pushed items (order of the tail exchange) is the sequence of pushed
    items that have started, followed by at most one that has been popped and is about to start,
    followed by those still queued — in this order. Items start in the order they were pushed, none
    is skipped, none starts twice. -/
theorem serial_fifo {s : St} (h : Reachable s) :
    s.sh.pushed = s.sh.startedP ++ s.sh.pend ++ s.sh.items.map (·.id) := (invF_reachable h).g.f1

/-- when the lane is unowned nothing is "in hand": every pushed item has either started or is still
    queued -/
theorem serial_fifo_unowned {s : St} (h : Reachable s) (ho : s.sh.dq.O = none) :
    s.sh.pushed = s.sh.startedP ++ s.sh.items.map (·.id) := by
  have i := invF_reachable h
  have := i.g.f1
  rw [(i.g.f4 ho).1] at this; simpa using this

end LaneF

section audit
#print axioms LaneF.serial_fifo
#print axioms LaneF.serial_fifo_unowned
end audit
